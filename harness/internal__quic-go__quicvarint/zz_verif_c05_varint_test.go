//go:build verif

package quicvarint

import (
	"bytes"
	"encoding/hex"
	"fmt"
	"io"
	"strconv"
	"testing"
	"testing/iotest"

	"github.com/imroc/req/v3/internal/verifh"
	ref "github.com/quic-go/quic-go/quicvarint"
)

func c05hex(b []byte) string { return verifh.Hex(string(b)) }

// c05hist mirrors the session histogram so that the lane can refuse to pass vacuously.
type c05hist struct {
	s *verifh.Session
	m map[string]int
}

func (h *c05hist) Count(k string) { h.s.Count(k); h.m[k]++ }

func (h *c05hist) Require(t *testing.T, buckets ...string) {
	for _, b := range buckets {
		if h.m[b] == 0 {
			t.Errorf("C05 lane is vacuous: bucket %q not reached", b)
		}
	}
}

// c05values: every length boundary ±2, the 62-bit limit and beyond, and random values per class.
func c05values(s *verifh.Session, nRand int) []uint64 {
	r := s.Rand()
	var vs []uint64
	for _, b := range []uint64{0, 63, 64, 16383, 16384, 1073741823, 1073741824, 4611686018427387903, 4611686018427387904, 1 << 63, ^uint64(0)} {
		for d := -2; d <= 2; d++ {
			v := b + uint64(int64(d))
			vs = append(vs, v)
		}
	}
	for i := 0; i < nRand; i++ {
		switch r.Intn(6) {
		case 0:
			vs = append(vs, uint64(r.Intn(64)))
		case 1:
			vs = append(vs, uint64(64+r.Intn(16384-64)))
		case 2:
			vs = append(vs, uint64(16384+r.Int63n(1073741824-16384)))
		case 3:
			vs = append(vs, uint64(1073741824+r.Int63n(4611686018427387904-1073741824)))
		case 4:
			vs = append(vs, r.Uint64())
		default:
			vs = append(vs, uint64(1)<<uint(r.Intn(64))+uint64(r.Intn(3))-1)
		}
	}
	return vs
}

func c05class(v uint64) string {
	switch {
	case v <= 63:
		return "len1"
	case v <= 16383:
		return "len2"
	case v <= 1073741823:
		return "len4"
	case v <= 4611686018427387903:
		return "len8"
	}
	return "over62"
}

// TestVerif_C05_varintenc: Len / Append / AppendWithLen, fork vs quic-go vs model.
func TestVerif_C05_varintenc(t *testing.T) {
	s := verifh.New(t, "C05", "varintenc",
		"values at every length boundary (0,63,64,16383,16384,2^30-1,2^30,2^62-1,2^62,2^63,2^64-1, each ±2) + random values per length class; for each: Len, Append onto a non-empty prefix, AppendWithLen for lengths {0,1,2,3,4,8,16}; panics are an answer; the fork's bytes are parsed back by quic-go's Parse; non-trivial = value below 2^62")
	vals := c05values(s, verifh.N(600, 60000))
	hs := &c05hist{s, map[string]int{}}
	for _, v := range vals {
		hs.Count(c05class(v))
		vs := strconv.FormatUint(v, 10)
		// Len
		var fl, rl string
		if p, bad := verifh.Safely(func() { fl = strconv.Itoa(Len(v)) }); bad {
			_ = p
			fl = "panic"
		}
		if _, bad := verifh.Safely(func() { rl = strconv.Itoa(ref.Len(v)) }); bad {
			rl = "panic"
		}
		s.Case("c05vlen "+vs, fl, fl == rl, "", v < 1<<62, "Len("+vs+") fork="+fl+" ref="+rl)
		// Append onto a prefix
		prefix := []byte{0xAA, 0xBB}
		var fa, ra string
		if _, bad := verifh.Safely(func() {
			out := Append(append([]byte(nil), prefix...), v)
			if !bytes.HasPrefix(out, prefix) {
				fa = "prefix-lost"
				return
			}
			fa = c05hex(out[2:])
		}); bad {
			fa = "panic"
		}
		if _, bad := verifh.Safely(func() { ra = c05hex(ref.Append(nil, v)) }); bad {
			ra = "panic"
		}
		ok := fa == ra
		if fa != "panic" && ok {
			// decode with the reference
			b, _ := hex.DecodeString(fa)
			got, n, err := ref.Parse(b)
			if err != nil || got != v || n != len(b) {
				ok = false
			}
			if fl != strconv.Itoa(len(b)) {
				ok = false
			}
		}
		s.Case("c05vappend "+vs, fa, ok, "", v < 1<<62, "Append("+vs+") fork="+fa+" ref="+ra)
		// AppendWithLen
		for _, l := range []int{0, 1, 2, 3, 4, 8, 16} {
			var fw, rw string
			if _, bad := verifh.Safely(func() { fw = c05hex(AppendWithLen(nil, v, l)) }); bad {
				fw = "panic"
			}
			if _, bad := verifh.Safely(func() { rw = c05hex(ref.AppendWithLen(nil, v, l)) }); bad {
				rw = "panic"
			}
			ok := fw == rw
			if fw != "panic" && ok {
				b, _ := hex.DecodeString(fw)
				got, n, err := ref.Parse(b)
				if err != nil || got != v || n != l || len(b) != l {
					ok = false
				}
				hs.Count("withlen-ok")
			} else {
				hs.Count("withlen-panic")
			}
			s.Case("c05vappendlen "+vs+" "+strconv.Itoa(l), fw, ok, "", fw != "panic",
				fmt.Sprintf("AppendWithLen(%d,%d) fork=%s ref=%s", v, l, fw, rw))
		}
	}
	s.Finish()
	hs.Require(t, "len1", "len2", "len4", "len8", "over62", "withlen-ok", "withlen-panic")
}

type c05onlyReader struct{ r io.Reader }

func (o c05onlyReader) Read(p []byte) (int, error) { return o.r.Read(p) }

func c05errClass(err error) string {
	switch err {
	case nil:
		return "nil"
	case io.EOF:
		return "eof"
	case io.ErrUnexpectedEOF:
		return "ueof"
	}
	return "other"
}

// TestVerif_C05_varintdec: Parse / Read on encodings, truncations and random bytes.
func TestVerif_C05_varintdec(t *testing.T) {
	s := verifh.New(t, "C05", "varintdec",
		"byte strings: minimal and non-minimal (AppendWithLen) encodings of boundary/random values with 0-3 trailing bytes, every strict prefix of them, all 1-byte strings, random strings of 0..10 bytes; Parse (value, consumed, error class) and Read through bytes.Reader, through NewReader over a plain io.Reader, a one-byte reader and a data+EOF reader; fork vs quic-go vs model; non-trivial = a value was decoded")
	r := s.Rand()
	hs := &c05hist{s, map[string]int{}}
	var inputs [][]byte
	inputs = append(inputs, nil)
	for i := 0; i < 256; i++ {
		inputs = append(inputs, []byte{byte(i)})
	}
	for _, v := range c05values(s, verifh.N(300, 6000)) {
		if v >= 1<<62 {
			continue
		}
		for _, l := range []int{1, 2, 4, 8} {
			if ref.Len(v) > l {
				continue
			}
			enc := ref.AppendWithLen(nil, v, l)
			full := append(append([]byte(nil), enc...), []byte(verifh.RandBytes(r, r.Intn(4), ""))...)
			inputs = append(inputs, full)
			for k := 1; k < len(enc); k++ {
				inputs = append(inputs, enc[:k])
			}
		}
	}
	for i := 0; i < verifh.N(1500, 100000); i++ {
		inputs = append(inputs, []byte(verifh.RandBytes(r, r.Intn(11), "")))
	}
	for _, in := range inputs {
		h := c05hex(in)
		// Parse
		fv, fn, ferr := Parse(in)
		rv, rn, rerr := ref.Parse(in)
		fa := c05errClass(ferr)
		if ferr == nil {
			fa = fmt.Sprintf("ok %d %d", fv, fn)
			hs.Count(fmt.Sprintf("parse-len%d", fn))
		} else {
			hs.Count("parse-" + fa)
		}
		ra := c05errClass(rerr)
		if rerr == nil {
			ra = fmt.Sprintf("ok %d %d", rv, rn)
		}
		ok := fa == ra
		if ferr == nil {
			// re-encoding the parsed value minimally and parsing again gives the same value
			if v2, _, err := Parse(Append(nil, fv)); err != nil || v2 != fv {
				ok = false
			}
		}
		s.Case("c05vparse "+h, fa, ok, "", ferr == nil, "Parse("+h+") fork="+fa+" ref="+ra)
		// Read through several reader shapes
		type mk func([]byte) (io.ByteReader, io.ByteReader)
		shapes := map[string]mk{
			"bytes": func(b []byte) (io.ByteReader, io.ByteReader) { return bytes.NewReader(b), bytes.NewReader(b) },
			"wrapped": func(b []byte) (io.ByteReader, io.ByteReader) {
				return NewReader(c05onlyReader{bytes.NewReader(b)}), ref.NewReader(c05onlyReader{bytes.NewReader(b)})
			},
			"onebyte": func(b []byte) (io.ByteReader, io.ByteReader) {
				return NewReader(iotest.OneByteReader(bytes.NewReader(b))), ref.NewReader(iotest.OneByteReader(bytes.NewReader(b)))
			},
			"dataerr": func(b []byte) (io.ByteReader, io.ByteReader) {
				return NewReader(iotest.DataErrReader(c05onlyReader{bytes.NewReader(b)})), ref.NewReader(iotest.DataErrReader(c05onlyReader{bytes.NewReader(b)}))
			},
		}
		for _, name := range []string{"bytes", "wrapped", "onebyte", "dataerr"} {
			fr, rr := shapes[name](in)
			cf := &c05counting{r: fr}
			cr := &c05counting{r: rr}
			fv, ferr := Read(cf)
			rv, rerr := ref.Read(cr)
			fa := c05errClass(ferr)
			if ferr == nil {
				fa = fmt.Sprintf("ok %d %d", fv, cf.n)
			}
			ra := c05errClass(rerr)
			if rerr == nil {
				ra = fmt.Sprintf("ok %d %d", rv, cr.n)
			}
			hs.Count("read-" + name)
			s.Case("c05vread "+h, fa, fa == ra, "", ferr == nil, "Read["+name+"]("+h+") fork="+fa+" ref="+ra)
		}
	}
	// NewWriter / byteWriter
	for _, v := range []uint64{0, 63, 64, 16384, 1 << 40} {
		var fb, rb bytes.Buffer
		fw := NewWriter(c05onlyWriter{&fb})
		rw := ref.NewWriter(c05onlyWriter{&rb})
		for _, c := range Append(nil, v) {
			fw.WriteByte(c)
			rw.WriteByte(c)
		}
		fw.Write([]byte{1, 2})
		rw.Write([]byte{1, 2})
		s.Observe("writer-"+strconv.FormatUint(v, 10), bytes.Equal(fb.Bytes(), rb.Bytes()) && bytes.Equal(fb.Bytes(), append(ref.Append(nil, v), 1, 2)), "", true, "NewWriter/WriteByte", c05hex(fb.Bytes()))
		if NewWriter(&fb) != Writer(&fb) {
			s.Observe("writer-id", false, "", true, "NewWriter must return a Writer unchanged", "")
		}
	}
	s.Finish()
	hs.Require(t, "parse-len1", "parse-len2", "parse-len4", "parse-len8", "parse-eof", "parse-ueof", "read-dataerr")
}

type c05counting struct {
	r io.ByteReader
	n int
}

func (c *c05counting) ReadByte() (byte, error) {
	b, err := c.r.ReadByte()
	if err == nil {
		c.n++
	}
	return b, err
}

type c05onlyWriter struct{ w io.Writer }

func (o c05onlyWriter) Write(p []byte) (int, error) { return o.w.Write(p) }
