//go:build verif

package dump

import (
	"bytes"
	"encoding/hex"
	"fmt"
	"io"
	"strconv"
	"strings"
	"sync"
	"testing"
	"time"

	"github.com/imroc/req/v3/internal/verifh"
)

// TestVerif_C09_dumpq (model-judged, forced schedule): one real Dumper, the five Dump* entry
// points and the body / header wrappers are called with slices of buffers that the lane goes on
// overwriting (as the transport does with a connection's read buffer, frame buffers, and a caller
// with its body buffer) while the goroutine running Start is held inside Output.Write for as long
// as the lane likes. After every op the bytes every output has received, the length of d.ch,
// "writer parked with a task" and "Start still running" are compared with the Lean model
// Req/Pool/DumpQueue.lean (theorem async_dump_as_received).

type c09dqLane struct {
	mu      sync.Mutex
	async   bool
	free    bool // tear-down: nobody parks any more
	parked  bool
	release chan struct{}
	outs    [5]*c09dqOut
}

type c09dqOut struct {
	lane *c09dqLane
	buf  []byte
}

func (o *c09dqOut) Write(p []byte) (int, error) {
	l := o.lane
	l.mu.Lock()
	park := l.async && !l.free
	if park {
		l.parked = true
	}
	l.mu.Unlock()
	if park {
		<-l.release
	}
	l.mu.Lock()
	o.buf = append(o.buf, p...) // what is behind the pointer NOW
	l.parked = false
	l.mu.Unlock()
	return len(p), nil
}

type c09dqOpts struct{ lane *c09dqLane }

func (o c09dqOpts) Output() io.Writer               { return o.lane.outs[0] }
func (o c09dqOpts) RequestHeaderOutput() io.Writer  { return o.lane.outs[1] }
func (o c09dqOpts) RequestBodyOutput() io.Writer    { return o.lane.outs[2] }
func (o c09dqOpts) ResponseHeaderOutput() io.Writer { return o.lane.outs[3] }
func (o c09dqOpts) ResponseBodyOutput() io.Writer   { return o.lane.outs[4] }
func (o c09dqOpts) RequestHeader() bool             { return true }
func (o c09dqOpts) RequestBody() bool               { return true }
func (o c09dqOpts) ResponseHeader() bool            { return true }
func (o c09dqOpts) ResponseBody() bool              { return true }
func (o c09dqOpts) Async() bool                     { return o.lane.async }
func (o c09dqOpts) Clone() Options                  { return o }

// c09dqSrc hands out exactly the bytes it was given, into the caller's buffer.
type c09dqSrc struct{ data []byte }

func (s *c09dqSrc) Read(p []byte) (int, error) {
	n := copy(p, s.data)
	s.data = s.data[n:]
	return n, nil
}
func (s *c09dqSrc) Close() error { return nil }

type c09dqSink struct{}

func (c09dqSink) Write(p []byte) (int, error) { return len(p), nil }
func (c09dqSink) Close() error                { return nil }

const c09dqBufSize = 16

// one lane step (may be two model ops: a Read into the caller's buffer + the dump of it)
type c09dqLop struct {
	kind        string
	b, lo, n, o int
	data        []byte
	nModel      int
}

func TestVerif_C09_dumpq(t *testing.T) {
	s := verifh.New(t, "C09", "dumpq",
		"op sequences of 12..60 steps on one real Dumper (Async on in 4 of 5 cases): DumpDefault / DumpRequestHeader / DumpRequestBody / DumpResponseHeader / DumpResponseBody / DumpTo(nil output) with slices (offset 0,4,8,12; length 0,1,4,8,16) of 3 buffers of 16 bytes, the same calls through dumpResponseBodyReadCloser.Read (reads INTO the caller's buffer, then dumps it), the request body / header writer wrappers and Dumpers.DumpResponseHeader; the owner overwriting a buffer (whole or in part) at any time; go Start() early, late or never; Stop; the writer goroutine held inside Output.Write and let go one write at a time (output lag 0..20 tasks, runs that fill the channel of 20); after EVERY step: bytes at each of the 5 outputs, len(d.ch), writer parked, Start running vs the Lean model; non-trivial = a buffer was overwritten while a chunk cut from it was queued or in the writer's hands")
	r := s.Rand()
	n := verifh.N(250, 5000)
	nBad := 0
	type c09dqCase struct {
		async      bool
		ops        []string
		lops       []c09dqLop
		line, hum  string
	}
	var all []c09dqCase
	var lines []string
	for cs := 0; cs < n; cs++ {
		async := r.Intn(5) != 0
		steps := 12 + r.Intn(49)
		fill := r.Intn(6) == 0 // long runs without releasing the writer: the channel fills up
		var ops, human []string
		for b := 0; b < 3; b++ {
			ops = append(ops, fmt.Sprintf("W.%d.0.%s", b, hex.EncodeToString([]byte(verifh.RandBytes(r, c09dqBufSize, "abcdefghijklmnopqrstuvwxyz")))))
		}
		// lane-level expansion: one step may be two model ops (a Read into the buffer + its dump)
		type lop = c09dqLop
		var lops []lop
		for i := 0; i < 3; i++ {
			lops = append(lops, lop{kind: "W0", nModel: 1})
		}
		started := false
		startAt := verifh.Pick(r, []int{0, 0, 3, 10, 25, 1000})
		for i := 0; i < steps; i++ {
			if !started && i >= startAt {
				ops = append(ops, "G")
				lops = append(lops, lop{kind: "G", nModel: 1})
				started = true
				continue
			}
			b := r.Intn(3)
			lo := verifh.Pick(r, []int{0, 0, 4, 8, 12})
			ln := verifh.Pick(r, []int{0, 1, 4, 4, 8, 16})
			if lo+ln > c09dqBufSize {
				ln = c09dqBufSize - lo
			}
			x := r.Intn(100)
			if fill && x >= 70 && x < 95 {
				x = 0
			}
			switch {
			case x < 30: // a Dump* method
				o := verifh.Pick(r, []int{0, 1, 2, 3, 3, 4, 4, 9})
				ops = append(ops, fmt.Sprintf("D.%d.%d.%d.%d", b, lo, ln, o))
				lops = append(lops, lop{kind: "D", b: b, lo: lo, n: ln, o: o, nModel: 1})
			case x < 50: // through a wrapper
				kind := verifh.Pick(r, []string{"R", "R", "Q", "H", "T"})
				o := map[string]int{"R": 4, "Q": 2, "H": 1, "T": 3}[kind]
				data := []byte(verifh.RandBytes(r, ln, "ABCDEFGHIJKLMNOPQRSTUVWXYZ"))
				if kind == "R" {
					ops = append(ops, fmt.Sprintf("W.%d.%d.%s", b, lo, c09dqHex(data)), fmt.Sprintf("D.%d.%d.%d.%d", b, lo, ln, o))
					lops = append(lops, lop{kind: kind, b: b, lo: lo, n: ln, o: o, data: data, nModel: 2})
				} else {
					ops = append(ops, fmt.Sprintf("D.%d.%d.%d.%d", b, lo, ln, o))
					lops = append(lops, lop{kind: kind, b: b, lo: lo, n: ln, o: o, nModel: 1})
				}
			case x < 70: // the owner reuses the buffer
				if r.Intn(2) == 0 {
					lo, ln = 0, c09dqBufSize
				}
				data := []byte(verifh.RandBytes(r, ln, "0123456789"))
				ops = append(ops, fmt.Sprintf("W.%d.%d.%s", b, lo, c09dqHex(data)))
				lops = append(lops, lop{kind: "W", b: b, lo: lo, data: data, nModel: 1})
			case x < 95:
				ops = append(ops, "E")
				lops = append(lops, lop{kind: "E", nModel: 1})
			case x < 98:
				ops = append(ops, "P")
				lops = append(lops, lop{kind: "P", nModel: 1})
			default:
				ops = append(ops, "G")
				lops = append(lops, lop{kind: "G", nModel: 1})
			}
		}
		for i := 0; i < 24; i++ { // let the writer catch up at the end
			ops = append(ops, "E")
			lops = append(lops, lop{kind: "E", nModel: 1})
		}
		for _, l := range lops {
			switch l.kind {
			case "W0":
				human = append(human, "init")
			case "D", "R", "Q", "H", "T":
				human = append(human, fmt.Sprintf("%s(buf%d[%d:%d]->out%d)", l.kind, l.b, l.lo, l.lo+l.n, l.o))
			case "W":
				human = append(human, fmt.Sprintf("overwrite(buf%d[%d:%d])", l.b, l.lo, l.lo+len(l.data)))
			default:
				human = append(human, l.kind)
			}
		}
		a := "0"
		if async {
			a = "1"
		}
		line := fmt.Sprintf("c09dumpq %s 5 %s", a, strings.Join(ops, ","))
		hum := "async=" + a + " " + strings.Join(human, " ")
		all = append(all, c09dqCase{async, ops, lops, line, hum})
		lines = append(lines, line)
	}
	// one driver process for all cases: the predictions are needed BEFORE a case runs (blocked steps are not executed)
	answers, err := verifh.RunModel(lines)
	if err != nil {
		t.Fatalf("model: %v", err)
	}
	for ci, c := range all {
		if nBad >= 3 {
			break
		}
		async, ops, lops, line, hum := c.async, c.ops, c.lops, c.line, c.hum
		ans := []string{answers[ci]}
		pred := strings.Split(ans[0], ";")
		if len(pred) != len(ops) {
			s.Case(line, "model-answer-has-"+strconv.Itoa(len(pred))+"-steps", true, "", false, hum)
			nBad++
			continue
		}
		s.Begin(line, hum)
		impl, interesting := c09dqRun(s, async, ops[:3], lops, pred)
		answer := strings.Join(impl, ";")
		s.Case(line, answer, true, "", interesting, hum)
		if answer != ans[0] {
			nBad++
		}
	}
	s.Finish()
}

func c09dqHex(b []byte) string {
	if len(b) == 0 {
		return "_"
	}
	return hex.EncodeToString(b)
}

var _ = bytes.Equal

func c09dqRun(s *verifh.Session, async bool, initOps []string, lops []c09dqLop, pred []string) ([]string, bool) {
	lane := &c09dqLane{async: async, release: make(chan struct{})}
	for i := range lane.outs {
		lane.outs[i] = &c09dqOut{lane: lane}
	}
	d := NewDumper(c09dqOpts{lane})
	bufs := [3][]byte{make([]byte, c09dqBufSize), make([]byte, c09dqBufSize), make([]byte, c09dqBufSize)}
	for b, op := range initOps {
		f := strings.Split(op, ".")
		data, _ := hex.DecodeString(f[3])
		copy(bufs[b], data)
	}
	var running sync.WaitGroup
	alive := false
	var aliveMu sync.Mutex
	dump := func() string {
		lane.mu.Lock()
		defer lane.mu.Unlock()
		aliveMu.Lock()
		r := 0
		if alive {
			r = 1
		}
		aliveMu.Unlock()
		c := 0
		if lane.parked {
			c = 1
		}
		var b strings.Builder
		fmt.Fprintf(&b, "q=%d c=%d r=%d", len(d.ch), c, r)
		for i, o := range lane.outs {
			fmt.Fprintf(&b, " o%d=%s", i, c09dqHex(o.buf))
		}
		return b.String()
	}
	var impl []string
	interesting := false
	// chunks cut from buffer b that may still be queued (lane-side bookkeeping for "non-trivial")
	queuedFrom := [3]int{}
	pi := 0
	stopAll := false
	for _, l := range lops {
		ps := pred[pi : pi+l.nModel]
		pi += l.nModel
		if stopAll {
			break
		}
		skip := false
		for _, p := range ps {
			if p == "blocked" || p == "ign" {
				skip = true
			}
		}
		if l.kind == "W0" {
			impl = append(impl, "ok/"+dump())
			continue
		}
		if skip {
			// the model says the call would sleep on the full channel (or is outside the calling
			// protocol: a second Start, releasing a writer that holds nothing): not executed
			if l.kind == "R" {
				// the Read into the buffer happens, its dump would sleep: the lane performs the
				// memory effect of the read only
				copy(bufs[l.b][l.lo:l.lo+l.n], l.data)
				impl = append(impl, "ok/"+dump(), ps[1])
			} else {
				impl = append(impl, ps...)
			}
			s.Count("steps-not-executed-" + ps[len(ps)-1])
			continue
		}
		p := bufs[l.b][l.lo : l.lo+l.n]
		switch l.kind {
		case "D":
			switch l.o {
			case 0:
				d.DumpDefault(p)
			case 1:
				d.DumpRequestHeader(p)
			case 2:
				d.DumpRequestBody(p)
			case 3:
				d.DumpResponseHeader(p)
			case 4:
				d.DumpResponseBody(p)
			default:
				d.DumpTo(p, nil)
			}
			if l.n > 0 && l.o != 9 {
				queuedFrom[l.b]++
			}
		case "R":
			// first model op: the source's bytes land in the caller's buffer; second: they are dumped
			rc := d.WrapResponseBodyReadCloser(&c09dqSrc{data: l.data})
			rc.Read(p)
			impl = append(impl, ps[0]) // the intermediate state is not observable from outside
			queuedFrom[l.b]++
		case "Q":
			d.WrapRequestBodyWriter(c09dqSink{}).Write(p)
			queuedFrom[l.b]++
		case "H":
			d.WrapRequestHeaderWriter(c09dqSink{}).Write(p)
			queuedFrom[l.b]++
		case "T":
			Dumpers{d}.DumpResponseHeader(p)
			queuedFrom[l.b]++
		case "W":
			if async && queuedFrom[l.b] > 0 {
				interesting = true
				s.Count("overwrite-while-queued")
			}
			copy(bufs[l.b][l.lo:], l.data)
		case "G":
			aliveMu.Lock()
			alive = true
			aliveMu.Unlock()
			running.Add(1)
			go func() {
				defer running.Done()
				d.Start()
				aliveMu.Lock()
				alive = false
				aliveMu.Unlock()
			}()
		case "P":
			d.Stop()
		case "E":
			select {
			case lane.release <- struct{}{}:
			case <-time.After(3 * time.Second):
				impl = append(impl, "no-writer-parked-in-Output.Write")
				stopAll = true
				continue
			}
		}
		s.Count("op-" + l.kind)
		want := strings.TrimPrefix(ps[len(ps)-1], "ok/")
		got := ""
		for dl := time.Now().Add(3 * time.Second); ; {
			got = dump()
			if got == want || time.Now().After(dl) {
				break
			}
			time.Sleep(50 * time.Microsecond)
		}
		if strings.Contains(got, "q=0 c=0") {
			queuedFrom = [3]int{}
		}
		if strings.HasPrefix(got, "q=20") || strings.HasPrefix(got, "q=19") {
			s.Count("channel-nearly-full")
		}
		impl = append(impl, "ok/"+got)
		if got != want {
			stopAll = true
		}
	}
	// tear down: nobody parks any more, the writer drains and is stopped
	lane.mu.Lock()
	lane.free = true
	parked := lane.parked
	lane.mu.Unlock()
	if parked {
		select {
		case lane.release <- struct{}{}:
		case <-time.After(time.Second):
		}
	}
	aliveMu.Lock()
	a := alive
	aliveMu.Unlock()
	if a {
		d.Stop()
		done := make(chan struct{})
		go func() { running.Wait(); close(done) }()
		select {
		case <-done:
		case <-time.After(3 * time.Second):
		}
	}
	return impl, interesting
}
