//go:build verif

package charsets

import (
	"strconv"
	"strings"
	"testing"
	"time"

	"github.com/imroc/req/v3/internal/verifh"
)

// TestVerif_C07_meta: real fromMetaElement vs the Lean model, and FindEncoding (BOM table + HTML
// prescan) on generated hostile markup with a watchdog: both must return on every input.
func TestVerif_C07_meta(t *testing.T) {
	s := verifh.New(t, "C07", "meta",
		"content-attribute strings built from pieces {charset, =, quotes, white space, ;, names} and random bytes for fromMetaElement (compared with the model); HTML fragments (meta tags with duplicate/odd attributes, unterminated tags/comments/quotes, BOMs, NULs, huge attribute values) for FindEncoding (termination/no panic only); non-trivial = contains 'charset'")
	r := s.Rand()
	pieces := []string{"charset", "charset", "charse", "=", "=", " ", "\t", "\n", "\f", "\r", "\"", "'", ";", "gbk", "utf-8", "text/html", "x", "CHARSET", "\x00", "é"}
	n := verifh.N(5000, 300000)
	for i := 0; i < n; i++ {
		var b strings.Builder
		if r.Intn(2) == 0 {
			// mostly-valid stream: prefix ; charset <ws> = <ws> <quote?> name <quote?> tail
			ws := []string{"", "", " ", "\t", " \n", "\f\r"}
			q := verifh.Pick(r, []string{"", "", "\"", "'"})
			q2 := q
			if r.Intn(6) == 0 {
				q2 = verifh.Pick(r, []string{"", "\"", "'"})
			}
			b.WriteString(verifh.Pick(r, []string{"text/html; ", "", "charset x; ", "a=b;", "charset"}))
			b.WriteString("charset" + verifh.Pick(r, ws) + verifh.Pick(r, []string{"=", "=", "=", ":", ""}) + verifh.Pick(r, ws))
			b.WriteString(q + verifh.Pick(r, []string{"gbk", "utf-8", "", "x y", "a;b", "Shift_JIS"}) + q2)
			b.WriteString(verifh.Pick(r, []string{"", ";", " ; x=y", "\"", " charset=big5"}))
		}
		for k := r.Intn(9); k > 0; k-- {
			b.WriteString(verifh.Pick(r, pieces))
		}
		if r.Intn(10) == 0 {
			b.WriteString(verifh.RandBytes(r, r.Intn(12), ""))
		}
		v := b.String()
		done := make(chan string, 1)
		go func() {
			var out string
			ptxt, p := verifh.Safely(func() { out = fromMetaElement(v) })
			if p {
				done <- "panic:" + ptxt
				return
			}
			done <- "ok:" + out
		}()
		select {
		case res := <-done:
			if strings.HasPrefix(res, "panic:") {
				s.Crash("meta:"+verifh.Hex(v), strconv.Quote(v), res, "")
				continue
			}
			out := res[3:]
			if out == "" {
				s.Count("not-found")
			} else {
				s.Count("found")
			}
			s.Case("c07meta "+verifh.Hex(v), verifh.Hex(out), true, "", strings.Contains(v, "charset"), strconv.Quote(v)+" -> "+strconv.Quote(out))
		case <-time.After(10 * time.Second):
			s.Observe("meta:"+verifh.Hex(v), false, "", true, strconv.Quote(v), "fromMetaElement did not return within 10 s (spin)")
		}
	}
	// FindEncoding on hostile markup
	frags := []string{"<meta charset=\"gbk\">", "<meta http-equiv=\"Content-Type\" content=\"text/html; charset=big5\">", "<meta", "<meta charset=", "<meta charset='", "<!--", "<!-- <meta charset=gbk>", "<meta content=\"charset\" content=\"charset=gbk\" http-equiv=content-type>", "<META CHARSET=UTF-16>", "\xff\xfe", "\xfe\xff", "\xef\xbb\xbf", "<script>", "</", "<a b=c d='e' f=\"g\"", "\x00", "<meta charset=x-user-defined>", "<meta http-equiv=refresh content=\"0;charset\">", "<meta charset=\"" + strings.Repeat("k", 3000) + "\">", "<![CDATA[", "<?xml encoding=\"gbk\"?>", "<title>", "<meta charset=gbk/>", "<meta/charset=gbk>", "<meta charset = utf-8 >"}
	m := verifh.N(3000, 100000)
	for i := 0; i < m; i++ {
		var b strings.Builder
		for k := r.Intn(6); k > 0; k-- {
			b.WriteString(verifh.Pick(r, frags))
			if r.Intn(4) == 0 {
				b.WriteString(verifh.RandBytes(r, r.Intn(10), ""))
			}
		}
		v := b.String()
		done := make(chan string, 1)
		go func() {
			var name string
			ptxt, p := verifh.Safely(func() { _, name = FindEncoding([]byte(v)) })
			if p {
				done <- "panic:" + ptxt
				return
			}
			done <- "ok:" + name
		}()
		select {
		case res := <-done:
			if strings.HasPrefix(res, "panic:") {
				s.Crash("find:"+verifh.Hex(v), strconv.Quote(v), res, "")
				continue
			}
			if res == "ok:" {
				s.Count("find-none")
			} else {
				s.Count("find-some")
			}
			s.Observe("find:"+verifh.Hex(v), true, "", strings.Contains(v, "meta"), strconv.Quote(truncate(v, 200))+" -> "+res, "")
		case <-time.After(10 * time.Second):
			s.Observe("find:"+verifh.Hex(v), false, "", true, strconv.Quote(truncate(v, 300)), "FindEncoding did not return within 10 s (spin)")
		}
	}
	s.Finish()
}

func truncate(s string, n int) string {
	if len(s) > n {
		return s[:n] + "…"
	}
	return s
}
