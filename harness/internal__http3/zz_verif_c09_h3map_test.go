//go:build verif

package http3

import (
	"context"
	"crypto/tls"
	"errors"
	"fmt"
	"net/http"
	"sort"
	"strconv"
	"strings"
	"sync"
	"testing"
	"time"

	"github.com/imroc/req/v3/internal/transport"
	"github.com/imroc/req/v3/internal/verifh"
	"github.com/quic-go/quic-go"
)

// TestVerif_C09_h3map: the HTTP/3 client cache (RoundTripper.clients, useCount) of the REAL
// RoundTripper, driven from one goroutine and MODEL-judged (Req/Pool/H3Map.lean). Dials and round
// trips are under the lane's control: RoundTripper.Dial parks until the lane lets the dial
// succeed or fail (or its context is cancelled), RoundTripper.newClient hands out a round tripper
// whose RoundTrip parks until the lane makes it return nil or a connection-level error. After
// every step the cache (host -> client), every client's useCount and closed flag and every
// request's whereabouts are compared with the model.

type c09h3Conn struct {
	quic.EarlyConnection // nil: any method the code under test is not expected to call panics
	ctx                  context.Context
	kill                 context.CancelFunc
	mu                   sync.Mutex
	closed               bool
	hs                   chan struct{}
}

func (c *c09h3Conn) Context() context.Context           { return c.ctx }
func (c *c09h3Conn) HandshakeComplete() <-chan struct{} { return c.hs }
func (c *c09h3Conn) CloseWithError(quic.ApplicationErrorCode, string) error {
	c.mu.Lock()
	c.closed = true
	c.mu.Unlock()
	c.kill()
	return nil
}

type c09h3Client struct {
	idx     int
	host    string
	release chan bool // dial result
	conn    *c09h3Conn
	lane    *c09h3Lane
}

type c09h3RT struct {
	cl *c09h3Client
}

type c09h3Req struct {
	mu     sync.Mutex
	inRT   int // client index while inside RoundTrip, -1 otherwise
	done   bool
	res    string
	cancel context.CancelFunc
	finish chan bool // connErr?
}

type c09h3Lane struct {
	mu      sync.Mutex
	clients []*c09h3Client
	byConn  map[quic.EarlyConnection]*c09h3Client
	reqs    map[int]*c09h3Req
}

func (rt *c09h3RT) OpenRequestStream(context.Context) (RequestStream, error) {
	return nil, errors.New("not used")
}

func (rt *c09h3RT) RoundTrip(req *http.Request) (*http.Response, error) {
	r, _ := strconv.Atoi(req.Header.Get("X-R"))
	rt.cl.lane.mu.Lock()
	rq := rt.cl.lane.reqs[r]
	rt.cl.lane.mu.Unlock()
	rq.mu.Lock()
	rq.inRT = rt.cl.idx
	rq.mu.Unlock()
	connErr := <-rq.finish
	rq.mu.Lock()
	rq.inRT = -1
	rq.mu.Unlock()
	if connErr {
		return nil, errors.New("verif: the connection broke") // not a timeout, not a quic error type: no retry
	}
	return &http.Response{StatusCode: 200, Body: http.NoBody, Header: http.Header{"X-Client": {strconv.Itoa(rt.cl.idx)}}}, nil
}

func TestVerif_C09_h3map(t *testing.T) {
	s := verifh.New(t, "C09", "h3map",
		"the real http3.RoundTripper with parked dials and round trips; 2..4 hosts, up to 10 requests, 10..40 steps drawn from {request r for host h starts (RoundTripOpt, sometimes OnlyCachedConn); the dial of client c succeeds / fails; the connection of c dies; the context of r ends while its dial runs; the round trip of r returns nil / a connection-level error; CloseIdleConnections; Close at the end}; after EVERY step the cache (host -> client), every client's useCount and whether it was closed, and where every request is are compared with the model; non-trivial = a client was shared by two requests and a client was replaced")
	r := s.Rand()
	n := verifh.N(150, 2500)
	nBad := 0
	for cs := 0; cs < n && nBad < 3; cs++ {
		nh := 2 + r.Intn(3)
		maxReq := 10
		nops := 10 + r.Intn(31)
		nextReq := 1
		nClientsGuess := 0
		var ops []string
		var live []int
		for i := 0; i < nops; i++ {
			x := r.Intn(100)
			switch {
			case x < 30 && nextReq <= maxReq:
				oc := "0"
				if r.Intn(6) == 0 {
					oc = "1"
				}
				ops = append(ops, fmt.Sprintf("S.%d.%d.%s", nextReq, 7+r.Intn(nh), oc))
				live = append(live, nextReq)
				nextReq++
				nClientsGuess++
			case x < 50 && nClientsGuess > 0:
				ok := "1"
				if r.Intn(4) == 0 {
					ok = "0"
				}
				ops = append(ops, fmt.Sprintf("D.%d.%s", r.Intn(nClientsGuess), ok))
			case x < 58 && nClientsGuess > 0:
				ops = append(ops, fmt.Sprintf("X.%d", r.Intn(nClientsGuess)))
			case x < 64 && len(live) > 0:
				ops = append(ops, fmt.Sprintf("U.%d", live[r.Intn(len(live))]))
			case x < 90 && len(live) > 0:
				ce := "0"
				if r.Intn(3) == 0 {
					ce = "1"
				}
				ops = append(ops, fmt.Sprintf("F.%d.%s", live[r.Intn(len(live))], ce))
			case x < 97:
				ops = append(ops, "CI")
			default:
				if nextReq <= maxReq {
					ops = append(ops, fmt.Sprintf("S.%d.%d.0", nextReq, 7+r.Intn(nh)))
					live = append(live, nextReq)
					nextReq++
					nClientsGuess++
				}
			}
		}
		if r.Intn(3) == 0 {
			ops = append(ops, "CL")
		}
		line := fmt.Sprintf("c09h3map %d %d %s", maxReq+2, maxReq+2, strings.Join(ops, ","))
		human := strings.Join(ops, " ")
		ans, err := verifh.RunModel([]string{line})
		if err != nil {
			t.Fatalf("model: %v", err)
		}
		pred := strings.Split(ans[0], ";")
		if len(pred) != len(ops) {
			s.Case(line, "model-answer-has-"+strconv.Itoa(len(pred))+"-steps", true, "", false, human)
			nBad++
			continue
		}
		s.Begin(line, human)
		impl, interesting := c09h3Run(t, s, ops, pred)
		answer := strings.Join(impl, ";")
		s.Case(line, answer, true, "", interesting, human)
		if answer != ans[0] {
			nBad++
		}
	}
	s.Finish()
}

func c09h3Run(t *testing.T, s *verifh.Session, ops, pred []string) ([]string, bool) {
	lane := &c09h3Lane{byConn: map[quic.EarlyConnection]*c09h3Client{}, reqs: map[int]*c09h3Req{}}
	rtr := &RoundTripper{Options: &transport.Options{}}
	rtr.Dial = func(ctx context.Context, addr string, _ *tls.Config, _ *quic.Config) (quic.EarlyConnection, error) {
		lane.mu.Lock()
		cl := &c09h3Client{idx: len(lane.clients), host: addr, release: make(chan bool, 1), lane: lane}
		lane.clients = append(lane.clients, cl)
		lane.mu.Unlock()
		select {
		case ok := <-cl.release:
			if !ok {
				return nil, errors.New("verif: dial failed")
			}
		case <-ctx.Done():
			return nil, ctx.Err()
		}
		cctx, kill := context.WithCancel(context.Background())
		hs := make(chan struct{})
		close(hs)
		conn := &c09h3Conn{ctx: cctx, kill: kill, hs: hs}
		lane.mu.Lock()
		cl.conn = conn
		lane.byConn[conn] = cl
		lane.mu.Unlock()
		return conn, nil
	}
	rtr.newClient = func(conn quic.EarlyConnection) singleRoundTripper {
		lane.mu.Lock()
		cl := lane.byConn[conn]
		lane.mu.Unlock()
		return &c09h3RT{cl: cl}
	}
	joinOr := func(l []string) string {
		if len(l) == 0 {
			return "-"
		}
		return strings.Join(l, ",")
	}
	// cache entries in creation order (= the order of the Dial calls: one goroutine drives)
	var known []*roundTripperWithCount
	indexOf := func(cl *roundTripperWithCount) int {
		for i, k := range known {
			if k == cl {
				return i
			}
		}
		return -1
	}
	dump := func() string {
		rtr.mutex.Lock()
		type ent struct {
			h  int
			cl *roundTripperWithCount
		}
		var ents []ent
		for h, cl := range rtr.clients {
			hn, _ := strconv.Atoi(strings.TrimSuffix(strings.TrimPrefix(h, "h"), ".test:443"))
			ents = append(ents, ent{hn, cl})
		}
		rtr.mutex.Unlock()
		sort.Slice(ents, func(i, j int) bool { return ents[i].h < ents[j].h })
		for _, e := range ents {
			if indexOf(e.cl) < 0 {
				known = append(known, e.cl)
			}
		}
		lane.mu.Lock()
		nDials := len(lane.clients)
		lane.mu.Unlock()
		if nDials != len(known) {
			return fmt.Sprintf("entries=%d dials-started=%d", len(known), nDials)
		}
		var m, cs, rs []string
		for _, e := range ents {
			m = append(m, fmt.Sprintf("%d:%d", e.h, indexOf(e.cl)))
		}
		for i, k := range known {
			c := "-" // no connection (dial running or failed): Close() leaves nothing to observe
			select {
			case <-k.dialing:
				if k.conn != nil {
					if fc, ok := k.conn.(*c09h3Conn); ok {
						fc.mu.Lock()
						c = "0"
						if fc.closed {
							c = "1"
						}
						fc.mu.Unlock()
					}
				}
			default:
			}
			cs = append(cs, fmt.Sprintf("%d:%d:%s", i, k.useCount.Load(), c))
		}
		lane.mu.Lock()
		var ids []int
		for id := range lane.reqs {
			ids = append(ids, id)
		}
		lane.mu.Unlock()
		sort.Ints(ids)
		for _, id := range ids {
			lane.mu.Lock()
			rq := lane.reqs[id]
			lane.mu.Unlock()
			rq.mu.Lock()
			switch {
			case rq.done && rq.res == "nocached":
				// returned ErrNoCachedConn: never held a client (the model leaves it "fresh")
			case rq.done:
				rs = append(rs, fmt.Sprintf("%d:o", id))
			case rq.inRT >= 0:
				rs = append(rs, fmt.Sprintf("%d:t%d", id, rq.inRT))
			default:
				rs = append(rs, fmt.Sprintf("%d:w", id))
			}
			rq.mu.Unlock()
		}
		return "M=" + joinOr(m) + " C=" + joinOr(cs) + " R=" + joinOr(rs)
	}
	var impl []string
	shared, replaced := false, false
	for i, op := range ops {
		if pred[i] == "skip" {
			impl = append(impl, "skip")
			s.Count("steps-skipped")
			continue
		}
		s.Count("steps-executed")
		f := strings.Split(op, ".")
		ai := func(j int) int { v, _ := strconv.Atoi(f[j]); return v }
		switch f[0] {
		case "S":
			id := ai(1)
			ctx, cancel := context.WithCancel(context.Background())
			rq := &c09h3Req{inRT: -1, cancel: cancel, finish: make(chan bool, 1)}
			lane.mu.Lock()
			lane.reqs[id] = rq
			lane.mu.Unlock()
			req, _ := http.NewRequestWithContext(ctx, "POST", "https://h"+f[2]+".test/x", nil) // POST: never replayed
			req.Header.Set("X-R", f[1])
			go func() {
				res, err := rtr.RoundTripOpt(req, RoundTripOpt{OnlyCachedConn: f[3] == "1"})
				rq.mu.Lock()
				rq.done = true
				switch {
				case err == ErrNoCachedConn:
					rq.res = "nocached"
				case err != nil:
					rq.res = "err"
				default:
					rq.res = "ok" + res.Header.Get("X-Client")
				}
				rq.mu.Unlock()
			}()
		case "D":
			lane.mu.Lock()
			cl := lane.clients[ai(1)]
			lane.mu.Unlock()
			cl.release <- f[2] == "1"
		case "X":
			lane.mu.Lock()
			cl := lane.clients[ai(1)]
			lane.mu.Unlock()
			cl.conn.kill()
		case "U":
			lane.mu.Lock()
			rq := lane.reqs[ai(1)]
			lane.mu.Unlock()
			rq.cancel()
		case "F":
			lane.mu.Lock()
			rq := lane.reqs[ai(1)]
			lane.mu.Unlock()
			rq.finish <- f[2] == "1"
		case "CI":
			rtr.CloseIdleConnections()
		case "CL":
			rtr.Close()
		}
		want := pred[i]
		got := ""
		for dl := time.Now().Add(3 * time.Second); ; {
			got = dump()
			if got == want || time.Now().After(dl) {
				break
			}
			time.Sleep(100 * time.Microsecond)
		}
		// Quiescence (harness determinism, found under heavy machine load): a dial whose context
		// is done WILL fail, but its goroutine may not have noticed yet although the request
		// that gave up has already returned; the model treats "the dialling request gives up"
		// and "its dial fails" as one step, so wait for the dial goroutine before the next op
		// (otherwise a following request can still join the dying dial — the schedule the
		// model's `retryDial` covers from a different starting state).
		for _, k := range known {
			if k.dialCtx != nil && k.dialCtx.Err() != nil {
				select {
				case <-k.dialing:
				case <-time.After(3 * time.Second):
				}
			}
		}
		impl = append(impl, got)
		if strings.Contains(got, ":2:") {
			shared = true
		}
		if len(known) >= 2 {
			replaced = true
		}
		if got != want {
			break
		}
	}
	// every response was produced by the client the request was inside of
	lane.mu.Lock()
	for id, rq := range lane.reqs {
		rq.mu.Lock()
		if strings.HasPrefix(rq.res, "ok") && rq.res == "ok" {
			impl = append(impl, fmt.Sprintf("request-%d-got-a-response-without-a-client", id))
		}
		rq.mu.Unlock()
	}
	lane.mu.Unlock()
	// tear down: let everything return
	lane.mu.Lock()
	for _, cl := range lane.clients {
		select {
		case cl.release <- false:
		default:
		}
	}
	for _, rq := range lane.reqs {
		rq.cancel()
		select {
		case rq.finish <- false:
		default:
		}
	}
	lane.mu.Unlock()
	rtr.Close()
	return impl, shared && replaced
}
