//go:build verif

package http3

import (
	"bytes"
	"fmt"
	"io"
	"math/rand"
	"net/http"
	"sort"
	"strconv"
	"strings"
	"testing"

	"github.com/imroc/req/v3/internal/verifh"
	"github.com/quic-go/qpack"
	"github.com/quic-go/quic-go"
	refvarint "github.com/quic-go/quic-go/quicvarint"
)

func c05hex(b []byte) string { return verifh.Hex(string(b)) }

type c05hist struct {
	s *verifh.Session
	m map[string]int
}

func newC05hist(s *verifh.Session) *c05hist { return &c05hist{s, map[string]int{}} }

func (h *c05hist) Count(k string) { h.s.Count(k); h.m[k]++ }

func (h *c05hist) Require(t *testing.T, buckets ...string) {
	for _, b := range buckets {
		if h.m[b] == 0 {
			t.Errorf("C05 lane is vacuous: bucket %q not reached", b)
		}
	}
}

func c05b01(b bool) string {
	if b {
		return "1"
	}
	return "0"
}

func c05pick[T any](r *rand.Rand, l ...T) T { return l[r.Intn(len(l))] }

// c05conn records CloseWithError; every other quic.Connection method is never reached by the
// frame parser (a nil embedded interface would panic, which the lane reports as a crash).
type c05conn struct {
	quic.Connection
	closed []uint64
}

func (c *c05conn) CloseWithError(code quic.ApplicationErrorCode, _ string) error {
	c.closed = append(c.closed, uint64(code))
	return nil
}

// c05varint encodes with the REFERENCE encoder, optionally non-minimally.
func c05varint(r *rand.Rand, b []byte, v uint64) []byte {
	l := refvarint.Len(v)
	if r.Intn(5) == 0 {
		for _, cand := range []int{2, 4, 8} {
			if cand > l && r.Intn(2) == 0 {
				return refvarint.AppendWithLen(b, v, cand)
			}
		}
	}
	return refvarint.Append(b, v)
}

func c05pairs(m map[uint64]uint64) string {
	if len(m) == 0 {
		return "-"
	}
	keys := make([]uint64, 0, len(m))
	for k := range m {
		keys = append(keys, k)
	}
	sort.Slice(keys, func(i, j int) bool { return keys[i] < keys[j] })
	var parts []string
	for _, k := range keys {
		parts = append(parts, fmt.Sprintf("%d:%d", k, m[k]))
	}
	return strings.Join(parts, ",")
}

func c05h3err(err error) string {
	if err == io.EOF {
		return "err:eof" // clean end: the stream ended at a frame boundary
	}
	if err == io.ErrUnexpectedEOF {
		// the repaired fork (/repo 690148e, RFC 9114 7.1): the stream ended inside a frame.
		// quic-go v0.48 reports io.EOF here; c05refView maps the fork's answer to the reference's.
		return "err:ueof"
	}
	msg := err.Error()
	switch {
	case strings.HasPrefix(msg, "http3: reserved frame type: "):
		return "err:reserved:" + strings.TrimPrefix(msg, "http3: reserved frame type: ")
	case strings.HasPrefix(msg, "unexpected size for SETTINGS frame"):
		return "err:settings-size"
	case strings.HasPrefix(msg, "duplicate setting"):
		return "err:dup"
	case strings.HasPrefix(msg, "invalid value for SETTINGS_"):
		return "err:value"
	}
	return "err:other"
}

// c05refView is what the pinned reference (quic-go v0.48.2, whose frame parser the fork copies)
// reports where the fork reports r: identical, except that the reference does not tell a truncated
// frame from a clean end (io.EOF in both cases). This is the ONLY documented difference; every other
// class must be identical.
func c05refView(r string) string {
	switch r {
	case "err:ueof":
		return "err:eof"
	}
	return r
}

func c05renderH3(f frame, consumed int) string {
	switch f := f.(type) {
	case *dataFrame:
		return fmt.Sprintf("data %d %d", f.Length, consumed)
	case *headersFrame:
		return fmt.Sprintf("headers %d %d", f.Length, consumed)
	case *settingsFrame:
		return fmt.Sprintf("settings %s %s %s %d", c05b01(f.Datagram), c05b01(f.ExtendedConnect), c05pairs(f.Other), consumed)
	}
	return fmt.Sprintf("?%T", f)
}

// c05settingsPayload: SETTINGS payloads with duplicates, reserved HTTP/2 ids, greased ids, the two
// known settings with 0/1/other values, truncated varints.
func c05settingsPayload(r *rand.Rand) ([]byte, string) {
	var p []byte
	kind := "settings-ok"
	n := c05pick(r, 0, 1, 2, 3, 5, r.Intn(10))
	used := map[uint64]bool{}
	for i := 0; i < n; i++ {
		id := c05pick(r, uint64(0x8), 0x33, 0x1, 0x6, 0x7, 0x2, 0x3, 0x4, 0x5, 0x0, 0x1f*uint64(r.Intn(1000))+0x21, uint64(r.Intn(100)), 1<<62-1, uint64(r.Int63n(1<<62)))
		if used[id] && r.Intn(3) != 0 {
			continue
		}
		if used[id] {
			kind = "settings-dup"
		}
		used[id] = true
		val := c05pick(r, uint64(0), 1, 1, 2, 63, 64, 16383, 16384, 1<<30, 1<<62-1, uint64(r.Int63n(1<<62)))
		if (id == 0x8 || id == 0x33) && r.Intn(4) != 0 {
			val = uint64(r.Intn(2))
		}
		if (id == 0x8 || id == 0x33) && val > 1 && kind == "settings-ok" {
			kind = "settings-badvalue"
		}
		p = c05varint(r, p, id)
		p = c05varint(r, p, val)
	}
	if r.Intn(10) == 0 && len(p) > 0 {
		// ends inside a varint / without a value
		p = append(p, c05pick(r, byte(0x40), 0x80, 0xc0, 0x07))
		kind = "settings-trunc"
	}
	return p, kind
}

// TestVerif_C05_h3frames: frameParser.ParseNext / parseSettingsFrame / the Append methods against
// the model, on streams built with the REFERENCE varint encoder.
func TestVerif_C05_h3frames(t *testing.T) {
	s := verifh.New(t, "C05", "h3frames",
		"HTTP/3 streams built with quic-go's quicvarint (minimal and non-minimal encodings): 0..3 skipped frames (CANCEL_PUSH, PUSH_PROMISE, GOAWAY, MAX_PUSH_ID, greased 0x1f*N+0x21, random unknown types incl. 8-byte varints) then DATA / HEADERS (lengths at every varint boundary) / SETTINGS (duplicates, HTTP/2-reserved ids, greased ids, 0/1/other values of the two known settings, sizes around 8192, truncated payloads) / a reserved type 0x2,0x6,0x8,0x9; truncation at every offset class; parseSettingsFrame called directly with lying lengths; settingsFrame/dataFrame/headersFrame.Append re-parsed by the reference varint reader; non-trivial = a frame was returned")
	r := s.Rand()
	hs := newC05hist(s)
	n := verifh.N(6000, 300000)
	for c := 0; c < n; c++ {
		var in []byte
		kind := ""
		for i := 0; i < c05pick(r, 0, 0, 1, 2, 3); i++ { // skipped frames
			ty := c05pick(r, uint64(0x3), 0x5, 0x7, 0xd, 0x1f*uint64(r.Intn(100000))+0x21, 0xa, 0xe, 0x40, uint64(r.Int63n(1<<62)))
			pl := []byte(verifh.RandBytes(r, c05pick(r, 0, 1, 2, 63, 64, r.Intn(20)), ""))
			in = c05varint(r, in, ty)
			in = c05varint(r, in, uint64(len(pl)))
			in = append(in, pl...)
			kind = "skip+"
		}
		switch r.Intn(10) {
		case 0, 1:
			l := c05pick(r, uint64(0), 1, 63, 64, 16383, 16384, 1<<30-1, 1<<30, 1<<62-1, uint64(r.Int63n(1<<62)))
			in = c05varint(r, in, 0)
			in = c05varint(r, in, l)
			kind += "data"
		case 2, 3:
			l := c05pick(r, uint64(0), 1, 63, 64, 16383, 16384, 1<<30-1, 1<<30, 1<<62-1, uint64(r.Int63n(1<<62)))
			in = c05varint(r, in, 1)
			in = c05varint(r, in, l)
			kind += "headers"
		case 4, 5, 6, 7:
			p, k := c05settingsPayload(r)
			l := uint64(len(p))
			switch r.Intn(12) {
			case 0:
				l += uint64(1 + r.Intn(3)) // longer than available
				k = "settings-short"
			case 1:
				if l > 0 {
					l -= 1
					k = "settings-cutlen"
				}
			case 2: // oversized
				extra := c05pick(r, 8192, 8193, 8190, 9000) - len(p)
				if extra > 0 {
					// pad with a single huge-valued unknown setting list: ids 200.. each 2+1 bytes
					for id := uint64(200); extra >= 3; id++ {
						p = refvarint.AppendWithLen(p, id, 2)
						p = append(p, 0)
						extra -= 3
					}
					l = uint64(len(p))
					k = "settings-big"
				}
			}
			in = c05varint(r, in, 4)
			in = c05varint(r, in, l)
			in = append(in, p...)
			kind += k
		case 8:
			ty := c05pick(r, uint64(2), 6, 8, 9)
			in = c05varint(r, in, ty)
			in = c05varint(r, in, uint64(r.Intn(10)))
			kind += "reserved"
		default: // only skipped frames / nothing: EOF
			kind += "eof"
		}
		in = append(in, []byte(verifh.RandBytes(r, r.Intn(3), ""))...)
		if r.Intn(8) == 0 && len(in) > 0 {
			in = in[:r.Intn(len(in))]
			kind += "+cut"
		}
		rd := bytes.NewReader(in)
		conn := &c05conn{}
		fp := &frameParser{r: rd, conn: conn}
		var f frame
		var err error
		if p, bad := verifh.Safely(func() { f, err = fp.ParseNext() }); bad {
			s.Crash("h3next "+c05hex(in), kind, p, "")
			continue
		}
		impl := ""
		ok := true
		if err != nil {
			impl = c05h3err(err)
			// a reserved type must also close the connection with H3_FRAME_UNEXPECTED (0x105)
			if strings.HasPrefix(impl, "err:reserved") && (len(conn.closed) != 1 || conn.closed[0] != 0x105) {
				ok = false
			}
			hs.Count(strings.Join(strings.Split(impl, ":")[:2], ":"))
		} else {
			impl = c05renderH3(f, len(in)-rd.Len())
			hs.Count("ok-" + strings.SplitN(impl, " ", 2)[0])
		}
		hs.Count(kind)
		s.Case("c05h3next "+c05hex(in), impl, ok, "", err == nil, "["+kind+"] "+c05hex(in)+" -> "+impl)
	}
	// parseSettingsFrame directly
	for c := 0; c < verifh.N(2500, 100000); c++ {
		p, kind := c05settingsPayload(r)
		l := uint64(len(p))
		switch r.Intn(10) {
		case 0:
			l = c05pick(r, uint64(8192), 8193, 1<<62-1, l+1, l+5)
		case 1:
			if l > 0 {
				l = uint64(r.Intn(int(l)))
			}
		}
		rd := bytes.NewReader(p)
		f, err := parseSettingsFrame(rd, l)
		impl := ""
		if err != nil {
			impl = c05h3err(err)
			hs.Count("direct-" + impl)
		} else {
			impl = c05renderH3(f, len(p)-rd.Len())
			hs.Count("direct-ok")
		}
		hs.Count(kind)
		s.Case(fmt.Sprintf("c05h3settings %d %s", l, c05hex(p)), impl, true, "", err == nil, "["+kind+"] l="+fmt.Sprint(l)+" "+c05hex(p)+" -> "+impl)
	}
	// Append methods
	for c := 0; c < verifh.N(1500, 60000); c++ {
		l := c05pick(r, uint64(0), 1, 63, 64, 16383, 16384, 1<<30-1, 1<<30, 1<<62-1, 1<<62, uint64(r.Int63()))
		for _, which := range []string{"data", "headers"} {
			var out []byte
			impl := ""
			if _, bad := verifh.Safely(func() {
				if which == "data" {
					out = (&dataFrame{Length: l}).Append([]byte{0xEE})
				} else {
					out = (&headersFrame{Length: l}).Append([]byte{0xEE})
				}
			}); bad {
				impl = "panic"
			} else {
				impl = c05hex(out[1:])
			}
			ok := true
			if impl != "panic" {
				// the reference reader decodes what was appended
				br := bytes.NewReader(out[1:])
				ty, e1 := refvarint.Read(br)
				ln, e2 := refvarint.Read(br)
				want := uint64(0)
				if which == "headers" {
					want = 1
				}
				ok = out[0] == 0xEE && e1 == nil && e2 == nil && ty == want && ln == l && br.Len() == 0
			}
			hs.Count("append-" + which)
			s.Case(fmt.Sprintf("c05h3append %s %d", which, l), impl, ok, "", impl != "panic", which+".Append "+fmt.Sprint(l)+" -> "+impl)
		}
		// settings
		sf := &settingsFrame{Datagram: r.Intn(2) == 0, ExtendedConnect: r.Intn(2) == 0}
		k := c05pick(r, 0, 0, 1, 2, 5, r.Intn(12))
		for i := 0; i < k; i++ {
			if sf.Other == nil {
				sf.Other = map[uint64]uint64{}
			}
			id := c05pick(r, uint64(0x1), 0x6, 0x7, 0x1f*uint64(r.Intn(1000))+0x21, uint64(r.Intn(64)), 64+uint64(r.Intn(100)), uint64(r.Int63n(1<<62)))
			if id == 0x8 || id == 0x33 {
				continue
			}
			sf.Other[id] = c05pick(r, uint64(0), 1, 63, 64, 16383, 16384, 1<<30, 1<<62-1, uint64(r.Int63n(1<<62)))
		}
		out := sf.Append(nil)
		// recover the iteration order the encoder used, with the reference varint reader, and
		// check the framing independently
		br := bytes.NewReader(out)
		ty, _ := refvarint.Read(br)
		ln, _ := refvarint.Read(br)
		ok := ty == 4 && int(ln) == br.Len()
		var order []string
		seen := map[uint64]uint64{}
		gotDG, gotEC := false, false
		for br.Len() > 0 {
			id, e1 := refvarint.Read(br)
			v, e2 := refvarint.Read(br)
			if e1 != nil || e2 != nil {
				ok = false
				break
			}
			switch {
			case id == 0x33 && v == 1 && !gotDG && len(order) == 0 && !gotEC:
				gotDG = true
			case id == 0x8 && v == 1 && !gotEC && len(order) == 0:
				gotEC = true
			default:
				order = append(order, fmt.Sprintf("%d:%d", id, v))
				seen[id] = v
			}
		}
		if gotDG != sf.Datagram || gotEC != sf.ExtendedConnect || len(seen) != len(sf.Other) {
			ok = false
		}
		for id, v := range sf.Other {
			if sv, has := seen[id]; !has || sv != v {
				ok = false
			}
		}
		// and the fork parses its own output back
		back, err := (&frameParser{r: bytes.NewReader(out), conn: &c05conn{}}).ParseNext()
		if err != nil {
			ok = false
		} else if bs, isS := back.(*settingsFrame); !isS || bs.Datagram != sf.Datagram || bs.ExtendedConnect != sf.ExtendedConnect || c05pairs(bs.Other) != c05pairs(sf.Other) {
			ok = false
		}
		ord := "-"
		if len(order) > 0 {
			ord = strings.Join(order, ",")
		}
		hs.Count("append-settings")
		s.Case(fmt.Sprintf("c05h3append settings %s %s %s", c05b01(sf.Datagram), c05b01(sf.ExtendedConnect), ord), c05hex(out), ok, "", true,
			fmt.Sprintf("settingsFrame.Append dg=%v ec=%v other=%s -> %s", sf.Datagram, sf.ExtendedConnect, c05pairs(sf.Other), c05hex(out)))
	}
	s.Finish()
	hs.Require(t, "ok-data", "ok-headers", "ok-settings", "err:eof", "err:ueof", "err:reserved", "err:dup", "err:value", "err:settings-size",
		"direct-ok", "direct-err:eof", "direct-err:dup", "direct-err:settings-size", "append-data", "append-settings",
		"settings-dup", "settings-badvalue", "settings-trunc")
}

// ---------------------------------------------------------------- field sections

func c05isDigits(s string) bool {
	if s == "" {
		return false
	}
	for i := 0; i < len(s); i++ {
		if s[i] < '0' || s[i] > '9' {
			return false
		}
	}
	return true
}

const c05tokenChars = "!#$%&'*+-.^_`|~0123456789abcdefghijklmnopqrstuvwxyzABCDEFGHIJKLMNOPQRSTUVWXYZ"

// c05rfcRegular: what RFC 9114 §4.2 (with RFC 9110 §5.1/§5.5 for the field syntax) requires of
// one regular field of a received section. Written from the RFC text, not from headers.go.
func c05rfcRegular(name, value string) bool {
	if name == "" {
		return false
	}
	for i := 0; i < len(name); i++ {
		if !strings.ContainsRune(c05tokenChars, rune(name[i])) || name[i] >= 0x80 {
			return false // not a token
		}
		if name[i] >= 'A' && name[i] <= 'Z' {
			return false // §4.2: field names MUST be lowercase
		}
	}
	for i := 0; i < len(value); i++ {
		if (value[i] < 0x20 && value[i] != '\t') || value[i] == 0x7f {
			return false // field-value: VCHAR / obs-text / SP / HTAB
		}
	}
	switch name { // §4.2: connection-specific fields
	case "connection", "keep-alive", "proxy-connection", "transfer-encoding", "upgrade":
		return false
	case "te":
		return value == "trailers"
	}
	return true
}

// c05rfcResponse: RFC 9114 §4.2, §4.3, §4.3.2 for a response header section (plus the
// Content-Length agreement rule of §4.1.2 as headers.go implements it, see notes/C05.md).
func c05rfcResponse(fs []qpack.HeaderField) bool {
	sawRegular, sawStatus := false, false
	cl, haveCL := "", false
	for _, f := range fs {
		if strings.HasPrefix(f.Name, ":") {
			if sawRegular { // §4.3: pseudo-header fields precede regular fields
				return false
			}
			if f.Name != ":status" { // §4.3: request / undefined pseudo-header fields
				return false
			}
			if len(f.Value) != 3 || !c05isDigits(f.Value) { // §4.3.2 + RFC 9110 §15: three digits
				return false
			}
			sawStatus = true
			continue
		}
		sawRegular = true
		if !c05rfcRegular(f.Name, f.Value) {
			return false
		}
		if f.Name == "content-length" {
			if haveCL && cl != f.Value {
				return false
			}
			cl, haveCL = f.Value, true
		}
	}
	if !sawStatus { // §4.3.2: :status MUST be included
		return false
	}
	if cl != "" {
		if !c05isDigits(cl) {
			return false
		}
		if _, err := strconv.ParseUint(cl, 10, 63); err != nil {
			return false // implementation limit: int64
		}
	}
	return true
}

// c05rfcTrailer: RFC 9114 §4.3 (no pseudo-header fields in trailers) and §4.2.
func c05rfcTrailer(fs []qpack.HeaderField) bool {
	for _, f := range fs {
		if strings.HasPrefix(f.Name, ":") {
			return false
		}
		if !c05rfcRegular(f.Name, f.Value) {
			return false
		}
	}
	return true
}

func c05headerMap(h http.Header) string {
	if len(h) == 0 {
		return "-"
	}
	keys := make([]string, 0, len(h))
	for k := range h {
		keys = append(keys, k)
	}
	sort.Strings(keys)
	var parts []string
	for _, k := range keys {
		parts = append(parts, verifh.Hex(k)+"="+verifh.HexList(h[k]))
	}
	return strings.Join(parts, ";")
}

func c05trailerKeys(h http.Header) string {
	if h == nil {
		return "none"
	}
	keys := make([]string, 0, len(h))
	for k := range h {
		keys = append(keys, k)
	}
	sort.Strings(keys)
	return verifh.HexList(keys)
}

// c05respFields: a mostly-valid response section with 0..2 faults.
func c05respFields(r *rand.Rand, trailer bool) ([]qpack.HeaderField, string) {
	val := func() string {
		switch r.Intn(10) {
		case 0:
			return ""
		case 1:
			return "a\tb c"
		case 2:
			return "caf\xc3\xa9 \xff"
		default:
			return verifh.RandBytes(r, 1+r.Intn(10), "abcdefghijklmnopqrstuvwxyz0123456789 ;=/,")
		}
	}
	regular := []string{"content-type", "server", "x-a", "x-b", "set-cookie", "date", "a", "x-custom-header", "etag", "vary", "x_y", "x.y~z"}
	var fs []qpack.HeaderField
	kind := "valid"
	if !trailer {
		fs = append(fs, qpack.HeaderField{Name: ":status", Value: c05pick(r, "200", "200", "204", "304", "404", "500", "100", "999", "000")})
	}
	for i := 0; i < r.Intn(6); i++ {
		fs = append(fs, qpack.HeaderField{Name: verifh.Pick(r, regular), Value: val()})
	}
	if !trailer && r.Intn(3) == 0 {
		fs = append(fs, qpack.HeaderField{Name: "content-length", Value: c05pick(r, "0", "5", "123456", "007", "9223372036854775807")})
		kind = "valid+cl"
	}
	if !trailer && r.Intn(6) == 0 {
		fs = append(fs, qpack.HeaderField{Name: "trailer", Value: c05pick(r, "x-t", "x-t, x-u", " x-t ,x-u,, x-t", "X-T")})
		if r.Intn(2) == 0 {
			fs = append(fs, qpack.HeaderField{Name: "trailer", Value: "x-v"})
		}
		kind = "valid+trailer"
	}
	if r.Intn(6) == 0 {
		fs = append(fs, qpack.HeaderField{Name: "te", Value: "trailers"})
	}
	insert := func(f qpack.HeaderField) {
		at := r.Intn(len(fs) + 1)
		fs = append(fs[:at], append([]qpack.HeaderField{f}, fs[at:]...)...)
	}
	for k := 0; k < c05pick(r, 0, 0, 0, 1, 1, 1, 1, 2); k++ {
		switch r.Intn(17) {
		case 0:
			insert(qpack.HeaderField{Name: c05pick(r, "X-Upper", "Content-Type", "xA", "SERVER"), Value: "1"})
			kind = "upper-case"
		case 1:
			insert(qpack.HeaderField{Name: c05pick(r, "connection", "keep-alive", "proxy-connection", "transfer-encoding", "upgrade"), Value: c05pick(r, "close", "chunked", "x")})
			kind = "connection-field"
		case 2:
			insert(qpack.HeaderField{Name: "te", Value: c05pick(r, "gzip", "", "trailers, deflate", "Trailers")})
			kind = "te"
		case 3:
			fs = append(fs, qpack.HeaderField{Name: ":status", Value: "200"})
			kind = "pseudo-late"
		case 4:
			insert(qpack.HeaderField{Name: c05pick(r, ":path", ":method", ":authority", ":scheme", ":protocol"), Value: "x"})
			kind = "request-pseudo"
		case 5:
			insert(qpack.HeaderField{Name: c05pick(r, ":foo", ":", ":status ", ":Status", ":statu"), Value: "200"})
			kind = "unknown-pseudo"
		case 6:
			insert(qpack.HeaderField{Name: c05pick(r, "", "x a", "x\x00", "caf\xc3\xa9", "x:y", "x(y)", "\xff", "x\ty"), Value: "1"})
			kind = "bad-name"
		case 7:
			insert(qpack.HeaderField{Name: "x-a", Value: c05pick(r, "a\x00b", "a\nb", "a\rb", "\x7f", "a\x1fb")})
			kind = "bad-value"
		case 8:
			if !trailer && len(fs) > 0 && fs[0].Name == ":status" {
				fs[0].Value = c05pick(r, "", "20", "2000", "+200", "-200", "2 0", "abc", "0200", " 200", "200 ", "2e2", "٢٠٠", "99999999999999999999")
				kind = "bad-status"
			}
		case 9:
			if !trailer && len(fs) > 0 && fs[0].Name == ":status" {
				fs = fs[1:]
				kind = "no-status"
			}
		case 10:
			insert(qpack.HeaderField{Name: "content-length", Value: c05pick(r, "abc", "-1", "+5", "1 2", "9223372036854775808", "99999999999999999999", "0x10", "5,5", " 5")})
			kind = "bad-cl"
		case 11:
			v := c05pick(r, "5", "10", "0")
			insert(qpack.HeaderField{Name: "content-length", Value: v})
			insert(qpack.HeaderField{Name: "content-length", Value: c05pick(r, v, v, "6", "05", "")})
			kind = "dup-cl"
		case 12:
			insert(qpack.HeaderField{Name: "content-length", Value: ""})
			kind = "empty-cl"
		case 13:
			if !trailer {
				insert(qpack.HeaderField{Name: ":status", Value: c05pick(r, "200", "404", "abc", "")})
				kind = "dup-status"
			}
		case 14:
			fs = nil
			kind = "empty"
		}
	}
	return fs, kind
}

// TestVerif_C05_h3fields: updateResponseFromHeaders / parseTrailers / parseHeaders(request) on
// generated field sections, against the model and against the RFC 9114 predicate.
func TestVerif_C05_h3fields(t *testing.T) {
	s := verifh.New(t, "C05", "h3fields",
		"decoded field sections: mostly-valid response sections (status codes, regular fields with odd-but-legal values, content-length incl. leading zeros and 2^63-1, Trailer lists) with 0..2 faults: upper-case names, connection-specific fields, TE other than trailers, pseudo-header after a regular field, request/unknown pseudo-headers, empty/non-token/non-ASCII names, control bytes in values, :status missing/duplicated/not three digits, content-length malformed/contradicting/duplicated/empty; the same for trailer sections and (fewer) request sections; answer = accept/reject + status, content length, header map, announced trailer keys; oracle = accept iff the independently written RFC 9114 4.2/4.3 predicate holds; non-trivial = section accepted")
	r := s.Rand()
	hs := newC05hist(s)
	enc := func(fs []qpack.HeaderField) (string, string) {
		ns := make([]string, len(fs))
		vs := make([]string, len(fs))
		for i, f := range fs {
			ns[i], vs[i] = f.Name, f.Value
		}
		return verifh.HexList(ns), verifh.HexList(vs)
	}
	known := map[string]int{}
	n := verifh.N(8000, 400000)
	for c := 0; c < n; c++ {
		fs, kind := c05respFields(r, false)
		rsp := &http.Response{}
		var err error
		if p, bad := verifh.Safely(func() { err = updateResponseFromHeaders(rsp, fs) }); bad {
			s.Crash("h3fields resp", kind, p, "")
			continue
		}
		impl := "err"
		if err == nil {
			impl = fmt.Sprintf("ok %d %s %d %s %s", rsp.StatusCode, verifh.Hex(strings.SplitN(rsp.Status, " ", 2)[0]), rsp.ContentLength, c05headerMap(rsp.Header), c05trailerKeys(rsp.Trailer))
			if rsp.Proto != "HTTP/3.0" || rsp.ProtoMajor != 3 {
				impl += " !proto"
			}
		}
		rfc := c05rfcResponse(fs)
		// known finding C05-2: the section is fine except that a :status value is not three
		// digits, and the pinned code accepts it (strconv.Atoi).
		class := ""
		if !rfc && err == nil {
			fixed := make([]qpack.HeaderField, len(fs))
			copy(fixed, fs)
			for i := range fixed {
				if fixed[i].Name == ":status" {
					fixed[i].Value = "200"
				}
			}
			if c05rfcResponse(fixed) {
				class = "h3-status-not-3-digits"
			}
		}
		hs.Count(kind)
		hs.Count("resp-" + strings.SplitN(impl, " ", 2)[0])
		if class != "" {
			// report a known finding a few times only: the harness keeps a bounded list of
			// mismatches and a new violation must not drown in known ones
			if known[class]++; known[class] > 3 {
				hs.Count("known-finding-not-repeated")
				continue
			}
		}
		ns, vs := enc(fs)
		s.Case("c05h3fields resp "+ns+" "+vs, impl, (err == nil) == rfc, class, err == nil,
			fmt.Sprintf("[resp %s] %q -> %s (rfc=%v)", kind, fs, impl, rfc))
	}
	for c := 0; c < n/3; c++ {
		fs, kind := c05respFields(r, true)
		var h http.Header
		var err error
		if p, bad := verifh.Safely(func() { h, err = parseTrailers(fs) }); bad {
			s.Crash("h3fields trailers", kind, p, "")
			continue
		}
		impl := "err"
		if err == nil {
			impl = "ok " + c05headerMap(h)
		}
		rfc := c05rfcTrailer(fs)
		// known finding C05-3: no pseudo-header field, but a name/value/connection-field the
		// RFC forbids, accepted by the pinned parseTrailers.
		class := ""
		if !rfc && err == nil {
			class = "h3-trailer-unvalidated"
		}
		hs.Count("trailer-" + kind)
		hs.Count("trailers-" + strings.SplitN(impl, " ", 2)[0])
		if class != "" {
			if known[class]++; known[class] > 3 {
				hs.Count("known-finding-not-repeated")
				continue
			}
		}
		ns, vs := enc(fs)
		s.Case("c05h3fields trailers "+ns+" "+vs, impl, (err == nil) == rfc, class, err == nil,
			fmt.Sprintf("[trailers %s] %q -> %s (rfc=%v)", kind, fs, impl, rfc))
	}
	for c := 0; c < n/4; c++ {
		fs, kind := c05respFields(r, true)
		pre := []qpack.HeaderField{{Name: ":method", Value: c05pick(r, "GET", "POST", "CONNECT")}, {Name: ":path", Value: "/p?q"}, {Name: ":scheme", Value: "https"}, {Name: ":authority", Value: "example.com"}}
		r.Shuffle(len(pre), func(i, j int) { pre[i], pre[j] = pre[j], pre[i] })
		pre = pre[:c05pick(r, 4, 4, 4, 3, 2)]
		if r.Intn(6) == 0 {
			pre = append(pre, qpack.HeaderField{Name: c05pick(r, ":protocol", ":status", ":foo"), Value: "200"})
		}
		fs = append(pre, fs...)
		if r.Intn(4) == 0 {
			fs = append(fs, qpack.HeaderField{Name: "content-length", Value: c05pick(r, "0", "12", "x", "")})
		}
		var h header
		var err error
		if p, bad := verifh.Safely(func() { h, err = parseHeaders(fs, true) }); bad {
			s.Crash("h3fields req", kind, p, "")
			continue
		}
		impl := "err"
		if err == nil {
			impl = fmt.Sprintf("ok %s %s %s %s %s %d %s", verifh.Hex(h.Path), verifh.Hex(h.Method), verifh.Hex(h.Authority), verifh.Hex(h.Scheme), verifh.Hex(h.Protocol), h.ContentLength, c05headerMap(h.Headers))
		}
		hs.Count("req-" + strings.SplitN(impl, " ", 2)[0])
		ns, vs := enc(fs)
		s.Case("c05h3fields req "+ns+" "+vs, impl, true, "", err == nil, fmt.Sprintf("[req %s] %q -> %s", kind, fs, impl))
	}
	s.Finish()
	hs.Require(t, "resp-ok", "resp-err", "trailers-ok", "trailers-err", "req-ok", "req-err", "valid", "valid+cl", "valid+trailer", "upper-case", "connection-field", "te",
		"pseudo-late", "request-pseudo", "unknown-pseudo", "bad-name", "bad-value", "bad-status", "no-status", "bad-cl", "dup-cl", "empty-cl", "dup-status", "empty",
		"trailer-upper-case", "trailer-request-pseudo", "trailer-connection-field")
}
