//go:build verif

package http3

import (
	"bytes"
	"fmt"
	"io"
	"strings"
	"testing"
	"testing/iotest"

	"github.com/imroc/req/v3/internal/verifh"
	refvarint "github.com/quic-go/quic-go/quicvarint"
)

type c05oneByte struct{ r io.Reader }

func (o c05oneByte) Read(p []byte) (int, error) {
	if len(p) == 0 {
		return 0, nil
	}
	return o.r.Read(p[:1])
}

// c05consume is the client's receive loop at frame level: ParseNext, and after a DATA / HEADERS
// frame the declared number of payload bytes from the SAME reader.
func c05consume(rd io.Reader, limit int) string {
	fp := &frameParser{r: rd, conn: &c05conn{}}
	var ev []string
	for i := 0; i < limit; i++ {
		f, err := fp.ParseNext()
		if err != nil {
			if err == io.EOF {
				ev = append(ev, "eof")
			} else {
				ev = append(ev, c05h3err(err))
			}
			return strings.Join(ev, ";")
		}
		var length uint64
		tag := ""
		switch f := f.(type) {
		case *dataFrame:
			length, tag = f.Length, "data"
		case *headersFrame:
			length, tag = f.Length, "headers"
		case *settingsFrame:
			ev = append(ev, fmt.Sprintf("settings:%s:%s:%s", c05b01(f.Datagram), c05b01(f.ExtendedConnect), c05pairs(f.Other)))
			continue
		default:
			ev = append(ev, fmt.Sprintf("?%T", f))
			return strings.Join(ev, ";")
		}
		want := length
		if want > 1<<20 {
			want = 1 << 20 // the generated streams are far shorter
		}
		var buf bytes.Buffer
		n, _ := io.CopyN(&buf, rd, int64(want))
		if uint64(n) < length {
			ev = append(ev, fmt.Sprintf("trunc:%d:%s", length, c05hex(buf.Bytes())))
			return strings.Join(ev, ";")
		}
		ev = append(ev, tag+":"+c05hex(buf.Bytes()))
	}
	return strings.Join(append(ev, "limit"), ";")
}

// TestVerif_C05_h3stream: the whole receive automaton over byte streams, real frameParser (three
// reader shapes) vs the Lean parseStream (theorem h3_parse_stream and the h3_stream_end_* family say
// what it must be on every stream) vs an oracle written from RFC 9114 7.1/7.2.8/9; and the declarative
// SETTINGS predicate of h3_settings_accept_iff vs the real parseSettingsFrame.
func TestVerif_C05_h3stream(t *testing.T) {
	s := verifh.New(t, "C05", "h3stream",
		"byte streams of 0..8 frames built with quic-go's quicvarint (Append, and AppendWithLen for non-minimal forms): DATA/HEADERS with payload lengths 0,1,63,64,300,16383,16384; SETTINGS (valid, duplicate id, bad value of 0x8/0x33, oversize > 8192, truncated pair); skipped types 0x3/0x5/0x7/0xd, greased 0x1f*N+0x21, random types up to 2^62-1, with 0..40 payload bytes; reserved 0x2/0x6/0x8/0x9; the last frame may DECLARE more than remains (any size up to 2^62-1); 1/3 of the streams cut at a random offset (inside a type varint, a length varint, a skipped payload, a SETTINGS payload, a DATA payload, or aimed exactly at a frame boundary); the repaired fork reports io.EOF only at a frame boundary and io.ErrUnexpectedEOF inside a frame (quic-go v0.48: io.EOF in both cases, the one documented difference); consumer loop = ParseNext + io.CopyN of the declared payload from the same reader, over bytes.Reader, a one-byte-at-a-time reader and iotest.DataErrReader (last bytes together with io.EOF): all three must agree; oracle: visible frames in order with exact payloads, unknown types invisible, reserved = error; second half: SETTINGS payloads vs the declarative predicate (pairs complete, ids distinct, 0x8/0x33 in {0,1}); non-trivial = at least one frame seen / payload accepted")
	r := s.Rand()
	hs := newC05hist(s)
	n := verifh.N(4000, 80000)
	for c := 0; c < n; c++ {
		var in []byte
		var want []string // oracle: what the consumer must see, from the construction
		nf := r.Intn(9)
		bounds := map[int]bool{0: true} // offsets at which the consumer stands at a frame boundary
		ended := false                  // stop generating frames
		terminal := false               // the last built event ends the consumer loop
		nonMinimal := false
		vi := func(b []byte, v uint64) []byte {
			o := c05varint(r, b, v)
			if len(o)-len(b) != refvarint.Len(v) {
				nonMinimal = true
			}
			return o
		}
		for i := 0; i < nf && !ended; i++ {
			last := i == nf-1
			switch k := r.Intn(10); {
			case k < 3: // DATA / HEADERS
				ty := uint64(r.Intn(2))
				l := c05pick(r, 0, 1, 2, 63, 64, 300, r.Intn(50))
				if r.Intn(40) == 0 {
					l = c05pick(r, 16383, 16384)
				}
				payload := []byte(verifh.RandBytes(r, l, ""))
				declared := uint64(l)
				if last && r.Intn(4) == 0 {
					declared = uint64(l) + c05pick(r, uint64(1), 2, 64, 1<<14, 1<<30, 1<<62-1-uint64(l))
					hs.Count("declared>remaining")
				}
				in = vi(in, ty)
				in = vi(in, declared)
				in = append(in, payload...)
				tag := "data"
				if ty == 1 {
					tag = "headers"
				}
				if declared > uint64(l) {
					want = append(want, fmt.Sprintf("trunc:%d:%s", declared, c05hex(payload)))
					ended, terminal = true, true
				} else {
					want = append(want, tag+":"+c05hex(payload))
					bounds[len(in)] = true
				}
			case k < 5: // SETTINGS
				p, kind := c05settingsPayload(r)
				declared := uint64(len(p))
				if r.Intn(12) == 0 {
					declared = c05pick(r, uint64(8193), 8200, 1<<20)
					kind = "settings-size"
				}
				in = vi(in, 4)
				in = vi(in, declared)
				in = append(in, p...)
				hs.Count(kind)
				// the oracle for SETTINGS is the model-independent parse below; here only mark the spot
				want = append(want, "SETTINGS:"+kind)
				if kind != "settings-ok" {
					ended, terminal = true, true
				} else {
					bounds[len(in)] = true
				}
			case k < 6: // reserved
				ty := c05pick(r, uint64(2), 6, 8, 9)
				in = vi(in, ty)
				in = vi(in, uint64(r.Intn(5)))
				want = append(want, fmt.Sprintf("err:reserved:%d", ty))
				ended, terminal = true, true
			default: // skipped
				ty := c05pick(r, uint64(3), 5, 7, 0xd, 0x1f*uint64(r.Intn(1000))+0x21, 10+uint64(r.Intn(1000)), 1<<62-1, uint64(r.Int63n(1<<62)))
				if ty <= 9 && ty != 3 && ty != 5 && ty != 7 {
					ty = 0x21
				}
				l := r.Intn(41)
				payload := []byte(verifh.RandBytes(r, l, ""))
				declared := uint64(l)
				if last && r.Intn(3) == 0 {
					declared = uint64(l) + c05pick(r, uint64(1), 64, 1<<30, 1<<62-1-uint64(l))
					hs.Count("declared>remaining")
					hs.Count("skipped-declared>remaining")
					ended = true
				}
				in = vi(in, ty)
				in = vi(in, declared)
				in = append(in, payload...)
				if declared == uint64(l) {
					bounds[len(in)] = true
				} else {
					// the stream ends inside a skipped frame: a truncated frame, not a clean end
					want = append(want, "err:ueof")
					terminal = true
				}
				hs.Count("skipped")
			}
		}
		if !terminal {
			want = append(want, "eof")
		}
		cut := false
		cutAtBoundary := false
		if r.Intn(3) == 0 && len(in) > 0 {
			at := r.Intn(len(in))
			if r.Intn(4) == 0 {
				// aim at a frame boundary: the clean end the repaired parser must still report as io.EOF
				for b := range bounds {
					if b < len(in) && (b > at || r.Intn(3) == 0) {
						at = b
					}
				}
			}
			in = in[:at]
			cut = true
			cutAtBoundary = bounds[at]
			hs.Count("cut")
			if cutAtBoundary {
				hs.Count("cut-at-boundary")
			} else {
				hs.Count("cut-inside-frame")
			}
		}
		if nonMinimal {
			hs.Count("non-minimal-varint")
		}
		a := c05consume(bytes.NewReader(in), 40)
		b := c05consume(c05oneByte{bytes.NewReader(in)}, 40)
		d := c05consume(iotest.DataErrReader(bytes.NewReader(in)), 40)
		ok := a == b && a == d
		why := ""
		if !ok {
			why = fmt.Sprintf(" READERS DISAGREE bytes.Reader=%s onebyte=%s dataerr=%s", a, b, d)
		} else {
			hs.Count("3-readers-agree")
		}
		// io.EOF exactly at a frame boundary, io.ErrUnexpectedEOF inside a frame (RFC 9114 7.1; the
		// reference says io.EOF in both cases: c05refView(a) is its answer)
		if cut && ok {
			got := strings.Split(a, ";")
			last := got[len(got)-1]
			switch {
			case cutAtBoundary && last != "eof":
				ok, why = false, " BOUNDARY: the stream ends at a frame boundary but the last event is "+last
			case !cutAtBoundary && last == "eof":
				ok, why = false, " BOUNDARY: the stream ends inside a frame but the parser reports a clean end"
			}
			if last == "err:ueof" {
				hs.Count("ref-differs-eof-inside-frame")
				if c05refView(last) != "err:eof" {
					ok, why = false, " REFVIEW"
				}
			}
		}
		// oracle from the construction (uncut streams; SETTINGS spots are compared by kind)
		if !cut && ok {
			got := strings.Split(a, ";")
			if len(got) != len(want) {
				ok, why = false, fmt.Sprintf(" ORACLE: saw %d events, built %d: want %q", len(got), len(want), want)
			} else {
				for i := range want {
					switch {
					case strings.HasPrefix(want[i], "SETTINGS:"):
						kind := strings.TrimPrefix(want[i], "SETTINGS:")
						good := map[string]string{"settings-ok": "settings:", "settings-dup": "err:", "settings-badvalue": "err:", "settings-trunc": "e", "settings-size": "err:settings-size"}[kind]
						if !strings.HasPrefix(got[i], good) {
							ok, why = false, fmt.Sprintf(" ORACLE: event %d is %q for a %s frame", i, got[i], kind)
						}
					case got[i] != want[i]:
						ok, why = false, fmt.Sprintf(" ORACLE: event %d is %q, built %q", i, got[i], want[i])
					}
				}
			}
		}
		for _, e := range strings.Split(a, ";") {
			hs.Count("ev-" + strings.SplitN(e, ":", 2)[0])
		}
		human := fmt.Sprintf("stream %s -> %s%s", c05hex(in), a, why)
		s.Case("c05h3stream "+c05hex(in), a, ok, "", strings.Contains(a, "data:") || strings.Contains(a, "headers:") || strings.Contains(a, "settings:"), human)
	}
	// the declarative SETTINGS predicate against the real parser
	for c := 0; c < n/2; c++ {
		p, kind := c05settingsPayload(r)
		if r.Intn(6) == 0 && len(p) > 0 {
			p = p[:r.Intn(len(p))]
			kind = "settings-cut"
		}
		f, err := parseSettingsFrame(bytes.NewReader(p), uint64(len(p)))
		impl := ""
		switch {
		case err == nil:
			impl = fmt.Sprintf("ok %s %s %s", c05b01(f.Datagram), c05b01(f.ExtendedConnect), c05pairs(f.Other))
		case err == io.EOF:
			impl = "eof"
		default:
			impl = "reject"
		}
		hs.Count("spec-" + strings.SplitN(impl, " ", 2)[0])
		s.Case("c05h3settingsspec "+c05hex(p), impl, true, "", err == nil, fmt.Sprintf("[settings %s] %s -> %s", kind, c05hex(p), impl))
	}
	s.Finish()
	hs.Require(t, "ev-data", "ev-headers", "ev-settings", "ev-trunc", "ev-err", "ev-eof", "skipped", "cut", "declared>remaining", "skipped-declared>remaining",
		"non-minimal-varint", "3-readers-agree", "cut-at-boundary", "cut-inside-frame", "ref-differs-eof-inside-frame", "settings-ok", "settings-dup", "settings-badvalue", "settings-size", "spec-ok", "spec-eof", "spec-reject")
}
