//go:build verif

package http3

// C01 lane h3seq: the HTTP/3 side of the "sequences on one connection" dimension. One real
// requestWriter (the client keeps one per connection: QPACK encoder + header buffer) writes the
// HEADERS frames of a SEQUENCE of requests; ONE reference QPACK decoder decodes the blocks in
// arrival order. Requests refused locally (invalid header value / name, invalid Host) are
// interleaved with ordinary and with very large ones that share most name/value pairs with their
// predecessors. (This client's QPACK encoder uses no dynamic table; the lane keeps the dimension.)
// Model-judged against `Req.H2.ConnSeq` with the HTTP/3 field list.

import (
	"bytes"
	"fmt"
	"net/http"
	"net/url"
	"strings"
	"testing"

	"github.com/quic-go/qpack"

	"github.com/imroc/req/v3/internal/quic-go/quicvarint"
	"github.com/imroc/req/v3/internal/verifh"
)

func TestVerif_C01_h3seq(t *testing.T) {
	s := verifh.New(t, "C01", "h3seq",
		"sequences of 2..10 requests through ONE real requestWriter.writeHeaders (one QPACK encoder / header buffer per connection), blocks decoded in arrival order by ONE reference QPACK decoder; three quarters of the requests inherit most name/value pairs from their predecessor; per request: plain, known-length body, blown-up header list, invalid header value / name, invalid Host (refused locally); compared with the Lean model (ConnSeq over the HTTP/3 field list): per request the refusal class or the field list the SERVER decoded; oracle: a decoded block carries exactly the request's own X-* pairs; non-trivial = a request accepted after a locally refused one")
	hist := map[string]int{}
	count := func(k string) { hist[k]++; s.Count(k) }
	r := s.Rand()
	names := []string{"X-A", "X-B", "x-c", "X-Long-Header-Name", "Accept", "Content-Type", "Cookie", "Authorization", "X-D", "User-Agent"}
	values := []string{"v", "value", "a, b", "x y z", "a=1; b=2", "\"q\"", strings.Repeat("v", 120), "tok-1", "ü"}
	nseq := verifh.N(300, 3000)
	for i := 0; i < nseq; i++ {
		w := newRequestWriter()
		dec := qpack.NewDecoder(nil)
		var prevHdr http.Header
		var line, impl, human []string
		ok, why := true, ""
		refusedBefore, nontriv := false, false
		n := 2 + r.Intn(9)
		for k := 0; k < n; k++ {
			kind := verifh.Pick(r, []string{"ok", "ok", "ok", "body", "big", "badvalue", "badname", "badhost"})
			hdr := http.Header{}
			if prevHdr != nil && r.Intn(4) != 0 {
				for hk, vs := range prevHdr {
					if strings.HasPrefix(hk, "X-Big-") || hk == "X-Bad" || hk == "a b" || r.Intn(6) == 0 {
						continue
					}
					hdr[hk] = append([]string(nil), vs...)
				}
			}
			for j, m := 0, r.Intn(4); j < m; j++ {
				hdr[verifh.Pick(r, names)] = []string{verifh.Pick(r, values)}
			}
			// round 6 — MULTI-LINE fields (see h2seq): a key given as several field lines
			if r.Intn(3) == 0 {
				for j, m := 0, 1+r.Intn(2); j < m; j++ {
					hk := verifh.Pick(r, []string{"Cookie", "Cookie", "Cookie", "cookie", "X-A", "X-B", "x-c", "Accept", "X-D"})
					hdr[hk] = verifh.C01GenLines(r, hk, values)
				}
			}
			method := verifh.Pick(r, []string{"GET", "POST", "PUT", "DELETE"})
			rawURL := "https://verif.test" + verifh.Pick(r, []string{"/", "/a", "/a/b?x=1", "/r%2Fs?q=a+b"})
			host := ""
			var cl int64
			hasBody := false
			switch kind {
			case "body":
				hasBody, cl = true, int64(verifh.Pick(r, []int{1, 50, 70000}))
			case "big":
				for j, m := 0, 1+r.Intn(12); j < m; j++ {
					hdr[fmt.Sprintf("X-Big-%d", j)] = []string{strings.Repeat(string(rune('a'+j%26)), 100+r.Intn(300))}
				}
			case "badvalue":
				hdr["X-Bad"] = []string{verifh.Pick(r, []string{"a\x00b", "a\r\nX-Injected: 1", "a\nb"})}
			case "badname":
				hdr["a b"] = []string{"v"}
			case "badhost":
				host = verifh.Pick(r, []string{"a b", "a/b", "evil.example\r\nX-Injected: 1"})
			}
			prevHdr = hdr
			u, _ := url.Parse(rawURL)
			req := &http.Request{Method: method, URL: u, Host: host, Header: hdr.Clone(), Proto: "HTTP/1.1", ProtoMajor: 1, ProtoMinor: 1, ContentLength: cl}
			if hasBody {
				// only the declared length matters for the header block
				req.Body = struct {
					*strings.Reader
					nopCloser
				}{strings.NewReader("x"), nopCloser{}}
			}
			var buf bytes.Buffer
			var err error
			if txt, p := verifh.Safely(func() { err = verifH3WriteRequestHeader(w, &buf, req, false, nil) }); p {
				s.Crash(fmt.Sprintf("h3seq-%d", i), fmt.Sprint(hdr), txt, "")
				ok, why = false, "panic"
				break
			}
			line = append(line, fmt.Sprintf("send %s %s %s %s %d %s 0 0", verifh.Hex(method), verifh.Hex(rawURL), verifh.Hex(host), verifh.C01QMap(hdr), cl, verifh.C01B(hasBody)))
			human = append(human, fmt.Sprintf("[%d %s host=%q hdr=%q cl=%d err=%v]", k, kind, host, hdr, cl, err))
			count("kind:" + kind)
			if err != nil {
				ans := "err:other:" + err.Error()
				switch es := err.Error(); {
				case strings.Contains(es, "invalid Host header"):
					ans = "err:host"
				case strings.Contains(es, "invalid HTTP header"):
					ans = "err:header"
				case strings.Contains(es, "invalid request :path"):
					ans = "err:path"
				}
				if buf.Len() != 0 {
					ans += fmt.Sprintf(" but %d bytes were written", buf.Len())
				}
				impl = append(impl, ans)
				refusedBefore = true
				count("refused")
				continue
			}
			b := buf.Bytes()
			typ, n1, e1 := quicvarint.Parse(b)
			length, n2, e2 := quicvarint.Parse(b[n1:])
			if e1 != nil || e2 != nil || typ != 0x1 || int(length) != len(b)-n1-n2 {
				impl = append(impl, "not one whole HEADERS frame")
				continue
			}
			hf, derr := dec.DecodeFull(b[n1+n2:])
			if derr != nil {
				impl = append(impl, "the connection's QPACK decoder rejects the block: "+derr.Error())
				break
			}
			var fields [][2]string
			want := map[string]int{}
			for hk, vs := range hdr {
				if lk := strings.ToLower(hk); strings.HasPrefix(lk, "x-") {
					for _, v := range vs {
						want[lk+"\x00"+v]++
					}
				}
			}
			for _, f := range hf {
				fields = append(fields, [2]string{f.Name, f.Value})
				if strings.HasPrefix(f.Name, "x-") {
					want[f.Name+"\x00"+f.Value]--
				}
			}
			for p, d := range want {
				if d != 0 {
					ok, why = false, fmt.Sprintf("request %d: X-* pair %q differs by %d between what was set and what the server decoded", k, p, -d)
				}
			}
			if lok, lwhy := verifh.C01LinesOracle(hdr, fields); !lok {
				ok, why = false, fmt.Sprintf("request %d: %s", k, lwhy)
			}
			for hk, vs := range hdr {
				if len(vs) > 1 {
					count("multi-line")
					if strings.EqualFold(hk, "cookie") {
						count("multi-line-cookie")
					}
				}
			}
			impl = append(impl, verifh.C01ShowFields(fields, nil))
			count("block-decoded")
			if refusedBefore {
				count("accepted-after-local-refusal")
				nontriv = true
			}
		}
		s.Case("c01connseq3 - "+strings.Join(line, " "), strings.Join(impl, " ; "), ok, "", nontriv, strings.Join(human, " ")+" "+why)
	}
	for _, b := range []string{"block-decoded", "refused", "accepted-after-local-refusal", "kind:big", "kind:badhost", "multi-line", "multi-line-cookie"} {
		if hist[b] == 0 {
			t.Errorf("lane did not reach bucket %q (vacuous pass refused)", b)
		}
	}
	s.Finish()
}

type nopCloser struct{}

func (nopCloser) Close() error { return nil }
