//go:build verif

package http3

import (
	"bytes"
	"fmt"
	"io"
	"net/http"
	"net/url"
	"strings"
	"testing"

	"github.com/quic-go/qpack"

	"github.com/imroc/req/v3/internal/quic-go/quicvarint"
	"github.com/imroc/req/v3/internal/verifh"
)

// c16RunH3 runs the real requestWriter.writeHeaders into a buffer, checks the HEADERS frame
// envelope and decodes the payload with the reference QPACK decoder (arrival order).
func c16RunH3(w *requestWriter, tc *verifh.C01FieldCase) (fields [][2]string, err error, perr string) {
	fields, _, err, perr = c16RunH3Again(w, tc, false)
	return
}

// c16DecodeH3 checks the HEADERS frame envelope and decodes the payload (reference QPACK decoder).
func c16DecodeH3(b []byte) (fields [][2]string, perr string) {
	typ, n1, e1 := quicvarint.Parse(b)
	if e1 != nil || typ != 0x1 {
		return nil, fmt.Sprintf("not a HEADERS frame: type %d err %v", typ, e1)
	}
	length, n2, e2 := quicvarint.Parse(b[n1:])
	if e2 != nil || int(length) != len(b)-n1-n2 {
		return nil, fmt.Sprintf("HEADERS frame length %d, payload %d", length, len(b)-n1-n2)
	}
	hf, derr := qpack.NewDecoder(nil).DecodeFull(b[n1+n2:])
	if derr != nil {
		return nil, "reference QPACK decoder rejects the block: " + derr.Error()
	}
	for _, f := range hf {
		fields = append(fields, [2]string{f.Name, f.Value})
	}
	return fields, ""
}

// c16RunH3Again: as c16RunH3; with again=true the SAME *http.Request is written a second time (a
// request re-sent on a new connection after the idle timeout / a closed connection) and the second
// field list is returned too. The request's header map must be left as it was after every write.
func c16RunH3Again(w *requestWriter, tc *verifh.C01FieldCase, again bool) (fields, fields2 [][2]string, err error, perr string) {
	u, e := url.Parse(tc.RawURL)
	if e != nil {
		return nil, nil, e, "bad-url"
	}
	req := &http.Request{Method: tc.Method, URL: u, Host: tc.Host, Header: tc.Header.Clone(), Proto: "HTTP/1.1", ProtoMajor: 1, ProtoMinor: 1, ContentLength: tc.CL}
	if tc.HasBody {
		if tc.NoBody {
			req.Body = http.NoBody
		} else {
			req.Body = io.NopCloser(strings.NewReader("x"))
		}
	}
	var buf bytes.Buffer
	p, bad := verifh.Safely(func() {
		err = verifH3WriteRequestHeader(w, &buf, req, tc.Gzip, nil)
	})
	if bad {
		return nil, nil, nil, p
	}
	if !verifh.C16SameHeader(req.Header, tc.Header) {
		return nil, nil, nil, fmt.Sprintf("writeHeaders changed the request's header map: %q -> %q", tc.Header, req.Header)
	}
	if err != nil {
		return nil, nil, err, ""
	}
	if fields, perr = c16DecodeH3(buf.Bytes()); perr != "" {
		return nil, nil, nil, perr
	}
	if again {
		var buf2 bytes.Buffer
		var err2 error
		p, bad := verifh.Safely(func() {
			err2 = verifH3WriteRequestHeader(w, &buf2, req, tc.Gzip, nil)
		})
		if bad {
			return nil, nil, nil, p
		}
		if err2 != nil {
			return nil, nil, nil, "second write of the same request refused: " + err2.Error()
		}
		if fields2, perr = c16DecodeH3(buf2.Bytes()); perr != "" {
			return nil, nil, nil, "second write: " + perr
		}
		if !verifh.C16SameHeader(req.Header, tc.Header) {
			return nil, nil, nil, fmt.Sprintf("the second writeHeaders changed the request's header map: %q -> %q", tc.Header, req.Header)
		}
	}
	return fields, fields2, nil, ""
}

func c16H3ErrKind(err error) string {
	s := err.Error()
	switch {
	case strings.Contains(s, "invalid Host header"):
		return "err:host"
	case strings.Contains(s, "invalid request :path"):
		return "err:path"
	case strings.Contains(s, "invalid HTTP header"):
		return "err:header"
	}
	return "err:other"
}

func c16LaneH3(t *testing.T, s *verifh.Session, profile string, n int, need map[string]int) {
	r := s.Rand()
	// sequences of 1..16 requests share one requestWriter (one per connection in the client): its
	// QPACK encoder and header buffer must carry nothing over from a previous — possibly refused —
	// request
	var w *requestWriter
	var prev *verifh.C01FieldCase
	left := 0
	for i := 0; i < n; i++ {
		if left == 0 {
			w = newRequestWriter()
			prev = nil
			left = 1 + r.Intn(16)
		}
		left--
		var tc *verifh.C01FieldCase
		if prev != nil && r.Intn(3) != 0 {
			tc = verifh.C01MutateFieldCase(r, prev)
		} else {
			tc = verifh.C01GenFieldCase(r, profile)
		}
		tc.Limit = 0
		nb := verifh.C16Neighbourise(r, tc)
		if r.Intn(5) == 0 { // round 7: the value-edge class (white space beyond SP / HTAB at the edges of values)
			if tc.Header == nil {
				tc.Header = http.Header{}
			}
			verifh.C16AddEdgeValues(r, tc.Header)
			s.Count("value-edge-class")
		}
		prev = tc
		again := r.Intn(4) == 0
		fields, fields2, err, perr := c16RunH3Again(w, tc, again)
		human := fmt.Sprintf("h3 %q %q host=%q hdr=%q cl=%d body=%v/%v gzip=%v", tc.Method, tc.RawURL, tc.Host, tc.Header, tc.CL, tc.HasBody, tc.NoBody, tc.Gzip)
		if perr != "" {
			s.Crash(human, human, perr, "")
			continue
		}
		u, _ := url.Parse(tc.RawURL)
		effHost := tc.Host
		if effHost == "" {
			effHost = u.Host
		}
		ans := ""
		ok := true
		class := ""
		switch {
		case !verifh.C01IsASCII(effHost):
			ans = "err:outside"
		case err != nil:
			ans = c16H3ErrKind(err)
		default:
			ans = verifh.C01ShowFields(fields, tc.Header[verifh.C01HeaderOrderKey])
			good, why := verifh.C01FieldOracle("h3", tc, fields)
			if !good {
				ok = false
				human += " ORACLE: " + why
			}
			if verifh.C01PseudoOrderOtherCase(tc.Header[verifh.C01PseudoHeaderOrderKey]) {
				class = "pseudo-order-case"
			}
		}
		key := strings.SplitN(ans, " ", 2)[0]
		s.Count(key)
		need[key]++
		if key == "ok" && len(nb) > 0 {
			s.Count("bookkeeping-neighbour-names")
			need["bookkeeping-neighbour-names"]++
		}
		if key == "ok" && again {
			s.Count("written-twice")
			need["written-twice"]++
			ans2 := verifh.C01ShowFields(fields2, tc.Header[verifh.C01HeaderOrderKey])
			good2, why2 := verifh.C01FieldOracle("h3", tc, fields2)
			s.Observe(fmt.Sprintf("h3-again-%d", i), ans2 == ans && good2, class, false, human,
				fmt.Sprintf("second write of the same *http.Request differs from the first: first %s second %s %s", ans, ans2, why2))
		}
		if len(tc.Header[verifh.C01HeaderOrderKey]) > 0 && err == nil {
			s.Count("header-order")
			need["header-order"]++
		}
		if len(tc.Header[verifh.C01PseudoHeaderOrderKey]) > 0 && err == nil {
			s.Count("pseudo-order")
			need["pseudo-order"]++
		}
		s.Case(verifh.C01FieldLine("h3", tc), ans, ok, class, err == nil, human)
	}
}

// TestVerif_C16_h3fields: the real HTTP/3 requestWriter.writeHeaders (HEADERS frame decoded by the
// reference QPACK decoder, arrival order) vs the Lean field-list model + the field-list oracle.
func TestVerif_C16_h3fields(t *testing.T) {
	s := verifh.New(t, "C16", "h3fields",
		"same generator as h2fields (methods, URLs, Host override, 0..60 header keys in all spellings, header and pseudo-header order lists, body kinds, gzip) against the HTTP/3 request writer; non-trivial = a field list was produced")
	need := map[string]int{}
	c16LaneH3(t, s, "order", verifh.N(4000, 80000), need)
	c16LaneH3(t, s, "plain", verifh.N(1500, 30000), need)
	for _, b := range []string{"ok", "err:host", "err:header", "header-order", "pseudo-order", "bookkeeping-neighbour-names", "written-twice"} {
		if need[b] == 0 {
			t.Errorf("lane did not reach bucket %q", b)
		}
	}
	s.Finish()
}
