//go:build verif

package http3

import (
	"bytes"
	"fmt"
	"io"
	"net/http"
	"net/url"
	"strings"
	"testing"

	"github.com/quic-go/qpack"

	"github.com/imroc/req/v3/internal/quic-go/quicvarint"
	"github.com/imroc/req/v3/internal/verifh"
)

// c16RunH3 runs the real requestWriter.writeHeaders into a buffer, checks the HEADERS frame
// envelope and decodes the payload with the reference QPACK decoder (arrival order).
func c16RunH3(w *requestWriter, tc *verifh.C01FieldCase) (fields [][2]string, err error, perr string) {
	u, e := url.Parse(tc.RawURL)
	if e != nil {
		return nil, e, "bad-url"
	}
	req := &http.Request{Method: tc.Method, URL: u, Host: tc.Host, Header: tc.Header.Clone(), Proto: "HTTP/1.1", ProtoMajor: 1, ProtoMinor: 1, ContentLength: tc.CL}
	if tc.HasBody {
		if tc.NoBody {
			req.Body = http.NoBody
		} else {
			req.Body = io.NopCloser(strings.NewReader("x"))
		}
	}
	var buf bytes.Buffer
	p, bad := verifh.Safely(func() {
		err = w.writeHeaders(&buf, req, tc.Gzip, nil)
	})
	if bad {
		return nil, nil, p
	}
	if err != nil {
		return nil, err, ""
	}
	b := buf.Bytes()
	typ, n1, e1 := quicvarint.Parse(b)
	if e1 != nil || typ != 0x1 {
		return nil, nil, fmt.Sprintf("not a HEADERS frame: type %d err %v", typ, e1)
	}
	length, n2, e2 := quicvarint.Parse(b[n1:])
	if e2 != nil || int(length) != len(b)-n1-n2 {
		return nil, nil, fmt.Sprintf("HEADERS frame length %d, payload %d", length, len(b)-n1-n2)
	}
	hf, derr := qpack.NewDecoder(nil).DecodeFull(b[n1+n2:])
	if derr != nil {
		return nil, nil, "reference QPACK decoder rejects the block: " + derr.Error()
	}
	for _, f := range hf {
		fields = append(fields, [2]string{f.Name, f.Value})
	}
	return fields, nil, ""
}

func c16H3ErrKind(err error) string {
	s := err.Error()
	switch {
	case strings.Contains(s, "invalid Host header"):
		return "err:host"
	case strings.Contains(s, "invalid request :path"):
		return "err:path"
	case strings.Contains(s, "invalid HTTP header"):
		return "err:header"
	}
	return "err:other"
}

func c16LaneH3(t *testing.T, s *verifh.Session, profile string, n int, need map[string]int) {
	r := s.Rand()
	// sequences of 1..16 requests share one requestWriter (one per connection in the client): its
	// QPACK encoder and header buffer must carry nothing over from a previous — possibly refused —
	// request
	var w *requestWriter
	var prev *verifh.C01FieldCase
	left := 0
	for i := 0; i < n; i++ {
		if left == 0 {
			w = newRequestWriter()
			prev = nil
			left = 1 + r.Intn(16)
		}
		left--
		var tc *verifh.C01FieldCase
		if prev != nil && r.Intn(3) != 0 {
			tc = verifh.C01MutateFieldCase(r, prev)
		} else {
			tc = verifh.C01GenFieldCase(r, profile)
		}
		tc.Limit = 0
		prev = tc
		fields, err, perr := c16RunH3(w, tc)
		human := fmt.Sprintf("h3 %q %q host=%q hdr=%q cl=%d body=%v/%v gzip=%v", tc.Method, tc.RawURL, tc.Host, tc.Header, tc.CL, tc.HasBody, tc.NoBody, tc.Gzip)
		if perr != "" {
			s.Crash(human, human, perr, "")
			continue
		}
		u, _ := url.Parse(tc.RawURL)
		effHost := tc.Host
		if effHost == "" {
			effHost = u.Host
		}
		ans := ""
		ok := true
		class := ""
		switch {
		case !verifh.C01IsASCII(effHost):
			ans = "err:outside"
		case err != nil:
			ans = c16H3ErrKind(err)
		default:
			ans = verifh.C01ShowFields(fields, tc.Header[verifh.C01HeaderOrderKey])
			good, why := verifh.C01FieldOracle("h3", tc, fields)
			if !good {
				ok = false
				human += " ORACLE: " + why
			}
			if verifh.C01PseudoOrderOtherCase(tc.Header[verifh.C01PseudoHeaderOrderKey]) {
				class = "pseudo-order-case"
			}
		}
		key := strings.SplitN(ans, " ", 2)[0]
		s.Count(key)
		need[key]++
		if len(tc.Header[verifh.C01HeaderOrderKey]) > 0 && err == nil {
			s.Count("header-order")
			need["header-order"]++
		}
		if len(tc.Header[verifh.C01PseudoHeaderOrderKey]) > 0 && err == nil {
			s.Count("pseudo-order")
			need["pseudo-order"]++
		}
		s.Case(verifh.C01FieldLine("h3", tc), ans, ok, class, err == nil, human)
	}
}

// TestVerif_C16_h3fields: the real HTTP/3 requestWriter.writeHeaders (HEADERS frame decoded by the
// reference QPACK decoder, arrival order) vs the Lean field-list model + the field-list oracle.
func TestVerif_C16_h3fields(t *testing.T) {
	s := verifh.New(t, "C16", "h3fields",
		"same generator as h2fields (methods, URLs, Host override, 0..60 header keys in all spellings, header and pseudo-header order lists, body kinds, gzip) against the HTTP/3 request writer; non-trivial = a field list was produced")
	need := map[string]int{}
	c16LaneH3(t, s, "order", verifh.N(4000, 80000), need)
	c16LaneH3(t, s, "plain", verifh.N(1500, 30000), need)
	for _, b := range []string{"ok", "err:host", "err:header", "header-order", "pseudo-order"} {
		if need[b] == 0 {
			t.Errorf("lane did not reach bucket %q", b)
		}
	}
	s.Finish()
}
