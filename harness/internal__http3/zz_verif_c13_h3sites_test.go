//go:build verif

package http3

import (
	"bytes"
	"context"
	"errors"
	"fmt"
	"io"
	"math/rand"
	"net/http"
	"net/url"
	"strings"
	"testing"

	"github.com/quic-go/qpack"
	"github.com/quic-go/quic-go"

	"github.com/imroc/req/v3/internal/dump"
	"github.com/imroc/req/v3/internal/quic-go/quicvarint"
	"github.com/imroc/req/v3/internal/transport"
	"github.com/imroc/req/v3/internal/verifh"
)

// ================================================================= lane h3sites
//
// The HTTP/3 dump call sites over a fake QUIC stream, judged by the Lean model
// Req/Client/DumpSites.lean:
//   * requestStream.SendRequestHeader -> requestWriter.encodeHeaders: request-header dump vs the
//     field section the reference QPACK decoder reads from the HEADERS frame (c13ghead);
//   * sendRequestBody: DATA frames and request-body dump for scripted body reads over a stream
//     that fails after `limit` bytes (c13g3body);
//   * requestStream.ReadResponse: response-header dump vs the field section sent (c13ghead).

type c13DumpOpts struct {
	out, qh, qb, rh, rb bytes.Buffer
	flags               [4]bool
}

func (o *c13DumpOpts) Output() io.Writer               { return &o.out }
func (o *c13DumpOpts) RequestHeaderOutput() io.Writer  { return &o.qh }
func (o *c13DumpOpts) RequestBodyOutput() io.Writer    { return &o.qb }
func (o *c13DumpOpts) ResponseHeaderOutput() io.Writer { return &o.rh }
func (o *c13DumpOpts) ResponseBodyOutput() io.Writer   { return &o.rb }
func (o *c13DumpOpts) RequestHeader() bool             { return o.flags[0] }
func (o *c13DumpOpts) RequestBody() bool               { return o.flags[1] }
func (o *c13DumpOpts) ResponseHeader() bool            { return o.flags[2] }
func (o *c13DumpOpts) ResponseBody() bool              { return o.flags[3] }
func (o *c13DumpOpts) Async() bool                     { return false }
func (o *c13DumpOpts) Clone() dump.Options             { return o }

func c13GenDumpOpts(r *rand.Rand) []*c13DumpOpts {
	var out []*c13DumpOpts
	for i := 0; i < 2; i++ {
		if r.Intn(3) == 0 {
			out = append(out, nil)
			continue
		}
		o := &c13DumpOpts{}
		for j := range o.flags {
			o.flags[j] = r.Intn(2) == 0
		}
		out = append(out, o)
	}
	return out
}

// c13PartDump: every dumper with the part on holds the same bytes in that part's writer, the
// others nothing; Output() may only hold CR/LF separators, the other parts' writers nothing.
func c13PartDump(ds []*c13DumpOpts, part int) (content string, on bool, why string) {
	first := true
	for _, o := range ds {
		if o == nil {
			continue
		}
		bufs := []*bytes.Buffer{&o.qh, &o.qb, &o.rh, &o.rb}
		for i, b := range bufs {
			if i != part && b.Len() != 0 {
				why += " [bytes written to a writer of another part]"
			}
		}
		if strings.Trim(o.out.String(), "\r\n") != "" {
			why += " [Output() got non-separator bytes]"
		}
		got := bufs[part].String()
		if !o.flags[part] {
			if got != "" {
				why += " [a dumper with the part off was handed bytes]"
			}
			continue
		}
		on = true
		if first {
			content, first = got, false
		} else if got != content {
			why += " [two dumpers hold different bytes]"
		}
	}
	return
}

func c13FieldsArg(fs [][2]string) string {
	if len(fs) == 0 {
		return "-"
	}
	parts := make([]string, len(fs))
	for i, f := range fs {
		parts[i] = verifh.Hex(f[0]) + ":" + verifh.Hex(f[1])
	}
	return strings.Join(parts, ",")
}

func c13b(b bool) int {
	if b {
		return 1
	}
	return 0
}

func c13ShowDs(ds []*c13DumpOpts) string {
	var out []string
	for _, o := range ds {
		if o == nil {
			out = append(out, "-")
			continue
		}
		f := ""
		for i, n := range []string{"qh", "qb", "rh", "rb"} {
			if o.flags[i] {
				f += n + "+"
			}
		}
		out = append(out, "{"+strings.TrimSuffix(f, "+")+"}")
	}
	return strings.Join(out, ",")
}

var errC13Stream = errors.New("scripted stream failure")
var errC13Body = errors.New("scripted body failure")

// c13FakeQuic is the QUIC stream under the HTTP/3 stream: it records what is written, fails
// after `limit` bytes, and reads from a script. Any other method of the interface panics.
type c13FakeQuic struct {
	quic.Stream
	in    *bytes.Reader
	out   bytes.Buffer
	limit int // -1: never fails
}

func (f *c13FakeQuic) Read(p []byte) (int, error) { return f.in.Read(p) }
func (f *c13FakeQuic) Write(p []byte) (int, error) {
	if f.limit < 0 || len(p) <= f.limit {
		if f.limit >= 0 {
			f.limit -= len(p)
		}
		f.out.Write(p)
		return len(p), nil
	}
	n := f.limit
	f.out.Write(p[:n])
	f.limit = 0
	return n, errC13Stream
}
func (f *c13FakeQuic) CancelRead(quic.StreamErrorCode)  {}
func (f *c13FakeQuic) CancelWrite(quic.StreamErrorCode) {}
func (f *c13FakeQuic) Close() error                     { return nil }
func (f *c13FakeQuic) Context() context.Context         { return context.Background() }
func (f *c13FakeQuic) StreamID() quic.StreamID          { return 0 }

type c13ScriptBody struct {
	data   []byte
	sizes  []int
	i      int
	failAt int // byte offset at which Read fails; -1 never
	done   int
	pieces []string // what every Read returned
}

func (b *c13ScriptBody) Read(p []byte) (int, error) {
	if b.failAt >= 0 && b.done >= b.failAt {
		return 0, errC13Body
	}
	if len(b.data) == 0 {
		return 0, io.EOF
	}
	n := len(b.data)
	if b.i < len(b.sizes) && b.sizes[b.i] < n {
		n = b.sizes[b.i]
	}
	b.i++
	if n > len(p) {
		n = len(p)
	}
	if b.failAt >= 0 && n > b.failAt-b.done {
		n = b.failAt - b.done
	}
	copy(p, b.data[:n])
	b.pieces = append(b.pieces, string(b.data[:n]))
	b.data = b.data[n:]
	b.done += n
	return n, nil
}
func (b *c13ScriptBody) Close() error { return nil }

func c13H3Frame(typ uint64, payload []byte) []byte {
	b := quicvarint.Append(nil, typ)
	b = quicvarint.Append(b, uint64(len(payload)))
	return append(b, payload...)
}

func c13Dumpers(ds []*c13DumpOpts) (*transport.Options, context.Context, []*dump.Dumper) {
	opt := &transport.Options{}
	ctx := context.Background()
	var all []*dump.Dumper
	if ds[0] != nil {
		opt.Dump = dump.NewDumper(ds[0])
		all = append(all, opt.Dump)
	}
	if ds[1] != nil {
		d := dump.NewDumper(ds[1])
		ctx = context.WithValue(ctx, dump.DumperKey, d)
		all = append(all, d)
	}
	return opt, ctx, all
}

// c13SendBody calls sendRequestBody whatever its current parameter list is (it gained an
// error callback in /repo 11852b0): a method value can be inspected with a type switch, so the
// harness compiles against either form.
func c13SendBody(str *stream, body io.ReadCloser, dumps []*dump.Dumper) error {
	var f interface{} = (&SingleDestinationRoundTripper{}).sendRequestBody
	switch fn := f.(type) {
	case func(Stream, io.ReadCloser, []*dump.Dumper) error:
		return fn(str, body, dumps)
	case func(Stream, io.ReadCloser, []*dump.Dumper, func(error)) error:
		return fn(str, body, dumps, func(error) {})
	}
	panic(fmt.Sprintf("harness: sendRequestBody has an unknown signature %T", f))
}

func TestVerif_C13_h3sites(t *testing.T) {
	s := verifh.New(t, "C13", "h3sites",
		"HTTP/3 dump call sites over a fake QUIC stream, 0..2 recording dumpers (client level + request level), random part flags, a writer per part: (a) real requestStream.SendRequestHeader on requests with 0..10 headers (mixed-case names, repeated / empty / 300-byte values, cookies): request-header writers = the model's rendering (c13ghead) of the field section the reference QPACK decoder reads from the HEADERS frame written; (b) real sendRequestBody with scripted body reads (0..20 KB, 1-byte / random / whole reads, a body error) into a stream failing after `limit` bytes in a quarter of the cases: bytes on the stream, request-body writers and the failure flag = model h3Body (c13g3body); (c) real requestStream.ReadResponse on HEADERS frames with 1..12 fields (valid, invalid status / names that make the response invalid, block larger than maxHeaderBytes): response-header writers = the model's rendering of the fields sent, nothing when the frame is refused before decoding; non-trivial = at least 3 fields / 2 body reads")
	r := s.Rand()
	need := map[string]int{}
	cnt := func(k string) { s.Count(k); need[k]++ }
	n := verifh.N(1200, 30000)
	for c := 0; c < n; c++ {
		// ---------------------------------------------------------------- (a) request head
		ds := c13GenDumpOpts(r)
		opt, ctx, _ := c13Dumpers(ds)
		fq := &c13FakeQuic{limit: -1, in: bytes.NewReader(nil)}
		rs := newRequestStream(ctx, opt, newStream(fq, nil, nil, nil), newRequestWriter(), nil, qpack.NewDecoder(nil), r.Intn(2) == 0, 1<<20, &http.Response{})
		method := verifh.Pick(r, []string{"GET", "POST", "PUT", "HEAD", "DELETE"})
		u, _ := url.Parse("https://" + verifh.Pick(r, []string{"example.com", "example.com:8443", "[::1]:8443"}) + verifh.Pick(r, []string{"/", "/a/b?q=1", "/%C3%A9"}))
		req, _ := http.NewRequestWithContext(ctx, method, u.String(), nil)
		names := []string{"Accept", "accept-language", "X-Custom", "x-UPPER-lower", "Authorization", "X-Empty", "Content-Type", "Cookie", "User-Agent"}
		for i, k := 0, r.Intn(11); i < k; i++ {
			name := verifh.Pick(r, names)
			v := verifh.Pick(r, []string{"v", "", "a b;c=d", "a=1; b=2", strings.Repeat("x", 300), verifh.RandBytes(r, 1+r.Intn(20), "abcdefghijklmnopqrstuvwxyz0123456789-_ ")})
			req.Header[name] = append(req.Header[name], v)
		}
		var serr error
		if p, bad := verifh.Safely(func() { serr = rs.SendRequestHeader(req) }); bad {
			s.Crash(fmt.Sprintf("h3sites head #%d", c), fmt.Sprint(req.Header), p, "")
			continue
		}
		got, on, why := c13PartDump(ds, 0)
		var fields [][2]string
		if serr == nil {
			b := fq.out.Bytes()
			typ, n1, e1 := quicvarint.Parse(b)
			if e1 != nil || typ != 1 {
				s.Crash(fmt.Sprintf("h3sites head #%d", c), fmt.Sprint(req.Header), "no HEADERS frame written", "")
				continue
			}
			_, n2, _ := quicvarint.Parse(b[n1:])
			hf, derr := qpack.NewDecoder(nil).DecodeFull(b[n1+n2:])
			if derr != nil {
				s.Crash(fmt.Sprintf("h3sites head #%d", c), fmt.Sprint(req.Header), "reference QPACK decoder rejects the block: "+derr.Error(), "")
				continue
			}
			for _, f := range hf {
				fields = append(fields, [2]string{f.Name, f.Value})
			}
			cnt("head-ok")
		} else {
			cnt("head-refused")
		}
		if on {
			cnt("request-header-dumped")
		}
		s.Case(fmt.Sprintf("c13ghead 0 %d %s", c13b(on && serr == nil), c13FieldsArg(fields)),
			"wire="+c13FieldsArg(fields)+" d="+verifh.Hex(got), why == "", "", len(fields) >= 7,
			fmt.Sprintf("SendRequestHeader %s %s hdr=%q err=%v dumpers=%s%s", method, u, req.Header, serr, c13ShowDs(ds), why))

		// ---------------------------------------------------------------- (b) request body
		ds = c13GenDumpOpts(r)
		_, _, all := c13Dumpers(ds)
		size := verifh.Pick(r, []int{0, 1, 2, 100, 1000, 8191, 8192, 8193, 20000, r.Intn(3000)})
		body := &c13ScriptBody{data: []byte(verifh.RandBytes(r, size, "")), failAt: -1}
		switch r.Intn(3) {
		case 0:
		case 1:
			for i := 0; i < size && i < 300; i++ {
				body.sizes = append(body.sizes, 1+r.Intn(3))
			}
		default:
			for rem := size; rem > 0; {
				k := 1 + r.Intn(9000)
				body.sizes = append(body.sizes, k)
				rem -= k
			}
		}
		if r.Intn(8) == 0 {
			body.failAt = r.Intn(size + 1)
		}
		fq = &c13FakeQuic{limit: -1}
		if r.Intn(4) == 0 {
			fq.limit = r.Intn(size + 20)
		}
		lim := "-"
		if fq.limit >= 0 {
			lim = fmt.Sprint(fq.limit)
		}
		var berr error
		if p, bad := verifh.Safely(func() {
			berr = c13SendBody(newStream(fq, nil, nil, nil), body, all)
		}); bad {
			s.Crash(fmt.Sprintf("h3sites body #%d", c), fmt.Sprint(size), p, "")
			continue
		}
		got, on, why = c13PartDump(ds, 1)
		failed := berr != nil && errors.Is(berr, errC13Stream)
		reads := body.pieces
		if on {
			cnt("request-body-dumped")
		}
		if failed {
			cnt("stream-failed")
		}
		if body.failAt >= 0 {
			cnt("body-error")
		}
		wantD := got
		ans := fmt.Sprintf("wire=%s d=%s failed=%d", verifh.Hex(fq.out.String()), verifh.Hex(wantD), c13b(failed))
		if on {
			s.Case(fmt.Sprintf("c13g3body %s %s", lim, verifh.HexList(reads)), ans, why == "", "", len(reads) >= 2,
				fmt.Sprintf("sendRequestBody %d bytes in %d reads, stream limit %s, body error at %d -> err=%v; dumpers=%s%s", size, len(reads), lim, body.failAt, berr, c13ShowDs(ds), why))
		} else if why != "" {
			s.Observe(fmt.Sprintf("h3sites body #%d", c), false, "", false, why, why)
		}

		// ---------------------------------------------------------------- (c) response head
		ds = c13GenDumpOpts(r)
		opt, ctx, _ = c13Dumpers(ds)
		var rf [][2]string
		status := verifh.Pick(r, []string{"200", "204", "404", "200", "abc"})
		rf = append(rf, [2]string{":status", status})
		for i, k := 0, r.Intn(12); i < k; i++ {
			rf = append(rf, [2]string{verifh.Pick(r, []string{"content-type", "server", "x-a", "x-b", "set-cookie", "date", "x-long-name-0123456789"}),
				verifh.RandBytes(r, r.Intn(30), "abcdefghijklmnopqrstuvwxyz0123456789 ;=/")})
		}
		kind := "valid"
		switch r.Intn(8) {
		case 0:
			rf = append(rf, [2]string{"X-Upper", "1"})
			kind = "bad-name"
		case 1:
			rf = append(rf, [2]string{":status", "200"})
			kind = "pseudo-after-regular"
		}
		var qb bytes.Buffer
		enc := qpack.NewEncoder(&qb)
		for _, f := range rf {
			enc.WriteField(qpack.HeaderField{Name: f[0], Value: f[1]})
		}
		maxBytes := uint64(1 << 20)
		if r.Intn(8) == 0 {
			maxBytes = uint64(r.Intn(qb.Len() + 2))
		}
		in := c13H3Frame(1, qb.Bytes())
		in = append(in, c13H3Frame(0, []byte("body"))...)
		fq = &c13FakeQuic{limit: -1, in: bytes.NewReader(in)}
		rs = newRequestStream(ctx, opt, newStream(fq, nil, nil, nil), newRequestWriter(), nil, qpack.NewDecoder(nil), false, maxBytes, &http.Response{Header: http.Header{}})
		var rerr error
		if p, bad := verifh.Safely(func() { _, rerr = rs.ReadResponse() }); bad {
			s.Crash(fmt.Sprintf("h3sites resp #%d", c), kind, p, "")
			continue
		}
		got, on, why = c13PartDump(ds, 2)
		refusedEarly := uint64(qb.Len()) > maxBytes
		if on {
			cnt("response-header-dumped")
		}
		cnt("resp-" + kind)
		farg := c13FieldsArg(rf)
		if refusedEarly {
			cnt("resp-too-large")
			farg = "x"
		}
		if rerr != nil {
			cnt("resp-error")
		}
		s.Case(fmt.Sprintf("c13gresp3 %d %s", c13b(on), farg), "d="+verifh.Hex(got), why == "", "", len(rf) >= 3,
			fmt.Sprintf("ReadResponse [%s] %d fields, block %d bytes, maxHeaderBytes=%d -> err=%v; dumpers=%s%s", kind, len(rf), qb.Len(), maxBytes, rerr, c13ShowDs(ds), why))
	}
	for _, b := range []string{"head-ok", "request-header-dumped", "request-body-dumped", "stream-failed", "body-error", "response-header-dumped", "resp-valid", "resp-bad-name", "resp-too-large", "resp-error"} {
		if need[b] == 0 {
			t.Errorf("lane did not reach bucket %q", b)
		}
	}
	s.Finish()
}

