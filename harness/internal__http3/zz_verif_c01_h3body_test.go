//go:build verif

package http3

// C01 lane h3body: the real SingleDestinationRoundTripper.sendRequestBody copies a scripted body
// into the real HTTP/3 `stream` (http_stream.go: DATA framing) that sits on a recording
// quic.Stream; then the stream is closed as doRequest does. Everything written to the QUIC stream,
// the sizes of the DATA payloads and the way the stream ends (FIN / RESET_STREAM) are compared with
// the Lean model `Req.H3.BodyWrite.sendBody` + `wire`.

import (
	"bytes"
	"context"
	"fmt"
	"math/rand"
	"testing"
	"time"

	"github.com/imroc/req/v3/internal/quic-go/quicvarint"
	"github.com/imroc/req/v3/internal/verifh"
	"github.com/quic-go/quic-go"
)

type c01RecStream struct {
	wire     []byte
	writes   []int
	canceled bool
	closed   bool
	closeErr bool
}

func (s *c01RecStream) StreamID() quic.StreamID          { return 0 }
func (s *c01RecStream) Read(p []byte) (int, error)       { select {} }
func (s *c01RecStream) CancelRead(quic.StreamErrorCode)  {}
func (s *c01RecStream) SetReadDeadline(time.Time) error  { return nil }
func (s *c01RecStream) SetWriteDeadline(time.Time) error { return nil }
func (s *c01RecStream) SetDeadline(time.Time) error      { return nil }
func (s *c01RecStream) Context() context.Context         { return context.Background() }
func (s *c01RecStream) Write(p []byte) (int, error) {
	if s.canceled || s.closed {
		return 0, fmt.Errorf("write on a finished stream")
	}
	s.wire = append(s.wire, p...)
	s.writes = append(s.writes, len(p))
	return len(p), nil
}
func (s *c01RecStream) Close() error {
	if s.canceled { // quic-go: Close after CancelWrite is an error and sends no FIN
		s.closeErr = true
		return fmt.Errorf("close called for canceled stream")
	}
	s.closed = true
	return nil
}
func (s *c01RecStream) CancelWrite(quic.StreamErrorCode) {
	if !s.closed {
		s.canceled = true
	}
}

// c01ParseDataFrames: reference reading of the stream bytes with quicvarint — the payload sizes
// and the concatenated payload; ok=false when the bytes are not a sequence of whole DATA frames.
func c01ParseDataFrames(w []byte) (sizes []int, payload []byte, ok bool) {
	r := bytes.NewReader(w)
	for r.Len() > 0 {
		t, err := quicvarint.Read(r)
		if err != nil || t != 0 {
			return sizes, payload, false
		}
		l, err := quicvarint.Read(r)
		if err != nil || int(l) > r.Len() {
			return sizes, payload, false
		}
		b := make([]byte, l)
		r.Read(b)
		sizes = append(sizes, int(l))
		payload = append(payload, b...)
	}
	return sizes, payload, true
}

func TestVerif_C01_h3body(t *testing.T) {
	s := verifh.New(t, "C01", "h3body",
		"real sendRequestBody + stream.Write (DATA framing) + Close over a recording quic.Stream; scripted body 0..100 KiB around the 8 KiB copy buffer and the 63 / 16383 varint boundaries (1 MiB in the thorough tier), 0..6 scripted read sizes incl. zero-length reads, end signalled as (0,EOF), (n,EOF), (0,err), (n,err); compared with the Lean model: FIN / reset, payload size of every DATA frame, every byte written to the stream; independent oracle: the bytes parse (quicvarint) as whole DATA frames whose payloads are a prefix of the body, all of it when the stream ends with FIN, no empty frame; non-trivial = at least two DATA frames")
	hist := map[string]int{}
	count := func(k string) { hist[k]++; s.Count(k) }
	r := s.Rand()
	n := verifh.N(1500, 12000)
	rt := &SingleDestinationRoundTripper{}
	for i := 0; i < n; i++ {
		// the body reader comes from the ONE generator shared by the three body lanes
		sc := verifh.C01GenReaderScript(r, []int{0, 1, 2, 62, 63, 64, 65, 100, 4095, 4096, 4097, 8191, 8192, 8193, 16383, 16384, 16385, 24576, 65536, 100 << 10}, 40000,
			[]int{63, 64, 512, 4096, 8191, 8192, 8193, 16384, 40000})
		if verifh.Thorough() && i%200 == 0 {
			sc.N = 1<<20 + r.Intn(3) - 1
		}
		ga, gb, size, sizes, ending := sc.Ga, sc.Gb, sc.N, sc.Sizes, sc.Ending
		human := fmt.Sprintf("body=%d sizes=%v ending=%s", size, sizes, ending)
		id := fmt.Sprintf("h3body-%d", i)
		s.Begin(id, human)
		want := verifh.C01GenBody(size, ga, gb)
		body := &verifh.C01BodyReader{Data: append([]byte(nil), want...), Sizes: sizes, Ending: ending}
		rec := &c01RecStream{}
		str := newStream(rec, nil, nil, nil)
		var err error
		if txt, p := verifh.Safely(func() {
			err = rt.sendRequestBody(str, body, nil, func(error) {})
			str.Close() // doRequest: `str.Close()` after the copy, whatever it returned
		}); p {
			s.Crash(id, human, txt, "")
			continue
		}
		outcome := "open"
		switch {
		case rec.canceled:
			outcome = "reset"
		case rec.closed:
			outcome = "closed"
		}
		// payload sizes: stream.Write issues the frame header and the payload as two writes
		var payloadSizes []int
		for k := 1; k < len(rec.writes); k += 2 {
			payloadSizes = append(payloadSizes, rec.writes[k])
		}
		impl := fmt.Sprintf("%s writes=%s %s", outcome, verifh.IntList(payloadSizes), verifh.C01Blob(rec.wire))
		line := fmt.Sprintf("c01h3body %d gen.%d.%d.%d %s %s", body.FirstBufLen(), size, ga, gb, verifh.IntList(sizes), ending)
		ok, why := true, ""
		ps, payload, whole := c01ParseDataFrames(rec.wire)
		switch {
		case !whole:
			ok, why = false, "the stream bytes are not a sequence of whole DATA frames"
		case !bytes.HasPrefix(want, payload):
			ok, why = false, "the DATA payloads are not a prefix of the body"
		case outcome == "closed" && !bytes.Equal(want, payload):
			ok, why = false, "stream closed with FIN but the payloads are not the whole body"
		case outcome == "closed" && (ending == "err" || ending == "errl"):
			ok, why = false, "stream closed with FIN although the body reader failed"
		case outcome == "open":
			ok, why = false, "stream neither closed nor reset"
		case (err == nil) != (outcome == "closed"):
			ok, why = false, fmt.Sprintf("sendRequestBody returned %v but the stream is %s", err, outcome)
		}
		for _, l := range ps {
			if l == 0 {
				ok, why = false, "empty DATA frame"
			}
			if l > bodyCopyBufferSize {
				ok, why = false, "DATA frame larger than the copy buffer"
			}
		}
		count("outcome:" + outcome)
		if len(ps) >= 2 {
			count("multi-frame")
		}
		for _, l := range ps {
			switch {
			case l <= 63:
				count("len-varint-1")
			case l <= 16383:
				count("len-varint-2")
			default:
				count("len-varint-4")
			}
		}
		s.Case(line, impl, ok, "", len(ps) >= 2, human+" -> "+outcome+" "+why)
	}
	for _, b := range []string{"outcome:closed", "outcome:reset", "multi-frame", "len-varint-1", "len-varint-2"} {
		if hist[b] == 0 {
			t.Errorf("lane did not reach bucket %q (vacuous pass refused)", b)
		}
	}
	s.Finish()
}

var _ = rand.Int
