//go:build verif

package http3

import (
	"bytes"
	"context"
	"errors"
	"fmt"
	"io"
	"net"
	"net/http"
	"sort"
	"strconv"
	"strings"
	"sync"
	"testing"
	"time"

	"github.com/imroc/req/v3/internal/quic-go/quicvarint"
	"github.com/imroc/req/v3/internal/transport"
	"github.com/imroc/req/v3/internal/verifh"
	"github.com/quic-go/qpack"
	"github.com/quic-go/quic-go"
)

// ---------------------------------------------------------------------------------------
// C02 lane "h3recv": the HTTP/3 receive path, Read by Read.
//
// The real SingleDestinationRoundTripper.RoundTrip runs over a fake quic.Connection whose one
// request stream delivers a generated sequence of HTTP/3 frames (HEADERS blocks encoded with
// the real QPACK encoder) in a generated segmentation and then FIN or a reset. The lane reads
// the body with generated read sizes and compares status, fields, every read's length, the
// final error class, the bytes and the trailers with the Lean model (Req.C02.H3Recv).
// ---------------------------------------------------------------------------------------

type c02FakeStream struct {
	mu   sync.Mutex
	segs [][]byte
	fin  error
	ctx  context.Context
}

func (s *c02FakeStream) StreamID() quic.StreamID { return 0 }
func (s *c02FakeStream) Read(p []byte) (int, error) {
	s.mu.Lock()
	defer s.mu.Unlock()
	for len(s.segs) > 0 && len(s.segs[0]) == 0 {
		s.segs = s.segs[1:]
	}
	if len(s.segs) == 0 {
		return 0, s.fin
	}
	n := copy(p, s.segs[0])
	s.segs[0] = s.segs[0][n:]
	return n, nil
}
func (s *c02FakeStream) CancelRead(quic.StreamErrorCode)  {}
func (s *c02FakeStream) SetReadDeadline(time.Time) error  { return nil }
func (s *c02FakeStream) Write(p []byte) (int, error)      { return len(p), nil }
func (s *c02FakeStream) Close() error                     { return nil }
func (s *c02FakeStream) CancelWrite(quic.StreamErrorCode) {}
func (s *c02FakeStream) Context() context.Context         { return s.ctx }
func (s *c02FakeStream) SetWriteDeadline(time.Time) error { return nil }
func (s *c02FakeStream) SetDeadline(time.Time) error      { return nil }

type c02FakeConn struct {
	quic.Connection // nil: anything not overridden must not be reached
	ctx             context.Context
	str             *c02FakeStream
}

func (c *c02FakeConn) Context() context.Context { return c.ctx }
func (c *c02FakeConn) OpenStreamSync(context.Context) (quic.Stream, error) {
	return c.str, nil
}
func (c *c02FakeConn) OpenStream() (quic.Stream, error) { return c.str, nil }
func (c *c02FakeConn) OpenUniStream() (quic.SendStream, error) {
	return &c02FakeStream{ctx: c.ctx}, nil
}
func (c *c02FakeConn) OpenUniStreamSync(context.Context) (quic.SendStream, error) {
	return &c02FakeStream{ctx: c.ctx}, nil
}
func (c *c02FakeConn) AcceptUniStream(ctx context.Context) (quic.ReceiveStream, error) {
	select {
	case <-ctx.Done():
	case <-c.ctx.Done():
	}
	return nil, errors.New("c02: closed")
}
func (c *c02FakeConn) AcceptStream(ctx context.Context) (quic.Stream, error) {
	select {
	case <-ctx.Done():
	case <-c.ctx.Done():
	}
	return nil, errors.New("c02: closed")
}
func (c *c02FakeConn) CloseWithError(quic.ApplicationErrorCode, string) error { return nil }
func (c *c02FakeConn) ConnectionState() quic.ConnectionState                  { return quic.ConnectionState{} }
func (c *c02FakeConn) LocalAddr() net.Addr                                    { return &net.UDPAddr{} }
func (c *c02FakeConn) RemoteAddr() net.Addr                                   { return &net.UDPAddr{} }
func (c *c02FakeConn) SendDatagram([]byte) error                              { return nil }
func (c *c02FakeConn) ReceiveDatagram(ctx context.Context) ([]byte, error) {
	<-ctx.Done()
	return nil, ctx.Err()
}

type c02KV struct{ k, v string }

func c02EncodeFields(fs []c02KV) []byte {
	var buf bytes.Buffer
	enc := qpack.NewEncoder(&buf)
	for _, f := range fs {
		enc.WriteField(qpack.HeaderField{Name: f.k, Value: f.v})
	}
	return buf.Bytes()
}

func c02Frame(t uint64, payload []byte) []byte {
	b := quicvarint.Append(nil, t)
	b = quicvarint.Append(b, uint64(len(payload)))
	return append(b, payload...)
}

// c02H3CutInFrame reports whether cutting the stream `full` at offset `cut` ends it (a) inside
// a frame header (after at least one byte of it), (b) inside the payload of a frame that is
// neither DATA nor HEADERS, or (c) right after the header of a HEADERS frame with a non-empty
// payload of which no byte arrives. For a FIN at such an offset the reader reports io.EOF where
// a truncation error is due (finding of C03, fixes/C03-3-h3-truncated-frame.patch): WHICH of the
// two a truncated stream ends with is C03's subject, not C02's, so these cases are compared with
// the two classes merged ("eof*"); everything else (bytes delivered, status, fields) is compared
// exactly as before.
func c02H3CutInFrame(full []byte, cut int) bool {
	off := 0
	for off < len(full) {
		start := off
		rd := bytes.NewReader(full[off:])
		t, err := quicvarint.Read(rd)
		if err != nil {
			return cut > start
		}
		l, err := quicvarint.Read(rd)
		if err != nil {
			return cut > start
		}
		hdr := len(full[off:]) - rd.Len()
		payload := start + hdr
		end := payload + int(l)
		if cut > start && cut < payload {
			return true // (a)
		}
		if cut >= payload && cut < end {
			if t != 0 && t != 1 {
				return true // (b)
			}
			if t == 1 && cut == payload && l > 0 {
				return true // (c)
			}
			return false
		}
		off = end
	}
	return false
}

func c02H3Lenient(s string) string {
	for _, e := range []string{"eof", "unexpectedEOF"} {
		s = strings.Replace(s, " err="+e+" ", " err=eof* ", 1)
		if s == "error:"+e {
			s = "error:eof*"
		}
	}
	return s
}

func c02FieldsArg(fs []c02KV) string {
	if len(fs) == 0 {
		return "-"
	}
	out := make([]string, len(fs))
	for i, f := range fs {
		out[i] = verifh.Hex(f.k) + ":" + verifh.Hex(f.v)
	}
	return strings.Join(out, ",")
}

func c02CanonHeader(h http.Header, skip string) string {
	var keys []string
	for k, vv := range h {
		if k != skip && len(vv) > 0 {
			keys = append(keys, k)
		}
	}
	if len(keys) == 0 {
		return "-"
	}
	sort.Strings(keys)
	var out []string
	for _, k := range keys {
		for _, v := range h[k] {
			out = append(out, verifh.Hex(k)+":"+verifh.Hex(v))
		}
	}
	return strings.Join(out, ",")
}

var errC02Reset = &quic.StreamError{StreamID: 0, ErrorCode: quic.StreamErrorCode(ErrCodeInternalError), Remote: true}

func c02ErrClass(err error) string {
	if err == nil {
		return "ok"
	}
	var he *Error
	var se *quic.StreamError
	switch {
	case err == io.EOF:
		return "eof"
	case errors.Is(err, io.ErrUnexpectedEOF):
		return "unexpectedEOF"
	case strings.Contains(err.Error(), "peer sent too much data"):
		return "tooMuchData"
	case errors.As(err, &he), errors.As(err, &se):
		return "reset"
	}
	msg := err.Error()
	switch {
	case strings.Contains(msg, "expected first frame to be a HEADERS frame"):
		return "firstNotHeaders"
	case strings.Contains(msg, "HEADERS frame too large"):
		return "headersTooLarge"
	case strings.Contains(msg, "DATA frame received after trailers"):
		return "dataAfterTrailers"
	case strings.Contains(msg, "additional HEADERS frame received after trailers"):
		return "headersAfterTrailers"
	case strings.Contains(msg, "unexpected frame"), strings.Contains(msg, "reserved frame type"):
		return "frameUnexpected"
	case strings.Contains(msg, "invalid response"), strings.Contains(msg, "pseudo header in trailer"):
		return "invalidFields"
	case strings.Contains(msg, "too many 1xx"):
		return "tooMany1xx"
	case errors.Is(err, io.EOF):
		return "eof"
	}
	return "other(" + msg + ")"
}

func c02Split(s *verifh.Session, w []byte) []string {
	r := s.Rand()
	var segs []string
	style := r.Intn(6)
	for len(w) > 0 {
		var n int
		switch style {
		case 0:
			n = len(w)
		case 1:
			n = 1
		case 2:
			n = 1 + r.Intn(8)
		case 3:
			n = verifh.Pick(r, []int{1, 2, 3, 5, 100, 1200, 1350, 4096})
		case 4:
			n = 1 + r.Intn(5000)
		default:
			if r.Intn(3) == 0 {
				n = 1 + r.Intn(3)
			} else {
				n = 1 + r.Intn(2000)
			}
		}
		if n > len(w) {
			n = len(w)
		}
		segs = append(segs, string(w[:n]))
		w = w[n:]
	}
	return segs
}

func c02ReadGen(s *verifh.Session) func() int {
	r := s.Rand()
	style := r.Intn(8)
	return func() int {
		switch style {
		case 0:
			return 1
		case 1:
			return 7
		case 2:
			return 512
		case 3:
			return 4096
		case 4:
			return 65536
		case 5:
			return verifh.Pick(r, []int{0, 1, 2, 7, 512, 4095, 4096, 4097, 65536})
		case 6:
			return 1 + r.Intn(9000)
		default:
			return 1 + r.Intn(20)
		}
	}
}

func TestVerif_C02_h3recv(t *testing.T) {
	s := verifh.New(t, "C02", "h3recv",
		"generated HTTP/3 response stream: optional unknown/GREASE/CANCEL_PUSH frames, 0..2 (rarely 6) interim HEADERS, final HEADERS (status, lower-case fields, repeated names, Content-Length right / too small / too large / duplicated, Trailer announcement), DATA frames in generated sizes incl. empty ones, optional trailer HEADERS; malformed stream: DATA or HEADERS after trailers, SETTINGS/reserved frame, pseudo field in trailers, upper-case / connection-specific field, missing :status, first frame DATA, truncation at a random offset with FIN or reset, header block above MaxResponseHeaderBytes; x segmentation of the QUIC stream x read sizes {1,7,512,4096,65536,mixed incl. 0,random}; real RoundTrip -> openRequestStream -> doRequest -> ReadResponse -> hijackableBody reads over a fake quic.Connection; compared Read by Read; non-trivial = >=2 segments, >=2 reads, non-empty body")
	r := s.Rand()
	n := verifh.N(900, 12000)
	lens := []int{0, 1, 2, 5, 100, 511, 512, 513, 4095, 4096, 4097, 16383, 16384, 16385}
	matrix := map[string]int{}
	for c := 0; c < n; c++ {
		bl := verifh.Pick(r, lens)
		if r.Intn(3) == 0 {
			bl = r.Intn(3000)
		}
		if r.Intn(25) == 0 {
			bl = 65535 + r.Intn(3)
		}
		// a HEAD request: the origin sends the head (Content-Length of the representation
		// included) and no DATA
		isHead := r.Intn(10) == 0
		declLen := bl
		if isHead {
			bl = 0
		}
		body := verifh.RandBytes(r, bl, "")
		var wire []byte
		var lists [][]c02KV
		grease := func() {
			for r.Intn(5) == 0 {
				typ := verifh.Pick(r, []uint64{0x21, 0x3, 0x7, 0xd, 0x40, 0x1f*7 + 0x21, 0x5})
				wire = append(wire, c02Frame(typ, []byte(verifh.RandBytes(r, r.Intn(20), "")))...)
			}
		}
		mut := "none"
		cutInFrame := false
		pickMut := r.Intn(24)
		grease()
		ninterim := 0
		for r.Intn(4) == 0 && ninterim < 2 {
			ninterim++
		}
		if pickMut == 0 && r.Intn(3) == 0 {
			ninterim = 6
			mut = "many1xx"
		}
		for i := 0; i < ninterim; i++ {
			fs := []c02KV{{":status", verifh.Pick(r, []string{"100", "103", "102"})}, {"x-early", strconv.Itoa(i)}}
			lists = append(lists, fs)
			wire = append(wire, c02Frame(1, c02EncodeFields(fs))...)
			grease()
		}
		status := verifh.Pick(r, []string{"200", "200", "201", "204", "304", "404", "500", "206", "599"})
		fs := []c02KV{{":status", status}}
		names := []string{"x-a", "x-b", "x-a", "x-request-id", "content-type", "etag", "x-0", "server", "set-cookie"}
		for i := r.Intn(6); i > 0; i-- {
			fs = append(fs, c02KV{verifh.Pick(r, names), strings.Trim(verifh.RandBytes(r, r.Intn(16), "abcXYZ019 -_=;,/\t"), " \t")})
		}
		declared := r.Intn(2) == 0
		clv := len(body)
		if isHead {
			clv = declLen
		}
		if declared && isHead {
			fs = append(fs, c02KV{"content-length", strconv.Itoa(clv)})
		} else if declared {
			switch r.Intn(8) {
			case 0:
				if clv > 0 {
					clv = r.Intn(clv) // declared too small
					mut = "cl-small"
				}
			case 1:
				clv += 1 + r.Intn(100) // declared too large
				mut = "cl-large"
			}
			fs = append(fs, c02KV{"content-length", strconv.Itoa(clv)})
			if r.Intn(6) == 0 {
				fs = append(fs, c02KV{"content-length", strconv.Itoa(clv)}) // duplicate, same value
			}
		}
		var trailers []c02KV
		if r.Intn(3) == 0 {
			for i := 1 + r.Intn(3); i > 0; i-- {
				trailers = append(trailers, c02KV{verifh.Pick(r, []string{"x-t", "x-trail-sum", "grpc-status", "x-t"}), strings.Trim(verifh.RandBytes(r, r.Intn(10), "abc019 -_"), " ")})
			}
			if r.Intn(2) == 0 {
				fs = append(fs, c02KV{"trailer", "X-T, x-trail-sum"})
			}
		}
		switch pickMut {
		case 1:
			fs = append(fs, c02KV{verifh.Pick(r, []string{"X-Upper", "connection", "transfer-encoding", "te", ":path", "x bad", "upgrade"}), "v"})
			mut = "bad-field"
		case 2:
			if r.Intn(2) == 0 {
				fs = fs[1:] // no :status
				mut = "no-status"
			} else {
				fs = append(fs, c02KV{":status", "200"}) // pseudo after regular (if any regular)
				mut = "late-pseudo"
			}
		case 3:
			fs = append(fs, c02KV{"content-length", strconv.Itoa(clv + 1)}, c02KV{"content-length", strconv.Itoa(clv + 2)})
			mut = "cl-conflict"
		}
		if pickMut == 4 && r.Intn(2) == 0 {
			wire = append(wire, c02Frame(0, []byte("early"))...)
			mut = "first-data"
		}
		lists = append(lists, fs)
		wire = append(wire, c02Frame(1, c02EncodeFields(fs))...)
		grease()
		// DATA frames
		rest := body
		style := r.Intn(4)
		for len(rest) > 0 {
			var k int
			switch style {
			case 0:
				k = len(rest)
			case 1:
				k = 1 + r.Intn(5)
				if len(body) > 5000 {
					k = 1 + r.Intn(2000)
				}
			case 2:
				k = verifh.Pick(r, []int{1, 63, 64, 65, 16383, 16384, 16385})
			default:
				k = 1 + r.Intn(6000)
			}
			if k > len(rest) {
				k = len(rest)
			}
			if r.Intn(12) == 0 {
				wire = append(wire, c02Frame(0, nil)...) // empty DATA frame
			}
			wire = append(wire, c02Frame(0, []byte(rest[:k]))...)
			rest = rest[k:]
			grease()
		}
		if len(trailers) > 0 {
			tf := trailers
			if pickMut == 5 {
				tf = append([]c02KV{{":status", "200"}}, tf...)
				mut = "pseudo-trailer"
			}
			lists = append(lists, tf)
			wire = append(wire, c02Frame(1, c02EncodeFields(tf))...)
			switch pickMut {
			case 6:
				wire = append(wire, c02Frame(0, []byte("late"))...)
				mut = "data-after-trailers"
			case 7:
				lists = append(lists, tf)
				wire = append(wire, c02Frame(1, c02EncodeFields(tf))...)
				mut = "second-trailers"
			}
		}
		switch pickMut {
		case 8:
			wire = append(wire, c02Frame(verifh.Pick(r, []uint64{4, 2, 6, 8, 9}), []byte{1, 2})...)
			mut = "bad-frame"
		case 9, 10:
			if len(wire) > 1 {
				cut := r.Intn(len(wire))
				cutInFrame = c02H3CutInFrame(wire, cut)
				wire = wire[:cut]
				mut = "trunc"
			}
		}
		fin := "eof"
		if r.Intn(6) == 0 {
			fin = "reset"
		}
		maxHdr := 10 << 20
		if r.Intn(10) == 0 {
			maxHdr = verifh.Pick(r, []int{8, 20, 40, 64})
		}
		segs := c02Split(s, wire)
		var flArgs []string
		for _, l := range lists {
			flArgs = append(flArgs, c02FieldsArg(l))
		}
		flArg := "none"
		if len(flArgs) > 0 {
			flArg = strings.Join(flArgs, "/")
		}

		nextRead := c02ReadGen(s)
		maxReads := 2500
		if r.Intn(6) == 0 {
			maxReads = r.Intn(6)
		}
		var reads []int
		var impl string
		propOK := true
		ptxt, panicked := verifh.Safely(func() {
			ctx, cancel := context.WithCancel(context.Background())
			defer cancel()
			bs := make([][]byte, len(segs))
			for i, sg := range segs {
				bs[i] = []byte(sg)
			}
			fs := &c02FakeStream{segs: bs, fin: io.EOF, ctx: ctx}
			if fin == "reset" {
				fs.fin = errC02Reset
			}
			conn := &c02FakeConn{ctx: ctx, str: fs}
			rt := &SingleDestinationRoundTripper{
				Options:    &transport.Options{MaxResponseHeaderBytes: int64(maxHdr)},
				Connection: conn,
			}
			method := "GET"
			if isHead {
				method = "HEAD"
			}
			req, _ := http.NewRequest(method, "https://c02.invalid/x", nil)
			res, err := rt.RoundTrip(req)
			if err != nil {
				impl = "error:" + c02ErrClass(err)
				return
			}
			var ns []int
			var data []byte
			var last error
			for len(reads) < maxReads {
				k := nextRead()
				reads = append(reads, k)
				p := make([]byte, k)
				m, err := res.Body.Read(p)
				ns = append(ns, m)
				data = append(data, p[:m]...)
				last = err
				if err != nil {
					break
				}
			}
			res.Body.Close()
			impl = "status=" + strconv.Itoa(res.StatusCode) + " hdr=" + c02CanonHeader(res.Header, "Content-Length") +
				" n=" + verifh.IntList(ns) + " err=" + c02ErrClass(last) + " data=" + verifh.Hex(string(data)) +
				" trailer=" + c02CanonHeader(res.Trailer, "")
			// oracle (conformant streams): bytes = concatenation of the DATA payloads, clean
			// end, trailers as sent
			if mut == "none" {
				if !strings.HasPrefix(body, string(data)) {
					propOK = false
				}
				if last == io.EOF && fin == "eof" {
					if string(data) != body {
						propOK = false
					}
					want := http.Header{}
					for _, tr := range trailers {
						want.Add(tr.k, tr.v)
					}
					if c02CanonHeader(res.Trailer, "") != c02CanonHeader(want, "") {
						propOK = false
					}
				}
				if last != nil && last != io.EOF && fin == "eof" {
					// a trailer block above the configured MaxResponseHeaderBytes is refused: a
					// documented limit, not an infidelity
					if !(maxHdr < 1<<20 && c02ErrClass(last) == "headersTooLarge") {
						propOK = false
					}
				}
				if strconv.Itoa(res.StatusCode) != status {
					propOK = false
				}
			}
			// (no length accounting on HEAD / 204 / 304 responses: /repo d991601)
			if mut == "cl-small" && last == io.EOF && len(data) > clv && !isHead && status != "204" && status != "304" {
				propOK = false
			}
		})
		hd := "0"
		if isHead {
			hd = "1"
			s.Count("HEAD")
		}
		line := fmt.Sprintf("c02h3recv %s %s %s %s %d %s", hd, verifh.HexList(segs), fin, flArg, maxHdr, verifh.IntList(reads))
		if cutInFrame && fin == "eof" {
			line += " L"
			impl = c02H3Lenient(impl)
			s.Count("trunc:fin-in-frame(eof-class-merged)")
		}
		human := fmt.Sprintf("h3 status=%s interim=%d fields=%d declared=%v body=%d trailers=%d wire=%d segs=%d fin=%s mut=%s maxhdr=%d reads=%d", status, ninterim, len(fs), declared, len(body), len(trailers), len(wire), len(segs), fin, mut, maxHdr, len(reads))
		if panicked {
			s.Crash(line, human, ptxt, "")
			continue
		}
		s.Count("mut:" + mut)
		if strings.HasPrefix(impl, "error:") {
			s.Count("head-" + impl)
		} else if i := strings.Index(impl, " err="); i >= 0 {
			e := impl[i+5:]
			s.Count("end:" + e[:strings.Index(e, " ")])
		}
		if len(trailers) > 0 && mut == "none" {
			s.Count("with-trailers")
		}
		// round 5: the matrix declared length {none, right, body longer (surplus), body shorter}
		// x trailer section {no, yes}; every cell must be reached
		if !isHead && (mut == "none" || mut == "cl-small" || mut == "cl-large") {
			k := "undeclared"
			switch {
			case mut == "cl-small":
				k = "surplus"
			case mut == "cl-large":
				k = "short"
			case declared:
				k = "declared"
			}
			k = "matrix:" + k + "/trailers=" + strconv.FormatBool(len(trailers) > 0)
			s.Count(k)
			matrix[k]++
		}
		if ninterim > 0 {
			s.Count("interim")
		}
		s.Case(line, impl, propOK, "", len(segs) >= 2 && len(reads) >= 2 && len(body) > 0, human)
	}
	s.Finish()
	for _, l := range []string{"undeclared", "declared", "surplus", "short"} {
		for _, tr := range []string{"false", "true"} {
			rare := (l == "surplus" || l == "short") && tr == "true" // a handful per quick run: required in the thorough tier only
			if k := "matrix:" + l + "/trailers=" + tr; matrix[k] == 0 && (!rare || verifh.Thorough()) {
				t.Errorf("lane h3recv never reached %q", k)
			}
		}
	}
}
