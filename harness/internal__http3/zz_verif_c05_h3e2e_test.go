//go:build verif

package http3

import (
	"bytes"
	"context"
	"crypto/sha256"
	"crypto/tls"
	"encoding/hex"
	"fmt"
	"io"
	"net"
	"net/http"
	"sort"
	"strconv"
	"strings"
	"sync"
	"testing"
	"time"

	"github.com/imroc/req/v3/internal/testcert"
	"github.com/imroc/req/v3/internal/transport"
	"github.com/imroc/req/v3/internal/verifh"
	"github.com/quic-go/quic-go"
	refh3 "github.com/quic-go/quic-go/http3"
)

func c05pattern(n int) []byte {
	b := make([]byte, n)
	for i := range b {
		b[i] = byte('a' + i%23)
	}
	return b
}

func c05sum(b []byte) string {
	h := sha256.Sum256(b)
	return hex.EncodeToString(h[:8])
}

func c05settingsString(dg, ec bool, other map[uint64]uint64) string {
	return fmt.Sprintf("dg=%v ec=%v other=%s", dg, ec, c05pairs(other))
}

// TestVerif_C05_h3e2e: the fork's HTTP/3 client against quic-go's own http3.Server over loopback
// UDP: every frame header, SETTINGS frame and QPACK section on the wire is written by one
// implementation and parsed by the other.
func TestVerif_C05_h3e2e(t *testing.T) {
	s := verifh.New(t, "C05", "h3e2e",
		"in-process quic-go http3.Server (reference) on loopback UDP, fork client; per connection: SETTINGS in both directions (datagrams on/off, additional settings with small, 2-, 4- and 8-byte varint ids/values and greased ids) compared as parsed by the other side; requests whose request and response bodies have 0,1,63,64,16383,16384,70000 bytes (DATA frame lengths at every varint boundary) with and without content-length, header sets of 1..40 fields (HEADERS frame lengths across the 1/2-byte boundary), responses with trailers, HEAD, 204; oracle: the reference server saw exactly the method/authority/path/headers/body the client sent, the client saw exactly the status/headers/body/trailers the server sent; non-trivial = exchange completed")
	r := s.Rand()
	hs := newC05hist(s)
	cert, err := tls.X509KeyPair(testcert.LocalhostCert, testcert.LocalhostKey)
	if err != nil {
		t.Fatal(err)
	}
	configs := []struct {
		srvDG, cliDG bool
		srvOther     map[uint64]uint64
		cliOther     map[uint64]uint64
	}{
		{false, false, nil, nil},
		{true, true, map[uint64]uint64{0x1f*7 + 0x21: 5, 64: 16384, 1 << 40: 1<<62 - 1}, map[uint64]uint64{63: 64, 16383: 16384, 1 << 30: 1<<30 - 1, 0x1f*1000 + 0x21: 0}},
		{true, false, map[uint64]uint64{1: 0, 6: 1 << 20, 7: 100}, map[uint64]uint64{1: 4096, 6: 262144, 7: 16}},
	}
	sizes := []int{0, 1, 63, 64, 16383, 16384, 70000}
	for ci, cfg := range configs {
		var srvSawSettings string
		var srvMu sync.Mutex
		mux := http.NewServeMux()
		mux.HandleFunc("/echo", func(w http.ResponseWriter, req *http.Request) {
			body, _ := io.ReadAll(req.Body)
			if hj, ok := w.(refh3.Hijacker); ok {
				conn := hj.Connection()
				srvMu.Lock()
				select {
				case <-conn.ReceivedSettings():
					st := conn.Settings()
					srvSawSettings = c05settingsString(st.EnableDatagrams, st.EnableExtendedConnect, st.Other)
				case <-time.After(5 * time.Second):
					srvSawSettings = "timeout"
				}
				srvMu.Unlock()
			}
			var keys []string
			for k, vv := range req.Header {
				for _, v := range vv {
					keys = append(keys, k+"="+v)
				}
			}
			sort.Strings(keys)
			w.Header().Set("X-Echo-Method", req.Method)
			w.Header().Set("X-Echo-Host", req.Host)
			w.Header().Set("X-Echo-Uri", req.RequestURI)
			w.Header().Set("X-Echo-Body", fmt.Sprintf("%d:%s", len(body), c05sum(body)))
			w.Header().Set("X-Echo-Cl", strconv.FormatInt(req.ContentLength, 10))
			w.Header().Set("X-Echo-Hdr", strings.Join(keys, "|"))
			w.WriteHeader(200)
		})
		mux.HandleFunc("/body", func(w http.ResponseWriter, req *http.Request) {
			n, _ := strconv.Atoi(req.URL.Query().Get("n"))
			if req.URL.Query().Get("cl") == "1" {
				w.Header().Set("Content-Length", strconv.Itoa(n))
			}
			for i := 0; i < 30; i++ {
				if i < n%31 {
					w.Header().Add("X-Pad-"+strconv.Itoa(i), strings.Repeat("p", i))
				}
			}
			if req.URL.Query().Get("status") != "" {
				st, _ := strconv.Atoi(req.URL.Query().Get("status"))
				w.WriteHeader(st)
				return
			}
			w.Write(c05pattern(n))
		})
		mux.HandleFunc("/trailers", func(w http.ResponseWriter, req *http.Request) {
			w.Header().Set("Trailer", "X-T1, X-T2")
			w.Write([]byte("body"))
			w.Header().Set("X-T1", "one")
			w.Header().Set("X-T2", "two")
		})
		srv := &refh3.Server{TLSConfig: &tls.Config{Certificates: []tls.Certificate{cert}}, Handler: mux, EnableDatagrams: cfg.srvDG, AdditionalSettings: cfg.srvOther}
		pc, err := net.ListenPacket("udp", "127.0.0.1:0")
		if err != nil {
			// bin/check classes a run whose output says "no tests to run" as an infrastructure
			// failure (exit 2, no VIOLATION line)
			t.Fatalf("verif infrastructure failure (no tests to run): cannot bind loopback UDP: %v", err)
		}
		go srv.Serve(pc)
		addr := pc.LocalAddr().String()
		rt := &RoundTripper{Options: &transport.Options{TLSClientConfig: &tls.Config{InsecureSkipVerify: true}}, EnableDatagrams: cfg.cliDG, AdditionalSettings: cfg.cliOther}
		// dial ourselves so that the lane does not depend on how the round tripper finds its TLS
		// configuration (that is C12's subject): the test certificate is accepted here
		cliConn, err := net.ListenUDP("udp", &net.UDPAddr{IP: net.IPv4(127, 0, 0, 1)})
		if err != nil {
			t.Fatalf("verif infrastructure failure (no tests to run): cannot bind loopback UDP: %v", err)
		}
		qtr := &quic.Transport{Conn: cliConn}
		rt.Dial = func(ctx context.Context, a string, tlsCfg *tls.Config, qc *quic.Config) (quic.EarlyConnection, error) {
			ua, err := net.ResolveUDPAddr("udp", a)
			if err != nil {
				return nil, err
			}
			tc := tlsCfg.Clone()
			tc.InsecureSkipVerify = true
			return qtr.DialEarly(ctx, ua, tc, qc)
		}
		do := func(method, path string, hdr http.Header, body []byte, unknownLen bool) (*http.Response, []byte, error) {
			var rd io.Reader
			if body != nil {
				rd = bytes.NewReader(body)
				if unknownLen {
					rd = struct{ io.Reader }{rd}
				}
			}
			ctx, cancel := context.WithTimeout(context.Background(), 20*time.Second)
			defer cancel()
			req, err := http.NewRequestWithContext(ctx, method, "https://"+addr+path, rd)
			if err != nil {
				return nil, nil, err
			}
			for k, vv := range hdr {
				req.Header[k] = vv
			}
			resp, err := rt.RoundTrip(req)
			if err != nil {
				return nil, nil, err
			}
			var b []byte
			if resp.Body != nil {
				b, err = io.ReadAll(resp.Body)
				resp.Body.Close()
			}
			return resp, b, err
		}
		// request direction: echo
		for _, n := range sizes {
			for _, unknown := range []bool{false, true} {
				hdr := http.Header{}
				var sent []string
				for i := 0; i < c05pick(r, 0, 1, 3, 10, 40); i++ {
					k := "X-H-" + strconv.Itoa(i)
					v := verifh.RandBytes(r, r.Intn(30), "abcdefghijklmnopqrstuvwxyz0123456789 -_")
					v = strings.TrimSpace(v)
					hdr[k] = []string{v}
					sent = append(sent, k+"="+v)
				}
				hdr["User-Agent"] = []string{"c05-agent"}
				sent = append(sent, "User-Agent=c05-agent", "Accept-Encoding=gzip") // the client asks for gzip itself
				body := c05pattern(n)
				method := "POST"
				wantCL := int64(n)
				if unknown || n == 0 {
					// (an empty known-length body is http.NoBody, which this writer treats as unknown)
					wantCL = -1
				} else {
					sent = append(sent, "Content-Length="+strconv.Itoa(n))
				}
				sort.Strings(sent)
				resp, _, err := do(method, "/echo?x=%20y", hdr, body, unknown)
				id := fmt.Sprintf("cfg%d-echo-%d-unknown=%v", ci, n, unknown)
				if err != nil {
					s.Observe(id, false, "", true, id, "round trip failed: "+err.Error())
					continue
				}
				ok := resp.StatusCode == 200 && resp.Header.Get("X-Echo-Method") == method && resp.Header.Get("X-Echo-Host") == addr &&
					resp.Header.Get("X-Echo-Uri") == "/echo?x=%20y" && resp.Header.Get("X-Echo-Body") == fmt.Sprintf("%d:%s", n, c05sum(body)) &&
					resp.Header.Get("X-Echo-Cl") == strconv.FormatInt(wantCL, 10) && resp.Header.Get("X-Echo-Hdr") == strings.Join(sent, "|")
				hs.Count("echo")
				s.Observe(id, ok, "", true, id, fmt.Sprintf("status=%d echo=%v sent=%q", resp.StatusCode, resp.Header, sent))
			}
		}
		// SETTINGS, both directions
		{
			want := c05settingsString(cfg.cliDG, false, cfg.cliOther)
			srvMu.Lock()
			srvSaw := srvSawSettings
			srvMu.Unlock()
			srvSawSettings = srvSaw
			s.Observe(fmt.Sprintf("cfg%d-settings-client-to-server", ci), srvSawSettings == want, "", true, "fork SETTINGS parsed by quic-go", "server saw "+srvSawSettings+" want "+want)
			rt.mutex.Lock()
			var hconn *connection
			for _, cl := range rt.clients {
				if sd, ok := cl.rt.(*SingleDestinationRoundTripper); ok {
					hconn = sd.hconn
				}
			}
			rt.mutex.Unlock()
			got := "no-conn"
			if hconn != nil {
				select {
				case <-hconn.ReceivedSettings():
					st := hconn.Settings()
					got = c05settingsString(st.EnableDatagrams, st.EnableExtendedConnect, st.Other)
				case <-time.After(5 * time.Second):
					got = "timeout"
				}
			}
			// quic-go's server always announces extended CONNECT
			wantS := c05settingsString(cfg.srvDG, true, cfg.srvOther)
			hs.Count("settings")
			s.Observe(fmt.Sprintf("cfg%d-settings-server-to-client", ci), got == wantS, "", true, "quic-go SETTINGS parsed by the fork", "client saw "+got+" want "+wantS)
		}
		// response direction
		for _, n := range sizes {
			for _, cl := range []string{"0", "1"} {
				id := fmt.Sprintf("cfg%d-body-%d-cl=%s", ci, n, cl)
				resp, b, err := do("GET", fmt.Sprintf("/body?n=%d&cl=%s", n, cl), nil, nil, false)
				if err != nil {
					s.Observe(id, false, "", true, id, "round trip failed: "+err.Error())
					continue
				}
				nPad := 0
				for k := range resp.Header {
					if strings.HasPrefix(k, "X-Pad-") {
						nPad++
					}
				}
				wantPad := n % 31
				if wantPad > 30 {
					wantPad = 30
				}
				ok := resp.StatusCode == 200 && bytes.Equal(b, c05pattern(n)) && nPad == wantPad
				if cl == "1" && resp.ContentLength != int64(n) {
					ok = false
				}
				hs.Count("body")
				s.Observe(id, ok, "", true, id, fmt.Sprintf("status=%d len=%d cl=%d pads=%d", resp.StatusCode, len(b), resp.ContentLength, nPad))
			}
		}
		for _, st := range []int{204, 304, 404, 599} {
			id := fmt.Sprintf("cfg%d-status-%d", ci, st)
			resp, b, err := do("GET", fmt.Sprintf("/body?n=5&status=%d", st), nil, nil, false)
			ok := err == nil && resp.StatusCode == st && len(b) == 0
			hs.Count("status")
			s.Observe(id, ok, "", true, id, fmt.Sprintf("err=%v", err))
		}
		{
			id := fmt.Sprintf("cfg%d-head", ci)
			resp, b, err := do("HEAD", "/body?n=100&cl=1", nil, nil, false)
			ok := err == nil && resp.StatusCode == 200 && len(b) == 0 && resp.ContentLength == 100
			s.Observe(id, ok, "", true, id, fmt.Sprintf("err=%v", err))
		}
		{
			id := fmt.Sprintf("cfg%d-trailers", ci)
			resp, b, err := do("GET", "/trailers", nil, nil, false)
			ok := err == nil && resp.StatusCode == 200 && string(b) == "body" && resp.Trailer.Get("X-T1") == "one" && resp.Trailer.Get("X-T2") == "two"
			hs.Count("trailers")
			detail := fmt.Sprintf("err=%v", err)
			if resp != nil {
				detail += fmt.Sprintf(" trailer=%v", resp.Trailer)
			}
			s.Observe(id, ok, "", true, id, detail)
		}
		rt.Close()
		qtr.Close()
		cliConn.Close()
		srv.Close()
		pc.Close()
	}
	s.Finish()
	hs.Require(t, "echo", "settings", "body", "status", "trailers")
}
