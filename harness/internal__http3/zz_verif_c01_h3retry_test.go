//go:build verif

package http3

// C01 lane h3retry: the retry logic of the real RoundTripper.RoundTripOpt over scripted
// single-connection round trippers (injected through the package's own `newClient` / `Dial`
// hooks and the client cache): the first one sits on a connection that is already cached
// (handshake complete: "reused") or freshly dialled, reads a scripted number of body bytes as
// sendRequestBody would and fails with a time-out / a connection error / another error; what comes
// after is a fresh connection whose server accepts the request and records the body it received.
// The outcome (failed / accepted + exact body) is compared with the Lean model `Req.Replay.h3Run`.

import (
	"bytes"
	"context"
	"crypto/tls"
	"errors"
	"fmt"
	"io"
	"net/http"
	"testing"

	"github.com/imroc/req/v3/internal/transport"
	"github.com/imroc/req/v3/internal/verifh"
	"github.com/quic-go/quic-go"
)

type c01FakeEarlyConn struct {
	quic.EarlyConnection // nil: anything not overridden must not be reached
	hs                   chan struct{}
}

func (c *c01FakeEarlyConn) HandshakeComplete() <-chan struct{}                      { return c.hs }
func (c *c01FakeEarlyConn) Context() context.Context                                { return context.Background() }
func (c *c01FakeEarlyConn) CloseWithError(quic.ApplicationErrorCode, string) error  { return nil }
func (c *c01FakeEarlyConn) NextConnection(context.Context) (quic.Connection, error) { return nil, errors.New("n/a") }

type c01FakeRT struct {
	consume int
	err     error
	seen    *[][]byte
}

func (f *c01FakeRT) OpenRequestStream(context.Context) (RequestStream, error) {
	return nil, errors.New("n/a")
}

func (f *c01FakeRT) RoundTrip(req *http.Request) (*http.Response, error) {
	if f.err != nil {
		if req.Body != nil && req.Body != http.NoBody && f.consume > 0 {
			io.ReadFull(req.Body, make([]byte, f.consume))
			req.Body.Close() // sendRequestBody: `defer body.Close()`
		}
		return nil, f.err
	}
	var b []byte
	if req.Body != nil {
		b, _ = io.ReadAll(req.Body)
		req.Body.Close()
	}
	*f.seen = append(*f.seen, b)
	return &http.Response{StatusCode: 200, Body: http.NoBody, Header: http.Header{}}, nil
}

func TestVerif_C01_h3retry(t *testing.T) {
	s := verifh.New(t, "C01", "h3retry",
		"real RoundTripper.RoundTripOpt over scripted single-connection round trippers: first attempt on a cached (handshake complete) or fresh connection, failing with IdleTimeoutError / ApplicationError / another error after 0..all bytes of the body were read, or accepted; later attempts on fresh connections that accept; request: GET/POST/PUT with or without Idempotency-Key, body none / NoBody / rewindable (GetBody builds a new reader) / one-shot (no GetBody) of 0..70000 bytes; compared with the Lean model h3Run (with the repairs): failed, or accepted with exactly these bytes; oracle: an accepted body is the described body; non-trivial = the request was retried")
	hist := map[string]int{}
	count := func(k string) { hist[k]++; s.Count(k) }
	r := s.Rand()
	n := verifh.N(1500, 12000)
	const host = "verif.test:443"
	closed := make(chan struct{})
	close(closed)
	for i := 0; i < n; i++ {
		kind := verifh.Pick(r, []string{"none", "nobody", "rew", "rew", "one"})
		method := verifh.Pick(r, []string{"GET", "POST", "POST", "PUT", "HEAD"})
		idemKey := r.Intn(3) == 0
		size := verifh.Pick(r, []int{0, 1, 100, 8192, 8193, 70000})
		ga, gb := 1+r.Intn(250), r.Intn(251)
		data := verifh.C01GenBody(size, ga, gb)
		reused := r.Intn(4) != 0
		errKind := verifh.Pick(r, []string{"T", "T", "C", "C", "O", "O3", "A"})
		consume := verifh.Pick(r, []int{0, 0, 1, size / 2, size})
		if kind == "none" || kind == "nobody" {
			consume = 0
		}
		var seen [][]byte
		var first error
		switch errKind {
		case "T":
			first = &quic.IdleTimeoutError{}
		case "C":
			first = &quic.ApplicationError{Remote: true, ErrorCode: 0x100}
		case "O":
			first = errors.New("c01: some other failure")
		case "O3":
			// what SingleDestinationRoundTripper.RoundTrip really returns for a connection closed
			// with an application error: maybeReplaceError turns it into *http3.Error, which
			// isConnectionError does not recognise — error class "other"
			first = maybeReplaceError(&quic.ApplicationError{Remote: true, ErrorCode: 0x100})
			errKind = "O"
		}
		rt := &RoundTripper{Options: &transport.Options{}}
		dials := 0
		rt.Dial = func(ctx context.Context, addr string, tlsCfg *tls.Config, cfg *quic.Config) (quic.EarlyConnection, error) {
			dials++
			return &c01FakeEarlyConn{hs: make(chan struct{})}, nil // handshake never "complete": a fresh connection
		}
		attempt := 0
		rt.newClient = func(quic.EarlyConnection) singleRoundTripper {
			attempt++
			if attempt == 1 && !reused {
				return &c01FakeRT{consume: consume, err: first, seen: &seen}
			}
			return &c01FakeRT{seen: &seen}
		}
		if reused {
			rt.clients = map[string]*roundTripperWithCount{host: {
				cancel: func() {}, dialing: closed, conn: &c01FakeEarlyConn{hs: closed},
				rt: &c01FakeRT{consume: consume, err: first, seen: &seen},
			}}
		}
		req, _ := http.NewRequest(method, "https://verif.test/x", nil)
		req.Header = http.Header{}
		if idemKey {
			req.Header.Set("Idempotency-Key", "k")
		}
		switch kind {
		case "nobody":
			req.Body = http.NoBody
		case "rew":
			req.Body = io.NopCloser(bytes.NewReader(data))
			req.GetBody = func() (io.ReadCloser, error) { return io.NopCloser(bytes.NewReader(data)), nil }
			req.ContentLength = int64(len(data))
		case "one":
			req.Body = io.NopCloser(bytes.NewReader(data))
		}
		human := fmt.Sprintf("%s idemKey=%v body=%s/%d first attempt: reused=%v err=%s after %d bytes", method, idemKey, kind, size, reused, errKind, consume)
		s.Begin(fmt.Sprintf("h3retry-%d", i), human)
		var resp *http.Response
		var err error
		if txt, p := verifh.Safely(func() { resp, err = rt.RoundTripOpt(req, RoundTripOpt{}) }); p {
			s.Crash(human, human, txt, "")
			continue
		}
		impl := "failed"
		ok := true
		if err == nil && resp != nil {
			if len(seen) != 1 {
				impl = fmt.Sprintf("<%d requests accepted>", len(seen))
			} else {
				impl = "accepted " + verifh.C01Blob(seen[0])
				want := data
				if kind == "none" || kind == "nobody" {
					want = nil
				}
				if !bytes.Equal(seen[0], want) {
					ok = false
					human += fmt.Sprintf(" ORACLE: the accepting server got %d bytes, the described body has %d", len(seen[0]), len(want))
				}
			}
		} else if len(seen) != 0 {
			impl = fmt.Sprintf("<failed with %v but %d requests accepted>", err, len(seen))
		}
		mk := map[string]string{"none": "none", "nobody": "none", "rew": "rew", "one": "one"}[kind]
		idem := idemKey || method == "GET" || method == "HEAD"
		a1 := fmt.Sprintf("%s%s:%d", verifh.C01B(reused), errKind, consume)
		line := fmt.Sprintf("c01h3retry 1 1 %s %s %s,0A:0 gen.%d.%d.%d", mk, verifh.C01B(idem), a1, size, ga, gb)
		class := ""
		if errKind == "T" && reused && (consume > 0 || kind == "one") {
			// known finding C01-3: the time-out retry re-sends the request as it is — with what is
			// left of a partly read body (and, repaired, gives up on a body it cannot rewind)
			class = "h3-timeout-retry-consumed-body"
		}
		retried := errKind != "A" && err == nil
		if retried {
			count("retried:" + errKind)
			if mk != "none" {
				count("retried-with-body")
			}
		}
		if errKind != "A" && err != nil {
			count("failed:" + errKind)
		}
		s.Case(line, impl, ok, class, retried, human)
	}
	for _, b := range []string{"retried:T", "retried:C", "retried-with-body", "failed:T", "failed:C", "failed:O"} {
		if hist[b] == 0 {
			t.Errorf("lane did not reach bucket %q (vacuous pass refused)", b)
		}
	}
	s.Finish()
}
