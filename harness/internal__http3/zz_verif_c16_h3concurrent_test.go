//go:build verif

package http3

// C16 round 6: requests on ONE HTTP/3 connection share the requestWriter (QPACK encoder and
// header buffer under its mutex). A request whose stream write is delayed while other requests are
// encoded must still put ITS OWN field section on its stream (Lean: Req/Client/SharedScratch.lean
// with one scratch object = the mutex-guarded buffer; theorems scratch_own_output,
// scratch_schedule_irrelevant).

import (
	"bytes"
	"fmt"
	"io"
	"net/http"
	"net/url"
	"sort"
	"strings"
	"testing"
	"time"

	"github.com/imroc/req/v3/internal/verifh"
)

func c16H3Request(tc *verifh.C01FieldCase) (*http.Request, error) {
	u, e := url.Parse(tc.RawURL)
	if e != nil {
		return nil, e
	}
	req := &http.Request{Method: tc.Method, URL: u, Host: tc.Host, Header: tc.Header.Clone(), Proto: "HTTP/1.1", ProtoMajor: 1, ProtoMinor: 1, ContentLength: tc.CL}
	if tc.HasBody {
		if tc.NoBody {
			req.Body = http.NoBody
		} else {
			req.Body = io.NopCloser(strings.NewReader("x"))
		}
	}
	return req, nil
}

func c16H3Show(tc *verifh.C01FieldCase, b []byte, err error) (ans string, fields [][2]string) {
	u, _ := url.Parse(tc.RawURL)
	effHost := tc.Host
	if effHost == "" && u != nil {
		effHost = u.Host
	}
	switch {
	case !verifh.C01IsASCII(effHost):
		return "err:outside", nil
	case err != nil:
		return c16H3ErrKind(err), nil
	}
	fields, perr := c16DecodeH3(b)
	if perr != "" {
		return "broken: " + perr, nil
	}
	return verifh.C01ShowFields(fields, tc.Header[verifh.C01HeaderOrderKey]), fields
}

// TestVerif_C16_h3concurrent: 2..4 requests written through ONE requestWriter by the real
// WriteRequestHeader, the stream writes of all but the last one delayed until the others are done.
func TestVerif_C16_h3concurrent(t *testing.T) {
	s := verifh.New(t, "C16", "h3concurrent",
		"2..4 requests of the h3fields generator (header maps of 0..60 keys, order lists, names next to the bookkeeping keys) on ONE requestWriter = one HTTP/3 connection, each by the real requestWriter.WriteRequestHeader on its own stream in its own goroutine; the first (or second) Write call of every stream but the last is held back — a stream blocked on flow control, which takes the data over only when the write proceeds — until the requests started after it have been written; a writer that serialises whole requests instead (the next one cannot start while one is held back) is accepted and counted; every request is also written alone on a new requestWriter; compared with the model: (1) the field list decoded from each stream (reference QPACK decoder, HEADERS envelope checked) vs the field-list model of ITS request (c16fields h3), (2) the fields of each stream identified as (request, position) items vs the shared-scratch model with ONE scratch object (c16scratch 1 1: every writer ends with exactly its own items); oracle: the field list of a request written with delayed stream writes = the field list of the same request written alone (canonical form: unlisted fields travel in map order); non-trivial = a stream write was held back while another request was encoded")
	r := s.Rand()
	seen := map[string]int{}
	count := func(b string) { seen[b]++; s.Count(b) }
	n := verifh.N(500, 8000)
	for i := 0; i < n; i++ {
		k := 2 + r.Intn(3)
		var tcs []*verifh.C01FieldCase
		var reqs []*http.Request
		for len(tcs) < k {
			profile := "order"
			if r.Intn(3) == 0 {
				profile = "plain"
			}
			tc := verifh.C01GenFieldCase(r, profile)
			tc.Limit = 0
			verifh.C16Neighbourise(r, tc)
			req, err := c16H3Request(tc)
			if err != nil {
				continue
			}
			tcs, reqs = append(tcs, tc), append(reqs, req)
		}
		human := fmt.Sprintf("%d requests on one HTTP/3 connection:", k)
		solo := make([][]byte, k)
		soloErr := make([]error, k)
		crashed := ""
		for j, tc := range tcs {
			var buf bytes.Buffer
			req, _ := c16H3Request(tc)
			if p, bad := verifh.Safely(func() { soloErr[j] = verifH3WriteRequestHeader(newRequestWriter(), &buf, req, tc.Gzip, nil) }); bad {
				crashed = p
			}
			solo[j] = buf.Bytes()
			human += fmt.Sprintf(" [%d: %q %q host=%q hdr=%q cl=%d body=%v/%v gzip=%v]", j, tc.Method, tc.RawURL, tc.Host, tc.Header, tc.CL, tc.HasBody, tc.NoBody, tc.Gzip)
		}
		if crashed != "" {
			s.Crash(human, human, crashed, "")
			continue
		}
		w := newRequestWriter()
		bufs := make([]bytes.Buffer, k)
		errs := make([]error, k)
		entered := make([]chan struct{}, k)
		release := make([]chan struct{}, k)
		done := make([]chan string, k)
		held := make([]bool, k)
		for j := 0; j < k; j++ {
			j := j
			entered[j], release[j], done[j] = make(chan struct{}), make(chan struct{}), make(chan string, 1)
			holdAt := 1 + r.Intn(2)
			if j == k-1 {
				holdAt = 0
			}
			str := &verifH3Stream{w: &bufs[j]}
			str.onWrite = func(call int) {
				if call == holdAt {
					close(entered[j])
					<-release[j]
				}
			}
			go func() {
				p, bad := verifh.Safely(func() { errs[j] = w.WriteRequestHeader(str, reqs[j], tcs[j].Gzip, nil) })
				if !bad {
					p = ""
				}
				done[j] <- p
			}()
			// wait until this writer is held back inside its stream write, or is done, or cannot
			// start because the writer serialises whole requests
			select {
			case <-entered[j]:
				held[j] = true
			case p := <-done[j]:
				done[j] <- p
			case <-time.After(2 * time.Second):
				count("serialised")
			}
		}
		anyHeld := false
		for j := k - 1; j >= 0; j-- {
			if held[j] {
				anyHeld = true
			}
			close(release[j])
		}
		for j := 0; j < k; j++ {
			select {
			case p := <-done[j]:
				if p != "" {
					crashed = p
				}
			case <-time.After(20 * time.Second):
				crashed = fmt.Sprintf("request %d never finished", j)
			}
		}
		if crashed != "" {
			s.Crash(human, human, crashed, "")
			continue
		}
		if anyHeld {
			count("stream-write-held-back")
		}
		allOK := true
		var ids []string
		var lens, sched []int
		soloFields := make([][][2]string, k)
		for j, tc := range tcs {
			_, soloFields[j] = c16H3Show(tc, solo[j], soloErr[j])
		}
		for j, tc := range tcs {
			ans, fields := c16H3Show(tc, bufs[j].Bytes(), errs[j])
			alone, _ := c16H3Show(tc, solo[j], soloErr[j])
			ok := ans == alone // unlisted fields travel in map order: compared in canonical form
			h := human + fmt.Sprintf(" REQUEST %d", j)
			if !ok {
				h += fmt.Sprintf(" ORACLE: stream %d does not carry what the same request gives when written alone: got %q, alone %q", j, fields, soloFields[j])
			}
			if !strings.HasPrefix(ans, "ok") && !strings.HasPrefix(alone, "ok") {
				count("refused")
			}
			if errs[j] != nil || soloErr[j] != nil || strings.HasPrefix(ans, "err:") {
				allOK = false
			}
			s.Case(verifh.C01FieldLine("h3", tc), ans, ok, "", anyHeld, h)
			var seq []int
			used := map[int]bool{}
			own := soloFields[j]
			for p, f := range fields {
				id := -1
				if p < len(own) && own[p] == f && !used[p] {
					id = 1000*j + p
					used[p] = true
				}
				for q := 0; id < 0 && q < len(own); q++ {
					if own[q] == f && !used[q] {
						id = 1000*j + q
						used[q] = true
					}
				}
				for o := 0; id < 0 && o < k; o++ {
					for q, of := range soloFields[o] {
						if o != j && of == f {
							id = 1000*o + q
							break
						}
					}
				}
				if id < 0 {
					id = 999999
				}
				seq = append(seq, id)
			}
			sort.Ints(seq) // unlisted fields travel in map order: the order is judged by c16fields
			ids = append(ids, fmt.Sprintf("w%d=done:%s", j, verifh.IntList(seq)))
			lens = append(lens, len(own))
			for c := 0; c < len(own)+2; c++ { // lock + encode, copy into the private frame buffer, unlock
				sched = append(sched, j)
			}
		}
		if allOK {
			count("scratch-model-judged")
			s.Case(fmt.Sprintf("c16scratch 1 1 %s %s", verifh.IntList(lens), verifh.IntList(sched)), strings.Join(ids, " "), true, "", anyHeld,
				human+" ITEMS (1000·request + field position) per stream")
		}
	}
	for _, b := range []string{"stream-write-held-back", "scratch-model-judged"} {
		if seen[b] == 0 {
			t.Errorf("lane did not reach bucket %q (vacuous pass refused)", b)
		}
	}
	s.Finish()
}
