//go:build verif

package http3

// C07 round 5 — h3sections: the header budget over ALL field sections of one HTTP/3 response.
//
// A whole exchange runs on an in-memory request stream through the real code path of a round trip:
// connection.openRequestStream (which builds the trailer callback around connection.decodeTrailers),
// SingleDestinationRoundTripper.doRequest (request header, the interim loop over ReadResponse) and
// the drain of res.Body (stream.Read: DATA frames, the trailer HEADERS frame, what may follow).
// The stream carries 0..7 informational sections, a final section, DATA frames, a trailer section,
// with block sizes around MaxResponseHeaderBytes in EVERY section and hostile declared lengths
// (limit+1, 2^31, 2^50, 2^62-1) in every section, skippable frames in between, second trailers,
// DATA after trailers, cuts. Compared with the Lean model C07.H3Sections.readResponse: outcome
// class, the sizes of all header-block buffers allocated (every buffer handed to io.ReadFull), bytes
// consumed. Theorem h3_budget_sections says each of those buffers is within the limit; a makeslice
// panic or a multi-GiB allocation is a disagreement with the model.

import (
	"context"
	"fmt"
	"io"
	"net/http"
	"strconv"
	"strings"
	"testing"

	"github.com/imroc/req/v3/internal/quic-go/quicvarint"
	"github.com/imroc/req/v3/internal/transport"
	"github.com/imroc/req/v3/internal/verifh"
	"github.com/quic-go/qpack"
	"github.com/quic-go/quic-go"
)

// c07SeqStream: like c07Stream, but records EVERY buffer io.ReadFull asks to fill (one entry per
// ReadFull call), refusing absurd ones instead of touching the memory.
type c07SeqStream struct {
	data      []byte
	pos       int
	allocs    []int
	cont      bool
	cancelled []uint64
	ctx       context.Context
}

func (s *c07SeqStream) StreamID() quic.StreamID { return 0 }
func (s *c07SeqStream) Read(p []byte) (int, error) {
	if c07calledFrom("io.ReadAtLeast") {
		if !s.cont && len(p) > 0 {
			s.allocs = append(s.allocs, len(p))
		}
	} else {
		s.cont = false
	}
	if s.pos >= len(s.data) {
		s.cont = false
		return 0, io.EOF
	}
	n := copy(p, s.data[s.pos:])
	s.pos += n
	if c07calledFrom("io.ReadAtLeast") {
		s.cont = n < len(p)
	}
	return n, nil
}
func (s *c07SeqStream) CancelRead(c quic.StreamErrorCode) {
	s.cancelled = append(s.cancelled, uint64(c))
}

// c07SeqQStream adapts the recorder to quic.Stream.
type c07SeqQStream struct {
	*c07Stream
	rec *c07SeqStream
}

func (s *c07SeqQStream) Read(p []byte) (int, error)        { return s.rec.Read(p) }
func (s *c07SeqQStream) CancelRead(c quic.StreamErrorCode) { s.rec.CancelRead(c) }

type c07SeqConn struct {
	c07Conn
	str quic.Stream
	ctx context.Context
}

func (c *c07SeqConn) OpenStreamSync(context.Context) (quic.Stream, error) { return c.str, nil }
func (c *c07SeqConn) ConnectionState() quic.ConnectionState              { return quic.ConnectionState{} }
func (c *c07SeqConn) Context() context.Context                           { return c.ctx }

var c07BlockCache = map[string][]byte{}

// c07BlockOfSize: a valid QPACK field section with the given first field whose encoding is exactly
// `target` bytes long (nil if the encoder cannot hit it).
func c07BlockOfSize(name, value string, target int) []byte {
	key := name + "=" + value + "/" + strconv.Itoa(target)
	if b, ok := c07BlockCache[key]; ok {
		return b
	}
	var res []byte
	for n := 0; n <= target+8; n++ {
		var sb strings.Builder
		enc := qpack.NewEncoder(&sb)
		enc.WriteField(qpack.HeaderField{Name: name, Value: value})
		if n > 0 {
			enc.WriteField(qpack.HeaderField{Name: "x-filler", Value: strings.Repeat("v", n-1)})
		}
		if sb.Len() == target {
			res = []byte(sb.String())
			break
		}
		if sb.Len() > target {
			break
		}
	}
	c07BlockCache[key] = res
	return res
}

func TestVerif_C07_h3sections(t *testing.T) {
	s := verifh.New(t, "C07", "h3sections",
		"a whole HTTP/3 exchange on an in-memory request stream through openRequestStream + doRequest + the drain of res.Body: 0..7 informational sections (100/102/103/199) + a final section (200/204/304/404/101) + 0..2 DATA frames + a trailer section (none / one / two / DATA after it), GREASE and push frames in between, a SETTINGS or reserved frame in the body, cuts; in EVERY section the block is small / limit-1 / limit / limit+1 bytes (real QPACK, declared = actual) or the declared length is hostile (limit+1, 2^31, 2^50, 2^62-1 over a small block); MaxResponseHeaderBytes in {48, 64, 300, 1000}; answer = class (ok / head-error / too-many-1xx / body-error / trailer-too-large) + the sizes of ALL block buffers handed to io.ReadFull + bytes consumed; model = C07.H3Sections.readResponse (statuses of the encoded sections as QPACK side information); Go-side oracle = theorem h3_budget_sections on the real run: every buffer <= limit, at most 7; a recovered panic (makeslice) is a disagreement; every case non-trivial")
	r := s.Rand()
	vi := func(b []byte, v uint64) []byte { return quicvarint.Append(b, v) }
	n := verifh.N(4000, 120000)
	for c := 0; c < n; c++ {
		limit := verifh.Pick(r, []int{48, 64, 300, 1000})
		var in []byte
		var kind []string
		var statuses []string
		hostileDone := false
		// one field section; returns false when nothing sensible can follow it
		section := func(name, value string, where string) bool {
			var block []byte
			mode := r.Intn(20)
			switch {
			case mode < 9:
				// the bare field (smallest block)
			case mode < 17:
				block = c07BlockOfSize(name, value, limit+verifh.Pick(r, []int{-2, -1, 0, 0, 0, 1}))
			}
			if block == nil {
				var sb strings.Builder
				enc := qpack.NewEncoder(&sb)
				enc.WriteField(qpack.HeaderField{Name: name, Value: value})
				block = []byte(sb.String())
			}
			in = vi(in, 0x1)
			if mode >= 17 && !hostileDone {
				// a hostile declared length over a small block
				decl := verifh.Pick(r, []uint64{uint64(limit) + 1, 1 << 31, 1 << 50, 1<<62 - 1})
				in = vi(in, decl)
				in = append(in, block...)
				kind = append(kind, where+":declared-hostile")
				hostileDone = true
				return false
			}
			in = vi(in, uint64(len(block)))
			in = append(in, block...)
			switch {
			case len(block) > limit:
				kind = append(kind, where+":over-limit")
				return false
			case len(block) == limit:
				kind = append(kind, where+":at-limit")
			default:
				kind = append(kind, where+":within")
			}
			return true
		}
		skippable := func() {
			for k := r.Intn(3); k > 0 && r.Intn(3) == 0; k-- {
				ty := verifh.Pick(r, []uint64{0x3, 0x5, 0x7, 0xd, 0x21, 0x21 + 0x1f*uint64(1+r.Intn(100)), 0x40})
				pl := []byte(verifh.RandBytes(r, r.Intn(20), ""))
				in = vi(in, ty)
				in = vi(in, uint64(len(pl)))
				in = append(in, pl...)
				kind = append(kind, "skippable")
			}
		}
		alive := true
		n1xx := verifh.Pick(r, []int{0, 0, 0, 1, 1, 2, 3, 5, 5, 6, 7})
		for i := 0; i < n1xx && alive; i++ {
			skippable()
			st := verifh.Pick(r, []string{"100", "103", "103", "102", "199"})
			statuses = append(statuses, st)
			alive = section(":status", st, "1xx")
		}
		if alive && n1xx > 5 {
			alive = false // the sixth interim section ends the call
			kind = append(kind, "1xx-flood")
		}
		if alive {
			skippable()
			st := verifh.Pick(r, []string{"200", "200", "200", "204", "304", "404", "101"})
			statuses = append(statuses, st)
			alive = section(":status", st, "final")
		}
		if alive {
			for k := r.Intn(3); k > 0; k-- {
				pl := []byte(verifh.RandBytes(r, r.Intn(30), ""))
				in = vi(in, 0x0)
				in = vi(in, uint64(len(pl)))
				in = append(in, pl...)
				kind = append(kind, "data")
				skippable()
			}
			switch r.Intn(10) {
			case 0, 1:
				kind = append(kind, "no-trailers")
			case 2:
				in = vi(in, verifh.Pick(r, []uint64{0x4, 0x2, 0x6, 0x8, 0x9}))
				in = vi(in, 0)
				kind = append(kind, "control-frame-in-body")
			default:
				if section("x-trailer", "t", "trailer") {
					switch r.Intn(6) {
					case 0:
						section("x-trailer2", "t", "second-trailer")
					case 1:
						in = vi(in, 0x0)
						in = vi(in, 2)
						in = append(in, "zz"...)
						kind = append(kind, "data-after-trailer")
					case 2:
						skippable()
					}
				}
			}
		}
		if r.Intn(10) == 0 && len(in) > 0 {
			in = in[:r.Intn(len(in))]
			kind = append(kind, "cut")
		}
		rec := &c07SeqStream{data: in, ctx: context.Background()}
		qs := &c07SeqQStream{c07Stream: &c07Stream{ctx: context.Background()}, rec: rec}
		fc := &c07SeqConn{str: qs, ctx: context.Background()}
		class := ""
		ptxt, pan := verifh.Safely(func() {
			opts := &transport.Options{}
			hconn := newConnection(context.Background(), fc, false, PerspectiveClient, 0, opts)
			rt := &SingleDestinationRoundTripper{Options: opts, Connection: fc, hconn: hconn, requestWriter: newRequestWriter(), decoder: qpack.NewDecoder(nil)}
			req, _ := http.NewRequest("GET", "https://verif.invalid/", nil)
			str, err := hconn.openRequestStream(context.Background(), rt.requestWriter, make(chan struct{}), true, uint64(limit))
			if err != nil {
				class = "open-error"
				return
			}
			res, err := rt.doRequest(req, str)
			switch {
			case err != nil && strings.Contains(err.Error(), "too many 1xx"):
				class = "too-many-1xx"
			case err != nil:
				class = "head-error"
			default:
				_, cerr := io.Copy(io.Discard, res.Body)
				switch {
				case cerr == nil:
					class = "ok"
				case strings.Contains(cerr.Error(), "HEADERS frame too large"):
					class = "trailer-too-large"
				default:
					class = "body-error"
				}
			}
		})
		line := "c07h3sections " + strconv.Itoa(limit) + " " + strings.Join(append([]string{}, statuses...), ",") + " " + verifh.Hex(string(in))
		if len(statuses) == 0 {
			line = "c07h3sections " + strconv.Itoa(limit) + " - " + verifh.Hex(string(in))
		}
		human := fmt.Sprintf("limit=%d sections=%v statuses=%v stream=%x", limit, kind, statuses, in[:min(len(in), 160)])
		for _, k := range kind {
			s.Count(k)
		}
		if pan {
			s.Count("panic")
			s.Case(line, "panic: "+ptxt[:min(len(ptxt), 1500)], false, "", true, human)
			continue
		}
		al := "-"
		ok := len(rec.allocs) <= 7
		if len(rec.allocs) > 0 {
			parts := make([]string, len(rec.allocs))
			for i, a := range rec.allocs {
				parts[i] = strconv.Itoa(a)
				if a > limit {
					ok = false
				}
			}
			al = strings.Join(parts, ",")
		}
		ans := fmt.Sprintf("%s allocs=%s consumed=%d", class, al, rec.pos)
		s.Count("class:" + class)
		s.Count("sections-read:" + strconv.Itoa(len(rec.allocs)))
		s.Case(line, ans, ok, "", true, human+" -> "+ans)
	}
	s.Finish()
}
