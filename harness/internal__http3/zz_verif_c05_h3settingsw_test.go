//go:build verif

package http3

import (
	"bytes"
	"fmt"
	"strings"
	"testing"

	"github.com/imroc/req/v3/internal/verifh"
	refvarint "github.com/quic-go/quic-go/quicvarint"
)

// c05refSettingsAppend is quic-go v0.48.2's settingsFrame.Append (http3/frames.go) written with the
// REFERENCE varint package, the map iterated in the given order (the length does not depend on it).
func c05refSettingsAppend(b []byte, dg, ec bool, order [][2]uint64) []byte {
	b = refvarint.Append(b, 0x4)
	var l int
	for _, p := range order {
		l += refvarint.Len(p[0]) + refvarint.Len(p[1])
	}
	if dg {
		l += refvarint.Len(0x33) + refvarint.Len(1)
	}
	if ec {
		l += refvarint.Len(0x8) + refvarint.Len(1)
	}
	b = refvarint.Append(b, uint64(l))
	if dg {
		b = refvarint.Append(b, 0x33)
		b = refvarint.Append(b, 1)
	}
	if ec {
		b = refvarint.Append(b, 0x8)
		b = refvarint.Append(b, 1)
	}
	for _, p := range order {
		b = refvarint.Append(b, p[0])
		b = refvarint.Append(b, p[1])
	}
	return b
}

// TestVerif_C05_h3settingsw: the HTTP/3 SETTINGS WRITER over the whole settingsFrame value space:
// every flag combination x Other (the caller's AdditionalSettings) that may COLLIDE with the
// dedicated identifiers 0x33 / 0x8 — flag set (repeated identifier on the wire), flag clear (legal,
// reads back as the flag), values other than 0/1 —, appended behind existing bytes, followed by
// further control-stream frames.
func TestVerif_C05_h3settingsw(t *testing.T) {
	s := verifh.New(t, "C05", "h3settingsw",
		"settingsFrame.Append for {Datagram, ExtendedConnect} in all four combinations x Other with 0..12 entries drawn from {0x33, 0x8 (values 0/1/other), HTTP/2-reserved ids, greased ids, ids and values at every varint boundary, >= 2^62 (Len panics)}: bytes = model appendGo (length loop and write loop modelled separately, iterated in different orders) = quic-go's Append rebuilt with quic-go's quicvarint in the recovered iteration order; announced length = payload bytes written; every entry of Other written exactly once; the frame followed by GOAWAY + DATA on one reader: ParseNext verdict = model parseNext = declarative SettingsOK(writtenPairs) (model op c05h3settingsw) = Go-side expectation, and the next frame is read from the right offset whether the SETTINGS frame was accepted or refused; non-trivial = Other meets a dedicated identifier")
	r := s.Rand()
	hs := newC05hist(s)
	n := verifh.N(3000, 150000)
	tail := []byte{0x07, 0x01, 0x00, 0x00, 0x05} // GOAWAY(len 1) then a DATA header, length 5
	for c := 0; c < n; c++ {
		sf := &settingsFrame{Datagram: c&1 != 0, ExtendedConnect: c&2 != 0}
		k := c05pick(r, 0, 1, 1, 2, 3, 5, r.Intn(13))
		panics := false
		for i := 0; i < k; i++ {
			if sf.Other == nil {
				sf.Other = map[uint64]uint64{}
			}
			id := c05pick(r, uint64(0x33), 0x33, 0x8, 0x8, 0x1, 0x6, 0x7, 0x9, 0x1f*uint64(r.Intn(1000))+0x21, uint64(r.Intn(64)), 63, 64, 16383, 16384, 1<<30-1, 1<<30, 1<<62-1, uint64(r.Int63n(1<<62)))
			val := c05pick(r, uint64(0), 1, 1, 2, 63, 64, 16383, 16384, 1<<30-1, 1<<30, 1<<62-1, uint64(r.Int63n(1<<62)))
			if (id == 0x8 || id == 0x33) && r.Intn(4) != 0 {
				val = uint64(r.Intn(2))
			}
			if r.Intn(400) == 0 {
				if r.Intn(2) == 0 {
					id = c05pick(r, uint64(1<<62), 1<<63, ^uint64(0))
				} else {
					val = c05pick(r, uint64(1<<62), 1<<63, ^uint64(0))
				}
			}
			sf.Other[id] = val
		}
		for id, v := range sf.Other {
			if id >= 1<<62 || v >= 1<<62 {
				panics = true
			}
		}
		// what RFC 9114 7.2.4 / the reference parser must make of the frame (second opinion)
		expDG, expEC, reject := sf.Datagram, sf.ExtendedConnect, false
		rest := map[uint64]uint64{}
		class := "disjoint"
		for id, v := range sf.Other {
			switch id {
			case 0x33:
				if sf.Datagram {
					reject = true
					class = "collide"
				} else if v > 1 {
					reject = true
				} else {
					expDG = v == 1
				}
			case 0x8:
				if sf.ExtendedConnect {
					reject = true
					class = "collide"
				} else if v > 1 {
					reject = true
				} else {
					expEC = v == 1
				}
			default:
				rest[id] = v
			}
		}
		_, has33 := sf.Other[0x33]
		_, has8 := sf.Other[0x8]
		collides := (sf.Datagram && has33) || (sf.ExtendedConnect && has8)
		switch {
		case sf.Datagram && has33 && sf.ExtendedConnect && has8:
			class = "collide-both"
		case sf.Datagram && has33:
			class = "collide-dg"
		case sf.ExtendedConnect && has8:
			class = "collide-ec"
		case reject:
			class = "known-id-badvalue"
		case has33 || has8:
			class = "known-id-flag-clear"
		}
		flags := c05b01(sf.Datagram) + c05b01(sf.ExtendedConnect)
		prefix := []byte(verifh.RandBytes(r, r.Intn(4), ""))
		var out []byte
		if p, bad := verifh.Safely(func() { out = sf.Append(append([]byte(nil), prefix...)) }); bad {
			if !panics {
				s.Crash(fmt.Sprintf("h3settingsw dg=%v ec=%v other=%s", sf.Datagram, sf.ExtendedConnect, c05pairs(sf.Other)), class, p, "")
				continue
			}
			// Len panics on a value >= 2^62 (as quic-go's does); the model: none, in any order
			var ord []string
			for id, v := range sf.Other {
				ord = append(ord, fmt.Sprintf("%d:%d", id, v))
			}
			hs.Count("panic")
			s.Case(fmt.Sprintf("c05h3append settings %s %s %s", c05b01(sf.Datagram), c05b01(sf.ExtendedConnect), strings.Join(ord, ",")), "panic", true, "", false,
				fmt.Sprintf("settingsFrame.Append dg=%v ec=%v other=%s -> panic", sf.Datagram, sf.ExtendedConnect, c05pairs(sf.Other)))
			continue
		}
		ok := true
		why := ""
		fail := func(f string, a ...any) {
			ok = false
			if why == "" {
				why = " !! " + fmt.Sprintf(f, a...)
			}
		}
		if panics {
			fail("a value >= 2^62 was written without a panic")
		}
		if len(out) < len(prefix) || !bytes.Equal(out[:len(prefix)], prefix) {
			fail("existing bytes not preserved")
			out = append(append([]byte(nil), prefix...), out...)
		}
		frame := out[len(prefix):]
		// read the frame with the REFERENCE reader: type, announced length, then pairs from ALL the
		// bytes written (not only the announced ones)
		br := bytes.NewReader(frame)
		ty, _ := refvarint.Read(br)
		ln, _ := refvarint.Read(br)
		payloadLen := br.Len()
		if ty != 4 {
			fail("frame type %d", ty)
		}
		if int(ln) != payloadLen {
			fail("announces %d payload bytes, writes %d", ln, payloadLen)
		}
		var pairs [][2]uint64
		for br.Len() > 0 {
			id, e1 := refvarint.Read(br)
			v, e2 := refvarint.Read(br)
			if e1 != nil || e2 != nil {
				fail("payload ends inside a pair")
				break
			}
			pairs = append(pairs, [2]uint64{id, v})
		}
		// the dedicated flags come first, in the order 0x33, 0x8; the rest is the iteration order
		order := pairs
		if sf.Datagram {
			if len(order) == 0 || order[0] != [2]uint64{0x33, 1} {
				fail("H3_DATAGRAM=1 is not the first pair")
			} else {
				order = order[1:]
			}
		}
		if sf.ExtendedConnect {
			if len(order) == 0 || order[0] != [2]uint64{0x8, 1} {
				fail("ENABLE_CONNECT_PROTOCOL=1 does not follow the datagram flag")
			} else {
				order = order[1:]
			}
		}
		seen := map[uint64]int{}
		for _, p := range order {
			seen[p[0]]++
			if v, has := sf.Other[p[0]]; !has || v != p[1] {
				fail("pair %d:%d is not an entry of Other", p[0], p[1])
			}
		}
		for id := range sf.Other {
			if seen[id] != 1 {
				fail("entry %d of Other written %d times", id, seen[id])
			}
		}
		if ref := c05refSettingsAppend(nil, sf.Datagram, sf.ExtendedConnect, order); !bytes.Equal(ref, frame) {
			fail("quic-go's Append writes %s", c05hex(ref))
		}
		ordS := "-"
		if len(order) > 0 {
			var parts []string
			for _, p := range order {
				parts = append(parts, fmt.Sprintf("%d:%d", p[0], p[1]))
			}
			ordS = strings.Join(parts, ",")
		}
		hs.Count("flags-" + flags)
		hs.Count(class)
		hs.Count(class + "/" + flags)
		human := fmt.Sprintf("[%s] settingsFrame.Append dg=%v ec=%v other=%s (order %s) -> %s", class, sf.Datagram, sf.ExtendedConnect, c05pairs(sf.Other), ordS, c05hex(frame))
		s.Case(fmt.Sprintf("c05h3append settings %s %s %s", c05b01(sf.Datagram), c05b01(sf.ExtendedConnect), ordS), c05hex(frame), ok, "", class != "disjoint", human+why)

		// the frame on a control stream, followed by GOAWAY and DATA
		stream := append(append([]byte(nil), frame...), tail...)
		rd := bytes.NewReader(stream)
		fp := &frameParser{r: rd, conn: &c05conn{}}
		got, err := fp.ParseNext()
		impl, verdict := "", "reject"
		ok2, why2 := true, ""
		if err != nil {
			impl = c05h3err(err)
			hs.Count("parse-" + impl)
			if !reject {
				ok2, why2 = false, " !! a frame RFC 9114 7.2.4 allows was refused"
			}
		} else {
			impl = c05renderH3(got, len(stream)-rd.Len())
			hs.Count("parse-ok")
			if bs, isS := got.(*settingsFrame); !isS {
				ok2, why2 = false, " !! not a SETTINGS frame"
			} else {
				verdict = fmt.Sprintf("ok %s %s %s", c05b01(bs.Datagram), c05b01(bs.ExtendedConnect), c05pairs(bs.Other))
				if reject {
					ok2, why2 = false, " !! a repeated identifier / a bad value was accepted"
				} else if bs.Datagram != expDG || bs.ExtendedConnect != expEC || c05pairs(bs.Other) != c05pairs(rest) {
					ok2, why2 = false, fmt.Sprintf(" !! expected ok %s %s %s", c05b01(expDG), c05b01(expEC), c05pairs(rest))
				}
			}
		}
		// alignment: accepted or refused, the parser has consumed exactly the frame, and the next
		// ParseNext skips GOAWAY and returns the DATA header
		if rd.Len() != len(tail) && ok2 {
			ok2, why2 = false, fmt.Sprintf(" !! %d bytes left behind the SETTINGS frame, %d follow it", rd.Len(), len(tail))
		}
		if nx, e2 := fp.ParseNext(); ok2 && (e2 != nil || c05renderH3(nx, 0) != "data 5 0") {
			ok2, why2 = false, " !! the frame behind SETTINGS is not read as DATA(5)"
		}
		if ok2 {
			hs.Count("next-frame-aligned")
		}
		s.Case("c05h3next "+c05hex(stream), impl, ok2, "", class != "disjoint", fmt.Sprintf("[%s] control stream %s -> %s%s", class, c05hex(stream), impl, why2))
		s.Case(fmt.Sprintf("c05h3settingsw %s %s %s", c05b01(sf.Datagram), c05b01(sf.ExtendedConnect), ordS),
			fmt.Sprintf("len=%d collides=%s %s", ln, c05b01(collides), verdict), true, "", class != "disjoint",
			fmt.Sprintf("[%s] dg=%v ec=%v other=%s -> announced %d, %s", class, sf.Datagram, sf.ExtendedConnect, ordS, ln, verdict))
	}
	s.Finish()
	req := []string{"panic", "parse-ok", "parse-err:dup", "parse-err:value", "next-frame-aligned", "disjoint", "known-id-flag-clear", "known-id-badvalue"}
	for _, fl := range []string{"00", "01", "10", "11"} {
		req = append(req, "flags-"+fl, "disjoint/"+fl)
	}
	req = append(req, "collide-dg/10", "collide-dg/11", "collide-ec/01", "collide-ec/11", "collide-both/11",
		"known-id-flag-clear/00", "known-id-flag-clear/01", "known-id-flag-clear/10")
	hs.Require(t, req...)
}
