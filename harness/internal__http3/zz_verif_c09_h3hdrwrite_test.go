//go:build verif

package http3

import (
	"bytes"
	"fmt"
	"net/http"
	"strconv"
	"strings"
	"sync"
	"testing"
	"time"

	"github.com/imroc/req/v3/internal/verifh"
	"github.com/quic-go/qpack"
	"github.com/quic-go/quic-go"
	"github.com/quic-go/quic-go/quicvarint"
)

// TestVerif_C09_h3hdrwrite: several callers write their request HEADERS through the ONE
// requestWriter of an HTTP/3 connection while earlier callers' Stream.Write calls are still in
// progress (a stream waiting for flow-control credit keeps the slice it was handed for as long as
// it likes). Every stream must carry the field section of ITS OWN request: the bytes a stream was
// handed must not change while its Write runs, and must decode to the request's own tag.

type c09h3Stream struct {
	quic.Stream // nil: anything else the writer calls panics
	entered     chan struct{}
	release     chan struct{}
	atEntry     []byte
	atExit      []byte
}

func (st *c09h3Stream) Write(p []byte) (int, error) {
	st.atEntry = append([]byte(nil), p...)
	close(st.entered)
	<-st.release
	st.atExit = append([]byte(nil), p...) // the same slice, after the others have written
	return len(p), nil
}

func c09h3DecodeTag(frame []byte) (string, error) {
	r := bytes.NewReader(frame)
	typ, err := quicvarint.Read(r)
	if err != nil || typ != 0x1 {
		return "", fmt.Errorf("not a HEADERS frame (type %d, %v)", typ, err)
	}
	l, err := quicvarint.Read(r)
	if err != nil || int(l) != r.Len() {
		return "", fmt.Errorf("frame length %d, %d bytes follow (%v)", l, r.Len(), err)
	}
	block := make([]byte, l)
	r.Read(block)
	hfs, err := qpack.NewDecoder(nil).DecodeFull(block)
	if err != nil {
		return "", err
	}
	for _, hf := range hfs {
		if hf.Name == "x-tag" {
			return hf.Value, nil
		}
	}
	return "", fmt.Errorf("no x-tag in the field section")
}

func TestVerif_C09_h3hdrwrite(t *testing.T) {
	s := verifh.New(t, "C09", "h3hdrwrite",
		"2..5 requests (own x-tag; header blocks of about 60 B, 1.5 KB or 6 KB through a padding header) written through one requestWriter; each Stream.Write parks with the slice in hand until released (release order: a random permutation, some writes released before the next request is encoded, most after); oracle: the bytes a stream was handed are the same when its Write returns, and decode (QPACK) to a HEADERS frame with the stream's own tag; non-trivial = a later request was encoded while an earlier write was parked")
	r := s.Rand()
	n := verifh.N(60, 1000)
	for cs := 0; cs < n; cs++ {
		k := 2 + r.Intn(4)
		w := newRequestWriter()
		streams := make([]*c09h3Stream, k)
		sizes := make([]int, k)
		early := make([]bool, k)
		var wg sync.WaitGroup
		errs := make([]error, k)
		overlapped := false
		var desc []string
		for i := 0; i < k; i++ {
			sizes[i] = verifh.Pick(r, []int{0, 0, 1500, 6000})
			early[i] = r.Intn(5) == 0
			desc = append(desc, fmt.Sprintf("t%d+%dB%s", i+1, sizes[i], map[bool]string{true: "(released at once)", false: ""}[early[i]]))
		}
		human := strings.Join(desc, " ")
		s.Begin(fmt.Sprintf("h3hdrwrite-%d", cs), human)
		parked := 0
		for i := 0; i < k; i++ {
			st := &c09h3Stream{entered: make(chan struct{}), release: make(chan struct{})}
			streams[i] = st
			req, _ := http.NewRequest("GET", "https://example.test/p"+strconv.Itoa(i), nil)
			req.Header.Set("X-Tag", strconv.Itoa(cs*10+i+1))
			if sizes[i] > 0 {
				req.Header.Set("X-Pad", strings.Repeat(string(rune('a'+i)), sizes[i]))
			}
			wg.Add(1)
			go func(i int) {
				defer wg.Done()
				errs[i] = w.WriteRequestHeader(st, req, false, nil)
			}(i)
			select {
			case <-st.entered:
			case <-time.After(5 * time.Second):
				t.Fatalf("request %d never reached Stream.Write (the writer serialises whole writes?)", i)
			}
			if parked > 0 {
				overlapped = true
			}
			if early[i] {
				close(st.release)
			} else {
				parked++
			}
		}
		for _, i := range r.Perm(k) {
			if !early[i] {
				close(streams[i].release)
			}
		}
		wg.Wait()
		ok := true
		var detail []string
		for i, st := range streams {
			want := strconv.Itoa(cs*10 + i + 1)
			if errs[i] != nil {
				ok = false
				detail = append(detail, fmt.Sprintf("t%s: %v", want, errs[i]))
				continue
			}
			if !bytes.Equal(st.atEntry, st.atExit) {
				ok = false
				got, _ := c09h3DecodeTag(st.atExit)
				detail = append(detail, fmt.Sprintf("the bytes handed to the stream of request t%s changed while its Write was in progress (they now decode to tag %q)", want, got))
				continue
			}
			got, err := c09h3DecodeTag(st.atExit)
			if err != nil || got != want {
				ok = false
				detail = append(detail, fmt.Sprintf("stream of request t%s carries tag %q (%v)", want, got, err))
			}
		}
		s.Count(fmt.Sprintf("requests-%d", k))
		s.Observe(fmt.Sprintf("h3hdrwrite-%d", cs), ok, "", overlapped, human, strings.Join(detail, "; "))
		if !ok {
			break
		}
	}
	s.Finish()
}
