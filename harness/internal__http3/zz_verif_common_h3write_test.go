//go:build verif

package http3

import (
	"io"
	"net/http"

	"github.com/imroc/req/v3/internal/dump"
	"github.com/quic-go/quic-go"
)

// verifH3Stream is the send side of a request stream: what requestWriter.WriteRequestHeader writes
// to it arrives in w. onWrite (optional) runs at the start of every Write call, BEFORE the bytes are
// taken over — a stream blocked on flow control takes the data over only when the Write proceeds.
type verifH3Stream struct {
	quic.Stream // nil: the request writer only writes
	w           io.Writer
	calls       int
	onWrite     func(call int)
}

func (s *verifH3Stream) Write(p []byte) (int, error) {
	s.calls++
	if s.onWrite != nil {
		s.onWrite(s.calls)
	}
	return s.w.Write(p)
}

// verifH3WriteRequestHeader runs the real requestWriter.WriteRequestHeader — the entry point the
// client uses for every request stream — and collects the stream bytes in out.
func verifH3WriteRequestHeader(w *requestWriter, out io.Writer, req *http.Request, gzip bool, dumps []*dump.Dumper) error {
	return w.WriteRequestHeader(&verifH3Stream{w: out}, req, gzip, dumps)
}
