//go:build verif

package http3

// C07 round 4 — HTTP/3:
//   - h3pos        byte-position matrix over decoded field sections: updateResponseFromHeaders vs the
//                  Lean model (H3.Fields), every byte value at every position of a field;
//   - h3headbudget requestStream.ReadResponse at the frame level on an in-memory stream: which frames
//                  are skipped, when the HEADERS length is refused, how many bytes are taken from the
//                  stream and how large the buffer handed to io.ReadFull is — vs C07.H3Budget.readHead
//                  (whose theorem says the buffer never exceeds MaxResponseHeaderBytes).

import (
	"context"
	"fmt"
	"io"
	"net/http"
	"runtime"
	"strconv"
	"strings"
	"testing"
	"time"

	"github.com/imroc/req/v3/internal/quic-go/quicvarint"
	"github.com/imroc/req/v3/internal/transport"
	"github.com/imroc/req/v3/internal/verifh"
	"github.com/quic-go/qpack"
	"github.com/quic-go/quic-go"
)

func TestVerif_C07_h3pos(t *testing.T) {
	s := verifh.New(t, "C07", "h3pos",
		"HTTP/3 field sections after QPACK: every byte value 0x00..0xff at every position of a field (regular name first / middle / last / only, before :status, pseudo-header name, value first / middle / last / only, each digit of :status and one extra, content-length digits, te / connection-specific names) passed to updateResponseFromHeaders; answer = ok <status> / err; model = H3.Fields.updateResponseFromHeaders; a recovered panic is a disagreement; every case non-trivial")
	type kv = qpack.HeaderField
	st := kv{Name: ":status", Value: "200"}
	type pos struct {
		name  string
		build func(b string) []kv
	}
	poss := []pos{
		{"name-first", func(b string) []kv { return []kv{st, {Name: b + "-name", Value: "v"}} }},
		{"name-mid", func(b string) []kv { return []kv{st, {Name: "x-" + b + "name", Value: "v"}} }},
		{"name-last", func(b string) []kv { return []kv{st, {Name: "x-name" + b, Value: "v"}} }},
		{"name-only", func(b string) []kv { return []kv{st, {Name: b, Value: "v"}} }},
		{"name-before-status", func(b string) []kv { return []kv{{Name: b, Value: "v"}, st} }},
		{"pseudo-name", func(b string) []kv { return []kv{{Name: ":" + b, Value: "v"}, st} }},
		{"pseudo-name-mid", func(b string) []kv { return []kv{{Name: ":sta" + b + "us", Value: "200"}} }},
		{"value-first", func(b string) []kv { return []kv{st, {Name: "x-name", Value: b + "v"}} }},
		{"value-mid", func(b string) []kv { return []kv{st, {Name: "x-name", Value: "a" + b + "c"}} }},
		{"value-last", func(b string) []kv { return []kv{st, {Name: "x-name", Value: "v" + b}} }},
		{"value-only", func(b string) []kv { return []kv{st, {Name: "x-name", Value: b}} }},
		{"status-first", func(b string) []kv { return []kv{{Name: ":status", Value: b + "00"}} }},
		{"status-mid", func(b string) []kv { return []kv{{Name: ":status", Value: "2" + b + "0"}} }},
		{"status-last", func(b string) []kv { return []kv{{Name: ":status", Value: "20" + b}} }},
		{"status-extra", func(b string) []kv { return []kv{{Name: ":status", Value: "200" + b}} }},
		{"status-only", func(b string) []kv { return []kv{{Name: ":status", Value: b}} }},
		{"content-length", func(b string) []kv { return []kv{st, {Name: "content-length", Value: "1" + b + "0"}} }},
		{"content-length-dup", func(b string) []kv {
			return []kv{st, {Name: "content-length", Value: "10"}, {Name: "content-length", Value: "1" + b}}
		}},
		{"te-value", func(b string) []kv { return []kv{st, {Name: "te", Value: "trailer" + b}} }},
		{"trailer-value", func(b string) []kv { return []kv{st, {Name: "trailer", Value: "x-t," + b + "y"}} }},
		{"connection-name", func(b string) []kv { return []kv{st, {Name: "upgrad" + b, Value: "v"}} }},
	}
	for _, p := range poss {
		for i := 0; i < 256; i++ {
			fs := p.build(string([]byte{byte(i)}))
			rsp := &http.Response{}
			var err error
			ptxt, pan := verifh.Safely(func() { err = updateResponseFromHeaders(rsp, fs) })
			var toks []string
			for _, f := range fs {
				toks = append(toks, verifh.Hex(f.Name)+"="+verifh.Hex(f.Value))
			}
			line := "c07h3fields " + strings.Join(toks, "+")
			human := fmt.Sprintf("position %s byte 0x%02x fields=%q", p.name, i, fs)
			if pan {
				s.Count("panic")
				s.Case(line, "panic: "+ptxt[:min(len(ptxt), 1500)], false, "", true, human)
				continue
			}
			ans := "err"
			if err == nil {
				ans = "ok " + strconv.Itoa(rsp.StatusCode)
			}
			s.Count(strings.SplitN(ans, " ", 2)[0])
			s.Case(line, ans, true, "", true, human+" -> "+ans)
		}
	}
	s.Finish()
}

// ---------------------------------------------------------------------------- frame level

type c07Stream struct {
	data      []byte
	pos       int
	maxBuf    int // largest buffer handed to Read by io.ReadFull
	cancelled []uint64
	ctx       context.Context
}

func (s *c07Stream) StreamID() quic.StreamID { return 0 }
func (s *c07Stream) Read(p []byte) (int, error) {
	// the header block is read with io.ReadFull into the buffer allocated for it; skipped frames go
	// through io.CopyN(io.Discard, …), whose pooled scratch buffer is not memory held for the response
	if len(p) > s.maxBuf && c07calledFrom("io.ReadAtLeast") {
		s.maxBuf = len(p)
	}
	if s.pos >= len(s.data) {
		return 0, io.EOF
	}
	n := copy(p, s.data[s.pos:])
	s.pos += n
	return n, nil
}
func (s *c07Stream) CancelRead(c quic.StreamErrorCode)   { s.cancelled = append(s.cancelled, uint64(c)) }
func (s *c07Stream) SetReadDeadline(time.Time) error     { return nil }
func (s *c07Stream) Write(p []byte) (int, error)         { return len(p), nil }
func (s *c07Stream) Close() error                        { return nil }
func (s *c07Stream) CancelWrite(quic.StreamErrorCode)    {}
func (s *c07Stream) Context() context.Context            { return s.ctx }
func (s *c07Stream) SetWriteDeadline(time.Time) error    { return nil }
func (s *c07Stream) SetDeadline(time.Time) error         { return nil }

func c07calledFrom(fn string) bool {
	var pcs [24]uintptr
	n := runtime.Callers(2, pcs[:])
	frames := runtime.CallersFrames(pcs[:n])
	for {
		f, more := frames.Next()
		if f.Function == fn {
			return true
		}
		if !more {
			return false
		}
	}
}

type c07Conn struct {
	quic.Connection
	closed []uint64
}

func (c *c07Conn) CloseWithError(code quic.ApplicationErrorCode, _ string) error {
	c.closed = append(c.closed, uint64(code))
	return nil
}

func c07has(l []uint64, v uint64) bool {
	for _, x := range l {
		if x == v {
			return true
		}
	}
	return false
}

func TestVerif_C07_h3headbudget(t *testing.T) {
	s := verifh.New(t, "C07", "h3headbudget",
		"requestStream.ReadResponse on an in-memory request stream: 0..3 skippable frames (GREASE / unknown types, CANCEL_PUSH, PUSH_PROMISE, GOAWAY, MAX_PUSH_ID, with payloads 0..40 bytes or a lying length), then HEADERS with a declared length in {0, 2, block, limit-1, limit, limit+1, 2^20, 2^40, 2^62-1} over a real QPACK block (complete, cut, or absent), or DATA / SETTINGS / a reserved type first, or nothing; MaxResponseHeaderBytes limit in {16, 64, 1000, 65536}; answer = class (block / frame-error / truncated / not-headers) + bytes taken from the stream + size of the largest buffer handed to the stream's Read (the header block allocation); model = C07.H3Budget.readHead; Go-side oracle: that buffer never exceeds the limit; every case non-trivial")
	r := s.Rand()
	vi := func(b []byte, v uint64) []byte { return quicvarint.Append(b, v) }
	n := verifh.N(3000, 100000)
	for c := 0; c < n; c++ {
		limit := verifh.Pick(r, []uint64{16, 64, 1000, 65536})
		var in []byte
		var kind []string
		for k := r.Intn(4); k > 0; k-- {
			ty := verifh.Pick(r, []uint64{0x3, 0x5, 0x7, 0xd, 0x21, 0x21 + 0x1f*uint64(1+r.Intn(1000)), 0xff, 0x40, 1 << 40})
			pl := []byte(verifh.RandBytes(r, r.Intn(41), ""))
			in = vi(in, ty)
			if r.Intn(12) == 0 {
				in = vi(in, uint64(len(pl))+uint64(1+r.Intn(1000)))
				kind = append(kind, "skip-lying")
			} else {
				in = vi(in, uint64(len(pl)))
				kind = append(kind, "skip")
			}
			in = append(in, pl...)
		}
		block := c07qpack(r.Intn(6))
		switch r.Intn(12) {
		case 0:
			in = vi(in, 0x0)
			in = vi(in, 5)
			in = append(in, "hello"...)
			kind = append(kind, "data-first")
		case 1:
			in = vi(in, 0x4)
			in = vi(in, 0)
			kind = append(kind, "settings-first")
		case 2:
			in = vi(in, verifh.Pick(r, []uint64{2, 6, 8, 9}))
			in = vi(in, 0)
			kind = append(kind, "reserved")
		case 3:
			kind = append(kind, "nothing")
		default:
			decl := verifh.Pick(r, []uint64{uint64(len(block)), uint64(len(block)), uint64(len(block)), 0, 2, limit - 1, limit, limit + 1, 1 << 20, 1 << 40, 1<<62 - 1})
			in = vi(in, 0x1)
			in = vi(in, decl)
			pl := block
			switch r.Intn(4) {
			case 0:
				if len(pl) > 0 {
					pl = pl[:r.Intn(len(pl))]
				}
				kind = append(kind, "block-cut")
			case 1:
				pl = append(append([]byte{}, pl...), make([]byte, r.Intn(int(min(limit, 2000))))...)
				kind = append(kind, "block-padded")
			}
			in = append(in, pl...)
			kind = append(kind, "headers")
			switch {
			case decl > limit:
				kind = append(kind, "over-limit")
			case decl == limit:
				kind = append(kind, "at-limit")
			}
			in = vi(in, 0x0)
			in = vi(in, 2)
			in = append(in, "ok"...)
		}
		fs := &c07Stream{data: in, ctx: context.Background()}
		fc := &c07Conn{}
		var err error
		ptxt, pan := verifh.Safely(func() {
			hconn := &connection{Connection: fc, Options: &transport.Options{}, ctx: context.Background()}
			str := newStream(fs, hconn, nil, nil)
			rs := newRequestStream(context.Background(), &transport.Options{}, str, nil, nil, qpack.NewDecoder(nil), true, limit, &http.Response{})
			_, err = rs.ReadResponse()
		})
		line := "c07h3head " + strconv.FormatUint(limit, 10) + " " + verifh.Hex(string(in))
		human := fmt.Sprintf("limit=%d kinds=%v stream=%x", limit, kind, in[:min(len(in), 120)])
		for _, k := range kind {
			s.Count(k)
		}
		if pan {
			s.Count("panic")
			s.Case(line, "panic: "+ptxt[:min(len(ptxt), 1500)], false, "", true, human)
			continue
		}
		class := "block"
		switch {
		case c07has(fs.cancelled, uint64(ErrCodeFrameError)):
			class = "frame-error"
		case c07has(fs.cancelled, uint64(ErrCodeRequestIncomplete)):
			class = "truncated"
		case c07has(fc.closed, uint64(ErrCodeFrameUnexpected)):
			class = "not-headers"
		}
		_ = err
		consumed := fs.pos
		alloc := fs.maxBuf
		ans := fmt.Sprintf("%s consumed=%d alloc=%d", class, consumed, alloc)
		if class == "block" {
			// what follows the block (QPACK decoding, field validation) is not this model's business; the
			// body reader is created but nothing is read from it
		}
		s.Count("class:" + class)
		s.Case(line, ans, uint64(alloc) <= limit, "", true, human+" -> "+ans)
	}
	s.Finish()
}

func c07qpack(n int) []byte {
	var sb strings.Builder
	enc := qpack.NewEncoder(&sb)
	enc.WriteField(qpack.HeaderField{Name: ":status", Value: "200"})
	for i := 0; i < n; i++ {
		enc.WriteField(qpack.HeaderField{Name: "x-h" + strconv.Itoa(i), Value: strings.Repeat("v", i*7)})
	}
	return []byte(sb.String())
}
