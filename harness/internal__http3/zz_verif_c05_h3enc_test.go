//go:build verif

package http3

import (
	"bytes"
	"fmt"
	"io"
	"net/http"
	"net/url"
	"sort"
	"strconv"
	"strings"
	"testing"

	"github.com/imroc/req/v3/internal/dump"
	"github.com/imroc/req/v3/internal/verifh"
	"github.com/quic-go/qpack"
	refvarint "github.com/quic-go/quic-go/quicvarint"
)

type ioWriter = io.Writer

// TestVerif_C05_h3encode: what requestWriter.writeHeaders puts on the stream is a HEADERS frame
// whose header (read with quic-go's quicvarint) announces exactly the QPACK block that follows,
// and quic-go/qpack decodes that block to exactly the field list the request stands for.
func TestVerif_C05_h3encode(t *testing.T) {
	s := verifh.New(t, "C05", "h3encode",
		"requests: methods GET/POST/PUT/HEAD/OPTIONS/CONNECT/extended CONNECT, URLs with queries, escapes, IDN hosts and ports, Host override, 0..8 headers (mixed case names, repeated values, empty values, obs-text, excluded connection fields, User-Agent set/empty/absent, 200-byte and 5000-byte values so that the frame length crosses the 63/64 and 16383/16384 varint boundaries), bodies with known/unknown/zero length, gzip flag; oracle: frame type 0x1 and length read by quic-go's quicvarint equal the remaining bytes, qpack.Decoder.DecodeFull gives the expected pseudo-header fields in order and the expected regular fields as a multiset, every name lower-case; non-trivial = request accepted by the writer")
	r := s.Rand()
	hs := newC05hist(s)
	n := verifh.N(1500, 60000)
	for c := 0; c < n; c++ {
		method := c05pick(r, "GET", "GET", "POST", "PUT", "HEAD", "OPTIONS", "PATCH", "CONNECT", "DELETE")
		host := c05pick(r, "example.com", "example.com:8443", "bücher.example", "a.b.c.example.org:443", "[::1]:8443", "127.0.0.1")
		path := c05pick(r, "/", "/a/b", "/p?q=1&r=%20x", "/%C3%A9", "/a%2Fb?x", "", "/"+strings.Repeat("seg/", r.Intn(20)))
		u, err := url.Parse("https://" + host + path)
		if err != nil {
			continue
		}
		req := &http.Request{Method: method, URL: u, Header: http.Header{}, Proto: "HTTP/1.1"}
		extended := false
		if method == "CONNECT" && r.Intn(2) == 0 {
			req.Proto = c05pick(r, "websocket", "connect-udp")
			extended = true
		}
		if r.Intn(5) == 0 {
			req.Host = c05pick(r, "override.example", "Override.Example:1234")
		}
		names := []string{"Accept", "accept-language", "X-Custom", "x-UPPER-lower", "Cookie", "Authorization", "X-Empty", "Content-Type", "Referer", "X_Under.score", "Te"}
		for i := 0; i < r.Intn(9); i++ {
			k := verifh.Pick(r, names)
			v := c05pick(r, "v", "", "a b;c=d", "caf\xe9 obs-text", "tab\there", strings.Repeat("x", 200), strings.Repeat("y", c05pick(r, 30, 40, 5000, 16300, 16400)), verifh.RandBytes(r, 1+r.Intn(20), "abcdefghijklmnopqrstuvwxyz0123456789-_ "))
			req.Header[k] = append(req.Header[k], v)
		}
		switch r.Intn(5) {
		case 0:
			req.Header["User-Agent"] = []string{c05pick(r, "my-agent/1.0", "")}
		case 1:
			req.Header["user-agent"] = []string{"lower-agent", "ignored-second"}
		}
		if r.Intn(4) == 0 {
			k := c05pick(r, "Connection", "Keep-Alive", "Proxy-Connection", "Transfer-Encoding", "Upgrade", "Host", "Content-Length")
			req.Header[k] = []string{"x"}
		}
		gzip := r.Intn(3) == 0
		switch r.Intn(4) {
		case 0:
			req.Body = nopBody{}
			req.ContentLength = int64(c05pick(r, 0, 1, 1234, -1))
		case 1:
			req.Body = nopBody{}
			req.ContentLength = 0
		}
		rw := newRequestWriter()
		var buf bytes.Buffer
		werr := rw.writeHeaders(&buf, req, gzip, nil)
		// the same request with a header dumper attached must produce the same fields
		var dbuf, dumpOut bytes.Buffer
		d := dump.NewDumper(c05dump{&dumpOut})
		derr := newRequestWriter().writeHeaders(&dbuf, req, gzip, []*dump.Dumper{d})

		// expected list, from the request
		var wantPseudo, wantRegular []string
		authority := req.Host
		if authority == "" {
			authority = u.Host
		}
		if strings.HasPrefix(authority, "bücher") {
			authority = "xn--bcher-kva.example"
		}
		wantPseudo = append(wantPseudo, ":authority="+authority, ":method="+method)
		if method != "CONNECT" || extended {
			p := u.RequestURI()
			wantPseudo = append(wantPseudo, ":path="+p, ":scheme=https")
		}
		if extended {
			wantPseudo = append(wantPseudo, ":protocol="+req.Proto)
		}
		didUA := false
		for k, vv := range req.Header {
			lk := strings.ToLower(k)
			switch lk {
			case "host", "content-length", "connection", "proxy-connection", "transfer-encoding", "upgrade", "keep-alive":
				continue
			case "user-agent":
				didUA = true
				if len(vv) == 0 || vv[0] == "" {
					continue
				}
				wantRegular = append(wantRegular, lk+"="+vv[0])
				continue
			}
			for _, v := range vv {
				wantRegular = append(wantRegular, lk+"="+v)
			}
		}
		cl := int64(0)
		if req.Body != nil {
			cl = -1
			if req.ContentLength != 0 {
				cl = req.ContentLength
			}
		}
		if cl > 0 || (cl == 0 && (method == "POST" || method == "PUT" || method == "PATCH")) {
			wantRegular = append(wantRegular, "content-length="+strconv.FormatInt(cl, 10))
		}
		if gzip {
			wantRegular = append(wantRegular, "accept-encoding=gzip")
		}
		if !didUA {
			wantRegular = append(wantRegular, "user-agent=req/v3 (https://github.com/imroc/req)")
		}
		sort.Strings(wantRegular)

		id := fmt.Sprintf("h3encode-%d", c)
		human := fmt.Sprintf("%s %s host=%q hdr=%d gzip=%v", method, u.String(), req.Host, len(req.Header), gzip)
		if werr != nil {
			// only the documented refusals
			ok := derr != nil
			hs.Count("refused")
			s.Observe(id, ok, "", false, human+" refused: "+werr.Error(), "")
			continue
		}
		decode := func(b []byte) (pseudo, regular []string, frameOK bool) {
			br := bytes.NewReader(b)
			ty, e1 := refvarint.Read(br)
			ln, e2 := refvarint.Read(br)
			if e1 != nil || e2 != nil || ty != 1 || int(ln) != br.Len() {
				return nil, nil, false
			}
			block := b[len(b)-br.Len():]
			fields, err := qpack.NewDecoder(nil).DecodeFull(block)
			if err != nil {
				return nil, nil, false
			}
			seenRegular := false
			for _, f := range fields {
				if strings.HasPrefix(f.Name, ":") {
					if seenRegular {
						return nil, nil, false
					}
					pseudo = append(pseudo, f.Name+"="+f.Value)
				} else {
					seenRegular = true
					if strings.ToLower(f.Name) != f.Name {
						return nil, nil, false
					}
					regular = append(regular, f.Name+"="+f.Value)
				}
			}
			sort.Strings(regular)
			return pseudo, regular, true
		}
		gp, gr, fok := decode(buf.Bytes())
		dp, dr, dok := decode(dbuf.Bytes())
		ok := fok && dok && derr == nil &&
			strings.Join(gp, "\x00") == strings.Join(wantPseudo, "\x00") && strings.Join(gr, "\x00") == strings.Join(wantRegular, "\x00") &&
			strings.Join(dp, "\x00") == strings.Join(gp, "\x00") && strings.Join(dr, "\x00") == strings.Join(gr, "\x00")
		if dumpOut.Len() == 0 {
			ok = false
		}
		// which varint length class the frame header used
		hs.Count(fmt.Sprintf("frame-len-class-%d", refvarint.Len(uint64(buf.Len()))))
		hs.Count("encoded-" + method)
		detail := ""
		if !ok {
			detail = fmt.Sprintf("got pseudo=%q regular=%q want pseudo=%q regular=%q", gp, gr, wantPseudo, wantRegular)
		}
		s.Observe(id, ok, "", true, human, detail)
	}
	s.Finish()
	hs.Require(t, "encoded-GET", "encoded-POST", "encoded-CONNECT", "frame-len-class-2", "frame-len-class-4")
}

type nopBody struct{}

func (nopBody) Read([]byte) (int, error) { return 0, nil }
func (nopBody) Close() error             { return nil }

type c05dump struct{ out *bytes.Buffer }

func (o c05dump) Output() ioWriter               { return o.out }
func (o c05dump) RequestHeaderOutput() ioWriter  { return o.out }
func (o c05dump) RequestBodyOutput() ioWriter    { return o.out }
func (o c05dump) ResponseHeaderOutput() ioWriter { return o.out }
func (o c05dump) ResponseBodyOutput() ioWriter   { return o.out }
func (o c05dump) RequestHeader() bool            { return true }
func (o c05dump) RequestBody() bool              { return false }
func (o c05dump) ResponseHeader() bool           { return true }
func (o c05dump) ResponseBody() bool             { return false }
func (o c05dump) Async() bool                    { return false }
func (o c05dump) Clone() dump.Options            { return o }
