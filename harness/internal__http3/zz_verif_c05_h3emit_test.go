//go:build verif

package http3

import (
	"bytes"
	"fmt"
	"strings"
	"testing"

	"github.com/imroc/req/v3/internal/dump"
	"github.com/imroc/req/v3/internal/verifh"
	"github.com/quic-go/qpack"
	refvarint "github.com/quic-go/quic-go/quicvarint"
)

func c05h3ErrKind(err error) string {
	s := err.Error()
	switch {
	case strings.Contains(s, "invalid Host header"):
		return "err:host"
	case strings.Contains(s, "invalid request :path"):
		return "err:path"
	case strings.Contains(s, "invalid HTTP header"):
		return "err:header"
	}
	return "err:other"
}

// TestVerif_C05_h3emit: requestWriter.encodeHeaders over the full option matrix. What the REFERENCE
// QPACK decoder recovers from the bytes the real encoder wrote is compared, in arrival order, with
// the field list of the Lean model (fieldsX); the decoded section is then (a) judged by the model's
// request-section check (theorem emitted_section_ok says the model's own output always passes) and by
// an independently written Go rule, and (b) fed to the client's own receive side, parseHeaders(…,
// isRequest=true), whose verdict is compared with the Lean model of parseHeaders: what the client
// emits must be accepted by the rules it enforces on what it receives.
func TestVerif_C05_h3emit(t *testing.T) {
	s := verifh.New(t, "C05", "h3emit",
		"requests over {no order, header order, pseudo-header order, both} x {plain, cookies, 20..64 headers, trailers announced, body, no body, HEAD, CONNECT, Extended CONNECT (:protocol)}; method/URL/Host override/header map in all spellings/order lists (subset, superset, other case, duplicated)/body kind/gzip from the C01/C16 generator; 1..6 consecutive requests share one requestWriter (QPACK encoder, header buffer); the writer is entered through encodeHeaders (trailers argument) and through writeHeaders (HEADERS frame envelope read with quic-go's quicvarint); header dumper on/off; oracle: section rule written from RFC 9114 4.2/4.3.1 + the C01 multiset/ordering oracle where it applies; non-trivial = the writer produced a block")
	r := s.Rand()
	hs := newC05hist(s)
	n := verifh.N(2600, 40000)
	var w *requestWriter
	left := 0
	for c := 0; c < n; c++ {
		if left == 0 {
			w = newRequestWriter()
			left = 1 + r.Intn(6)
		}
		left--
		tc := verifh.C05GenEmitCase(r, c)
		tc.Limit = 0
		req, uerr := tc.Request()
		if uerr != nil {
			continue
		}
		human := fmt.Sprintf("h3 [%s/%s] %q %q host=%q proto=%q trailers=%q hdr=%q cl=%d body=%v/%v gzip=%v", tc.Cell, tc.Feature, tc.Method, tc.RawURL, tc.Host, tc.Proto, tc.Trailers, tc.Header, tc.CL, tc.HasBody, tc.NoBody, tc.Gzip)
		var block []byte
		var err error
		var dumps []*dump.Dumper
		var dumpOut bytes.Buffer
		if r.Intn(4) == 0 {
			dumps = []*dump.Dumper{dump.NewDumper(c05dump{&dumpOut})}
		}
		via := "encodeHeaders"
		p, bad := verifh.Safely(func() {
			if tc.Trailers == "" && r.Intn(2) == 0 {
				// the public path: HEADERS frame = type 0x1, length, block
				via = "writeHeaders"
				var buf bytes.Buffer
				err = w.writeHeaders(&buf, req, tc.Gzip, dumps)
				if err != nil {
					return
				}
				br := bytes.NewReader(buf.Bytes())
				ty, e1 := refvarint.Read(br)
				ln, e2 := refvarint.Read(br)
				if e1 != nil || e2 != nil || ty != 1 || int(ln) != br.Len() {
					panic(fmt.Sprintf("HEADERS frame envelope: type %d length %d, %d bytes follow (%v %v)", ty, ln, br.Len(), e1, e2))
				}
				block = append([]byte(nil), buf.Bytes()[buf.Len()-br.Len():]...)
				return
			}
			w.mutex.Lock()
			err = w.encodeHeaders(req, tc.Gzip, tc.Trailers, actualContentLength(req), dumps)
			block = append([]byte(nil), w.headerBuf.Bytes()...)
			w.encoder.Close()
			w.headerBuf.Reset()
			w.mutex.Unlock()
		})
		if bad {
			s.Crash(human, human, p, "")
			continue
		}
		u := req.URL
		effHost := tc.Host
		if effHost == "" {
			effHost = u.Host
		}
		ans := ""
		ok := true
		var fields [][2]string
		var qf []qpack.HeaderField
		switch {
		case !verifh.C01IsASCII(effHost):
			ans = "err:outside"
		case err != nil:
			ans = c05h3ErrKind(err)
		default:
			var derr error
			qf, derr = qpack.NewDecoder(nil).DecodeFull(block)
			if derr != nil {
				s.Crash(human, human, "reference QPACK decoder rejects the block: "+derr.Error(), "")
				continue
			}
			for _, f := range qf {
				fields = append(fields, [2]string{f.Name, f.Value})
			}
			ans = verifh.C05ShowEmitted(tc.Header, fields)
			if good, why := verifh.C05SectionOK(fields); !good {
				ok = false
				human += " SECTION: " + why
			}
			if tc.Trailers == "" && !(tc.Method == "CONNECT" && tc.Proto != "" && tc.Proto != "HTTP/1.1") {
				if good, why := verifh.C01FieldOracle("h3", &tc.C01FieldCase, fields); !good {
					ok = false
					human += " ORACLE: " + why
				}
			}
			if dumps != nil && dumpOut.Len() == 0 {
				ok = false
				human += " DUMP: header dumper saw nothing"
			}
		}
		key := strings.SplitN(ans, " ", 2)[0]
		hs.Count(key)
		if err == nil && key == "ok" {
			hs.Count("cell-" + tc.Cell + "/" + tc.Feature)
			hs.Count("via-" + via)
			if len(tc.Header[verifh.C01HeaderOrderKey]) > 0 && len(tc.Header[verifh.C01PseudoHeaderOrderKey]) > 0 {
				hs.Count("both-orders-effective")
			}
		}
		s.Case(verifh.C05EmitLine("h3", tc), ans, ok, "", key == "ok", human)
		if key != "ok" {
			continue
		}
		// the decoded section under the model's request-section check
		secOK, _ := verifh.C05SectionOK(fields)
		s.Case(verifh.C05ReqSecLine(fields), c05b01(secOK), secOK, "", true, "[section] "+human)
		// ... and under the client's own receive side
		var h header
		var perr error
		if p, bad := verifh.Safely(func() { h, perr = parseHeaders(qf, true) }); bad {
			s.Crash("h3emit parseHeaders", human, p, "")
			continue
		}
		impl := "err"
		if perr == nil {
			impl = fmt.Sprintf("ok %s %s %s %s %s %d %s", verifh.Hex(h.Path), verifh.Hex(h.Method), verifh.Hex(h.Authority), verifh.Hex(h.Scheme), verifh.Hex(h.Protocol), h.ContentLength, c05headerMap(h.Headers))
		}
		accepted := perr == nil
		te := verifh.C05TEForwarded(tc.Header)
		if te {
			hs.Count("te-forwarded")
		} else if accepted {
			hs.Count("received-side-accepts")
		}
		ns := make([]string, len(fields))
		vs := make([]string, len(fields))
		for i, f := range fields {
			ns[i], vs[i] = f[0], f[1]
		}
		why := ""
		if perr != nil {
			why = " REJECTED: " + perr.Error()
		}
		s.Case("c05h3fields req "+verifh.HexList(ns)+" "+verifh.HexList(vs), impl, accepted || te, "", true, "[received] "+human+why)
	}
	s.Finish()
	var need []string
	for _, cell := range verifh.C05Cells {
		for _, f := range verifh.C05Features {
			need = append(need, "cell-"+cell+"/"+f)
		}
	}
	need = append(need, "ok", "err:host", "err:header", "via-encodeHeaders", "via-writeHeaders", "both-orders-effective", "received-side-accepts")
	hs.Require(t, need...)
}
