//go:build verif

package verifc14

// The PARAMETER space of the four codecs (round 5): what a conforming server may pick when it
// encodes a response - compression level / quality, window size up to the format's limit,
// single-segment zstd frames, check sums on or off, optional gzip header fields, sync flushes
// in the middle of the stream, padding with skippable frames. A reader that narrows any of them
// (a decoder window cap, a header-field the reader trips over, ...) breaks "delivered as exactly
// the original bytes" for valid streams the stock settings never produce.

import (
	"bytes"
	"compress/flate"
	"compress/gzip"
	"compress/zlib"
	"fmt"
	"math/rand"
	"time"

	"github.com/andybalholm/brotli"
	"github.com/klauspost/compress/zstd"
)

var flateLevels = []int{flate.NoCompression, flate.BestSpeed, 3, flate.DefaultCompression, 6, flate.BestCompression, flate.HuffmanOnly}

// writeFlushing writes p through w in 1-4 pieces with a Flush between them (a sync flush: an
// empty stored block in DEFLATE, a block boundary in zstd / brotli).
func writeFlushing(r *rand.Rand, w interface {
	Write([]byte) (int, error)
	Flush() error
}, p []byte) int {
	k := r.Intn(4)
	flushes := 0
	for ; k > 0 && len(p) > 0; k-- {
		n := r.Intn(len(p) + 1)
		w.Write(p[:n])
		w.Flush()
		flushes++
		p = p[n:]
	}
	w.Write(p)
	return flushes
}

func latin1(r *rand.Rand, n int) string {
	b := make([]byte, n)
	for i := range b {
		b[i] = byte(1 + r.Intn(255))
	}
	// gzip.Writer wants Latin-1 text given as UTF-8: build it from runes
	rs := make([]rune, n)
	for i := range b {
		rs[i] = rune(b[i])
	}
	return string(rs)
}

// ZstdMaxLogQuick / ZstdMaxLogThorough: the largest window exponent the generators use
// (RFC 8878 allows 2^41; klauspost's encoder and decoder stop at 2^29).
const (
	ZstdMaxLogQuick    = 25
	ZstdMaxLogThorough = 29
)

// CompressZstd encodes p with an explicit window (2^logWin bytes) - streamed (window descriptor
// in the frame header) or as ONE single-segment frame (the content size is the window).
func CompressZstd(p []byte, logWin int, single bool, opts ...zstd.EOption) []byte {
	opts = append([]zstd.EOption{zstd.WithZeroFrames(true), zstd.WithEncoderConcurrency(1), zstd.WithWindowSize(1 << uint(logWin))}, opts...)
	if single {
		opts = append(opts, zstd.WithSingleSegment(true))
		enc, err := zstd.NewWriter(nil, opts...)
		if err != nil {
			panic("verifc14: zstd encoder options: " + err.Error())
		}
		defer enc.Close()
		return enc.EncodeAll(p, nil)
	}
	var b bytes.Buffer
	w, err := zstd.NewWriter(&b, opts...)
	if err != nil {
		panic("verifc14: zstd encoder options: " + err.Error())
	}
	w.Write(p)
	w.Close()
	return b.Bytes()
}

// CompressP encodes p with parameters drawn from r (maxLog bounds the zstd window exponent);
// desc names them for the case's human rendering.
func CompressP(r *rand.Rand, alg string, p []byte, maxLog int) (wire []byte, desc string) {
	var b bytes.Buffer
	switch alg {
	case "gzip":
		level := flateLevels[r.Intn(len(flateLevels))]
		w, _ := gzip.NewWriterLevel(&b, level)
		desc = fmt.Sprintf("gzip level=%d", level)
		if r.Intn(2) == 0 {
			w.Extra = make([]byte, r.Intn(300))
			r.Read(w.Extra)
			desc += fmt.Sprintf(" FEXTRA=%dB", len(w.Extra))
		}
		if r.Intn(2) == 0 {
			w.Name = latin1(r, 1+r.Intn(200))
			desc += " FNAME"
		}
		if r.Intn(2) == 0 {
			w.Comment = latin1(r, 1+r.Intn(400))
			desc += " FCOMMENT"
		}
		if r.Intn(2) == 0 {
			w.ModTime = time.Unix(int64(r.Uint32()), 0)
		}
		w.OS = byte(r.Intn(256))
		desc += fmt.Sprintf(" flushes=%d", writeFlushing(r, w, p))
		w.Close()
	case "deflate":
		level := flateLevels[r.Intn(len(flateLevels))]
		w, _ := flate.NewWriter(&b, level)
		desc = fmt.Sprintf("deflate level=%d flushes=%d", level, writeFlushing(r, w, p))
		w.Close()
	case "zlib":
		level := flateLevels[r.Intn(len(flateLevels))]
		w, _ := zlib.NewWriterLevel(&b, level)
		w.Write(p)
		w.Close()
		desc = fmt.Sprintf("zlib level=%d", level)
	case "br":
		o := brotli.WriterOptions{Quality: r.Intn(12)}
		if r.Intn(3) != 0 {
			o.LGWin = 10 + r.Intn(15)
		}
		w := brotli.NewWriterOptions(&b, o)
		desc = fmt.Sprintf("br quality=%d lgwin=%d flushes=%d", o.Quality, o.LGWin, writeFlushing(r, w, p))
		w.Close()
	case "zstd":
		logWin := 10 + r.Intn(maxLog-10+1)
		single := r.Intn(3) == 0
		level := []zstd.EncoderLevel{zstd.SpeedFastest, zstd.SpeedDefault, zstd.SpeedBetterCompression, zstd.SpeedBestCompression}[r.Intn(4)]
		if logWin > 24 && level > zstd.SpeedDefault {
			level = zstd.SpeedDefault // the better levels allocate tables in proportion to the window
		}
		crc := r.Intn(2) == 0
		opts := []zstd.EOption{zstd.WithEncoderLevel(level), zstd.WithEncoderCRC(crc)}
		desc = fmt.Sprintf("zstd window=2^%d single=%v level=%v crc=%v", logWin, single, level, crc)
		switch r.Intn(5) {
		case 0:
			opts = append(opts, zstd.WithNoEntropyCompression(true))
			desc += " no-entropy"
		case 1:
			opts = append(opts, zstd.WithAllLitEntropyCompression(true))
			desc += " all-lit-entropy"
		case 2:
			opts = append(opts, zstd.WithLowerEncoderMem(true))
		}
		if !single && r.Intn(4) == 0 {
			pad := 1 + r.Intn(300)
			opts = append(opts, zstd.WithEncoderPadding(pad)) // pads with a skippable frame
			desc += fmt.Sprintf(" padding=%d", pad)
		}
		// the level option resets the window: the window option must come after it
		opts = append(opts, zstd.WithWindowSize(1<<uint(logWin)))
		return CompressZstd(p, logWin, single, opts...), desc
	default:
		panic("verifc14: unknown alg " + alg)
	}
	return b.Bytes(), desc
}

// LongRepeat: n bytes whose second half repeats the first - matches at a distance of n/2, so an
// encoder with a window of at least n/2 really uses it (and a decoder needs it).
func LongRepeat(r *rand.Rand, n int) []byte {
	b := make([]byte, n)
	h := n / 2
	// cheap, poorly compressible first half
	x := r.Uint64() | 1
	for i := 0; i+8 <= h; i += 8 {
		x ^= x << 13
		x ^= x >> 7
		x ^= x << 17
		b[i], b[i+1], b[i+2], b[i+3], b[i+4], b[i+5], b[i+6], b[i+7] = byte(x), byte(x>>8), byte(x>>16), byte(x>>24), byte(x>>32), byte(x>>40), byte(x>>48), byte(x>>56)
	}
	copy(b[h:], b[:h])
	return b
}
