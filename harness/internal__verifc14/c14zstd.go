//go:build verif

package verifc14

// zstd frames produced by the Lean model's encoder (Req.Client.CompressZstd: every frame-header
// layout around RAW blocks, skippable frames, several frames) and damaged versions of them.

import (
	"fmt"
	"io"
	"math/rand"

	"github.com/imroc/req/v3/internal/verifh"
)

type ZFrame struct {
	Skip     bool
	Nibble   byte
	SkipData []byte
	FHD, WD  byte
	FCS      []byte
	Blocks   [][]byte
	Last     []byte
}

func (f *ZFrame) Content() []byte {
	if f.Skip {
		return nil
	}
	var p []byte
	for _, b := range f.Blocks {
		p = append(p, b...)
	}
	return append(p, f.Last...)
}

func (f *ZFrame) EncLine() string {
	if f.Skip {
		return fmt.Sprintf("c14enc zframe skip %d %s", f.Nibble, verifh.Hex(string(f.SkipData)))
	}
	return fmt.Sprintf("c14enc zframe data %d %d %s %s %s", f.FHD, f.WD, verifh.Hex(string(f.FCS)), hexBlocks(f.Blocks), verifh.Hex(string(f.Last)))
}

func le(n uint64, k int) []byte {
	b := make([]byte, k)
	for i := range b {
		b[i] = byte(n >> (8 * uint(i)))
	}
	return b
}

// HeaderLen: magic, descriptor, window descriptor, dictionary id, content size.
func (f *ZFrame) HeaderLen() int {
	n := 5 + len(f.FCS)
	if f.FHD&32 == 0 {
		n++
	}
	switch f.FHD & 3 {
	case 1:
		n++
	case 2:
		n += 2
	case 3:
		n += 4
	}
	return n
}

func splitMax(r *rand.Rand, p []byte, maxb int) (blocks [][]byte, last []byte) {
	for len(p) > maxb {
		n := maxb
		if r.Intn(2) == 0 {
			n = 1 + r.Intn(maxb)
		}
		blocks = append(blocks, p[:n])
		p = p[n:]
	}
	for k := r.Intn(4); k > 0; k-- {
		n := 0
		if len(p) > 0 && r.Intn(5) != 0 {
			n = r.Intn(len(p) + 1)
		}
		blocks = append(blocks, p[:n])
		p = p[n:]
	}
	return blocks, p
}

// GenZFrame draws a frame-header layout and a block structure for content p.
func GenZFrame(r *rand.Rand, p []byte) *ZFrame {
	total := uint64(len(p))
	ss := r.Intn(2) == 0
	f := &ZFrame{}
	var flags []int
	if !ss || total <= 255 {
		flags = append(flags, 0)
	}
	if total >= 256 && total <= 65791 {
		flags = append(flags, 1)
	}
	flags = append(flags, 2, 3)
	flag := flags[r.Intn(len(flags))]
	f.FHD = byte(flag) << 6
	if ss {
		f.FHD |= 32
	}
	if r.Intn(2) == 0 {
		f.FHD |= 4 // Content_Checksum
	}
	if r.Intn(4) == 0 {
		f.FHD |= byte(1 + r.Intn(3)) // a Dictionary_ID field holding 0: "no dictionary"
	}
	if r.Intn(4) == 0 {
		f.FHD |= 16 // the unused bit
	}
	switch flag {
	case 0:
		if ss {
			f.FCS = le(total, 1)
		}
	case 1:
		f.FCS = le(total-256, 2)
	case 2:
		f.FCS = le(total, 4)
	case 3:
		f.FCS = le(total, 8)
	}
	window := int(total)
	if window < 1024 {
		window = 1024
	}
	if !ss {
		// the window descriptor: exponent 0..10 (1 KiB .. 1 MiB) mostly, the rest of the small range
		// (.. 64 MiB) otherwise; kinds window-large / window-max / window-above cover the range up to
		// and beyond the decoder's bound (2^29)
		e, m := r.Intn(11), r.Intn(8)
		if r.Intn(4) == 0 {
			e = 11 + r.Intn(6)
		}
		f.WD = byte(e<<3 | m)
		window = (1 << (10 + uint(e))) + (1<<(10+uint(e)))/8*m
	}
	maxb := window
	if maxb > 128<<10 {
		maxb = 128 << 10
	}
	f.Blocks, f.Last = splitMax(r, p, maxb)
	return f
}

// GenZStreams: n zstd bodies, encoded by the model, intact and damaged.
func GenZStreams(r *rand.Rand, n, nBig int) ([]FStream, error) {
	kinds := []string{"valid", "valid", "multi", "multi", "skip", "skip-only", "empty", "trunc", "trunc", "trunc-multi", "stray", "garbage",
		"flip-sum", "flip-sum", "flip-nosum", "flip-hdr", "fcs-wrong", "reserved-bit", "dict", "big-window", "block-gt-window",
		"boundary-srcerr", "inside-srcerr", "window-large", "window-large", "window-above"}
	if n >= 5000 { // thorough: the 2^29 boundary descriptor (a 512 MiB history buffer is reserved) more than once
		kinds = append(kinds, "window-max")
	}
	type zspec struct {
		kind    string
		frames  []*ZFrame
		payload []byte
	}
	var specs []*zspec
	for i := 0; i < n+nBig; i++ {
		sp := &zspec{kind: kinds[r.Intn(len(kinds))]}
		if i >= n {
			sp.kind = verifh.Pick(r, []string{"valid", "trunc", "block-gt-128k"})
			if i == n {
				sp.kind = "block-gt-128k" // at least one per run: the 128 KiB boundary
			}
		}
		if i == 1 {
			sp.kind = "window-max" // one per run: exactly 2^29, the largest window the decoder takes
		}
		nf := 1
		switch sp.kind {
		case "multi", "trunc-multi", "boundary-srcerr":
			nf = 2 + r.Intn(2)
		case "empty":
			nf = 0
		}
		for k := 0; k < nf; k++ {
			p := Payload(r, r.Intn(4))
			if i >= n {
				p = make([]byte, verifh.Pick(r, []int{131071, 131072, 131073, 300000}))
				for j := range p {
					p[j] = byte(j*13 + j>>9)
				}
			}
			if sp.kind == "skip-only" {
				sk := &ZFrame{Skip: true, Nibble: byte(r.Intn(16)), SkipData: []byte(verifh.RandBytes(r, r.Intn(40), ""))}
				sp.frames = append(sp.frames, sk)
				continue
			}
			if sp.kind == "skip" && r.Intn(2) == 0 {
				sp.frames = append(sp.frames, &ZFrame{Skip: true, Nibble: byte(r.Intn(16)), SkipData: []byte(verifh.RandBytes(r, r.Intn(40), ""))})
			}
			f := GenZFrame(r, p)
			switch sp.kind {
			case "flip-sum":
				f.FHD |= 4
			case "flip-nosum":
				f.FHD &^= 4
			case "fcs-wrong": // the field declares one byte more or fewer than the frame holds
				total := uint64(len(p))
				d := uint64(1)
				if total > 0 && r.Intn(2) == 0 {
					d = ^uint64(0) // -1
				}
				f.FHD = f.FHD&^(3<<6) | 2<<6
				f.FCS = le(total+d, 4)
			case "reserved-bit":
				f.FHD |= 8
			case "dict":
				if f.FHD&3 == 0 {
					f.FHD |= byte(1 + r.Intn(3))
				}
			case "big-window": // 2^30 and more: refused before anything is allocated
				f.FHD &^= 32
				if f.FHD>>6 == 0 {
					f.FCS = nil
				}
				f.WD = byte((20+r.Intn(11))<<3 | r.Intn(8))
			case "window-large", "window-max", "window-above":
				// Window_Descriptor over its whole range: 2 MiB .. 480 MiB (any mantissa), exactly
				// 2^29 (accepted), the seven descriptors just above and everything beyond (refused)
				f.FHD &^= 32
				if f.FHD>>6 == 0 {
					f.FCS = nil
				}
				switch sp.kind {
				case "window-large":
					f.WD = byte((11+r.Intn(8))<<3 | r.Intn(8))
				case "window-max":
					f.WD = 19 << 3
				default:
					f.WD = byte(19<<3 | (1 + r.Intn(7)))
					if r.Intn(3) == 0 {
						f.WD = byte((20+r.Intn(12))<<3 | r.Intn(8))
					}
				}
			case "block-gt-window":
				f.FHD &^= 32
				if f.FHD>>6 == 0 {
					f.FCS = nil
				}
				f.WD = 0 // 1 KiB
				p = make([]byte, 1500+r.Intn(1000))
				r.Read(p)
				if f.FHD>>6 != 0 {
					f.FHD = f.FHD&^(3<<6) | 2<<6
					f.FCS = le(uint64(len(p)), 4)
				}
				f.Blocks, f.Last = [][]byte{p[:100], p[100 : len(p)-50]}, p[len(p)-50:]
			case "block-gt-128k": // Block_Maximum_Size: 128 KiB exactly is fine, one byte more is not
				p = make([]byte, 270000+r.Intn(1000))
				for j := range p {
					p[j] = byte(j * 31)
				}
				f = &ZFrame{FHD: 2<<6 | 32, FCS: le(uint64(len(p)), 4)}
				big := 128<<10 + 1 + r.Intn(3)
				f.Blocks, f.Last = [][]byte{p[:128<<10], p[128<<10 : 128<<10+big]}, p[128<<10+big:]
			}
			sp.frames = append(sp.frames, f)
			if sp.kind == "skip" && r.Intn(2) == 0 {
				sp.frames = append(sp.frames, &ZFrame{Skip: true, Nibble: byte(r.Intn(16)), SkipData: []byte(verifh.RandBytes(r, r.Intn(40), ""))})
			}
			sp.payload = append(sp.payload, p...)
		}
		specs = append(specs, sp)
	}
	var lines []string
	for _, sp := range specs {
		for _, f := range sp.frames {
			lines = append(lines, f.EncLine())
		}
	}
	var answers []string
	if len(lines) > 0 {
		var err error
		if answers, err = verifh.RunModel(lines); err != nil {
			return nil, err
		}
	}
	var out []FStream
	ai := 0
	for _, sp := range specs {
		var pieces [][]byte
		for range sp.frames {
			if answers[ai] == "bad-op" {
				return nil, fmt.Errorf("model encoder refused a zstd frame")
			}
			pieces = append(pieces, []byte(verifh.UnHex(answers[ai])))
			ai++
		}
		whole := cat(pieces...)
		st := FStream{Fmt: "zstd", Kind: sp.kind, Payload: sp.payload, Fin: io.EOF}
		lastPiece := []byte(nil)
		var lastFrame *ZFrame
		if len(pieces) > 0 {
			lastPiece, lastFrame = pieces[len(pieces)-1], sp.frames[len(sp.frames)-1]
		}
		switch sp.kind {
		case "valid", "multi", "skip", "skip-only", "empty", "window-large", "window-max":
			st.Wire, st.Intact = whole, true
		case "trunc", "trunc-multi":
			before := len(whole) - len(lastPiece)
			cut := before + 1 + r.Intn(len(lastPiece)-1)
			switch r.Intn(4) {
			case 0:
				cut = before + 1 + r.Intn(min(len(lastPiece)-1, 12))
			case 1:
				cut = len(whole) - 1 - r.Intn(min(len(lastPiece)-1, 5))
			}
			st.Wire, st.MustErr = whole[:cut], true
		case "stray": // 1-3 bytes where a frame must start
			g := []byte(verifh.RandBytes(r, 1+r.Intn(3), ""))
			if r.Intn(2) == 0 {
				copy(g, []byte{0x28, 0xB5, 0x2F})
			}
			st.Wire, st.MustErr = cat(whole, g), true
		case "garbage":
			g := make([]byte, 4+r.Intn(30))
			r.Read(g)
			g[1] = 0x11 // neither a frame nor a skippable frame
			st.Wire, st.MustErr = cat(whole, g), true
		case "flip-sum": // Content_Checksum set: damage in the content or in the check sum must be noticed
			h := lastFrame.HeaderLen()
			st.Wire, st.ErrOrOK = flipAt(r, whole, h, len(whole)), true
		case "flip-nosum": // no check sum: nothing to judge but the model
			st.Wire = flipAt(r, whole, lastFrame.HeaderLen(), len(whole))
		case "flip-hdr":
			st.Wire = flipAt(r, whole, 0, lastFrame.HeaderLen())
		case "fcs-wrong", "reserved-bit", "big-window", "window-above", "block-gt-window", "block-gt-128k":
			st.Wire, st.MustErr = whole, true
		case "dict": // make the dictionary id non-zero
			f := append([]byte(nil), whole...)
			off := 5
			if lastFrame.FHD&32 == 0 {
				off++
			}
			f[off] |= byte(1 + r.Intn(255))
			st.Wire, st.MustErr = f, true
		case "boundary-srcerr":
			k := 1 + r.Intn(len(pieces)-1)
			st.Wire, st.MustErr, st.Fin, st.Full = cat(pieces[:k]...), true, io.ErrUnexpectedEOF, whole
		case "inside-srcerr":
			st.Wire, st.MustErr, st.Fin, st.Full = whole[:r.Intn(len(whole))], true, io.ErrUnexpectedEOF, whole
		}
		out = append(out, st)
	}
	return out, nil
}
