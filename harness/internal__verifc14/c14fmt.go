//go:build verif

package verifc14

// Streams produced by the Lean model's ENCODERS (Req.Client.CompressFormats: gzip members with
// every header field combination around stored DEFLATE blocks, raw stored streams, the zlib
// wrapper) and damaged versions of them. The lanes feed them to the real readers and compare
// with the model's DECODER (driver lanes c14enc / c14dec).

import (
	"fmt"
	"io"
	"math/rand"
	"strings"

	"github.com/imroc/req/v3/internal/verifh"
)

// Member is what the gzip encoder is asked for.
type Member struct {
	FText, HCRC          bool
	Extra, Name, Comment []byte // nil = field absent (FEXTRA/FNAME/FCOMMENT not set)
	HasExtra, HasName    bool
	HasComment           bool
	MTime                [4]byte
	XFL, OS              byte
	Blocks               [][]byte
	Last                 []byte
}

func (m *Member) Payload() []byte {
	var p []byte
	for _, b := range m.Blocks {
		p = append(p, b...)
	}
	return append(p, m.Last...)
}

// StoredLen is the length of the DEFLATE part (five bytes of block header per block).
func (m *Member) StoredLen() int {
	n := 5 + len(m.Last)
	for _, b := range m.Blocks {
		n += 5 + len(b)
	}
	return n
}

func hexBlocks(bs [][]byte) string {
	l := make([]string, len(bs))
	for i, b := range bs {
		l[i] = string(b)
	}
	return verifh.HexList(l)
}

func optHex(present bool, b []byte) string {
	if !present {
		return "-"
	}
	return verifh.Hex(string(b))
}

func b01(b bool) string {
	if b {
		return "1"
	}
	return "0"
}

// EncLine is the driver line that makes the model encode the member.
func (m *Member) EncLine() string {
	return strings.Join([]string{"c14enc", "gzip", b01(m.FText), b01(m.HCRC), optHex(m.HasExtra, m.Extra), optHex(m.HasName, m.Name),
		optHex(m.HasComment, m.Comment), verifh.Hex(string(m.MTime[:])), fmt.Sprint(m.XFL), fmt.Sprint(m.OS), hexBlocks(m.Blocks), verifh.Hex(string(m.Last))}, " ")
}

// split cuts p into blocks at random points (empty blocks included now and then); every block
// is at most 65535 bytes long.
func split(r *rand.Rand, p []byte) (blocks [][]byte, last []byte) {
	for len(p) > 65535 {
		n := 65535
		if r.Intn(2) == 0 {
			n = 1 + r.Intn(65535)
		}
		blocks = append(blocks, p[:n])
		p = p[n:]
	}
	for k := r.Intn(4); k > 0; k-- {
		n := 0
		if len(p) > 0 && r.Intn(5) != 0 {
			n = r.Intn(len(p) + 1)
		}
		blocks = append(blocks, p[:n])
		p = p[n:]
	}
	return blocks, p
}

func noZero(r *rand.Rand, n int) []byte {
	b := make([]byte, n)
	for i := range b {
		b[i] = byte(1 + r.Intn(255))
	}
	return b
}

// GenMember draws header fields and a block structure for payload p.
func GenMember(r *rand.Rand, p []byte) *Member {
	m := &Member{FText: r.Intn(4) == 0, HCRC: r.Intn(2) == 0, XFL: byte(r.Intn(5)), OS: byte(r.Intn(256))}
	r.Read(m.MTime[:])
	if r.Intn(2) == 0 {
		m.HasExtra = true
		m.Extra = make([]byte, verifh.Pick(r, []int{0, 1, 4, 17, 300}))
		r.Read(m.Extra)
	}
	if r.Intn(2) == 0 {
		m.HasName = true
		m.Name = noZero(r, verifh.Pick(r, []int{0, 1, 8, 40, 511}))
	}
	if r.Intn(3) == 0 {
		m.HasComment = true
		m.Comment = noZero(r, verifh.Pick(r, []int{0, 3, 60, 511}))
	}
	m.Blocks, m.Last = split(r, p)
	return m
}

// FStream is one body for a reader of coding Fmt.
type FStream struct {
	Fmt     string // gzip | deflate: the reader it is meant for
	Kind    string
	Wire    []byte
	Payload []byte // what the intact stream carries
	Fin     error  // how the underlying body ends (io.EOF, or the framing layer's error)
	Full    []byte // Fin != io.EOF: the whole message that was declared (Wire is the part that arrives)
	Intact  bool   // oracle: exactly Payload, then io.EOF
	MustErr bool   // oracle: a read error after a prefix of Payload, never a clean end
	ErrOrOK bool   // oracle: a read error, or exactly Payload + io.EOF (a bit flip under an integrity check)
}

type spec struct {
	fmt, kind string
	members   []*Member // gzip
	payload   []byte
	lines     []string // encoder lines, one per piece
}

// GenStreams draws n stream specifications, has the MODEL encode them (one driver run) and
// derives the damaged variants. nBig of them carry payloads around and beyond one stored block
// (65535 bytes).
func GenStreams(r *rand.Rand, n, nBig int) ([]FStream, error) {
	var specs []*spec
	gzKinds := []string{"valid", "valid", "multi", "multi", "empty", "trunc", "trunc", "trunc-multi", "boundary-srcerr", "inside-srcerr",
		"stray", "stray", "garbage", "hdr-only", "flip", "flip", "flip", "flip-trailer", "longname", "zero-isize"}
	dfKinds := []string{"valid", "trail", "trunc", "empty", "zlib", "gzip", "flip", "srcerr"}
	for i := 0; i < n+nBig; i++ {
		sp := &spec{fmt: "gzip"}
		if r.Intn(4) == 0 {
			sp.fmt = "deflate"
			sp.kind = dfKinds[r.Intn(len(dfKinds))]
		} else {
			sp.kind = gzKinds[r.Intn(len(gzKinds))]
		}
		pay := func() []byte {
			if i >= n {
				k := verifh.Pick(r, []int{65534, 65535, 65536, 65537, 70000, 131070})
				b := make([]byte, k)
				for j := range b {
					b[j] = byte(j*7 + j>>8)
				}
				return b
			}
			return Payload(r, r.Intn(4))
		}
		if i >= n {
			sp.kind = verifh.Pick(r, []string{"valid", "valid", "trunc"})
		}
		nm := 1
		switch sp.kind {
		case "multi", "trunc-multi", "boundary-srcerr":
			nm = 2 + r.Intn(2)
		case "empty":
			nm = 0
		}
		if sp.fmt == "deflate" {
			p := pay()
			if sp.kind == "empty" {
				p = nil
			}
			sp.payload = p
			blocks, last := split(r, p)
			switch sp.kind {
			case "zlib":
				// RFC 1950 around the stored stream; a first block of 0x..63 bytes is the one case in
				// which the raw reader does not fail at once (theorem zlib_under_deflate): avoided
				first := len(last)
				if len(blocks) > 0 {
					first = len(blocks[0])
				}
				if first%256 == 99 {
					blocks, last = nil, p
					if len(p)%256 == 99 {
						blocks, last = [][]byte{{}}, p
					}
				}
				sp.lines = []string{"c14enc zlib " + hexBlocks(blocks) + " " + verifh.Hex(string(last))}
			case "gzip":
				m := GenMember(r, p)
				sp.lines = []string{m.EncLine()}
			default:
				sp.lines = []string{"c14enc deflate " + hexBlocks(blocks) + " " + verifh.Hex(string(last))}
			}
		} else {
			for k := 0; k < nm; k++ {
				p := pay()
				if sp.kind == "zero-isize" {
					p = nil
				}
				m := GenMember(r, p)
				if sp.kind == "longname" {
					m.HasName = true
					m.Name = noZero(r, verifh.Pick(r, []int{510, 511, 512, 513, 700}))
				}
				sp.members = append(sp.members, m)
				sp.payload = append(sp.payload, p...)
				sp.lines = append(sp.lines, m.EncLine())
			}
			if sp.kind == "hdr-only" {
				sp.lines = append(sp.lines, GenMember(r, nil).EncLine()) // only its header will be used
			}
		}
		specs = append(specs, sp)
	}
	var lines []string
	for _, sp := range specs {
		lines = append(lines, sp.lines...)
	}
	var answers []string
	if len(lines) > 0 {
		var err error
		answers, err = verifh.RunModel(lines)
		if err != nil {
			return nil, err
		}
	}
	var out []FStream
	ai := 0
	for _, sp := range specs {
		var pieces [][]byte
		for range sp.lines {
			a := answers[ai]
			ai++
			if a == "bad-op" {
				return nil, fmt.Errorf("model encoder refused a line")
			}
			pieces = append(pieces, []byte(verifh.UnHex(a)))
		}
		out = append(out, sp.derive(r, pieces))
	}
	return out, nil
}

func cat(ps ...[]byte) []byte {
	var b []byte
	for _, p := range ps {
		b = append(b, p...)
	}
	return b
}

func flipAt(r *rand.Rand, w []byte, lo, hi int) []byte {
	f := append([]byte(nil), w...)
	if hi > len(f) {
		hi = len(f)
	}
	if lo >= hi {
		lo, hi = 0, len(f)
	}
	f[lo+r.Intn(hi-lo)] ^= 1 << uint(r.Intn(8))
	return f
}

func (sp *spec) derive(r *rand.Rand, pieces [][]byte) FStream {
	st := FStream{Fmt: sp.fmt, Kind: sp.kind, Payload: sp.payload, Fin: io.EOF}
	whole := cat(pieces...)
	if sp.fmt == "deflate" {
		switch sp.kind {
		case "valid":
			st.Wire, st.Intact = whole, true
		case "trail": // bytes after the final block: compress/flate does not look at them
			g := make([]byte, 1+r.Intn(20))
			r.Read(g)
			st.Wire, st.Intact = cat(whole, g), true
		case "trunc":
			st.Wire, st.MustErr = whole[:1+r.Intn(len(whole)-1)], true
		case "empty":
			st.Wire, st.MustErr = nil, true
		case "zlib", "gzip": // a conforming `deflate` (zlib) body, a gzip body: not raw DEFLATE
			st.Wire, st.MustErr = whole, true
			st.Payload = nil
		case "flip": // no integrity check in raw DEFLATE: nothing to judge but the model
			st.Wire = flipAt(r, whole, 0, len(whole))
		case "srcerr":
			st.Wire, st.MustErr, st.Fin, st.Full = whole[:r.Intn(len(whole))], true, io.ErrUnexpectedEOF, whole
		}
		return st
	}
	last := []byte(nil)
	if len(pieces) > 0 {
		last = pieces[len(pieces)-1]
	}
	switch sp.kind {
	case "valid", "multi", "empty":
		st.Wire, st.Intact = whole, true
	case "zero-isize": // a member for the empty payload has ISIZE 0 and CRC 0: valid
		st.Wire, st.Intact = whole, true
	case "trunc", "trunc-multi": // cut strictly inside the last member
		before := len(whole) - len(last)
		cut := before + 1 + r.Intn(len(last)-1)
		switch r.Intn(4) { // offset classes: inside the header, the last bytes (trailer), anywhere
		case 0:
			cut = before + 1 + r.Intn(min(len(last)-1, 14))
		case 1:
			cut = len(whole) - 1 - r.Intn(min(len(last)-1, 9))
		}
		st.Wire, st.MustErr = whole[:cut], true
		st.Payload = sp.payload
	case "boundary-srcerr": // the framing layer ends the message (with its error) after a complete member
		k := 1 + r.Intn(len(pieces)-1)
		st.Wire, st.MustErr, st.Fin, st.Full = cat(pieces[:k]...), true, io.ErrUnexpectedEOF, whole
	case "inside-srcerr":
		st.Wire, st.MustErr, st.Fin, st.Full = whole[:r.Intn(len(whole))], true, io.ErrUnexpectedEOF, whole
	case "stray": // 1-9 bytes after the last member: too short to be a header
		g := make([]byte, 1+r.Intn(9))
		r.Read(g)
		if r.Intn(3) == 0 {
			copy(g, []byte{0x1f, 0x8b, 8}) // even when they look like the start of one
		}
		st.Wire, st.MustErr = cat(whole, g), true
	case "garbage": // ten or more bytes that are not a member
		g := make([]byte, 10+r.Intn(30))
		r.Read(g)
		if g[0] == 0x1f {
			g[0] = 0x20
		}
		st.Wire, st.MustErr = cat(whole, g), true
	case "hdr-only": // a second member of which only the header arrives
		m2 := pieces[len(pieces)-1]
		hdrLen := len(m2) - (5 + 8) // GenMember(r, nil): one empty final block + trailer
		first := cat(pieces[:len(pieces)-1]...)
		st.Wire, st.MustErr = cat(first, m2[:hdrLen]), true
	case "flip": // CRC-32 + ISIZE protect the payload; header damage may be harmless (MTIME, XFL, OS, reserved bits)
		m := sp.members[0]
		hdrLen := len(whole) - m.StoredLen() - 8
		switch r.Intn(5) {
		case 0:
			st.Wire = flipAt(r, whole, 0, 4) // magic, method, flags
		case 1:
			st.Wire = flipAt(r, whole, 4, hdrLen) // MTIME, XFL, OS, optional fields, FHCRC
		case 2:
			st.Wire = flipAt(r, whole, hdrLen, hdrLen+5) // first block header, LEN, NLEN
		default:
			st.Wire = flipAt(r, whole, hdrLen, len(whole)-8) // anywhere in the DEFLATE part
		}
		st.ErrOrOK = true
	case "flip-trailer":
		st.Wire, st.MustErr = flipAt(r, whole, len(whole)-8, len(whole)), true
	case "longname": // compress/gzip gives up on a name of 512 bytes or more (ErrHeader): not judged, modelled
		st.Wire = whole
	}
	return st
}
