//go:build verif

// Package verifc14 holds what the C14 lanes of several packages share: compressors for test
// payloads, the reference meaning of a body under each codec (the decompression libraries
// used DIRECTLY, no imroc/req code in between) and the canonical error classes.
// Not part of imroc/req: injected with `go test -overlay` like the rest of the harness.
package verifc14

import (
	"bytes"
	"compress/flate"
	"compress/gzip"
	"compress/zlib"
	"crypto/sha256"
	"encoding/hex"
	"errors"
	"fmt"
	"io"
	"io/fs"
	"math/rand"
	"strings"
	"sync"

	"github.com/andybalholm/brotli"
	"github.com/klauspost/compress/zstd"
)

var Algs = []string{"gzip", "deflate", "br", "zstd"}

// Compress encodes p. "deflate" is a RAW deflate stream (internal/compress/deflate_reader.go
// uses compress/flate, not compress/zlib); "zlib" is the RFC 9110 reading of deflate.
func Compress(alg string, p []byte) []byte {
	var b bytes.Buffer
	switch alg {
	case "gzip":
		w := gzip.NewWriter(&b)
		w.Write(p)
		w.Close()
	case "deflate":
		w, _ := flate.NewWriter(&b, flate.DefaultCompression)
		w.Write(p)
		w.Close()
	case "zlib":
		w := zlib.NewWriter(&b)
		w.Write(p)
		w.Close()
	case "br":
		w := brotli.NewWriter(&b)
		w.Write(p)
		w.Close()
	case "zstd":
		w, _ := zstd.NewWriter(&b, zstd.WithZeroFrames(true)) // a frame even for the empty payload
		w.Write(p)
		w.Close()
	default:
		panic("verifc14: unknown alg " + alg)
	}
	return b.Bytes()
}

// Src is an underlying body: delivers Data in chunks of at most Chunk bytes (0 = as asked)
// and ends with Fin (io.EOF or a framing error).
type Src struct {
	Data   []byte
	Chunk  int
	Fin    error
	Closed bool
	Closes int // how often Close was called
}

// ErrSrcClosed is what a closed Src answers to Read (as a closed response body does).
var ErrSrcClosed = errors.New("verifc14: read on closed body")

func (s *Src) Read(p []byte) (int, error) {
	if s.Closed {
		return 0, ErrSrcClosed
	}
	if len(s.Data) == 0 {
		return 0, s.Fin
	}
	n := len(p)
	if s.Chunk > 0 && n > s.Chunk {
		n = s.Chunk
	}
	n = copy(p[:n], s.Data)
	s.Data = s.Data[n:]
	return n, nil
}
func (s *Src) Close() error { s.Closed = true; s.Closes++; return nil }

// StallSrc is a body on a connection whose peer has stopped sending: it delivers Data, then a
// Read BLOCKS until the body is closed (as a response body does while the server is silent).
type StallSrc struct {
	mu     sync.Mutex
	Data   []byte
	closed chan struct{}
	Closes int
}

func NewStallSrc(data []byte) *StallSrc {
	return &StallSrc{Data: append([]byte(nil), data...), closed: make(chan struct{})}
}

func (s *StallSrc) Read(p []byte) (int, error) {
	s.mu.Lock()
	select {
	case <-s.closed:
		s.mu.Unlock()
		return 0, ErrSrcClosed
	default:
	}
	if len(s.Data) > 0 && len(p) > 0 {
		n := copy(p, s.Data)
		s.Data = s.Data[n:]
		s.mu.Unlock()
		return n, nil
	}
	s.mu.Unlock()
	if len(p) == 0 {
		return 0, nil
	}
	<-s.closed
	return 0, ErrSrcClosed
}

func (s *StallSrc) Close() error {
	s.mu.Lock()
	defer s.mu.Unlock()
	s.Closes++
	select {
	case <-s.closed:
	default:
		close(s.closed)
	}
	return nil
}

// NCloses reads the close counter.
func (s *StallSrc) NCloses() int {
	s.mu.Lock()
	defer s.mu.Unlock()
	return s.Closes
}

// Term maps an error to the model's classes: "-" nil, "eof", "err1" unexpected EOF,
// "err3" fs.ErrClosed, "err2" anything else.
func Term(err error) string {
	switch {
	case err == nil:
		return "-"
	case err == io.EOF:
		return "eof"
	case errors.Is(err, io.ErrUnexpectedEOF):
		return "err1"
	case errors.Is(err, fs.ErrClosed):
		return "err3"
	default:
		return "err2"
	}
}

// Ref is the meaning of a body under the reference library used directly: constructor
// result ("ok" or an error class), whole output, final error class.
func Ref(alg string, wire []byte, fin error) (open string, out []byte, term string) {
	return RefSched(alg, wire, fin, 0, nil)
}

// RefRaw is Ref WITHOUT the source-failure rule of RefSched: the library's own verdict (klauspost
// zstd reports a source that fails at a frame boundary as a clean io.EOF). Only for recognising
// the input class of the known finding zstd-source-error-at-frame-boundary.
func RefRaw(alg string, wire []byte, fin error) (open string, out []byte, term string) {
	return RefSchedRaw(alg, wire, fin, 0, nil)
}

// RefSched is the reference meaning of a body under a schedule (see RefSchedRaw) with one rule on
// top of the library: a body that BROKE OFF (fin is not io.EOF) has not ended cleanly. The zstd
// decoder turns the source's error into io.EOF when it strikes exactly between two frames (offset
// 0 included); a reader over a response body must report the failure (ZstdReader does since
// fixes/C14-12: it remembers the first non-EOF error of the body). The other three libraries pass
// the source's error through by themselves.
func RefSched(alg string, wire []byte, fin error, chunk int, sizes []int) (open string, out []byte, term string) {
	open, out, term = RefSchedRaw(alg, wire, fin, chunk, sizes)
	if alg == "zstd" && open == "ok" && term == "eof" && fin != io.EOF {
		term = Term(fin)
	}
	return
}

// RefSchedRaw is RefRaw under a given schedule: the library reads the body in chunks of at most
// `chunk` bytes and is itself read with the buffer sizes `sizes` in turn (nil = 64 KiB). On
// intact streams the schedule does not matter; on corrupted ones it can (andybalholm/brotli
// accepts a bit-flipped 11-byte stream decoded in one go and reports an unexpected EOF when
// the same bytes arrive in small pieces), so the unit lanes compare a lazy reader with the
// library driven by exactly the same schedule.
func RefSchedRaw(alg string, wire []byte, fin error, chunk int, sizes []int) (open string, out []byte, term string) {
	defer func() {
		// andybalholm/brotli v1.1.1 can PANIC (index out of range in decoderDecompressStream) on a
		// corrupted stream: reported as constructor result "panic"
		if r := recover(); r != nil {
			open, out, term = "panic", nil, "eof"
		}
	}()
	src := &Src{Data: append([]byte(nil), wire...), Fin: fin, Chunk: chunk}
	var r io.Reader
	switch alg {
	case "gzip":
		zr, err := gzip.NewReader(src)
		if err != nil {
			return Term(err), nil, "eof"
		}
		r = zr
	case "deflate":
		r = flate.NewReader(src)
	case "br":
		r = brotli.NewReader(src)
	case "zstd":
		zr, err := zstd.NewReader(src)
		if err != nil {
			return Term(err), nil, "eof"
		}
		defer zr.Close()
		r = zr
	default:
		panic("verifc14: unknown alg " + alg)
	}
	for i := 0; i < 1<<22; i++ {
		size := 64 << 10
		if len(sizes) > 0 {
			size = sizes[i%len(sizes)]
		}
		buf := make([]byte, size)
		n, err := r.Read(buf)
		out = append(out, buf[:n]...)
		if err != nil {
			return "ok", out, Term(err)
		}
	}
	return "ok", out, "-"
}

// Digest describes a body outcome opaquely: sha256 prefix, length, end.
func Digest(data []byte, term string) string {
	if strings.HasPrefix(term, "err") {
		// how much a decoder hands out before it reports an error depends on how its input
		// arrives (brotli: 0 bytes vs 3941 bytes on the same corrupt stream); the property is
		// about the error. What precedes it is judged by the lanes' oracles on the raw bytes.
		return "partial:" + term
	}
	h := sha256.Sum256(data)
	return fmt.Sprintf("%s:%d:%s", hex.EncodeToString(h[:6]), len(data), term)
}

// RefDigest is Digest of Ref, with a constructor error rendered as an empty body ending in it.
func RefDigest(alg string, wire []byte) string { return RefDigestFin(alg, wire, io.EOF) }

// RefDigestFin is RefDigest for a body that ends in fin (io.EOF, or the framing layer's error
// when the peer ended the message before the declared Content-Length).
func RefDigestFin(alg string, wire []byte, fin error) string {
	open, out, term := Ref(alg, wire, fin)
	if open != "ok" {
		return Digest(nil, open)
	}
	return Digest(out, term)
}

// CorruptDigest describes the outcome of reading a CORRUPTED (bit-flipped / truncated) encoded
// body: the property admits a read error or exactly the original payload, and which of the two
// a decoder produces may depend on how the bytes arrive - both are "admissible". Anything else
// (a different or shortened body with a clean end) keeps its exact digest.
func CorruptDigest(data []byte, term string, payload []byte) string {
	if strings.HasPrefix(term, "err") || (term == "eof" && bytes.Equal(data, payload)) {
		return "corrupt-admissible"
	}
	return Digest(data, term)
}

// RefCorruptDigest is CorruptDigest of Ref (constructor error = read error).
func RefCorruptDigest(alg string, wire, payload []byte, fin error) string {
	open, out, term := Ref(alg, wire, fin)
	if open != "ok" {
		return CorruptDigest(nil, open, payload)
	}
	return CorruptDigest(out, term, payload)
}

// Payload draws a payload of the class: 0 empty, 1 tiny, 2 compressible text, 3 random,
// 4 larger than the flate window / one zstd block, 5 multi-MiB.
func Payload(r *rand.Rand, class int) []byte {
	switch class {
	case 0:
		return nil
	case 1:
		b := make([]byte, 1+r.Intn(12))
		for i := range b {
			b[i] = "abc"[r.Intn(3)]
		}
		return b
	case 2:
		words := []string{"alpha ", "beta ", "gamma ", "delta ", "\n", "0123456789", "req "}
		var b strings.Builder
		lim := 50 + r.Intn(500)
		for b.Len() < lim {
			b.WriteString(words[r.Intn(len(words))])
		}
		return []byte(b.String())
	case 3:
		b := make([]byte, 20+r.Intn(300))
		r.Read(b)
		return b
	default:
		n := 40000 + r.Intn(90000)
		if class == 5 {
			n = 2<<20 + r.Intn(1<<20)
		}
		b := make([]byte, n)
		for i := range b {
			if i > 64 && r.Intn(4) != 0 {
				b[i] = b[i-1-r.Intn(64)]
			} else {
				b[i] = byte(r.Intn(256))
			}
		}
		return b
	}
}

// Sizes draws 1-4 Read buffer sizes to be used in turn: zero-length reads (which must neither
// lose data nor report the end early), one byte, small primes, sizes beyond any body. At least
// one of them is not zero.
func Sizes(r *rand.Rand) []int {
	pool := []int{0, 1, 1, 2, 3, 7, 13, 16, 97, 100, 512, 4096, 65536, 200003}
	s := make([]int, 1+r.Intn(4))
	nz := false
	for i := range s {
		s[i] = pool[r.Intn(len(pool))]
		nz = nz || s[i] > 0
	}
	if !nz {
		s[r.Intn(len(s))] = 1 + r.Intn(9)
	}
	return s
}
