//go:build verif

package http2

// C08 lanes inside package http2: the HTTP/2 request lifecycle model (lean/Req/Pool/CancelH2.lean)
// against the real clientStream / ClientConn code.
//
//   h2unit  — the decision tables: the REAL cleanupWriteRequest on constructed stream states vs
//             `cleanupRule` (which RST_STREAM frame reaches the peer, body closed exactly once, stream
//             forgotten, donec closed), the REAL awaitFlowControl vs `flowDecision`.
//   h2life  — a real ClientConn (Transport.NewClientConn over loopback TCP) against a frame-level
//             script peer: ONE request stepped through its life frame by frame (stream-slot wait,
//             HEADERS, 100-continue wait, every body chunk with a one-chunk flow-control window,
//             END_STREAM, response HEADERS, response DATA, END_STREAM); the context is cancelled /
//             its deadline passes at EVERY event index; observed at frame level: RST_STREAM frames and
//             their codes, DATA frames started after the injection, Close calls on the request body,
//             the caller's error, and in-package the connection's books afterwards (stream forgotten,
//             no reservation, nobody pending, header lock free, connection-level receive window whole
//             once the caller has drained and closed the body). Judged by the model: the observed
//             outcome must be one the model reaches from the replayed state.

import (
	"bytes"
	"context"
	"errors"
	"fmt"
	"io"
	"net"
	"net/http"
	"sort"
	"strings"
	"sync"
	"sync/atomic"
	"testing"
	"time"

	"github.com/imroc/req/v3/internal/transport"
	"github.com/imroc/req/v3/internal/verifh"
	xhttp2 "golang.org/x/net/http2"
	"golang.org/x/net/http2/hpack"
)

const c08h2Wait = 3 * time.Second

type c08h2Frame struct {
	typ    xhttp2.FrameType
	id     uint32
	flags  xhttp2.Flags
	length int
	code   xhttp2.ErrCode
	ping   [8]byte
	closed bool
}

type c08h2Env struct {
	tr     *Transport
	cc     *ClientConn
	srv    net.Conn
	fr     *xhttp2.Framer
	wmu    sync.Mutex
	frames chan c08h2Frame
	henc   *hpack.Encoder
	hbuf   bytes.Buffer
	pingN  uint64
}

func c08h2NewEnv(initWin uint32, maxStreams uint32) (*c08h2Env, error) {
	ln, err := net.Listen("tcp", "127.0.0.1:0")
	if err != nil {
		return nil, err
	}
	defer ln.Close()
	type acc struct {
		c   net.Conn
		err error
	}
	ach := make(chan acc, 1)
	go func() {
		c, err := ln.Accept()
		ach <- acc{c, err}
	}()
	cli, err := net.Dial("tcp", ln.Addr().String())
	if err != nil {
		return nil, err
	}
	a := <-ach
	if a.err != nil {
		cli.Close()
		return nil, a.err
	}
	e := &c08h2Env{srv: a.c, frames: make(chan c08h2Frame, 4096)}
	e.henc = hpack.NewEncoder(&e.hbuf)
	e.fr = xhttp2.NewFramer(e.srv, e.srv)
	e.fr.AllowIllegalReads = true
	e.fr.AllowIllegalWrites = true
	e.fr.SetMaxReadFrameSize(1<<24 - 1)
	go e.readLoop()
	e.tr = &Transport{Options: &transport.Options{DisableCompression: true, ExpectContinueTimeout: 5 * time.Second}, StrictMaxConcurrentStreams: true}
	cc, err := e.tr.NewClientConn(cli)
	if err != nil {
		e.srv.Close()
		return nil, err
	}
	e.cc = cc
	// the peer's SETTINGS, and the ack of the client's
	e.wmu.Lock()
	e.fr.WriteSettings(xhttp2.Setting{ID: xhttp2.SettingInitialWindowSize, Val: initWin}, xhttp2.Setting{ID: xhttp2.SettingMaxConcurrentStreams, Val: maxStreams})
	e.fr.WriteSettingsAck()
	e.wmu.Unlock()
	// wait until the client has applied them (its ack)
	deadline := time.After(c08h2Wait)
	for {
		select {
		case f := <-e.frames:
			if f.closed {
				e.shutdown()
				return nil, errors.New("c08h2: connection closed during setup")
			}
			if f.typ == xhttp2.FrameSettings && f.flags.Has(xhttp2.FlagSettingsAck) {
				return e, nil
			}
		case <-deadline:
			e.shutdown()
			return nil, errors.New("c08h2: no SETTINGS ack from the client")
		}
	}
}

func (e *c08h2Env) shutdown() {
	if e.cc != nil {
		e.cc.Close()
	}
	e.srv.Close()
}

func (e *c08h2Env) readLoop() {
	pre := make([]byte, len(xhttp2.ClientPreface))
	if _, err := io.ReadFull(e.srv, pre); err != nil {
		e.frames <- c08h2Frame{closed: true}
		return
	}
	for {
		f, err := e.fr.ReadFrame()
		if err != nil {
			e.frames <- c08h2Frame{closed: true}
			return
		}
		h := f.Header()
		out := c08h2Frame{typ: h.Type, id: h.StreamID, flags: h.Flags, length: int(h.Length)}
		switch f := f.(type) {
		case *xhttp2.RSTStreamFrame:
			out.code = f.ErrCode
		case *xhttp2.PingFrame:
			out.ping = f.Data
		}
		e.frames <- out
	}
}

// barrier: the client writes a PING now; everything it wrote before has been read by the peer once
// that PING arrives. Returns the frames seen on the way.
func (e *c08h2Env) barrier() ([]c08h2Frame, error) {
	n := atomic.AddUint64(&e.pingN, 1)
	var data [8]byte
	copy(data[:], fmt.Sprintf("c08%05d", n%100000))
	e.cc.wmu.Lock()
	e.cc.fr.WritePing(false, data)
	e.cc.bw.Flush()
	e.cc.wmu.Unlock()
	var seen []c08h2Frame
	deadline := time.After(c08h2Wait)
	for {
		select {
		case f := <-e.frames:
			if f.closed {
				return seen, errors.New("connection closed")
			}
			if f.typ == xhttp2.FramePing && !f.flags.Has(xhttp2.FlagPingAck) && f.ping == data {
				return seen, nil
			}
			seen = append(seen, f)
		case <-deadline:
			return seen, errors.New("barrier PING not seen")
		}
	}
}

// await reads frames until pred says yes.
func (e *c08h2Env) await(pred func(c08h2Frame) bool) ([]c08h2Frame, error) {
	var seen []c08h2Frame
	deadline := time.After(c08h2Wait)
	for {
		select {
		case f := <-e.frames:
			if f.closed {
				return seen, errors.New("connection closed")
			}
			seen = append(seen, f)
			if pred(f) {
				return seen, nil
			}
		case <-deadline:
			return seen, errors.New("expected frame not seen")
		}
	}
}

func (e *c08h2Env) respHeaders(id uint32, endStream bool, status string) {
	e.wmu.Lock()
	defer e.wmu.Unlock()
	e.hbuf.Reset()
	e.henc.WriteField(hpack.HeaderField{Name: ":status", Value: status})
	if status == "200" {
		e.henc.WriteField(hpack.HeaderField{Name: "content-type", Value: "application/octet-stream"})
	}
	e.fr.WriteHeaders(xhttp2.HeadersFrameParam{StreamID: id, BlockFragment: e.hbuf.Bytes(), EndStream: endStream, EndHeaders: true})
}

func (e *c08h2Env) data(id uint32, n int, end bool) {
	e.wmu.Lock()
	defer e.wmu.Unlock()
	e.fr.WriteData(id, end, bytes.Repeat([]byte{'r'}, n))
}

func (e *c08h2Env) windowUpdate(id uint32, n uint32) {
	e.wmu.Lock()
	defer e.wmu.Unlock()
	e.fr.WriteWindowUpdate(id, n)
	e.fr.WriteWindowUpdate(0, n)
}

// ---------------------------------------------------------------------------------------
// request body: chunk i is handed out once gate i is open; Close is counted
// ---------------------------------------------------------------------------------------

type c08h2Body struct {
	chunks     int
	size       int
	i          int
	mu         sync.Mutex
	gates      []chan struct{}
	reads      int32 // Read calls that returned
	entered    int32 // Read calls entered
	closes     int32
	readsAfter int32
	allOpen    chan struct{}
}

func newC08h2Body(chunks, size int) *c08h2Body {
	b := &c08h2Body{chunks: chunks, size: size, allOpen: make(chan struct{})}
	for i := 0; i <= chunks; i++ {
		b.gates = append(b.gates, make(chan struct{}))
	}
	return b
}

func (b *c08h2Body) open(i int) {
	b.mu.Lock()
	defer b.mu.Unlock()
	select {
	case <-b.gates[i]:
	default:
		close(b.gates[i])
	}
}

func (b *c08h2Body) openAll() {
	select {
	case <-b.allOpen:
	default:
		close(b.allOpen)
	}
}

func (b *c08h2Body) Read(p []byte) (int, error) {
	if atomic.LoadInt32(&b.closes) > 0 {
		atomic.AddInt32(&b.readsAfter, 1)
		return 0, errors.New("c08h2: read on closed body")
	}
	atomic.AddInt32(&b.entered, 1)
	i := b.i
	if i > b.chunks {
		return 0, io.EOF
	}
	select {
	case <-b.gates[i]:
	case <-b.allOpen:
	case <-time.After(10 * time.Second):
		return 0, errors.New("c08h2: gate never opened")
	}
	defer atomic.AddInt32(&b.reads, 1)
	if atomic.LoadInt32(&b.closes) > 0 {
		return 0, errors.New("c08h2: body closed while reading")
	}
	b.i++
	if i == b.chunks {
		return 0, io.EOF
	}
	n := b.size
	if len(p) < n {
		n = len(p)
	}
	for k := 0; k < n; k++ {
		p[k] = 'u'
	}
	return n, nil
}

func (b *c08h2Body) Close() error { atomic.AddInt32(&b.closes, 1); return nil }

func c08h2Poll(cond func() bool) bool {
	deadline := time.Now().Add(c08h2Wait)
	for !cond() {
		if time.Now().After(deadline) {
			return false
		}
		time.Sleep(200 * time.Microsecond)
	}
	return true
}

// ---------------------------------------------------------------------------------------
// unit lane
// ---------------------------------------------------------------------------------------

func TestVerif_C08_h2unit(t *testing.T) {
	s := verifh.New(t, "C08", "h2unit",
		"the REAL clientStream.cleanupWriteRequest on constructed stream states: writeRequest result {nil, context.Canceled, DeadlineExceeded, StreamError from the peer, local StreamError, other} x sentHeaders x sentEndStream x peerClosed x {no body, body unclaimed, body already claimed and closed} x {stream id assigned, cancelled before the stream existed}, exhaustive; observed at a frame-level peer: the RST_STREAM frame (code) if any, Close calls on the body, stream forgotten / reservation returned, donec closed — compared with the model's cleanupRule; plus the REAL awaitFlowControl on constructed states {conn closed, body claimed, aborted, ctx done} x available tokens x maxBytes vs flowDecision; non-trivial = a case with an error result")
	cnt := map[string]int{}
	count := func(k string) { cnt[k]++; s.Count(k) }
	env, err := c08h2NewEnv(65535, 1000)
	if err != nil {
		t.Fatalf("env: %v", err)
	}
	defer env.shutdown()
	cc := env.cc
	b := func(x bool) string {
		if x {
			return "1"
		}
		return "0"
	}
	errKinds := []string{"nil", "canceled", "deadline", "fromPeer", "streamLocal", "other"}
	for _, ek := range errKinds {
		for mask := 0; mask < 8; mask++ {
			sentHeaders, sentEnd, peerClosed := mask&1 != 0, mask&2 != 0, mask&4 != 0
			for bodyMode := 0; bodyMode < 3; bodyMode++ {
				for _, hasID := range []bool{true, false} {
					if !hasID && sentHeaders {
						continue // HEADERS are only written for a stream that exists
					}
					body := newC08h2Body(0, 0)
					cs := &clientStream{cc: cc, ctx: context.Background(), abort: make(chan struct{}), peerClosed: make(chan struct{}),
						donec: make(chan struct{}), respHeaderRecv: make(chan struct{}), sentHeaders: sentHeaders, sentEndStream: sentEnd}
					if bodyMode > 0 {
						cs.reqBody = body
					}
					if bodyMode == 2 {
						cs.reqBodyClosed = make(chan struct{})
						body.Close()
						close(cs.reqBodyClosed)
					}
					if peerClosed {
						close(cs.peerClosed)
					}
					cc.mu.Lock()
					if hasID {
						cc.addStreamLocked(cs)
					} else {
						cc.streamsReserved++
					}
					resBefore := cc.streamsReserved
					cc.mu.Unlock()
					id := cs.ID
					var werr error
					switch ek {
					case "canceled":
						werr = context.Canceled
					case "deadline":
						werr = context.DeadlineExceeded
					case "fromPeer":
						werr = StreamError{StreamID: id, Code: ErrCodeRefusedStream, Cause: errFromPeer}
					case "streamLocal":
						werr = StreamError{StreamID: id, Code: ErrCodeProtocol}
					case "other":
						werr = errors.New("verif: write failed")
					}
					if txt, bad := verifh.Safely(func() { cs.cleanupWriteRequest(werr) }); bad {
						s.Crash(fmt.Sprintf("cleanup/%s/%d/%d/%v", ek, mask, bodyMode, hasID), "cleanupWriteRequest panicked", txt, "")
						continue
					}
					frames, berr := env.barrier()
					if berr != nil {
						t.Fatalf("barrier: %v", berr)
					}
					rst := "none"
					nrst := 0
					for _, f := range frames {
						if f.typ == xhttp2.FrameRSTStream && (f.id == id || !hasID) {
							nrst++
							switch f.code {
							case xhttp2.ErrCodeCancel:
								rst = "cancel"
							case xhttp2.ErrCodeNo:
								rst = "noError"
							case xhttp2.ErrCodeProtocol:
								rst = "local"
							default:
								rst = "code" + fmt.Sprint(uint32(f.code))
							}
						}
					}
					if nrst > 1 {
						rst = fmt.Sprintf("%dx", nrst)
					}
					cc.mu.Lock()
					_, still := cc.streams[id]
					resAfter := cc.streamsReserved
					cc.mu.Unlock()
					doneClosed := false
					select {
					case <-cs.donec:
						doneClosed = true
					default:
					}
					closes := int(atomic.LoadInt32(&body.closes))
					// oracle: the structural clauses (body closed exactly once when there is one; the
					// stream slot / reservation given back; donec closed)
					ok := doneClosed && !(hasID && still) && (hasID || resAfter == resBefore-1)
					if bodyMode > 0 && closes != 1 {
						ok = false
					}
					if bodyMode == 0 && closes != 0 {
						ok = false
					}
					var detail string
					if !ok {
						detail = fmt.Sprintf(" STRUCT: donec=%v inStreams=%v reserved %d->%d closes=%d", doneClosed, still, resBefore, resAfter, closes)
					}
					count("rst=" + rst)
					line := fmt.Sprintf("c08h2cleanup %s %s %s %s", ek, b(sentHeaders), b(sentEnd), b(peerClosed))
					s.Case(line, "rst="+rst, ok, "", ek != "nil",
						fmt.Sprintf("cleanupWriteRequest(%s) sentHeaders=%v sentEndStream=%v peerClosed=%v body=%d id=%v -> rst=%s closes=%d%s", ek, sentHeaders, sentEnd, peerClosed, bodyMode, hasID, rst, closes, detail))
				}
			}
		}
	}
	// awaitFlowControl
	for mask := 0; mask < 16; mask++ {
		connClosed, claimed, aborted, ctxDone := mask&1 != 0, mask&2 != 0, mask&4 != 0, mask&8 != 0
		for _, avail := range []int{0, 1, 700, 20000} {
			for _, maxBytes := range []int{1, 500, 16384, 100000} {
				ctx, cancel := context.WithCancel(context.Background())
				cs := &clientStream{cc: cc, ctx: ctx, abort: make(chan struct{}), peerClosed: make(chan struct{}),
					donec: make(chan struct{}), respHeaderRecv: make(chan struct{})}
				if claimed {
					cs.reqBodyClosed = make(chan struct{})
				}
				if aborted {
					cs.abortErr = errors.New("verif: aborted")
					close(cs.abort)
				}
				if ctxDone {
					cancel()
				}
				cc.mu.Lock()
				cs.flow.setConnFlow(&cc.flow)
				cs.flow.add(int32(avail))
				connAvail := int(cc.flow.available())
				maxFrame := int(cc.maxFrameSize)
				cc.closed = connClosed
				cc.mu.Unlock()
				if connAvail < avail {
					t.Fatalf("connection window %d too small for the case", connAvail)
				}
				type res struct {
					n   int32
					err error
				}
				resc := make(chan res, 1)
				go func() {
					n, err := cs.awaitFlowControl(maxBytes)
					resc <- res{n, err}
				}()
				got := ""
				select {
				case r := <-resc:
					switch {
					case r.err == nil:
						got = fmt.Sprintf("take %d", r.n)
						// give the connection-level tokens back for the next case
						cc.mu.Lock()
						cc.flow.add(r.n)
						cc.mu.Unlock()
					case r.err == errClientConnClosed:
						got = "connClosed"
					case r.err == errStopReqBodyWrite:
						got = "stop"
					case r.err == cs.abortErr && aborted:
						got = "abortErr"
					case errors.Is(r.err, context.Canceled):
						got = "ctxErr"
					default:
						got = "other:" + r.err.Error()
					}
				case <-time.After(25 * time.Millisecond):
					got = "wait"
					cs.abortStream(errors.New("verif: release"))
					select {
					case <-resc:
					case <-time.After(c08h2Wait):
						t.Fatalf("awaitFlowControl did not wake on abortStream")
					}
				}
				cc.mu.Lock()
				cc.closed = false
				cc.mu.Unlock()
				cancel()
				if aborted && ctxDone && got == "ctxErr" {
					// both select cases are ready: Go picks either; the model lists the abort first
					got = "abortErr"
				}
				count("flow=" + strings.Fields(got)[0])
				line := fmt.Sprintf("c08h2flow %s %s %s %s %d %d %d", b(connClosed), b(claimed), b(aborted), b(ctxDone), avail, maxBytes, maxFrame)
				cancelled := claimed || aborted || ctxDone
				ok := !cancelled || (got != "wait" && !strings.HasPrefix(got, "take"))
				s.Case(line, got, ok, "", cancelled,
					fmt.Sprintf("awaitFlowControl(maxBytes=%d) connClosed=%v bodyClaimed=%v aborted=%v ctxDone=%v available=%d -> %s", maxBytes, connClosed, claimed, aborted, ctxDone, avail, got))
			}
		}
	}
	for _, want := range []string{"rst=cancel", "rst=noError", "rst=local", "rst=none", "flow=take", "flow=wait", "flow=stop", "flow=abortErr", "flow=ctxErr", "flow=connClosed"} {
		if cnt[want] == 0 {
			t.Errorf("bucket %s not reached", want)
		}
	}
	s.Finish()
}

// ---------------------------------------------------------------------------------------
// lifecycle lane
// ---------------------------------------------------------------------------------------

type c08h2Scenario struct {
	name        string
	upChunks    int  // request body chunks (0 = no body)
	expect      bool // Expect: 100-continue
	respChunks  int  // response body chunks
	respNoBody  bool // END_STREAM on the response HEADERS
	slotWait    bool // MAX_CONCURRENT_STREAMS = 1 and another stream holds the slot
	slowReader  bool // the caller does not read the response body while it arrives: it is buffered, unread
	closeUnread bool // … and afterwards closes the body without reading what is buffered
}

const c08h2Chunk = 1000

type c08h2Obs struct {
	point   string
	trace   []string
	infra   string
	ret     string // what RoundTrip returned (class) — or "resp"
	read    string // class of the pending body read's error, "-" if no read was pending
	closes  int
	rst     []string
	data    int // DATA frames of the stream that arrived after the injection
	rel     bool
	books   string // in-package: what is not at rest afterwards
	late    time.Duration
	reached bool
}

func c08h2Class(err error) string {
	switch {
	case err == nil:
		return "ok"
	case errors.Is(err, context.Canceled):
		return "canceled"
	case errors.Is(err, context.DeadlineExceeded):
		return "deadline"
	}
	return "other"
}

// c08h2DeadlineCtx: a context whose deadline "passes" when the harness says so.
type c08h2DeadlineCtx struct {
	context.Context
	done chan struct{}
	once sync.Once
}

func (c *c08h2DeadlineCtx) Deadline() (time.Time, bool) { return time.Now().Add(time.Hour), true }
func (c *c08h2DeadlineCtx) Done() <-chan struct{}       { return c.done }
func (c *c08h2DeadlineCtx) Err() error {
	select {
	case <-c.done:
		return context.DeadlineExceeded
	default:
		return nil
	}
}

// c08h2Run steps one request to the injection point `stopAt` (index among the points of the
// scenario; -1 = run to completion and report the number of points), injects, observes.
func c08h2Run(sc c08h2Scenario, kind string, stopAt int) (o c08h2Obs, nPoints int) {
	maxStreams := uint32(100)
	if sc.slotWait {
		maxStreams = 1
	}
	env, err := c08h2NewEnv(c08h2Chunk, maxStreams)
	if err != nil {
		o.infra = "env: " + err.Error()
		return
	}
	defer env.shutdown()
	cc := env.cc
	cc.mu.Lock()
	connInflow0 := cc.inflow.avail + cc.inflow.unsent
	cc.mu.Unlock()

	var ctx context.Context
	var inject func()
	if kind == "canceled" {
		c, cancel := context.WithCancel(context.Background())
		ctx, inject = c, cancel
	} else {
		d := &c08h2DeadlineCtx{Context: context.Background(), done: make(chan struct{})}
		ctx, inject = d, func() { d.once.Do(func() { close(d.done) }) }
	}
	defer inject()

	// the holder of the only stream slot
	var holderID uint32
	holderDone := make(chan struct{})
	if sc.slotWait {
		hreq, _ := http.NewRequest("GET", "https://c08.invalid/hold", nil)
		go func() {
			defer close(holderDone)
			resp, err := cc.RoundTrip(hreq)
			if err == nil {
				io.Copy(io.Discard, resp.Body)
				resp.Body.Close()
			}
		}()
		fs, err := env.await(func(f c08h2Frame) bool { return f.typ == xhttp2.FrameHeaders })
		if err != nil {
			o.infra = "holder: " + err.Error()
			return
		}
		holderID = fs[len(fs)-1].id
	} else {
		close(holderDone)
	}

	var body *c08h2Body
	var rbody io.Reader
	if sc.upChunks > 0 {
		body = newC08h2Body(sc.upChunks, c08h2Chunk)
		rbody = body
	}
	req, _ := http.NewRequestWithContext(ctx, map[bool]string{true: "POST", false: "GET"}[sc.upChunks > 0], "https://c08.invalid/script", rbody)
	if sc.upChunks > 0 {
		req.ContentLength = -1
	}
	if sc.expect {
		req.Header.Set("Expect", "100-continue")
	}
	type rtRes struct {
		resp *http.Response
		err  error
		when time.Time
	}
	rtc := make(chan rtRes, 1)
	var csPtr atomic.Pointer[clientStream]
	go func() {
		resp, err := cc.roundTrip(req, func(cs *clientStream) { csPtr.Store(cs) })
		rtc <- rtRes{resp, err, time.Now()}
	}()

	var trace []string
	add := func(toks ...string) { trace = append(trace, toks...) }
	point := 0
	fired := false
	var firedAt time.Time
	// at returns true when the request has been stepped to the chosen injection point
	at := func(name string) bool {
		if fired {
			return true
		}
		if point == stopAt {
			o.point = name
			o.trace = append([]string(nil), trace...)
			o.reached = true
			fired = true
			firedAt = time.Now()
			inject()
			if body != nil {
				body.openAll() // the upload source never blocks after the injection
			}
			return true
		}
		point++
		return false
	}
	var streamID uint32
	var resp *http.Response
	var rtErr error
	rtReturned := false
	type rdRes struct {
		n    int
		err  error
		when time.Time
	}
	var rdc chan rdRes
	script := func() string {
		if sc.slotWait {
			if !c08h2Poll(func() bool { cc.mu.Lock(); defer cc.mu.Unlock(); return cc.pendingRequests == 1 }) {
				return "the request never waited for a stream slot"
			}
			add("ev:hdrMuFree")
			if at("slotWait") {
				return ""
			}
			// the holder's response ends its stream: the slot is free
			env.respHeaders(holderID, true, "204")
		} else {
			add("ev:hdrMuFree")
		}
		fs, err := env.await(func(f c08h2Frame) bool { return f.typ == xhttp2.FrameHeaders && f.id != holderID })
		if err != nil {
			return "request HEADERS: " + err.Error()
		}
		streamID = fs[len(fs)-1].id
		add("ev:slotFree", "act:wHeaders")
		if sc.upChunks > 0 && !sc.expect {
			// the writer is in body.Read
			if !c08h2Poll(func() bool { return atomic.LoadInt32(&body.entered) >= 1 }) {
				return "the body was never read"
			}
		}
		if at("hdrSeen") {
			return ""
		}
		if sc.upChunks > 0 {
			if sc.expect {
				env.respHeaders(streamID, false, "100")
				if !c08h2Poll(func() bool { return atomic.LoadInt32(&body.entered) >= 1 }) {
					return "the body was never read after 100 Continue"
				}
				add("ev:continue100")
				if at("continued") {
					return ""
				}
			}
			for i := 0; i < sc.upChunks; i++ {
				body.open(i)
				if i > 0 {
					// the one-chunk window is used up: the writer waits for flow control
					if !c08h2Poll(func() bool { return atomic.LoadInt32(&body.reads) >= int32(i+1) }) {
						return "chunk not read"
					}
					time.Sleep(2 * time.Millisecond)
					add("act:wReadChunk")
					if at(fmt.Sprintf("flowWait#%d", i)) {
						return ""
					}
					env.windowUpdate(streamID, c08h2Chunk)
					add("ev:flowTake", "act:wData")
				} else {
					add("act:wReadChunk", "ev:flowTake", "act:wData")
				}
				if _, err := env.await(func(f c08h2Frame) bool { return f.typ == xhttp2.FrameData && f.id == streamID }); err != nil {
					return "DATA: " + err.Error()
				}
				if !c08h2Poll(func() bool { return atomic.LoadInt32(&body.entered) >= int32(i+2) }) {
					return "next read not entered"
				}
				if at(fmt.Sprintf("data#%d", i)) {
					return ""
				}
			}
			body.open(sc.upChunks)
			if _, err := env.await(func(f c08h2Frame) bool {
				return f.typ == xhttp2.FrameData && f.id == streamID && f.flags.Has(xhttp2.FlagDataEndStream)
			}); err != nil {
				return "END_STREAM: " + err.Error()
			}
			add("act:wReadEOF", "act:wEndStream")
			if at("endSeen") {
				return ""
			}
		}
		// the response
		env.respHeaders(streamID, sc.respNoBody, "200")
		select {
		case r := <-rtc:
			resp, rtErr, rtReturned = r.resp, r.err, true
		case <-time.After(c08h2Wait):
			return "RoundTrip did not return after the response headers"
		}
		if rtErr != nil {
			return "RoundTrip failed: " + rtErr.Error()
		}
		add("ev:peerHeaders", "act:rHeaders")
		if sc.respNoBody {
			add("settle")
			if cs := csPtr.Load(); cs != nil {
				select {
				case <-cs.donec:
				case <-time.After(c08h2Wait):
					return "stream not finished"
				}
			}
			if at("complete") {
				return ""
			}
			return ""
		}
		if sc.slowReader {
			// the body arrives and stays in the stream's buffer: nobody reads
			cs := csPtr.Load()
			if cs == nil {
				return "stream unknown"
			}
			if at("respHdr") {
				return ""
			}
			for j := 0; j < sc.respChunks; j++ {
				env.data(streamID, c08h2Chunk, false)
				want := (j + 1) * c08h2Chunk
				if !c08h2Poll(func() bool { return cs.bufPipe.Len() == want }) {
					return "response chunk not buffered"
				}
				if at(fmt.Sprintf("respBuffered#%d", j)) {
					return ""
				}
			}
			env.data(streamID, 0, true)
			add("ev:peerEnd", "settle")
			select {
			case <-cs.donec:
			case <-time.After(c08h2Wait):
				return "stream not finished"
			}
			if at("complete") {
				return ""
			}
			return ""
		}
		// the caller reads the body chunk by chunk
		buf := make([]byte, c08h2Chunk)
		startRead := func() {
			rdc = make(chan rdRes, 1)
			go func(ch chan rdRes) {
				n, err := io.ReadFull(resp.Body, buf)
				ch <- rdRes{n, err, time.Now()}
			}(rdc)
		}
		startRead()
		time.Sleep(time.Millisecond)
		if at("respHdr") {
			return ""
		}
		for j := 0; j < sc.respChunks; j++ {
			env.data(streamID, c08h2Chunk, false)
			select {
			case r := <-rdc:
				if r.err != nil {
					return "body read failed: " + r.err.Error()
				}
			case <-time.After(c08h2Wait):
				return "body chunk not delivered"
			}
			startRead()
			time.Sleep(time.Millisecond)
			if at(fmt.Sprintf("respData#%d", j)) {
				return ""
			}
		}
		env.data(streamID, 0, true)
		select {
		case r := <-rdc:
			if r.err != io.EOF && r.err != io.ErrUnexpectedEOF {
				return fmt.Sprintf("end of body: %v", r.err)
			}
			rdc = nil
		case <-time.After(c08h2Wait):
			return "end of body not delivered"
		}
		add("ev:peerEnd", "settle")
		if cs := csPtr.Load(); cs != nil {
			select {
			case <-cs.donec:
			case <-time.After(c08h2Wait):
				return "stream not finished"
			}
		}
		if at("complete") {
			return ""
		}
		return ""
	}
	if msg := script(); msg != "" {
		o.infra = msg
		return
	}
	nPoints = point
	if !fired {
		// ran to completion (dry run)
		if resp != nil {
			resp.Body.Close()
		}
		if sc.slotWait {
			<-holderDone
		}
		return
	}

	// ---- observe
	o.read = "-"
	if !rtReturned {
		select {
		case r := <-rtc:
			resp, rtErr = r.resp, r.err
			o.late = r.when.Sub(firedAt)
			if rtErr == nil {
				o.ret = "resp"
			} else {
				o.ret = c08h2Class(rtErr)
			}
		case <-time.After(c08h2Wait):
			o.ret = "hung"
		}
	} else {
		o.ret = "resp"
	}
	if rdc != nil {
		select {
		case r := <-rdc:
			o.read = c08h2Class(r.err)
			if d := r.when.Sub(firedAt); d > o.late {
				o.late = d
			}
		case <-time.After(c08h2Wait):
			o.read = "hung"
		}
	}
	cs := csPtr.Load()
	if cs != nil {
		select {
		case <-cs.donec:
		case <-time.After(c08h2Wait):
			o.books += " writer-goroutine-not-done"
		}
	}
	if body != nil {
		c08h2Poll(func() bool { return atomic.LoadInt32(&body.closes) > 0 })
		time.Sleep(2 * time.Millisecond)
		o.closes = int(atomic.LoadInt32(&body.closes))
	}
	// the caller drains and closes what it has (the buffered bytes come before the error)
	if resp != nil && resp.Body != nil {
		if !sc.closeUnread {
			_, derr := io.Copy(io.Discard, resp.Body)
			if sc.slowReader && derr != nil {
				o.read = c08h2Class(derr)
			}
		} else if cs != nil {
			// nobody reads: what a read would have returned is the error the response pipe was closed with
			if perr := cs.bufPipe.Err(); perr != nil && perr != io.EOF {
				o.read = c08h2Class(perr)
			}
		}
		resp.Body.Close()
	}
	frames, berr := env.barrier()
	if berr != nil {
		o.infra = "barrier: " + berr.Error()
		return
	}
	for _, f := range frames {
		if streamID == 0 || f.id != streamID {
			continue
		}
		switch f.typ {
		case xhttp2.FrameRSTStream:
			switch f.code {
			case xhttp2.ErrCodeCancel:
				o.rst = append(o.rst, "cancel")
			case xhttp2.ErrCodeNo:
				o.rst = append(o.rst, "noError")
			default:
				o.rst = append(o.rst, "local")
			}
		case xhttp2.FrameData:
			if f.length > 0 {
				o.data++
			}
		}
	}
	sort.Strings(o.rst)
	// the connection's books — first what belongs to THIS request, with the other stream still holding
	// its slot: nobody pending, no reservation, the header lock free, the stream forgotten
	okOwn := c08h2Poll(func() bool {
		cc.mu.Lock()
		defer cc.mu.Unlock()
		_, still := cc.streams[streamID]
		return cc.streamsReserved == 0 && cc.pendingRequests == 0 && len(cc.reqHeaderMu) == 0 && (streamID == 0 || !still)
	})
	if !okOwn {
		cc.mu.Lock()
		_, still := cc.streams[streamID]
		o.books += fmt.Sprintf(" while-the-other-stream-is-open: reserved=%d pending=%d hdrMu=%d stream-still-registered=%v", cc.streamsReserved, cc.pendingRequests, len(cc.reqHeaderMu), streamID != 0 && still)
		cc.mu.Unlock()
	}
	if sc.slotWait && o.point == "slotWait" {
		env.respHeaders(holderID, true, "204")
	}
	select {
	case <-holderDone:
	case <-time.After(c08h2Wait):
		o.books += " holder-stuck"
	}
	ok := c08h2Poll(func() bool {
		cc.mu.Lock()
		defer cc.mu.Unlock()
		return len(cc.streams) == 0 && cc.streamsReserved == 0 && cc.pendingRequests == 0 && len(cc.reqHeaderMu) == 0
	})
	cc.mu.Lock()
	if !ok {
		o.books += fmt.Sprintf(" streams=%d reserved=%d pending=%d hdrMu=%d", len(cc.streams), cc.streamsReserved, cc.pendingRequests, len(cc.reqHeaderMu))
	}
	if got := cc.inflow.avail + cc.inflow.unsent; got != connInflow0 {
		o.books += fmt.Sprintf(" conn-receive-window=%d(was %d)", got, connInflow0)
	}
	cc.mu.Unlock()
	o.rel = o.books == "" && o.ret != "hung" && o.read != "hung"
	return
}

func c08h2Scenarios() []c08h2Scenario {
	l := []c08h2Scenario{
		{name: "get", respChunks: 2},
		{name: "get-nobody", respNoBody: true},
		{name: "upload", upChunks: 3, respChunks: 1},
		{name: "upload-expect", upChunks: 2, expect: true, respChunks: 1},
		{name: "get-slow-reader", respChunks: 2, slowReader: true},
		{name: "get-slow-reader-closes-unread", respChunks: 2, slowReader: true, closeUnread: true},
		{name: "slotwait-get", slotWait: true, respChunks: 1},
		{name: "slotwait-upload", slotWait: true, upChunks: 1, respNoBody: true},
	}
	if verifh.Thorough() {
		l = append(l, c08h2Scenario{name: "upload-long", upChunks: 6, respChunks: 4},
			c08h2Scenario{name: "upload-expect-nobody", upChunks: 1, expect: true, respNoBody: true})
	}
	return l
}

func TestVerif_C08_h2life(t *testing.T) {
	s := verifh.New(t, "C08", "h2life",
		"a real ClientConn against a frame-level script peer: scenarios {GET with / without response body, upload (one-chunk flow-control window: a wait per chunk), upload with Expect: 100-continue, waiting for the only MAX_CONCURRENT_STREAMS slot} stepped frame by frame; context.WithCancel / an event-driven deadline injected at EVERY event index (slot wait, HEADERS seen, 100 Continue, each flow-control wait, each DATA seen, END_STREAM seen, response headers returned, each response chunk read — or, with a caller that does not read, buffered unread —, complete); observed: the caller's error / the pending body read's error, RST_STREAM frames and codes at the peer, DATA frames arriving after the injection, Close calls on the request body, in-package the connection's books afterwards (no stream, reservation, pending request or header lock left; connection-level receive window whole after the caller drained and closed the body); the outcome must be one the lifecycle model reaches from the replayed state; non-trivial = injection fired")
	cnt := map[string]int{}
	count := func(k string) { cnt[k]++; s.Count(k) }
	for _, sc := range c08h2Scenarios() {
		dry, n := c08h2Run(sc, "canceled", -1)
		if dry.infra != "" {
			s.Observe("h2life/"+sc.name+"/dry", false, "", true, "h2 "+sc.name+" without injection", "un-injected exchange failed: "+dry.infra)
			continue
		}
		count("dry-ok")
		for k := 0; k < n; k++ {
			for _, kind := range []string{"canceled", "deadline"} {
				if !verifh.Thorough() && kind == "deadline" && k%2 == 1 {
					continue
				}
				id := fmt.Sprintf("h2life/%s/%s/%d", sc.name, kind, k)
				s.Begin(id, id)
				o, _ := c08h2Run(sc, kind, k)
				if o.infra != "" || !o.reached || !o.rel || o.late > time.Second {
					// once more: a stalled machine gives the same picture once, a defect again
					count("case-run-again")
					o, _ = c08h2Run(sc, kind, k)
				}
				if o.infra != "" || !o.reached {
					s.Observe(id, false, "", true, id, "injection point not reached: "+o.infra)
					continue
				}
				count("point=" + strings.SplitN(o.point, "#", 2)[0])
				count("ret=" + o.ret)
				if len(o.rst) > 0 {
					count("rst=" + strings.Join(o.rst, "+"))
				} else {
					count("rst=none")
				}
				rst := "-"
				if len(o.rst) > 0 {
					rst = strings.Join(o.rst, "+")
				}
				rel := "0"
				if o.rel {
					rel = "1"
				}
				impl := fmt.Sprintf("ret=%s read=%s closes=%d rst=%s data=%d rel=%s", o.ret, o.read, o.closes, rst, o.data, rel)
				bb := func(x bool) string {
					if x {
						return "1"
					}
					return "0"
				}
				line := fmt.Sprintf("c08h2life %s %s %s %s %s %s", bb(sc.upChunks > 0), bb(sc.expect), bb(sc.respNoBody), strings.Join(o.trace, ","), kind, strings.ReplaceAll(impl, " ", ";"))
				// independent oracle: the property's clauses on the observation alone
				ok := o.rel && o.late <= 2*time.Second && len(o.rst) <= 1 && o.data <= 1
				if sc.upChunks > 0 && o.closes != 1 {
					ok = false
				}
				if o.ret != "resp" && o.ret != kind {
					ok = false
				}
				if o.read != "-" && o.read != kind && o.point != "complete" {
					ok = false
				}
				human := fmt.Sprintf("h2 %s: %s after %s (trace %s) -> %s, latest return %v after the injection", sc.name, kind, o.point, strings.Join(o.trace, ","), impl, o.late.Round(time.Millisecond))
				if o.books != "" {
					human += " BOOKS:" + o.books
				}
				s.Case(line, strings.ReplaceAll(impl, " ", ";"), ok, "", true, human)
			}
		}
	}
	for _, want := range []string{"dry-ok", "point=slotWait", "point=hdrSeen", "point=continued", "point=flowWait", "point=data", "point=endSeen",
		"point=respHdr", "point=respData", "point=respBuffered", "point=complete", "rst=cancel", "rst=none", "ret=canceled", "ret=deadline", "ret=resp"} {
		if cnt[want] == 0 {
			t.Errorf("bucket %s not reached", want)
		}
	}
	s.Finish()
}

// errH2Timeout (ResponseHeaderTimeout on HTTP/2) lives in this package: its answers to errors.Is /
// errors.As vs the model's table (Req/Pool/CancelErr.lean, source h2RespHeaderTimeout).
func TestVerif_C08_h2errclass(t *testing.T) {
	s := verifh.New(t, "C08", "h2errclass",
		"internal/http2's errH2Timeout, bare and wrapped in *url.Error / %w: errors.Is(context.Canceled), errors.Is(context.DeadlineExceeded), net.Error.Timeout() — compared with the model's table; non-trivial = all")
	f := func(b bool) string {
		if b {
			return "1"
		}
		return "0"
	}
	for _, ch := range []string{"-", "u", "b", "ub"} {
		err := errH2Timeout
		for i := 0; i < len(ch) && ch != "-"; i++ {
			err = fmt.Errorf("c08 wrapper %c: %w", ch[i], err)
		}
		var ne net.Error
		to := errors.As(err, &ne) && ne.Timeout()
		got := fmt.Sprintf("c=%s d=%s t=%s", f(errors.Is(err, context.Canceled)), f(errors.Is(err, context.DeadlineExceeded)), f(to))
		s.Case("c08errclass h2RespHeaderTimeout "+ch, got, true, "", true, "errH2Timeout behind "+ch+" -> "+got)
	}
	s.Finish()
}
