//go:build verif

package http2

import (
	"bytes"
	"fmt"
	"math/rand"
	"strings"
	"testing"

	"github.com/imroc/req/v3/internal/dump"
	"github.com/imroc/req/v3/internal/transport"
	"github.com/imroc/req/v3/internal/verifh"
	xh2 "golang.org/x/net/http2"
	"golang.org/x/net/http2/hpack"
)

// c05metaBlock builds one header block (HEADERS + CONTINUATION frames) on stream sid. he/hb are the
// connection's reference encoder (dynamic table shared by the blocks of one connection).
func c05metaBlock(r *rand.Rand, he *hpack.Encoder, hb *bytes.Buffer, sid uint32, survivable bool) (in []byte, frags [][]byte, fields []c05field, kind string, modelable bool, total int) {
	fields, kind = c05fieldList(r)
	if survivable && r.Intn(3) != 0 {
		// a block the connection survives: valid fields, possibly many / long ones (truncation)
		fields = []c05field{{":status", c05pick(r, "200", "204", "404")}}
		for i := 0; i < r.Intn(7); i++ {
			fields = append(fields, c05field{c05pick(r, "x-a", "x-b", "server", "content-type", "x-big"), strings.Repeat("v", c05pick(r, 1, 2, 10, 60, 100, 150))})
		}
		kind = "valid"
	}
	var block []byte
	modelable = true
	switch enc := r.Intn(10); {
	case enc == 0:
		hb.Reset()
		for _, f := range fields {
			he.WriteField(hpack.HeaderField{Name: f.n, Value: f.v, Sensitive: r.Intn(5) == 0})
		}
		block = append([]byte(nil), hb.Bytes()...)
		modelable = false
		kind += "/huffman"
	case enc == 1 && !survivable:
		block = []byte(verifh.RandBytes(r, r.Intn(40), ""))
		modelable = false
		kind = "random-block"
	default:
		for _, f := range fields {
			if f.n == ":status" && f.v == "200" && r.Intn(2) == 0 {
				block = append(block, 0x88)
			} else {
				block = c05hpackField(block, f.n, f.v, r.Intn(3))
			}
		}
		if !survivable {
			switch r.Intn(14) {
			case 0:
				block = append(block, c05pick(r, byte(0x80), 0xff, 0xbe))
				kind += "+badindex"
			case 1:
				if len(block) > 1 {
					block = block[:len(block)-1]
					kind += "+truncblock"
				}
			}
		}
	}
	for _, f := range fields {
		total += len(f.n) + len(f.v) + 32
	}
	nFrag := 1 + r.Intn(3)
	rest := block
	for i := 0; i < nFrag-1; i++ {
		k := 0
		if len(rest) > 0 {
			k = r.Intn(len(rest) + 1)
		}
		frags = append(frags, rest[:k])
		rest = rest[k:]
	}
	frags = append(frags, rest)
	for i, fg := range frags {
		fl := byte(0)
		if i == len(frags)-1 {
			fl |= 4
		}
		if i == 0 {
			if r.Intn(2) == 0 {
				fl |= 1
			}
			in = append(in, c05frame(1, fl, sid, fg)...)
		} else {
			in = append(in, c05frame(9, fl, sid, fg)...)
		}
	}
	return
}

func c05metaSeqFork(fr *Framer, sched []uint32, limit int) []string {
	var out []string
	for i := 0; i < limit; i++ {
		if i%2 == 0 && i/2 < len(sched) {
			fr.MaxHeaderListSize = sched[i/2]
		}
		f, err := fr.ReadFrame()
		if err != nil {
			it := c05errFork(err)
			if f != nil {
				it += "+f"
			}
			out = append(out, it)
			if terminalReadFrameError(err) {
				return out
			}
			continue
		}
		out = append(out, c05renderFork(f))
	}
	return append(out, "limit")
}

func c05metaSeqRef(fr *xh2.Framer, sched []uint32, limit int) []string {
	var out []string
	for i := 0; i < limit; i++ {
		if i%2 == 0 && i/2 < len(sched) {
			fr.MaxHeaderListSize = sched[i/2]
		}
		f, err := fr.ReadFrame()
		if err != nil {
			it := c05errRef(err)
			if f != nil {
				it += "+f"
			}
			out = append(out, it)
			if _, ok := err.(xh2.StreamError); !ok {
				return out
			}
			continue
		}
		out = append(out, c05renderRef(f))
	}
	return append(out, "limit")
}

// TestVerif_C05_h2metaseq: SEQUENCES of header blocks on one Framer / one shared HPACK decoder (one
// connection): what an earlier block leaves behind in the Framer or in the decoder (emit switch,
// maximum string length, dynamic table, lastHeaderStream) must not change how a later block is
// read. Fork vs x/net reference on the whole sequence, and the Lean model of readMetaFrame on
// every block (each block judged from a fresh emit state, events from one independent decoder
// that sees the same blocks in the same order).
func TestVerif_C05_h2metaseq(t *testing.T) {
	s := verifh.New(t, "C05", "h2metaseq",
		"connections of 2..4 header blocks on one Framer with one shared hpack.Decoder, each block followed by a PING; earlier blocks biased to outcomes the connection survives: complete, Truncated (MaxHeaderListSize below the list size) and invalid-in-the-last-fragment (StreamError); MaxHeaderListSize re-set before every block (0, around the block's size, 33, 128, 2^32-1); incremental-indexing literals so that later blocks depend on the dynamic table; blocks from the connection's hpack.Encoder (Huffman) mixed in; fork run without and with a transport dumper; answer per block as in h2meta; non-trivial = a block after the first returned a MetaHeadersFrame")
	r := s.Rand()
	hs := newC05hist(s)
	n := verifh.N(2500, 80000)
	for c := 0; c < n; c++ {
		nb := c05pick(r, 2, 2, 3, 4)
		var hb bytes.Buffer
		he := hpack.NewEncoder(&hb)
		var in []byte
		var sched []uint32
		type blk struct {
			frags     [][]byte
			kind      string
			modelable bool
			sid       uint32
		}
		var blocks []blk
		for k := 0; k < nb; k++ {
			sid := uint32(2*k + 1)
			bin, frags, _, kind, modelable, total := c05metaBlock(r, he, &hb, sid, k < nb-1)
			in = append(in, bin...)
			in = append(in, c05frame(6, 0, 0, []byte("ABCDEFGH"))...)
			sched = append(sched, c05pick(r, uint32(0), 0, uint32(total), uint32(total+1), uint32(max(total-1, 1)), uint32(max(total/2, 1)), uint32(max(total-40, 1)), 33, 128, 1<<32-1))
			blocks = append(blocks, blk{frags, kind, modelable, sid})
		}
		mk := func() *Framer {
			fk := NewFramer(nil, bytes.NewReader(in))
			fk.ReadMetaHeaders = hpack.NewDecoder(4096, nil)
			return fk
		}
		id := fmt.Sprintf("h2metaseq %v %s", sched, c05hex(in))
		s.Begin(id, "")
		var fa []string
		if p, bad := verifh.Safely(func() { fa = c05metaSeqFork(mk(), sched, 2*nb+2) }); bad {
			s.Crash(id, "", p, "")
			continue
		}
		rf := xh2.NewFramer(nil, bytes.NewReader(in))
		rf.ReadMetaHeaders = hpack.NewDecoder(4096, nil)
		ra := c05metaSeqRef(rf, sched, 2*nb+2)
		impl, ref := strings.Join(fa, ";"), strings.Join(ra, ";")
		ok := impl == ref
		why := ""
		if !ok {
			why = " [fork != reference]"
		}
		{ // transport dumper on: same answers
			var out bytes.Buffer
			fk := mk()
			fk.cc = &ClientConn{t: &Transport{Options: &transport.Options{Dump: dump.NewDumper(&c05dumpOpts{out: &out, header: true})}}, streams: map[uint32]*clientStream{}}
			var fd []string
			if p, bad := verifh.Safely(func() { fd = c05metaSeqFork(fk, sched, 2*nb+2) }); bad {
				s.Crash(id+" dump", "", p, "")
				ok = false
			} else if strings.Join(fd, ";") != impl {
				ok = false
				why += " [dumper changes the result: " + c05short(strings.Join(fd, ";")) + "]"
			}
		}
		// per block: model line while the call sequence is aligned (block result, then the PING)
		dec := hpack.NewDecoder(4096, nil)
		aligned := true
		prev := "first"
		for k := 0; k < nb && aligned; k++ {
			if 2*k >= len(fa) {
				break
			}
			first := fa[2*k]
			b := blocks[k]
			isM := strings.HasPrefix(first, "M ")
			isStream := strings.HasPrefix(first, "stream:")
			outcome := "conn"
			switch {
			case isM && strings.HasSuffix(first, " 1"):
				outcome = "truncated"
			case isM:
				outcome = "ok"
			case isStream:
				outcome = "streamerr"
			}
			hs.Count("block-" + outcome)
			if k > 0 {
				hs.Count("seq-after-" + prev + "-" + outcome)
				if sched[k] != sched[k-1] {
					hs.Count("seq-maxlist-changed")
				}
			}
			human := fmt.Sprintf("[conn of %d blocks, block %d (%s) after %s, max=%d] %s -> fork=%s | ref=%s%s", nb, k, b.kind, prev, sched[k], c05short(c05hex(in)), c05short(impl), c05short(ref), why)
			if !b.modelable {
				// (after a block the model lane cannot follow, the later ones are judged fork vs reference only)
				s.Observe(fmt.Sprintf("%s #%d", id, k), ok, "", k > 0 && isM, human, impl+" | "+ref)
				for j := k + 1; j < nb; j++ {
					if 2*j < len(fa) && strings.HasPrefix(fa[2*j], "M ") {
						hs.Count("seq-later-block-ref-only")
					}
				}
				break
			}
			ml := sched[k]
			if ml == 0 {
				ml = 16 << 20
			}
			dec.SetMaxStringLength(int(ml))
			var evParts []string
			failed := false
			for _, fg := range b.frags {
				var evs []string
				dec.SetEmitFunc(func(hf hpack.HeaderField) {
					evs = append(evs, "f:"+verifh.Hex(hf.Name)+":"+verifh.Hex(hf.Value))
				})
				if !failed {
					if _, err := dec.Write(fg); err != nil {
						evs = append(evs, "e")
						failed = true
					}
				}
				evParts = append(evParts, fmt.Sprintf("%d/%s", len(fg), strings.Join(evs, "+")))
			}
			closeErr := false
			if !failed {
				closeErr = dec.Close() != nil
			}
			var ans string
			switch {
			case isM:
				p := strings.Split(first, " ")
				ans = "ok " + p[len(p)-2] + " " + p[len(p)-1]
			default:
				ans = strings.TrimSuffix(first, "+f")
				if isStream {
					q := strings.Split(ans, ":")
					ans = "stream:" + q[2]
				}
			}
			line := fmt.Sprintf("c05h2meta %d %s %s", sched[k], c05b01(closeErr), strings.Join(evParts, ";"))
			s.Case(line, ans, ok, "", k > 0 && isM, human)
			// the next block is aligned only if this one was not terminal and the PING followed
			if outcome == "conn" || 2*k+1 >= len(fa) || !strings.HasPrefix(fa[2*k+1], "PI ") {
				aligned = false
			}
			prev = outcome
		}
	}
	s.Finish()
	hs.Require(t, "seq-after-truncated-ok", "seq-after-truncated-truncated", "seq-after-ok-ok", "seq-after-ok-truncated", "seq-after-streamerr-ok",
		"seq-after-ok-streamerr", "seq-maxlist-changed", "block-conn", "seq-later-block-ref-only")
}
