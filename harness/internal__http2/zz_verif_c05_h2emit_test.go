//go:build verif

package http2

import (
	"bufio"
	"bytes"
	"fmt"
	"io"
	"strings"
	"testing"

	pub "github.com/imroc/req/v3/http2"
	"github.com/imroc/req/v3/internal/dump"
	"github.com/imroc/req/v3/internal/verifh"
	xh2 "golang.org/x/net/http2"
	"golang.org/x/net/http2/hpack"
)

func c05h2ErrKind(err error) string {
	if err == errRequestHeaderListSize {
		return "err:toolarge"
	}
	s := err.Error()
	switch {
	case strings.Contains(s, "invalid Host header"):
		return "err:host"
	case strings.Contains(s, "invalid request :path"):
		return "err:path"
	case strings.Contains(s, "invalid HTTP header"), strings.Contains(s, "invalid HTTP trailer"):
		return "err:header"
	}
	return "err:other"
}

// c05emitConn is one HTTP/2 connection as far as header compression goes: the client's encoder
// and three peers that each see every accepted block exactly once, in order — a plain reference
// HPACK decoder, the reference framer's ReadMetaHeaders decoder and the fork's.
type c05emitConn struct {
	cc      *ClientConn
	dec     *hpack.Decoder
	refMeta *hpack.Decoder
	forkMet *hpack.Decoder
}

func c05newEmitConn(limit uint64) *c05emitConn {
	cc := &ClientConn{peerMaxHeaderListSize: ^uint64(0), t: &Transport{}}
	if limit != 0 {
		cc.peerMaxHeaderListSize = limit
	}
	cc.henc = hpack.NewEncoder(&cc.hbuf)
	return &c05emitConn{cc: cc, dec: hpack.NewDecoder(4096, nil), refMeta: hpack.NewDecoder(4096, nil), forkMet: hpack.NewDecoder(4096, nil)}
}

type c05wireFrame struct {
	typ      uint8
	flags    uint8
	sid      uint32
	length   uint32
	frag     []byte
	prio     [3]uint32 // dep, exclusive, weight
	hasPrio  bool
	endStrm  bool
	endHdrs  bool
	isHeader bool
}

// c05readRaw reads every frame of wire with the REFERENCE framer.
func c05readRaw(wire []byte) ([]c05wireFrame, error) {
	fr := xh2.NewFramer(nil, bytes.NewReader(wire))
	fr.SetMaxReadFrameSize(1<<24 - 1)
	var out []c05wireFrame
	for {
		f, err := fr.ReadFrame()
		if err == io.EOF {
			return out, nil
		}
		if err != nil {
			return out, err
		}
		h := f.Header()
		w := c05wireFrame{typ: uint8(h.Type), flags: uint8(h.Flags), sid: h.StreamID, length: h.Length}
		switch f := f.(type) {
		case *xh2.HeadersFrame:
			w.isHeader = true
			w.frag = append([]byte(nil), f.HeaderBlockFragment()...)
			w.hasPrio = f.HasPriority()
			ex := uint32(0)
			if f.Priority.Exclusive {
				ex = 1
			}
			w.prio = [3]uint32{f.Priority.StreamDep, ex, uint32(f.Priority.Weight)}
			w.endStrm = f.StreamEnded()
			w.endHdrs = f.HeadersEnded()
		case *xh2.ContinuationFrame:
			w.frag = append([]byte(nil), f.HeaderBlockFragment()...)
			w.endHdrs = f.HeadersEnded()
		default:
			return out, fmt.Errorf("unexpected frame type %v", h.Type)
		}
		out = append(out, w)
	}
}

// TestVerif_C05_h2emit: ClientConn.encodeHeaders over the full option matrix, decoded by the
// reference HPACK decoder and compared with the Lean model's field list (fieldsX); the decoded
// section under the request-section check; then the real ClientConn.writeHeaders cuts the block at a
// drawn SETTINGS_MAX_FRAME_SIZE: bytes = model writeBlock, x/net's Framer.ReadFrame sees HEADERS then
// CONTINUATIONs whose fragments concatenate to the block with END_HEADERS on the last one only and no
// payload above the limit, and ReadMetaHeaders (x/net's and the fork's) reassembles exactly the
// decoded field list and accepts it (checkPseudos, field validation).
func TestVerif_C05_h2emit(t *testing.T) {
	s := verifh.New(t, "C05", "h2emit",
		"requests over {no order, header order, pseudo-header order, both} x {plain, cookies (split into crumbs), 20..64 headers, trailers announced (commaSeparatedTrailers), body, no body, HEAD, CONNECT, CONNECT with a Proto (ignored by HTTP/2)}; generator of C01/C16 for the rest; 1..6 consecutive requests share one ClientConn (HPACK encoder with dynamic table) and three in-order peers; peer header-list limit sometimes small (refusal before anything is encoded); every accepted block is written by cc.writeHeaders with max frame size from {1,2,3,5,6,7, len-1, len, len+1, 100, 16384, random}, HEADERS priority zero / non-zero (5 octets count against the limit; below 5 with a priority = Go panic), END_STREAM on/off; oracle: RFC 9113 8.2/8.3.1 section rule + C01 multiset/order oracle + fragmentation rule read through x/net's framer + ReadMetaHeaders of both framers; non-trivial = block produced / frames written")
	r := s.Rand()
	hs := newC05hist(s)
	n := verifh.N(2600, 40000)
	var conn *c05emitConn
	left := 0
	for c := 0; c < n; c++ {
		if left == 0 {
			limit := uint64(0)
			if r.Intn(10) == 0 {
				limit = uint64(verifh.Pick(r, []int{120, 300, 700, 2000}))
			}
			conn = c05newEmitConn(limit)
			left = 1 + r.Intn(6)
		}
		left--
		cc := conn.cc
		tc := verifh.C05GenEmitCase(r, c)
		tc.Limit = 0
		if cc.peerMaxHeaderListSize != ^uint64(0) {
			tc.Limit = cc.peerMaxHeaderListSize
		}
		req, uerr := tc.Request()
		if uerr != nil {
			continue
		}
		human := fmt.Sprintf("h2 [%s/%s] %q %q host=%q trailers=%q hdr=%q cl=%d body=%v/%v gzip=%v limit=%d", tc.Cell, tc.Feature, tc.Method, tc.RawURL, tc.Host, tc.Trailers, tc.Header, tc.CL, tc.HasBody, tc.NoBody, tc.Gzip, tc.Limit)
		trailers, terr := commaSeparatedTrailers(req)
		if terr != nil || trailers != tc.Trailers {
			s.Crash(human, human, fmt.Sprintf("commaSeparatedTrailers = %q, %v; want %q", trailers, terr, tc.Trailers), "")
			continue
		}
		var dumps []*dump.Dumper
		var dumpOut bytes.Buffer
		if r.Intn(4) == 0 {
			dumps = []*dump.Dumper{dump.NewDumper(&c05dumpOpts{out: &dumpOut, header: true})}
		}
		var block []byte
		var err error
		p, bad := verifh.Safely(func() {
			var b []byte
			b, err = cc.encodeHeaders(req, tc.Gzip, trailers, actualContentLength(req), dumps)
			block = append([]byte(nil), b...)
		})
		if bad {
			s.Crash(human, human, p, "")
			continue
		}
		effHost := tc.Host
		if effHost == "" {
			effHost = req.URL.Host
		}
		ans := ""
		ok := true
		var fields [][2]string
		switch {
		case !verifh.C01IsASCII(effHost):
			// outside the model's domain (IDNA); if a block was produced the peers did not see it
			ans = "err:outside"
			left = 0
		case err != nil:
			ans = c05h2ErrKind(err)
		default:
			hf, derr := conn.dec.DecodeFull(block)
			if derr != nil {
				s.Crash(human, human, "reference HPACK decoder rejects the block: "+derr.Error(), "")
				left = 0
				continue
			}
			for _, f := range hf {
				fields = append(fields, [2]string{f.Name, f.Value})
			}
			ans = verifh.C05ShowEmitted(tc.Header, fields)
			if good, why := verifh.C05SectionOK(fields); !good {
				ok = false
				human += " SECTION: " + why
			}
			if tc.Trailers == "" {
				if good, why := verifh.C01FieldOracle("h2", &tc.C01FieldCase, fields); !good {
					ok = false
					human += " ORACLE: " + why
				}
			}
			if dumps != nil && dumpOut.Len() == 0 {
				ok = false
				human += " DUMP: header dumper saw nothing"
			}
		}
		key := strings.SplitN(ans, " ", 2)[0]
		hs.Count(key)
		if key == "ok" {
			hs.Count("cell-" + tc.Cell + "/" + tc.Feature)
			if len(tc.Header[verifh.C01HeaderOrderKey]) > 0 && len(tc.Header[verifh.C01PseudoHeaderOrderKey]) > 0 {
				hs.Count("both-orders-effective")
			}
		}
		s.Case(verifh.C05EmitLine("h2", tc), ans, ok, "", key == "ok", human)
		if key != "ok" {
			continue
		}
		secOK, _ := verifh.C05SectionOK(fields)
		s.Case(verifh.C05ReqSecLine(fields), c05b01(secOK), secOK, "", true, "[section] "+human)

		// ---- the block on the wire: cc.writeHeaders
		sid := uint32(1 + 2*r.Intn(1<<20))
		if r.Intn(8) == 0 {
			sid = verifh.Pick(r, []uint32{1, 3, 1<<31 - 1})
		}
		endStream := r.Intn(2) == 0
		var prio pub.PriorityParam
		if r.Intn(3) == 0 {
			prio = pub.PriorityParam{StreamDep: uint32(r.Intn(1 << 31)), Exclusive: r.Intn(2) == 0, Weight: uint8(r.Intn(256))}
			if r.Intn(4) == 0 {
				prio = verifh.Pick(r, []pub.PriorityParam{{Weight: 1}, {Exclusive: true}, {StreamDep: 1<<31 - 1, Exclusive: true, Weight: 255}, {StreamDep: 1}})
			}
		}
		l := len(block)
		maxFrame := verifh.Pick(r, []int{1, 2, 3, 5, 6, 7, l - 1, l, l + 1, l + 5, l - 5, 100, 16384, 1 + r.Intn(l+10), (l + 1) / 2, (l + 2) / 3})
		if maxFrame < 1 {
			maxFrame = 1
		}
		if l > 1500 && maxFrame < 16 {
			// keep the case line (hex of 9+max bytes per max block bytes) within the driver's line size
			maxFrame += 16
		}
		if !prio.IsZero() && maxFrame < 5 && r.Intn(4) != 0 {
			maxFrame += 5
		}
		var wire bytes.Buffer
		cc.t = &Transport{HeaderPriority: prio}
		cc.bw = bufio.NewWriter(&wire)
		cc.fr = NewFramer(cc.bw, nil)
		cc.werr = nil
		var werr error
		pw, wbad := verifh.Safely(func() { werr = cc.writeHeaders(sid, endStream, maxFrame, block) })
		ex := uint32(0)
		if prio.Exclusive {
			ex = 1
		}
		line := fmt.Sprintf("c05wblock %d %s %d %d %d %d %s", sid, c05b01(endStream), prio.StreamDep, ex, prio.Weight, maxFrame, c05hex(block))
		wh := fmt.Sprintf("[writeHeaders sid=%d endStream=%v prio=%+v max=%d block=%d bytes] %s", sid, endStream, prio, maxFrame, l, human)
		if wbad {
			// the two ReadMetaHeaders peers did not see this block: their dynamic tables are behind
			left = 0
			expected := !prio.IsZero() && maxFrame < 5
			hs.Count("write-panic-small-max-with-priority")
			if !expected {
				s.Crash(wh, wh, pw, "")
				continue
			}
			s.Case(line, "panic", true, "", false, wh)
			continue
		}
		if werr != nil {
			left = 0
			s.Crash(wh, wh, "writeHeaders error: "+werr.Error(), "")
			continue
		}
		wbytes := wire.Bytes()
		// oracle: the fragmentation rule, read through the reference framer
		frames, rerr := c05readRaw(wbytes)
		wok := rerr == nil && len(frames) > 0
		why := ""
		if rerr != nil {
			why = "reference ReadFrame: " + rerr.Error()
		}
		var cat []byte
		for i, f := range frames {
			cat = append(cat, f.frag...)
			switch {
			case f.isHeader != (i == 0):
				wok, why = false, fmt.Sprintf("frame %d: HEADERS/CONTINUATION out of place", i)
			case f.endHdrs != (i == len(frames)-1):
				wok, why = false, fmt.Sprintf("frame %d: END_HEADERS=%v", i, f.endHdrs)
			case int(f.length) > maxFrame:
				wok, why = false, fmt.Sprintf("frame %d: payload %d > max %d", i, f.length, maxFrame)
			case f.sid != sid:
				wok, why = false, fmt.Sprintf("frame %d: stream %d", i, f.sid)
			case i > 0 && len(f.frag) == 0:
				wok, why = false, fmt.Sprintf("frame %d: empty CONTINUATION", i)
			case i == 0 && (f.endStrm != endStream || f.hasPrio != !prio.IsZero() || f.prio != [3]uint32{prio.StreamDep, ex, uint32(prio.Weight)}):
				wok, why = false, "HEADERS frame: END_STREAM / priority differ"
			}
		}
		if wok && !bytes.Equal(cat, block) {
			wok, why = false, "fragments do not concatenate to the block"
		}
		// ReadMetaHeaders of both framers reassembles the decoded list
		meta := func(which string) {
			var got [][2]string
			var merr error
			if which == "ref" {
				fr := xh2.NewFramer(nil, bytes.NewReader(wbytes))
				fr.SetMaxReadFrameSize(1<<24 - 1)
				fr.ReadMetaHeaders = conn.refMeta
				f, e := fr.ReadFrame()
				merr = e
				if mh, isM := f.(*xh2.MetaHeadersFrame); isM && e == nil {
					for _, x := range mh.Fields {
						got = append(got, [2]string{x.Name, x.Value})
					}
					if mh.Truncated {
						merr = fmt.Errorf("truncated")
					}
				} else if e == nil {
					merr = fmt.Errorf("not a MetaHeadersFrame: %T", f)
				}
			} else {
				fr := NewFramer(nil, bytes.NewReader(wbytes))
				fr.SetMaxReadFrameSize(1<<24 - 1)
				fr.ReadMetaHeaders = conn.forkMet
				f, e := fr.ReadFrame()
				merr = e
				if mh, isM := f.(*MetaHeadersFrame); isM && e == nil {
					for _, x := range mh.Fields {
						got = append(got, [2]string{x.Name, x.Value})
					}
					if mh.Truncated {
						merr = fmt.Errorf("truncated")
					}
				} else if e == nil {
					merr = fmt.Errorf("not a MetaHeadersFrame: %T", f)
				}
			}
			if merr != nil {
				wok, why = false, why+" "+which+" ReadMetaHeaders: "+merr.Error()
				return
			}
			if fmt.Sprint(got) != fmt.Sprint(fields) {
				wok, why = false, why+" "+which+" ReadMetaHeaders reassembled a different field list"
			}
		}
		if rerr == nil && len(frames) > 0 {
			meta("ref")
			meta("fork")
		} else {
			// keep the peers' dynamic tables in step is impossible now: start a new connection
			left = 0
		}
		if !wok {
			left = 0
		}
		hs.Count("wrote")
		switch {
		case len(frames) == 1:
			hs.Count("frames-1")
		case len(frames) == 2:
			hs.Count("frames-2")
		case len(frames) > 2:
			hs.Count("frames-3+")
		}
		if !prio.IsZero() {
			hs.Count("with-priority")
			if len(frames) > 0 && len(frames[0].frag) == 0 {
				hs.Count("headers-frame-empty-fragment")
			}
		}
		if maxFrame == 1 {
			hs.Count("max-1")
		}
		if maxFrame == l {
			hs.Count("max-eq-len")
		}
		if why != "" {
			wh += " FRAGMENTATION: " + why
		}
		s.Case(line, c05hex(wbytes), wok, "", true, wh)
	}
	s.Finish()
	var need []string
	for _, cell := range verifh.C05Cells {
		for _, f := range verifh.C05Features {
			need = append(need, "cell-"+cell+"/"+f)
		}
	}
	need = append(need, "ok", "err:host", "err:header", "err:toolarge", "both-orders-effective", "wrote", "frames-1", "frames-2", "frames-3+", "with-priority",
		"headers-frame-empty-fragment", "max-1", "max-eq-len", "write-panic-small-max-with-priority")
	hs.Require(t, need...)
}
