//go:build verif

package http2

// C01 lane h2wire (round 5): ties the byte-level functions of Req/H2/BodyWire.lean (`wire`,
// `readBody` — the functions h2_wire_body_exact is stated about) to the fork's real Framer: the
// frames a request body is cut into (generated as writeRequestBody cuts them: payload sizes within
// SETTINGS_MAX_FRAME_SIZE, END_STREAM on the last one, or — malformed variants — missing, early, on a
// foreign stream) are written with the real Framer.WriteData into a buffer followed by the bytes of
// whatever comes next on the connection, and read back with the real Framer.ReadFrame the way an
// origin collects the request content.

import (
	"bytes"
	"fmt"
	"testing"

	"github.com/imroc/req/v3/internal/verifh"
)

func TestVerif_C01_h2wire(t *testing.T) {
	s := verifh.New(t, "C01", "h2wire",
		"frame sequences as writeRequestBody cuts them (0..6 DATA frames of 0..20000 bytes around 16384, END_STREAM on the last) and malformed variants (no END_STREAM, END_STREAM early, a frame of another stream in between, a frame above the reader's limit), stream ids 1..2^31-1, followed by 0..40 bytes of the next frames on the connection; real Framer.WriteData into a buffer, real Framer.ReadFrame collecting the DATA payloads of the stream up to END_STREAM; compared with the Lean model: every byte written, the payload sizes read, the reassembled content, the number of unread bytes; non-trivial = at least two frames")
	r := s.Rand()
	n := verifh.N(1500, 12000)
	for i := 0; i < n; i++ {
		sid := verifh.Pick(r, []uint32{1, 3, 5, 7, 101, 1<<31 - 1})
		maxRead := verifh.Pick(r, []uint32{16384, 16384, 16385, 20000, 1 << 20})
		ga, gb := 1+r.Intn(250), r.Intn(251)
		var sizes []int
		for k, m := 0, r.Intn(7); k < m; k++ {
			sizes = append(sizes, verifh.Pick(r, []int{0, 1, 2, 100, 4096, 16383, 16384, 16385, 20000}))
		}
		sizes = append(sizes, verifh.Pick(r, []int{0, 0, 1, 5, 16384}))
		total := 0
		for _, z := range sizes {
			total += z
		}
		body := verifh.C01GenBody(total, ga, gb)
		ends := make([]int, len(sizes)) // 0 / 1 END_STREAM; 2 = frame of another stream
		ends[len(ends)-1] = 1
		variant := "well-formed"
		switch r.Intn(10) {
		case 0:
			ends[len(ends)-1] = 0
			variant = "no-end-stream"
		case 1:
			if len(ends) > 1 {
				ends[r.Intn(len(ends)-1)] = 1
				variant = "early-end-stream"
			}
		case 2:
			if len(ends) > 1 {
				ends[r.Intn(len(ends)-1)] = 2
				variant = "foreign-stream"
			}
		}
		tail := []byte(verifh.RandBytes(r, r.Intn(41), ""))
		var buf bytes.Buffer
		fw := NewFramer(&buf, nil)
		off := 0
		werr := error(nil)
		for k, z := range sizes {
			id := sid
			if ends[k] == 2 {
				id = sid + 2
				if id >= 1<<31 {
					id = 1
				}
			}
			if err := fw.WriteData(id, ends[k] == 1, body[off:off+z]); err != nil {
				werr = err
				break
			}
			off += z
		}
		human := fmt.Sprintf("sid=%d maxRead=%d sizes=%v ends=%v (%s) tail=%d", sid, maxRead, sizes, ends, variant, len(tail))
		id := fmt.Sprintf("h2wire-%d", i)
		s.Begin(id, human)
		if werr != nil {
			s.Observe(id, false, "", false, human, "WriteData failed: "+werr.Error())
			continue
		}
		written := append([]byte(nil), buf.Bytes()...)
		full := append(append([]byte(nil), written...), tail...)
		rd := bytes.NewReader(full)
		fr := NewFramer(nil, rd)
		fr.SetMaxReadFrameSize(maxRead)
		var got []int
		var content []byte
		res := ""
		for res == "" {
			f, err := fr.ReadFrame()
			if err != nil {
				res = "none"
				break
			}
			df, ok := f.(*DataFrame)
			if !ok || df.StreamID != sid {
				res = "none"
				break
			}
			got = append(got, len(df.Data()))
			content = append(content, df.Data()...)
			if df.StreamEnded() {
				res = "some"
			}
		}
		impl := "wire " + verifh.C01Blob(written) + " read none"
		if res == "some" {
			impl = fmt.Sprintf("wire %s read %s %s rest=%d", verifh.C01Blob(written), verifh.IntList(got), verifh.C01Blob(content), rd.Len())
		}
		ok, why := true, ""
		if variant == "well-formed" {
			big := false
			for _, z := range sizes {
				if uint32(z) > maxRead {
					big = true
				}
			}
			switch {
			case big:
				s.Count("frame-above-read-limit")
			case res != "some" || !bytes.Equal(content, body) || rd.Len() != len(tail):
				ok, why = false, "a well-formed body was not read back exactly / the bytes behind it were consumed"
			}
		}
		s.Count("variant:" + variant)
		s.Count("read:" + res)
		line := fmt.Sprintf("c01h2wire %d %d gen.%d.%d.%d %s %s %s", sid, maxRead, total, ga, gb, verifh.IntList(sizes), verifh.IntList(ends), verifh.Hex(string(tail)))
		s.Case(line, impl, ok, "", len(sizes) >= 2, human+" -> "+res+" "+why)
	}
	s.Finish()
}
