//go:build verif

package http2

import (
	"fmt"
	"io"
	"net/http"
	"net/url"
	"strings"
	"testing"

	"golang.org/x/net/http2/hpack"

	"github.com/imroc/req/v3/internal/verifh"
)

// c16RunH2 runs the real ClientConn.encodeHeaders and decodes the header block with the
// reference HPACK decoder: the field list in the order a peer receives it.
func c16RunH2(tc *verifh.C01FieldCase) (fields [][2]string, err error, perr string) {
	u, e := url.Parse(tc.RawURL)
	if e != nil {
		return nil, e, "bad-url"
	}
	req := &http.Request{Method: tc.Method, URL: u, Host: tc.Host, Header: tc.Header.Clone(), Proto: "HTTP/1.1", ProtoMajor: 1, ProtoMinor: 1, ContentLength: tc.CL}
	if tc.HasBody {
		if tc.NoBody {
			req.Body = http.NoBody
		} else {
			req.Body = io.NopCloser(strings.NewReader("x"))
		}
	}
	cc := &ClientConn{peerMaxHeaderListSize: ^uint64(0)}
	cc.henc = hpack.NewEncoder(&cc.hbuf)
	var block []byte
	p, bad := verifh.Safely(func() {
		block, err = cc.encodeHeaders(req, tc.Gzip, "", actualContentLength(req), nil)
	})
	if bad {
		return nil, nil, p
	}
	if err != nil {
		return nil, err, ""
	}
	dec := hpack.NewDecoder(4096, nil)
	hf, derr := dec.DecodeFull(block)
	if derr != nil {
		return nil, nil, "reference HPACK decoder rejects the block: " + derr.Error()
	}
	for _, f := range hf {
		fields = append(fields, [2]string{f.Name, f.Value})
	}
	return fields, nil, ""
}

func c16H2ErrKind(err error) string {
	s := err.Error()
	switch {
	case strings.Contains(s, "invalid Host header"):
		return "err:host"
	case strings.Contains(s, "invalid request :path"):
		return "err:path"
	case strings.Contains(s, "invalid HTTP header"):
		return "err:header"
	}
	return "err:other"
}

func c16LaneH2(t *testing.T, s *verifh.Session, profile string, n int, need map[string]int) {
	r := s.Rand()
	for i := 0; i < n; i++ {
		tc := verifh.C01GenFieldCase(r, profile)
		fields, err, perr := c16RunH2(tc)
		human := fmt.Sprintf("h2 %q %q host=%q hdr=%q cl=%d body=%v/%v gzip=%v", tc.Method, tc.RawURL, tc.Host, tc.Header, tc.CL, tc.HasBody, tc.NoBody, tc.Gzip)
		if perr != "" {
			s.Crash(human, human, perr, "")
			continue
		}
		u, _ := url.Parse(tc.RawURL)
		effHost := tc.Host
		if effHost == "" {
			effHost = u.Host
		}
		ans := ""
		ok := true
		class := ""
		switch {
		case !verifh.C01IsASCII(effHost):
			ans = "err:outside"
		case err != nil:
			ans = c16H2ErrKind(err)
		default:
			ans = verifh.C01ShowFields(fields, tc.Header[verifh.C01HeaderOrderKey])
			good, why := verifh.C01FieldOracle("h2", tc, fields)
			if !good {
				ok = false
				human += " ORACLE: " + why
			}
			if verifh.C01PseudoOrderOtherCase(tc.Header[verifh.C01PseudoHeaderOrderKey]) {
				class = "pseudo-order-case"
				need["class:pseudo-order-case"]++
			}
		}
		key := strings.SplitN(ans, " ", 2)[0]
		s.Count(key)
		need[key]++
		if len(tc.Header[verifh.C01HeaderOrderKey]) > 0 && err == nil {
			s.Count("header-order")
			need["header-order"]++
		}
		if len(tc.Header[verifh.C01PseudoHeaderOrderKey]) > 0 && err == nil {
			s.Count("pseudo-order")
			need["pseudo-order"]++
		}
		s.Case(verifh.C01FieldLine("h2", tc), ans, ok, class, err == nil, human)
	}
}

// TestVerif_C16_h2fields: the real HTTP/2 ClientConn.encodeHeaders (header block decoded by the
// reference HPACK decoder, arrival order) vs the Lean field-list model, plus the independent
// field-list oracle (set preserved, bookkeeping keys and connection-specific fields absent,
// pseudo fields first and in the requested order, listed fields in list order).
func TestVerif_C16_h2fields(t *testing.T) {
	s := verifh.New(t, "C16", "h2fields",
		"http.Request values: methods (standard, extension, empty, invalid, CONNECT), URLs (ports, IPv6, escapes, '*', opaque, no host), Host override valid/invalid, 0..60 header keys (canonical/non-canonical spellings of the same name, user-agent/cookie/connection-specific/bookkeeping names, invalid names, 0..3 values, bad values), header order lists (subset/superset/other case/duplicated/full) and pseudo-header order lists (permutations, subsets, supersets, duplicates, other case) in most cases, body unknown/known/NoBody, gzip on/off; non-trivial = a field list was produced")
	need := map[string]int{}
	c16LaneH2(t, s, "order", verifh.N(4000, 80000), need)
	c16LaneH2(t, s, "plain", verifh.N(1500, 30000), need)
	for _, b := range []string{"ok", "err:host", "err:header", "header-order", "pseudo-order"} {
		if need[b] == 0 {
			t.Errorf("lane did not reach bucket %q", b)
		}
	}
	s.Finish()
}
