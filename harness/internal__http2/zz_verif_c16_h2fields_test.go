//go:build verif

package http2

import (
	"fmt"
	"io"
	"net/http"
	"net/url"
	"strings"
	"testing"

	"golang.org/x/net/http2/hpack"

	"github.com/imroc/req/v3/internal/verifh"
)

// c16RunH2 runs the real ClientConn.encodeHeaders and decodes the header block with the
// reference HPACK decoder: the field list in the order a peer receives it.
// c16Conn is one HTTP/2 connection as far as header compression is concerned: the client's
// ClientConn (HPACK encoder + its dynamic table + the peer's advertised header list limit) and
// the peer's HPACK decoder. A sequence of requests shares it, as on a real reused connection.
type c16Conn struct {
	cc  *ClientConn
	dec *hpack.Decoder
}

func c16NewConn(limit uint64) *c16Conn {
	cc := &ClientConn{peerMaxHeaderListSize: ^uint64(0)}
	if limit != 0 {
		cc.peerMaxHeaderListSize = limit
	}
	cc.henc = hpack.NewEncoder(&cc.hbuf)
	return &c16Conn{cc: cc, dec: hpack.NewDecoder(4096, nil)}
}

func c16RunH2(conn *c16Conn, tc *verifh.C01FieldCase) (fields [][2]string, err error, perr string) {
	fields, _, err, perr = c16RunH2Again(conn, tc, false)
	return
}

// c16RunH2Again: as c16RunH2; with again=true the SAME *http.Request is encoded a second time on
// the connection (what RoundTripOpt's retry loop does after a GOAWAY / a refused stream: the
// request object is handed to a connection again) and the second field list is returned too. In
// both modes the request's header map must be left as it was (perr otherwise): a later write of
// the same request has to find the same description, order lists included.
func c16RunH2Again(conn *c16Conn, tc *verifh.C01FieldCase, again bool) (fields, fields2 [][2]string, err error, perr string) {
	u, e := url.Parse(tc.RawURL)
	if e != nil {
		return nil, nil, e, "bad-url"
	}
	req := &http.Request{Method: tc.Method, URL: u, Host: tc.Host, Header: tc.Header.Clone(), Proto: "HTTP/1.1", ProtoMajor: 1, ProtoMinor: 1, ContentLength: tc.CL}
	if tc.HasBody {
		if tc.NoBody {
			req.Body = http.NoBody
		} else {
			req.Body = io.NopCloser(strings.NewReader("x"))
		}
	}
	cc := conn.cc
	var block []byte
	p, bad := verifh.Safely(func() {
		block, err = cc.encodeHeaders(req, tc.Gzip, "", actualContentLength(req), nil)
	})
	if bad {
		return nil, nil, nil, p
	}
	if !verifh.C16SameHeader(req.Header, tc.Header) {
		return nil, nil, nil, fmt.Sprintf("encodeHeaders changed the request's header map: %q -> %q", tc.Header, req.Header)
	}
	if err != nil {
		return nil, nil, err, ""
	}
	// a refused request sends nothing: the peer's decoder only ever sees the blocks of accepted requests
	hf, derr := conn.dec.DecodeFull(append([]byte(nil), block...))
	if derr != nil {
		return nil, nil, nil, "reference HPACK decoder rejects the block: " + derr.Error()
	}
	for _, f := range hf {
		fields = append(fields, [2]string{f.Name, f.Value})
	}
	if again {
		var err2 error
		p, bad := verifh.Safely(func() {
			block, err2 = cc.encodeHeaders(req, tc.Gzip, "", actualContentLength(req), nil)
		})
		if bad {
			return nil, nil, nil, p
		}
		if err2 != nil {
			return nil, nil, nil, "second write of the same request refused: " + err2.Error()
		}
		hf, derr := conn.dec.DecodeFull(append([]byte(nil), block...))
		if derr != nil {
			return nil, nil, nil, "reference HPACK decoder rejects the block of the second write: " + derr.Error()
		}
		for _, f := range hf {
			fields2 = append(fields2, [2]string{f.Name, f.Value})
		}
		if !verifh.C16SameHeader(req.Header, tc.Header) {
			return nil, nil, nil, fmt.Sprintf("the second encodeHeaders changed the request's header map: %q -> %q", tc.Header, req.Header)
		}
	}
	return fields, fields2, nil, ""
}

func c16H2ErrKind(err error) string {
	s := err.Error()
	switch {
	case strings.Contains(s, "invalid Host header"):
		return "err:host"
	case strings.Contains(s, "invalid request :path"):
		return "err:path"
	case strings.Contains(s, "invalid HTTP header"):
		return "err:header"
	case err == errRequestHeaderListSize:
		return "err:toolarge"
	}
	return "err:other"
}

func c16LaneH2(t *testing.T, s *verifh.Session, profile string, n int, need map[string]int) {
	r := s.Rand()
	var conn *c16Conn
	var prev *verifh.C01FieldCase
	left := 0
	for i := 0; i < n; i++ {
		// sequences of 1..16 requests on one connection; a third of the connections have a peer
		// that advertises a small SETTINGS_MAX_HEADER_LIST_SIZE
		if left == 0 {
			var limit uint64
			if r.Intn(3) == 0 {
				limit = uint64(verifh.Pick(r, []int{300, 600, 1000, 2048, 4096}))
			}
			conn = c16NewConn(limit)
			prev = nil
			left = 1 + r.Intn(16)
			need["connections"]++
			need["toolarge-on-this-conn"] = 0
		}
		left--
		var tc *verifh.C01FieldCase
		if prev != nil && r.Intn(3) != 0 {
			tc = verifh.C01MutateFieldCase(r, prev)
		} else {
			tc = verifh.C01GenFieldCase(r, profile)
		}
		if conn.cc.peerMaxHeaderListSize != ^uint64(0) {
			tc.Limit = conn.cc.peerMaxHeaderListSize
		} else {
			tc.Limit = 0
		}
		nb := verifh.C16Neighbourise(r, tc)
		if r.Intn(5) == 0 { // round 7: the value-edge class (white space beyond SP / HTAB at the edges of values)
			if tc.Header == nil {
				tc.Header = http.Header{}
			}
			verifh.C16AddEdgeValues(r, tc.Header)
			s.Count("value-edge-class")
		}
		prev = tc
		again := r.Intn(4) == 0
		fields, fields2, err, perr := c16RunH2Again(conn, tc, again)
		human := fmt.Sprintf("h2 (request %d on its connection, peer limit %d) %q %q host=%q hdr=%q cl=%d body=%v/%v gzip=%v", need["connections"], tc.Limit, tc.Method, tc.RawURL, tc.Host, tc.Header, tc.CL, tc.HasBody, tc.NoBody, tc.Gzip)
		if perr != "" {
			left = 0 // the compression context of this connection is gone
			s.Crash(human, human, perr, "")
			continue
		}
		u, _ := url.Parse(tc.RawURL)
		effHost := tc.Host
		if effHost == "" {
			effHost = u.Host
		}
		ans := ""
		ok := true
		class := ""
		switch {
		case !verifh.C01IsASCII(effHost):
			ans = "err:outside"
		case err != nil:
			ans = c16H2ErrKind(err)
		default:
			ans = verifh.C01ShowFields(fields, tc.Header[verifh.C01HeaderOrderKey])
			good, why := verifh.C01FieldOracle("h2", tc, fields)
			if !good {
				ok = false
				human += " ORACLE: " + why
			}
			if verifh.C01PseudoOrderOtherCase(tc.Header[verifh.C01PseudoHeaderOrderKey]) {
				class = "pseudo-order-case"
				need["class:pseudo-order-case"]++
			}
		}
		key := strings.SplitN(ans, " ", 2)[0]
		s.Count(key)
		need[key]++
		if key == "ok" && need["toolarge-on-this-conn"] > 0 {
			s.Count("ok-after-toolarge")
			need["ok-after-toolarge"]++
		}
		if key == "err:toolarge" {
			need["toolarge-on-this-conn"] = 1
		}
		if key == "ok" && len(nb) > 0 {
			s.Count("bookkeeping-neighbour-names")
			need["bookkeeping-neighbour-names"]++
		}
		if key == "ok" && again {
			// transparent re-send: the second write of the same request object is the same field list
			s.Count("written-twice")
			need["written-twice"]++
			ans2 := verifh.C01ShowFields(fields2, tc.Header[verifh.C01HeaderOrderKey])
			good2, why2 := verifh.C01FieldOracle("h2", tc, fields2)
			s.Observe(fmt.Sprintf("h2-again-%d", i), ans2 == ans && good2, class, false, human,
				fmt.Sprintf("second write of the same *http.Request differs from the first: first %s second %s %s", ans, ans2, why2))
		}
		if left == 0 {
			need["toolarge-on-this-conn"] = 0
		}
		if len(tc.Header[verifh.C01HeaderOrderKey]) > 0 && err == nil {
			s.Count("header-order")
			need["header-order"]++
		}
		if len(tc.Header[verifh.C01PseudoHeaderOrderKey]) > 0 && err == nil {
			s.Count("pseudo-order")
			need["pseudo-order"]++
		}
		s.Case(verifh.C01FieldLine("h2", tc), ans, ok, class, err == nil, human)
	}
}

// TestVerif_C16_h2fields: the real HTTP/2 ClientConn.encodeHeaders (header block decoded by the
// reference HPACK decoder, arrival order) vs the Lean field-list model, plus the independent
// field-list oracle (set preserved, bookkeeping keys and connection-specific fields absent,
// pseudo fields first and in the requested order, listed fields in list order).
func TestVerif_C16_h2fields(t *testing.T) {
	s := verifh.New(t, "C16", "h2fields",
		"http.Request values: methods (standard, extension, empty, invalid, CONNECT), URLs (ports, IPv6, escapes, '*', opaque, no host), Host override valid/invalid, 0..60 header keys (canonical/non-canonical spellings of the same name, user-agent/cookie/connection-specific/bookkeeping names, invalid names, 0..3 values, bad values), header order lists (subset/superset/other case/duplicated/full) and pseudo-header order lists (permutations, subsets, supersets, duplicates, other case) in most cases, body unknown/known/NoBody, gzip on/off; the requests run in SEQUENCES of 1..16 on one connection (one ClientConn = one HPACK encoder with its dynamic table, one reference decoder on the peer side), two thirds of the requests derived from the previous one (shared name/value pairs), a third of the connections with a small peer SETTINGS_MAX_HEADER_LIST_SIZE (300..4096) so that blown-up requests are refused locally (errRequestHeaderListSize) and must leave no trace in what the peer decodes afterwards; non-trivial = a field list was produced")
	need := map[string]int{}
	c16LaneH2(t, s, "order", verifh.N(4000, 80000), need)
	c16LaneH2(t, s, "plain", verifh.N(1500, 30000), need)
	for _, b := range []string{"ok", "err:host", "err:header", "err:toolarge", "ok-after-toolarge", "header-order", "pseudo-order", "bookkeeping-neighbour-names", "written-twice"} {
		if need[b] == 0 {
			t.Errorf("lane did not reach bucket %q", b)
		}
	}
	s.Finish()
}
