//go:build verif

package http2

import (
	"bytes"
	"fmt"
	"math/rand"
	"strings"
	"testing"

	"github.com/imroc/req/v3/internal/verifh"
	"golang.org/x/net/http2/hpack"
)

// c05hpInt writes an RFC 7541 5.1 integer (independent of the Lean model and of x/net's unexported
// appendVarInt); pad > 0 appends that many redundant zero groups (a non-minimal encoding the
// reference reader accepts).
func c05hpInt(dst []byte, n uint, hi byte, i uint64, pad int) []byte {
	k := uint64(1)<<n - 1
	if i < k {
		return append(dst, hi|byte(i))
	}
	dst = append(dst, hi|byte(k))
	i -= k
	for i >= 128 {
		dst = append(dst, byte(i&0x7f)|0x80)
		i >>= 7
	}
	if pad == 0 {
		return append(dst, byte(i))
	}
	dst = append(dst, byte(i)|0x80)
	for j := 1; j < pad; j++ {
		dst = append(dst, 0x80)
	}
	return append(dst, 0)
}

func c05hpStr(dst []byte, s string, pad int) []byte {
	dst = c05hpInt(dst, 7, 0, uint64(len(s)), pad)
	return append(dst, s...)
}

// strings Huffman coding would not shorten (5..30-bit codes: control bytes and high bytes are long)
func c05hpRaw(r *rand.Rand, n int) string {
	b := make([]byte, n)
	for i := range b {
		if r.Intn(2) == 0 {
			b[i] = byte(1 + r.Intn(31))
		} else {
			b[i] = byte(0x80 + r.Intn(128))
		}
	}
	return string(b)
}

func c05hpErr(err error) string {
	m := err.Error()
	switch {
	case strings.Contains(m, "overflow"):
		return "err:overflow"
	case strings.Contains(m, "truncated"):
		return "err:needmore"
	}
	return "err:other:" + m
}

func c05hpShow(fs []hpack.HeaderField) string {
	if len(fs) == 0 {
		return "ok -"
	}
	var p []string
	for _, f := range fs {
		p = append(p, c05b01(f.Sensitive)+":"+verifh.Hex(f.Name)+":"+verifh.Hex(f.Value))
	}
	return "ok " + strings.Join(p, ",")
}

// TestVerif_C05_h2hpackprim ties the Lean model of the HPACK primitives (RFC 7541 5.1 integers, 5.2
// strings with H=0, 6.2.2/6.2.3 literal fields with a new name; theorems hpack_int_roundtrip,
// hpack_block_roundtrip …) to golang.org/x/net/http2/hpack through its exported API.
func TestVerif_C05_h2hpackprim(t *testing.T) {
	s := verifh.New(t, "C05", "h2hpackprim",
		"(enc) hpack.Encoder with dynamic table size 0: 1..5 fields, Sensitive (never indexed, 0x10) or not (without indexing, 0x00), names outside the static table, names/values of bytes Huffman coding does not shorten, lengths 0,1,126,127,128,254,255,256,16383+127,16384+127,20000: the encoder's bytes (after its one table-size update) equal the model's encodeBlock byte for byte; (dec) blocks from an independent RFC 7541 writer with minimal and NON-minimal integers (1..3 redundant zero groups), cut at every offset class, integers with 9/10/11 continuation octets (overflow boundary): hpack.Decoder.DecodeFull vs the model's decodeBlock — same field list incl. the never-indexed flag, or the same error class (truncated / overflow); (idx) 7-bit-prefix integers 1..161 (one, two and padded encodings) as indexed-field representations against a decoder whose dynamic table holds 100 known entries: the entry the reference returns identifies the integer it read = the model's readInt; non-trivial = accepted")
	r := s.Rand()
	hs := newC05hist(s)
	n := verifh.N(2400, 50000)
	lens := []int{0, 1, 2, 5, 126, 127, 128, 129, 254, 255, 256, 300}
	big := []int{16383 + 127 - 1, 16383 + 127, 16384 + 127, 20000}

	// ---- (enc)
	for c := 0; c < n/3; c++ {
		var buf bytes.Buffer
		enc := hpack.NewEncoder(&buf)
		enc.SetMaxDynamicTableSizeLimit(0)
		nf := 1 + r.Intn(5)
		var flags, names, values []string
		skip := false
		for i := 0; i < nf; i++ {
			nl := verifh.Pick(r, lens[:9])
			vl := verifh.Pick(r, lens)
			if r.Intn(40) == 0 {
				vl = verifh.Pick(r, big)
			}
			name := "\x01" + c05hpRaw(r, nl) // never a static-table name
			value := c05hpRaw(r, vl)
			if hpack.HuffmanEncodeLength(name) < uint64(len(name)) || hpack.HuffmanEncodeLength(value) < uint64(len(value)) {
				skip = true
				break
			}
			sens := r.Intn(2) == 0
			if err := enc.WriteField(hpack.HeaderField{Name: name, Value: value, Sensitive: sens}); err != nil {
				skip = true
				break
			}
			flags = append(flags, c05b01(sens))
			names = append(names, name)
			values = append(values, value)
			hs.Count(fmt.Sprintf("enc-len-class-%d", func() int {
				switch {
				case vl < 127:
					return 1
				case vl < 127+128:
					return 2
				case vl < 127+16384:
					return 3
				}
				return 4
			}()))
		}
		if skip {
			hs.Count("enc-skipped-huffman")
			continue
		}
		out := buf.Bytes()
		if len(out) > 0 && out[0] == 0x20 {
			out = out[1:] // the encoder announces its table size 0 once
			hs.Count("enc-table-size-update-stripped")
		}
		// the reference decoder must read its own encoder's bytes back
		back, derr := hpack.NewDecoder(4096, nil).DecodeFull(buf.Bytes())
		ok := derr == nil && len(back) == len(names)
		for i := range back {
			if ok && (back[i].Name != names[i] || back[i].Value != values[i] || c05b01(back[i].Sensitive) != flags[i]) {
				ok = false
			}
		}
		hs.Count("enc")
		s.Case("c05hplit enc "+strings.Join(flags, "")+" "+verifh.HexList(names)+" "+verifh.HexList(values), c05hex(out), ok, "", true,
			fmt.Sprintf("[enc] %d fields, %d bytes", len(names), len(out)))
	}

	// ---- (dec)
	for c := 0; c < n/3; c++ {
		var blk []byte
		nf := r.Intn(5)
		kind := "plain"
		for i := 0; i < nf; i++ {
			pad := func() int {
				if r.Intn(4) == 0 {
					kind = "nonminimal"
					return 1 + r.Intn(3)
				}
				return 0
			}
			ty := verifh.Pick(r, []byte{0x00, 0x10})
			blk = append(blk, ty)
			name := verifh.RandBytes(r, verifh.Pick(r, lens[:9]), "")
			value := verifh.RandBytes(r, verifh.Pick(r, lens), "")
			blk = c05hpStr(blk, name, pad())
			blk = c05hpStr(blk, value, pad())
		}
		switch r.Intn(6) {
		case 0:
			if len(blk) > 0 {
				blk = blk[:r.Intn(len(blk))]
				kind = "cut"
			}
		case 1:
			// a final field whose value length has 9, 10 or 11 continuation octets
			cont := verifh.Pick(r, []int{9, 10, 11})
			blk = append(blk, 0x10, 1, 'n', 0x7f)
			for j := 0; j < cont-1; j++ {
				blk = append(blk, 0x80|byte(r.Intn(2)))
			}
			blk = append(blk, byte(r.Intn(2)))
			kind = fmt.Sprintf("cont-%d", cont)
		}
		fs, err := hpack.NewDecoder(4096, nil).DecodeFull(blk)
		impl := ""
		if err != nil {
			impl = c05hpErr(err)
		} else {
			impl = c05hpShow(fs)
		}
		hs.Count("dec-" + kind)
		hs.Count("dec-" + strings.SplitN(impl, " ", 2)[0])
		s.Case("c05hplit dec "+c05hex(blk), impl, true, "", err == nil && len(fs) > 0, fmt.Sprintf("[dec %s] %s -> %.120s", kind, c05hex(blk), impl))
	}

	// ---- (idx): 7-bit-prefix integers observed through indexed-field representations
	static := map[int]hpack.HeaderField{}
	for i := 1; i <= 61; i++ {
		f, err := hpack.NewDecoder(4096, nil).DecodeFull([]byte{0x80 | byte(i)})
		if err != nil || len(f) != 1 {
			t.Fatalf("static table entry %d: %v", i, err)
		}
		static[i] = f[0]
	}
	dec := hpack.NewDecoder(4096, nil)
	var fill []byte
	for i := 0; i < 100; i++ {
		fill = append(fill, 0x40)
		fill = c05hpStr(fill, fmt.Sprintf("k%d", i), 0)
		fill = c05hpStr(fill, fmt.Sprintf("v%d", i), 0)
	}
	if _, err := dec.DecodeFull(fill); err != nil {
		t.Fatalf("filling the dynamic table: %v", err)
	}
	lookup := func(f hpack.HeaderField) int {
		for i, sf := range static {
			if sf.Name == f.Name && sf.Value == f.Value {
				return i
			}
		}
		var k int
		if _, err := fmt.Sscanf(f.Name, "k%d", &k); err == nil && f.Value == fmt.Sprintf("v%d", k) {
			return 62 + (99 - k)
		}
		return -1
	}
	for c := 0; c < n/3; c++ {
		idx := 1 + r.Intn(161)
		if r.Intn(4) == 0 {
			idx = verifh.Pick(r, []int{1, 61, 62, 126, 127, 128, 161})
		}
		pad := 0
		if idx >= 127 && r.Intn(2) == 0 {
			pad = 1 + r.Intn(4)
		}
		b := c05hpInt(nil, 7, 0x80, uint64(idx), pad)
		fs, err := dec.DecodeFull(b)
		impl := ""
		switch {
		case err != nil:
			impl = c05hpErr(err)
		case len(fs) != 1:
			impl = fmt.Sprintf("fields:%d", len(fs))
		default:
			impl = fmt.Sprintf("ok %d %d", lookup(fs[0]), len(b))
		}
		hs.Count(fmt.Sprintf("idx-bytes-%d", func() int {
			if len(b) > 3 {
				return 3
			}
			return len(b)
		}()))
		s.Case("c05hpint dec 7 "+c05hex(b), impl, err == nil, "", true, fmt.Sprintf("[idx %d pad %d] %s -> %s", idx, pad, c05hex(b), impl))
	}
	s.Finish()
	hs.Require(t, "enc", "enc-table-size-update-stripped", "enc-len-class-1", "enc-len-class-2", "enc-len-class-3", "enc-len-class-4",
		"dec-plain", "dec-nonminimal", "dec-cut", "dec-cont-9", "dec-cont-10", "dec-cont-11", "dec-ok", "dec-err:needmore", "dec-err:overflow",
		"idx-bytes-1", "idx-bytes-2", "idx-bytes-3")
}
