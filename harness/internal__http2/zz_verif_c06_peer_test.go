//go:build verif

package http2

// Shared machinery of the C06 script and monitor lanes: a real ClientConn (Transport.NewClientConn)
// on loopback TCP against a frame-script peer built on golang.org/x/net/http2.Framer + hpack.
// The peer records every frame the client sends; the driver performs one caller/peer operation at
// a time and waits until the client is quiescent before the next one.

import (
	"bytes"
	"context"
	"errors"
	"fmt"
	"io"
	"math"
	"net"
	"net/http"
	"sort"
	"strings"
	"sync"
	"testing"
	"time"

	reqhttp2 "github.com/imroc/req/v3/http2"
	"github.com/imroc/req/v3/internal/transport"
	xhttp2 "golang.org/x/net/http2"
	"golang.org/x/net/http2/hpack"
)

type c06Cfg struct {
	name     string
	settings []reqhttp2.Setting
	connFlow uint32
	prio     []reqhttp2.PriorityFrame
	hdrPrio  reqhttp2.PriorityParam
	strict   bool
}

// line renders the configuration as the arguments of the `c06script` driver lane.
func (c c06Cfg) line() string {
	var st, pr []string
	for _, s := range c.settings {
		st = append(st, fmt.Sprintf("%d=%d", uint16(s.ID), s.Val))
	}
	for _, p := range c.prio {
		pr = append(pr, fmt.Sprint(p.StreamID))
	}
	j := func(l []string, sep string) string {
		if len(l) == 0 {
			return "-"
		}
		return strings.Join(l, sep)
	}
	return fmt.Sprintf("%s %s %d %s %s %d", c06B(c.strict), j(st, "/"), c.connFlow, j(pr, ","), c06B(!c.hdrPrio.IsZero()), 10<<20)
}

// the three impersonation presets of client_impersonate.go (values copied; the e2e use of the
// presets themselves is in the root package's lanes) and the default.
func c06Presets() []c06Cfg {
	S := func(id reqhttp2.SettingID, v uint32) reqhttp2.Setting { return reqhttp2.Setting{ID: id, Val: v} }
	P := func(id, dep uint32, w uint8) reqhttp2.PriorityFrame {
		return reqhttp2.PriorityFrame{StreamID: id, PriorityParam: reqhttp2.PriorityParam{StreamDep: dep, Weight: w}}
	}
	return []c06Cfg{
		{name: "default"},
		{name: "chrome", settings: []reqhttp2.Setting{S(reqhttp2.SettingHeaderTableSize, 65536), S(reqhttp2.SettingEnablePush, 0),
			S(reqhttp2.SettingMaxConcurrentStreams, 1000), S(reqhttp2.SettingInitialWindowSize, 6291456), S(reqhttp2.SettingMaxHeaderListSize, 262144)},
			connFlow: 15663105, hdrPrio: reqhttp2.PriorityParam{StreamDep: 0, Exclusive: true, Weight: 255}},
		{name: "firefox", settings: []reqhttp2.Setting{S(reqhttp2.SettingHeaderTableSize, 65536), S(reqhttp2.SettingInitialWindowSize, 131072),
			S(reqhttp2.SettingMaxFrameSize, 16384)},
			connFlow: 12517377, prio: []reqhttp2.PriorityFrame{P(3, 0, 200), P(5, 0, 100), P(7, 0, 0), P(9, 7, 0), P(11, 3, 0), P(13, 0, 240)},
			hdrPrio: reqhttp2.PriorityParam{StreamDep: 13, Weight: 41}},
		{name: "safari", settings: []reqhttp2.Setting{S(reqhttp2.SettingInitialWindowSize, 4194304), S(reqhttp2.SettingMaxConcurrentStreams, 100)},
			connFlow: 10485760, hdrPrio: reqhttp2.PriorityParam{StreamDep: 0, Weight: 254}},
	}
}

type c06Frame struct {
	str        string // canonical rendering, "" for frames that are not part of the transcript
	typ        xhttp2.FrameType
	id         uint32
	length     int
	end        bool // END_STREAM
	endHeaders bool
	ack        bool
	settings   []xhttp2.Setting
	inc        uint32
	ping       [8]byte
	closed     bool // the client closed the connection (or the read failed)
}

// c06Body is a request body whose Reads are released one at a time by the script.
type c06Body struct {
	mu       sync.Mutex
	remain   int
	limit    int      // the scratch buffer length of this upload (0 = not known yet): see Read
	gate     chan int // n = how many bytes the next Read may return (0 = as many as fit)
	readDone chan int
	closed   chan struct{}
	once     sync.Once
}

func c06NewBody(n int) *c06Body {
	return &c06Body{remain: n, gate: make(chan int, 4), readDone: make(chan int, 4), closed: make(chan struct{})}
}

func (b *c06Body) remaining() int {
	b.mu.Lock()
	defer b.mu.Unlock()
	return b.remain
}

func (b *c06Body) Read(p []byte) (int, error) {
	if b.remaining() == 0 {
		return 0, io.EOF
	}
	var n int
	select {
	case n = <-b.gate:
	case <-b.closed:
		return 0, errors.New("c06: body closed")
	}
	b.mu.Lock()
	k := len(p)
	if b.remain < k {
		k = b.remain
	}
	if n > 0 && n < k {
		k = n
	}
	// writeRequestBody takes its scratch buffer from a sync.Pool and uses a pooled buffer at
	// its full length, which can exceed frameScratchBufferLen (left over from an upload with a
	// larger frame size). How much one Read hands over must not depend on that: never more than
	// the scratch length this upload asked for (the function itself is checked by the flow lane
	// and bridged to the model).
	if b.limit > 0 && b.limit < k {
		k = b.limit
	}
	b.remain -= k
	b.mu.Unlock()
	for i := 0; i < k; i++ {
		p[i] = 'b'
	}
	b.readDone <- k
	return k, nil
}

func (b *c06Body) Close() error {
	b.once.Do(func() { close(b.closed) })
	return nil
}

type c06Resp struct {
	res *http.Response
	err error
}

type c06Stream struct {
	id       uint32
	cs       *clientStream
	cancel   context.CancelFunc
	body     *c06Body
	known    bool
	total    int64
	released int64 // request body bytes handed to the writer
	recvd    int64 // DATA bytes seen by the peer
	hdrLen   int   // header block length measured on the wire
	hdrDone  bool
	endSeen  bool // END_STREAM from the client
	rstSeen  bool
	aborted  bool  // the script cancelled / reset / closed it
	win      int64 // the client's send window on this stream by the peer's books
	cwin     int64 // the peer's send window towards the client on this stream
	respCh   chan c06Resp
	stCh     chan *clientStream
	res      *http.Response
	gotRes   bool
	phSent   int
	peerEnd  bool
	noBody   bool
	buffered int64 // response data sent minus read by the caller
	closedB  bool  // Body.Close called
	tokIdx   int   // index of the `o` token of this stream in the executed script

	head     bool // HEAD request
	trailer  int  // -1: Request.Trailer nil; else the length of the declared trailer's value
	trlLen   int  // trailer block length measured on the wire
	trlOpen  bool // a trailer block is being received (HEADERS seen, END_HEADERS not yet)
	trlSeen  bool
	gotFinal bool          // the final (non-1xx) response headers have been sent
	n1xx     int           // informational responses sent so far
	remain   int64         // Content-Length still to be read (-1: none declared)
	readErr  bool          // a Read hit "more than declared Content-Length"
	extended bool          // the stream needs the long form of the open token
	hookGate chan struct{} // non-nil: writeRequest is held between stream id allocation and the HEADERS write
	cut      int           // >= 0: the request was cancelled after that many octets of its header block (openCancel)
}

// reqDone: the client considers the request written - it has sent END_STREAM, or the request has
// no body (then it marks the stream as ended whatever its HEADERS frame said: finding
// c06-trailers-without-body).
func (st *c06Stream) reqDone() bool { return st.endSeen || st.body == nil }

func (st *c06Stream) dead() bool {
	if st.cs == nil {
		return true
	}
	select {
	case <-st.cs.donec:
		return true
	default:
		return false
	}
}

type c06Env struct {
	t       testing.TB
	cfg     c06Cfg
	tr      *Transport
	cc      *ClientConn
	srv     net.Conn
	fr      *xhttp2.Framer
	frames  chan c06Frame
	henc    *hpack.Encoder
	hbuf    bytes.Buffer
	streams map[uint32]*c06Stream
	order   []uint32
	pending *c06Stream // a RoundTrip blocked on MAX_CONCURRENT_STREAMS (strict mode)
	opened  []*c06Stream

	// the peer's books
	pendSettings    [][]xhttp2.Setting
	initWin         int64 // acknowledged SETTINGS_INITIAL_WINDOW_SIZE
	connWin         int64 // the client's connection-level send window
	maxConc         int64 // acknowledged MAX_CONCURRENT_STREAMS (-1 = none)
	maxFrame        int64 // acknowledged MAX_FRAME_SIZE
	cInitWin        int64 // advertised by the client
	cConnWin        int64 // the peer's connection-level send window towards the client
	cSent           int64 // flow-controlled bytes the peer has sent (data + padding)
	cCredited       int64 // connection-level WINDOW_UPDATE increments received after the preface
	ackSeen         int
	acksSent        int
	pingSeq         uint64
	pingAcked       uint64
	scriptPings     uint64 // PINGs sent by the script (payload c06ScriptPing + n)
	scriptPingAcked uint64
	closed          bool
	goAwaySent      bool
	noReuse         bool

	noForcedWake bool // wake-up lane: do not broadcast on cc.cond after every operation
	lostWakeups  []string
	curTok       string // the operation in progress (for diagnostics)
	settingsSent bool   // the peer has sent its first SETTINGS frame
	exactHits    int    // adaptive scripts: header / trailer blocks of exactly the targeted length

	glue     *c06GlueWriter // the peer's writer: can keep a SETTINGS frame back so that it leaves in one segment with the next frame
	glueWant int            // > 0: acknowledgements that must have been seen once the glued segment was handled
	gluedOps int

	lateWant bool   // closeBody under a held cc.wmu is followed by peer DATA on the closed stream (lateData)
	lateTok  string // the pd token of that frame ("" = not sent)
	lateW    int64  // the connection-level WINDOW_UPDATE it sets off
	lateHits int

	gate      *c06Gate // between the ClientConn and the socket: parks a writer inside a frame write
	holding   bool     // a body writer is parked inside a DATA frame (cc.wmu held): see feedHeld
	holdSnap  inflow
	heldCount int

	deadSeen int
	woke     bool     // the operation in progress ends with a cond.Broadcast in the client
	cur      []string // frames of the operation in progress
	timeouts int
	hist     []string // full event history (monitor lane)
	histMu   sync.Mutex
}

const c06Wait = 2 * time.Second

// payloads of scripted PINGs start here; smaller ones are the harness's barrier PINGs
const c06ScriptPing = uint64(1) << 40

func c06NewEnv(t testing.TB, cfg c06Cfg) (*c06Env, error) {
	ln, err := net.Listen("tcp", "127.0.0.1:0")
	if err != nil {
		return nil, err
	}
	defer ln.Close()
	type acc struct {
		c   net.Conn
		err error
	}
	ach := make(chan acc, 1)
	go func() {
		c, err := ln.Accept()
		ach <- acc{c, err}
	}()
	cli, err := net.Dial("tcp", ln.Addr().String())
	if err != nil {
		return nil, err
	}
	a := <-ach
	if a.err != nil {
		cli.Close()
		return nil, a.err
	}
	e := &c06Env{t: t, cfg: cfg, srv: a.c, frames: make(chan c06Frame, 4096), streams: map[uint32]*c06Stream{},
		initWin: 65535, connWin: 65535, maxConc: -1, maxFrame: 16384, cInitWin: 65535, cConnWin: 65535}
	e.henc = hpack.NewEncoder(&e.hbuf)
	// the client may advertise SETTINGS_HEADER_TABLE_SIZE = 0 (or anything else): the peer's
	// encoder does without a dynamic table altogether (a table size update to 0 opens its first
	// header block), so repeated response fields are never sent as references
	e.henc.SetMaxDynamicTableSize(0)
	e.glue = &c06GlueWriter{w: e.srv}
	e.fr = xhttp2.NewFramer(e.glue, e.srv)
	e.fr.AllowIllegalReads = true
	e.fr.AllowIllegalWrites = true
	e.fr.SetMaxReadFrameSize(1<<24 - 1)
	go e.readLoop()
	e.tr = &Transport{Options: &transport.Options{DisableCompression: true}, Settings: cfg.settings, ConnectionFlow: cfg.connFlow,
		PriorityFrames: cfg.prio, HeaderPriority: cfg.hdrPrio, StrictMaxConcurrentStreams: cfg.strict}
	e.gate = c06NewGate(cli)
	cc, err := e.tr.NewClientConn(e.gate)
	if err != nil {
		e.srv.Close()
		return nil, err
	}
	e.cc = cc
	return e, nil
}

// c06GlueWriter is the peer's side of the socket. While hold is set, what the framer writes is
// kept back; the next write after hold was cleared carries it in front, in ONE Write call (one
// TCP segment on loopback: both frames are in the client's bufio.Reader when the first one is
// handled).
type c06GlueWriter struct {
	w    io.Writer
	hold bool
	buf  []byte
}

func (g *c06GlueWriter) Write(p []byte) (int, error) {
	if g.hold {
		g.buf = append(g.buf, p...)
		return len(p), nil
	}
	if len(g.buf) > 0 {
		b := append(g.buf, p...)
		g.buf = nil
		if _, err := g.w.Write(b); err != nil {
			return 0, err
		}
		return len(p), nil
	}
	return g.w.Write(p)
}

func (e *c06Env) shutdown() {
	for _, st := range e.streams {
		if st.cancel != nil {
			st.cancel()
		}
		if st.body != nil {
			st.body.Close()
		}
	}
	if e.pending != nil && e.pending.cancel != nil {
		e.pending.cancel()
	}
	if e.cc != nil {
		e.cc.Close()
	}
	e.srv.Close()
}

func c06Flag(b bool, c string) string {
	if b {
		return c
	}
	return "-"
}

func (e *c06Env) readLoop() {
	pre := make([]byte, len(xhttp2.ClientPreface))
	if _, err := io.ReadFull(e.srv, pre); err != nil || string(pre) != xhttp2.ClientPreface {
		e.frames <- c06Frame{closed: true, str: "X"}
		return
	}
	for {
		f, err := e.fr.ReadFrame()
		if err != nil {
			e.frames <- c06Frame{closed: true, str: "X"}
			return
		}
		h := f.Header()
		out := c06Frame{typ: h.Type, id: h.StreamID, length: int(h.Length)}
		switch f := f.(type) {
		case *xhttp2.SettingsFrame:
			if f.IsAck() {
				out.ack = true
				out.str = "A"
			} else {
				var parts []string
				f.ForeachSetting(func(s xhttp2.Setting) error {
					out.settings = append(out.settings, s)
					parts = append(parts, fmt.Sprintf("%d=%d", uint16(s.ID), s.Val))
					return nil
				})
				out.str = "S" + strings.Join(parts, "/")
			}
		case *xhttp2.WindowUpdateFrame:
			out.inc = f.Increment
			out.str = fmt.Sprintf("W%d+%d", h.StreamID, f.Increment)
		case *xhttp2.PriorityFrame:
			out.str = fmt.Sprintf("P%d", h.StreamID)
		case *xhttp2.HeadersFrame:
			out.end, out.endHeaders = f.StreamEnded(), f.HeadersEnded()
			out.str = fmt.Sprintf("H%d:%d:%s%s", h.StreamID, h.Length, c06Flag(out.end, "e"), c06Flag(out.endHeaders, "h"))
		case *xhttp2.ContinuationFrame:
			out.endHeaders = f.HeadersEnded()
			out.str = fmt.Sprintf("C%d:%d:%s", h.StreamID, h.Length, c06Flag(out.endHeaders, "h"))
		case *xhttp2.DataFrame:
			out.end = f.StreamEnded()
			out.str = fmt.Sprintf("D%d:%d:%s", h.StreamID, h.Length, c06Flag(out.end, "e"))
		case *xhttp2.RSTStreamFrame:
			out.str = fmt.Sprintf("R%d", h.StreamID)
		case *xhttp2.PingFrame:
			out.ack = f.IsAck()
			out.ping = f.Data
			if !out.ack {
				out.str = "PING"
			}
		case *xhttp2.GoAwayFrame:
			out.str = "G"
		default:
			out.str = fmt.Sprintf("?%d", h.Type)
		}
		e.frames <- out
	}
}

func (e *c06Env) record(ev string) {
	e.histMu.Lock()
	e.hist = append(e.hist, ev)
	e.histMu.Unlock()
}

// handle books one client frame.
func (e *c06Env) handle(f c06Frame) {
	if f.closed {
		if !e.closed {
			e.closed = true
			e.cur = append(e.cur, "X")
		}
		return
	}
	if f.typ == xhttp2.FramePing && f.ack {
		var v uint64
		for i := 0; i < 8; i++ {
			v = v<<8 | uint64(f.ping[i])
		}
		if v < c06ScriptPing { // a barrier PING of the harness: not part of the transcript
			e.pingAcked = v
			return
		}
		f.str = fmt.Sprintf("Y%d", v)
		e.scriptPingAcked = v
	}
	if f.str != "" {
		e.cur = append(e.cur, f.str)
		e.record(f.str)
	}
	switch f.typ {
	case xhttp2.FrameSettings:
		if f.ack {
			e.ackSeen++
			if len(e.pendSettings) > 0 {
				vals := e.pendSettings[0]
				e.pendSettings = e.pendSettings[1:]
				for _, s := range vals {
					switch s.ID {
					case xhttp2.SettingInitialWindowSize:
						d := int64(s.Val) - e.initWin
						for _, st := range e.streams {
							st.win += d
						}
						e.initWin = int64(s.Val)
					case xhttp2.SettingMaxConcurrentStreams:
						e.maxConc = int64(s.Val)
					case xhttp2.SettingMaxFrameSize:
						e.maxFrame = int64(s.Val)
					}
				}
			}
		} else {
			for _, s := range f.settings {
				if s.ID == xhttp2.SettingInitialWindowSize {
					e.cInitWin = int64(s.Val)
				}
			}
		}
	case xhttp2.FrameWindowUpdate:
		if f.id == 0 {
			e.cConnWin += int64(f.inc)
			if e.cSent > 0 { // the preface's WINDOW_UPDATE raises the window, it returns nothing
				e.cCredited += int64(f.inc)
			}
		} else if st := e.streams[f.id]; st != nil {
			st.cwin += int64(f.inc)
		}
	case xhttp2.FrameHeaders, xhttp2.FrameContinuation:
		if e.streams[f.id] == nil && e.pending != nil {
			// a RoundTrip that was waiting for a slot went ahead: its stream is known by now
			select {
			case cs := <-e.pending.stCh:
				st := e.pending
				e.pending = nil
				e.register(st, cs)
			case <-time.After(c06Wait):
			}
		}
		if st := e.streams[f.id]; st != nil {
			n := f.length
			if f.typ == xhttp2.FrameHeaders && !e.cfg.hdrPrio.IsZero() {
				n -= 5
			}
			if st.hdrDone && (f.typ == xhttp2.FrameHeaders || st.trlOpen) {
				// a second header block on the stream: the request's trailers
				st.trlLen += n
				st.trlSeen = true
				st.trlOpen = !f.endHeaders
			} else {
				st.hdrLen += n
				if f.endHeaders {
					st.hdrDone = true
				}
			}
			if f.end {
				st.endSeen = true
			}
		}
	case xhttp2.FrameData:
		e.connWin -= int64(f.length)
		if st := e.streams[f.id]; st != nil {
			st.recvd += int64(f.length)
			st.win -= int64(f.length)
			if f.end {
				st.endSeen = true
			}
		}
	case xhttp2.FrameRSTStream:
		if st := e.streams[f.id]; st != nil {
			st.rstSeen = true
		}
	}
}

// collect reads client frames until pred holds; reports false on timeout.
func (e *c06Env) collect(pred func() bool, d time.Duration) bool {
	deadline := time.NewTimer(d)
	defer deadline.Stop()
	for {
		// drain what is already there first
		for {
			select {
			case f := <-e.frames:
				e.handle(f)
				continue
			default:
			}
			break
		}
		if e.closed || pred() {
			return true
		}
		select {
		case f := <-e.frames:
			e.handle(f)
		case <-deadline.C:
			e.timeouts++
			e.cur = append(e.cur, "T")
			return false
		case <-time.After(2 * time.Millisecond):
			// predicates may depend on state outside the frame stream (donec, pending requests)
		}
	}
}

// sync: everything the client wrote before answering this PING has been received.
func (e *c06Env) sync() {
	if e.closed || !e.settingsSent {
		return // (the client insists on SETTINGS as the peer's first frame: no barrier PING before it)
	}
	e.pingSeq++
	var d [8]byte
	for i := 0; i < 8; i++ {
		d[i] = byte(e.pingSeq >> (56 - 8*uint(i)))
	}
	if err := e.fr.WritePing(false, d); err != nil {
		return
	}
	e.collect(func() bool { return e.pingAcked == e.pingSeq }, c06Wait)
}

// settled: by the peer's own books no body writer can send anything more right now.
func (e *c06Env) settled() bool {
	for _, id := range e.order {
		st := e.streams[id]
		if st.aborted || st.rstSeen || !st.hdrDone || st.body == nil {
			continue
		}
		if st.dead() {
			// finished normally (nobody aborted it, no RST_STREAM seen): everything it was handed
			// has been written, but donec closes in-process before the last frames have crossed
			// the connection. Wait for them: a barrier PING sent into a connection the client is
			// about to close (idle close) would reset it and lose them.
			if st.recvd < st.released || !st.endSeen {
				return false
			}
			continue
		}
		if st.released > st.recvd {
			w := st.win
			if e.connWin < w {
				w = e.connWin
			}
			if w > 0 {
				return false
			}
			continue
		}
		if st.released == st.total && (!st.endSeen || st.trlOpen) {
			return false // END_STREAM (on the last DATA, an empty DATA, or the trailers) is still to come
		}
	}
	return true
}

func (e *c06Env) waitDone(st *c06Stream) {
	if st == nil || st.cs == nil {
		return
	}
	e.collect(func() bool { return st.dead() }, c06Wait)
}

// afterOp: the common tail of every operation.
func (e *c06Env) afterOp(forgot bool) {
	if e.glueWant > 0 && !e.glue.hold && len(e.glue.buf) == 0 {
		// a SETTINGS frame travelled in front of this operation's frame: it must be acknowledged
		// on the strength of that segment alone - before the barrier PING below makes the client
		// write (RFC 9113 section 6.5.3: "MUST immediately emit a SETTINGS frame with the ACK flag")
		want := e.glueWant
		e.glueWant = 0
		e.collect(func() bool { return e.ackSeen >= want }, c06Wait)
	}
	e.collect(e.settled, c06Wait)
	for _, st := range e.streams {
		if !st.gotRes {
			select {
			case r := <-st.respCh:
				st.gotRes, st.res = true, r.res
			default:
			}
		}
	}
	// a stream that is closed on both sides is forgotten
	for _, id := range e.order {
		st := e.streams[id]
		if !st.aborted && st.reqDone() && st.peerEnd && st.cs != nil {
			if !st.dead() {
				e.waitDone(st)
			}
		}
	}
	dead := len(e.streams) - e.liveCount()
	if dead > e.deadSeen {
		forgot = true // e.g. the last DATA of an upload whose response was already complete
	}
	e.deadSeen = dead
	e.woke = false
	if e.pending != nil {
		// the client must have processed everything the peer sent in this operation before the
		// waiting RoundTrip is woken and before we ask what it is going to find (a GOAWAY still
		// in flight would otherwise be seen by us and not by the woken waiter)
		e.sync()
		e.resumePending(forgot)
		e.collect(e.settled, c06Wait) // a RoundTrip that just went ahead may have more to write
	}
	e.sync()
	if (e.goAwaySent || e.noReuse) && forgot && e.liveCount() == 0 && !e.closed {
		// closeOnIdle: the client closes the connection with its last stream
		e.collect(func() bool { return e.closed }, c06Wait)
	}
}

func (e *c06Env) liveCount() int {
	n := 0
	for _, st := range e.streams {
		if !st.dead() {
			n++
		}
	}
	return n
}

// take returns and clears the frames of the finished operation.
func (e *c06Env) take(sorted bool) string {
	fs := e.cur
	e.cur = nil
	x, tmo := false, false
	var out []string
	for _, f := range fs {
		switch f {
		case "X":
			x = true
		case "T":
			tmo = true
		default:
			out = append(out, f)
		}
	}
	if sorted {
		// frames of one stream keep their order; the order between streams is not compared
		sort.SliceStable(out, func(i, j int) bool { return c06StreamOf(out[i]) < c06StreamOf(out[j]) })
	}
	s := "-"
	if len(out) > 0 {
		s = strings.Join(out, ",")
	}
	if x {
		s += ",X"
	}
	if tmo {
		s += ",T"
	}
	return s
}

// c06StreamOf extracts the stream id of a rendered frame (0 for connection-level frames).
func c06StreamOf(f string) int {
	if f == "" || f[0] == 'S' || f[0] == 'A' || f[0] == 'G' {
		return 0
	}
	n := 0
	for _, c := range f[1:] {
		if c < '0' || c > '9' {
			break
		}
		n = n*10 + int(c-'0')
	}
	return n
}

// creditOwed: connection-level credit the client still owes the peer at quiescence, beyond what
// sits unread in response bodies (by the harness's own books). flow.go's refresh rule keeps it
// below inflowMinRefresh.
func (e *c06Env) creditOwed() int64 {
	owed := e.cSent - e.cCredited
	for _, st := range e.streams {
		owed -= st.buffered
	}
	return owed
}

// ---- caller operations

// c06Shape is what a scripted request looks like beyond its body: method HEAD, declared
// trailers (trailer < 0: none; else one trailer field whose value has that many octets, 0 = the
// key is declared but has no value when the upload ends).
type c06Shape struct {
	head    bool
	trailer int
	delay   bool // the hook between stream id allocation and the HEADERS write blocks until released
}

func (e *c06Env) startRoundTrip(bodyLen int, known bool, padLen int, sh c06Shape) *c06Stream {
	ctx, cancel := context.WithCancel(context.Background())
	st := &c06Stream{cancel: cancel, known: known, total: int64(bodyLen), respCh: make(chan c06Resp, 1), stCh: make(chan *clientStream, 1),
		head: sh.head, trailer: sh.trailer, remain: -1, extended: sh.head || sh.trailer >= 0, cut: -1}
	var body io.ReadCloser
	if !(known && bodyLen == 0) {
		st.body = c06NewBody(bodyLen)
		body = st.body
	}
	method := "POST"
	if sh.head {
		method = "HEAD"
	}
	req, err := http.NewRequestWithContext(ctx, method, "https://verif.test/upload", body)
	if err != nil {
		panic(err)
	}
	if known {
		req.ContentLength = int64(bodyLen)
	}
	if sh.trailer >= 0 {
		var vals []string
		if sh.trailer > 0 {
			vals = []string{strings.Repeat("~", sh.trailer)}
		}
		req.Trailer = http.Header{"X-Trl": vals}
	}
	if padLen > 0 {
		req.Header.Set("X-Pad", strings.Repeat("~", padLen)) // '~' has a 13-bit Huffman code: the literal is sent raw
	}
	if sh.delay {
		st.hookGate = make(chan struct{})
	}
	go func() {
		res, err := e.cc.roundTrip(req, func(cs *clientStream) {
			st.stCh <- cs
			if st.hookGate != nil {
				<-st.hookGate
			}
		})
		st.respCh <- c06Resp{res, err}
	}()
	return st
}

func (e *c06Env) register(st *c06Stream, cs *clientStream) {
	st.cs = cs
	if st.body != nil {
		// writeRequestBody sizes its scratch buffer from the peer's MAX_FRAME_SIZE right after the
		// header write; by the peer's books that is the last acknowledged value (the script is
		// quiescent around an open, so nothing is in flight)
		mf := int(e.maxFrame)
		st.body.mu.Lock()
		st.body.limit = cs.frameScratchBufferLen(mf)
		st.body.mu.Unlock()
	}
	st.id = cs.ID
	st.win = e.initWin
	st.cwin = e.cInitWin
	e.streams[st.id] = st
	e.order = append(e.order, st.id)
}

// openToken renders the `o` token of a stream with the header block length measured so far
// (and the trailer block length, when one was seen: else what the encoder would produce).
func (st *c06Stream) openToken() string {
	if !st.extended {
		return fmt.Sprintf("o:%d:%d:%s", st.hdrLen, st.total, c06B(st.known))
	}
	tr := "-"
	if st.trailer >= 0 {
		n := st.trlLen
		if !st.trlSeen && st.trailer > 0 {
			n = c06TrailerBlockLen(st.trailer)
		}
		tr = fmt.Sprint(n)
	}
	if st.cut >= 0 {
		return fmt.Sprintf("oc:%d:%d:%s:%s:%s:%d", st.hdrLen, st.total, c06B(st.known), c06B(st.head), tr, st.cut)
	}
	return fmt.Sprintf("oq:%d:%d:%s:%s:%s", st.hdrLen, st.total, c06B(st.known), c06B(st.head), tr)
}

// c06TrailerBlockLen: the HPACK encoding of the one trailer field "x-trl: ~…~" (n octets, sent
// raw: '~' has a 13-bit Huffman code) as a literal with a new name - used only for trailers that
// were never written (the model is then not asked to split them).
func c06TrailerBlockLen(n int) int {
	l := 1 + 1 + 5 // prefix octet, name length, "x-trl"
	switch {
	case n < 127:
		l += 1
	case n < 127+128:
		l += 2
	case n < 127+16384:
		l += 3
	default:
		l += 4
	}
	return l + n
}

// slotLimit is MAX_CONCURRENT_STREAMS as the client must see it by the peer's own books: the
// value of the last acknowledged SETTINGS frame that carried one, else the client's defaults
// (100 before the first SETTINGS frame, 1000 after a first SETTINGS frame without one).
func (e *c06Env) slotLimit() int64 {
	if e.maxConc >= 0 {
		return e.maxConc
	}
	if e.ackSeen > 0 {
		return 1000
	}
	return 100
}

// open returns the op token ("o:<hdrLen>:<bodyLen>:<known>").
func (e *c06Env) open(bodyLen int, known bool, padLen int, sh c06Shape) string {
	st := e.startRoundTrip(bodyLen, known, padLen, sh)
	e.opened = append(e.opened, st)
	// strict mode at the stream limit: the RoundTrip has to wait for a slot. That is what the
	// peer's books say must happen; a client that goes ahead anyway shows up at once.
	mustWait := e.cfg.strict && int64(e.liveCount()) >= e.slotLimit() && !e.goAwaySent && !e.noReuse && !e.closed
	patience := c06Wait
	if mustWait {
		patience = 5 * time.Millisecond
	}
	select {
	case cs := <-st.stCh:
		e.register(st, cs)
	case r := <-st.respCh:
		st.gotRes, st.res = true, r.res // refused: errClientConnUnusable
	case <-time.After(patience):
		if mustWait {
			e.pending = st
		}
	}
	if st.cs != nil {
		e.collect(func() bool { return st.hdrDone }, c06Wait)
	} else if e.pending == nil && !st.gotRes {
		e.timeouts++
		e.cur = append(e.cur, "T")
	}
	e.afterOp(false)
	return st.openToken()
}

// resumePending: a RoundTrip blocked on the stream limit (strict mode) sleeps on cc.cond. Which
// client operations happen to broadcast on that condition variable is not part of the property
// (and a wake-up may come from anywhere, Body.Close of a long finished stream included), so the
// lane does not try to predict it: after EVERY operation it broadcasts itself (a spurious wake-up,
// legal for every cond.Wait loop) and then reads, under cc.mu, what the woken waiter is going to
// find: no longer usable / a free slot => it leaves awaitOpenSlotForStreamLocked and we wait for
// it; otherwise it goes back to sleep. The model does the same (`scriptStep`: op, `wake`, pump),
// so the step in which the waiting request goes ahead is determined.
func (e *c06Env) resumePending(bool) {
	st := e.pending
	if st == nil {
		return
	}
	if e.noForcedWake {
		// wake-up lane: nobody broadcasts for the client. By the peer's books a slot is free and the
		// connection can still take requests: the operation that made it so must have woken the
		// waiter itself, i.e. the waiter's HEADERS are on their way (the barrier PING of afterOp has
		// been answered: everything the client wrote while processing the operation has arrived; a
		// woken RoundTrip needs one more scheduling round; the patience is the lane's usual one, so a
		// loaded machine cannot turn a slow wake-up into a lost one).
		usable := e.cc.CanTakeNewRequest() && !e.closed
		enabled := usable && int64(e.liveCount()) < e.slotLimit()
		if usable && !enabled {
			return // still at the limit: it sleeps on
		}
		// (not usable any more: the waiter is going to fail whenever it wakes; wake it now, as the
		// model does, so that the script is rid of it)
		if enabled {
			deadline := time.Now().Add(c06Wait)
			for time.Now().Before(deadline) && e.pending != nil {
				select {
				case cs := <-st.stCh:
					e.pending = nil
					e.register(st, cs)
					e.collect(func() bool { return st.hdrDone }, c06Wait)
					e.collect(e.settled, c06Wait)
					return
				case <-time.After(time.Millisecond):
				}
			}
			if e.pending == nil {
				return
			}
			e.lostWakeups = append(e.lostWakeups, e.curTok)
			// carry on as the repaired code would: wake it
		}
	}
	e.cc.mu.Lock()
	e.cc.cond.Broadcast()
	e.cc.mu.Unlock()
	// by the peer's books: a slot is free (whether the waiter has already taken it or is about
	// to), or the connection can take no new request any more (the client's own public answer)
	leaves := int64(e.liveCount()) < e.slotLimit() || !e.cc.CanTakeNewRequest()
	if !leaves && !e.closed {
		return
	}
	deadline := time.Now().Add(c06Wait)
	for time.Now().Before(deadline) {
		if e.pending == nil { // registered by the frame handler meanwhile
			return
		}
		select {
		case cs := <-st.stCh:
			e.pending = nil
			e.register(st, cs)
			e.collect(func() bool { return st.hdrDone }, c06Wait)
			e.collect(e.settled, c06Wait)
			return
		case r := <-st.respCh:
			e.pending = nil
			st.gotRes, st.res = true, r.res
			return
		case <-time.After(time.Millisecond):
		}
	}
	e.timeouts++
	e.cur = append(e.cur, "T")
}

func (e *c06Env) feed(id uint32, n int) string {
	st := e.streams[id]
	st.body.gate <- n
	select {
	case k := <-st.body.readDone:
		st.released += int64(k)
	case <-time.After(c06Wait):
		e.timeouts++
		e.cur = append(e.cur, "T")
	}
	e.afterOp(false)
	return fmt.Sprintf("f:%d:%d", id, n)
}

func (e *c06Env) cancelStream(id uint32) string {
	st := e.streams[id]
	live := !st.dead()
	st.aborted = true
	st.cancel()
	e.holdMid(st)
	e.waitDone(st)
	e.afterOp(live)
	return fmt.Sprintf("c:%d", id)
}

func (e *c06Env) readBody(id uint32, n int) string {
	st := e.streams[id]
	buf := make([]byte, n)
	type rr struct{ k int }
	ch := make(chan rr, 1)
	go func() {
		k, _ := st.res.Body.Read(buf)
		ch <- rr{k}
	}()
	e.holdMid(nil)
	live := !st.dead()
	forgot := false
	select {
	case r := <-ch:
		// what left the pipe, by the peer's books: min(n, buffered) - more than Read returns when
		// the response is longer than its Content-Length
		took := int64(n)
		if st.buffered < took {
			took = st.buffered
		}
		if st.remain >= 0 && took > st.remain {
			st.buffered -= took
			st.readErr = true
			st.aborted = true // "server replied with more than declared Content-Length": the stream is aborted
			e.waitDone(st)
			forgot = live
		} else {
			st.buffered -= int64(r.k)
			if st.remain >= 0 {
				st.remain -= int64(r.k)
			}
		}
	case <-time.After(c06Wait):
		e.timeouts++
		e.cur = append(e.cur, "T")
	}
	e.afterOp(forgot)
	return fmt.Sprintf("r:%d:%d", id, n)
}

func (e *c06Env) closeBody(id uint32) string {
	st := e.streams[id]
	live := !st.dead()
	if !st.noBody {
		st.aborted = true
		st.closedB = true
		st.buffered = 0
	}
	ch := make(chan struct{})
	go func() { st.res.Body.Close(); close(ch) }()
	e.holdMid(st)
	select {
	case <-ch:
	case <-time.After(c06Wait):
		e.timeouts++
		e.cur = append(e.cur, "T")
	}
	e.afterOp(live && !st.noBody)
	return fmt.Sprintf("x:%d", id)
}

// ---- peer operations

func (e *c06Env) peerSettings(vals []xhttp2.Setting) string {
	var parts []string
	for _, s := range vals {
		parts = append(parts, fmt.Sprintf("%d=%d", uint16(s.ID), s.Val))
	}
	tok := "-"
	if len(parts) > 0 {
		tok = strings.Join(parts, "/")
	}
	e.record("<s:" + tok)
	for _, v := range vals {
		if v.ID == xhttp2.SettingInitialWindowSize {
			e.woke = true // the only setting whose processing broadcasts
		}
	}
	invalid := false // the peer's own protocol violation: a connection error, no acknowledgement
	for _, v := range vals {
		if (v.ID == xhttp2.SettingInitialWindowSize && v.Val > math.MaxInt32) ||
			(v.ID == xhttp2.SettingMaxFrameSize && (v.Val < 16384 || v.Val > 1<<24-1)) {
			invalid = true
		}
	}
	e.fr.WriteSettings(vals...)
	e.settingsSent = true
	if invalid {
		e.collect(func() bool { return e.closed }, c06Wait)
	} else {
		e.pendSettings = append(e.pendSettings, vals)
		want := e.ackSeen + 1
		e.collect(func() bool { return e.ackSeen >= want }, c06Wait)
	}
	e.afterOp(false)
	return "ps:" + tok
}

// peerSettingsHeld: a (valid) SETTINGS frame that is kept back and leaves in one segment with the
// frame of the next peer operation (releaseGlue when there is none).
func (e *c06Env) peerSettingsHeld(vals []xhttp2.Setting) string {
	var parts []string
	for _, s := range vals {
		parts = append(parts, fmt.Sprintf("%d=%d", uint16(s.ID), s.Val))
	}
	tok := "-"
	if len(parts) > 0 {
		tok = strings.Join(parts, "/")
	}
	e.record("<s:" + tok)
	for _, v := range vals {
		if v.ID == xhttp2.SettingInitialWindowSize {
			e.woke = true
		}
	}
	e.glue.hold = true
	e.fr.WriteSettings(vals...)
	e.glue.hold = false
	e.settingsSent = true
	e.pendSettings = append(e.pendSettings, vals)
	e.glueWant = e.ackSeen + len(e.pendSettings)
	e.gluedOps++
	return "ps:" + tok
}

// releaseGlue: no peer frame followed - the SETTINGS frame kept back travels alone after all.
func (e *c06Env) releaseGlue() {
	if len(e.glue.buf) > 0 {
		b := e.glue.buf
		e.glue.buf = nil
		e.srv.Write(b)
	}
	e.afterOp(false)
}

func (e *c06Env) peerAck() string {
	e.record("<a")
	e.fr.WriteSettingsAck()
	e.acksSent++
	if e.acksSent > 1 {
		e.collect(func() bool { return e.closed }, c06Wait) // a second ack is a connection error
	}
	e.afterOp(false)
	return "pa"
}

func (e *c06Env) peerWindowUpdate(id uint32, inc uint32) string {
	e.record(fmt.Sprintf("<w:%d:%d", id, inc))
	// liveness as of before the frame is sent: the client may react faster than we look
	live := false
	if st := e.streams[id]; st != nil {
		live = !st.dead()
	}
	e.fr.WriteWindowUpdate(id, inc)
	forgot := false
	if id == 0 || live {
		e.woke = true // processWindowUpdate broadcasts
	}
	if id == 0 {
		if inc == 0 || e.connWin+int64(inc) > math.MaxInt32 {
			e.collect(func() bool { return e.closed }, c06Wait)
		}
		e.connWin += int64(inc)
	} else if st := e.streams[id]; st != nil {
		if live && (inc == 0 || st.win+int64(inc) > math.MaxInt32) {
			st.aborted = true
			e.waitDone(st) // stream error: the client resets the stream
			forgot = true
		}
		st.win += int64(inc)
	}
	e.afterOp(forgot)
	return fmt.Sprintf("pw:%d:%d", id, inc)
}

func (e *c06Env) peerRst(id uint32, code uint32) string {
	e.record(fmt.Sprintf("<r:%d:%d", id, code))
	live := false
	if st := e.streams[id]; st != nil {
		live = !st.dead()
	}
	e.fr.WriteRSTStream(id, xhttp2.ErrCode(code))
	forgot := false
	if st := e.streams[id]; st != nil {
		if live {
			forgot = true
			if code == 1 {
				e.noReuse = true
			}
		}
		st.aborted = true
		e.waitDone(st)
	}
	e.afterOp(forgot)
	return fmt.Sprintf("pr:%d:%d", id, code)
}

func (e *c06Env) peerGoAway(last uint32) string {
	e.record(fmt.Sprintf("<g:%d", last))
	wasLive := map[uint32]bool{}
	for _, id := range e.order {
		wasLive[id] = !e.streams[id].dead()
	}
	e.fr.WriteGoAway(last, xhttp2.ErrCodeNo, nil)
	e.goAwaySent = true
	forgot := false
	for _, id := range e.order {
		st := e.streams[id]
		if id > last && wasLive[id] {
			st.aborted = true
			e.waitDone(st)
			forgot = true
		}
	}
	e.afterOp(forgot)
	return fmt.Sprintf("pg:%d", last)
}

// peerHeaders sends a complete header block. status 0 = no :status pseudo-header (a trailer
// block); cl >= 0 adds a content-length field.
func (e *c06Env) peerHeaders(id uint32, end bool, status int, cl int) string {
	clTok := "-"
	if cl >= 0 {
		clTok = fmt.Sprint(cl)
	}
	tok := fmt.Sprintf("h:%d:%s:%d:%s", id, c06B(end), status, clTok)
	e.record("<" + tok)
	st := e.streams[id]
	e.hbuf.Reset()
	if status != 0 {
		e.henc.WriteField(hpack.HeaderField{Name: ":status", Value: fmt.Sprint(status)})
	} else {
		e.henc.WriteField(hpack.HeaderField{Name: "x-trailer", Value: "1"})
	}
	if cl >= 0 {
		e.henc.WriteField(hpack.HeaderField{Name: "content-length", Value: fmt.Sprint(cl)})
	}
	live := st != nil && !st.dead()
	e.fr.WriteHeaders(xhttp2.HeadersFrameParam{StreamID: id, BlockFragment: e.hbuf.Bytes(), EndHeaders: true, EndStream: end})
	forgot := false
	if st != nil {
		st.phSent++
		if live {
			info := status >= 100 && status <= 199
			switch {
			case st.peerEnd:
				st.aborted = true // HEADERS after END_STREAM: stream error
				e.waitDone(st)
				forgot = true
			case !st.gotFinal && status == 0:
				st.aborted = true // no :status: stream error
				e.waitDone(st)
				forgot = true
			case !st.gotFinal && info:
				st.n1xx++
				if end || st.n1xx > 5 {
					st.aborted = true // 1xx with END_STREAM / the sixth 1xx: stream error
					e.waitDone(st)
					forgot = true
				}
			case !st.gotFinal:
				st.gotFinal = true
				st.peerEnd, st.noBody = end, end || st.head
				if !st.noBody && status != 204 && status != 304 {
					// (a status that never has a body: the declared length is not accounted, /repo 5224b93)
					st.remain = int64(cl)
				}
				if !st.gotRes && !(st.noBody && st.body == nil && !end) {
					// RoundTrip returns as soon as the response headers are in (with neither a
					// request nor a response body it waits for the end of the stream)
					select {
					case r := <-st.respCh:
						st.gotRes, st.res = true, r.res
					case <-time.After(c06Wait):
						e.timeouts++
						e.cur = append(e.cur, "T")
					}
				}
			case status != 0 || !end:
				e.collect(func() bool { return e.closed }, c06Wait) // a trailer block with a pseudo-header / without END_STREAM
			default:
				st.peerEnd = true
			}
			if st.peerEnd && st.reqDone() && !st.aborted {
				e.waitDone(st)
				forgot = true
			}
		}
	}
	e.afterOp(forgot)
	return "p" + tok
}

// peerPing: a PING of the script (payload c06ScriptPing+n); the acknowledgement is part of the
// transcript of this operation.
func (e *c06Env) peerPing(ack bool) string {
	e.scriptPings++
	v := c06ScriptPing + e.scriptPings
	var d [8]byte
	for i := 0; i < 8; i++ {
		d[i] = byte(v >> (56 - 8*uint(i)))
	}
	e.record(fmt.Sprintf("<p:%s:%d", c06B(ack), v))
	e.fr.WritePing(ack, d)
	if !ack {
		e.collect(func() bool { return e.scriptPingAcked == v }, c06Wait)
	}
	e.afterOp(false)
	return fmt.Sprintf("pp:%s:%d", c06B(ack), v)
}

// peerPushPromise: the client advertised (or defaults to refusing) server push: connection error.
func (e *c06Env) peerPushPromise(id, promised uint32) string {
	e.record(fmt.Sprintf("<u:%d:%d", id, promised))
	e.hbuf.Reset()
	for _, f := range [][2]string{{":method", "GET"}, {":scheme", "https"}, {":authority", "verif.test"}, {":path", "/pushed"}} {
		e.henc.WriteField(hpack.HeaderField{Name: f[0], Value: f[1]})
	}
	e.fr.WritePushPromise(xhttp2.PushPromiseParam{StreamID: id, PromiseID: promised, BlockFragment: e.hbuf.Bytes(), EndHeaders: true})
	e.collect(func() bool { return e.closed }, c06Wait)
	e.afterOp(false)
	return fmt.Sprintf("pu:%d:%d", id, promised)
}

var c06Zeros = make([]byte, 1<<20)

func (e *c06Env) peerData(id uint32, n, pad int, end bool) string {
	e.record(fmt.Sprintf("<d:%d:%d:%d:%s", id, n, pad, c06B(end)))
	live := false
	if st := e.streams[id]; st != nil {
		live = !st.dead()
	}
	if pad > 0 {
		e.fr.WriteDataPadded(id, end, c06Zeros[:n], c06Zeros[:pad-1])
	} else {
		e.fr.WriteData(id, end, c06Zeros[:n])
	}
	e.cConnWin -= int64(n + pad)
	e.cSent += int64(n + pad)
	forgot := false
	if st := e.streams[id]; st != nil {
		st.cwin -= int64(n + pad)
		if live {
			if st.peerEnd || !st.gotFinal || (st.head && n > 0) {
				st.aborted = true // DATA after END_STREAM / before the response HEADERS / on a HEAD response: stream error
				e.waitDone(st)
				forgot = true
			} else {
				st.buffered += int64(n)
				if end {
					st.peerEnd = true
					if st.reqDone() && !st.aborted {
						e.waitDone(st)
						forgot = true
					}
				}
			}
		}
	}
	e.afterOp(forgot)
	return fmt.Sprintf("pd:%d:%d:%d:%s", id, n, pad, c06B(end))
}
