//go:build verif

package http2

import (
	"fmt"
	"net/url"
	"strings"
	"testing"

	"github.com/imroc/req/v3/internal/verifh"
)

// TestVerif_C16_h2values: value ORDER and multiplicity within a name on HTTP/2 — for every header
// key with a single spelling in the map, the fields of that name arrive (reference HPACK decoder,
// arrival order) as the caller's values in the caller's order (cookie: the crumbs in order;
// user-agent: the first value; accept-encoding: the caller's values, then the transport's gzip),
// whatever the header-order list does to the position of the group. Model: `c16values`.
func TestVerif_C16_h2values(t *testing.T) {
	s := verifh.New(t, "C16", "h2values",
		"field cases of the h2fields generator (0..60 keys, 0..3 values per key, order lists in most cases of profile order, pseudo order, gzip on/off) on a fresh connection each; compared: per single-spelling name the value sequence in arrival order, real encodeHeaders + reference HPACK decoder vs the Lean field-list model; non-trivial = a multi-valued single-spelling name was present")
	r := s.Rand()
	need := map[string]int{}
	n := verifh.N(1500, 30000)
	for i := 0; i < n; i++ {
		profile := "order"
		if i%3 == 0 {
			profile = "plain"
		}
		tc := verifh.C01GenFieldCase(r, profile)
		tc.Limit = 0
		fields, err, perr := c16RunH2(c16NewConn(0), tc)
		human := fmt.Sprintf("h2 values %q %q host=%q hdr=%q cl=%d body=%v/%v gzip=%v", tc.Method, tc.RawURL, tc.Host, tc.Header, tc.CL, tc.HasBody, tc.NoBody, tc.Gzip)
		if perr != "" {
			s.Crash(human, human, perr, "")
			continue
		}
		u, _ := url.Parse(tc.RawURL)
		effHost := tc.Host
		if effHost == "" {
			effHost = u.Host
		}
		ans := ""
		multi := false
		switch {
		case !verifh.C01IsASCII(effHost):
			ans = "err:outside"
		case err != nil:
			ans = c16H2ErrKind(err)
		default:
			ans = verifh.C16ShowValues(tc.Header, fields)
			for k, vs := range tc.Header {
				if len(vs) > 1 && !strings.HasPrefix(k, "__") {
					multi = true
				}
			}
		}
		key := strings.SplitN(ans, " ", 2)[0]
		s.Count(key)
		need[key]++
		if multi {
			s.Count("multi-valued")
			need["multi-valued"]++
			if len(tc.Header[verifh.C01HeaderOrderKey]) > 0 {
				s.Count("multi-valued+order")
				need["multi-valued+order"]++
			}
		}
		s.Case(verifh.C16ValuesLine("h2", tc), ans, true, "", multi, human)
	}
	for _, b := range []string{"vals", "multi-valued", "multi-valued+order"} {
		if need[b] == 0 {
			t.Errorf("lane did not reach bucket %q", b)
		}
	}
	s.Finish()
}
