//go:build verif

package http2

// C16 on HTTP/2, the last step before the wire: the encoded header block (= the header SET of the
// request) is cut into HEADERS + CONTINUATION frames by ClientConn.writeHeaders. The set reaches the
// peer only if the frames reassemble to the block and the last frame — and only the last — carries
// END_HEADERS. Lean model: Req/H2/HeaderBlock.lean (writeHeaders, receive), theorems
// Req/Props/C16Frames.lean (block_delivered, frames_reassemble, frames_wellFormed, frames_count).

import (
	"bufio"
	"bytes"
	"context"
	"fmt"
	"io"
	"math/rand"
	"net/http"
	"net/http/httptrace"
	"net/url"
	"strings"
	"testing"

	"github.com/imroc/req/v3/internal/common"
	reqhttp2 "github.com/imroc/req/v3/http2"
	"github.com/imroc/req/v3/internal/transport"
	"github.com/imroc/req/v3/internal/verifh"
	xhttp2 "golang.org/x/net/http2"
	"golang.org/x/net/http2/hpack"
)

// c16FrameConn is a ClientConn as far as writing a request head is concerned: HPACK encoder, the
// fork's Framer writing into a buffer (the "wire"), the peer's SETTINGS_MAX_FRAME_SIZE and an
// optional HEADERS priority (Transport.HeaderPriority, set by SetHTTP2HeaderPriority and the
// impersonation presets).
type c16FrameConn struct {
	cc   *ClientConn
	wire *bytes.Buffer
	prio reqhttp2.PriorityParam
}

func c16NewFrameConn(maxFrame int, prio reqhttp2.PriorityParam) *c16FrameConn {
	wire := &bytes.Buffer{}
	t := &Transport{Options: &transport.Options{}}
	t.HeaderPriority = prio
	cc := &ClientConn{t: t, peerMaxHeaderListSize: ^uint64(0), maxFrameSize: uint32(maxFrame)}
	cc.bw = bufio.NewWriter(wire)
	cc.fr = NewFramer(cc.bw, nil)
	cc.henc = hpack.NewEncoder(&cc.hbuf)
	return &c16FrameConn{cc: cc, wire: wire, prio: prio}
}

type c16SeenFrame struct {
	cont, endHeaders, endStream, prio bool
	frag                              []byte
	payload                           int
	streamID                          uint32
	prioParam                         xhttp2.PriorityParam
}

// c16ReadFrames is the peer: the REFERENCE framer (golang.org/x/net/http2) with the peer's own
// SETTINGS_MAX_FRAME_SIZE as read limit reads every frame on the wire. Returns the frames in
// arrival order and whether the reference framer raised an error (frame too large, CONTINUATION
// discipline broken, truncated frame).
func c16ReadFrames(wire []byte, maxFrame int) (frames []c16SeenFrame, bad string) {
	xf := xhttp2.NewFramer(io.Discard, bytes.NewReader(wire))
	xf.SetMaxReadFrameSize(uint32(maxFrame))
	for {
		f, err := xf.ReadFrame()
		if err == io.EOF {
			return frames, ""
		}
		if err != nil {
			return frames, err.Error()
		}
		switch f := f.(type) {
		case *xhttp2.HeadersFrame:
			frames = append(frames, c16SeenFrame{cont: false, endHeaders: f.HeadersEnded(), endStream: f.StreamEnded(), prio: f.HasPriority(),
				frag: append([]byte(nil), f.HeaderBlockFragment()...), payload: int(f.Header().Length), streamID: f.Header().StreamID, prioParam: f.Priority})
		case *xhttp2.ContinuationFrame:
			frames = append(frames, c16SeenFrame{cont: true, endHeaders: f.HeadersEnded(),
				frag: append([]byte(nil), f.HeaderBlockFragment()...), payload: int(f.Header().Length), streamID: f.Header().StreamID})
		default:
			return frames, fmt.Sprintf("unexpected frame %v", f.Header().Type)
		}
	}
}

// c16ShowFrames renders frames + the peer's end state in the form of the `c16hframes` driver lane.
func c16ShowFrames(frames []c16SeenFrame, bad string) (ans string, block []byte) {
	var parts []string
	for _, f := range frames {
		p := "H"
		if f.cont {
			p = "C"
		}
		p += fmt.Sprint(len(f.frag))
		if f.endHeaders {
			p += "h"
		}
		if f.endStream {
			p += "s"
		}
		if f.prio {
			p += "p"
		}
		parts = append(parts, p)
		block = append(block, f.frag...)
	}
	fs := "-"
	if len(parts) > 0 {
		fs = strings.Join(parts, ",")
	}
	state := ""
	switch {
	case bad != "":
		state = "error"
	case len(frames) == 0:
		state = "idle"
	case frames[len(frames)-1].endHeaders:
		es := 0
		if frames[0].endStream {
			es = 1
		}
		state = fmt.Sprintf("delivered:%d:%d", len(block), es)
	default:
		state = fmt.Sprintf("waiting:%d", len(block))
	}
	return fs + " " + state, block
}

// c16FrameOracle is the independent statement of what the peer needs (RFC 9113 §4.3, §6.2, §6.10).
func c16FrameOracle(frames []c16SeenFrame, bad string, block []byte, maxFrame int, sid uint32, endStream bool, prio reqhttp2.PriorityParam) (bool, string) {
	if bad != "" {
		return false, "the reference framer rejects the frames: " + bad
	}
	if len(block) == 0 {
		if len(frames) != 0 {
			return false, "frames written for an empty block"
		}
		return true, ""
	}
	if len(frames) == 0 {
		return false, "no frame written"
	}
	var got []byte
	for i, f := range frames {
		last := i == len(frames)-1
		switch {
		case f.cont != (i > 0):
			return false, fmt.Sprintf("frame %d: wrong frame type", i)
		case f.endHeaders != last:
			if last {
				return false, "the last frame of the block does not carry END_HEADERS: the peer waits for a CONTINUATION and never sees the header set"
			}
			return false, fmt.Sprintf("frame %d of %d carries END_HEADERS", i, len(frames))
		case f.payload > maxFrame:
			return false, fmt.Sprintf("frame %d: payload %d exceeds the peer's SETTINGS_MAX_FRAME_SIZE %d", i, f.payload, maxFrame)
		case len(f.frag) == 0:
			return false, fmt.Sprintf("frame %d: empty fragment", i)
		case f.streamID != sid:
			return false, fmt.Sprintf("frame %d: stream id %d, want %d", i, f.streamID, sid)
		case i == 0 && f.endStream != endStream:
			return false, "END_STREAM flag differs from what was asked"
		case i == 0 && f.prio != !prio.IsZero():
			return false, "priority flag differs from the configured HEADERS priority"
		case i == 0 && f.prio && (f.prioParam.StreamDep != prio.StreamDep || f.prioParam.Exclusive != prio.Exclusive || f.prioParam.Weight != prio.Weight):
			return false, "priority fields differ from the configured HEADERS priority"
		}
		got = append(got, f.frag...)
	}
	if !bytes.Equal(got, block) {
		return false, "the fragments do not reassemble to the header block"
	}
	return true, ""
}

var c16FrameSizes = []int{16384, 16384, 16384, 16385, 16389, 20000, 32768, 65535, 65536, 131072}

// sizes below 16384 are not legal SETTINGS_MAX_FRAME_SIZE values (the client rejects them in the
// peer's SETTINGS); writeHeaders itself is generic in the size, and small sizes put many frame
// boundaries into small blocks
var c16SmallFrameSizes = []int{6, 7, 16, 64, 100, 255, 1000, 4096}

func c16PickPrio(r *rand.Rand) reqhttp2.PriorityParam {
	switch r.Intn(4) {
	case 0: // Chrome's
		return reqhttp2.PriorityParam{StreamDep: 0, Exclusive: true, Weight: 255}
	case 1:
		return reqhttp2.PriorityParam{StreamDep: uint32(1 + r.Intn(1000)), Exclusive: r.Intn(2) == 0, Weight: uint8(r.Intn(256))}
	}
	return reqhttp2.PriorityParam{}
}

// TestVerif_C16_h2frames: the real ClientConn.writeHeaders (and clientStream.encodeAndWriteHeaders
// in front of it) vs the Lean model of the HEADERS / CONTINUATION split and of the peer's
// reassembly, judged in addition by the reference framer of golang.org/x/net/http2 acting as the
// peer (frame size limit = the advertised one, CONTINUATION discipline, HPACK decoding).
func TestVerif_C16_h2frames(t *testing.T) {
	s := verifh.New(t, "C16", "h2frames",
		"(raw) header blocks of random bytes handed to the real ClientConn.writeHeaders: lengths k x MAX_FRAME_SIZE + d for k = 0..4, d in {-6..+6} (and the same shifted by the 5 priority octets), a fifth anywhere in 0..4 frames; peer SETTINGS_MAX_FRAME_SIZE in {16384, 16385, 16389, 20000, 32768, 65535, 65536, 131072} and, in a third of the cases, small sizes {6..4096} that put many boundaries into small blocks; HEADERS priority none / Chrome's / random; END_STREAM on/off; (req) whole requests through clientStream.encodeAndWriteHeaders: the field cases of the h2fields lane plus an incompressible X-Fill-Block value sized so that the HPACK block lands on / next to such a boundary, frames read back by the reference framer, the reassembled block decoded by the reference HPACK decoder: the decoded field list in arrival order is compared with the c16fields model, the frame layout with the c16hframes model; (seq, round 7) connection SEQUENCES of 2..10 requests through encodeAndWriteHeaders on ONE ClientConn (one HPACK encoder / Framer; field cases of h2fields, two thirds derived from the previous request) with the peer keeping ONE reference HPACK decoder per connection, half of the requests GIVEN UP via their context / cs.abort / cs.reqCancel before the call or from inside the k-th WroteHeaderField trace hook (k = 1..13, beyond the last field = never), i.e. while the block goes through the stateful encoder: every block that reaches the wire is decoded by the decoder of its connection and compared with the c16fields model (a request given up must not disturb the header sets of the requests that follow it on the connection), a failed call writes no frame; oracle: fragments reassemble to the block, END_HEADERS on the last frame only, every payload within the peer's limit, first frame HEADERS with the flags and priority asked for, rest CONTINUATION; non-trivial = at least one frame written")
	r := s.Rand()
	need := map[string]int{}
	count := func(b string) { s.Count(b); need[b]++ }
	// ---- raw blocks
	nraw := verifh.N(700, 6000)
	for i := 0; i < nraw; i++ {
		mf := verifh.Pick(r, c16FrameSizes)
		kmax := 4
		if r.Intn(3) == 0 {
			mf = verifh.Pick(r, c16SmallFrameSizes)
			kmax = 9
		} else if mf > 40000 {
			kmax = 2
		}
		prio := c16PickPrio(r)
		hasPrio := !prio.IsZero()
		es := r.Intn(2) == 0
		n := 0
		if r.Intn(5) == 0 {
			n = r.Intn(kmax*mf + 2)
		} else {
			k := r.Intn(kmax + 1)
			n = k * mf
			if hasPrio && r.Intn(3) != 0 {
				n -= 5
			}
			n += verifh.Pick(r, []int{-6, -5, -4, -1, -1, 0, 0, 0, 1, 1, 4, 5, 6})
			if n < 0 {
				n = r.Intn(4)
			}
		}
		block := make([]byte, n)
		r.Read(block)
		sid := uint32(1 + 2*r.Intn(1000))
		fc := c16NewFrameConn(mf, prio)
		var werr error
		p, crashed := verifh.Safely(func() { werr = fc.cc.writeHeaders(sid, es, mf, block) })
		human := fmt.Sprintf("raw block of %d bytes (= %d x %d %+d), HEADERS priority %v, END_STREAM %v, stream %d", n, (n+mf/2)/mf, mf, n-((n+mf/2)/mf)*mf, hasPrio, es, sid)
		if crashed {
			s.Crash(human, human, p, "")
			continue
		}
		if werr != nil {
			s.Crash(human, human, "writeHeaders failed on a buffer: "+werr.Error(), "")
			continue
		}
		frames, bad := c16ReadFrames(fc.wire.Bytes(), mf)
		ans, _ := c16ShowFrames(frames, bad)
		ok, why := c16FrameOracle(frames, bad, block, mf, sid, es, prio)
		if !ok {
			human += " ORACLE: " + why
		}
		c16CountBoundary(count, "raw", n, mf, hasPrio)
		if mf < 16384 {
			count("raw:small-frame-size")
		}
		s.Case(fmt.Sprintf("c16hframes %d %d %s %s", n, mf, verifh.C01B(hasPrio), verifh.C01B(es)), ans, ok, "", len(frames) > 0, human)
	}
	// ---- whole requests
	nreq := verifh.N(450, 4000)
	for i := 0; i < nreq; i++ {
		profile := "plain"
		if r.Intn(2) == 0 {
			profile = "order"
		}
		tc := verifh.C01GenFieldCase(r, profile)
		tc.Limit = 0
		mf := verifh.Pick(r, []int{16384, 16384, 16384, 16385, 32768})
		kmax := 2
		if r.Intn(2) == 0 {
			mf = verifh.Pick(r, []int{64, 100, 255, 1000, 4096})
			kmax = 6
		}
		prio := c16PickPrio(r)
		hasPrio := !prio.IsZero()
		target := (1 + r.Intn(kmax)) * mf
		if hasPrio && r.Intn(3) != 0 {
			target -= 5
		}
		target += verifh.Pick(r, []int{-5, -1, -1, 0, 0, 0, 0, 1, 1, 5})
		c16FillTo(tc, target)
		sid := uint32(1 + 2*r.Intn(1000))
		fc := c16NewFrameConn(mf, prio)
		u, e := url.Parse(tc.RawURL)
		if e != nil {
			continue
		}
		req := &http.Request{Method: tc.Method, URL: u, Host: tc.Host, Header: tc.Header.Clone(), Proto: "HTTP/1.1", ProtoMajor: 1, ProtoMinor: 1, ContentLength: tc.CL}
		if tc.HasBody {
			if tc.NoBody {
				req.Body = http.NoBody
			} else {
				req.Body = io.NopCloser(strings.NewReader("x"))
			}
		}
		cs := &clientStream{cc: fc.cc, ctx: context.Background(), abort: make(chan struct{}), ID: sid, requestedGzip: tc.Gzip}
		var err error
		p, crashed := verifh.Safely(func() { err = cs.encodeAndWriteHeaders(req, nil) })
		human := fmt.Sprintf("request through encodeAndWriteHeaders, peer MAX_FRAME_SIZE %d, HEADERS priority %v, aimed at a block of %d bytes: %q %q host=%q hdr=%.600q cl=%d body=%v/%v gzip=%v", mf, hasPrio, target, tc.Method, tc.RawURL, tc.Host, fmt.Sprint(tc.Header), tc.CL, tc.HasBody, tc.NoBody, tc.Gzip)
		if crashed {
			s.Crash(human, human, p, "")
			continue
		}
		effHost := tc.Host
		if effHost == "" {
			effHost = u.Host
		}
		if err != nil || !verifh.C01IsASCII(effHost) {
			// refused before anything is written: nothing may be on the wire
			ans := "err:outside"
			if verifh.C01IsASCII(effHost) {
				ans = c16H2ErrKind(err)
			}
			count("req:" + strings.SplitN(ans, " ", 2)[0])
			if err != nil && fc.wire.Len() != 0 {
				s.Observe(human, false, "", false, human, "a refused request wrote frames")
			}
			s.Case(verifh.C01FieldLine("h2", tc), ans, true, "", false, human)
			continue
		}
		wire := fc.wire.Bytes()
		frames, bad := c16ReadFrames(wire, mf)
		ans, block := c16ShowFrames(frames, bad)
		wantES := actualContentLength(req) == 0
		ok, why := c16FrameOracle(frames, bad, block, mf, sid, wantES, prio)
		if !ok {
			human += " ORACLE: " + why
		}
		c16CountBoundary(count, "req", len(block), mf, hasPrio)
		s.Case(fmt.Sprintf("c16hframes %d %d %s %s", len(block), mf, verifh.C01B(hasPrio), verifh.C01B(wantES)), ans, ok, "", len(frames) > 0, human)
		// the header SET as the peer decodes it: once the reference framer has seen END_HEADERS the
		// reassembled block goes to the reference HPACK decoder (arrival order kept)
		var fields [][2]string
		got := "peer-never-got-the-header-block"
		if bad == "" && len(frames) > 0 && frames[len(frames)-1].endHeaders {
			hfs, derr := hpack.NewDecoder(4096, nil).DecodeFull(block)
			if derr != nil {
				got = "reference HPACK decoder rejects the reassembled block"
			} else {
				fields = [][2]string{}
				for _, hf := range hfs {
					fields = append(fields, [2]string{hf.Name, hf.Value})
				}
				got = verifh.C01ShowFields(fields, tc.Header[verifh.C01HeaderOrderKey])
			}
		}
		good, fwhy := true, ""
		if fields != nil {
			good, fwhy = verifh.C01FieldOracle("h2", tc, fields)
		} else {
			good, fwhy = false, "the peer (reference framer + HPACK decoder) never obtained the header set of the request"
		}
		class := ""
		if verifh.C01PseudoOrderOtherCase(tc.Header[verifh.C01PseudoHeaderOrderKey]) {
			class = "pseudo-order-case"
		}
		h2 := human
		if !good {
			h2 += " ORACLE: " + fwhy
		}
		count("req:fields")
		s.Case(verifh.C01FieldLine("h2", tc), got, good, class, true, h2)
	}
	// ---- round 7: connection SEQUENCES through encodeAndWriteHeaders with requests GIVEN UP at every
	// point of the header write. One ClientConn (one HPACK encoder, one Framer) and one peer (reference
	// framer + ONE reference HPACK decoder for the life of the connection) serve 2..10 requests; each
	// request is given up with probability 1/2 — through its context, cs.abort or cs.reqCancel —
	// before the call or from inside the k-th WroteHeaderField trace hook (k = 1 .. beyond the last
	// field), i.e. while the header block is going through the connection's stateful encoder.
	// Whatever the client decides to do with such a request, the peer must stay able to decode every
	// later request of the connection: each delivered block is decoded by the connection's decoder
	// and compared with the c16fields model.
	nseq := verifh.N(700, 6000)
	var sfc *c16FrameConn
	var sdec *hpack.Decoder
	var sprev *verifh.C01FieldCase
	sleft, spos, sgiven := 0, 0, 0
	var ssid uint32
	for i := 0; i < nseq; i++ {
		if sleft == 0 {
			sfc = c16NewFrameConn(verifh.Pick(r, []int{16384, 16384, 255, 1000}), c16PickPrio(r))
			sdec = hpack.NewDecoder(4096, nil)
			sprev, sleft, spos, sgiven, ssid = nil, 2+r.Intn(9), 0, 0, 1
		}
		sleft--
		spos++
		var tc *verifh.C01FieldCase
		if sprev != nil && r.Intn(3) != 0 {
			tc = verifh.C01MutateFieldCase(r, sprev)
		} else {
			tc = verifh.C01GenFieldCase(r, verifh.Pick(r, []string{"plain", "order"}))
		}
		tc.Limit = 0
		sprev = tc
		u, e := url.Parse(tc.RawURL)
		if e != nil {
			continue
		}
		mf := int(sfc.cc.maxFrameSize)
		// the give-up plan
		via, at := "", -1
		if r.Intn(2) == 0 {
			via = verifh.Pick(r, []string{"ctx", "abort", "reqCancel"})
			at = r.Intn(14)
			if r.Intn(4) == 0 {
				at = 0 // before the call
			}
		}
		ctx, cancel := context.WithCancel(context.Background())
		abort := make(chan struct{})
		reqCancel := make(chan struct{})
		cs := &clientStream{cc: sfc.cc, abort: abort, reqCancel: reqCancel, ID: ssid, requestedGzip: tc.Gzip}
		fired := false
		giveUp := func() {
			if fired {
				return
			}
			fired = true
			switch via {
			case "ctx":
				cancel()
			case "abort":
				cs.abortErr = errClientConnUnusable
				close(abort)
			case "reqCancel":
				close(reqCancel)
			}
		}
		hooks := 0
		tctx := httptrace.WithClientTrace(ctx, &httptrace.ClientTrace{WroteHeaderField: func(string, []string) {
			hooks++
			if via != "" && hooks == at {
				giveUp()
			}
		}})
		cs.ctx = tctx
		req := (&http.Request{Method: tc.Method, URL: u, Host: tc.Host, Header: tc.Header.Clone(), Proto: "HTTP/1.1", ProtoMajor: 1, ProtoMinor: 1, ContentLength: tc.CL}).WithContext(tctx)
		if tc.HasBody {
			if tc.NoBody {
				req.Body = http.NoBody
			} else {
				req.Body = io.NopCloser(strings.NewReader("x"))
			}
		}
		if via != "" && at == 0 {
			giveUp()
		}
		sfc.wire.Reset()
		var err error
		p, crashed := verifh.Safely(func() { err = cs.encodeAndWriteHeaders(req, nil) })
		cancel()
		human := fmt.Sprintf("request %d of its connection (%d given up before it), stream %d, peer MAX_FRAME_SIZE %d, given up via %q at header field %d (fired=%v, %d fields traced): %q %q host=%q hdr=%.600q cl=%d body=%v/%v gzip=%v", spos, sgiven, ssid, mf, via, at, fired, hooks, tc.Method, tc.RawURL, tc.Host, fmt.Sprint(tc.Header), tc.CL, tc.HasBody, tc.NoBody, tc.Gzip)
		if crashed {
			s.Crash(human, human, p, "")
			sleft = 0
			continue
		}
		effHost := tc.Host
		if effHost == "" {
			effHost = u.Host
		}
		wire := append([]byte(nil), sfc.wire.Bytes()...)
		if err != nil || !verifh.C01IsASCII(effHost) {
			if err != nil && len(wire) != 0 {
				s.Observe(human, false, "", false, human, "a request that failed in encodeAndWriteHeaders wrote frames")
				sleft = 0
			}
			if fired && (err == context.Canceled || err == errClientConnUnusable || err == common.ErrRequestCanceled) {
				// given up and nothing sent: the requests that follow tell whether the connection is intact
				count("seq:given-up-nothing-sent")
				sgiven++
				continue
			}
			if err == nil {
				// outside the model (non-ASCII host): the block is on the wire; keep the peer's decoder in step
				frames, bad := c16ReadFrames(wire, mf)
				_, block := c16ShowFrames(frames, bad)
				if _, derr := sdec.DecodeFull(block); derr != nil || bad != "" {
					sleft = 0
				}
				ssid += 2
				continue
			}
			ans := "err:outside"
			if verifh.C01IsASCII(effHost) {
				ans = c16H2ErrKind(err)
			}
			count("seq:" + ans)
			s.Case(verifh.C01FieldLine("h2", tc), ans, true, "", false, human)
			continue
		}
		// written: the peer reads the frames and decodes the block with the CONNECTION's decoder
		frames, bad := c16ReadFrames(wire, mf)
		_, block := c16ShowFrames(frames, bad)
		wantES := actualContentLength(req) == 0
		if ok, why := c16FrameOracle(frames, bad, block, mf, ssid, wantES, sfc.prio); !ok {
			s.Observe(human, false, "", false, human, why)
		}
		ssid += 2
		var fields [][2]string
		got := "peer-never-got-the-header-block"
		if bad == "" && len(frames) > 0 && frames[len(frames)-1].endHeaders {
			hfs, derr := sdec.DecodeFull(block)
			if derr != nil {
				got = "the peer's HPACK decoder rejects the block (COMPRESSION_ERROR): " + derr.Error()
			} else {
				fields = [][2]string{}
				for _, hf := range hfs {
					fields = append(fields, [2]string{hf.Name, hf.Value})
				}
				got = verifh.C01ShowFields(fields, tc.Header[verifh.C01HeaderOrderKey])
			}
		}
		good, fwhy := false, "the peer never obtained the header set of the request: "+got
		if fields != nil {
			good, fwhy = verifh.C01FieldOracle("h2", tc, fields)
		}
		class := ""
		if verifh.C01PseudoOrderOtherCase(tc.Header[verifh.C01PseudoHeaderOrderKey]) {
			class = "pseudo-order-case"
		}
		if !good {
			human += " ORACLE: " + fwhy
		}
		count("seq:fields")
		if sgiven > 0 {
			count("seq:delivered-after-a-given-up-request")
		}
		if fired && at > 0 {
			count("seq:given-up-while-encoding")
			sgiven++
		}
		if fields == nil {
			sleft = 0 // the compression context of this connection is gone
		}
		s.Case(verifh.C01FieldLine("h2", tc), got, good, class, true, human)
	}
	for _, b := range []string{"seq:fields", "seq:given-up-while-encoding", "seq:given-up-nothing-sent", "seq:delivered-after-a-given-up-request",
		"raw:exact-multiple", "raw:multiple-1", "raw:multiple+1", "raw:exact-multiple-minus-prio", "raw:several-frames", "raw:one-frame", "raw:small-frame-size", "raw:empty",
		"req:exact-multiple", "req:multiple-1", "req:multiple+1", "req:exact-multiple-minus-prio", "req:several-frames", "req:fields", "req:err:header"} {
		if need[b] == 0 {
			t.Errorf("lane did not reach bucket %q", b)
		}
	}
	s.Finish()
}

// c16CountBoundary files a block length under the boundary buckets the lane must reach.
func c16CountBoundary(count func(string), kind string, n, mf int, prio bool) {
	pad := 0
	if prio {
		pad = 5
	}
	switch {
	case n == 0:
		count(kind + ":empty")
	case n%mf == 0:
		count(kind + ":exact-multiple")
	case (n+1)%mf == 0:
		count(kind + ":multiple-1")
	case (n-1)%mf == 0 && n > 1:
		count(kind + ":multiple+1")
	}
	if prio && n > 0 && (n+5)%mf == 0 {
		count(kind + ":exact-multiple-minus-prio")
	}
	if n > 0 {
		if n+pad > mf {
			count(kind + ":several-frames")
		} else {
			count(kind + ":one-frame")
		}
	}
}

// c16FillTo adds an X-Fill-Block header whose value cannot be Huffman-shortened ('X' has an 8-bit
// code, so the encoder sends it literally) and sizes it so that the HPACK block of the request,
// encoded on a fresh connection, is `target` bytes long (a few measuring rounds: the length prefix
// of the value is a variable-length integer). Requests the encoder refuses stay as they are.
func c16FillTo(tc *verifh.C01FieldCase, target int) {
	measure := func() int {
		conn := c16NewConn(0)
		u, e := url.Parse(tc.RawURL)
		if e != nil {
			return -1
		}
		req := &http.Request{Method: tc.Method, URL: u, Host: tc.Host, Header: tc.Header, Proto: "HTTP/1.1", ProtoMajor: 1, ProtoMinor: 1, ContentLength: tc.CL}
		if tc.HasBody {
			if tc.NoBody {
				req.Body = http.NoBody
			} else {
				req.Body = io.NopCloser(strings.NewReader("x"))
			}
		}
		n := -1
		verifh.Safely(func() {
			block, err := conn.cc.encodeHeaders(req, tc.Gzip, "", actualContentLength(req), nil)
			if err == nil {
				n = len(block)
			}
		})
		return n
	}
	base := measure()
	if base < 0 || target-base < 24 {
		return
	}
	if tc.Header == nil {
		tc.Header = http.Header{}
	}
	n := target - base - 18
	for round := 0; round < 6 && n >= 0; round++ {
		tc.Header["X-Fill-Block"] = []string{strings.Repeat("X", n)}
		got := measure()
		if got < 0 || got == target {
			return
		}
		n += target - got
	}
}
