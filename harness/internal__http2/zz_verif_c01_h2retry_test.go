//go:build verif

package http2

// C01 lane h2retry: the real shouldRetryRequest / canRetryError (the decision of the retry loop of
// Transport.RoundTripOpt) on generated (request body kind, bytes already read, error) triples; what
// a server accepting the returned request would read is compared with the Lean model
// `Req.Replay.h2Run` on the attempt list [this failure, accepted].

import (
	"bytes"
	"errors"
	"fmt"
	"io"
	"net/http"
	"testing"

	"github.com/imroc/req/v3/internal/verifh"
)

func TestVerif_C01_h2retry(t *testing.T) {
	s := verifh.New(t, "C01", "h2retry",
		"real shouldRetryRequest(req, err): body nil / NoBody / rewindable (GetBody builds a new reader) / one-shot without GetBody / one-shot whose GetBody returns the same reader (as req's client built it before fixes/C01-2) of 0..70000 bytes, 0..all bytes already read by the failed attempt; err = errClientConnUnusable, errClientConnGotGoAway, StreamError REFUSED_STREAM, PROTOCOL_ERROR from the peer, PROTOCOL_ERROR raised locally, CANCEL, errClientConnClosed, io.ErrUnexpectedEOF; compared with the Lean model: failed, or the exact bytes a server accepting the returned request reads; oracle: with an honest GetBody the accepted body is the whole body; non-trivial = the request is retried with a body")
	hist := map[string]int{}
	count := func(k string) { hist[k]++; s.Count(k) }
	r := s.Rand()
	n := verifh.N(3000, 20000)
	for i := 0; i < n; i++ {
		kind := verifh.Pick(r, []string{"none", "nobody", "rew", "rew", "one", "fake"})
		size := verifh.Pick(r, []int{0, 1, 100, 16384, 16385, 70000})
		ga, gb := 1+r.Intn(250), r.Intn(251)
		data := verifh.C01GenBody(size, ga, gb)
		consume := verifh.Pick(r, []int{0, 0, 1, size / 2, size})
		errName := verifh.Pick(r, []string{"U", "G", "R", "R", "P", "Plocal", "cancel", "closed", "eof"})
		var err error
		tok := ""
		switch errName {
		case "U":
			err, tok, consume = errClientConnUnusable, "U", 0 // returned before the stream exists
		case "G":
			err, tok = errClientConnGotGoAway, fmt.Sprintf("G%d", consume)
		case "R":
			err, tok = StreamError{StreamID: 1, Code: ErrCodeRefusedStream}, fmt.Sprintf("R%d", consume)
		case "P":
			err, tok = StreamError{StreamID: 1, Code: ErrCodeProtocol, Cause: errFromPeer}, fmt.Sprintf("P%d", consume)
		case "Plocal":
			err, tok = StreamError{StreamID: 1, Code: ErrCodeProtocol}, fmt.Sprintf("O%d", consume)
		case "cancel":
			err, tok = StreamError{StreamID: 1, Code: ErrCodeCancel, Cause: errFromPeer}, fmt.Sprintf("O%d", consume)
		case "closed":
			err, tok = errClientConnClosed, fmt.Sprintf("O%d", consume)
		case "eof":
			err, tok = io.ErrUnexpectedEOF, fmt.Sprintf("O%d", consume)
		}
		req, _ := http.NewRequest("POST", "https://verif.test/x", nil)
		var rd io.ReadCloser
		switch kind {
		case "nobody":
			req.Body = http.NoBody
		case "rew":
			rd = io.NopCloser(bytes.NewReader(data))
			req.Body = rd
			req.GetBody = func() (io.ReadCloser, error) { return io.NopCloser(bytes.NewReader(data)), nil }
		case "one":
			rd = io.NopCloser(bytes.NewReader(data))
			req.Body = rd
		case "fake":
			rd = io.NopCloser(bytes.NewReader(data))
			req.Body = rd
			req.GetBody = func() (io.ReadCloser, error) { return rd, nil }
		}
		if rd == nil {
			consume = 0
			if tok != "U" {
				tok = tok[:1] + "0"
			}
		} else if consume > 0 {
			io.ReadFull(rd, make([]byte, consume))
		}
		human := fmt.Sprintf("body=%s/%d read=%d err=%s", kind, size, consume, errName)
		var nreq *http.Request
		var rerr error
		if txt, p := verifh.Safely(func() { nreq, rerr = shouldRetryRequest(req, err) }); p {
			s.Crash(human, human, txt, "")
			continue
		}
		impl := "failed"
		ok := true
		if rerr == nil && nreq != nil {
			var b []byte
			if nreq.Body != nil {
				b, _ = io.ReadAll(nreq.Body)
			}
			impl = "accepted " + verifh.C01Blob(b)
			count("retry")
			if rd != nil {
				count("retry-with-body")
				if nreq != req {
					count("retry-rewound")
				}
			}
			if kind != "fake" && rd != nil && !bytes.Equal(b, data) {
				ok = false
				human += fmt.Sprintf(" ORACLE: the retried request carries %d of %d bytes", len(b), len(data))
			}
		} else {
			count("fail")
		}
		if canRetryError(err) != (errName == "U" || errName == "G" || errName == "R" || errName == "P") {
			ok = false
			human += " ORACLE: canRetryError"
		}
		honest, mk := "1", map[string]string{"none": "none", "nobody": "none", "rew": "rew", "one": "one", "fake": "one"}[kind]
		if kind == "fake" {
			honest = "0"
		}
		s.Case(fmt.Sprintf("c01h2retry %s %s %s,A gen.%d.%d.%d", honest, mk, tok, size, ga, gb), impl, ok, "", rerr == nil && rd != nil, human)
	}
	for _, b := range []string{"retry", "retry-with-body", "retry-rewound", "fail"} {
		if hist[b] == 0 {
			t.Errorf("lane did not reach bucket %q (vacuous pass refused)", b)
		}
	}
	s.Finish()
}

var _ = errors.New
