//go:build verif

package http2

import (
	"bytes"
	"context"
	"fmt"
	"io"
	"math/rand"
	"net/http"
	"strings"
	"testing"

	"github.com/imroc/req/v3/internal/dump"
	"github.com/imroc/req/v3/internal/transport"
	"github.com/imroc/req/v3/internal/verifh"
	xh2 "golang.org/x/net/http2"
	"golang.org/x/net/http2/hpack"
)

// ---- a tiny HPACK writer of our own (no Huffman), so that the lane knows the field list
// it put on the wire without trusting either side's encoder.

func c05hpackInt(b []byte, prefixBits uint, first byte, v uint64) []byte {
	max := uint64(1)<<prefixBits - 1
	if v < max {
		return append(b, first|byte(v))
	}
	b = append(b, first|byte(max))
	v -= max
	for v >= 128 {
		b = append(b, byte(v&0x7f)|0x80)
		v >>= 7
	}
	return append(b, byte(v))
}

func c05hpackStr(b []byte, s string) []byte {
	b = c05hpackInt(b, 7, 0, uint64(len(s)))
	return append(b, s...)
}

// c05hpackField encodes one field; mode 0 = literal without indexing (new name), 1 = literal
// with incremental indexing (new name), 2 = never indexed (new name).
func c05hpackField(b []byte, name, value string, mode int) []byte {
	switch mode {
	case 1:
		b = append(b, 0x40)
	case 2:
		b = append(b, 0x10)
	default:
		b = append(b, 0x00)
	}
	b = c05hpackStr(b, name)
	return c05hpackStr(b, value)
}

type c05field struct{ n, v string }

// c05fieldList: response-like field lists with the faults readMetaFrame/checkPseudos look for.
func c05fieldList(r *rand.Rand) ([]c05field, string) {
	regular := []string{"content-type", "server", "x-a", "x-b", "set-cookie", "content-length", "date", "a", "x-long-name-0123456789"}
	val := func() string {
		switch r.Intn(8) {
		case 0:
			return ""
		case 1:
			return strings.Repeat("v", c05pick(r, 1, 30, 100, 127, 128, 300))
		default:
			return verifh.RandBytes(r, 1+r.Intn(12), "abcdefghijklmnopqrstuvwxyz0123456789 ;=/")
		}
	}
	var fs []c05field
	kind := "valid"
	fs = append(fs, c05field{":status", c05pick(r, "200", "204", "404", "999", "abc", "")})
	for i := 0; i < r.Intn(6); i++ {
		fs = append(fs, c05field{verifh.Pick(r, regular), val()})
	}
	switch r.Intn(16) {
	case 0:
		fs = append(fs, c05field{":status", "200"})
		kind = "pseudo-after-regular"
		if len(fs) == 2 {
			kind = "pseudo-duplicate"
		}
	case 1:
		fs = append([]c05field{{":status", "200"}}, fs...)
		kind = "pseudo-duplicate"
	case 2:
		fs = append([]c05field{{c05pick(r, ":method", ":path", ":scheme", ":authority"), "x"}}, fs...)
		kind = "pseudo-mixed"
	case 3:
		fs = []c05field{{":method", "GET"}, {":path", "/"}, {":scheme", "https"}, {":authority", "a"}, {"x-a", "1"}}
		kind = "request-pseudos"
	case 4:
		fs = append([]c05field{{c05pick(r, ":foo", ":", ":Status", ":status ", ":statu"), "x"}}, fs...)
		kind = "pseudo-unknown"
	case 5:
		fs = append(fs, c05field{c05pick(r, "X-Upper", "x a", "", "x\x00", "é", "x:y", "x(y)"), "1"})
		kind = "bad-name"
	case 6:
		fs = append(fs, c05field{"x-a", c05pick(r, "a\x00b", "a\nb", "a\rb", "\x7f", "a\x1fb")})
		kind = "bad-value"
	case 7:
		fs = append(fs, c05field{"x-tab", "a\tb \x80\xff"})
		kind = "odd-but-valid-value"
	case 8:
		fs = []c05field{{":protocol", "websocket"}, {":method", "CONNECT"}}
		kind = "protocol-pseudo"
	case 9:
		fs = append([]c05field{{":protocol", "x"}}, fs...)
		kind = "protocol-pseudo"
	case 10:
		fs = nil
		kind = "empty"
	case 11:
		fs = fs[1:] // no pseudo at all
		kind = "no-pseudo"
	}
	return fs, kind
}

type c05dumpOpts struct {
	out    *bytes.Buffer
	header bool
}

func (o *c05dumpOpts) Output() io.Writer               { return o.out }
func (o *c05dumpOpts) RequestHeaderOutput() io.Writer  { return o.out }
func (o *c05dumpOpts) RequestBodyOutput() io.Writer    { return o.out }
func (o *c05dumpOpts) ResponseHeaderOutput() io.Writer { return o.out }
func (o *c05dumpOpts) ResponseBodyOutput() io.Writer   { return o.out }
func (o *c05dumpOpts) RequestHeader() bool             { return o.header }
func (o *c05dumpOpts) RequestBody() bool               { return false }
func (o *c05dumpOpts) ResponseHeader() bool            { return o.header }
func (o *c05dumpOpts) ResponseBody() bool              { return false }
func (o *c05dumpOpts) Async() bool                     { return false }
func (o *c05dumpOpts) Clone() dump.Options             { return o }

func c05metaAllFork(fr *Framer, limit int) []string {
	var out []string
	for i := 0; i < limit; i++ {
		f, err := fr.ReadFrame()
		if err != nil {
			it := c05errFork(err)
			if f != nil {
				it += "+f"
			}
			out = append(out, it)
			if terminalReadFrameError(err) {
				return out
			}
			continue
		}
		out = append(out, c05renderFork(f))
	}
	return append(out, "limit")
}

func c05metaAllRef(fr *xh2.Framer, limit int) []string {
	var out []string
	for i := 0; i < limit; i++ {
		f, err := fr.ReadFrame()
		if err != nil {
			it := c05errRef(err)
			if f != nil {
				it += "+f"
			}
			out = append(out, it)
			if _, ok := err.(xh2.StreamError); !ok {
				return out
			}
			continue
		}
		out = append(out, c05renderRef(f))
	}
	return append(out, "limit")
}

// TestVerif_C05_h2meta: ReadFrame with ReadMetaHeaders set (HEADERS+CONTINUATION merged and
// HPACK-decoded), fork vs x/net reference on identical bytes, with the fork's dump callbacks
// off, on (transport dumper) and on (request-context dumper); and vs the Lean model of
// readMetaFrame over the decoded events.
func TestVerif_C05_h2meta(t *testing.T) {
	s := verifh.New(t, "C05", "h2meta",
		"header blocks from response-like field lists (valid; pseudo after regular / duplicate / unknown / request+response mixed / :protocol; upper-case, empty, non-token names; control bytes in values; empty list) encoded with the lane's own Huffman-free HPACK writer (plain, incremental-indexing, never-indexed literals, static and invalid indices, truncated blocks), split at random offsets over HEADERS + 0..3 CONTINUATION frames (PADDED/PRIORITY/END_STREAM flags), MaxHeaderListSize in {0, 1, 33, total-1, total, total+1, total/2, 2^31, 2^32-1}; plus blocks from hpack.Encoder (Huffman, dynamic table) and random bytes, and broken frame sequences (fork vs reference only); fork run with dumpers off/on; answer = merged field list + Truncated, or error class (and whether a frame accompanies the error); non-trivial = a MetaHeadersFrame was returned")
	s.OracleIndependent = false
	r := s.Rand()
	hs := newC05hist(s)
	known := map[string]int{}
	n := verifh.N(5000, 200000)
	for c := 0; c < n; c++ {
		fields, kind := c05fieldList(r)
		var block []byte
		enc := r.Intn(10)
		modelable := true
		switch {
		case enc == 0: // the reference encoder (Huffman + dynamic table): fork vs reference only
			var hb bytes.Buffer
			he := hpack.NewEncoder(&hb)
			for _, f := range fields {
				he.WriteField(hpack.HeaderField{Name: f.n, Value: f.v, Sensitive: r.Intn(5) == 0})
			}
			block = hb.Bytes()
			modelable = false
			kind += "/huffman"
		case enc == 1: // random bytes
			block = []byte(verifh.RandBytes(r, r.Intn(40), ""))
			modelable = false
			kind = "random-block"
		default:
			for _, f := range fields {
				if f.n == ":status" && f.v == "200" && r.Intn(2) == 0 {
					block = append(block, 0x88) // static index 8
				} else if f.n == ":method" && f.v == "GET" && r.Intn(2) == 0 {
					block = append(block, 0x82)
				} else {
					block = c05hpackField(block, f.n, f.v, r.Intn(3))
				}
			}
			switch r.Intn(14) {
			case 0:
				block = append(block, c05pick(r, byte(0x80), 0xff, 0xbe)) // index 0 / out of range
				kind += "+badindex"
			case 1:
				if len(block) > 1 {
					block = block[:len(block)-1-r.Intn(min(3, len(block)-1))] // ends inside a field
					kind += "+truncblock"
				}
			case 2:
				block = append(block, 0x3f, 0xe1, 0x1f) // dynamic table size update (4096) after fields: error
				kind += "+lateupdate"
			}
		}
		total := 0
		for _, f := range fields {
			total += len(f.n) + len(f.v) + 32
		}
		maxList := c05pick(r, uint32(0), 0, 0, 0, uint32(total), uint32(total+1), uint32(max(total-1, 1)), uint32(max(total/2, 1)), 1, 33, 40, 1<<31, 1<<32-1, uint32(1+r.Intn(400)))
		// fragments
		nFrag := 1 + r.Intn(4)
		var frags [][]byte
		rest := block
		for i := 0; i < nFrag-1; i++ {
			k := 0
			if len(rest) > 0 {
				k = r.Intn(len(rest) + 1)
			}
			frags = append(frags, rest[:k])
			rest = rest[k:]
		}
		frags = append(frags, rest)
		sid := c05pick(r, uint32(1), 3, 0x7fffffff)
		// frames
		var in []byte
		for i, fg := range frags {
			fl := byte(0)
			if i == len(frags)-1 {
				fl |= 4
			}
			if i == 0 {
				var p []byte
				padLen := 0
				if r.Intn(4) == 0 {
					fl |= 8
					padLen = r.Intn(5)
					p = append(p, byte(padLen))
				}
				if r.Intn(4) == 0 {
					fl |= 0x20
					p = append(p, 0x80, 0, 0, 1, 16)
				}
				if r.Intn(2) == 0 {
					fl |= 1
				}
				p = append(p, fg...)
				p = append(p, make([]byte, padLen)...)
				in = append(in, c05frame(1, fl, sid, p)...)
			} else {
				in = append(in, c05frame(9, fl, sid, fg)...)
			}
		}
		in = append(in, c05frame(6, 0, 0, []byte("ABCDEFGH"))...)
		// broken sequences: fork vs reference only
		switch r.Intn(12) {
		case 0:
			in = in[:r.Intn(len(in))]
			modelable = false
			kind += "+cut"
		case 1:
			if len(frags) > 1 {
				// interleave a PING inside the block
				first := 9 + int(in[0])<<16 + int(in[1])<<8 + int(in[2])
				in = append(append(append([]byte(nil), in[:first]...), c05frame(6, 0, 0, []byte("ABCDEFGH"))...), in[first:]...)
				modelable = false
				kind += "+interleaved"
			}
		}

		mk := func() *Framer {
			fk := NewFramer(nil, bytes.NewReader(in))
			fk.ReadMetaHeaders = hpack.NewDecoder(4096, nil)
			fk.MaxHeaderListSize = maxList
			return fk
		}
		var fa []string
		if p, bad := verifh.Safely(func() { fa = c05metaAllFork(mk(), 16) }); bad {
			s.Crash("h2meta "+c05hex(in), kind, p, "")
			continue
		}
		rf := xh2.NewFramer(nil, bytes.NewReader(in))
		rf.ReadMetaHeaders = hpack.NewDecoder(4096, nil)
		rf.MaxHeaderListSize = maxList
		ra := c05metaAllRef(rf, 16)
		impl, ref := strings.Join(fa, ";"), strings.Join(ra, ";")
		ok := impl == ref
		why := ""
		if !ok {
			why = " [fork != reference]"
		}
		// the dump callbacks must not change what ReadFrame returns
		for variant := 0; variant < 3; variant++ {
			var out bytes.Buffer
			fk := mk()
			d := dump.NewDumper(&c05dumpOpts{out: &out, header: variant != 2})
			cc := &ClientConn{t: &Transport{Options: &transport.Options{}}, streams: map[uint32]*clientStream{}}
			switch variant {
			case 0, 2: // transport-level dumper (2: ResponseHeader() == false -> filtered out)
				cc.t.Options.Dump = d
			case 1: // request-level dumper found through the stream's current request
				req, _ := http.NewRequestWithContext(context.WithValue(context.Background(), dump.DumperKey, d), "GET", "https://example.com/", nil)
				cc.streams[sid] = &clientStream{currentRequest: req}
			}
			fk.cc = cc
			var fd []string
			if p, bad := verifh.Safely(func() { fd = c05metaAllFork(fk, 16) }); bad {
				s.Crash("h2meta-dump "+c05hex(in), kind, p, "")
				ok = false
				continue
			}
			if strings.Join(fd, ";") != impl {
				ok = false
				why += fmt.Sprintf(" [dump variant %d changes the result: %s]", variant, strings.Join(fd, ";"))
			}
			gotM := strings.HasPrefix(fd[0], "M ")
			if variant == 2 && out.Len() != 0 {
				ok = false
				why += " [dumper without ResponseHeader() wrote output]"
			}
			if variant != 2 && gotM && !strings.HasSuffix(out.String(), "\r\n") {
				ok = false
				why += " [header dump not terminated]"
			}
			if out.Len() > 0 {
				hs.Count("dump-output")
			}
		}
		// known finding C05-1: a block with the :protocol pseudo-header that the reference accepts
		// and the pinned fork answers with exactly StreamError{sid, PROTOCOL_ERROR}
		class := ""
		first := fa[0]
		for _, f := range fields {
			if f.n == ":protocol" && strings.HasPrefix(ra[0], "M ") && first == fmt.Sprintf("stream:%d:1", sid) {
				class = "h2-protocol-pseudo"
			}
		}
		hs.Count(kind)
		switch {
		case strings.HasPrefix(first, "M "):
			hs.Count("res-meta")
			if strings.HasSuffix(first, " 1") {
				hs.Count("res-truncated")
			}
		default:
			hs.Count("res-" + strings.SplitN(first, ":", 2)[0] + c05codeOf(strings.TrimSuffix(first, "+f")))
		}
		if class != "" {
			// report a known finding a few times only: the harness keeps a bounded list of
			// mismatches and a new violation must not drown in known ones
			if known[class]++; known[class] > 3 {
				hs.Count("known-finding-not-repeated")
				continue
			}
		}
		human := fmt.Sprintf("[%s max=%d frags=%d] %s -> fork=%s | ref=%s%s", kind, maxList, len(frags), c05short(c05hex(in)), c05short(impl), c05short(ref), why)
		if !modelable {
			s.Observe("h2meta "+fmt.Sprint(maxList)+" "+c05hex(in), ok, class, strings.HasPrefix(first, "M "), human, impl+" | "+ref)
			continue
		}
		// events per fragment from an independent decoder run (emitting always on)
		var evParts []string
		dec := hpack.NewDecoder(4096, nil)
		ml := maxList
		if ml == 0 {
			ml = 16 << 20
		}
		dec.SetMaxStringLength(int(ml))
		closeErr := false
		failed := false
		for _, fg := range frags {
			var evs []string
			dec.SetEmitFunc(func(hf hpack.HeaderField) {
				evs = append(evs, "f:"+verifh.Hex(hf.Name)+":"+verifh.Hex(hf.Value))
			})
			if !failed {
				if _, err := dec.Write(fg); err != nil {
					evs = append(evs, "e")
					failed = true
				}
			}
			evParts = append(evParts, fmt.Sprintf("%d/%s", len(fg), strings.Join(evs, "+")))
		}
		if !failed {
			closeErr = dec.Close() != nil
		}
		// canonical answer of the first ReadFrame call
		var ans string
		switch {
		case strings.HasPrefix(first, "M "):
			p := strings.Split(first, " ")
			ans = "ok " + p[len(p)-2] + " " + p[len(p)-1]
		default:
			ans = strings.TrimSuffix(first, "+f")
			if strings.HasPrefix(ans, "stream:") {
				q := strings.Split(ans, ":")
				ans = "stream:" + q[2]
			}
		}
		line := fmt.Sprintf("c05h2meta %d %s %s", maxList, c05b01(closeErr), strings.Join(evParts, ";"))
		s.Case(line, ans, ok, class, strings.HasPrefix(first, "M "), human)
	}
	s.Finish()
	hs.Require(t, "res-meta", "res-truncated", "res-conn1", "res-conn9", "res-stream1", "valid", "pseudo-after-regular", "pseudo-duplicate", "pseudo-mixed",
		"request-pseudos", "pseudo-unknown", "bad-name", "bad-value", "protocol-pseudo", "empty", "no-pseudo", "dump-output")
}
