//go:build verif

package http2

import (
	"context"
	"errors"
	"fmt"
	"io"
	"net"
	"net/http"
	"net/http/httptrace"
	"strings"
	"sync"
	"testing"
	"time"

	"github.com/imroc/req/v3/internal/transport"
	"github.com/imroc/req/v3/internal/verifh"
)

// TestVerif_C09_h2dialshare: callers that share ONE in-flight dial of the HTTP/2 connection pool
// (clientConnPool.GetClientConn, dialCall). The dial is parked in the DialTLSContext hook. The
// caller that started it is cancelled (or its deadline passes) — the dial fails with that
// context's error — or the dial fails for a reason of its own. Every caller must get what ITS OWN
// situation calls for: a caller whose context is alive never fails with somebody else's
// cancellation (it dials again and gets a connection); a genuine dial error reaches everybody;
// a caller whose own context is done may fail.
func TestVerif_C09_h2dialshare(t *testing.T) {
	s := verifh.New(t, "C09", "h2dialshare",
		"1 starter + 1..3 joiners (each seen inside GetClientConn, under the pool mutex, before the next step) on one cold address; the shared dial is parked; then: starter cancelled / starter deadline passes / genuine dial error / dial succeeds; some joiners cancel themselves first; the re-dial (under a joiner's context) succeeds or fails genuinely; oracle per caller from its own context and the dial outcomes; non-trivial = a joiner with a live context had to dial again")
	r := s.Rand()
	ln, err := net.Listen("tcp", "127.0.0.1:0")
	if err != nil {
		t.Fatalf("listen: %v", err)
	}
	defer ln.Close()
	go func() {
		for {
			c, err := ln.Accept()
			if err != nil {
				return
			}
			go io.Copy(io.Discard, c)
		}
	}()
	n := verifh.N(24, 300)
	for cs := 0; cs < n; cs++ {
		joiners := 1 + r.Intn(3)
		outcome := verifh.Pick(r, []string{"starter-cancelled", "starter-cancelled", "starter-deadline", "dial-error", "dial-ok"})
		redialOK := r.Intn(4) != 0
		selfCancel := make([]bool, joiners)
		for i := range selfCancel {
			selfCancel[i] = r.Intn(5) == 0
		}
		human := fmt.Sprintf("joiners=%d outcome=%s redial-ok=%v joiners-cancelling-themselves=%v", joiners, outcome, redialOK, selfCancel)
		s.Begin(fmt.Sprintf("h2dialshare-%d", cs), human)

		type dialReq struct {
			ctx     context.Context
			release chan error // nil = connect
		}
		var dmu sync.Mutex
		var dials []*dialReq
		tr := &Transport{Options: &transport.Options{}}
		tr.DialTLSContext = func(ctx context.Context, network, addr string) (net.Conn, error) {
			d := &dialReq{ctx: ctx, release: make(chan error, 1)}
			dmu.Lock()
			dials = append(dials, d)
			dmu.Unlock()
			select {
			case e := <-d.release:
				if e != nil {
					return nil, e
				}
				return net.Dial("tcp", ln.Addr().String())
			case <-ctx.Done():
				return nil, ctx.Err()
			}
		}
		pool := tr.connPool().(*clientConnPool)
		addr := "example.test:443"
		type caller struct {
			cancel context.CancelFunc
			done   chan error
		}
		start := func(ctx context.Context, cancel context.CancelFunc) *caller {
			c := &caller{cancel: cancel, done: make(chan error, 1)}
			inPool := make(chan struct{})
			var once sync.Once
			ctx = httptrace.WithClientTrace(ctx, &httptrace.ClientTrace{GetConn: func(string) { once.Do(func() { close(inPool) }) }})
			req, _ := http.NewRequestWithContext(ctx, "GET", "https://example.test/", nil)
			go func() {
				cc, err := pool.GetClientConn(req, addr, true)
				if err == nil && cc == nil {
					err = errors.New("nil connection without an error")
				}
				c.done <- err
			}()
			// GetConn fires under the pool mutex, right before the caller starts / joins the dial
			select {
			case <-inPool:
			case <-time.After(3 * time.Second):
			}
			pool.mu.Lock()
			pool.mu.Unlock()
			return c
		}
		var sctx context.Context
		var scancel context.CancelFunc
		if outcome == "starter-deadline" {
			sctx, scancel = context.WithTimeout(context.Background(), 40*time.Millisecond)
		} else {
			sctx, scancel = context.WithCancel(context.Background())
		}
		starter := start(sctx, scancel)
		var js []*caller
		for i := 0; i < joiners; i++ {
			ctx, cancel := context.WithCancel(context.Background())
			js = append(js, start(ctx, cancel))
		}
		// the dial goroutine registers itself in `dials` a moment after GetClientConn has released
		// the pool mutex: wait for it (under machine load `dials[0]` below was reached first —
		// harness panic "index out of range" in the thorough tier, r5)
		nd := 0
		for dl := time.Now().Add(3 * time.Second); ; {
			dmu.Lock()
			nd = len(dials)
			dmu.Unlock()
			if nd >= 1 || time.Now().After(dl) {
				break
			}
			time.Sleep(50 * time.Microsecond)
		}
		if nd == 0 {
			s.Observe(fmt.Sprintf("h2dialshare-%d", cs), false, "", false, human, "no dial was started within 3 s")
			continue
		}
		joined := nd == 1
		for i, c := range js {
			if selfCancel[i] {
				c.cancel()
			}
		}
		genuine := errors.New("verif: connection refused")
		switch outcome {
		case "starter-cancelled":
			starter.cancel()
		case "starter-deadline":
			// passes on its own
		case "dial-error":
			dials[0].release <- genuine
		case "dial-ok":
			dials[0].release <- nil
		}
		// whoever dials again
		stop := make(chan struct{})
		go func() {
			seen := 1
			for {
				select {
				case <-stop:
					return
				default:
				}
				dmu.Lock()
				for ; seen < len(dials); seen++ {
					if redialOK {
						dials[seen].release <- nil
					} else {
						dials[seen].release <- genuine
					}
				}
				dmu.Unlock()
				time.Sleep(200 * time.Microsecond)
			}
		}()
		ok := true
		var detail []string
		wait := func(c *caller) (error, bool) {
			select {
			case e := <-c.done:
				return e, true
			case <-time.After(5 * time.Second):
				return nil, false
			}
		}
		se, fin := wait(starter)
		if !fin {
			ok = false
			detail = append(detail, "the starter never returned")
		} else if (outcome == "starter-cancelled" || outcome == "starter-deadline") && se == nil {
			// it may still have got a connection if the cancellation lost the race; fine
		} else if outcome == "dial-ok" && se != nil {
			ok = false
			detail = append(detail, "the starter failed although the dial succeeded: "+se.Error())
		}
		redialed := false
		for i, c := range js {
			e, fin := wait(c)
			switch {
			case !fin:
				ok = false
				detail = append(detail, fmt.Sprintf("joiner %d never returned", i))
			case selfCancel[i]:
				// its own context is done: any answer
			case outcome == "dial-ok":
				if e != nil {
					ok = false
					detail = append(detail, fmt.Sprintf("joiner %d failed although the shared dial succeeded: %v", i, e))
				}
			case outcome == "dial-error":
				if e == nil || !strings.Contains(e.Error(), "connection refused") {
					ok = false
					detail = append(detail, fmt.Sprintf("joiner %d: want the dial's own error, got %v", i, e))
				}
			default: // the starter's context ended: this caller's context is alive
				redialed = true
				if redialOK && e != nil {
					ok = false
					detail = append(detail, fmt.Sprintf("joiner %d (context alive) failed with the starter's cancellation instead of dialling again: %v", i, e))
				}
				if !redialOK && (e == nil || errors.Is(e, context.Canceled) || errors.Is(e, context.DeadlineExceeded)) {
					ok = false
					detail = append(detail, fmt.Sprintf("joiner %d (context alive): want the error of its own dial, got %v", i, e))
				}
			}
		}
		close(stop)
		starter.cancel()
		for _, c := range js {
			c.cancel()
		}
		pool.mu.Lock()
		for _, vv := range pool.conns {
			for _, cc := range vv {
				go cc.Close()
			}
		}
		pool.mu.Unlock()
		if joined {
			s.Count("joiners-shared-the-dial")
		}
		s.Count("outcome-" + outcome)
		s.Observe(fmt.Sprintf("h2dialshare-%d", cs), ok, "", joined && redialed, human, strings.Join(detail, "; "))
		if !ok {
			break
		}
	}
	s.Finish()
}
