//go:build verif

package http2

import (
	"bytes"
	"fmt"
	"io"
	"net/http"
	"net/url"
	"sort"
	"strconv"
	"strings"
	"testing"

	"github.com/imroc/req/v3/internal/dump"
	"github.com/imroc/req/v3/internal/verifh"
	"golang.org/x/net/http2/hpack"
)

type c05nopBody struct{}

func (c05nopBody) Read([]byte) (int, error) { return 0, io.EOF }
func (c05nopBody) Close() error             { return nil }

// TestVerif_C05_h2encode: the HPACK blocks ClientConn.encodeHeaders / encodeTrailers produce,
// decoded by the x/net reference decoder that shares the dynamic table over consecutive requests of
// one connection, give exactly the field list the request stands for.
func TestVerif_C05_h2encode(t *testing.T) {
	s := verifh.New(t, "C05", "h2encode",
		"connections of 1..6 consecutive requests sharing one HPACK encoder and one reference decoder (dynamic-table synchronisation): methods incl. CONNECT and empty, URLs with queries/escapes/IDN hosts, Host override, 0..8 headers (mixed case, repeated values, empty and 300-byte values, obs-text, excluded connection fields, User-Agent set/empty/absent, Cookie values that are split into crumbs), trailers announcement, content length known/unknown/zero, gzip flag, header dumpers on/off; trailers blocks from encodeTrailers; oracle: hpack.Decoder.DecodeFull gives the expected pseudo-header fields in order and the expected regular fields as a multiset, all names lower-case; non-trivial = block produced")
	r := s.Rand()
	hs := newC05hist(s)
	n := verifh.N(500, 20000)
	for c := 0; c < n; c++ {
		cc := &ClientConn{peerMaxHeaderListSize: 0xffffffffffffffff}
		cc.henc = hpack.NewEncoder(&cc.hbuf)
		dec := hpack.NewDecoder(4096, nil)
		if r.Intn(6) == 0 {
			cc.peerMaxHeaderListSize = uint64(c05pick(r, 100, 200, 400))
		}
		for q := 0; q < 1+r.Intn(6); q++ {
			method := c05pick(r, "GET", "GET", "POST", "PUT", "HEAD", "CONNECT", "", "DELETE")
			host := c05pick(r, "example.com", "example.com:8443", "bücher.example", "[::1]:8443")
			path := c05pick(r, "/", "/a/b", "/p?q=1&r=%20x", "/%C3%A9", "", "/"+strings.Repeat("seg/", r.Intn(10)))
			u, err := url.Parse("https://" + host + path)
			if err != nil {
				continue
			}
			req := &http.Request{Method: method, URL: u, Header: http.Header{}}
			if r.Intn(5) == 0 {
				req.Host = "override.example:1234"
			}
			names := []string{"Accept", "accept-language", "X-Custom", "x-UPPER-lower", "Authorization", "X-Empty", "Content-Type", "Referer", "X_Under.score"}
			for i := 0; i < r.Intn(9); i++ {
				k := verifh.Pick(r, names)
				v := c05pick(r, "v", "", "a b;c=d", "caf\xe9 obs-text", strings.Repeat("x", 300), verifh.RandBytes(r, 1+r.Intn(20), "abcdefghijklmnopqrstuvwxyz0123456789-_ "))
				req.Header[k] = append(req.Header[k], v)
			}
			switch r.Intn(5) {
			case 0:
				req.Header["User-Agent"] = []string{c05pick(r, "my-agent/1.0", "")}
			case 1:
				req.Header["user-agent"] = []string{"lower-agent", "ignored-second"}
			}
			if r.Intn(4) == 0 {
				req.Header["Cookie"] = []string{c05pick(r, "a=1", "a=1; b=2", "a=1;b=2;  c=3", "a=1; ", ";", "")}
				if r.Intn(2) == 0 {
					req.Header["Cookie"] = append(req.Header["Cookie"], "z=26; y=25")
				}
			}
			if r.Intn(4) == 0 {
				k := c05pick(r, "Connection", "Keep-Alive", "Proxy-Connection", "Transfer-Encoding", "Upgrade", "Host", "Content-Length")
				req.Header[k] = []string{"x"}
			}
			gzip := r.Intn(3) == 0
			trailers := c05pick(r, "", "", "", "X-T1,X-T2")
			cl := int64(c05pick(r, 0, 0, 1, 1234, -1))
			var dumps []*dump.Dumper
			var dumpOut bytes.Buffer
			if r.Intn(3) == 0 {
				dumps = []*dump.Dumper{dump.NewDumper(&c05dumpOpts{out: &dumpOut, header: true})}
			}
			block, eerr := cc.encodeHeaders(req, gzip, trailers, cl, dumps)

			var wantPseudo, wantRegular []string
			authority := req.Host
			if authority == "" {
				authority = u.Host
			}
			if strings.HasPrefix(authority, "bücher") {
				authority = "xn--bcher-kva.example"
			}
			m := method
			if m == "" {
				m = "GET"
			}
			wantPseudo = append(wantPseudo, ":authority="+authority, ":method="+m)
			if method != "CONNECT" {
				wantPseudo = append(wantPseudo, ":path="+u.RequestURI(), ":scheme=https")
			}
			if trailers != "" {
				wantRegular = append(wantRegular, "trailer="+trailers)
			}
			didUA := false
			for k, vv := range req.Header {
				lk := strings.ToLower(k)
				switch lk {
				case "host", "content-length", "connection", "proxy-connection", "transfer-encoding", "upgrade", "keep-alive":
					continue
				case "user-agent":
					didUA = true
					if len(vv) == 0 || vv[0] == "" {
						continue
					}
					wantRegular = append(wantRegular, lk+"="+vv[0])
					continue
				case "cookie":
					for _, v := range vv {
						for _, crumb := range strings.Split(v, ";") {
							crumb = strings.TrimLeft(crumb, " ")
							if crumb == "" && !strings.Contains(v, ";") {
								continue
							}
							wantRegular = append(wantRegular, "cookie="+crumb)
						}
					}
					continue
				}
				for _, v := range vv {
					wantRegular = append(wantRegular, lk+"="+v)
				}
			}
			if cl > 0 || (cl == 0 && (method == "POST" || method == "PUT" || method == "PATCH")) {
				wantRegular = append(wantRegular, "content-length="+strconv.FormatInt(cl, 10))
			}
			if gzip {
				wantRegular = append(wantRegular, "accept-encoding=gzip")
			}
			if !didUA {
				wantRegular = append(wantRegular, "user-agent=req/v3 (https://github.com/imroc/req)")
			}
			sort.Strings(wantRegular)
			id := fmt.Sprintf("h2encode-%d-%d", c, q)
			human := fmt.Sprintf("%q %s host=%q hdr=%d gzip=%v trailers=%q cl=%d", method, u.String(), req.Host, len(req.Header), gzip, trailers, cl)
			if eerr != nil {
				// errRequestHeaderListSize (small peer limit) is the only refusal the generator provokes
				hs.Count("refused")
				s.Observe(id, eerr == errRequestHeaderListSize, "", false, human+" refused: "+eerr.Error(), "")
				continue
			}
			fields, derr := dec.DecodeFull(block)
			var gp, gr []string
			ok := derr == nil
			seenRegular := false
			for _, f := range fields {
				if strings.HasPrefix(f.Name, ":") {
					if seenRegular {
						ok = false
					}
					gp = append(gp, f.Name+"="+f.Value)
				} else {
					seenRegular = true
					if strings.ToLower(f.Name) != f.Name {
						ok = false
					}
					gr = append(gr, f.Name+"="+f.Value)
				}
			}
			sort.Strings(gr)
			// the cookie oracle above is deliberately simple; compare cookie crumbs as the set of
			// non-empty crumbs
			norm := func(l []string) string {
				var o []string
				for _, x := range l {
					if x == "cookie=" {
						continue
					}
					o = append(o, x)
				}
				return strings.Join(o, "\x00")
			}
			if strings.Join(gp, "\x00") != strings.Join(wantPseudo, "\x00") || norm(gr) != norm(wantRegular) {
				ok = false
			}
			if dumps != nil && dumpOut.Len() == 0 {
				ok = false
			}
			hs.Count("encoded")
			if q > 0 {
				hs.Count("encoded-with-dynamic-table-state")
			}
			detail := ""
			if !ok {
				detail = fmt.Sprintf("decode err=%v got pseudo=%q regular=%q want pseudo=%q regular=%q", derr, gp, gr, wantPseudo, wantRegular)
			}
			s.Observe(id, ok, "", true, human, detail)

			// trailers block on the same connection
			if r.Intn(4) == 0 {
				tr := http.Header{"X-T1": {"v1", "v2"}, "x-t2": {strings.Repeat("t", r.Intn(100))}}
				tb, terr := cc.encodeTrailers(tr, dumps)
				if terr != nil {
					s.Observe(id+"-trailers", terr == errRequestHeaderListSize, "", false, "trailers refused", terr.Error())
					continue
				}
				tf, derr := dec.DecodeFull(tb)
				var got []string
				for _, f := range tf {
					got = append(got, f.Name+"="+f.Value)
				}
				sort.Strings(got)
				want := []string{"x-t1=v1", "x-t1=v2", "x-t2=" + tr["x-t2"][0]}
				sort.Strings(want)
				hs.Count("trailers")
				s.Observe(id+"-trailers", derr == nil && strings.Join(got, "\x00") == strings.Join(want, "\x00"), "", true, "encodeTrailers", fmt.Sprintf("got %q want %q", got, want))
			}
		}
	}
	s.Finish()
	hs.Require(t, "encoded", "encoded-with-dynamic-table-state", "trailers", "refused")
}
