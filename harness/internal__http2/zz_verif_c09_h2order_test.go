//go:build verif

package http2

import (
	"fmt"
	"io"
	"net"
	"net/http"
	"strconv"
	"strings"
	"sync"
	"testing"
	"time"

	"github.com/imroc/req/v3/internal/transport"
	"github.com/imroc/req/v3/internal/verifh"
	xh2c09 "golang.org/x/net/http2"
)

// TestVerif_C09_h2order: several goroutines share ONE HTTP/2 connection (a real ClientConn
// against an x/net/http2 server, the reference peer, which kills the connection with
// GOAWAY(PROTOCOL_ERROR) when stream ids are opened out of order, RFC 9113 5.1.1). The
// schedule is forced with the roundTrip stream hook (it runs right after the stream id is
// allocated, before HEADERS are written): chosen requests are descheduled there while the
// others are started. Every caller must still get the response to its own request.
func TestVerif_C09_h2order(t *testing.T) {
	s := verifh.New(t, "C09", "h2order",
		"2..5 concurrent requests (GET, and POST with 1..40000 B bodies) on one HTTP/2 ClientConn against an x/net/http2 server; a seeded subset of them is stalled for 150 ms in the stream hook between stream-id allocation and the HEADERS write while the others start; oracle: no request fails (no GOAWAY/PROTOCOL_ERROR), every response echoes its own tag and body length; non-trivial = at least one request was started while another one was stalled with its id allocated")
	r := s.Rand()
	n := verifh.N(6, 60)
	for cs := 0; cs < n; cs++ {
		ln, err := net.Listen("tcp", "127.0.0.1:0")
		if err != nil {
			t.Fatalf("listen: %v", err)
		}
		handler := http.HandlerFunc(func(w http.ResponseWriter, r *http.Request) {
			b, _ := io.ReadAll(r.Body)
			w.Header().Set("X-Tag", r.Header.Get("X-Tag"))
			fmt.Fprintf(w, "echo:%s:%d", r.Header.Get("X-Tag"), len(b))
		})
		go func() {
			c, err := ln.Accept()
			if err != nil {
				return
			}
			(&xh2c09.Server{}).ServeConn(c, &xh2c09.ServeConnOpts{Handler: handler})
		}()
		conn, err := net.Dial("tcp", ln.Addr().String())
		if err != nil {
			t.Fatalf("dial: %v", err)
		}
		tr := &Transport{Options: &transport.Options{}}
		cc, err := tr.NewClientConn(conn)
		if err != nil {
			t.Fatalf("NewClientConn: %v", err)
		}
		k := 2 + r.Intn(4)
		type spec struct {
			tag   int
			size  int // request body (0 = GET)
			stall bool
		}
		specs := make([]spec, k)
		anyStall := false
		for i := range specs {
			specs[i] = spec{tag: cs*100 + i + 1, stall: r.Intn(2) == 0}
			if r.Intn(3) == 0 {
				specs[i].size = verifh.Pick(r, []int{1, 500, 40000})
			}
			if i < k-1 && specs[i].stall {
				anyStall = true
			}
		}
		if !anyStall {
			specs[0].stall = true
		}
		var desc []string
		for _, sp := range specs {
			d := fmt.Sprintf("t%d", sp.tag)
			if sp.size > 0 {
				d += fmt.Sprintf("+%dB", sp.size)
			}
			if sp.stall {
				d += "(stalled after id allocation)"
			}
			desc = append(desc, d)
		}
		human := strings.Join(desc, " ")
		s.Begin(fmt.Sprintf("h2order-%d", cs), human)
		errs := make([]error, k)
		var wg sync.WaitGroup
		for i, sp := range specs {
			hasID := make(chan struct{})
			wg.Add(1)
			go func(i int, sp spec) {
				defer wg.Done()
				var body io.Reader
				method := "GET"
				if sp.size > 0 {
					method, body = "POST", strings.NewReader(strings.Repeat("x", sp.size))
				}
				req, _ := http.NewRequest(method, "https://example.test/x", body)
				req.Header.Set("X-Tag", strconv.Itoa(sp.tag))
				var once sync.Once
				res, err := cc.roundTrip(req, func(cs *clientStream) {
					once.Do(func() { close(hasID) })
					if sp.stall {
						time.Sleep(150 * time.Millisecond) // descheduled with the id in hand
					}
				})
				once.Do(func() { close(hasID) })
				if err != nil {
					errs[i] = err
					return
				}
				b, rerr := io.ReadAll(res.Body)
				res.Body.Close()
				want := fmt.Sprintf("echo:%d:%d", sp.tag, sp.size)
				if rerr != nil {
					errs[i] = rerr
				} else if string(b) != want || res.Header.Get("X-Tag") != strconv.Itoa(sp.tag) {
					errs[i] = fmt.Errorf("got %q (X-Tag %q), want %q", b, res.Header.Get("X-Tag"), want)
				}
			}(i, sp)
			// the next request is started once this one has its stream id (or, when the
			// connection serialises correctly, once it is through)
			select {
			case <-hasID:
			case <-time.After(3 * time.Second):
			}
		}
		done := make(chan struct{})
		go func() { wg.Wait(); close(done) }()
		ok := true
		var detail []string
		select {
		case <-done:
			for i, e := range errs {
				if e != nil {
					ok = false
					detail = append(detail, fmt.Sprintf("t%d: %v", specs[i].tag, e))
				}
			}
		case <-time.After(20 * time.Second):
			ok = false
			detail = append(detail, "requests still blocked after 20 s")
		}
		conn.Close()
		ln.Close()
		s.Observe(fmt.Sprintf("h2order-%d", cs), ok, "", true, human, strings.Join(detail, "; "))
		s.Count(fmt.Sprintf("requests-%d", k))
		if !ok {
			break
		}
	}
	s.Finish()
}
