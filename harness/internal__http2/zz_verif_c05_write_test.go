//go:build verif

package http2

import (
	"bytes"
	"fmt"
	"strings"
	"testing"

	pub "github.com/imroc/req/v3/http2"
	"github.com/imroc/req/v3/internal/verifh"
	xh2 "golang.org/x/net/http2"
)

func c05werrFork(err error) string {
	switch err {
	case errStreamID:
		return "err:streamid"
	case errDepStreamID:
		return "err:depstreamid"
	case errPadLength:
		return "err:padlength"
	case errPadBytes:
		return "err:padbytes"
	case errFrameTooLarge:
		return "err:toolarge"
	}
	if err.Error() == "illegal window increment value" {
		return "err:windowincr"
	}
	return "err:other"
}

// the reference's write errors are unexported values; the pinned reference's texts identify them.
func c05werrRef(err error) string {
	if err == xh2.ErrFrameTooLarge {
		return "err:toolarge"
	}
	switch err.Error() {
	case "invalid stream ID":
		return "err:streamid"
	case "invalid dependent stream ID":
		return "err:depstreamid"
	case "pad length too large":
		return "err:padlength"
	case "padding bytes must all be zeros unless AllowIllegalWrites is enabled":
		return "err:padbytes"
	case "illegal window increment value":
		return "err:windowincr"
	}
	return "err:other"
}

type c05shortWriter struct{ n int }

func (w *c05shortWriter) Write(p []byte) (int, error) {
	if len(p) > w.n {
		return w.n, nil
	}
	return len(p), nil
}

// TestVerif_C05_h2write: every Framer.Write* with boundary/random arguments; byte-identical
// output (or the same error) from the fork, the x/net reference and the Lean model; the
// reference framer must parse what the fork wrote back to the arguments.
func TestVerif_C05_h2write(t *testing.T) {
	s := verifh.New(t, "C05", "h2write",
		"argument tuples for WriteData/WriteDataPadded (nil, empty, zero and non-zero padding, 255/256 pad bytes), WriteHeaders (all flag combinations, PadLength 0/1/255, zero/non-zero/illegal priority), WritePriority, WriteRSTStream, WriteSettings (0..12 settings), WriteSettingsAck, WritePing, WriteGoAway, WriteWindowUpdate (0, 1, 2^31-1, 2^31), WriteContinuation, WritePushPromise, WriteRawFrame; stream ids {0,1,2^31-1,2^31,2^32-1,random}; AllowIllegalWrites on/off; answer = bytes written or error kind; oracle: fork == reference byte for byte, and the reference framer parses the fork's bytes without a terminal error when the arguments are legal; 16 MiB payloads around the 2^24 limit are compared fork vs reference only; non-trivial = bytes were written")
	r := s.Rand()
	hs := newC05hist(s)
	sidOf := func() uint32 {
		return c05pick(r, uint32(1), 1, 3, 5, 0x7fffffff, 0, 0x80000000, 0x80000001, 0xffffffff, r.Uint32()>>uint(r.Intn(32)))
	}
	u32Of := func() uint32 {
		return c05pick(r, uint32(0), 1, 2, 0x7fffffff, 0x80000000, 0xffffffff, r.Uint32(), r.Uint32()>>uint(r.Intn(32)))
	}
	rb := func(n int) []byte { return []byte(verifh.RandBytes(r, n, "")) }
	n := verifh.N(6000, 150000)
	var fb, xb bytes.Buffer
	var fk *Framer
	var xf *xh2.Framer
	for c := 0; c < n; c++ {
		allow := r.Intn(5) == 0
		// one Framer pair serves a run of consecutive writes (as on a connection): what a write
		// leaves in the Framer (wbuf, a refused frame's half-written header) must not leak into
		// the next one
		if fk == nil || r.Intn(8) == 0 {
			fk = NewFramer(&fb, nil)
			xf = xh2.NewFramer(&xb, nil)
			hs.Count("fresh-framer")
		} else {
			hs.Count("reused-framer")
		}
		fb.Reset()
		xb.Reset()
		fk.AllowIllegalWrites = allow
		xf.AllowIllegalWrites = allow
		var line, human string
		var ferr, xerr error
		a := c05b01(allow)
		op := c % 13
		if op == 12 && c >= 13*600 {
			op = r.Intn(12) // the 64 KiB payload class is sampled 600 times, not more (line size)
		}
		switch op {
		case 0: // WriteData / WriteDataPadded
			sid := sidOf()
			end := r.Intn(2) == 0
			data := rb(c05pick(r, 0, 1, 10, r.Intn(64)))
			var pad []byte
			padS := "nil"
			switch r.Intn(7) {
			case 0:
				pad = []byte{}
				padS = "_"
			case 1:
				pad = make([]byte, c05pick(r, 1, 2, 254, 255, 256, 300))
			case 2:
				pad = make([]byte, 1+r.Intn(20))
				pad[r.Intn(len(pad))] = byte(1 + r.Intn(255))
			case 3:
				pad = make([]byte, r.Intn(30))
			}
			if pad != nil {
				padS = c05hex(pad)
			}
			if pad == nil && r.Intn(2) == 0 {
				ferr = fk.WriteData(sid, end, data)
				xerr = xf.WriteData(sid, end, data)
			} else {
				ferr = fk.WriteDataPadded(sid, end, data, pad)
				xerr = xf.WriteDataPadded(sid, end, data, pad)
			}
			line = fmt.Sprintf("c05wdata %s %d %s %s %s", a, sid, c05b01(end), c05hex(data), padS)
			human = "WriteDataPadded"
		case 1: // WriteHeaders
			p := HeadersFrameParam{StreamID: sidOf(), BlockFragment: rb(c05pick(r, 0, 1, r.Intn(40))), EndStream: r.Intn(2) == 0, EndHeaders: r.Intn(2) == 0,
				PadLength: c05pick(r, uint8(0), 0, 1, 2, 255, uint8(r.Intn(256)))}
			switch r.Intn(4) {
			case 0:
			case 1:
				p.Priority = pub.PriorityParam{StreamDep: u32Of(), Exclusive: r.Intn(2) == 0, Weight: uint8(r.Intn(256))}
			case 2:
				p.Priority = c05pick(r, pub.PriorityParam{Weight: 1}, pub.PriorityParam{Exclusive: true}, pub.PriorityParam{StreamDep: 1}, pub.PriorityParam{StreamDep: 0x80000000})
			default:
				p.Priority = pub.PriorityParam{StreamDep: uint32(r.Intn(100)), Weight: uint8(r.Intn(256))}
			}
			ferr = fk.WriteHeaders(p)
			xerr = xf.WriteHeaders(xh2.HeadersFrameParam{StreamID: p.StreamID, BlockFragment: p.BlockFragment, EndStream: p.EndStream, EndHeaders: p.EndHeaders, PadLength: p.PadLength,
				Priority: xh2.PriorityParam{StreamDep: p.Priority.StreamDep, Exclusive: p.Priority.Exclusive, Weight: p.Priority.Weight}})
			line = fmt.Sprintf("c05wheaders %s %d %s %s %d %d %s %d %s", a, p.StreamID, c05b01(p.EndStream), c05b01(p.EndHeaders), p.PadLength,
				p.Priority.StreamDep, c05b01(p.Priority.Exclusive), p.Priority.Weight, c05hex(p.BlockFragment))
			human = "WriteHeaders"
		case 2: // WritePriority
			sid := sidOf()
			p := pub.PriorityParam{StreamDep: u32Of(), Exclusive: r.Intn(2) == 0, Weight: uint8(r.Intn(256))}
			ferr = fk.WritePriority(sid, p)
			xerr = xf.WritePriority(sid, xh2.PriorityParam{StreamDep: p.StreamDep, Exclusive: p.Exclusive, Weight: p.Weight})
			line = fmt.Sprintf("c05wpriority %s %d %d %s %d", a, sid, p.StreamDep, c05b01(p.Exclusive), p.Weight)
			human = "WritePriority"
		case 3: // WriteRSTStream
			sid, code := sidOf(), u32Of()
			ferr = fk.WriteRSTStream(sid, ErrCode(code))
			xerr = xf.WriteRSTStream(sid, xh2.ErrCode(code))
			line = fmt.Sprintf("c05wrst %s %d %d", a, sid, code)
			human = "WriteRSTStream"
		case 4: // WriteSettings
			k := c05pick(r, 0, 1, 2, 6, 12, r.Intn(8))
			var fs []pub.Setting
			var xs []xh2.Setting
			var parts []string
			for i := 0; i < k; i++ {
				id := c05pick(r, uint16(1), 2, 3, 4, 5, 6, 0, 0xffff, uint16(r.Intn(65536)))
				v := u32Of()
				fs = append(fs, pub.Setting{ID: pub.SettingID(id), Val: v})
				xs = append(xs, xh2.Setting{ID: xh2.SettingID(id), Val: v})
				parts = append(parts, fmt.Sprintf("%d:%d", id, v))
			}
			ferr = fk.WriteSettings(fs...)
			xerr = xf.WriteSettings(xs...)
			l := "-"
			if k > 0 {
				l = strings.Join(parts, ",")
			}
			line = "c05wsettings " + l
			human = "WriteSettings"
		case 5:
			ferr = fk.WriteSettingsAck()
			xerr = xf.WriteSettingsAck()
			line = "c05wsettingsack"
			human = "WriteSettingsAck"
		case 6: // WritePing
			var d [8]byte
			copy(d[:], rb(8))
			ack := r.Intn(2) == 0
			ferr = fk.WritePing(ack, d)
			xerr = xf.WritePing(ack, d)
			line = fmt.Sprintf("c05wping %s %s", c05b01(ack), c05hex(d[:]))
			human = "WritePing"
		case 7: // WriteGoAway
			m, code := u32Of(), u32Of()
			dbg := rb(c05pick(r, 0, 0, 1, r.Intn(30)))
			ferr = fk.WriteGoAway(m, ErrCode(code), dbg)
			xerr = xf.WriteGoAway(m, xh2.ErrCode(code), dbg)
			line = fmt.Sprintf("c05wgoaway %d %d %s", m, code, c05hex(dbg))
			human = "WriteGoAway"
		case 8: // WriteWindowUpdate
			sid := c05pick(r, uint32(0), 1, 3, 0x7fffffff, 0x80000000, 0xffffffff, r.Uint32())
			inc := c05pick(r, uint32(0), 1, 2, 65535, 0x7ffffffe, 0x7fffffff, 0x80000000, 0x80000001, 0xffffffff, r.Uint32())
			ferr = fk.WriteWindowUpdate(sid, inc)
			xerr = xf.WriteWindowUpdate(sid, inc)
			line = fmt.Sprintf("c05wwu %s %d %d", a, sid, inc)
			human = "WriteWindowUpdate"
		case 9: // WriteContinuation
			sid := sidOf()
			eh := r.Intn(2) == 0
			frag := rb(c05pick(r, 0, 1, r.Intn(40)))
			ferr = fk.WriteContinuation(sid, eh, frag)
			xerr = xf.WriteContinuation(sid, eh, frag)
			line = fmt.Sprintf("c05wcont %s %d %s %s", a, sid, c05b01(eh), c05hex(frag))
			human = "WriteContinuation"
		case 10: // WritePushPromise
			p := PushPromiseParam{StreamID: sidOf(), PromiseID: sidOf(), BlockFragment: rb(c05pick(r, 0, 1, r.Intn(40))), EndHeaders: r.Intn(2) == 0,
				PadLength: c05pick(r, uint8(0), 0, 1, 255, uint8(r.Intn(256)))}
			ferr = fk.WritePushPromise(p)
			xerr = xf.WritePushPromise(xh2.PushPromiseParam{StreamID: p.StreamID, PromiseID: p.PromiseID, BlockFragment: p.BlockFragment, EndHeaders: p.EndHeaders, PadLength: p.PadLength})
			line = fmt.Sprintf("c05wpp %s %d %d %s %d %s", a, p.StreamID, p.PromiseID, c05b01(p.EndHeaders), p.PadLength, c05hex(p.BlockFragment))
			human = "WritePushPromise"
		case 11: // WriteRawFrame
			ty, fl, sid := byte(r.Intn(256)), byte(r.Intn(256)), sidOf()
			pl := rb(c05pick(r, 0, 1, 255, 256, 257, r.Intn(40)))
			ferr = fk.WriteRawFrame(FrameType(ty), Flags(fl), sid, pl)
			xerr = xf.WriteRawFrame(xh2.FrameType(ty), xh2.Flags(fl), sid, pl)
			line = fmt.Sprintf("c05wraw %d %d %d %s", ty, fl, sid, c05hex(pl))
			human = "WriteRawFrame"
		default: // larger payloads: the length bytes above 255 / 65535
			sid := c05pick(r, uint32(1), 3)
			data := rb(c05pick(r, 255, 256, 257, 16384, 65535, 65536, 65537))
			ferr = fk.WriteData(sid, false, data)
			xerr = xf.WriteData(sid, false, data)
			line = fmt.Sprintf("c05wdata %s %d 0 %s nil", a, sid, c05hex(data))
			human = "WriteData(large)"
		}
		impl := c05hex(fb.Bytes())
		if ferr != nil {
			impl = c05werrFork(ferr)
			if fb.Len() != 0 {
				impl += "+wrote"
			}
		}
		ref := c05hex(xb.Bytes())
		if xerr != nil {
			ref = c05werrRef(xerr)
		}
		ok := impl == ref
		hs.Count(human)
		if ferr != nil {
			hs.Count(impl)
		} else if !allow && op != 11 {
			// the reference reader must accept what the fork wrote (legal arguments)
			rd := xh2.NewFramer(nil, bytes.NewReader(fb.Bytes()))
			rd.SetMaxReadFrameSize(1<<24 - 1)
			f, err := rd.ReadFrame()
			if err != nil {
				if _, isStream := err.(xh2.StreamError); !isStream || op != 8 {
					// WINDOW_UPDATE on a stream is never illegal to write; everything else must parse
					if !(op == 8) && !(op == 4) && !(op == 9) {
						ok = false
						human += " [reference cannot parse: " + err.Error() + "]"
					}
				}
			} else if int(f.Header().Length) != fb.Len()-9 {
				ok = false
			}
		}
		s.Case(line, impl, ok, "", ferr == nil, fmt.Sprintf("%s allow=%v: %s -> fork=%s ref=%s", human, allow, line, c05short(impl), c05short(ref)))
	}
	// around the 2^24 payload limit: fork vs reference only (the model side is the theorem)
	for _, sz := range []int{1<<24 - 2, 1<<24 - 1, 1 << 24, 1<<24 + 1} {
		data := make([]byte, sz)
		var fb, xb bytes.Buffer
		fk := NewFramer(&fb, nil)
		xf := xh2.NewFramer(&xb, nil)
		ferr := fk.WriteRawFrame(FrameType(0xfe), 0, 1, data)
		xerr := xf.WriteRawFrame(xh2.FrameType(0xfe), 0, 1, data)
		same := (ferr == nil) == (xerr == nil) && bytes.Equal(fb.Bytes(), xb.Bytes())
		want := sz < 1<<24
		if (ferr == nil) != want || (ferr != nil && ferr != errFrameTooLarge) {
			same = false
		}
		hs.Count(fmt.Sprintf("limit-ok=%v", ferr == nil))
		s.Observe(fmt.Sprintf("rawframe-size-%d", sz), same, "", true, fmt.Sprintf("WriteRawFrame payload %d bytes: fork err=%v ref err=%v", sz, ferr, xerr), "")
	}
	// a short write is reported as io.ErrShortWrite by both
	{
		fk := NewFramer(&c05shortWriter{5}, nil)
		xf := xh2.NewFramer(&c05shortWriter{5}, nil)
		ferr := fk.WritePing(false, [8]byte{})
		xerr := xf.WritePing(false, [8]byte{})
		s.Observe("short-write", ferr == xerr && ferr != nil, "", true, fmt.Sprintf("short write: fork=%v ref=%v", ferr, xerr), "")
	}
	s.Finish()
	hs.Require(t, "WriteDataPadded", "WriteHeaders", "WritePriority", "WriteRSTStream", "WriteSettings", "WriteSettingsAck", "WritePing", "WriteGoAway",
		"WriteWindowUpdate", "WriteContinuation", "WritePushPromise", "WriteRawFrame", "WriteData(large)",
		"reused-framer", "err:streamid", "err:depstreamid", "err:padlength", "err:padbytes", "err:windowincr", "limit-ok=true", "limit-ok=false")
}

func c05short(s string) string {
	if len(s) > 120 {
		return s[:120] + "…"
	}
	return s
}
