//go:build verif

package http2

import (
	"bytes"
	"errors"
	"fmt"
	"io"
	"math/rand"
	"strings"
	"testing"

	pub "github.com/imroc/req/v3/http2"
	"github.com/imroc/req/v3/internal/verifh"
	xh2 "golang.org/x/net/http2"
)

// ---- frame SEQUENCES through one Framer, write side then read side

var errC05Sink = errors.New("c05 sink error")

// c05seqSink is the underlying io.Writer of a Framer under test: per Write call it takes
// everything, at most n bytes without an error, or at most n bytes with an error.
type c05seqSink struct {
	buf  bytes.Buffer
	mode byte // 'f', 's', 'e'
	n    int
	// number of Write calls seen (a Framer must perform at most ONE per Write* call)
	writes int
}

func (w *c05seqSink) Write(p []byte) (int, error) {
	w.writes++
	switch w.mode {
	case 's', 'e':
		k := w.n
		if k > len(p) {
			k = len(p)
		}
		w.buf.Write(p[:k])
		if w.mode == 'e' {
			return k, errC05Sink
		}
		return k, nil
	}
	w.buf.Write(p)
	return len(p), nil
}

// c05call is one Framer.Write* call of a sequence.
type c05call struct {
	allow bool
	mode  byte
	n     int
	name  string // op name of the model line
	args  string // `/`-separated arguments of the model line
	kind  string // generator bucket
	sid   uint32 // stream the generator aimed the call at
	fork  func(*Framer) error
	ref   func(*xh2.Framer) error
}

func (c *c05call) line() string {
	sink := "f"
	if c.mode != 'f' {
		sink = fmt.Sprintf("%c%d", c.mode, c.n)
	}
	l := c05b01(c.allow) + "/" + sink + "/" + c.name
	if c.args != "" {
		l += "/" + c.args
	}
	return l
}

func c05wresFork(err error) string {
	switch err {
	case nil:
		return "ok"
	case io.ErrShortWrite:
		return "short"
	case errC05Sink:
		return "sinkerr"
	}
	return c05werrFork(err)
}

func c05wresRef(err error) string {
	switch err {
	case nil:
		return "ok"
	case io.ErrShortWrite:
		return "short"
	case errC05Sink:
		return "sinkerr"
	}
	return c05werrRef(err)
}

var c05opNames = []string{"data", "headers", "priority", "rst", "settings", "settingsack", "pp", "ping", "goaway", "wu", "cont", "raw"}

// c05legalOp: a Write* call on arguments every reader gives back (WOp.Wf of the model); sid is the
// stream for stream-bound frames, eh the END_HEADERS choice for HEADERS / PUSH_PROMISE / CONTINUATION.
func c05legalOp(r *rand.Rand, name string, sid uint32, eh bool) *c05call {
	rb := func(n int) []byte { return []byte(verifh.RandBytes(r, n, "")) }
	c := &c05call{mode: 'f', name: name, kind: name}
	switch name {
	case "data":
		end := r.Intn(2) == 0
		data := rb(r.Intn(20))
		var pad []byte
		padS := "nil"
		switch r.Intn(3) {
		case 0:
			pad = make([]byte, r.Intn(6))
			padS = c05hex(pad)
		}
		c.args = fmt.Sprintf("%d/%s/%s/%s", sid, c05b01(end), c05hex(data), padS)
		c.fork = func(f *Framer) error { return f.WriteDataPadded(sid, end, data, pad) }
		c.ref = func(f *xh2.Framer) error { return f.WriteDataPadded(sid, end, data, pad) }
	case "headers":
		p := HeadersFrameParam{StreamID: sid, BlockFragment: rb(r.Intn(16)), EndStream: r.Intn(2) == 0, EndHeaders: eh,
			PadLength: c05pick(r, uint8(0), 0, 0, 1, 3, 255)}
		if r.Intn(3) == 0 {
			p.Priority = pub.PriorityParam{StreamDep: c05pick(r, uint32(0), 1, 0x7fffffff, uint32(r.Intn(100))), Exclusive: r.Intn(2) == 0, Weight: uint8(1 + r.Intn(255))}
		}
		c05setHeaders(c, p)
	case "priority":
		p := pub.PriorityParam{StreamDep: c05pick(r, uint32(0), 1, 0x7fffffff, uint32(r.Intn(100))), Exclusive: r.Intn(2) == 0, Weight: uint8(r.Intn(256))}
		c05setPriority(c, sid, p)
	case "rst":
		code := c05pick(r, uint32(0), 1, 8, 0xffffffff, r.Uint32())
		c.args = fmt.Sprintf("%d/%d", sid, code)
		c.fork = func(f *Framer) error { return f.WriteRSTStream(sid, ErrCode(code)) }
		c.ref = func(f *xh2.Framer) error { return f.WriteRSTStream(sid, xh2.ErrCode(code)) }
	case "settings":
		k := r.Intn(4)
		var fs []pub.Setting
		var xs []xh2.Setting
		var parts []string
		for i := 0; i < k; i++ {
			id := c05pick(r, uint16(1), 2, 3, 5, 6, 0xffff, uint16(r.Intn(65536)))
			if id == 4 {
				id = 3
			}
			v := c05pick(r, uint32(0), 1, 0x7fffffff, 0xffffffff, r.Uint32())
			if r.Intn(6) == 0 {
				id, v = 4, c05pick(r, uint32(0), 65535, 0x7fffffff)
			}
			fs = append(fs, pub.Setting{ID: pub.SettingID(id), Val: v})
			xs = append(xs, xh2.Setting{ID: xh2.SettingID(id), Val: v})
			parts = append(parts, fmt.Sprintf("%d:%d", id, v))
		}
		c.args = "-"
		if k > 0 {
			c.args = strings.Join(parts, ",")
		}
		c.fork = func(f *Framer) error { return f.WriteSettings(fs...) }
		c.ref = func(f *xh2.Framer) error { return f.WriteSettings(xs...) }
	case "settingsack":
		c.fork = func(f *Framer) error { return f.WriteSettingsAck() }
		c.ref = func(f *xh2.Framer) error { return f.WriteSettingsAck() }
	case "pp":
		p := PushPromiseParam{StreamID: sid, PromiseID: c05pick(r, uint32(2), 4, 0x7ffffffe, uint32(1+r.Intn(1000))), BlockFragment: rb(r.Intn(16)), EndHeaders: eh,
			PadLength: c05pick(r, uint8(0), 0, 0, 1, 3, 255)}
		c05setPushPromise(c, p)
	case "ping":
		var d [8]byte
		copy(d[:], rb(8))
		ack := r.Intn(2) == 0
		c.args = fmt.Sprintf("%s/%s", c05b01(ack), c05hex(d[:]))
		c.fork = func(f *Framer) error { return f.WritePing(ack, d) }
		c.ref = func(f *xh2.Framer) error { return f.WritePing(ack, d) }
	case "goaway":
		m := c05pick(r, uint32(0), 1, 0x7fffffff, uint32(r.Intn(1000)))
		code := c05pick(r, uint32(0), 1, 0xffffffff, r.Uint32())
		dbg := rb(r.Intn(10))
		c.args = fmt.Sprintf("%d/%d/%s", m, code, c05hex(dbg))
		c.fork = func(f *Framer) error { return f.WriteGoAway(m, ErrCode(code), dbg) }
		c.ref = func(f *xh2.Framer) error { return f.WriteGoAway(m, xh2.ErrCode(code), dbg) }
	case "wu":
		s2 := c05pick(r, uint32(0), sid)
		inc := c05pick(r, uint32(1), 2, 65535, 0x7fffffff, uint32(1+r.Intn(1<<20)))
		c05setWU(c, s2, inc)
	case "cont":
		frag := rb(r.Intn(16))
		c05setCont(c, sid, eh, frag)
	default: // raw: extension frame types only (10..255)
		ty := c05pick(r, byte(10), 11, 0x20, 0xff, byte(10+r.Intn(246)))
		fl := byte(r.Intn(256))
		s2 := c05pick(r, uint32(0), sid)
		pl := rb(r.Intn(20))
		c05setRaw(c, ty, fl, s2, pl)
	}
	return c
}

func c05setHeaders(c *c05call, p HeadersFrameParam) {
	c.name = "headers"
	c.args = fmt.Sprintf("%d/%s/%s/%d/%d/%s/%d/%s", p.StreamID, c05b01(p.EndStream), c05b01(p.EndHeaders), p.PadLength,
		p.Priority.StreamDep, c05b01(p.Priority.Exclusive), p.Priority.Weight, c05hex(p.BlockFragment))
	c.fork = func(f *Framer) error { return f.WriteHeaders(p) }
	c.ref = func(f *xh2.Framer) error {
		return f.WriteHeaders(xh2.HeadersFrameParam{StreamID: p.StreamID, BlockFragment: p.BlockFragment, EndStream: p.EndStream, EndHeaders: p.EndHeaders, PadLength: p.PadLength,
			Priority: xh2.PriorityParam{StreamDep: p.Priority.StreamDep, Exclusive: p.Priority.Exclusive, Weight: p.Priority.Weight}})
	}
}

func c05setPriority(c *c05call, sid uint32, p pub.PriorityParam) {
	c.name = "priority"
	c.args = fmt.Sprintf("%d/%d/%s/%d", sid, p.StreamDep, c05b01(p.Exclusive), p.Weight)
	c.fork = func(f *Framer) error { return f.WritePriority(sid, p) }
	c.ref = func(f *xh2.Framer) error {
		return f.WritePriority(sid, xh2.PriorityParam{StreamDep: p.StreamDep, Exclusive: p.Exclusive, Weight: p.Weight})
	}
}

func c05setPushPromise(c *c05call, p PushPromiseParam) {
	c.name = "pp"
	c.args = fmt.Sprintf("%d/%d/%s/%d/%s", p.StreamID, p.PromiseID, c05b01(p.EndHeaders), p.PadLength, c05hex(p.BlockFragment))
	c.fork = func(f *Framer) error { return f.WritePushPromise(p) }
	c.ref = func(f *xh2.Framer) error {
		return f.WritePushPromise(xh2.PushPromiseParam{StreamID: p.StreamID, PromiseID: p.PromiseID, BlockFragment: p.BlockFragment, EndHeaders: p.EndHeaders, PadLength: p.PadLength})
	}
}

func c05setWU(c *c05call, sid, inc uint32) {
	c.name = "wu"
	c.args = fmt.Sprintf("%d/%d", sid, inc)
	c.fork = func(f *Framer) error { return f.WriteWindowUpdate(sid, inc) }
	c.ref = func(f *xh2.Framer) error { return f.WriteWindowUpdate(sid, inc) }
}

func c05setCont(c *c05call, sid uint32, eh bool, frag []byte) {
	c.name = "cont"
	c.args = fmt.Sprintf("%d/%s/%s", sid, c05b01(eh), c05hex(frag))
	c.fork = func(f *Framer) error { return f.WriteContinuation(sid, eh, frag) }
	c.ref = func(f *xh2.Framer) error { return f.WriteContinuation(sid, eh, frag) }
}

func c05setRaw(c *c05call, ty, fl byte, sid uint32, pl []byte) {
	c.name = "raw"
	c.args = fmt.Sprintf("%d/%d/%d/%s", ty, fl, sid, c05hex(pl))
	c.fork = func(f *Framer) error { return f.WriteRawFrame(FrameType(ty), Flags(fl), sid, pl) }
	c.ref = func(f *xh2.Framer) error { return f.WriteRawFrame(xh2.FrameType(ty), xh2.Flags(fl), sid, pl) }
}

var c05refusedKinds = []string{"headers-dep", "pp-promise0", "pp-promise31", "data-sid0", "data-padlength", "data-padbytes", "wu-zero", "wu-2^31",
	"priority-dep", "priority-sid0", "cont-sid0", "rst-sid31", "headers-sid0", "pp-sid0"}

// c05refusedOp: a call the Framer refuses (AllowIllegalWrites off). headers-dep and pp-promise* are
// refused AFTER startWrite has put a frame header (and a pad-length octet) into the write buffer.
func c05refusedOp(r *rand.Rand, kind string, sid uint32) *c05call {
	rb := func(n int) []byte { return []byte(verifh.RandBytes(r, n, "")) }
	c := &c05call{mode: 'f', kind: "refused:" + kind}
	switch kind {
	case "headers-dep":
		c05setHeaders(c, HeadersFrameParam{StreamID: sid, BlockFragment: rb(r.Intn(16)), EndStream: r.Intn(2) == 0, EndHeaders: r.Intn(2) == 0,
			PadLength: c05pick(r, uint8(0), 1, 3, 255),
			Priority:  pub.PriorityParam{StreamDep: c05pick(r, uint32(0x80000000), 0x80000001, 0xffffffff), Exclusive: r.Intn(2) == 0, Weight: uint8(r.Intn(256))}})
	case "pp-promise0", "pp-promise31":
		pid := uint32(0)
		if kind == "pp-promise31" {
			pid = c05pick(r, uint32(0x80000000), 0x80000002, 0xffffffff)
		}
		c05setPushPromise(c, PushPromiseParam{StreamID: sid, PromiseID: pid, BlockFragment: rb(r.Intn(16)), EndHeaders: r.Intn(2) == 0, PadLength: c05pick(r, uint8(0), 1, 3, 255)})
	case "pp-sid0":
		c05setPushPromise(c, PushPromiseParam{StreamID: 0, PromiseID: 2, BlockFragment: rb(r.Intn(8)), EndHeaders: true})
	case "headers-sid0":
		c05setHeaders(c, HeadersFrameParam{StreamID: c05pick(r, uint32(0), 0x80000001), BlockFragment: rb(r.Intn(8)), EndHeaders: true})
	case "data-sid0", "data-padlength", "data-padbytes":
		s2 := sid
		data := rb(r.Intn(10))
		pad := []byte{}
		switch kind {
		case "data-sid0":
			s2 = c05pick(r, uint32(0), 0x80000000)
		case "data-padlength":
			pad = make([]byte, c05pick(r, 256, 300))
		default:
			pad = make([]byte, 1+r.Intn(8))
			pad[r.Intn(len(pad))] = byte(1 + r.Intn(255))
		}
		c.name = "data"
		c.args = fmt.Sprintf("%d/0/%s/%s", s2, c05hex(data), c05hex(pad))
		c.fork = func(f *Framer) error { return f.WriteDataPadded(s2, false, data, pad) }
		c.ref = func(f *xh2.Framer) error { return f.WriteDataPadded(s2, false, data, pad) }
	case "wu-zero":
		c05setWU(c, sid, 0)
	case "wu-2^31":
		c05setWU(c, sid, c05pick(r, uint32(0x80000000), 0xffffffff))
	case "priority-dep":
		c05setPriority(c, sid, pub.PriorityParam{StreamDep: c05pick(r, uint32(0x80000000), 0xffffffff), Weight: uint8(r.Intn(256))})
	case "priority-sid0":
		c05setPriority(c, 0, pub.PriorityParam{StreamDep: 1, Weight: 5})
	case "cont-sid0":
		c05setCont(c, c05pick(r, uint32(0), 0x80000000), r.Intn(2) == 0, rb(r.Intn(8)))
	default: // rst-sid31
		s2 := c05pick(r, uint32(0), 0x80000000, 0xffffffff)
		c.name = "rst"
		c.args = fmt.Sprintf("%d/8", s2)
		c.fork = func(f *Framer) error { return f.WriteRSTStream(s2, 8) }
		c.ref = func(f *xh2.Framer) error { return f.WriteRSTStream(s2, 8) }
	}
	return c
}

// c05runSeq runs the calls on ONE fork Framer and ONE reference Framer.
func c05runSeq(calls []*c05call) (fres, xres []string, fout, xout []byte, oneWrite bool) {
	fs, xs := &c05seqSink{}, &c05seqSink{}
	fk := NewFramer(fs, nil)
	xf := xh2.NewFramer(xs, nil)
	oneWrite = true
	for _, c := range calls {
		fk.AllowIllegalWrites, xf.AllowIllegalWrites = c.allow, c.allow
		fs.mode, fs.n, xs.mode, xs.n = c.mode, c.n, c.mode, c.n
		before := fs.writes
		ferr := c.fork(fk)
		xerr := c.ref(xf)
		if fs.writes-before > 1 {
			oneWrite = false
		}
		fres = append(fres, c05wresFork(ferr))
		xres = append(xres, c05wresRef(xerr))
	}
	return fres, xres, fs.buf.Bytes(), xs.buf.Bytes(), oneWrite
}

func c05readBack(out []byte, maxRead uint32) (string, string) {
	fk := NewFramer(nil, bytes.NewReader(out))
	fk.SetMaxReadFrameSize(maxRead)
	rf := xh2.NewFramer(nil, bytes.NewReader(out))
	rf.SetMaxReadFrameSize(maxRead)
	limit := len(out)/9 + 2
	return strings.Join(c05readAllFork(fk, limit), ";"), strings.Join(c05readAllRef(rf, limit), ";")
}

// TestVerif_C05_h2wseq: SEQUENCES of Framer.Write* calls on one Framer (the state a call leaves in
// the Framer — wbuf, a refused frame's half-written header — must not reach the connection), then
// the written connection read back by ReadFrame (every frame type in every header-block state).
func TestVerif_C05_h2wseq(t *testing.T) {
	s := verifh.New(t, "C05", "h2wseq",
		"sequences of 2..8 Framer.Write* calls on ONE fork Framer and ONE x/net Framer over sinks with the same per-call behaviour; "+
			"(legal mode) AllowIllegalWrites off, sink takes everything, every call either on arguments a reader gives back or REFUSED (14 refusal kinds: before startWrite — stream id 0 / >= 2^31, pad length > 255, non-zero padding, window increment 0 / >= 2^31, PRIORITY dependency — and AFTER startWrite — WriteHeaders stream dependency >= 2^31 with and without a pad-length octet already buffered, WritePushPromise promised id 0 / >= 2^31); the generator follows the header-block state of what was written: inside an open block the next call is a CONTINUATION of the block, a CONTINUATION of another stream, or EVERY other frame type (12 writers); after a PUSH_PROMISE without END_HEADERS a CONTINUATION or any other type; outside a block every type incl. an unexpected CONTINUATION; "+
			"(wild mode) AllowIllegalWrites toggled per call, sink takes everything / at most n bytes / fails after n bytes per call, boundary arguments; "+
			"answer = per-call result, the bytes that reached the connection, and those bytes read back frame by frame until a terminal error: fork vs x/net (oracle) vs the Lean Writer state machine runCalls + readAll (c05wseq); in legal mode additionally fork read-back vs readSpec computed from the OPERATIONS (c05rseq, theorem framer_write_read_sequence); frames >= 2^24 (refused by endWrite after the whole frame is buffered) followed by valid calls: fork vs x/net only; non-trivial = at least one refused/short/failed call followed by an accepted one, or a header-block state other than closed when a call is made")
	r := s.Rand()
	hs := newC05hist(s)
	n := verifh.N(4000, 100000)
	sidOf := func() uint32 { return c05pick(r, uint32(1), 3, 5, 0x7fffffff, uint32(1+r.Intn(1000))) }
	for cse := 0; cse < n; cse++ {
		legal := r.Intn(5) < 3
		k := 2 + r.Intn(7)
		var calls []*c05call
		open := uint32(0) // stream of the header block left open by the accepted calls so far
		afterPP := false  // the last accepted call was a PUSH_PROMISE without END_HEADERS
		lastRefused := ""
		nontrivial := false
		for i := 0; i < k; i++ {
			var c *c05call
			if legal {
				if r.Intn(4) == 0 {
					kind := c05refusedKinds[r.Intn(len(c05refusedKinds))]
					c = c05refusedOp(r, kind, sidOf())
					hs.Count(c.kind)
					lastRefused = kind
					calls = append(calls, c)
					continue
				}
				name := c05opNames[r.Intn(len(c05opNames))]
				sid := sidOf()
				eh := r.Intn(2) == 0
				state := "closed"
				if open == 0 && !afterPP {
					// outside a block: frames that can open one are drawn more often
					switch x := r.Intn(20); {
					case x < 6:
						name, eh = "headers", r.Intn(3) == 0
					case x < 9:
						name, eh = "pp", r.Intn(3) == 0
					}
				}
				switch {
				case open != 0:
					state = "open"
					nontrivial = true
					switch x := r.Intn(10); {
					case x < 4:
						name, sid = "cont", open
					case x < 5:
						name = "cont"
						if sid == open {
							sid = open%0x7ffffffe + 1
						}
						state = "open-otherstream"
					case r.Intn(3) == 0:
						sid = open // another frame type on the block's own stream
					}
				case afterPP:
					state = "afterpp"
					nontrivial = true
					if r.Intn(2) == 0 {
						name = "cont"
						sid = calls[len(calls)-1-c05countTrailingRefused(calls)].sidHint()
					}
				}
				c = c05legalOp(r, name, sid, eh)
				hs.Count(state + ":" + c.name)
				if lastRefused != "" {
					hs.Count("after-refused:" + lastRefused)
					nontrivial = true
					lastRefused = ""
				}
				// header-block state after this (accepted) call, as the order automaton sees it; once
				// the sequence is refused by the reader the rest only exercises the write side
				afterPP = c.name == "pp" && !eh
				switch {
				case c.name == "headers" && open == 0:
					if !eh {
						open = sid
					}
				case c.name == "cont" && open != 0 && sid == open:
					if eh {
						open = 0
					}
				}
				c.sid = sid
			} else {
				c = c05wildOp(r, sidOf)
				hs.Count("wild:" + c.name)
			}
			calls = append(calls, c)
		}
		fres, xres, fout, xout, oneWrite := c05runSeq(calls)
		maxRead := uint32(1<<24 - 1)
		if !legal {
			maxRead = c05pick(r, uint32(16384), 1<<24-1, 20, 300)
		}
		fread, xread := c05readBack(fout, maxRead)
		var ls []string
		for _, c := range calls {
			ls = append(ls, c.line())
		}
		seq := strings.Join(ls, ";")
		for i, res := range fres {
			if res != "ok" {
				hs.Count("res:" + res)
				if i+1 < len(fres) && fres[i+1] == "ok" {
					hs.Count("then-ok:" + res)
					nontrivial = true
				}
			}
		}
		if strings.HasSuffix(fread, "conn:1") {
			hs.Count("read-order-violation")
		} else if strings.HasSuffix(fread, "eof") {
			hs.Count("read-to-eof")
		}
		impl := strings.Join(fres, ",") + " " + c05hexOrEmpty(fout) + " " + c05dash(fread)
		ok := strings.Join(fres, ",") == strings.Join(xres, ",") && bytes.Equal(fout, xout) && fread == xread && oneWrite
		human := fmt.Sprintf("[legal=%v] %s -> fork %s | ref %s %s %s oneWrite=%v", legal, seq, c05short(impl), strings.Join(xres, ","), c05short(c05hex(xout)), c05short(xread), oneWrite)
		s.Case(fmt.Sprintf("c05wseq %d %s", maxRead, seq), impl, ok, "", nontrivial, human)
		if legal {
			hs.Count("legal-seq")
			s.Case(fmt.Sprintf("c05rseq %d %s", maxRead, seq), c05dash(fread), fread == xread, "", nontrivial, human)
		}
	}
	// a frame of >= 2^24 payload bytes is refused by endWrite with the WHOLE frame in the buffer;
	// the calls that follow must be byte-identical to the reference (fork vs reference only: the model
	// side of the size limit is the theorem, a 16 MiB hex line is not sent through the driver)
	for i := 0; i < verifh.N(4, 24); i++ {
		big := make([]byte, c05pick(r, 1<<24, 1<<24+1, 1<<24+100))
		var calls []*c05call
		pre := c05legalOp(r, c05opNames[r.Intn(len(c05opNames))], 1, true)
		bigc := &c05call{mode: 'f'}
		if r.Intn(2) == 0 {
			c05setRaw(bigc, 0xfe, 0, 1, big)
		} else {
			bigc.fork = func(f *Framer) error { return f.WriteData(1, false, big) }
			bigc.ref = func(f *xh2.Framer) error { return f.WriteData(1, false, big) }
		}
		calls = append(calls, pre, bigc)
		for j := 0; j < 1+r.Intn(3); j++ {
			calls = append(calls, c05legalOp(r, c05opNames[r.Intn(len(c05opNames))], 3, true))
		}
		fres, xres, fout, xout, oneWrite := c05runSeq(calls)
		ok := strings.Join(fres, ",") == strings.Join(xres, ",") && bytes.Equal(fout, xout) && oneWrite && fres[1] == "err:toolarge" && fres[2] == "ok"
		hs.Count("toolarge-then-ok")
		s.Observe(fmt.Sprintf("toolarge-seq-%d", i), ok, "", true,
			fmt.Sprintf("valid call, %d-byte frame, valid calls: fork %v %s | ref %v %s", len(big), fres, c05short(c05hex(fout)), xres, c05short(c05hex(xout))), "")
	}
	s.Finish()
	req := []string{"legal-seq", "read-order-violation", "read-to-eof", "toolarge-then-ok", "open-otherstream:cont", "afterpp:cont",
		"then-ok:err:depstreamid", "then-ok:err:streamid", "then-ok:err:padlength", "then-ok:err:padbytes", "then-ok:err:windowincr", "then-ok:short", "then-ok:sinkerr"}
	for _, nme := range c05opNames {
		req = append(req, "open:"+nme, "closed:"+nme, "wild:"+nme)
		if nme != "cont" {
			req = append(req, "afterpp:"+nme)
		}
	}
	for _, k := range c05refusedKinds {
		req = append(req, "refused:"+k, "after-refused:"+k)
	}
	hs.Require(t, req...)
}

func c05hexOrEmpty(b []byte) string { return c05hex(b) }

func c05dash(s string) string {
	if s == "" {
		return "-"
	}
	return s
}

// sid bookkeeping for the generator
func (c *c05call) sidHint() uint32 { return c.sid }

func c05countTrailingRefused(calls []*c05call) int {
	n := 0
	for i := len(calls) - 1; i >= 0 && strings.HasPrefix(calls[i].kind, "refused:"); i-- {
		n++
	}
	return n
}

// c05wildOp: boundary arguments, AllowIllegalWrites on or off, any sink behaviour.
func c05wildOp(r *rand.Rand, sidOf func() uint32) *c05call {
	rb := func(n int) []byte { return []byte(verifh.RandBytes(r, n, "")) }
	sidW := func() uint32 { return c05pick(r, sidOf(), sidOf(), 0, 0x80000000, 0xffffffff) }
	u32 := func() uint32 { return c05pick(r, uint32(0), 1, 0x7fffffff, 0x80000000, 0xffffffff, r.Uint32()) }
	name := c05opNames[r.Intn(len(c05opNames))]
	var c *c05call
	switch name {
	case "headers":
		c = &c05call{}
		c05setHeaders(c, HeadersFrameParam{StreamID: sidW(), BlockFragment: rb(r.Intn(16)), EndStream: r.Intn(2) == 0, EndHeaders: r.Intn(2) == 0,
			PadLength: c05pick(r, uint8(0), 0, 1, 255),
			Priority:  c05pick(r, pub.PriorityParam{}, pub.PriorityParam{}, pub.PriorityParam{StreamDep: u32(), Exclusive: r.Intn(2) == 0, Weight: uint8(r.Intn(256))})})
	case "pp":
		c = &c05call{}
		c05setPushPromise(c, PushPromiseParam{StreamID: sidW(), PromiseID: sidW(), BlockFragment: rb(r.Intn(16)), EndHeaders: r.Intn(2) == 0, PadLength: c05pick(r, uint8(0), 0, 1, 255)})
	case "priority":
		c = &c05call{}
		c05setPriority(c, sidW(), pub.PriorityParam{StreamDep: u32(), Exclusive: r.Intn(2) == 0, Weight: uint8(r.Intn(256))})
	case "wu":
		c = &c05call{}
		c05setWU(c, sidW(), u32())
	case "cont":
		c = &c05call{}
		c05setCont(c, sidW(), r.Intn(2) == 0, rb(r.Intn(16)))
	case "raw":
		c = &c05call{}
		c05setRaw(c, byte(r.Intn(256)), byte(r.Intn(256)), sidW(), rb(r.Intn(20)))
	default:
		c = c05legalOp(r, name, sidW(), r.Intn(2) == 0)
	}
	c.kind = "wild"
	c.allow = r.Intn(3) == 0
	c.mode = c05pick(r, byte('f'), 'f', 'f', 's', 'e')
	if c.mode != 'f' {
		c.n = c05pick(r, 0, 1, 8, 9, 10, 1000, r.Intn(40))
	}
	return c
}
