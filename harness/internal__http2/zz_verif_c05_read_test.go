//go:build verif

package http2

import (
	"bytes"
	"fmt"
	"math/rand"
	"strings"
	"testing"

	"github.com/imroc/req/v3/internal/verifh"
	xh2 "golang.org/x/net/http2"
)

// c05payload builds a payload for frame type t: mostly well-formed for the type, with the
// lengths around the boundaries each typed parser tests.
func c05payload(r *rand.Rand, t byte, flags byte) []byte {
	rb := func(n int) []byte { return []byte(verifh.RandBytes(r, n, "")) }
	u32 := func(v uint32) []byte { return []byte{byte(v >> 24), byte(v >> 16), byte(v >> 8), byte(v)} }
	someU32 := func() uint32 {
		return c05pick(r, uint32(0), 1, 2, 0x7fffffff, 0x80000000, 0x80000001, 0xffffffff, r.Uint32())
	}
	if r.Intn(6) == 0 { // arbitrary length, arbitrary bytes
		return rb(c05pick(r, 0, 1, 2, 3, 4, 5, 6, 7, 8, 9, 10, 11, 12, 13, 17, 18, 255, 256, r.Intn(40)))
	}
	var p []byte
	padded := flags&0x8 != 0
	padLen := 0
	pre := func() {
		if padded && r.Intn(8) != 0 {
			padLen = c05pick(r, 0, 1, 2, 5, 255, r.Intn(20))
			p = append(p, byte(padLen))
		}
	}
	post := func() {
		if padded {
			switch r.Intn(6) {
			case 0: // one byte short: pad too big
				if padLen > 0 {
					p = append(p, make([]byte, padLen-1)...)
				}
				if r.Intn(2) == 0 && len(p) > 1 {
					p = p[:1] // only the pad byte
				}
			case 1: // non-zero padding
				p = append(p, rb(padLen)...)
			default:
				p = append(p, make([]byte, padLen)...)
			}
		}
	}
	switch t {
	case 0: // DATA
		pre()
		p = append(p, rb(c05pick(r, 0, 1, 5, r.Intn(30)))...)
		post()
	case 1: // HEADERS
		pre()
		if flags&0x20 != 0 {
			switch r.Intn(8) {
			case 0:
				p = append(p, rb(r.Intn(4))...) // short dep
			case 1:
				p = append(p, u32(someU32())...) // missing weight
			default:
				p = append(p, u32(someU32())...)
				p = append(p, byte(r.Intn(256)))
			}
		}
		p = append(p, rb(c05pick(r, 0, 1, 7, r.Intn(30)))...)
		post()
	case 2: // PRIORITY
		p = append(u32(someU32()), byte(r.Intn(256)))
		switch r.Intn(8) {
		case 0:
			p = p[:r.Intn(5)]
		case 1:
			p = append(p, rb(1+r.Intn(3))...)
		}
	case 3, 8: // RST_STREAM, WINDOW_UPDATE
		p = u32(someU32())
		switch r.Intn(8) {
		case 0:
			p = p[:r.Intn(4)]
		case 1:
			p = append(p, rb(1+r.Intn(3))...)
		}
	case 4: // SETTINGS
		n := c05pick(r, 0, 1, 2, 3, 9, 10, 11, r.Intn(14))
		for i := 0; i < n; i++ {
			id := c05pick(r, uint16(1), 2, 3, 4, 4, 5, 6, 7, 0, 0xffff, uint16(r.Intn(8)))
			p = append(p, byte(id>>8), byte(id))
			p = append(p, u32(someU32())...)
		}
		if r.Intn(8) == 0 {
			p = append(p, rb(1+r.Intn(5))...)
		}
	case 5: // PUSH_PROMISE
		pre()
		if r.Intn(8) == 0 {
			p = append(p, rb(r.Intn(4))...)
		} else {
			p = append(p, u32(someU32())...)
			p = append(p, rb(c05pick(r, 0, 1, r.Intn(20)))...)
		}
		post()
	case 6: // PING
		p = rb(c05pick(r, 8, 8, 8, 8, 8, 0, 7, 9, 16))
	case 7: // GOAWAY
		p = append(u32(someU32()), u32(someU32())...)
		switch r.Intn(6) {
		case 0:
			p = p[:r.Intn(8)]
		default:
			p = append(p, rb(c05pick(r, 0, 0, 1, r.Intn(20)))...)
		}
	case 9: // CONTINUATION
		p = rb(c05pick(r, 0, 1, r.Intn(30)))
	default:
		p = rb(c05pick(r, 0, 1, 8, r.Intn(30)))
	}
	return p
}

var c05flagSet = []byte{0, 0, 1, 4, 5, 8, 9, 0x0c, 0x0d, 0x20, 0x24, 0x28, 0x2c, 0x2d, 0xff, 0x10, 0x40, 0x80}

// c05sid: stream ids biased to what the frame type wants (0 for SETTINGS/PING/GOAWAY).
func c05sid(r *rand.Rand, t byte) uint32 {
	if (t == 4 || t == 6 || t == 7) && r.Intn(4) != 0 {
		return c05pick(r, uint32(0), 0, 0, 0x80000000)
	}
	return c05pick(r, uint32(0), 1, 1, 1, 3, 3, 5, 0x7fffffff, 0x80000000, 0x80000001, 0xffffffff, uint32(r.Intn(10)))
}

func c05flags(r *rand.Rand, t byte) byte {
	if (t == 4 || t == 6) && r.Intn(3) != 0 {
		return c05pick(r, byte(0), 0, 0, 1, 0xfe)
	}
	if r.Intn(3) == 0 {
		return byte(r.Intn(256))
	}
	return c05flagSet[r.Intn(len(c05flagSet))]
}

// c05headerBlockSeq: HEADERS/CONTINUATION (and PUSH_PROMISE) sequences, legal and with the
// illegal interleavings checkFrameOrder must reject.
func c05headerBlockSeq(r *rand.Rand) ([]byte, string) {
	var b []byte
	sid := c05pick(r, uint32(1), 3, 5, 0x7fffffff)
	other := sid + 2
	if other > 0x7fffffff {
		other = 1
	}
	frag := func() []byte { return []byte(verifh.RandBytes(r, r.Intn(12), "")) }
	kind := r.Intn(12)
	nCont := r.Intn(4)
	switch kind {
	case 0, 1, 2: // legal block
		if nCont == 0 {
			b = append(b, c05frame(1, 4|byte(r.Intn(2)), sid, frag())...)
		} else {
			b = append(b, c05frame(1, byte(r.Intn(2)), sid, frag())...)
			for i := 0; i < nCont; i++ {
				fl := byte(0)
				if i == nCont-1 {
					fl = 4
				}
				b = append(b, c05frame(9, fl, sid, frag())...)
			}
		}
		b = append(b, c05frame(6, 0, 0, make([]byte, 8))...)
		return b, "block-legal"
	case 3: // CONTINUATION on another stream
		b = append(b, c05frame(1, 0, sid, frag())...)
		b = append(b, c05frame(9, 4, other, frag())...)
		return b, "block-other-stream"
	case 4: // non-CONTINUATION inside a block
		b = append(b, c05frame(1, 0, sid, frag())...)
		t := c05pick(r, byte(0), 1, 2, 3, 4, 6, 7, 8, 0x20)
		s2 := sid
		if t == 4 || t == 6 || t == 7 {
			s2 = 0
		}
		b = append(b, c05frame(t, c05pick(r, byte(0), 4), s2, c05payload(r, t, 0))...)
		return b, "block-interrupted"
	case 5: // CONTINUATION without HEADERS
		if r.Intn(2) == 0 {
			b = append(b, c05frame(6, 0, 0, make([]byte, 8))...)
		}
		b = append(b, c05frame(9, c05pick(r, byte(0), 4), sid, frag())...)
		return b, "cont-unexpected"
	case 6: // CONTINUATION after a finished block
		b = append(b, c05frame(1, 4, sid, frag())...)
		b = append(b, c05frame(9, 4, sid, frag())...)
		return b, "cont-after-end"
	case 7: // second HEADERS inside a block, same stream
		b = append(b, c05frame(1, 0, sid, frag())...)
		b = append(b, c05frame(1, 4, sid, frag())...)
		return b, "block-headers-twice"
	case 8: // PUSH_PROMISE without END_HEADERS then CONTINUATION (the automaton does not open a block)
		b = append(b, c05frame(5, 0, sid, append([]byte{0, 0, 0, 2}, frag()...))...)
		b = append(b, c05frame(9, 4, sid, frag())...)
		return b, "pushpromise-cont"
	case 9: // a stream error in the middle of a block keeps the block open
		b = append(b, c05frame(1, 0, sid, frag())...)
		b = append(b, c05frame(8, 0, sid, []byte{0, 0, 0, 0})...) // WINDOW_UPDATE 0 -> stream error, parsed before the order check
		b = append(b, c05frame(9, 4, sid, frag())...)
		b = append(b, c05frame(6, 0, 0, make([]byte, 8))...)
		return b, "block-streamerr-inside"
	case 10: // two blocks back to back on different streams
		b = append(b, c05frame(1, 0, sid, frag())...)
		b = append(b, c05frame(9, 4, sid, frag())...)
		b = append(b, c05frame(1, 0, other, frag())...)
		b = append(b, c05frame(9, 0, other, frag())...)
		b = append(b, c05frame(9, 4, other, frag())...)
		b = append(b, c05frame(0, 1, sid, frag())...)
		return b, "block-two"
	default: // long legal block then CONTINUATION with END_HEADERS missing at EOF
		b = append(b, c05frame(1, 0, sid, frag())...)
		for i := 0; i < 1+r.Intn(5); i++ {
			b = append(b, c05frame(9, 0, sid, frag())...)
		}
		return b, "block-open-at-eof"
	}
}

// TestVerif_C05_h2read: identical byte sequences through the fork's Framer.ReadFrame, the
// x/net reference Framer and the Lean model.
func TestVerif_C05_h2read(t *testing.T) {
	s := verifh.New(t, "C05", "h2read",
		"byte sequences of 1-5 frames: (grid) every frame type 0..11,0x20,0xff x flag sets x stream ids {0,1,3,2^31-1,R-bit set} with typed payloads at each parser's length boundaries (pad byte missing/too big/non-zero, short priority, SETTINGS mod 6, ack with payload, window 2^31, zero increments...), (blocks) HEADERS/CONTINUATION/PUSH_PROMISE sequences legal and with every illegal interleaving, (mutated) truncation at every offset class, length-field lies, byte flips; read limits SetMaxReadFrameSize in {0,5,9,16384,2^24-1,2^32-1}; AllowIllegalReads on/off; SetReuseFrames and logReads on the fork must not change the answer; answer = per ReadFrame call type/flags/stream/length/typed fields or error class, until a terminal error; non-trivial = at least one frame parsed")
	r := s.Rand()
	hs := newC05hist(s)
	types := []byte{0, 1, 2, 3, 4, 5, 6, 7, 8, 9, 10, 11, 0x20, 0xff}
	n := verifh.N(9000, 400000)
	for c := 0; c < n; c++ {
		var in []byte
		kind := ""
		switch {
		case c < len(types)*len(c05flagSet)*3: // systematic grid
			t := types[c%len(types)]
			fl := c05flagSet[(c/len(types))%len(c05flagSet)]
			in = c05frame(t, fl, c05sid(r, t), c05payload(r, t, fl))
			in = append(in, c05frame(6, 1, 0, []byte("12345678"))...)
			kind = "grid"
		case r.Intn(4) == 0:
			in, kind = c05headerBlockSeq(r)
		default:
			nf := 1 + r.Intn(5)
			for i := 0; i < nf; i++ {
				t := types[r.Intn(len(types))]
				fl := c05flags(r, t)
				in = append(in, c05frame(t, fl, c05sid(r, t), c05payload(r, t, fl))...)
			}
			kind = "random"
		}
		// mutation
		switch r.Intn(10) {
		case 0: // truncate
			if len(in) > 0 {
				cut := r.Intn(len(in) + 1)
				if r.Intn(2) == 0 { // near a frame-header boundary
					cut = c05pick(r, 0, 1, 8, 9, 10, len(in)-1)
					if cut > len(in) || cut < 0 {
						cut = len(in)
					}
				}
				in = in[:cut]
				kind += "+cut"
			}
		case 1: // length lie in the first header
			if len(in) >= 9 {
				in = append([]byte(nil), in...)
				d := c05pick(r, -1, 1, 2, 6, 9)
				l := int(in[0])<<16 | int(in[1])<<8 | int(in[2])
				l += d
				if l < 0 {
					l = 0
				}
				in[0], in[1], in[2] = byte(l>>16), byte(l>>8), byte(l)
				kind += "+len"
			}
		case 2: // byte flip
			if len(in) > 0 {
				in = append([]byte(nil), in...)
				in[r.Intn(len(in))] ^= byte(1 << uint(r.Intn(8)))
				kind += "+flip"
			}
		}
		maxRead := c05pick(r, uint32(16384), 16384, 16384, 16384, 16384, 1<<24-1, 1<<24-1, 1<<24-1, 1<<24, 1<<32-1, 1<<32-1, 0, 5, 9, uint32(r.Intn(40)))
		allowIllegal := r.Intn(8) == 0
		reuse := r.Intn(3) == 0
		logReads := r.Intn(5) == 0

		fk := NewFramer(nil, bytes.NewReader(in))
		fk.SetMaxReadFrameSize(maxRead)
		fk.AllowIllegalReads = allowIllegal
		if reuse {
			fk.SetReuseFrames()
		}
		if logReads {
			fk.logReads = true
			fk.debugReadLoggerf = func(string, ...interface{}) {}
		}
		rf := xh2.NewFramer(nil, bytes.NewReader(in))
		rf.SetMaxReadFrameSize(maxRead)
		rf.AllowIllegalReads = allowIllegal
		if reuse {
			rf.SetReuseFrames()
		}
		var fa, ra []string
		if p, bad := verifh.Safely(func() { fa = c05readAllFork(fk, 64) }); bad {
			s.Crash("h2read "+c05hex(in), kind, p, "")
			continue
		}
		if p, bad := verifh.Safely(func() { ra = c05readAllRef(rf, 64) }); bad {
			t.Fatalf("reference panicked: %s", p)
		}
		impl := strings.Join(fa, ";")
		ref := strings.Join(ra, ";")
		hs.Count(kind)
		nFrames := 0
		for _, it := range fa {
			switch {
			case strings.HasPrefix(it, "conn:"), strings.HasPrefix(it, "stream:"), it == "ueof", it == "eof", it == "toolarge":
				hs.Count("res-" + strings.SplitN(it, ":", 3)[0] + c05codeOf(it))
			default:
				nFrames++
				tag := strings.SplitN(it, " ", 2)[0]
				if strings.HasPrefix(tag, "U") && tag != "U10" && tag != "U11" && tag != "U32" && tag != "U255" {
					tag = "Uother"
				}
				hs.Count("frame-" + tag)
			}
		}
		line := fmt.Sprintf("c05h2read %d %s %s", maxRead, c05b01(allowIllegal), c05hex(in))
		s.Case(line, impl, impl == ref, "", nFrames > 0,
			fmt.Sprintf("[%s max=%d illegal=%v reuse=%v] %s -> fork=%s | ref=%s", kind, maxRead, allowIllegal, reuse, c05hex(in), impl, ref))
	}
	s.Finish()
	hs.Require(t, "frame-D", "frame-H", "frame-P", "frame-R", "frame-S", "frame-PP", "frame-PI", "frame-G", "frame-W", "frame-C",
		"frame-U10", "frame-U255", "res-conn1", "res-conn3", "res-conn6", "res-stream1", "res-ueof", "res-eof", "res-toolarge",
		"block-legal", "block-other-stream", "block-interrupted", "cont-unexpected", "cont-after-end", "block-headers-twice",
		"pushpromise-cont", "block-streamerr-inside", "block-two", "block-open-at-eof")
}

// c05codeOf: "conn:1" -> "1", "stream:5:1" -> "1", else "".
func c05codeOf(it string) string {
	p := strings.Split(it, ":")
	switch p[0] {
	case "conn":
		return p[1]
	case "stream":
		return p[2]
	}
	return ""
}
