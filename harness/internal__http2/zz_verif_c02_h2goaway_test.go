//go:build verif

package http2

import (
	"bytes"
	"fmt"
	"io"
	"net"
	"net/http"
	"strconv"
	"strings"
	"sync"
	"sync/atomic"
	"testing"
	"time"

	"github.com/imroc/req/v3/internal/transport"
	"github.com/imroc/req/v3/internal/verifh"
	xhttp2 "golang.org/x/net/http2"
	"golang.org/x/net/http2/hpack"
)

// ---------------------------------------------------------------------------------------
// C02 lane "h2goaway" (round 6): connection-level frames BETWEEN the frames of a response.
//
// A real ClientConn has one request in flight on stream 1, 3 or 5 (0..2 earlier exchanges on
// the connection). The peer (x/net/http2 Framer + hpack, the reference codec) answers with a
// conformant response (interim HEADERS, HEADERS, DATA frames, END_STREAM on DATA or on a trailer
// HEADERS) and puts connection frames at generated positions before / between / after these
// frames: GOAWAY (NO_ERROR or an error code; last-stream-id below, equal to, above the stream in
// flight, 0, 2^31-1; several GOAWAYs in a row: "I am going away" then the real one), PING, PING
// ack, SETTINGS (empty / with parameters), WINDOW_UPDATE on stream 0, an extension frame - each
// with or without a pause after it, and with or without a pause before the frame that carries
// END_STREAM (the origin is still producing the rest of the response while the connection has
// already been told to go away).
//
// Judged by the Lean model Req.C02.H2GoAway (H2Conn.event / setGoAway on top of the H2Recv
// stream): a stream with id <= last-stream-id is delivered whole (theorem
// goaway_response_whole); a stream above it is aborted with the retryable error - or, stream 1
// after an error code, the non-retryable one - and keeps what was delivered before
// (goaway_abort_keeps_delivered). Where the model says "aborted", the peer waits for the
// client's RST_STREAM before it goes on, so that the comparison does not depend on how fast the
// request goroutine wakes up.
// ---------------------------------------------------------------------------------------

type c02CEv struct {
	c02Ev
	ck    byte   // 0 = a frame of the stream under test, 'G' GOAWAY, 'N' neutral connection frame
	last  uint32 // GOAWAY last-stream-id
	code  uint32 // GOAWAY error code
	nkind int    // neutral: 0 PING, 1 PING ack, 2 SETTINGS{}, 3 SETTINGS{params}, 4 WINDOW_UPDATE(0), 5 extension frame
	delay bool   // pause after this frame
	sync  bool   // GOAWAY the model says aborts the stream: wait for the client's RST_STREAM
}

func c02CEvArg(e c02CEv) string {
	switch e.ck {
	case 'G':
		return "G;" + strconv.FormatUint(uint64(e.last), 10) + ";" + strconv.FormatUint(uint64(e.code), 10)
	case 'N':
		return "N;" + strconv.Itoa(e.nkind)
	}
	return c02EvArg(e.c02Ev)
}

const c02GoAwayPause = 20 * time.Millisecond

// c02GoAwayPeer: answers `prelude` ordinary exchanges, then plays the script on the next stream.
func c02GoAwayPeer(conn net.Conn, prelude int, script []c02CEv, done chan<- error) {
	defer conn.Close()
	conn.SetDeadline(time.Now().Add(40 * time.Second))
	preface := make([]byte, len(xhttp2.ClientPreface))
	if _, err := io.ReadFull(conn, preface); err != nil {
		done <- err
		return
	}
	fr := xhttp2.NewFramer(conn, conn)
	var wmu sync.Mutex
	fr.WriteSettings()
	reqs := make(chan uint32, 16)
	rsts := make(chan uint32, 16)
	go func() {
		defer close(reqs)
		for {
			f, err := fr.ReadFrame()
			if err != nil {
				return
			}
			switch f := f.(type) {
			case *xhttp2.SettingsFrame:
				if !f.IsAck() {
					wmu.Lock()
					fr.WriteSettingsAck()
					wmu.Unlock()
				}
			case *xhttp2.HeadersFrame:
				reqs <- f.StreamID
			case *xhttp2.RSTStreamFrame:
				select {
				case rsts <- f.StreamID:
				default:
				}
			}
		}
	}()
	var hbuf bytes.Buffer
	enc := hpack.NewEncoder(&hbuf)
	for i := 0; i < prelude; i++ {
		id, ok := <-reqs
		if !ok {
			done <- io.ErrUnexpectedEOF
			return
		}
		wmu.Lock()
		c02PeerWrite(fr, enc, &hbuf, id, []c02Ev{
			{kind: 'H', fields: []c02KV{{":status", "200"}, {"x-pre", strconv.Itoa(i)}, {"content-length", "3"}}},
			{kind: 'D', data: "pre", es: true}})
		wmu.Unlock()
	}
	sid, ok := <-reqs
	if !ok {
		done <- io.ErrUnexpectedEOF
		return
	}
	for _, e := range script {
		wmu.Lock()
		switch e.ck {
		case 'G':
			fr.WriteGoAway(e.last, xhttp2.ErrCode(e.code), []byte("c02 going away"))
		case 'N':
			switch e.nkind {
			case 0:
				fr.WritePing(false, [8]byte{1, 2, 3, 4, 5, 6, 7, 8})
			case 1:
				fr.WritePing(true, [8]byte{8, 7, 6, 5, 4, 3, 2, 1})
			case 2:
				fr.WriteSettings()
			case 3:
				fr.WriteSettings(xhttp2.Setting{ID: xhttp2.SettingMaxConcurrentStreams, Val: 50},
					xhttp2.Setting{ID: xhttp2.SettingInitialWindowSize, Val: 100000})
			case 4:
				fr.WriteWindowUpdate(0, 1000)
			default:
				fr.WriteRawFrame(xhttp2.FrameType(0xbe), 0, 0, []byte("ext"))
			}
		default:
			c02PeerWrite(fr, enc, &hbuf, sid, []c02Ev{e.c02Ev})
		}
		wmu.Unlock()
		if e.sync {
			deadline := time.After(3 * time.Second)
		wait:
			for {
				select {
				case id := <-rsts:
					if id == sid {
						break wait
					}
				case <-deadline:
					break wait
				}
			}
			time.Sleep(c02GoAwayPause)
		} else if e.delay {
			time.Sleep(c02GoAwayPause)
		}
	}
	done <- nil
	for range reqs {
	}
}

func TestVerif_C02_h2goaway(t *testing.T) {
	s := verifh.New(t, "C02", "h2goaway",
		"frame-script peer on loopback TCP against a real ClientConn, request in flight on stream 1/3/5 (0..2 earlier exchanges): a conformant response (0..1 interim HEADERS, HEADERS, 0..6 DATA frames, END_STREAM on DATA / empty DATA / trailer HEADERS, declared or undeclared length, GET/HEAD) with 1..3 connection frames at generated positions before / between / after its frames: GOAWAY (NO_ERROR / INTERNAL_ERROR / ENHANCE_YOUR_CALM; last-stream-id 0, id-2, id-1, id, id+1, id+2, 2^31-1; several in a row) or PING / PING ack / SETTINGS{} / SETTINGS{params} / WINDOW_UPDATE(0) / extension frame, each with or without a 20 ms pause after it, with or without a pause before the END_STREAM frame; where the model says the stream is aborted the peer waits for the client's RST_STREAM; caller read sizes {1..3,7,512,4096,65536,random}; compared with the Lean model (H2Conn.event/setGoAway): status, fields, concatenated bytes, final error class, trailers; non-trivial = a GOAWAY or neutral frame strictly between the first and the last frame of a response with >= 2 frames")
	r := s.Rand()
	ln, err := net.Listen("tcp", "127.0.0.1:0")
	if err != nil {
		t.Fatalf("listen: %v", err)
	}
	defer ln.Close()
	n := verifh.N(220, 4000)
	lens := []int{0, 1, 2, 5, 100, 4095, 4096, 4097, 16384, 16385, 30000}
	need := map[string]int{}
	stalls := 0
	for c := 0; c < n; c++ {
		nPre := r.Intn(3)
		sid := uint32(1 + 2*nPre)
		isHead := r.Intn(12) == 0
		body := verifh.RandBytes(r, verifh.Pick(r, lens), "")
		if r.Intn(3) == 0 {
			body = verifh.RandBytes(r, r.Intn(3000), "")
		}
		var evs []c02Ev
		if r.Intn(4) == 0 {
			evs = append(evs, c02Ev{kind: 'H', fields: []c02KV{{":status", verifh.Pick(r, []string{"100", "103"})}, {"x-early", "1"}}})
		}
		status := verifh.Pick(r, []string{"200", "200", "201", "404", "500"})
		fs := []c02KV{{":status", status}}
		for i := r.Intn(4); i > 0; i-- {
			fs = append(fs, c02KV{verifh.Pick(r, []string{"x-a", "x-b", "x-a", "content-type", "x-request-id"}), strings.Trim(verifh.RandBytes(r, r.Intn(12), "abcXYZ019 -_=;,/"), " ")})
		}
		declared := r.Intn(2) == 0
		if declared {
			fs = append(fs, c02KV{"content-length", strconv.Itoa(len(body))})
		}
		var trailers []c02KV
		if r.Intn(3) == 0 && !isHead {
			for i := 1 + r.Intn(2); i > 0; i-- {
				trailers = append(trailers, c02KV{verifh.Pick(r, []string{"x-t", "x-trail-sum", "grpc-status"}), strings.Trim(verifh.RandBytes(r, r.Intn(10), "abc019 -_"), " ")})
			}
			if r.Intn(2) == 0 {
				fs = append(fs, c02KV{"trailer", "X-T, x-trail-sum"})
			}
		}
		headEnds := (len(body) == 0 || isHead) && len(trailers) == 0 && r.Intn(2) == 0
		headIdx := len(evs)
		evs = append(evs, c02Ev{kind: 'H', fields: fs, es: headEnds})
		if !headEnds {
			rest := body
			if isHead {
				rest = ""
			}
			parts := 1 + r.Intn(6)
			for len(rest) > 0 {
				k := len(rest)
				if parts > 1 {
					k = 1 + r.Intn(2*len(rest)/parts+1)
					if k > len(rest) {
						k = len(rest)
					}
				}
				if k > 16384 {
					k = 16384
				}
				parts--
				last := k == len(rest) && len(trailers) == 0 && r.Intn(3) != 0
				evs = append(evs, c02Ev{kind: 'D', data: rest[:k], es: last})
				rest = rest[k:]
			}
			if !evs[len(evs)-1].es {
				if len(trailers) > 0 {
					evs = append(evs, c02Ev{kind: 'H', fields: trailers, es: true})
				} else {
					evs = append(evs, c02Ev{kind: 'D', data: "", es: true})
				}
			}
		}
		// connection frames at positions 0..len(evs): position p = before response frame p
		nconn := 1 + r.Intn(3)
		at := map[int][]c02CEv{}
		var buckets []string
		aborted := false // the model's verdict so far (recomputed by the model, this only places the syncs)
		mergedCode := uint32(0)
		// positions in increasing order so that `aborted` / `mergedCode` follow the wire order
		var poss []int
		for i := 0; i < nconn; i++ {
			poss = append(poss, r.Intn(len(evs)+1))
		}
		for i := range poss {
			for j := i + 1; j < len(poss); j++ {
				if poss[j] < poss[i] {
					poss[i], poss[j] = poss[j], poss[i]
				}
			}
		}
		between := false
		// the usual graceful shutdown is two GOAWAYs: "going away" (last-stream-id 2^31-1 or the
		// newest stream) and later the real one; the error code of the first sticks
		twoStep := nconn >= 2 && r.Intn(3) == 0
		for ci, p := range poss {
			ce := c02CEv{delay: r.Intn(2) == 0}
			where := "pos:mid-response"
			switch {
			case p == len(evs):
				where = "pos:after-END_STREAM"
			case p <= headIdx:
				where = "pos:before-head"
			}
			beforeEnd := p == len(evs)-1 && p > headIdx
			if p > 0 && p < len(evs) {
				between = true
			}
			if (twoStep && ci < 2) || r.Intn(10) < 6 {
				ce.ck = 'G'
				lasts := []uint32{0, sid - 1, sid, sid, sid, sid + 1, sid + 2, 1<<31 - 1}
				if sid >= 3 {
					lasts = append(lasts, sid-2)
				}
				ce.last = verifh.Pick(r, lasts)
				if twoStep && ci == 0 {
					ce.last = verifh.Pick(r, []uint32{1<<31 - 1, 1<<31 - 1, sid, sid + 2})
					buckets = append(buckets, "goaway:two-step-shutdown")
				}
				ce.code = verifh.Pick(r, []uint32{0, 0, 0, 2, 11})
				if mergedCode == 0 {
					mergedCode = ce.code
				} else if ce.code == 0 {
					buckets = append(buckets, "goaway:earlier-error-code-sticks")
				}
				rel := "equal"
				if ce.last < sid {
					rel = "below"
				} else if ce.last > sid {
					rel = "above"
				}
				kind := "graceful"
				if ce.code != 0 {
					kind = "error"
				}
				d := "no-pause"
				if ce.delay {
					d = "pause"
				}
				buckets = append(buckets, "goaway:last-"+rel+"/"+kind, "goaway:last-"+rel+"/"+where, "goaway:last-"+rel+"/"+d)
				if beforeEnd {
					buckets = append(buckets, "goaway:last-"+rel+"/directly-before-END_STREAM-frame")
				}
				if ce.last < sid && p < len(evs) && !aborted {
					aborted = true
					ce.sync = true
					buckets = append(buckets, "goaway:aborts-stream")
					if sid == 1 && mergedCode != 0 {
						buckets = append(buckets, "goaway:aborts-stream-1-with-error-code")
					}
				}
			} else {
				ce.ck = 'N'
				ce.nkind = r.Intn(6)
				buckets = append(buckets, "neutral:"+[]string{"PING", "PING-ack", "SETTINGS-empty", "SETTINGS-params", "WINDOW_UPDATE-0", "extension"}[ce.nkind]+"/"+where)
			}
			at[p] = append(at[p], ce)
		}
		var script []c02CEv
		for p := 0; p <= len(evs); p++ {
			script = append(script, at[p]...)
			if p < len(evs) {
				script = append(script, c02CEv{c02Ev: evs[p]})
			}
		}
		pauseBeforeEnd := r.Intn(2) == 0
		if pauseBeforeEnd {
			for i := len(script) - 1; i > 0; i-- {
				if script[i].ck == 0 {
					script[i-1].delay = true
					break
				}
			}
			buckets = append(buckets, "pause-before-END_STREAM-frame")
		} else {
			buckets = append(buckets, "no-pause-before-END_STREAM-frame")
		}
		nextRead := func() int { return 1 + r.Intn(9000) }
		switch r.Intn(7) {
		case 0:
			nextRead = func() int { return 1 + r.Intn(3) }
			if len(body) > 5000 {
				nextRead = func() int { return 512 }
			}
		case 1:
			nextRead = func() int { return 7 }
			if len(body) > 5000 {
				nextRead = func() int { return 4096 }
			}
		case 2:
			nextRead = func() int { return 512 }
		case 3:
			nextRead = func() int { return 4096 }
		case 4:
			nextRead = func() int { return 65536 }
		}
		var evArgs []string
		for _, e := range script {
			evArgs = append(evArgs, c02CEvArg(e))
		}
		type caseOut struct {
			reads    []int
			impl     string
			ptxt     string
			panicked bool
		}
		outc := make(chan *caseOut, 1)
		go func() {
			co := &caseOut{}
			var reads []int
			var impl string
			defer func() {
				co.reads, co.impl = reads, impl
				outc <- co
			}()
			co.ptxt, co.panicked = verifh.Safely(func() {
				done := make(chan error, 1)
				go func() {
					conn, err := ln.Accept()
					if err != nil {
						done <- err
						return
					}
					c02GoAwayPeer(conn, nPre, script, done)
				}()
				conn, err := net.Dial("tcp", ln.Addr().String())
				if err != nil {
					impl = "infra:" + err.Error()
					return
				}
				tr := &Transport{Options: &transport.Options{}}
				tr.AllowHTTP = true
				cc, err := tr.NewClientConn(conn)
				if err != nil {
					impl = "infra:" + err.Error()
					return
				}
				defer cc.Close()
				for i := 0; i < nPre; i++ {
					preq, _ := http.NewRequest("GET", "http://c02.invalid/pre", nil)
					pres, perr := cc.RoundTrip(preq)
					if perr != nil {
						impl = "infra:earlier exchange failed: " + perr.Error()
						return
					}
					io.Copy(io.Discard, pres.Body)
					pres.Body.Close()
				}
				method := "GET"
				if isHead {
					method = "HEAD"
				}
				req, _ := http.NewRequest(method, "http://c02.invalid/x", nil)
				type rtRes struct {
					res *http.Response
					err error
				}
				rc := make(chan rtRes, 1)
				go func() {
					res, err := cc.RoundTrip(req)
					rc <- rtRes{res, err}
				}()
				var rr rtRes
				select {
				case rr = <-rc:
				case <-time.After(20 * time.Second):
					impl = "timeout:roundtrip"
					return
				}
				if rr.err != nil {
					impl = "error:" + c02H2ErrClass(rr.err)
					return
				}
				res := rr.res
				var data []byte
				var last error
				var timedOut atomic.Bool
				wd := time.AfterFunc(10*time.Second, func() {
					timedOut.Store(true)
					conn.Close()
				})
				defer wd.Stop()
				for len(reads) < 200000 {
					k := nextRead()
					reads = append(reads, k)
					p := make([]byte, k)
					m, err := res.Body.Read(p)
					data = append(data, p[:m]...)
					last = err
					if err != nil {
						break
					}
				}
				res.Body.Close()
				if timedOut.Load() {
					impl = "timeout:body-read-stalled after " + strconv.Itoa(len(data)) + " bytes"
					return
				}
				impl = "status=" + strconv.Itoa(res.StatusCode) + " hdr=" + c02Canon(res.Header, c02Keep) +
					" err=" + c02H2ErrClass(last) + " data=" + verifh.Hex(string(data)) + " trailer=" + c02Canon(res.Trailer, nil)
			})
		}()
		var co *caseOut
		select {
		case co = <-outc:
		case <-time.After(45 * time.Second):
			co = &caseOut{impl: "timeout:stalled (case did not return within 45s)"}
		}
		reads, impl := co.reads, co.impl
		line := "c02h2goaway " + strconv.Itoa(int(sid)) + " " + c02B(isHead) + " " + strings.Join(evArgs, "/") + " " + verifh.IntList(reads)
		human := fmt.Sprintf("h2 stream=%d head=%v status=%s declared=%v body=%d response-frames=%d trailers=%d conn-frames=%v pause-before-END_STREAM=%v reads=%d", sid, isHead, status, declared, len(body), len(evs), len(trailers), buckets, pauseBeforeEnd, len(reads))
		if co.panicked {
			s.Crash(line, human, co.ptxt, "")
			continue
		}
		if strings.HasPrefix(impl, "infra:") {
			s.Count("infra")
			t.Logf("skipped: %s %s", impl, human)
			continue
		}
		if strings.HasPrefix(impl, "timeout:") {
			stalls++
			s.Case(line, impl, false, "", false, human)
			if stalls >= 4 {
				break
			}
			continue
		}
		for _, b := range buckets {
			s.Count(b)
			need[b]++
		}
		s.Count("stream-id:" + strconv.Itoa(int(sid)))
		// independent oracle: a stream the GOAWAYs all keep (last-stream-id >= id) is delivered whole
		propOK := true
		if !aborted {
			want := body
			if isHead {
				want = ""
			}
			wt := http.Header{}
			if !isHead && !headEnds {
				for _, tr := range trailers {
					wt.Add(tr.k, tr.v)
				}
			}
			exp := "status=" + status + " "
			if !strings.HasPrefix(impl, exp) || !strings.Contains(impl, " err=eof data="+verifh.Hex(want)+" trailer="+c02Canon(wt, nil)) {
				propOK = false
			}
			s.Count("stream-kept")
		} else {
			s.Count("stream-aborted")
			if strings.HasPrefix(impl, "error:") {
				s.Count("aborted:" + impl)
			} else if i := strings.Index(impl, " err="); i >= 0 {
				e := impl[i+5:]
				s.Count("aborted:body-" + e[:strings.Index(e, " ")])
			}
		}
		s.Case(line, impl, propOK, "", between && len(evs) >= 2, human)
	}
	s.Finish()
	if stalls < 4 {
		for _, rel := range []string{"below", "equal", "above"} {
			for _, k := range []string{"graceful", "error", "pause", "no-pause", "pos:before-head", "pos:mid-response", "pos:after-END_STREAM", "directly-before-END_STREAM-frame"} {
				if b := "goaway:last-" + rel + "/" + k; need[b] == 0 {
					t.Errorf("lane h2goaway never reached %q", b)
				}
			}
		}
		for _, b := range []string{"goaway:aborts-stream", "goaway:two-step-shutdown", "goaway:earlier-error-code-sticks", "pause-before-END_STREAM-frame", "no-pause-before-END_STREAM-frame"} {
			if need[b] == 0 {
				t.Errorf("lane h2goaway never reached %q", b)
			}
		}
	}
}
