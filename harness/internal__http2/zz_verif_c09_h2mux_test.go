//go:build verif

package http2

import (
	"bytes"
	"context"
	"errors"
	"fmt"
	"io"
	"net"
	"net/http"
	"net/http/httptrace"
	"net/textproto"
	"os"
	"reflect"
	"sort"
	"strconv"
	"strings"
	"sync"
	"testing"
	"time"

	"github.com/imroc/req/v3/internal/transport"
	"github.com/imroc/req/v3/internal/verifh"
	xh2mux "golang.org/x/net/http2"
	"golang.org/x/net/http2/hpack"
)

// TestVerif_C09_h2mux: the demultiplexer of ONE real ClientConn against a frame-script peer,
// forced schedule, MODEL-judged. The lane generates a sequence of steps (callers starting
// roundTrip — plain, HEAD, uploads that stall on flow control, callers parked in the stream hook
// with their id allocated —, release, cancel, body close, ReserveNewRequest, closeIfIdle, and
// single frames from the peer for streams of given callers / ids nobody opened / stream 0),
// asks the Lean model (Req/Pool/H2MuxLane.lean over Req/Pool/H2Mux.lean) for the state after every
// step, and then executes the steps on the real connection: after each one it waits until the
// routing table (cc.streams id -> caller), nextStreamID, streamsReserved, pendingRequests,
// closed, goAway, doNotReuse, reqHeaderMu, what reached the wire (HEADERS order, RST_STREAM), and
// what every caller has been given (1xx, response head, body bytes per DATA frame, trailers,
// EOF / error class) equal the prediction, or reports what it saw instead.

type c09muxCaller struct {
	mu     sync.Mutex
	rt     string
	infos  []string
	runs   []string
	curTag int
	curLen int
	term   string
	cancel context.CancelFunc
	hold   chan struct{}
	res    *http.Response
	done   chan struct{}
}

func (c *c09muxCaller) flushRun() {
	if c.curLen > 0 {
		c.runs = append(c.runs, fmt.Sprintf("%dx%d", c.curTag, c.curLen))
		c.curLen = 0
	}
}

func c09muxErr(err error) string {
	var se StreamError
	switch {
	case err == nil:
		return "nil"
	case errors.Is(err, context.Canceled):
		return "canceled"
	case err == errClosedResponseBody:
		return "closed"
	case err == errClientConnUnusable:
		return "unusable"
	case err == errClientConnGotGoAway:
		return "goaway"
	case strings.HasPrefix(err.Error(), "http2: Transport received GOAWAY from server ErrCode"):
		return "goawayfatal"
	case errors.As(err, &se):
		if se.Cause == errFromPeer {
			return "rst" + strconv.Itoa(int(se.Code))
		}
		if se.Code == ErrCodeProtocol {
			return "proto"
		}
		if se.Code == ErrCodeFlowControl {
			return "flow"
		}
		return "stream" + strconv.Itoa(int(se.Code))
	case err == errClosedPipeWrite:
		return "pipe"
	}
	return "conn"
}

type c09muxPeer struct {
	conn net.Conn
	fr   *xh2mux.Framer
	wmu  sync.Mutex
	henc *hpack.Encoder
	hbuf bytes.Buffer
	mu   sync.Mutex
	hdrs []string // stream ids of request HEADERS in arrival order
	rsts [][2]int
	ks   map[uint32]string // x-k of the request on each stream
	acks chan [8]byte
	gone chan struct{} // the peer's read loop ended (the client closed the connection)
}

func (p *c09muxPeer) readLoop() {
	defer close(p.gone)
	for {
		f, err := p.fr.ReadFrame()
		if err != nil {
			return
		}
		switch f := f.(type) {
		case *xh2mux.PingFrame:
			if f.IsAck() {
				select {
				case p.acks <- f.Data:
				default:
				}
			}
		case *xh2mux.SettingsFrame:
			if !f.IsAck() {
				p.wmu.Lock()
				p.fr.WriteSettingsAck()
				p.wmu.Unlock()
			}
		case *xh2mux.MetaHeadersFrame:
			p.mu.Lock()
			p.hdrs = append(p.hdrs, strconv.Itoa(int(f.StreamID)))
			for _, hf := range f.Fields {
				if hf.Name == "x-k" {
					p.ks[f.StreamID] = hf.Value
				}
			}
			p.mu.Unlock()
		case *xh2mux.RSTStreamFrame:
			p.mu.Lock()
			p.rsts = append(p.rsts, [2]int{int(f.StreamID), int(f.ErrCode)})
			p.mu.Unlock()
		}
	}
}

func (p *c09muxPeer) headerBlock(kind int, tag int) []byte {
	p.hbuf.Reset()
	switch kind {
	case 0:
		p.henc.WriteField(hpack.HeaderField{Name: ":status", Value: "200"})
	case 1:
		p.henc.WriteField(hpack.HeaderField{Name: ":status", Value: "103"})
	}
	p.henc.WriteField(hpack.HeaderField{Name: "x-tag", Value: strconv.Itoa(tag)})
	return append([]byte(nil), p.hbuf.Bytes()...)
}

func TestVerif_C09_h2mux(t *testing.T) {
	s := verifh.New(t, "C09", "h2mux",
		"one real HTTP/2 ClientConn (strict / non-strict MAX_CONCURRENT_STREAMS 0..3 or 100, sometimes single-use) against a frame-script peer over loopback TCP; 2..5 callers; 8..34 steps drawn from {start roundTrip: GET / HEAD / upload stalled on flow control / parked in the stream hook with the id allocated; release; cancel; close body; ReserveNewRequest; closeIfIdle; peer frame HEADERS(2xx / 1xx / no :status, END_STREAM or not) / DATA(0..40 B, END_STREAM or not) / RST_STREAM / WINDOW_UPDATE(normal / overflowing) / PUSH_PROMISE / GOAWAY / SETTINGS(MAX_CONCURRENT_STREAMS) / peer closes — addressed to the stream of a chosen caller (live, finished, cancelled, never started), to ids nobody opened, to stream 0}; after EVERY step the routing table, counters, wire order and every caller's view are compared with the model's prediction; non-trivial = at least two callers got a response head and some frame went to a forgotten or unopened id")
	r := s.Rand()
	n := verifh.N(260, 5000)
	nBad := 0
	for cs := 0; cs < n && nBad < 3; cs++ {
		strict := r.Intn(2) == 0
		singleUse := r.Intn(7) == 0
		maxConc := verifh.Pick(r, []int{1, 1, 2, 2, 3, 100, 0})
		if maxConc == 0 && r.Intn(3) != 0 {
			maxConc = 2
		}
		nc := 2 + r.Intn(6)
		nops := 8 + r.Intn(27)
		if verifh.Thorough() {
			nops += r.Intn(20)
		}
		var ops []string
		// generator-side bookkeeping (what it has asked for, not what happened): which callers it
		// started, how far the peer's script for each caller's stream has got
		var startedL []int
		started := map[int]bool{}
		stage := map[int]int{}    // 0 nothing sent, 1 head sent, 2 END_STREAM / RST sent
		calm := r.Intn(3) != 0    // most cases avoid the frames that kill the whole connection
		b := func(p int) string { // "1" with probability 1/p
			if r.Intn(p) == 0 {
				return "1"
			}
			return "0"
		}
		anyCaller := func() int {
			if len(startedL) > 0 && r.Intn(8) != 0 {
				return startedL[r.Intn(len(startedL))]
			}
			return r.Intn(nc)
		}
		otherTgt := func() string {
			if r.Intn(3) == 0 {
				return "z"
			}
			return "u" + strconv.Itoa(r.Intn(2))
		}
		// scenario prefixes (then the random continuation): slot accounting under a strict limit
		// with an upload asleep on cc.cond before the pending request; callers parked with their
		// id allocated while others start; GOAWAY in the middle of several streams
		start := func(k int, head, upload, stall bool) {
			b01 := map[bool]string{true: "1", false: "0"}
			if !started[k] {
				started[k] = true
				startedL = append(startedL, k)
			}
			ops = append(ops, fmt.Sprintf("S.%d.%s.%s.%s", k, b01[head], b01[upload], b01[stall]))
		}
		finish := func(k int) { // one way of ending caller k's stream
			t := "k" + strconv.Itoa(k)
			tag := len(ops) + 1
			switch r.Intn(5) {
			case 0:
				ops = append(ops, fmt.Sprintf("PH.%s.0.1.%d", t, tag))
			case 1:
				ops = append(ops, fmt.Sprintf("PH.%s.0.0.%d", t, tag), fmt.Sprintf("PD.%s.%d.1.%d", t, verifh.Pick(r, []int{0, 7}), tag+1))
			case 2:
				ops = append(ops, fmt.Sprintf("PR.%s.%d", t, verifh.Pick(r, []int{8, 7})))
			case 3:
				ops = append(ops, "C."+strconv.Itoa(k))
			default:
				ops = append(ops, fmt.Sprintf("PH.%s.0.0.%d", t, tag), "B."+strconv.Itoa(k))
			}
			stage[k] = 2
		}
		switch scenario := r.Intn(8); {
		case scenario < 2 && nc >= 4: // slots
			strict = true
			maxConc = 2 + r.Intn(2)
			if maxConc+1 > nc {
				maxConc = nc - 1
			}
			perm := r.Perm(nc)
			up := r.Intn(maxConc) // which of the admitted streams is the stalled upload
			for i := 0; i < maxConc; i++ {
				start(perm[i], false, i == up, false)
			}
			start(perm[maxConc], false, r.Intn(4) == 0, false) // has to wait for a slot
			if maxConc+1 < nc && r.Intn(2) == 0 {
				start(perm[maxConc+1], false, false, false) // queues behind it for reqHeaderMu
			}
			victim := r.Intn(maxConc)
			for victim == up && r.Intn(4) != 0 {
				victim = r.Intn(maxConc)
			}
			finish(perm[victim])
		case scenario < 4 && nc >= 3: // ids allocated, HEADERS later
			perm := r.Perm(nc)
			start(perm[0], false, false, true)
			start(perm[1], false, r.Intn(4) == 0, r.Intn(3) == 0)
			if r.Intn(2) == 0 {
				ops = append(ops, "C."+strconv.Itoa(perm[r.Intn(2)]))
			}
			ops = append(ops, "U."+strconv.Itoa(perm[0]))
			start(perm[2], false, false, false)
			ops = append(ops, "U."+strconv.Itoa(perm[1]))
		case scenario < 5 && nc >= 3: // GOAWAY between streams
			perm := r.Perm(nc)
			if maxConc < 3 {
				maxConc = 100
			}
			for i := 0; i < 3; i++ {
				start(perm[i], false, false, false)
			}
			ops = append(ops, fmt.Sprintf("PG.k%d.%d", perm[r.Intn(3)], verifh.Pick(r, []int{0, 0, 2})))
			finish(perm[r.Intn(3)])
		}
		for i := len(ops); i < nops; i++ {
			tag := i + 1
			x := r.Intn(100)
			switch {
			case x < 20:
				k := r.Intn(nc)
				for try := 0; try < 4 && started[k]; try++ {
					k = r.Intn(nc)
				}
				if !started[k] {
					started[k] = true
					startedL = append(startedL, k)
				}
				ops = append(ops, fmt.Sprintf("S.%d.%s.%s.%s", k, b(8), b(5), b(4)))
			case x < 26:
				ops = append(ops, "U."+strconv.Itoa(anyCaller()))
			case x < 31:
				ops = append(ops, "C."+strconv.Itoa(anyCaller()))
			case x < 36:
				ops = append(ops, "B."+strconv.Itoa(anyCaller()))
			case x < 41:
				ops = append(ops, "R."+strconv.Itoa(r.Intn(nc)))
			case x < 42:
				ops = append(ops, "T")
			case x < 86:
				// a frame of the peer's script for one caller's stream (mostly in a sensible order,
				// sometimes not), or for an id nobody opened / stream 0
				if r.Intn(12) == 0 && !calm || r.Intn(40) == 0 {
					t := otherTgt()
					switch r.Intn(4) {
					case 0:
						ops = append(ops, fmt.Sprintf("PH.%s.0.%s.%d", t, b(3), tag))
					case 1:
						ops = append(ops, fmt.Sprintf("PD.%s.%d.%s.%d", t, verifh.Pick(r, []int{0, 7}), b(3), tag))
					case 2:
						ops = append(ops, fmt.Sprintf("PR.%s.8", t))
					default:
						ops = append(ops, fmt.Sprintf("PW.%s.%s", t, b(4)))
					}
					break
				}
				k := anyCaller()
				t := "k" + strconv.Itoa(k)
				st := stage[k]
				if r.Intn(6) == 0 {
					st = r.Intn(3) // out of order on purpose
				}
				switch st {
				case 0:
					switch y := r.Intn(10); {
					case y < 6:
						fin := b(4)
						ops = append(ops, fmt.Sprintf("PH.%s.0.%s.%d", t, fin, tag))
						stage[k] = 1
						if fin == "1" {
							stage[k] = 2
						}
					case y < 8:
						ops = append(ops, fmt.Sprintf("PH.%s.1.0.%d", t, tag))
					case y < 9:
						ops = append(ops, fmt.Sprintf("PH.%s.2.%s.%d", t, b(2), tag))
					default:
						ops = append(ops, fmt.Sprintf("PD.%s.7.%s.%d", t, b(2), tag))
					}
				case 1:
					switch y := r.Intn(12); {
					case y < 7:
						fin := b(3)
						ops = append(ops, fmt.Sprintf("PD.%s.%d.%s.%d", t, verifh.Pick(r, []int{0, 1, 7, 40}), fin, tag))
						if fin == "1" {
							stage[k] = 2
						}
					case y < 9:
						ops = append(ops, fmt.Sprintf("PH.%s.2.%s.%d", t, verifh.Pick(r, []string{"1", "1", "1", "0"}), tag)) // trailers
						stage[k] = 2
					case y < 10:
						ops = append(ops, fmt.Sprintf("PR.%s.%d", t, verifh.Pick(r, []int{8, 1, 7, 0})))
						stage[k] = 2
					case y < 11:
						ops = append(ops, fmt.Sprintf("PW.%s.%s", t, b(4)))
					default:
						ops = append(ops, fmt.Sprintf("PH.%s.%d.%s.%d", t, r.Intn(2), b(2), tag)) // a second head
					}
				default:
					switch r.Intn(4) {
					case 0:
						ops = append(ops, fmt.Sprintf("PH.%s.%d.%s.%d", t, r.Intn(3), b(2), tag))
					case 1:
						ops = append(ops, fmt.Sprintf("PD.%s.%d.%s.%d", t, verifh.Pick(r, []int{0, 7}), b(2), tag))
					case 2:
						ops = append(ops, fmt.Sprintf("PR.%s.%d", t, verifh.Pick(r, []int{8, 1})))
					default:
						ops = append(ops, fmt.Sprintf("PW.%s.%s", t, b(3)))
					}
				}
			case x < 90:
				last := "k" + strconv.Itoa(anyCaller())
				if r.Intn(4) == 0 {
					last = otherTgt()
				}
				ops = append(ops, fmt.Sprintf("PG.%s.%d", last, verifh.Pick(r, []int{0, 0, 2})))
			case x < 96:
				ops = append(ops, "PS."+verifh.Pick(r, []string{"0", "1", "2", "3", "100", "-"}))
			case x < 97 && !calm:
				ops = append(ops, "PP.k"+strconv.Itoa(anyCaller()))
			case x < 98 && !calm:
				ops = append(ops, "PE")
			default:
				ops = append(ops, "U."+strconv.Itoa(anyCaller()))
			}
		}
		line := fmt.Sprintf("c09h2mux %s %s %d %d %s", map[bool]string{true: "1", false: "0"}[strict],
			map[bool]string{true: "1", false: "0"}[singleUse], maxConc, nc, strings.Join(ops, ","))
		if one := os.Getenv("VERIF_C09_H2MUX_CASE"); one != "" { // debugging aid: run exactly this case
			f := strings.Fields(one)
			strict, singleUse = f[1] == "1", f[2] == "1"
			maxConc, _ = strconv.Atoi(f[3])
			nc, _ = strconv.Atoi(f[4])
			ops = strings.Split(f[5], ",")
			line = one
			cs = n
		}
		human := fmt.Sprintf("strict=%v singleUse=%v MAX_CONCURRENT_STREAMS=%d callers=%d steps=%s", strict, singleUse, maxConc, nc, strings.Join(ops, " "))
		ans, err := verifh.RunModel([]string{line})
		if err != nil {
			t.Fatalf("model: %v", err)
		}
		pred := strings.Split(ans[0], ";")
		if len(pred) != len(ops) {
			s.Case(line, "model-answer-has-"+strconv.Itoa(len(pred))+"-steps", true, "", false, human)
			nBad++
			continue
		}
		s.Begin(line, human)
		impl, interesting := c09muxRun(t, s, strict, singleUse, maxConc, nc, ops, pred)
		answer := strings.Join(impl, ";")
		s.Case(line, answer, true, "", interesting, human)
		if answer != ans[0] {
			nBad++
		}
	}
	s.Finish()
}

// c09muxRun executes the steps on a real ClientConn; returns the per-step answers.
func c09muxRun(t *testing.T, s *verifh.Session, strict, singleUse bool, maxConc, nc int, ops, pred []string) ([]string, bool) {
	ln, err := net.Listen("tcp", "127.0.0.1:0")
	if err != nil {
		t.Fatalf("listen: %v", err)
	}
	defer ln.Close()
	peerCh := make(chan *c09muxPeer, 1)
	go func() {
		c, err := ln.Accept()
		if err != nil {
			peerCh <- nil
			return
		}
		pre := make([]byte, len(clientPreface))
		if _, err := io.ReadFull(c, pre); err != nil {
			peerCh <- nil
			return
		}
		p := &c09muxPeer{conn: c, fr: xh2mux.NewFramer(c, c), ks: map[uint32]string{}, acks: make(chan [8]byte, 4), gone: make(chan struct{})}
		p.fr.ReadMetaHeaders = hpack.NewDecoder(4096, nil)
		p.henc = hpack.NewEncoder(&p.hbuf)
		p.fr.WriteSettings(xh2mux.Setting{ID: xh2mux.SettingMaxConcurrentStreams, Val: uint32(maxConc)},
			xh2mux.Setting{ID: xh2mux.SettingInitialWindowSize, Val: 1})
		go p.readLoop()
		peerCh <- p
	}()
	conn, err := net.Dial("tcp", ln.Addr().String())
	if err != nil {
		t.Fatalf("dial: %v", err)
	}
	tr := &Transport{Options: &transport.Options{}}
	tr.StrictMaxConcurrentStreams = strict
	tr.DisableKeepAlives = singleUse
	cc, err := tr.NewClientConn(conn)
	if err != nil {
		t.Fatalf("NewClientConn: %v", err)
	}
	peer := <-peerCh
	if peer == nil {
		t.Fatalf("peer setup failed")
	}
	defer peer.conn.Close()
	defer conn.Close()
	// the peer's SETTINGS have been processed
	for dl := time.Now().Add(5 * time.Second); ; {
		cc.mu.Lock()
		ok := cc.seenSettings && int(cc.maxConcurrentStreams) == maxConc && cc.initialWindowSize == 1
		cc.mu.Unlock()
		if ok {
			break
		}
		if time.Now().After(dl) {
			t.Fatalf("the peer's SETTINGS never arrived")
		}
		time.Sleep(100 * time.Microsecond)
	}

	callers := make([]*c09muxCaller, nc)
	for i := range callers {
		callers[i] = &c09muxCaller{hold: make(chan struct{}), done: make(chan struct{})}
	}
	var ownMu sync.Mutex
	owner := map[*clientStream]int{}

	startCaller := func(k int, isHead, upload, stall bool) {
		c := callers[k]
		ctx, cancel := context.WithCancel(context.Background())
		c.cancel = cancel
		if !stall {
			close(c.hold)
		}
		ctx = httptrace.WithClientTrace(ctx, &httptrace.ClientTrace{
			Got1xxResponse: func(code int, h textproto.MIMEHeader) error {
				c.mu.Lock()
				c.infos = append(c.infos, h.Get("X-Tag"))
				c.mu.Unlock()
				return nil
			},
		})
		method := "GET"
		var body io.Reader
		if upload {
			method, body = "POST", bytes.NewReader(make([]byte, 4096))
		}
		if isHead {
			method = "HEAD"
		}
		req, _ := http.NewRequestWithContext(ctx, method, "https://example.test/x", body)
		req.Header.Set("X-K", strconv.Itoa(k))
		go func() {
			defer close(c.done)
			res, err := cc.roundTrip(req, func(cs *clientStream) {
				ownMu.Lock()
				owner[cs] = k
				ownMu.Unlock()
				<-c.hold
			})
			if err != nil {
				c.mu.Lock()
				c.rt = "x" + c09muxErr(err)
				c.mu.Unlock()
				return
			}
			c.mu.Lock()
			c.rt = "h" + res.Header.Get("X-Tag")
			c.res = res
			c.mu.Unlock()
			buf := make([]byte, 512)
			for {
				m, rerr := res.Body.Read(buf)
				c.mu.Lock()
				for _, x := range buf[:m] {
					if c.curLen > 0 && int(x) == c.curTag {
						c.curLen++
					} else {
						c.flushRun()
						c.curTag, c.curLen = int(x), 1
					}
				}
				if rerr != nil {
					c.flushRun()
					if rerr == io.EOF {
						c.term = "E"
						if v := res.Trailer.Get("X-Tag"); v != "" {
							c.term += "t" + v
						}
					} else {
						c.term = "x" + c09muxErr(rerr)
					}
				}
				c.mu.Unlock()
				if rerr != nil {
					return
				}
			}
		}()
	}

	joinOr := func(sep string, l []string) string {
		if len(l) == 0 {
			return "-"
		}
		return strings.Join(l, sep)
	}
	b01 := func(x bool) string {
		if x {
			return "1"
		}
		return "0"
	}
	dump := func() string {
		var sb strings.Builder
		cc.mu.Lock()
		type ent struct {
			id int
			k  string
		}
		var ents []ent
		ownMu.Lock()
		for id, cs := range cc.streams {
			k, ok := owner[cs]
			ks := "?"
			if ok {
				ks = strconv.Itoa(k)
			}
			ents = append(ents, ent{int(id), ks})
		}
		ownMu.Unlock()
		sort.Slice(ents, func(i, j int) bool { return ents[i].id < ents[j].id })
		var ss []string
		for _, e := range ents {
			ss = append(ss, fmt.Sprintf("%d:%s", e.id, e.k))
		}
		ga := "-"
		if cc.goAway != nil {
			ga = fmt.Sprintf("%d.%d", cc.goAway.LastStreamID, cc.goAway.ErrCode)
		}
		fmt.Fprintf(&sb, "S=%s n=%d r=%d p=%d c=%s g=%s d=%s m=%d x=%d", joinOr(",", ss), cc.nextStreamID, cc.streamsReserved,
			cc.pendingRequests, b01(cc.closed), ga, b01(cc.doNotReuse), len(cc.reqHeaderMu), cc.maxConcurrentStreams)
		closed := cc.closed
		// sync.Cond's notifyList: Wait() calls so far minus notified ones = goroutines asleep on
		// cc.cond; a goroutine that was woken and has not yet gone back to sleep is SEEN
		nl := reflect.ValueOf(cc.cond).Elem().FieldByName("notify")
		waits, notified := nl.FieldByName("wait").Uint(), nl.FieldByName("notify").Uint()
		fmt.Fprintf(&sb, " w=%d", waits-notified)
		cc.mu.Unlock()
		peer.mu.Lock()
		rs := append([][2]int(nil), peer.rsts...)
		sort.SliceStable(rs, func(i, j int) bool { return rs[i][0] < rs[j][0] })
		var rss []string
		for _, x := range rs {
			rss = append(rss, fmt.Sprintf("%d.%d", x[0], x[1]))
		}
		rjoined := joinOr(",", rss)
		if closed {
			rjoined = "~"
		}
		fmt.Fprintf(&sb, " H=%s R=%s", joinOr(",", peer.hdrs), rjoined)
		peer.mu.Unlock()
		dead := false
		select {
		case <-cc.readerDone:
			dead = true
		default:
		}
		fmt.Fprintf(&sb, " D=%s", b01(dead))
		for k, c := range callers {
			c.mu.Lock()
			rt := c.rt
			if rt == "" {
				rt = "w"
			}
			body, term := "-", "-"
			if strings.HasPrefix(rt, "h") {
				runs := append([]string(nil), c.runs...)
				if c.curLen > 0 {
					runs = append(runs, fmt.Sprintf("%dx%d", c.curTag, c.curLen))
				}
				body = joinOr(".", runs)
				if c.term != "" {
					term = c.term
				}
			}
			fmt.Fprintf(&sb, " %d[%s|%s|%s|%s]", k, rt, joinOr(".", c.infos), body, term)
			c.mu.Unlock()
		}
		return sb.String()
	}

	var impl []string
	prev := "S=-"
	heads := 0
	stray := false
	for i, op := range ops {
		if pred[i] == "skip" {
			impl = append(impl, "skip")
			s.Count("steps-skipped")
			continue
		}
		s.Count("steps-executed")
		pp := strings.SplitN(pred[i], "|", 3)
		if len(pp) != 3 {
			impl = append(impl, "unparsable-prediction")
			break
		}
		id := 0
		if pp[0] != "-" {
			id, _ = strconv.Atoi(pp[0])
		}
		f := strings.Split(op, ".")
		ai := func(j int) int { v, _ := strconv.Atoi(f[j]); return v }
		out := "-"
		peer.wmu.Lock()
		switch f[0] {
		case "R":
			out = strconv.FormatBool(cc.ReserveNewRequest())
		case "S":
			startCaller(ai(1), f[2] == "1", f[3] == "1", f[4] == "1")
		case "U":
			c := callers[ai(1)]
			select {
			case <-c.hold:
			default:
				close(c.hold)
			}
		case "C":
			if c := callers[ai(1)]; c.cancel != nil {
				c.cancel()
			}
		case "B":
			c := callers[ai(1)]
			c.mu.Lock()
			res := c.res
			c.mu.Unlock()
			if res != nil {
				// Close blocks until the stream is done (which a caller parked in the hook is not):
				// run it aside, but do not go on before it has aborted the stream
				go res.Body.Close()
				ownMu.Lock()
				var kcs *clientStream
				for cs, k := range owner {
					if k == ai(1) {
						kcs = cs
					}
				}
				ownMu.Unlock()
				if kcs != nil {
					select {
					case <-kcs.abort:
					case <-time.After(3 * time.Second):
					}
				}
			}
		case "T":
			cc.closeIfIdle() // reports nothing: the decision shows in the state it leaves
		case "PH":
			peer.fr.WriteHeaders(xh2mux.HeadersFrameParam{StreamID: uint32(id), BlockFragment: peer.headerBlock(ai(2), ai(4)),
				EndStream: f[3] == "1", EndHeaders: true})
		case "PD":
			peer.fr.WriteData(uint32(id), f[3] == "1", bytes.Repeat([]byte{byte(ai(4))}, ai(2)))
		case "PR":
			peer.fr.WriteRSTStream(uint32(id), xh2mux.ErrCode(ai(2)))
		case "PW":
			incr := uint32(1)
			if f[2] == "1" {
				incr = 1<<31 - 1
			}
			peer.fr.WriteWindowUpdate(uint32(id), incr)
		case "PP":
			peer.fr.WritePushPromise(xh2mux.PushPromiseParam{StreamID: uint32(id), PromiseID: 2, BlockFragment: peer.headerBlock(2, 0), EndHeaders: true})
		case "PG":
			peer.fr.WriteGoAway(uint32(id), xh2mux.ErrCode(ai(2)), nil)
		case "PS":
			if f[1] == "-" {
				peer.fr.WriteSettings()
			} else {
				peer.fr.WriteSettings(xh2mux.Setting{ID: xh2mux.SettingMaxConcurrentStreams, Val: uint32(ai(1))})
			}
		case "PE":
			peer.conn.Close()
		}
		if strings.HasPrefix(f[0], "P") && f[0] != "PE" {
			// barrier: frames are processed in order, so the PING ack means the frame above has
			// been dealt with by the read loop (or the connection is gone)
			var pd [8]byte
			copy(pd[:], fmt.Sprintf("%08d", i))
			peer.fr.WritePing(false, pd)
			peer.wmu.Unlock()
		barrier:
			for {
				select {
				case a := <-peer.acks:
					if a == pd {
						break barrier
					}
				case <-peer.gone:
					break barrier
				case <-cc.readerDone:
					break barrier
				case <-time.After(3 * time.Second):
					break barrier
				}
			}
		} else {
			peer.wmu.Unlock()
		}
		want := pp[2]
		got := ""
		for dl := time.Now().Add(3 * time.Second); ; {
			got = dump()
			if got == want || time.Now().After(dl) {
				break
			}
			time.Sleep(150 * time.Microsecond)
		}
		impl = append(impl, pp[0]+"|"+out+"|"+got)
		if len(f) > 1 && strings.HasPrefix(f[0], "P") && f[0] != "PS" && f[0] != "PG" {
			// a frame for an id nobody opened, or for a stream that is no longer in the table
			if strings.HasPrefix(f[1], "u") || (strings.HasPrefix(f[1], "k") && !strings.Contains(strings.SplitN(prev, " ", 2)[0]+",", ":"+f[1][1:]+",")) {
				stray = true
			}
		}
		prev = got
		if got != want {
			break
		}
	}
	// the state must also be stable: nothing more happens on its own
	if len(impl) == len(ops) && len(impl) > 0 && impl[len(impl)-1] != "skip" {
		time.Sleep(2 * time.Millisecond)
		last := impl[len(impl)-1]
		pp := strings.SplitN(last, "|", 3)
		if d := dump(); d != pp[2] {
			impl[len(impl)-1] = pp[0] + "|" + pp[1] + "|" + d + " (state moved on after the last step)"
		}
	}
	for _, c := range callers {
		c.mu.Lock()
		if strings.HasPrefix(c.rt, "h") {
			heads++
		}
		c.mu.Unlock()
	}
	// request direction: the request of caller k travelled on the stream the table lists for k
	ownMu.Lock()
	peer.mu.Lock()
	for cs, k := range owner {
		if v, ok := peer.ks[cs.ID]; ok && v != strconv.Itoa(k) {
			impl = append(impl, fmt.Sprintf("request-of-caller-%d-travelled-as-%s-on-stream-%d", k, v, cs.ID))
		}
	}
	peer.mu.Unlock()
	ownMu.Unlock()
	// tear down
	for _, c := range callers {
		if c.cancel != nil {
			c.cancel()
		}
		select {
		case <-c.hold:
		default:
			close(c.hold)
		}
	}
	conn.Close()
	peer.conn.Close()
	for _, c := range callers {
		if c.cancel != nil {
			select {
			case <-c.done:
			case <-time.After(2 * time.Second):
			}
		}
	}
	for _, l := range []string{"S=", "p=1", "c=1", "xunusable", "xgoaway", "xrst", "xproto", "xflow", "xcanceled", "xclosed", "xconn", "|E", "Et"} {
		for _, a := range impl {
			if strings.Contains(a, l) {
				s.Count("reached:" + l)
				break
			}
		}
	}
	return impl, heads >= 2 && stray
}
