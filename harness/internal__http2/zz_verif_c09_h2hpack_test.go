//go:build verif

package http2

import (
	"bytes"
	"context"
	"encoding/hex"
	"fmt"
	"io"
	"net"
	"net/http"
	"strconv"
	"strings"
	"sync"
	"testing"
	"time"

	"github.com/imroc/req/v3/internal/transport"
	"github.com/imroc/req/v3/internal/verifh"
	xh2hp "golang.org/x/net/http2"
	"golang.org/x/net/http2/hpack"
)

// TestVerif_C09_h2hpack (model-judged + oracle): the HPACK encoder of ONE real ClientConn is
// shared by all requests on the connection. Sequences of requests whose header fields repeat
// (so that later blocks are mostly indices into the dynamic table) with callers giving up at every
// point before their HEADERS are written: context done before the call, while queueing for
// reqHeaderMu behind a parked request, and inside the stream hook (id allocated, reqHeaderMu
// held — the moment just before encodeAndWriteHeaders). The peer keeps the RAW header blocks,
// decodes them with a real hpack.Decoder that lives as long as the connection, and the lane
// checks (oracle) that it never fails and yields each written request's own fields, and (model)
// that the representation chosen for every field — index / literal with or without indexing,
// which name index — is what Req/Pool/H2Hpack.lean (theorem hpack_tables_in_sync) computes for
// the sequence of blocks that reached the wire.

type c09hpPeer struct {
	conn   net.Conn
	fr     *xh2hp.Framer
	wmu    sync.Mutex
	henc   *hpack.Encoder
	hbuf   bytes.Buffer
	mu     sync.Mutex
	blocks [][]byte // raw header blocks in arrival order
	ids    []uint32
	gone   chan struct{}
}

func (p *c09hpPeer) readLoop() {
	defer close(p.gone)
	var cur []byte
	var curID uint32
	var endStream bool
	finish := func() {
		p.mu.Lock()
		p.blocks = append(p.blocks, cur)
		p.ids = append(p.ids, curID)
		p.mu.Unlock()
		if endStream {
			p.respond(curID)
		}
		cur = nil
	}
	for {
		f, err := p.fr.ReadFrame()
		if err != nil {
			return
		}
		switch f := f.(type) {
		case *xh2hp.SettingsFrame:
			if !f.IsAck() {
				p.wmu.Lock()
				p.fr.WriteSettingsAck()
				p.wmu.Unlock()
			}
		case *xh2hp.HeadersFrame:
			cur = append([]byte(nil), f.HeaderBlockFragment()...)
			curID = f.StreamID
			endStream = f.StreamEnded()
			if f.HeadersEnded() {
				finish()
			}
		case *xh2hp.ContinuationFrame:
			cur = append(cur, f.HeaderBlockFragment()...)
			if f.HeadersEnded() {
				finish()
			}
		case *xh2hp.DataFrame:
			if f.StreamEnded() {
				p.respond(f.StreamID)
			}
		}
	}
}

func (p *c09hpPeer) respond(id uint32) {
	p.wmu.Lock()
	defer p.wmu.Unlock()
	p.hbuf.Reset()
	p.henc.WriteField(hpack.HeaderField{Name: ":status", Value: "200"})
	p.fr.WriteHeaders(xh2hp.HeadersFrameParam{StreamID: id, BlockFragment: p.hbuf.Bytes(), EndHeaders: true, EndStream: true})
}

func c09hpVarint(n uint, b []byte) (uint64, []byte, error) {
	if len(b) == 0 {
		return 0, nil, fmt.Errorf("truncated")
	}
	mask := uint64(1)<<n - 1
	v := uint64(b[0]) & mask
	b = b[1:]
	if v < mask {
		return v, b, nil
	}
	var m uint
	for {
		if len(b) == 0 {
			return 0, nil, fmt.Errorf("truncated")
		}
		c := b[0]
		b = b[1:]
		v += uint64(c&0x7f) << m
		m += 7
		if c&0x80 == 0 {
			return v, b, nil
		}
	}
}

func c09hpSkipString(b []byte) ([]byte, error) {
	l, rest, err := c09hpVarint(7, b)
	if err != nil || uint64(len(rest)) < l {
		return nil, fmt.Errorf("truncated string")
	}
	return rest[l:], nil
}

// c09hpReps reads the representation kinds off a raw header block (RFC 7541 section 6).
func c09hpReps(b []byte) ([]string, error) {
	var out []string
	for len(b) > 0 {
		c := b[0]
		var idx uint64
		var err error
		kind := ""
		switch {
		case c&0x80 != 0:
			idx, b, err = c09hpVarint(7, b)
			if err != nil {
				return out, err
			}
			out = append(out, "I"+strconv.FormatUint(idx, 10))
			continue
		case c&0xc0 == 0x40:
			idx, b, err = c09hpVarint(6, b)
			kind = "+"
		case c&0xe0 == 0x20:
			_, b, err = c09hpVarint(5, b)
			if err != nil {
				return out, err
			}
			out = append(out, "SIZE-UPDATE")
			continue
		case c&0xf0 == 0x10:
			idx, b, err = c09hpVarint(4, b)
			kind = "!"
		default:
			idx, b, err = c09hpVarint(4, b)
			kind = "-"
		}
		if err != nil {
			return out, err
		}
		if idx == 0 {
			if b, err = c09hpSkipString(b); err != nil {
				return out, err
			}
		}
		if b, err = c09hpSkipString(b); err != nil {
			return out, err
		}
		out = append(out, "L"+strconv.FormatUint(idx, 10)+kind)
	}
	return out, nil
}

func c09hpHex(s string) string {
	if s == "" {
		return "_"
	}
	return hex.EncodeToString([]byte(s))
}

type c09hpReq struct {
	mode   string // N normal · C0 context done before the call · CH cancelled inside the stream hook · CQ cancelled while queueing for reqHeaderMu (behind a parked normal request)
	method string
	path   string
	hdr    [][2]string
}

func TestVerif_C09_h2hpack(t *testing.T) {
	s := verifh.New(t, "C09", "h2hpack",
		"4..12 requests on ONE real ClientConn against a frame-script peer that keeps the raw header blocks: methods GET/HEAD/POST(no body), paths / , /index.html, /p<i>; header fields drawn with repetition from a small pool (x-a, x-b with 2 values each, cookie with 1..3 crumbs, authorization, a 1500-byte and a 5000-byte x-pad — the table holds two of the former and none of the latter: eviction and not-indexed literals), a per-request x-tag; the peer announces SETTINGS_HEADER_TABLE_SIZE 4096 (default, 4 of 9) / 256 / 100 / 0 / 1700 / 8192 before the first request and decodes with a table of that size (cases < 4096 carry the class of finding C09-5); request modes: normal / context done before the call / cancelled while queueing for reqHeaderMu behind a parked request / cancelled inside the stream hook (id allocated, just before encodeAndWriteHeaders); oracle: the peer's connection-long hpack.Decoder never fails, block i carries the x-tag of the i-th request that was meant to be written, every normal request gets its 200; model: representation of every field of every block + dynamic-table length = Req/Pool/H2Hpack.lean; non-trivial = a cancelled request between two written ones and at least one field sent as a dynamic-table index")
	r := s.Rand()
	n := verifh.N(40, 700)
	nBad := 0
	pool := [][2]string{{"x-a", "alpha"}, {"x-a", "beta"}, {"x-b", "one"}, {"x-b", "two"}, {"authorization", "Bearer s3cr3t"},
		{"cookie", "k1=v1"}, {"cookie", "k1=v1; k2=v2"}, {"cookie", "k1=v1; k2=v2; k3=v3"},
		{"x-pad", strings.Repeat("p", 1500)}, {"x-pad", strings.Repeat("q", 1500)}, {"x-pad", strings.Repeat("r", 1500)},
		{"x-big", strings.Repeat("B", 5000)}, {"accept-language", "en"}, {"user-agent", "verif"}}
	for cs := 0; cs < n && nBad < 3; cs++ {
		k := 4 + r.Intn(9)
		// r5 finding C09-5: the peer's SETTINGS_HEADER_TABLE_SIZE (its decoder table); 4096 = default, not sent
		tableSize := verifh.Pick(r, []int{4096, 4096, 4096, 4096, 256, 100, 0, 1700, 8192})
		reqs := make([]c09hpReq, k)
		var human []string
		for i := range reqs {
			q := &reqs[i]
			q.mode = verifh.Pick(r, []string{"N", "N", "N", "N", "C0", "CH", "CH", "CQ"})
			if i == 0 {
				q.mode = verifh.Pick(r, []string{"N", "N", "CH"})
			}
			q.method = verifh.Pick(r, []string{"GET", "GET", "HEAD", "POST"})
			q.path = verifh.Pick(r, []string{"/", "/index.html", "/p" + strconv.Itoa(i), "/p0"})
			for _, h := range pool {
				if r.Intn(4) == 0 {
					dup := false
					for _, e := range q.hdr {
						if e[0] == h[0] {
							dup = true
						}
					}
					if !dup {
						q.hdr = append(q.hdr, h)
					}
				}
			}
			q.hdr = append(q.hdr, [2]string{"x-tag", "t" + strconv.Itoa(cs*100+i)})
			var hn []string
			for _, h := range q.hdr {
				v := h[1]
				if len(v) > 12 {
					v = fmt.Sprintf("%s..(%dB)", v[:4], len(v))
				}
				hn = append(hn, h[0]+"="+v)
			}
			human = append(human, fmt.Sprintf("%s:%s %s {%s}", q.mode, q.method, q.path, strings.Join(hn, " ")))
		}
		hum := fmt.Sprintf("peer HEADER_TABLE_SIZE=%d: ", tableSize) + strings.Join(human, " | ")
		s.Begin(fmt.Sprintf("h2hpack-%d", cs), hum)
		blocks, ids, wantTags, problems := c09hpRun(t, reqs, tableSize)
		// known finding C09-5 (fixes/C09-5-h2-peer-header-table-size.patch): the encoder ignores a
		// peer table smaller than its own 4096 — exactly the cases with tableSize < 4096
		class := ""
		if tableSize < 4096 {
			class = "h2-peer-header-table-size-ignored"
		}
		s.Count(fmt.Sprintf("peer-table-%d", tableSize))
		// oracle: a decoder that lives as long as the connection, created as a peer that announced
		// tableSize creates it
		dec := hpack.NewDecoder(uint32(tableSize), nil)
		var modelBlocks, implAns []string
		sawDynIndex, cancelledBetween := false, false
		ok := len(problems) == 0
		detail := append([]string(nil), problems...)
		if len(blocks) != len(wantTags) {
			ok = false
			detail = append(detail, fmt.Sprintf("%d header blocks reached the peer, %d requests were to be written", len(blocks), len(wantTags)))
		}
		for i, raw := range blocks {
			hfs, err := dec.DecodeFull(raw)
			if err != nil {
				ok = false
				detail = append(detail, fmt.Sprintf("block %d (stream %d): the peer's decoder fails: %v", i, ids[i], err))
				break
			}
			tag := ""
			var fs []string
			for _, hf := range hfs {
				if hf.Name == "x-tag" {
					tag = hf.Value
				}
				sens := "0"
				if hf.Sensitive {
					sens = "1"
				}
				fs = append(fs, c09hpHex(hf.Name)+":"+c09hpHex(hf.Value)+":"+sens)
			}
			if i < len(wantTags) && tag != wantTags[i] {
				ok = false
				detail = append(detail, fmt.Sprintf("block %d (stream %d) decodes to x-tag %q, the request written there has %q", i, ids[i], tag, wantTags[i]))
			}
			reps, err := c09hpReps(raw)
			{ // dynamic table size updates are not field representations
				var fr []string
				for _, rp := range reps {
					if rp == "SIZE-UPDATE" {
						s.Count("size-update-seen")
						continue
					}
					fr = append(fr, rp)
				}
				reps = fr
			}
			if err != nil {
				ok = false
				detail = append(detail, fmt.Sprintf("block %d: cannot read the representations: %v", i, err))
				break
			}
			for _, rp := range reps {
				if strings.HasPrefix(rp, "I") {
					if v, _ := strconv.Atoi(rp[1:]); v > 61 {
						sawDynIndex = true
					}
				}
			}
			modelBlocks = append(modelBlocks, strings.Join(fs, ","))
			implAns = append(implAns, strings.Join(reps, ",")+"/"+strconv.Itoa(dec2len(dec, hfs)))
		}
		seenWritten := false
		for i, q := range reqs {
			if q.mode == "N" {
				if seenWritten && i > 0 && reqs[i-1].mode != "N" {
					cancelledBetween = true
				}
				seenWritten = true
			}
		}
		s.Count(fmt.Sprintf("blocks-%d", len(blocks)))
		for _, q := range reqs {
			s.Count("mode-" + q.mode)
		}
		nontrivial := sawDynIndex && cancelledBetween
		if !ok || len(modelBlocks) == 0 {
			s.Observe(fmt.Sprintf("h2hpack-%d", cs), ok, class, nontrivial, hum, strings.Join(detail, "; "))
			if !ok && class == "" { // a known-finding case does not end the lane early
				nBad++
			}
			continue
		}
		// the dynamic-table length is not observable at the peer: take the model's (the tie is the
		// representation list, which depends on the whole table content)
		eff := tableSize // the encoder's own limit is 4096
		if eff > 4096 {
			eff = 4096
		}
		line := fmt.Sprintf("c09hpack %d ", eff) + strings.Join(modelBlocks, "/")
		ans, err := verifh.RunModel([]string{line})
		if err != nil {
			t.Fatalf("model: %v", err)
		}
		pred := strings.Split(ans[0], ";")
		for i := range implAns {
			if i < len(pred) {
				if j := strings.LastIndex(pred[i], "/"); j >= 0 {
					implAns[i] = strings.TrimSuffix(implAns[i], "/-1") + pred[i][j:]
				}
			}
		}
		answer := strings.Join(implAns, ";")
		s.Case(line, answer, true, class, nontrivial, hum)
		if answer != ans[0] && class == "" {
			nBad++
		}
	}
	s.Finish()
}

// the peer's table length cannot be read from outside the hpack package
func dec2len(*hpack.Decoder, []hpack.HeaderField) int { return -1 }

func c09hpRun(t *testing.T, reqs []c09hpReq, tableSize int) (blocks [][]byte, ids []uint32, wantTags []string, problems []string) {
	ln, err := net.Listen("tcp", "127.0.0.1:0")
	if err != nil {
		t.Fatalf("listen: %v", err)
	}
	defer ln.Close()
	peerCh := make(chan *c09hpPeer, 1)
	go func() {
		c, err := ln.Accept()
		if err != nil {
			peerCh <- nil
			return
		}
		pre := make([]byte, len(clientPreface))
		if _, err := io.ReadFull(c, pre); err != nil {
			peerCh <- nil
			return
		}
		p := &c09hpPeer{conn: c, fr: xh2hp.NewFramer(c, c), gone: make(chan struct{})}
		p.henc = hpack.NewEncoder(&p.hbuf)
		if tableSize != 4096 {
			p.fr.WriteSettings(xh2hp.Setting{ID: xh2hp.SettingMaxConcurrentStreams, Val: 100},
				xh2hp.Setting{ID: xh2hp.SettingHeaderTableSize, Val: uint32(tableSize)})
		} else {
			p.fr.WriteSettings(xh2hp.Setting{ID: xh2hp.SettingMaxConcurrentStreams, Val: 100})
		}
		go p.readLoop()
		peerCh <- p
	}()
	conn, err := net.Dial("tcp", ln.Addr().String())
	if err != nil {
		t.Fatalf("dial: %v", err)
	}
	tr := &Transport{Options: &transport.Options{}}
	cc, err := tr.NewClientConn(conn)
	if err != nil {
		t.Fatalf("NewClientConn: %v", err)
	}
	peer := <-peerCh
	if peer == nil {
		t.Fatalf("peer setup failed")
	}
	defer peer.conn.Close()
	defer conn.Close()
	for dl := time.Now().Add(5 * time.Second); ; {
		cc.mu.Lock()
		ok := cc.seenSettings
		cc.mu.Unlock()
		if ok {
			break
		}
		if time.Now().After(dl) {
			t.Fatalf("the peer's SETTINGS never arrived")
		}
		time.Sleep(100 * time.Microsecond)
	}
	mk := func(q c09hpReq, ctx context.Context) *http.Request {
		req, _ := http.NewRequestWithContext(ctx, q.method, "https://example.test"+q.path, nil)
		for _, h := range q.hdr {
			req.Header.Set(h[0], h[1])
		}
		return req
	}
	type result struct {
		res *http.Response
		err error
	}
	call := func(req *http.Request, hook func(*clientStream)) chan result {
		ch := make(chan result, 1)
		go func() {
			res, err := cc.roundTrip(req, hook)
			if err == nil {
				io.Copy(io.Discard, res.Body)
				res.Body.Close()
			}
			ch <- result{res, err}
		}()
		return ch
	}
	wait := func(ch chan result, what string) (result, bool) {
		select {
		case r := <-ch:
			return r, true
		case <-time.After(5 * time.Second):
			problems = append(problems, what+": roundTrip did not return within 5 s")
			return result{}, false
		}
	}
	tagOf := func(q c09hpReq) string { return q.hdr[len(q.hdr)-1][1] }
	for i, q := range reqs {
		what := fmt.Sprintf("request %d (%s)", i, q.mode)
		switch q.mode {
		case "N":
			wantTags = append(wantTags, tagOf(q))
			r, ok := wait(call(mk(q, context.Background()), nil), what)
			if !ok {
				return
			}
			if r.err != nil {
				problems = append(problems, fmt.Sprintf("%s failed: %v", what, r.err))
				goto done
			} else if r.res.StatusCode != 200 {
				problems = append(problems, fmt.Sprintf("%s: status %d", what, r.res.StatusCode))
			}
		case "C0":
			ctx, cancel := context.WithCancel(context.Background())
			cancel()
			r, ok := wait(call(mk(q, ctx), nil), what)
			if !ok {
				return
			}
			if r.err == nil {
				problems = append(problems, what+": succeeded although its context was done before the call")
			}
		case "CH":
			ctx, cancel := context.WithCancel(context.Background())
			entered, release := make(chan struct{}), make(chan struct{})
			ch := call(mk(q, ctx), func(*clientStream) { close(entered); <-release })
			select {
			case <-entered:
			case <-time.After(5 * time.Second):
				problems = append(problems, what+": never reached the stream hook")
				return
			}
			cancel()
			close(release)
			r, ok := wait(ch, what)
			if !ok {
				return
			}
			if r.err == nil {
				problems = append(problems, what+": succeeded although cancelled before its HEADERS were written")
			}
		case "CQ":
			// a normal request parks in the hook holding reqHeaderMu; this one queues behind it and gives up
			j := i // the parked request is a copy of this one's headers with its own tag: written afterwards
			_ = j
			holder := q
			holder.hdr = append(append([][2]string(nil), q.hdr[:len(q.hdr)-1]...), [2]string{"x-tag", tagOf(q) + "h"})
			entered, release := make(chan struct{}), make(chan struct{})
			hch := call(mk(holder, context.Background()), func(*clientStream) { close(entered); <-release })
			select {
			case <-entered:
			case <-time.After(5 * time.Second):
				problems = append(problems, what+": the holder never reached the stream hook")
				return
			}
			ctx, cancel := context.WithCancel(context.Background())
			qch := call(mk(q, ctx), nil)
			time.Sleep(time.Duration(200+100*(i%3)) * time.Microsecond)
			cancel()
			r, ok := wait(qch, what)
			if !ok {
				return
			}
			if r.err == nil {
				problems = append(problems, what+": succeeded although cancelled while queueing")
			}
			wantTags = append(wantTags, tagOf(holder))
			close(release)
			hr, ok := wait(hch, what+" holder")
			if !ok {
				return
			}
			if hr.err != nil {
				problems = append(problems, fmt.Sprintf("%s: the parked request failed: %v", what, hr.err))
				goto done
			}
		}
	}
done:
	// everything written has been answered (responses are sent after the block was recorded)
	time.Sleep(200 * time.Microsecond)
	peer.mu.Lock()
	blocks = append(blocks, peer.blocks...)
	ids = append(ids, peer.ids...)
	peer.mu.Unlock()
	return
}
