//go:build verif

package http2

// C07 round 4 — HTTP/2 header fields after HPACK: byte-position matrix and header-list budget
// boundaries against the Lean model of readMetaFrame (H2.Meta.readMeta, lane c07h2meta).

import (
	"bytes"
	"fmt"
	"strconv"
	"strings"
	"testing"

	"github.com/imroc/req/v3/internal/verifh"
	"golang.org/x/net/http2/hpack"
)

type c07field struct{ n, v string }

func c07hpackInt(b []byte, prefixBits uint, first byte, v uint64) []byte {
	max := uint64(1)<<prefixBits - 1
	if v < max {
		return append(b, first|byte(v))
	}
	b = append(b, first|byte(max))
	v -= max
	for v >= 128 {
		b = append(b, byte(v%128)|0x80)
		v /= 128
	}
	return append(b, byte(v))
}

// literal header field without indexing, new name, no Huffman
func c07hpackField(b []byte, f c07field) []byte {
	b = append(b, 0x00)
	b = c07hpackInt(b, 7, 0, uint64(len(f.n)))
	b = append(b, f.n...)
	b = c07hpackInt(b, 7, 0, uint64(len(f.v)))
	return append(b, f.v...)
}

func c07frame(t, flags byte, sid uint32, payload []byte) []byte {
	l := len(payload)
	b := []byte{byte(l >> 16), byte(l >> 8), byte(l), t, flags, byte(sid >> 24), byte(sid >> 16), byte(sid >> 8), byte(sid)}
	return append(b, payload...)
}

// c07metaRun: the block is cut into fragments of the given sizes (HEADERS + CONTINUATIONs), the
// fork's Framer reads it with ReadMetaHeaders; returns the class the driver lane renders and the
// model line.
func c07metaRun(fields []c07field, fragSizes []int, maxList uint32) (ans string, line string, panicked bool, ptxt string) {
	// The HPACK decoder (x/net, external) is abstracted to the events it produces while a fragment
	// is written: a field when its last byte has arrived, or a decoding error as soon as the length
	// prefix of a string longer than SetMaxStringLength (= the header list limit) is complete.
	maxStr := int(maxList)
	if maxStr == 0 {
		maxStr = 16 << 20
	}
	var block []byte
	type ev struct {
		at  int // offset at which the event fires (exclusive end)
		tok string
	}
	var evs0 []ev
	for _, f := range fields {
		start := len(block)
		nameLenEnd := start + 1 + len(c07hpackInt(nil, 7, 0, uint64(len(f.n))))
		block = c07hpackField(block, f)
		if len(f.n) > maxStr {
			evs0 = append(evs0, ev{nameLenEnd, "!"})
			break
		}
		if len(f.v) > maxStr {
			evs0 = append(evs0, ev{nameLenEnd + len(f.n) + len(c07hpackInt(nil, 7, 0, uint64(len(f.v)))), "!"})
			break
		}
		evs0 = append(evs0, ev{len(block), verifh.Hex(f.n) + "=" + verifh.Hex(f.v)})
	}
	var frags [][]byte
	rest := block
	for _, n := range fragSizes {
		if n > len(rest) {
			n = len(rest)
		}
		frags = append(frags, rest[:n])
		rest = rest[n:]
	}
	frags = append(frags, rest)
	var in []byte
	var parts []string
	off, fi := 0, 0
	for i, fg := range frags {
		fl := byte(0)
		if i == len(frags)-1 {
			fl = 4
		}
		if i == 0 {
			in = append(in, c07frame(1, fl, 1, fg)...)
		} else {
			in = append(in, c07frame(9, fl, 1, fg)...)
		}
		off += len(fg)
		var evs []string
		for fi < len(evs0) && evs0[fi].at <= off {
			evs = append(evs, evs0[fi].tok)
			fi++
		}
		e := "-"
		if len(evs) > 0 {
			e = strings.Join(evs, "+")
		}
		parts = append(parts, strconv.Itoa(len(fg))+":"+e)
	}
	line = "c07h2meta " + strconv.FormatUint(uint64(maxList), 10) + " " + strings.Join(parts, ";")
	ptxt, panicked = verifh.Safely(func() {
		fr := NewFramer(nil, bytes.NewReader(in))
		fr.ReadMetaHeaders = hpack.NewDecoder(4096, nil)
		fr.MaxHeaderListSize = maxList
		f, err := fr.ReadFrame()
		switch e := err.(type) {
		case nil:
			mh, ok := f.(*MetaHeadersFrame)
			if !ok {
				ans = fmt.Sprintf("?%T", f)
				return
			}
			ans = "ok " + strconv.Itoa(len(mh.Fields)) + map[bool]string{true: " truncated", false: " complete"}[mh.Truncated]
		case ConnectionError:
			ans = "conn " + strconv.Itoa(int(uint32(e)))
		case StreamError:
			ans = "stream " + strconv.Itoa(int(uint32(e.Code)))
		default:
			ans = "other-error"
		}
	})
	if panicked {
		ans = "panic"
	}
	return
}

func TestVerif_C07_h2pos(t *testing.T) {
	s := verifh.New(t, "C07", "h2pos",
		"HTTP/2 header fields after HPACK: every byte value 0x00..0xff at every position of a field (regular name first / middle / last / only, pseudo-header name after ':', the whole name, value first / middle / last, each digit of :status, content-length digits, between two pseudo-headers) in a HEADERS frame read by the fork's Framer with ReadMetaHeaders, whole or split into HEADERS + CONTINUATION at every second offset; answer = ok(#fields, truncated?) / connection error code / stream error code; model = H2.Meta.readMeta; a recovered panic is a disagreement; every case non-trivial")
	type pos struct {
		name  string
		build func(b string) []c07field
	}
	st := c07field{":status", "200"}
	poss := []pos{
		{"name-first", func(b string) []c07field { return []c07field{st, {b + "-name", "v"}} }},
		{"name-mid", func(b string) []c07field { return []c07field{st, {"x-" + b + "name", "v"}} }},
		{"name-last", func(b string) []c07field { return []c07field{st, {"x-name" + b, "v"}} }},
		{"name-only", func(b string) []c07field { return []c07field{st, {b, "v"}} }},
		{"name-before-status", func(b string) []c07field { return []c07field{{b, "v"}, st} }},
		{"pseudo-name", func(b string) []c07field { return []c07field{{":" + b, "v"}, st} }},
		{"pseudo-name-mid", func(b string) []c07field { return []c07field{{":sta" + b + "us", "200"}} }},
		{"value-first", func(b string) []c07field { return []c07field{st, {"x-name", b + "v"}} }},
		{"value-mid", func(b string) []c07field { return []c07field{st, {"x-name", "a" + b + "c"}} }},
		{"value-last", func(b string) []c07field { return []c07field{st, {"x-name", "v" + b}} }},
		{"value-only", func(b string) []c07field { return []c07field{st, {"x-name", b}} }},
		{"status-first", func(b string) []c07field { return []c07field{{":status", b + "00"}} }},
		{"status-mid", func(b string) []c07field { return []c07field{{":status", "2" + b + "0"}} }},
		{"status-last", func(b string) []c07field { return []c07field{{":status", "20" + b}} }},
		{"status-extra", func(b string) []c07field { return []c07field{{":status", "200" + b}} }},
		{"content-length", func(b string) []c07field { return []c07field{st, {"content-length", "1" + b + "0"}} }},
		{"content-type", func(b string) []c07field { return []c07field{st, {"content-type", "text/html; charset=" + b + "gbk"}} }},
	}
	for _, p := range poss {
		for i := 0; i < 256; i++ {
			fields := p.build(string([]byte{byte(i)}))
			var frag []int
			if i%2 == 1 {
				frag = []int{(i / 2) % 24} // split inside / between the fields
			}
			ans, line, pan, ptxt := c07metaRun(fields, frag, 0)
			human := fmt.Sprintf("position %s byte 0x%02x fields=%q fragments=%v", p.name, i, fields, frag)
			if pan {
				s.Count("panic")
				s.Case(line, "panic: "+ptxt[:min(len(ptxt), 1500)], false, "", true, human)
				continue
			}
			s.Count(strings.SplitN(ans, " ", 2)[0])
			s.Case(line, ans, true, "", true, human)
		}
	}
	s.Finish()
}

func TestVerif_C07_h2listbudget(t *testing.T) {
	s := verifh.New(t, "C07", "h2listbudget",
		"MaxHeaderListSize boundaries of readMetaFrame: header lists of total size T (hpack.HeaderField.Size summed) built as many tiny fields / one huge name / one huge value / mixed, limit in {T-1, T, T+1, T/2, 1, 33, 2T, 0 (default 16 MiB)}, the block whole or split into CONTINUATION frames (2 equal halves, 64-byte pieces, one byte first, an empty CONTINUATION flood of 50 frames, the second half larger than 2 x the remaining budget); answer = ok(#fields kept, truncated?) / connection error; model = H2.Meta.readMeta (remainSize accounting incl. the 2 x remainSize CONTINUATION cut-off); Go-side oracle: the kept fields never exceed the limit; every case non-trivial")
	r := s.Rand()
	type shape struct {
		name   string
		fields func() []c07field
	}
	rep := strings.Repeat
	shapes := []shape{
		{"tiny x 40", func() []c07field {
			fs := []c07field{{":status", "200"}}
			for i := 0; i < 40; i++ {
				fs = append(fs, c07field{"a" + strconv.Itoa(i%10), "b"})
			}
			return fs
		}},
		{"tiny x 400", func() []c07field {
			fs := []c07field{{":status", "200"}}
			for i := 0; i < 400; i++ {
				fs = append(fs, c07field{"x", ""})
			}
			return fs
		}},
		{"huge name", func() []c07field {
			return []c07field{{":status", "200"}, {rep("n", 3000+r.Intn(500)), "v"}}
		}},
		{"huge value", func() []c07field {
			return []c07field{{":status", "200"}, {"x-v", rep("v", 5000+r.Intn(3000))}}
		}},
		{"huge value then tiny", func() []c07field {
			return []c07field{{":status", "200"}, {"x-v", rep("v", 2000)}, {"a", "b"}, {"c", "d"}}
		}},
		{"mixed", func() []c07field {
			fs := []c07field{{":status", "200"}}
			for k := 3 + r.Intn(12); k > 0; k-- {
				fs = append(fs, c07field{"h" + rep("x", r.Intn(40)), rep("y", r.Intn(300))})
			}
			return fs
		}},
		{"invalid then more", func() []c07field {
			return []c07field{{":status", "200"}, {"Upper", "v"}, {"x", rep("v", 500)}}
		}},
	}
	rounds := verifh.N(3, 40)
	for round := 0; round < rounds; round++ {
		for _, sh := range shapes {
			fields := sh.fields()
			T := 0
			blockLen := 0
			for _, f := range fields {
				T += len(f.n) + len(f.v) + 32
				blockLen += len(c07hpackField(nil, f))
			}
			for _, lim := range []int{T - 1, T, T + 1, T / 2, 1, 33, 2 * T, 0, T - 33, 39} {
				if lim < 0 {
					continue
				}
				splits := map[string][]int{
					"whole":       nil,
					"halves":      {blockLen / 2},
					"one-first":   {1},
					"tail-heavy":  {blockLen / 10},
					"empty-flood": nil,
				}
				var p64 []int
				for n := 0; n+64 < blockLen && len(p64) < 200; n += 64 {
					p64 = append(p64, 64)
				}
				splits["64-byte"] = p64
				var flood []int
				flood = append(flood, blockLen)
				for k := 0; k < 50; k++ {
					flood = append(flood, 0)
				}
				splits["empty-flood"] = flood
				for _, sn := range []string{"whole", "halves", "one-first", "tail-heavy", "64-byte", "empty-flood"} {
					ans, line, pan, ptxt := c07metaRun(fields, splits[sn], uint32(lim))
					human := fmt.Sprintf("%s total=%d limit=%d split=%s (%d fields, block %d bytes)", sh.name, T, lim, sn, len(fields), blockLen)
					if pan {
						s.Count("panic")
						s.Case(line, "panic: "+ptxt[:min(len(ptxt), 1500)], false, "", true, human)
						continue
					}
					// independent oracle: what was kept fits the limit
					propOK := true
					if strings.HasPrefix(ans, "ok ") {
						kept, _ := strconv.Atoi(strings.Fields(ans)[1])
						sz := 0
						for _, f := range fields[:min(kept, len(fields))] {
							sz += len(f.n) + len(f.v) + 32
						}
						eff := lim
						if eff == 0 {
							eff = 16 << 20
						}
						propOK = sz <= eff
					}
					s.Count(strings.Join(strings.Fields(ans)[:1], "") + ":" + sn)
					s.Case(line, ans, propOK, "", true, human+" -> "+ans)
				}
			}
		}
	}
	s.Finish()
}
