//go:build verif

package http2

// C07 round 6 — h2databuf: the per-stream receive buffer (databuffer.go) against the Lean model
// C07.DataBuf (lane c07databuf; theorems h2_buffer_le_received / h2_buffer_le_unread /
// h2_chunk_never_sized_by_peer / h2_write_terminates).
//
// `expected` is the Content-Length the SERVER announced (transport.go: setBuffer(&dataBuffer{expected:
// res.ContentLength})). The lane drives a real dataBuffer with sequences of Write / Read calls under
// announced lengths from "none" to 2^62 — in particular huge announcements followed by little data —
// and compares, after every call, the capacities of the chunks the buffer holds, r and size with the
// model. Go-side oracle = the theorem statements on the real run: memory held <= bytes received + 16 KiB
// and <= unread + 32 KiB, measured as the sum of len(chunk) (what is allocated or taken from the pools).

import (
	"fmt"
	"strconv"
	"strings"
	"testing"

	"github.com/imroc/req/v3/internal/verifh"
)

func c07bufState(b *dataBuffer) (string, int) {
	caps := make([]string, len(b.chunks))
	held := 0
	for i, c := range b.chunks {
		caps[i] = strconv.Itoa(len(c))
		held += len(c)
	}
	cs := "-"
	if len(caps) > 0 {
		cs = strings.Join(caps, ",")
	}
	return cs + " r=" + strconv.Itoa(b.r) + " size=" + strconv.Itoa(b.size), held
}

func TestVerif_C07_h2databuf(t *testing.T) {
	s := verifh.New(t, "C07", "h2databuf",
		"HTTP/2 receive buffer dataBuffer under an announced length `expected` in {-1, 0, 1, 1023..1025, 2047..2049, 4095..4097, 8191..8193, 16383..16385, 65536, 1 MiB, 16 MiB, 512 MiB, 2^40, 2^62} x sequences of 1..10 Write(n) / Read(n) calls, n in {1, 2, 100, 1023..1025, 4096, 8193, 16383..16385, 20000, 40000, 70000} (Write sizes as DATA frames carry them, Read sizes as callers use them; reads also on an empty buffer); after every call: chunk capacities, r, size vs Lean C07.DataBuf (write/read); Go-side oracle (theorem statements on the real run): sum of chunk capacities <= bytes received + 16384 and <= unread + 32768; a recovered panic is a disagreement; every case non-trivial")
	r := s.Rand()
	expecteds := []int64{-1, 0, 1, 1023, 1024, 1025, 2047, 2048, 2049, 4095, 4096, 4097, 8191, 8192, 8193, 16383, 16384, 16385,
		65536, 1 << 20, 16 << 20, 512 << 20, 1 << 40, 1 << 62}
	sizes := []int{1, 2, 100, 1023, 1024, 1025, 4096, 8193, 16383, 16384, 16385, 20000, 40000, 70000}
	payload := make([]byte, 70000)
	sink := make([]byte, 70000)
	nseq := verifh.N(40, 1500)
	violated := false
	for _, e := range expecteds {
		if violated && e > 1<<20 {
			// the buffer already followed a smaller announcement: no escalation to sizes that end the process
			s.Count("skipped-after-violation")
			continue
		}
		for q := 0; q < nseq; q++ {
			k := 1 + r.Intn(10)
			var ops, states []string
			why := ""
			received := 0
			ptxt, pan := verifh.Safely(func() {
				b := &dataBuffer{expected: e}
				for i := 0; i < k; i++ {
					n := verifh.Pick(r, sizes)
					// the first call of a sequence is a write; a huge announcement followed by ONE small
					// write is drawn often
					isWrite := i == 0 || r.Intn(5) < 3
					if i == 0 && q%4 == 0 {
						n = verifh.Pick(r, []int{1, 2, 100})
					}
					if isWrite {
						ops = append(ops, "w"+strconv.Itoa(n))
						b.Write(payload[:n])
						received += n
					} else {
						ops = append(ops, "r"+strconv.Itoa(n))
						b.Read(sink[:n])
					}
					st, held := c07bufState(b)
					states = append(states, st)
					if why == "" && held > received+16384 {
						why = fmt.Sprintf("after %s the buffer holds %d bytes of memory with %d bytes received (announced %d)", strings.Join(ops, ","), held, received, e)
					}
					if why == "" && held > b.size+32768 {
						why = fmt.Sprintf("after %s the buffer holds %d bytes of memory for %d unread bytes", strings.Join(ops, ","), held, b.size)
					}
				}
			})
			line := "c07databuf " + strconv.FormatInt(e, 10) + " " + strings.Join(ops, ",")
			human := fmt.Sprintf("announced length %d, calls %s", e, strings.Join(ops, ","))
			if pan {
				s.Count("panic")
				s.Case(line, "panic: "+ptxt, false, "", true, human)
				continue
			}
			if why != "" {
				human += " -> " + why
				s.Count("over-budget")
				violated = true
			}
			s.Count("sequences")
			s.Case(line, strings.Join(states, ";"), why == "", "", true, human)
		}
	}
	s.Finish()
}
