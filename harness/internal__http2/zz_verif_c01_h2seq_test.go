//go:build verif

package http2

// C01 lane h2seq: SEQUENCES of requests through one real ClientConn (Transport.NewClientConn over
// loopback TCP, cc.RoundTrip) whose peer is the golang.org/x/net/http2 reference Framer with ONE
// HPACK decoder for the connection, decoding header blocks in arrival order (ReadMetaHeaders).
// Requests that are refused or abandoned locally at different points of their encoding / sending
// (header list above the peer's SETTINGS_MAX_HEADER_LIST_SIZE, invalid header value or name,
// invalid Host, context cancelled before the HEADERS are written) and requests that fail after
// their HEADERS went out (body reader error, body longer than declared, RST_STREAM from the peer,
// cancellation while waiting for the response) are interleaved with ordinary ones (with / without
// body, with trailers) that share most of their name/value pairs with their predecessors — so
// the stateful compressor refers back to what it sent, or believes it sent, before.
// Model-judged: per request the refusal class or the field list the SERVER decoded, against
// `Req.H2.ConnSeq` (clientRun / serverRun over a stateful codec) in the Lean driver.

import (
	"bytes"
	"context"
	"errors"
	"fmt"
	"io"
	"math/rand"
	"net"
	"net/http"
	"os"
	"sort"
	"strings"
	"testing"
	"time"

	"github.com/imroc/req/v3/internal/transport"
	"github.com/imroc/req/v3/internal/verifh"
	xhttp2 "golang.org/x/net/http2"
	"golang.org/x/net/http2/hpack"
)

type c01SeqEv struct {
	kind   string // headers | data | rst | pingack | fatal | streamerr
	id     uint32
	fields [][2]string
	end    bool
	err    error
}

type c01SeqConn struct {
	cc   *ClientConn
	srv  net.Conn
	fr   *xhttp2.Framer
	evs  chan c01SeqEv
	dead bool
}

func c01NewSeqConn(limit uint32) (*c01SeqConn, error) {
	ln, err := net.Listen("tcp", "127.0.0.1:0")
	if err != nil {
		return nil, err
	}
	defer ln.Close()
	type acc struct {
		c   net.Conn
		err error
	}
	ach := make(chan acc, 1)
	go func() {
		c, err := ln.Accept()
		ach <- acc{c, err}
	}()
	cli, err := net.Dial("tcp", ln.Addr().String())
	if err != nil {
		return nil, err
	}
	a := <-ach
	if a.err != nil {
		cli.Close()
		return nil, a.err
	}
	c := &c01SeqConn{srv: a.c, evs: make(chan c01SeqEv, 256)}
	tr := &Transport{Options: &transport.Options{DisableCompression: true}}
	c.cc, err = tr.NewClientConn(cli)
	if err != nil {
		a.c.Close()
		return nil, err
	}
	c.srv.SetDeadline(time.Now().Add(15 * time.Minute)) // the waits below are event driven; this only bounds a run-away connection
	pre := make([]byte, len(xhttp2.ClientPreface))
	if _, err := io.ReadFull(c.srv, pre); err != nil || string(pre) != xhttp2.ClientPreface {
		c.close()
		return nil, fmt.Errorf("preface: %v", err)
	}
	c.fr = xhttp2.NewFramer(c.srv, c.srv)
	c.fr.ReadMetaHeaders = hpack.NewDecoder(4096, nil) // ONE decoder for the whole connection
	c.fr.SetMaxReadFrameSize(1<<24 - 1)
	var st []xhttp2.Setting
	if limit != 0 {
		st = append(st, xhttp2.Setting{ID: xhttp2.SettingMaxHeaderListSize, Val: limit})
	}
	c.fr.WriteSettings(st...)
	for acks := 0; acks < 1; {
		f, err := c.fr.ReadFrame()
		if err != nil {
			c.close()
			return nil, fmt.Errorf("handshake: %v", err)
		}
		if sf, ok := f.(*xhttp2.SettingsFrame); ok {
			if sf.IsAck() {
				acks++
			} else {
				c.fr.WriteSettingsAck()
			}
		}
	}
	go c.readLoop()
	return c, nil
}

func (c *c01SeqConn) close() {
	c.cc.Close()
	c.srv.Close()
}

func (c *c01SeqConn) readLoop() {
	for {
		f, err := c.fr.ReadFrame()
		if err != nil {
			var se xhttp2.StreamError
			if errors.As(err, &se) {
				// the block was decoded (the HPACK state moved on) but the list is not a valid
				// request: report it and go on
				c.evs <- c01SeqEv{kind: "streamerr", id: se.StreamID, err: err}
				continue
			}
			c.evs <- c01SeqEv{kind: "fatal", err: err}
			return
		}
		switch f := f.(type) {
		case *xhttp2.SettingsFrame:
			if !f.IsAck() {
				c.fr.WriteSettingsAck()
			}
		case *xhttp2.PingFrame:
			if f.IsAck() {
				c.evs <- c01SeqEv{kind: "pingack"}
			}
		case *xhttp2.MetaHeadersFrame:
			ev := c01SeqEv{kind: "headers", id: f.StreamID, end: f.StreamEnded()}
			for _, hf := range f.Fields {
				ev.fields = append(ev.fields, [2]string{hf.Name, hf.Value})
			}
			c.evs <- ev
		case *xhttp2.DataFrame:
			c.evs <- c01SeqEv{kind: "data", id: f.StreamID, end: f.StreamEnded()}
		case *xhttp2.RSTStreamFrame:
			c.evs <- c01SeqEv{kind: "rst", id: f.StreamID}
		case *xhttp2.GoAwayFrame:
			c.evs <- c01SeqEv{kind: "fatal", err: fmt.Errorf("GOAWAY %v", f.ErrCode)}
		}
	}
}

type c01SeqReq struct {
	kind    string // ok okbody trailers toolarge badvalue badname badhost cancelbefore bodyerr toolong peerrst cancelafter
	fc      *verifh.C01FieldCase
	body    []byte
	trailer http.Header
}

var c01SeqNames = []string{"X-A", "X-B", "x-c", "X-Long-Header-Name", "Accept", "Content-Type", "Cookie", "Authorization", "X-D", "X-E", "Accept-Language", "User-Agent"}
var c01SeqValues = []string{"v", "value", "a, b", "x y z", "a=1; b=2", "text/html; q=0.9", "\"q\"", strings.Repeat("v", 120), "tok-1", "tok-2", "ü"}

func c01GenSeqReq(r *rand.Rand, prev *c01SeqReq, limit uint32) *c01SeqReq {
	q := &c01SeqReq{}
	q.kind = verifh.Pick(r, []string{"ok", "ok", "ok", "okbody", "okbody", "trailers", "toolarge", "toolarge", "badvalue", "badname", "badhost", "cancelbefore", "bodyerr", "toolong", "peerrst", "cancelafter"})
	if q.kind == "trailers" && limit != 0 {
		// the `trailer` field that announces the section counts against the peer's limit, and the
		// field-list model is not told about trailers: trailers run on unlimited connections only
		q.kind = "okbody"
	}
	fc := &verifh.C01FieldCase{Method: verifh.Pick(r, []string{"GET", "POST", "PUT", "DELETE", "QUERY"}), Header: http.Header{}}
	fc.RawURL = "https://verif.test" + verifh.Pick(r, []string{"/", "/a", "/a/b?x=1", "/r%2Fs?q=a+b", "/p?a=1&b=2"})
	if prev != nil && r.Intn(4) != 0 {
		// most name/value pairs are those of the previous request: the compressor refers back
		for k, vs := range prev.fc.Header {
			if strings.HasPrefix(k, "X-Big-") || strings.HasPrefix(k, "X-Bad") || k == "a b" || strings.HasPrefix(k, "__") || r.Intn(6) == 0 {
				continue
			}
			fc.Header[k] = append([]string(nil), vs...)
		}
		if r.Intn(2) == 0 {
			fc.RawURL, fc.Method = prev.fc.RawURL, prev.fc.Method
		}
	}
	for i, n := 0, r.Intn(4); i < n; i++ {
		fc.Header[verifh.Pick(r, c01SeqNames)] = []string{verifh.Pick(r, c01SeqValues)}
	}
	// round 6 — MULTI-LINE fields: a key given as several field lines (2..4 values; Cookie lines of
	// 1..3 cookie-pairs each, under the canonical and / or a non-canonical spelling of the name)
	if r.Intn(3) == 0 {
		for i, n := 0, 1+r.Intn(2); i < n; i++ {
			k := verifh.Pick(r, []string{"Cookie", "Cookie", "Cookie", "cookie", "X-A", "X-B", "x-c", "Accept", "Accept-Language", "X-E"})
			fc.Header[k] = verifh.C01GenLines(r, k, c01SeqValues)
		}
	}
	if r.Intn(5) == 0 {
		fc.Host = verifh.Pick(r, []string{"other.example", "other.example:81", "UPPER.example"})
	}
	if r.Intn(4) == 0 {
		var order []string
		for k := range fc.Header {
			if r.Intn(2) == 0 {
				order = append(order, strings.ToLower(k))
			}
		}
		sort.Strings(order)
		r.Shuffle(len(order), func(i, j int) { order[i], order[j] = order[j], order[i] })
		if len(order) > 0 {
			fc.Header[verifh.C01HeaderOrderKey] = order
		}
	}
	if r.Intn(4) == 0 {
		po := []string{":method", ":authority", ":scheme", ":path"}
		r.Shuffle(len(po), func(i, j int) { po[i], po[j] = po[j], po[i] })
		fc.Header[verifh.C01PseudoHeaderOrderKey] = po[:1+r.Intn(4)]
	}
	switch q.kind {
	case "toolarge":
		for i, n := 0, 1+r.Intn(12); i < n; i++ {
			fc.Header[fmt.Sprintf("X-Big-%d", i)] = []string{strings.Repeat(string(rune('a'+i%26)), 100+r.Intn(300))}
		}
	case "badvalue":
		fc.Header["X-Bad"] = []string{verifh.Pick(r, []string{"a\x00b", "a\r\nX-Injected: 1", "a\nb", "\x7f"})}
	case "badname":
		fc.Header["a b"] = []string{"v"}
	case "badhost":
		fc.Host = verifh.Pick(r, []string{"a b", "a/b", "evil.example\r\nX-Injected: 1", "h\x00"})
	case "okbody", "peerrst", "cancelafter":
		if q.kind == "okbody" || r.Intn(2) == 0 {
			q.body = verifh.C01GenBody(verifh.Pick(r, []int{1, 50, 700}), 7, 3)
			fc.HasBody, fc.CL = true, int64(len(q.body))
		}
	case "trailers":
		q.body = verifh.C01GenBody(verifh.Pick(r, []int{1, 50, 700}), 7, 3)
		fc.HasBody, fc.CL = true, int64(len(q.body))
		q.trailer = http.Header{"X-T": {verifh.Pick(r, c01SeqValues[:7])}}
		if r.Intn(2) == 0 {
			// a trailer pair that is also a header pair: the trailer block refers back
			q.trailer["X-A"] = []string{"v"}
			fc.Header["X-A"] = []string{"v"}
		}
	case "bodyerr":
		q.body = verifh.C01GenBody(verifh.Pick(r, []int{0, 1, 300}), 7, 3)
		fc.HasBody, fc.CL = true, -1
	case "toolong":
		q.body = verifh.C01GenBody(verifh.Pick(r, []int{5, 300}), 7, 3)
		fc.HasBody, fc.CL = true, int64(len(q.body)-3)
	}
	// fields the ClientConn-level RoundTrip refuses on its own (checkConnHeaders) are not this lane's subject
	for k := range fc.Header {
		if lk := strings.ToLower(k); lk == "upgrade" || lk == "transfer-encoding" || lk == "connection" {
			delete(fc.Header, k)
		}
	}
	q.fc = fc
	return q
}

// c01SeqHarnessTimeout: the HARNESS gave up waiting (its own time limit, or the read deadline of its
// peer connection): infrastructure, not behaviour of the library — such a sequence is skipped and
// counted, never judged (the lane fails if more than a few per cent of the sequences end this way:
// a real hang of the code under test is deterministic and shows up there).
const c01SeqHarnessTimeout = "harness time-out waiting for the request to end"

func c01IsTimeout(err error) bool {
	var ne net.Error
	return errors.Is(err, os.ErrDeadlineExceeded) || (errors.As(err, &ne) && ne.Timeout())
}

// c01RunSeqReq runs one request on the connection and returns the header blocks the peer decoded
// for it (in arrival order), the RoundTrip error and, if the connection broke, why.
func c01RunSeqReq(c *c01SeqConn, q *c01SeqReq) (blocks [][][2]string, rtErr error, fatal string) {
	ctx, cancel := context.WithCancel(context.Background())
	defer cancel()
	var body io.ReadCloser
	switch q.kind {
	case "bodyerr":
		body = &verifh.C01BodyReader{Data: append([]byte(nil), q.body...), Ending: "err"}
	default:
		if q.fc.HasBody {
			body = io.NopCloser(bytes.NewReader(q.body))
		}
	}
	req, err := http.NewRequestWithContext(ctx, q.fc.Method, q.fc.RawURL, nil)
	if err != nil {
		return nil, err, ""
	}
	req.Body = body
	req.GetBody = nil
	req.ContentLength = 0
	if q.fc.HasBody && q.fc.CL > 0 {
		req.ContentLength = q.fc.CL
	}
	req.Host = q.fc.Host
	req.Header = q.fc.Header.Clone()
	req.Trailer = q.trailer
	if q.kind == "cancelbefore" {
		cancel()
	}
	done := make(chan error, 1)
	go func() {
		res, err := c.cc.RoundTrip(req)
		if res != nil && res.Body != nil {
			res.Body.Close()
		}
		done <- err
	}()
	responded := false
	respond := func(id uint32) {
		if responded {
			return
		}
		responded = true
		var hb bytes.Buffer
		enc := hpack.NewEncoder(&hb)
		enc.WriteField(hpack.HeaderField{Name: ":status", Value: "200"})
		c.fr.WriteHeaders(xhttp2.HeadersFrameParam{StreamID: id, BlockFragment: hb.Bytes(), EndHeaders: true, EndStream: true})
	}
	finished := false
	timeout := time.After(90 * time.Second) // event driven below; only a stalled machine gets here
	for {
		select {
		case ev := <-c.evs:
			switch ev.kind {
			case "headers":
				blocks = append(blocks, ev.fields)
				if len(blocks) == 1 {
					switch q.kind {
					case "peerrst":
						c.fr.WriteRSTStream(ev.id, xhttp2.ErrCodeCancel)
						continue
					case "cancelafter":
						cancel()
						continue
					}
				}
				if ev.end {
					respond(ev.id)
				}
			case "data":
				if ev.end && q.kind != "peerrst" && q.kind != "cancelafter" {
					respond(ev.id)
				}
			case "streamerr":
				blocks = append(blocks, [][2]string{{"<stream error>", ev.err.Error()}})
				c.fr.WriteRSTStream(ev.id, xhttp2.ErrCodeProtocol)
			case "fatal":
				c.dead = true
				if c01IsTimeout(ev.err) {
					return blocks, rtErr, c01SeqHarnessTimeout
				}
				select {
				case rtErr = <-done:
				case <-time.After(30 * time.Second):
					return blocks, rtErr, c01SeqHarnessTimeout
				}
				return blocks, rtErr, ev.err.Error()
			case "pingack":
				if finished {
					return blocks, rtErr, ""
				}
			}
		case rtErr = <-done:
			// everything this request wrote precedes the acknowledgement of a PING sent now
			finished = true
			c.fr.WritePing(false, [8]byte{1})
		case <-timeout:
			c.dead = true
			return blocks, rtErr, c01SeqHarnessTimeout
		}
	}
}

func c01SeqErrKind(err error) string {
	if err == nil {
		return "<no header block and no error>"
	}
	s := err.Error()
	switch {
	case err == errRequestHeaderListSize:
		return "err:toolarge"
	case strings.Contains(s, "invalid HTTP header"):
		return "err:header"
	case strings.Contains(s, "invalid Host header"):
		return "err:host"
	case strings.Contains(s, "invalid request :path"):
		return "err:path"
	case errors.Is(err, context.Canceled):
		return "cancelled"
	}
	return "err:other:" + s
}

func TestVerif_C01_h2seq(t *testing.T) {
	s := verifh.New(t, "C01", "h2seq",
		"sequences of 2..10 requests through cc.RoundTrip of ONE real ClientConn (loopback TCP) whose peer is the x/net reference Framer with one HPACK decoder for the connection (blocks decoded in arrival order); half of the connections advertise a small SETTINGS_MAX_HEADER_LIST_SIZE (400..4096); three quarters of the requests inherit most name/value pairs from their predecessor; per request one of: plain, with body, with trailers (trailer pairs repeating header pairs), header list blown up (refused locally when above the limit), invalid header value / name, invalid Host, context cancelled before the HEADERS are written, body reader failing, body longer than declared, RST_STREAM from the peer, cancellation while waiting; header-order and pseudo-header-order lists on a quarter; compared with the Lean model (ConnSeq.clientRun / serverRun over a stateful codec): per request the refusal class or the field list the SERVER decoded; oracle: a decoded block carries exactly the request's own X-* pairs; non-trivial = a request accepted after a locally refused one on the same connection")
	hist := map[string]int{}
	count := func(k string) { hist[k]++; s.Count(k) }
	r := s.Rand()
	nseq := verifh.N(160, 1600)
	for i := 0; i < nseq; i++ {
		var limit uint32
		if r.Intn(2) == 0 {
			limit = uint32(verifh.Pick(r, []int{400, 600, 1000, 2048, 4096}))
		}
		c, err := c01NewSeqConn(limit)
		if err != nil {
			count("infra-error")
			t.Logf("sequence %d: %v", i, err)
			continue
		}
		n := 2 + r.Intn(9)
		var prev *c01SeqReq
		var line, impl, human []string
		ok, why := true, ""
		refusedBefore, nontriv := false, false
		skipped := false
		lim := "-"
		if limit != 0 {
			lim = fmt.Sprint(limit)
		}
		id := fmt.Sprintf("h2seq-%d", i)
		for k := 0; k < n; k++ {
			q := c01GenSeqReq(r, prev, limit)
			prev = q
			s.Begin(id, fmt.Sprintf("limit=%s request %d: %s %q", lim, k, q.kind, q.fc.Header))
			blocks, rtErr, fatal := c01RunSeqReq(c, q)
			if fatal == c01SeqHarnessTimeout {
				skipped = true
				count("skipped:harness-timeout")
				t.Logf("sequence %d request %d (%s): %s — skipped, not judged", i, k, q.kind, fatal)
				break
			}
			mk := "send"
			if q.kind == "cancelbefore" {
				mk = "cancelbefore"
			}
			fc := q.fc
			line = append(line, fmt.Sprintf("%s %s %s %s %s %d %s %s 0", mk, verifh.Hex(fc.Method), verifh.Hex(fc.RawURL), verifh.Hex(fc.Host), verifh.C01QMap(fc.Header),
				fc.CL, verifh.C01B(fc.HasBody), verifh.C01B(fc.NoBody)))
			human = append(human, fmt.Sprintf("[%d %s host=%q hdr=%q cl=%d trailer=%q -> %d blocks, err=%v]", k, q.kind, fc.Host, fc.Header, fc.CL, q.trailer, len(blocks), rtErr))
			count("kind:" + q.kind)
			ans := ""
			switch {
			case fatal != "" && len(blocks) == 0:
				ans = "connection broke: " + fatal
			case len(blocks) == 0:
				ans = c01SeqErrKind(rtErr)
				if ans != "cancelled" || q.kind == "cancelbefore" {
					refusedBefore = refusedBefore || strings.HasPrefix(ans, "err:") || ans == "cancelled"
				}
				count(strings.SplitN(ans, ":", 3)[0] + ":" + strings.SplitN(ans+"::", ":", 3)[1])
			default:
				fields := blocks[0]
				if q.trailer != nil {
					// the announcement of the trailer section is checked here, not by the model
					var keys []string
					for tk := range q.trailer {
						keys = append(keys, tk)
					}
					sort.Strings(keys)
					var rest [][2]string
					seen := false
					for _, f := range fields {
						if f[0] == "trailer" && f[1] == strings.Join(keys, ",") && !seen {
							seen = true
							continue
						}
						rest = append(rest, f)
					}
					if !seen {
						ok, why = false, fmt.Sprintf("request %d: no trailer field announcing %v", k, keys)
					}
					fields = rest
					var want, got [][2]string
					for tk, vs := range q.trailer {
						for _, v := range vs {
							want = append(want, [2]string{strings.ToLower(tk), v})
						}
					}
					if len(blocks) > 1 {
						got = blocks[1]
					}
					srt := func(l [][2]string) string {
						sort.Slice(l, func(a, b int) bool { return l[a][0]+"\x00"+l[a][1] < l[b][0]+"\x00"+l[b][1] })
						return fmt.Sprint(l)
					}
					if srt(want) != srt(got) {
						ok, why = false, fmt.Sprintf("request %d: the server decoded the trailers %v, described %v", k, got, want)
					}
					count("trailer-block")
				}
				ans = verifh.C01ShowFields(fields, fc.Header[verifh.C01HeaderOrderKey])
				// oracle: exactly the request's own X-* pairs
				want := map[string]int{}
				for hk, vs := range fc.Header {
					if lk := strings.ToLower(hk); strings.HasPrefix(lk, "x-") {
						for _, v := range vs {
							want[lk+"\x00"+v]++
						}
					}
				}
				for _, f := range fields {
					if strings.HasPrefix(f[0], "x-") {
						want[f[0]+"\x00"+f[1]]--
					}
				}
				for p, d := range want {
					if d != 0 {
						ok, why = false, fmt.Sprintf("request %d: X-* pair %q differs by %d between what was set and what the server decoded", k, p, -d)
					}
				}
				// oracle (round 6): every field LINE of every caller key arrived — multisets per
				// value, cookie-pairs over all Cookie lines
				if lok, lwhy := verifh.C01LinesOracle(fc.Header, fields); !lok {
					ok, why = false, fmt.Sprintf("request %d: %s", k, lwhy)
				}
				for hk, vs := range fc.Header {
					if len(vs) > 1 && !strings.HasPrefix(hk, "__") {
						count("multi-line")
						if strings.EqualFold(hk, "cookie") {
							count("multi-line-cookie")
						}
					}
				}
				count("block-decoded")
				if refusedBefore {
					count("accepted-after-local-refusal")
					nontriv = true
				}
				if fatal != "" {
					ans += " then the connection broke: " + fatal
				}
			}
			impl = append(impl, ans)
			if c.dead || fatal != "" {
				count("connection-broke")
				break
			}
		}
		c.close()
		if skipped {
			continue
		}
		s.Case("c01connseq "+lim+" "+strings.Join(line, " "), strings.Join(impl, " ; "), ok, "", nontriv, "limit="+lim+" "+strings.Join(human, " ")+" "+why)
	}
	for _, b := range []string{"block-decoded", "accepted-after-local-refusal", "err:toolarge", "err:header", "err:host", "cancelled:", "trailer-block",
		"kind:bodyerr", "kind:toolong", "kind:peerrst", "kind:cancelafter", "multi-line", "multi-line-cookie"} {
		if hist[b] == 0 {
			t.Errorf("lane did not reach bucket %q (vacuous pass refused)", b)
		}
	}
	if n := hist["skipped:harness-timeout"]; n > 3 && n*100 > 3*nseq {
		t.Errorf("%d of %d sequences ended in the harness's own time-out: more than a stalled machine explains", n, nseq)
	}
	s.Finish()
}
