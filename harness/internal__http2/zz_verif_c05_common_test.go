//go:build verif

package http2

import (
	"bytes"
	"fmt"
	"io"
	"math/rand"
	"strings"
	"testing"

	pub "github.com/imroc/req/v3/http2"
	"github.com/imroc/req/v3/internal/verifh"
	xh2 "golang.org/x/net/http2"
)

func c05hex(b []byte) string { return verifh.Hex(string(b)) }

// c05hist mirrors the session histogram so that a lane can refuse to pass vacuously.
type c05hist struct {
	s *verifh.Session
	m map[string]int
}

func newC05hist(s *verifh.Session) *c05hist { return &c05hist{s, map[string]int{}} }

func (h *c05hist) Count(k string) { h.s.Count(k); h.m[k]++ }

func (h *c05hist) Require(t *testing.T, buckets ...string) {
	for _, b := range buckets {
		if h.m[b] == 0 {
			t.Errorf("C05 lane is vacuous: bucket %q not reached", b)
		}
	}
}

func c05b01(b bool) string {
	if b {
		return "1"
	}
	return "0"
}

// c05raw builds a frame byte-by-byte (independent of both Framers' writers). length may lie.
func c05raw(length int, t, flags byte, sid uint32, payload []byte) []byte {
	b := []byte{byte(length >> 16), byte(length >> 8), byte(length), t, flags,
		byte(sid >> 24), byte(sid >> 16), byte(sid >> 8), byte(sid)}
	return append(b, payload...)
}

func c05frame(t, flags byte, sid uint32, payload []byte) []byte {
	return c05raw(len(payload), t, flags, sid, payload)
}

// ---- canonical rendering: fork

func c05prioFork(dep uint32, excl bool, w uint8) string {
	return fmt.Sprintf("%d %s %d", dep, c05b01(excl), w)
}

func c05renderFork(f Frame) string {
	h := f.Header()
	hd := func(tag string) string { return fmt.Sprintf("%s %d %d %d", tag, h.Flags, h.StreamID, h.Length) }
	switch f := f.(type) {
	case *DataFrame:
		return hd("D") + " " + c05hex(f.Data())
	case *HeadersFrame:
		return hd("H") + " " + c05prioFork(f.Priority.StreamDep, f.Priority.Exclusive, f.Priority.Weight) + " " + c05hex(f.HeaderBlockFragment())
	case *PriorityFrame:
		return hd("P") + " " + c05prioFork(f.StreamDep, f.Exclusive, f.Weight)
	case *RSTStreamFrame:
		return hd("R") + fmt.Sprintf(" %d", uint32(f.ErrCode))
	case *SettingsFrame:
		var ss []string
		for i := 0; i < f.NumSettings(); i++ {
			st := f.Setting(i)
			ss = append(ss, fmt.Sprintf("%d:%d", uint16(st.ID), st.Val))
		}
		l := "-"
		if len(ss) > 0 {
			l = strings.Join(ss, ",")
		}
		// ForeachSetting must visit the same settings
		n := 0
		f.ForeachSetting(func(pub.Setting) error { n++; return nil })
		if n != f.NumSettings() {
			l += "!foreach"
		}
		return hd("S") + " " + l + " " + c05b01(f.HasDuplicates())
	case *PushPromiseFrame:
		return hd("PP") + fmt.Sprintf(" %d ", f.PromiseID) + c05hex(f.HeaderBlockFragment())
	case *PingFrame:
		return hd("PI") + " " + c05hex(f.Data[:])
	case *GoAwayFrame:
		return hd("G") + fmt.Sprintf(" %d %d ", f.LastStreamID, uint32(f.ErrCode)) + c05hex(f.DebugData())
	case *WindowUpdateFrame:
		return hd("W") + fmt.Sprintf(" %d", f.Increment)
	case *ContinuationFrame:
		return hd("C") + " " + c05hex(f.HeaderBlockFragment())
	case *UnknownFrame:
		return hd(fmt.Sprintf("U%d", uint8(h.Type))) + " " + c05hex(f.Payload())
	case *MetaHeadersFrame:
		var fs []string
		for _, hf := range f.Fields {
			fs = append(fs, verifh.Hex(hf.Name)+"="+verifh.Hex(hf.Value))
		}
		l := "-"
		if len(fs) > 0 {
			l = strings.Join(fs, ",")
		}
		return hd("M") + " " + c05prioFork(f.Priority.StreamDep, f.Priority.Exclusive, f.Priority.Weight) + " " + l + " " + c05b01(f.Truncated)
	}
	return fmt.Sprintf("?%T", f)
}

func c05errFork(err error) string {
	switch e := err.(type) {
	case ConnectionError:
		return fmt.Sprintf("conn:%d", uint32(e))
	case StreamError:
		return fmt.Sprintf("stream:%d:%d", e.StreamID, uint32(e.Code))
	}
	switch err {
	case io.EOF:
		return "eof"
	case io.ErrUnexpectedEOF:
		return "ueof"
	case errFrameTooLarge:
		return "toolarge"
	}
	return "other"
}

// ---- canonical rendering: reference (golang.org/x/net/http2)

func c05renderRef(f xh2.Frame) string {
	h := f.Header()
	hd := func(tag string) string { return fmt.Sprintf("%s %d %d %d", tag, h.Flags, h.StreamID, h.Length) }
	switch f := f.(type) {
	case *xh2.DataFrame:
		return hd("D") + " " + c05hex(f.Data())
	case *xh2.HeadersFrame:
		return hd("H") + " " + c05prioFork(f.Priority.StreamDep, f.Priority.Exclusive, f.Priority.Weight) + " " + c05hex(f.HeaderBlockFragment())
	case *xh2.PriorityFrame:
		return hd("P") + " " + c05prioFork(f.StreamDep, f.Exclusive, f.Weight)
	case *xh2.RSTStreamFrame:
		return hd("R") + fmt.Sprintf(" %d", uint32(f.ErrCode))
	case *xh2.SettingsFrame:
		var ss []string
		for i := 0; i < f.NumSettings(); i++ {
			st := f.Setting(i)
			ss = append(ss, fmt.Sprintf("%d:%d", uint16(st.ID), st.Val))
		}
		l := "-"
		if len(ss) > 0 {
			l = strings.Join(ss, ",")
		}
		return hd("S") + " " + l + " " + c05b01(f.HasDuplicates())
	case *xh2.PushPromiseFrame:
		return hd("PP") + fmt.Sprintf(" %d ", f.PromiseID) + c05hex(f.HeaderBlockFragment())
	case *xh2.PingFrame:
		return hd("PI") + " " + c05hex(f.Data[:])
	case *xh2.GoAwayFrame:
		return hd("G") + fmt.Sprintf(" %d %d ", f.LastStreamID, uint32(f.ErrCode)) + c05hex(f.DebugData())
	case *xh2.WindowUpdateFrame:
		return hd("W") + fmt.Sprintf(" %d", f.Increment)
	case *xh2.ContinuationFrame:
		return hd("C") + " " + c05hex(f.HeaderBlockFragment())
	case *xh2.UnknownFrame:
		return hd(fmt.Sprintf("U%d", uint8(h.Type))) + " " + c05hex(f.Payload())
	case *xh2.MetaHeadersFrame:
		var fs []string
		for _, hf := range f.Fields {
			fs = append(fs, verifh.Hex(hf.Name)+"="+verifh.Hex(hf.Value))
		}
		l := "-"
		if len(fs) > 0 {
			l = strings.Join(fs, ",")
		}
		return hd("M") + " " + c05prioFork(f.Priority.StreamDep, f.Priority.Exclusive, f.Priority.Weight) + " " + l + " " + c05b01(f.Truncated)
	}
	return fmt.Sprintf("?%T", f)
}

func c05errRef(err error) string {
	switch e := err.(type) {
	case xh2.ConnectionError:
		return fmt.Sprintf("conn:%d", uint32(e))
	case xh2.StreamError:
		return fmt.Sprintf("stream:%d:%d", e.StreamID, uint32(e.Code))
	}
	switch err {
	case io.EOF:
		return "eof"
	case io.ErrUnexpectedEOF:
		return "ueof"
	case xh2.ErrFrameTooLarge:
		return "toolarge"
	}
	return "other"
}

// c05readAllFork runs ReadFrame until a terminal error; one canonical item per call.
func c05readAllFork(fr *Framer, limit int) []string {
	var out []string
	for i := 0; i < limit; i++ {
		f, err := fr.ReadFrame()
		if err != nil {
			out = append(out, c05errFork(err))
			if terminalReadFrameError(err) {
				return out
			}
			continue
		}
		out = append(out, c05renderFork(f))
	}
	return append(out, "limit")
}

func c05readAllRef(fr *xh2.Framer, limit int) []string {
	var out []string
	for i := 0; i < limit; i++ {
		f, err := fr.ReadFrame()
		if err != nil {
			out = append(out, c05errRef(err))
			if _, ok := err.(xh2.StreamError); !ok {
				return out
			}
			continue
		}
		out = append(out, c05renderRef(f))
	}
	return append(out, "limit")
}

// c05pick picks one of the values.
func c05pick[T any](r *rand.Rand, l ...T) T { return l[r.Intn(len(l))] }

var _ = bytes.NewReader
