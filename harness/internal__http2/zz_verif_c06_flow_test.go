//go:build verif

package http2

import (
	"context"
	"fmt"
	"math"
	"sync"
	"testing"

	"github.com/imroc/req/v3/internal/verifh"
)

// c06Grid: boundary values of flow-control arithmetic.
var c06Grid = []int64{0, 1, 2, 100, 4095, 4096, 4097, 8191, 8192, 16383, 16384, 16385, 65534, 65535, 65536, 1 << 20, 4 << 20, 6291456,
	1 << 30, 1<<30 + 65535, 1<<31 - 65536, 1<<31 - 4097, 1<<31 - 2, 1<<31 - 1}

func c06Pick(s *verifh.Session) int64 {
	r := s.Rand()
	switch r.Intn(4) {
	case 0:
		return verifh.Pick(r, c06Grid)
	case 1:
		return verifh.Pick(r, c06Grid) + int64(r.Intn(5)) - 2
	case 2:
		return int64(r.Intn(70000))
	default:
		return r.Int63n(1 << 31)
	}
}

func c06Clamp31(v int64) int64 {
	if v < 0 {
		return 0
	}
	if v > math.MaxInt32 {
		return math.MaxInt32
	}
	return v
}

func c06B(b bool) string {
	if b {
		return "1"
	}
	return "0"
}

// TestVerif_C06_flow: every function of flow.go, frameScratchBufferLen and the take computed by
// awaitFlowControl, called directly, against the hand model (Req.H2.Flow / Req.H2.Conn).
func TestVerif_C06_flow(t *testing.T) {
	s := verifh.New(t, "C06", "flow",
		"inflow.add/take, takeInflows, outflow.available/take/add, frameScratchBufferLen and awaitFlowControl (one call on a prepared stream) on boundary-grid and random int32 arguments (windows 0..2^31-1, negative send windows, increments up to 2^31-1); non-trivial = a branch other than the plain success path (buffered update, refused take, overflow, panic, clamp)")
	r := s.Rand()
	n := verifh.N(6000, 300000)
	for c := 0; c < n; c++ {
		switch r.Intn(8) {
		case 0: // inflow.add
			a, u, k := c06Clamp31(c06Pick(s)), c06Clamp31(c06Pick(s)%70000), c06Clamp31(c06Pick(s))
			if r.Intn(20) == 0 {
				k = -k - 1
			}
			if r.Intn(3) == 0 { // around the refresh threshold: small updates against a large window
				u, k = int64(r.Intn(4200)), int64(r.Intn(4200))
				if r.Intn(2) == 0 {
					a = u + k + int64(r.Intn(3)) - 1
					if a < 0 {
						a = 0
					}
				}
			}
			f := inflow{avail: int32(a), unsent: int32(u)}
			var ret int32
			p, panicked := verifh.Safely(func() { ret = f.add(int(k)) })
			ans := fmt.Sprintf("%d %d %d", f.avail, f.unsent, ret)
			kind := "iadd-send"
			if panicked {
				ans = "panic"
				kind = "iadd-panic"
				_ = p
			} else if ret == 0 {
				kind = "iadd-buffer"
			}
			s.Count(kind)
			s.Case(fmt.Sprintf("c06flow iadd %d %d %d", a, u, k), ans, true, "", kind != "iadd-send", "")
		case 1: // inflow.take
			a, k := c06Clamp31(c06Pick(s)), c06Pick(s)
			if k < 0 {
				k = 0
			}
			f := inflow{avail: int32(a)}
			ok := f.take(uint32(k))
			s.Count("itake-" + c06B(ok))
			s.Case(fmt.Sprintf("c06flow itake %d 0 %d", a, k), fmt.Sprintf("%d %d %s", f.avail, f.unsent, c06B(ok)), true, "", !ok, "")
		case 2: // takeInflows
			a1, a2, k := c06Clamp31(c06Pick(s)), c06Clamp31(c06Pick(s)), c06Pick(s)
			if k < 0 {
				k = 0
			}
			if r.Intn(3) == 0 {
				k = c06Clamp31(a1 + int64(r.Intn(3)) - 1)
			}
			f1, f2 := inflow{avail: int32(a1)}, inflow{avail: int32(a2), unsent: 7}
			ok := takeInflows(&f1, &f2, uint32(k))
			s.Count("itakes-" + c06B(ok))
			s.Case(fmt.Sprintf("c06flow itakes %d 0 %d 7 %d", a1, a2, k),
				fmt.Sprintf("%d %d %d %d %s", f1.avail, f1.unsent, f2.avail, f2.unsent, c06B(ok)), true, "", !ok, "")
		case 3: // outflow.available
			nn, cn := c06Pick(s)-int64(r.Intn(2))*c06Pick(s), c06Pick(s)-int64(r.Intn(2))*c06Pick(s)
			nn, cn = int64(int32(nn)), int64(int32(cn))
			hc := r.Intn(4) != 0
			conn := &outflow{n: int32(cn)}
			f := outflow{n: int32(nn)}
			if hc {
				f.setConnFlow(conn)
			}
			s.Count("oavail")
			s.Case(fmt.Sprintf("c06flow oavail %d %s %d", nn, c06B(hc), cn), fmt.Sprint(f.available()), true, "", hc && cn < nn, "")
		case 4: // outflow.take
			nn, cn, k := c06Clamp31(c06Pick(s)), c06Clamp31(c06Pick(s)), c06Clamp31(c06Pick(s))
			if r.Intn(2) == 0 {
				m := nn
				if cn < m {
					m = cn
				}
				k = c06Clamp31(m + int64(r.Intn(3)) - 1)
			}
			hc := r.Intn(4) != 0
			conn := &outflow{n: int32(cn)}
			f := outflow{n: int32(nn)}
			if hc {
				f.setConnFlow(conn)
			}
			_, panicked := verifh.Safely(func() { f.take(int32(k)) })
			ans := fmt.Sprintf("%d %d", f.n, conn.n)
			if panicked {
				ans = "panic"
			}
			s.Count("otake-" + c06B(panicked))
			s.Case(fmt.Sprintf("c06flow otake %d %s %d %d", nn, c06B(hc), cn, k), ans, true, "", panicked, "")
		case 5: // outflow.add (incl. negative windows and negative deltas)
			nn, k := c06Pick(s), c06Pick(s)
			if r.Intn(3) == 0 {
				nn = -nn
			}
			if r.Intn(3) == 0 {
				k = -k
			}
			if r.Intn(4) == 0 {
				k = math.MaxInt32 - nn + int64(r.Intn(3)) - 1 // around the overflow edge
			}
			nn, k = int64(int32(nn)), int64(int32(k))
			f := outflow{n: int32(nn)}
			ok := f.add(int32(k))
			s.Count("oadd-" + c06B(ok))
			s.Case(fmt.Sprintf("c06flow oadd %d %d", nn, k), fmt.Sprintf("%d %s", f.n, c06B(ok)), true, "", !ok || nn < 0 || k < 0, "")
		case 6: // frameScratchBufferLen
			cl := c06Pick(s)
			if r.Intn(4) == 0 {
				cl = -1
			}
			mf := c06Pick(s) % (1 << 24)
			if r.Intn(3) == 0 {
				mf = verifh.Pick(r, []int64{16384, 16385, 1 << 19, 1<<19 + 1, 1<<24 - 1})
			}
			cs := &clientStream{reqBodyContentLength: cl}
			got := cs.frameScratchBufferLen(int(mf))
			s.Count("scratch")
			s.Case(fmt.Sprintf("c06flow scratch %d %d", cl, mf), fmt.Sprint(got), true, "", cl != -1 && cl+1 < mf || mf > 1<<19, "")
		case 7: // awaitFlowControl on a prepared stream (never blocks: windows are positive)
			sw, cw, mb := 1+c06Clamp31(c06Pick(s))%(1<<30), 1+c06Clamp31(c06Pick(s))%(1<<30), 1+c06Clamp31(c06Pick(s))%(1<<20)
			mf := verifh.Pick(r, []int64{16384, 16385, 20000, 65536, 1 << 20, 1<<24 - 1})
			if r.Intn(3) == 0 {
				mb = mf + int64(r.Intn(3)) - 1
			}
			cc := &ClientConn{maxFrameSize: uint32(mf)}
			cc.cond = sync.NewCond(&cc.mu)
			cc.flow.n = int32(cw)
			cs := &clientStream{cc: cc, ctx: context.Background(), abort: make(chan struct{})}
			cs.flow.n = int32(sw)
			cs.flow.setConnFlow(&cc.flow)
			taken, err := cs.awaitFlowControl(int(mb))
			a := sw
			if cw < a {
				a = cw
			}
			ans := fmt.Sprintf("%d", taken)
			if err != nil {
				ans = "err"
			}
			// the windows must have been debited by exactly what was taken
			ok := err == nil && int64(cs.flow.n) == sw-int64(taken) && int64(cc.flow.n) == cw-int64(taken)
			s.Count("await")
			s.Case(fmt.Sprintf("c06flow await %d %d %d", a, mb, mf), ans, ok, "", true, fmt.Sprintf("stream=%d conn=%d maxBytes=%d maxFrame=%d -> %s", sw, cw, mb, mf, ans))
		}
	}
	s.Finish()
}
