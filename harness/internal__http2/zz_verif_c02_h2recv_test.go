//go:build verif

package http2

import (
	"bytes"
	"errors"
	"fmt"
	"io"
	"net"
	"net/http"
	"reflect"
	"sort"
	"strconv"
	"strings"
	"sync/atomic"
	"testing"
	"time"
	"unsafe"

	reqh2 "github.com/imroc/req/v3/http2"
	"github.com/imroc/req/v3/internal/transport"
	"github.com/imroc/req/v3/internal/verifh"
	xhttp2 "golang.org/x/net/http2"
	"golang.org/x/net/http2/hpack"
)

// ---------------------------------------------------------------------------------------
// C02 lane "h2recv": the HTTP/2 receive path of one stream against a frame-script peer.
//
// A real ClientConn (Transport.NewClientConn over loopback TCP) sends one request; the peer
// (x/net/http2 Framer + hpack encoder, the reference codec) answers with a generated frame
// sequence: interim HEADERS, final HEADERS (optionally split into CONTINUATION), DATA frames
// with and without padding, trailers, RST_STREAM, and protocol violations. The caller drains
// the body with generated read sizes. Because frame arrival and reads interleave freely, the
// lane compares what the property fixes: status, fields, the concatenated bytes, the final
// error class and the trailers, with the Lean model (Req.C02.H2Recv) run on the event list.
// A second lane ties dataBuffer (the pipe's buffer) to the FIFO it is modelled as.
// ---------------------------------------------------------------------------------------

type c02KV struct{ k, v string }

type c02Ev struct {
	kind   byte // 'H', 'D', 'R'
	fields []c02KV
	data   string
	pad    int
	es     bool
	split  int // HEADERS: split the block into CONTINUATION frames of this size (0 = one frame)
}

func c02FieldsArg(fs []c02KV) string {
	if len(fs) == 0 {
		return "-"
	}
	out := make([]string, len(fs))
	for i, f := range fs {
		out[i] = verifh.Hex(f.k) + ":" + verifh.Hex(f.v)
	}
	return strings.Join(out, ",")
}

func c02B(b bool) string {
	if b {
		return "1"
	}
	return "0"
}

func c02EvArg(e c02Ev) string {
	switch e.kind {
	case 'H':
		return "H;" + c02B(e.es) + ";" + c02FieldsArg(e.fields)
	case 'D':
		return "D;" + c02B(e.es) + ";" + c02B(e.pad > 0) + ";" + verifh.Hex(e.data)
	}
	return "R"
}

// c02Peer answers exactly one request on conn with the scripted events, then drains the
// connection until the client closes it.
// c02Peer answers the requests of one connection in order: first the prelude exchanges (earlier
// responses on the same connection: ordinary ones, ones the client must refuse, reset ones),
// then the scripted response under test; afterwards it drains the connection until the client
// closes it.
//
// Round 7: adopt >= 0 makes the peer behave like nginx / h2o / envoy (and unlike Go's own
// server): when the client's SETTINGS carry HEADER_TABLE_SIZE = v, the HPACK encoder's dynamic
// table is resized to min(v, adopt) and the change is signalled with the mandatory dynamic
// table size update at the start of the next header block (RFC 7541 4.2 / 6.3). A peer may use
// any size up to the announced one and MUST come down to it when it is below the current size.
func c02Peer(conn net.Conn, exchanges [][]c02Ev, adopt int64, done chan<- error) {
	defer conn.Close()
	preface := make([]byte, len(xhttp2.ClientPreface))
	if _, err := io.ReadFull(conn, preface); err != nil {
		done <- err
		return
	}
	fr := xhttp2.NewFramer(conn, conn)
	fr.WriteSettings()
	var hbuf bytes.Buffer
	enc := hpack.NewEncoder(&hbuf)
	var lastID uint32
	for _, evs := range exchanges {
		var streamID uint32
		for streamID == 0 {
			f, err := fr.ReadFrame()
			if err != nil {
				done <- err
				return
			}
			switch f := f.(type) {
			case *xhttp2.SettingsFrame:
				if !f.IsAck() {
					if v, ok := f.Value(xhttp2.SettingHeaderTableSize); ok && adopt >= 0 {
						if int64(v) > adopt {
							v = uint32(adopt)
						}
						enc.SetMaxDynamicTableSizeLimit(v)
						enc.SetMaxDynamicTableSize(v)
					}
					fr.WriteSettingsAck()
				}
			case *xhttp2.HeadersFrame:
				if f.StreamID > lastID {
					streamID = f.StreamID
				}
			}
		}
		lastID = streamID
		c02PeerWrite(fr, enc, &hbuf, streamID, evs)
	}
	done <- nil
	for {
		if _, err := fr.ReadFrame(); err != nil {
			return
		}
	}
}

func c02PeerWrite(fr *xhttp2.Framer, enc *hpack.Encoder, hbuf *bytes.Buffer, streamID uint32, evs []c02Ev) {
	for _, e := range evs {
		switch e.kind {
		case 'H':
			hbuf.Reset()
			for _, f := range e.fields {
				enc.WriteField(hpack.HeaderField{Name: f.k, Value: f.v})
			}
			block := append([]byte(nil), hbuf.Bytes()...)
			first := block
			if e.split > 0 && len(block) > e.split {
				first = block[:e.split]
			}
			rest := block[len(first):]
			fr.WriteHeaders(xhttp2.HeadersFrameParam{StreamID: streamID, BlockFragment: first, EndStream: e.es, EndHeaders: len(rest) == 0})
			for len(rest) > 0 {
				k := e.split
				if k > len(rest) {
					k = len(rest)
				}
				fr.WriteContinuation(streamID, k == len(rest), rest[:k])
				rest = rest[k:]
			}
		case 'D':
			if e.pad > 0 {
				fr.WriteDataPadded(streamID, e.es, []byte(e.data), make([]byte, e.pad-1))
			} else {
				fr.WriteData(streamID, e.es, []byte(e.data))
			}
		case 'R':
			fr.WriteRSTStream(streamID, xhttp2.ErrCodeInternal)
		}
	}
}

// c02GenPrelude: earlier exchanges on the same connection. What they leave behind in the
// connection (hpack decoder switches, flow-control credit, stream table) must not leak into the
// response under test. limit = the header list size the client advertises (0 = default).
func c02GenPrelude(s *verifh.Session, shared *c02KV) (prelude [][]c02Ev, kinds []string, limit uint32) {
	r := s.Rand()
	if r.Intn(3) != 0 {
		return nil, nil, 0
	}
	n := 1 + r.Intn(3)
	for i := 0; i < n; i++ {
		switch r.Intn(6) {
		case 0: // ordinary
			fs := []c02KV{{":status", "200"}, {"x-pre", strconv.Itoa(i)}, {"content-length", "3"}}
			if shared != nil {
				// a field the response under test repeats: with a peer that uses its HPACK
				// table the repetition travels as a reference into the table
				fs = append(fs, *shared)
			}
			prelude = append(prelude, []c02Ev{
				{kind: 'H', fields: fs},
				{kind: 'D', data: "pre", es: true}})
			kinds = append(kinds, "ok")
		case 1, 2: // header list above the advertised limit by less than 2x: refused, connection stays
			limit = 4096
			var fs []c02KV
			fs = append(fs, c02KV{":status", "200"})
			total := 0
			want := 4096 + 600 + r.Intn(2600)
			for j := 0; total < want; j++ {
				v := verifh.RandBytes(r, 300+r.Intn(300), "abcdef0123456789")
				fs = append(fs, c02KV{"x-big-" + strconv.Itoa(j), v})
				total += len(v) + 40
			}
			// one HEADERS frame: a CONTINUATION after the overflow is (rightly) a connection error
			prelude = append(prelude, []c02Ev{{kind: 'H', fields: fs, es: r.Intn(2) == 0}})
			if !prelude[len(prelude)-1][0].es {
				prelude[len(prelude)-1] = append(prelude[len(prelude)-1], c02Ev{kind: 'D', data: "big", es: true})
			}
			kinds = append(kinds, "oversized-header-list")
		case 3: // invalid field name (upper case on the wire): stream error
			prelude = append(prelude, []c02Ev{{kind: 'H', es: true, fields: []c02KV{{":status", "200"}, {"x-ok", "1"}, {"X-Upper", "v"}, {"x-after", "2"}}}})
			kinds = append(kinds, "invalid-field-name")
		case 4: // invalid field value
			prelude = append(prelude, []c02Ev{{kind: 'H', es: true, fields: []c02KV{{":status", "200"}, {"x-bad", "a\x00b"}, {"x-after", "2"}}}})
			kinds = append(kinds, "invalid-field-value")
		default: // reset in the middle of the body
			prelude = append(prelude, []c02Ev{
				{kind: 'H', fields: []c02KV{{":status", "200"}, {"x-pre", "rst"}}},
				{kind: 'D', data: verifh.RandBytes(r, 1+r.Intn(3000), "")},
				{kind: 'R'}})
			kinds = append(kinds, "rst")
		}
	}
	return
}

// c02H2ErrClass maps an error to the model's small enum. Sentinel errors are recognised by
// their message rather than by the (unexported) variable that holds them.
func c02H2ErrClass(err error) string {
	if err == nil {
		return "ok"
	}
	var se StreamError
	var ce ConnectionError
	pipeWrite := func(e error) bool {
		return e != nil && (e.Error() == "write on closed buffer" || e.Error() == "write on uninitialized buffer")
	}
	switch {
	case err == io.EOF:
		return "eof"
	case err == io.ErrUnexpectedEOF:
		return "unexpectedEOF"
	case errors.As(err, &se):
		if se.Cause != nil && se.Cause.Error() == "received from peer" {
			return "rst"
		}
		if pipeWrite(se.Cause) {
			return "pipeWrite"
		}
		return "streamProto"
	case errors.As(err, &ce):
		return "connProto"
	case pipeWrite(err):
		return "pipeWrite"
	case err.Error() == "http2: response body closed":
		return "closedBody"
	case strings.Contains(err.Error(), "more than declared Content-Length"):
		return "overDeclared"
	case err.Error() == "http2: Transport received Server's graceful shutdown GOAWAY":
		return "goAwayRetry" // errClientConnGotGoAway: retry on another connection
	case strings.HasPrefix(err.Error(), "http2: Transport received GOAWAY from server ErrCode:"):
		return "goAwayErr" // stream 1 after a GOAWAY with an error code: not retried
	}
	return "other(" + err.Error() + ")"
}

func c02Canon(h http.Header, keep func(string) bool) string {
	var keys []string
	for k, vv := range h {
		if (keep == nil || keep(k)) && len(vv) > 0 {
			keys = append(keys, k)
		}
	}
	if len(keys) == 0 {
		return "-"
	}
	sort.Strings(keys)
	var out []string
	for _, k := range keys {
		for _, v := range h[k] {
			out = append(out, verifh.Hex(k)+":"+verifh.Hex(v))
		}
	}
	return strings.Join(out, ",")
}

func c02Keep(k string) bool { return strings.HasPrefix(k, "X-") || k == "Content-Type" }

func TestVerif_C02_h2recv(t *testing.T) {
	s := verifh.New(t, "C02", "h2recv",
		"frame-script peer (x/net/http2 Framer + hpack) on loopback TCP against a real ClientConn: 0..2 (rarely 6) interim HEADERS, final HEADERS (status, fields, repeated names, Content-Length right / too small / too large / duplicated, Trailer announcement, optional CONTINUATION split, END_STREAM on HEADERS), DATA frames in generated sizes, with/without padding, empty, END_STREAM on DATA or on a trailer HEADERS; violations: DATA after END_STREAM, HEADERS after END_STREAM, trailers without END_STREAM, pseudo field in trailers, third HEADERS, DATA on HEAD, 1xx with END_STREAM, missing/non-numeric :status, RST_STREAM mid-body, GET/HEAD; in a third of the cases 1..3 EARLIER exchanges on the same connection (ordinary, header list above the advertised SETTINGS_MAX_HEADER_LIST_SIZE by < 2x, invalid field name / value, reset mid-body) whose outcome must not leak into the response under test; in half of the cases the client announces its own SETTINGS with HEADER_TABLE_SIZE in {0,100,4095,4096,4097,16384,65536,1Mi,random} and the peer's HPACK encoder adopts that size / stays at 4096 / picks one in between (dynamic table size update), with a field of 1..9000 bytes shared between an earlier response and the one under test; body 0..65537; caller read sizes {1,7,512,4096,65536,random}; compared: status, X-/Content-Type fields, concatenated bytes, final error class, trailers; non-trivial = >=2 DATA frames and non-empty body")
	r := s.Rand()
	matrix := map[string]int{}
	ln, err := net.Listen("tcp", "127.0.0.1:0")
	if err != nil {
		t.Fatalf("listen: %v", err)
	}
	defer ln.Close()
	n := verifh.N(700, 8000)
	lens := []int{0, 1, 2, 5, 100, 4095, 4096, 4097, 16383, 16384, 16385}
	stalls := 0
	bigTable := 0
	for c := 0; c < n; c++ {
		// round 7 (seed C02-r7-2), class "the SETTINGS this end announces x what the origin
		// makes of them": HEADER_TABLE_SIZE absent / 0 / below / at / above the 4096 default, up
		// to 1 MiB; the peer's encoder adopts the announced size (nginx-like), stays at 4096
		// (Go-like), or picks something in between, and says so with a table size update. The
		// response the caller gets must not depend on any of it (the model line does not
		// carry it).
		hts := int64(-1) // -1: no custom SETTINGS (the transport's defaults)
		if r.Intn(2) == 0 {
			hts = int64(verifh.Pick(r, []int{0, 100, 4095, 4096, 4097, 16384, 65536, 65536, 1 << 20}))
			if r.Intn(4) == 0 {
				hts = int64(r.Intn(200000))
			}
		}
		adopt := int64(-1) // -1: the peer ignores the announcement (legal only when it is >= 4096)
		if hts >= 0 {
			switch k := r.Intn(4); {
			case hts < 4096 || k <= 1:
				adopt = hts
			case k == 2:
				adopt = 4096 + r.Int63n(hts-4096+1)
			}
		}
		var shared *c02KV
		if r.Intn(2) == 0 {
			shared = &c02KV{"x-shared", verifh.RandBytes(r, 1+r.Intn(9000), "abcdef0123456789")}
		}
		prelude, preKinds, hdrLimit := c02GenPrelude(s, shared)
		if hdrLimit != 0 && shared != nil {
			// the refused earlier exchanges need the small header-list limit: the shared
			// field (up to 9000 bytes) would turn the ordinary ones into connection errors
			shared = nil
			for _, ex := range prelude {
				for i := range ex {
					if n := len(ex[i].fields); n > 0 && ex[i].fields[n-1].k == "x-shared" {
						ex[i].fields = ex[i].fields[:n-1]
					}
				}
			}
		}
		isHead := r.Intn(10) == 0
		bl := verifh.Pick(r, lens)
		if r.Intn(3) == 0 {
			bl = r.Intn(3000)
		}
		if r.Intn(25) == 0 {
			bl = 65535 + r.Intn(3)
		}
		body := verifh.RandBytes(r, bl, "")
		mut := "none"
		pick := r.Intn(30)
		var evs []c02Ev
		nint := 0
		for r.Intn(4) == 0 && nint < 2 {
			nint++
		}
		if pick == 0 {
			nint = 6
			mut = "many1xx"
		}
		for i := 0; i < nint; i++ {
			evs = append(evs, c02Ev{kind: 'H', fields: []c02KV{{":status", verifh.Pick(r, []string{"100", "102", "103"})}, {"x-early", strconv.Itoa(i)}, {"x-a", "interim"}}})
		}
		if pick == 1 {
			evs = append(evs, c02Ev{kind: 'H', es: true, fields: []c02KV{{":status", "103"}}})
			mut = "1xx-endstream"
		}
		status := verifh.Pick(r, []string{"200", "200", "201", "204", "304", "404", "500", "206", "599"})
		fs := []c02KV{{":status", status}}
		if pick == 2 {
			fs = []c02KV{{":status", "2x0"}}
			mut = "bad-status"
		}
		names := []string{"x-a", "x-b", "x-a", "x-request-id", "content-type", "etag", "x-0", "server"}
		for i := r.Intn(6); i > 0; i-- {
			fs = append(fs, c02KV{verifh.Pick(r, names), strings.Trim(verifh.RandBytes(r, r.Intn(16), "abcXYZ019 -_=;,/"), " ")})
		}
		if shared != nil {
			at := 1 + r.Intn(len(fs))
			fs = append(fs[:at:at], append([]c02KV{*shared}, fs[at:]...)...)
		}
		if r.Intn(15) == 0 && hdrLimit == 0 {
			fs = append(fs, c02KV{"x-long", verifh.RandBytes(r, 3000+r.Intn(30000), "abcdef0123456789")})
		}
		declared := r.Intn(2) == 0
		clv := len(body)
		if declared {
			switch r.Intn(9) {
			case 0:
				if clv > 0 {
					clv = r.Intn(clv)
					mut = "cl-small"
				}
			case 1:
				clv += 1 + r.Intn(100)
				mut = "cl-large"
			}
			fs = append(fs, c02KV{"content-length", strconv.Itoa(clv)})
			if r.Intn(8) == 0 {
				fs = append(fs, c02KV{"content-length", strconv.Itoa(clv)})
				// two Content-Length fields are ignored by the client: treated as undeclared
				if mut == "none" {
					mut = "cl-dup"
				} else {
					mut += "-dup"
				}
			}
		}
		var trailers []c02KV
		if r.Intn(3) == 0 {
			for i := 1 + r.Intn(3); i > 0; i-- {
				trailers = append(trailers, c02KV{verifh.Pick(r, []string{"x-t", "x-trail-sum", "grpc-status", "x-t"}), strings.Trim(verifh.RandBytes(r, r.Intn(10), "abc019 -_"), " ")})
			}
			if r.Intn(2) == 0 {
				fs = append(fs, c02KV{"trailer", "X-T, x-trail-sum"})
			}
		}
		split := 0
		if r.Intn(4) == 0 {
			split = 1 + r.Intn(40)
		}
		headEnds := (len(body) == 0 || isHead) && len(trailers) == 0 && r.Intn(2) == 0
		openNobody := false
		if !isHead && (status == "204" || status == "304") && r.Intn(3) == 0 && pick > 8 {
			// a 304 may carry the Content-Length of the representation (RFC 9110 8.6);
			// round 5: END_STREAM on the HEADERS frame, or - the stream left open by the
			// HEADERS - on an empty DATA frame or on the trailer HEADERS (what Go's h2 server
			// sends when the handler announced trailers)
			if r.Intn(2) == 0 {
				headEnds, trailers = true, nil
			} else {
				headEnds = false
				openNobody = true
			}
			if !declared {
				declared = true
				clv = 1 + r.Intn(5000)
				fs = append(fs, c02KV{"content-length", strconv.Itoa(clv)})
			}
			body = ""
			if mut == "none" && clv > 0 {
				mut = "nobody-status-cl"
			}
		}
		evs = append(evs, c02Ev{kind: 'H', fields: fs, es: headEnds, split: split})
		ndata := 0
		if !headEnds {
			rest := body
			if isHead && pick != 3 {
				rest = ""
			}
			if isHead && pick == 3 && len(rest) > 0 {
				mut = "data-on-head"
			}
			style := r.Intn(4)
			for len(rest) > 0 {
				var k int
				switch style {
				case 0:
					k = len(rest)
				case 1:
					k = 1 + r.Intn(5)
					if len(body) > 5000 {
						k = 1 + r.Intn(2000)
					}
				case 2:
					k = verifh.Pick(r, []int{1, 255, 256, 16383, 16384})
				default:
					k = 1 + r.Intn(6000)
				}
				if k > len(rest) {
					k = len(rest)
				}
				if k > 16384 {
					k = 16384
				}
				pad := 0
				if r.Intn(6) == 0 {
					pad = 1 + r.Intn(60)
					if k+pad > 16384 {
						pad = 0
					}
				}
				if r.Intn(14) == 0 {
					evs = append(evs, c02Ev{kind: 'D', data: "", pad: r.Intn(2) * (1 + r.Intn(5))})
				}
				last := k == len(rest) && len(trailers) == 0 && r.Intn(3) != 0
				evs = append(evs, c02Ev{kind: 'D', data: rest[:k], pad: pad, es: last})
				ndata++
				rest = rest[k:]
				if pick == 4 && len(rest) > 0 && r.Intn(3) == 0 {
					evs = append(evs, c02Ev{kind: 'R'})
					mut = "rst-mid"
					break
				}
			}
			ended := len(evs) > 0 && evs[len(evs)-1].es
			if mut != "rst-mid" {
				if len(trailers) > 0 {
					tf := trailers
					tes := true
					switch pick {
					case 5:
						tf = append([]c02KV{{":status", "200"}}, tf...)
						mut = "pseudo-trailer"
					case 6:
						tes = false
						mut = "trailer-no-endstream"
					}
					evs = append(evs, c02Ev{kind: 'H', fields: tf, es: tes, split: split})
					if pick == 7 {
						evs = append(evs, c02Ev{kind: 'H', fields: tf, es: true})
						mut = "headers-after-end"
					}
				} else if !ended {
					evs = append(evs, c02Ev{kind: 'D', data: "", es: true})
				}
				if pick == 8 {
					evs = append(evs, c02Ev{kind: 'D', data: "late", es: r.Intn(2) == 0})
					mut = "data-after-end"
				}
			}
		}
		nextRead := func() int {
			return 1
		}
		switch r.Intn(7) {
		case 0:
			nextRead = func() int { return 1 + r.Intn(3) }
			if len(body) > 20000 {
				nextRead = func() int { return 512 }
			}
		case 1:
			nextRead = func() int { return 7 }
			if len(body) > 20000 {
				nextRead = func() int { return 4096 }
			}
		case 2:
			nextRead = func() int { return 512 }
		case 3:
			nextRead = func() int { return 4096 }
		case 4:
			nextRead = func() int { return 65536 }
		default:
			nextRead = func() int { return 1 + r.Intn(9000) }
		}
		htsPos := r.Intn(4)
		var evArgs []string
		for _, e := range evs {
			evArgs = append(evArgs, c02EvArg(e))
		}
		type caseOut struct {
			reads    []int
			impl     string
			propOK   bool
			ptxt     string
			panicked bool
		}
		outc := make(chan *caseOut, 1)
		go func() {
			co := &caseOut{propOK: true}
			var reads []int
			var impl string
			propOK := true
			defer func() {
				co.reads, co.impl, co.propOK = reads, impl, propOK
				outc <- co
			}()
			co.ptxt, co.panicked = verifh.Safely(func() {
				done := make(chan error, 1)
				go func() {
					conn, err := ln.Accept()
					if err != nil {
						done <- err
						return
					}
					c02Peer(conn, append(append([][]c02Ev(nil), prelude...), evs), adopt, done)
				}()
				conn, err := net.Dial("tcp", ln.Addr().String())
				if err != nil {
					impl = "infra:" + err.Error()
					return
				}
				tr := &Transport{Options: &transport.Options{}}
				tr.AllowHTTP = true
				tr.MaxHeaderListSize = hdrLimit
				if hts >= 0 {
					// what SetHTTP2SettingsFrame / Impersonate* do: the caller's own SETTINGS
					// (the defaults plus HEADER_TABLE_SIZE, in a generated position)
					tr.Settings = []reqh2.Setting{
						{ID: reqh2.SettingEnablePush, Val: 0},
						{ID: reqh2.SettingInitialWindowSize, Val: 4 << 20},
					}
					if hdrLimit != 0 {
						tr.Settings = append(tr.Settings, reqh2.Setting{ID: reqh2.SettingMaxHeaderListSize, Val: hdrLimit})
					}
					at := htsPos % (len(tr.Settings) + 1)
					tr.Settings = append(tr.Settings[:at:at], append([]reqh2.Setting{{ID: reqh2.SettingHeaderTableSize, Val: uint32(hts)}}, tr.Settings[at:]...)...)
				}
				cc, err := tr.NewClientConn(conn)
				if err != nil {
					impl = "infra:" + err.Error()
					return
				}
				defer cc.Close()
				// the earlier exchanges on this connection: whatever they end in, drain them
				for range prelude {
					preq, _ := http.NewRequest("GET", "http://c02.invalid/pre", nil)
					if pres, perr := cc.RoundTrip(preq); perr == nil {
						io.Copy(io.Discard, pres.Body)
						pres.Body.Close()
					}
				}
				method := "GET"
				if isHead {
					method = "HEAD"
				}
				req, _ := http.NewRequest(method, "http://c02.invalid/x", nil)
				type rtRes struct {
					res *http.Response
					err error
				}
				rc := make(chan rtRes, 1)
				go func() {
					res, err := cc.RoundTrip(req)
					rc <- rtRes{res, err}
				}()
				var rr rtRes
				select {
				case rr = <-rc:
				case <-time.After(20 * time.Second):
					impl = "timeout:roundtrip"
					return
				}
				if rr.err != nil {
					impl = "error:" + c02H2ErrClass(rr.err)
					return
				}
				res := rr.res
				var data []byte
				var last error
				// watchdog: a read that never returns is a failure of the case, not of the lane
				var timedOut atomic.Bool
				wd := time.AfterFunc(10*time.Second, func() {
					timedOut.Store(true)
					conn.Close()
				})
				defer wd.Stop()
				for len(reads) < 200000 {
					k := nextRead()
					reads = append(reads, k)
					p := make([]byte, k)
					m, err := res.Body.Read(p)
					data = append(data, p[:m]...)
					last = err
					if err != nil {
						break
					}
				}
				res.Body.Close()
				if timedOut.Load() {
					impl = "timeout:body-read-stalled after " + strconv.Itoa(len(data)) + " bytes"
					return
				}
				impl = "status=" + strconv.Itoa(res.StatusCode) + " hdr=" + c02Canon(res.Header, c02Keep) +
					" err=" + c02H2ErrClass(last) + " data=" + verifh.Hex(string(data)) + " trailer=" + c02Canon(res.Trailer, nil)
				if mut == "none" || mut == "cl-dup" || mut == "nobody-status-cl" {
					want := body
					if isHead {
						want = ""
					}
					if string(data) != want || last != io.EOF || strconv.Itoa(res.StatusCode) != status {
						propOK = false
					}
					wt := http.Header{}
					if !isHead && !headEnds {
						for _, tr := range trailers {
							wt.Add(tr.k, tr.v)
						}
					}
					if c02Canon(res.Trailer, nil) != c02Canon(wt, nil) {
						propOK = false
					}
				}
				if !strings.HasPrefix(body, string(data)) {
					propOK = false
				}
				// a Content-Length on a status that never has a body announces none (finding
				// C02-3): the two length rules are about statuses that may have one
				nobody := status == "204" || status == "304"
				if mut == "cl-small" && last == io.EOF && len(data) > clv && !nobody {
					propOK = false
				}
				if mut == "cl-large" && last == io.EOF && !isHead && !headEnds && !nobody {
					propOK = false // shorter than declared must not end cleanly
				}
			})
		}()
		var co *caseOut
		select {
		case co = <-outc:
		case <-time.After(30 * time.Second):
			// the implementation spins or blocks where nothing can interrupt it
			co = &caseOut{impl: "timeout:stalled (case did not return within 30s)", propOK: false}
		}
		reads, impl, propOK, ptxt, panicked := co.reads, co.impl, co.propOK, co.ptxt, co.panicked
		evArg := "none"
		if len(evArgs) > 0 {
			evArg = strings.Join(evArgs, "/")
		}
		line := "c02h2recv " + c02B(isHead) + " " + evArg + " " + verifh.IntList(reads)
		human := fmt.Sprintf("h2 head=%v status=%s interim=%d fields=%d declared=%v cl=%d body=%d data-frames=%d trailers=%d headEnds=%v mut=%s reads=%d earlier-on-conn=%v announced-header-table-size=%d peer-encoder-table=%d shared-field=%v", isHead, status, nint, len(fs), declared, clv, len(body), ndata, len(trailers), headEnds, mut, len(reads), preKinds, hts, adopt, shared != nil)
		if panicked {
			s.Crash(line, human, ptxt, "")
			continue
		}
		if strings.HasPrefix(impl, "infra:") {
			s.Count("infra")
			t.Logf("skipped: %s %s", impl, human)
			continue
		}
		if strings.HasPrefix(impl, "timeout:") {
			stalls++
			s.Case(line, impl, false, "", false, human)
			if stalls >= 4 {
				break
			}
			continue
		}
		s.Count("mut:" + mut)
		for _, k := range preKinds {
			s.Count("earlier:" + k)
		}
		switch {
		case hts < 0:
			s.Count("settings:default")
		case hts < 4096:
			s.Count("settings:header-table<4096")
		case hts == 4096:
			s.Count("settings:header-table=4096")
		default:
			s.Count("settings:header-table>4096")
		}
		if adopt > 4096 {
			s.Count("peer-encoder-table>4096")
			bigTable++
			if shared != nil && len(shared.v) > 4096-40 && len(preKinds) > 0 {
				s.Count("peer-encoder-table>4096+reference-to-entry>4096")
			}
		} else if adopt >= 0 && adopt < 4096 {
			s.Count("peer-encoder-table<4096")
		}
		if strings.HasPrefix(impl, "error:") {
			s.Count("head-" + impl)
		} else if i := strings.Index(impl, " err="); i >= 0 {
			e := impl[i+5:]
			s.Count("end:" + e[:strings.Index(e, " ")])
		}
		if len(trailers) > 0 && mut == "none" && !isHead {
			s.Count("with-trailers")
		}
		if isHead {
			s.Count("HEAD")
		}
		// round 5: the matrix declared length {none, right, body longer (surplus), body shorter}
		// x trailer section {no, yes}; every cell must be reached
		if !isHead && !headEnds && (mut == "none" || mut == "cl-small" || mut == "cl-large") {
			k := "undeclared"
			switch {
			case mut == "cl-small":
				k = "surplus"
			case mut == "cl-large":
				k = "short"
			case declared:
				k = "declared"
			}
			k = "matrix:" + k + "/trailers=" + strconv.FormatBool(len(trailers) > 0)
			s.Count(k)
			matrix[k]++
		}
		class := ""
		if openNobody && mut == "nobody-status-cl" {
			s.Count("204/304+content-length+open-stream+no-data")
		}
		if !isHead && !headEnds && (status == "204" || status == "304") && declared && !strings.HasSuffix(mut, "dup") {
			// finding C02-3: the length accounting of transportResponseBody.Read applied to a
			// status that never has a body: END_STREAM before "Content-Length" bytes arrived
			// is reported as io.ErrUnexpectedEOF (and DATA a misbehaving origin sends on such a
			// status is measured against the Content-Length)
			class = "h2-nobody-status-length-accounting"
			s.Count("204/304+content-length+open-stream")
		}
		if !isHead && headEnds && (status == "204" || status == "304") && declared && clv > 0 && !strings.HasSuffix(mut, "dup") {
			// finding C02-1 (see e2eh2): missingBody for a 204/304 that carries a Content-Length
			class = "h2-nobody-status-content-length"
			s.Count("204/304+content-length")
		}
		s.Case(line, impl, propOK, class, ndata >= 2 && len(body) > 0, human)
	}
	s.Finish()
	if stalls < 4 && bigTable == 0 {
		t.Errorf("lane h2recv never had a peer whose HPACK encoder table exceeds 4096")
	}
	if stalls < 4 {
		for _, l := range []string{"undeclared", "declared", "surplus", "short"} {
			for _, tr := range []string{"false", "true"} {
				rare := (l == "surplus" || l == "short") && tr == "true" // a handful per quick run: required in the thorough tier only
			if k := "matrix:" + l + "/trailers=" + tr; matrix[k] == 0 && (!rare || verifh.Thorough()) {
					t.Errorf("lane h2recv never reached %q", k)
				}
			}
		}
	}
}

// c02PatByte: position-dependent test data, the byte at stream offset i (same formula as the
// Lean driver's patByte).
func c02PatByte(salt, i int) byte { return byte((i*131 + (i/251)*17 + salt) % 256) }

func c02HashBytes(p []byte) int {
	h := 7
	for _, b := range p {
		h = (h*31 + int(b) + 1) % 1000000007
	}
	return h
}

// c02GoChunkSize: which size class the NEXT chunk comes from (generator only: it lets the
// script aim reads and writes at the chunk geometry; the judge is the Lean model).
func c02GoChunkSize(want int64) int {
	switch {
	case want <= 1<<10:
		return 1 << 10
	case want <= 2<<10:
		return 2 << 10
	case want <= 4<<10:
		return 4 << 10
	case want <= 8<<10:
		return 8 << 10
	}
	return 16 << 10
}

// TestVerif_C02_h2databuf: the real dataBuffer (chunk list from size-class pools, r/w cursors)
// against the Lean model Req.C02.DataBuffer, op by op, content-checked; an independent byte FIFO
// is the second opinion (theorem databuffer_fifo says the model IS that FIFO).
func TestVerif_C02_h2databuf(t *testing.T) {
	s := verifh.New(t, "C02", "h2databuf",
		"Write(n)/Read(k) scripts on a real dataBuffer with expected in {-1,0,1,1000,5000,20000,100000}, position-dependent bytes: write sizes 0..40000 around the 1/2/4/8/16 KiB chunk classes or aimed at the geometry (fill the last chunk exactly / +-1); read sizes random 1..70000 or aimed at the geometry (what is left of the first chunk +-1, the offset in the first chunk that equals the write offset of the last chunk +-1, everything, everything-1); compared op by op (read length + content hash, Len() after every op) with Req.C02.DataBuffer under Go's size-class allocator (the chunk lengths at the end are recorded in the histogram, not judged: the allocation policy is invisible to the caller); oracle: an independent byte FIFO; non-trivial = at least two chunks were buffered at once")
	r := s.Rand()
	n := verifh.N(500, 20000)
	sizes := []int{0, 1, 2, 100, 1023, 1024, 1025, 2047, 2048, 2049, 4095, 4096, 4097, 8191, 8192, 8193, 16383, 16384, 16385, 40000}
	stalls := 0
	reached := map[string]int{}
	count := func(k string) { s.Count(k); reached[k]++ }
	for c := 0; c < n && stalls < 3; c++ {
		exp := int64(verifh.Pick(r, []int{-1, 0, 1, 1000, 5000, 20000, 100000}))
		salt := r.Intn(256)
		type op struct {
			write bool
			k     int
		}
		var ops []op
		// generator-side shadow of the geometry (chunk lengths, r, w, expected)
		var lens []int
		sr, sw, pending := 0, 0, 0
		sexp := exp
		multi, aimed := false, false
		shadowWrite := func(k int) {
			for k > 0 {
				if len(lens) == 0 || sw >= lens[len(lens)-1] {
					want := int64(k)
					if sexp > want {
						want = sexp
					}
					lens = append(lens, c02GoChunkSize(want))
					sw = 0
				}
				m := lens[len(lens)-1] - sw
				if m > k {
					m = k
				}
				sw += m
				k -= m
				pending += m
				sexp -= int64(m)
			}
		}
		shadowRead := func(k int) {
			for k > 0 && pending > 0 {
				avail := lens[0] - sr
				if len(lens) == 1 {
					avail = sw - sr
				}
				m := avail
				if m > k {
					m = k
				}
				sr += m
				k -= m
				pending -= m
				if sr == lens[0] {
					lens = lens[1:]
					sr = 0
				}
			}
		}
		for i := 0; i < 3+r.Intn(30); i++ {
			if r.Intn(2) == 0 || pending == 0 {
				k := verifh.Pick(r, sizes)
				switch r.Intn(4) {
				case 0:
					k = r.Intn(3000)
				case 1:
					if len(lens) > 0 && lens[len(lens)-1] > sw { // aim at the end of the last chunk
						k = lens[len(lens)-1] - sw + r.Intn(3) - 1
						if r.Intn(2) == 0 {
							k += 1 + r.Intn(300) // spill a little into a new chunk
						}
					}
				}
				if k < 0 {
					k = 0
				}
				ops = append(ops, op{write: true, k: k})
				shadowWrite(k)
			} else {
				k := 1 + r.Intn(70000)
				switch r.Intn(5) {
				case 0:
					k = 1 + r.Intn(2000)
				case 1: // what is left of the first chunk, +-1
					k = lens[0] - sr + r.Intn(3) - 1
				case 2: // stop in the first chunk where the last chunk's write offset is, +-1
					if len(lens) >= 2 && sw > sr {
						k = sw - sr + r.Intn(3) - 1
						aimed = true
					}
				case 3:
					k = pending - r.Intn(2)
				}
				if k < 1 {
					k = 1
				}
				ops = append(ops, op{k: k})
				shadowRead(k)
			}
			if len(lens) >= 2 {
				multi = true
			}
		}
		var trace []string
		for _, o := range ops {
			if o.write {
				trace = append(trace, "w"+strconv.Itoa(o.k))
			} else {
				trace = append(trace, "r"+strconv.Itoa(o.k))
			}
		}
		type outT struct {
			ok   bool
			obs  []string
			geo  string
			seen bool
		}
		outc := make(chan outT, 1)
		go func() {
			// the "expected" hint is the struct's only int64 field, the chunk list its only
			// [][]byte field (found by type, not by name)
			b := new(dataBuffer)
			bv := reflect.ValueOf(b).Elem()
			nInt64, chunksIdx, nChunks := 0, -1, 0
			for i := 0; i < bv.NumField(); i++ {
				if bv.Field(i).Kind() == reflect.Int64 {
					nInt64++
					reflect.NewAt(bv.Field(i).Type(), unsafe.Pointer(bv.Field(i).UnsafeAddr())).Elem().SetInt(exp)
				}
				if bv.Field(i).Type() == reflect.TypeOf([][]byte(nil)) {
					chunksIdx = i
					nChunks++
				}
			}
			if nInt64 != 1 {
				b = new(dataBuffer) // shape changed: run without the hint
				bv = reflect.ValueOf(b).Elem()
			}
			var fifo []byte
			var obs []string
			ok := true
			off := 0
			for _, o := range ops {
				var ob string
				if o.write {
					p := make([]byte, o.k)
					for j := range p {
						p[j] = c02PatByte(salt, off+j)
					}
					off += o.k
					m, err := b.Write(p)
					ob = "w"
					if m != o.k || err != nil {
						ok = false
						ob = "w!"
					}
					fifo = append(fifo, p...)
				} else {
					p := make([]byte, o.k)
					m, err := b.Read(p)
					want := o.k
					if want > len(fifo) {
						want = len(fifo)
					}
					if err != nil {
						ob = "e" // errReadEmpty is the only error Read has
						if want != 0 || m != 0 {
							ok = false
						}
					} else {
						if m < 0 || m > len(p) {
							m = 0
							ok = false
						}
						ob = strconv.Itoa(m) + ":" + strconv.Itoa(c02HashBytes(p[:m]))
						if want == 0 || m != want || !bytes.Equal(p[:m], fifo[:want]) {
							ok = false
						}
						fifo = fifo[want:]
					}
				}
				if b.Len() != len(fifo) {
					ok = false
				}
				obs = append(obs, ob+"/"+strconv.Itoa(b.Len()))
			}
			geo, seen := "?", false
			if nChunks == 1 {
				seen = true
				cv := bv.Field(chunksIdx)
				var ls []string
				for i := 0; i < cv.Len(); i++ {
					ls = append(ls, strconv.Itoa(cv.Index(i).Len()))
				}
				geo = "-"
				if len(ls) > 0 {
					geo = strings.Join(ls, ",")
				}
			}
			outc <- outT{ok, obs, geo, seen}
		}()
		var res outT
		stalled := false
		select {
		case res = <-outc:
		case <-time.After(10 * time.Second):
			stalled = true
			stalls++
		}
		count(fmt.Sprintf("expected:%d", exp))
		human := fmt.Sprintf("exp=%d salt=%d ops=%s", exp, salt, strings.Join(trace, ","))
		if stalled {
			s.Observe(fmt.Sprintf("databuf#%d %s", c, human), false, "", multi, human, "dataBuffer op did not return within 10 s")
			continue
		}
		if multi {
			count(">=2-chunks-buffered")
		}
		if aimed {
			count("read-stops-at-r==w-of-last-chunk")
		}
		// The chunk geometry is NOT part of the compared answer: which size class a chunk
		// comes from is invisible to the caller (theorem databuffer_alloc_invisible), so a
		// different allocation policy must not alarm. It is only recorded whether the real
		// chunk list has the lengths Go's size classes (the model's goAlloc) predict.
		g := "0"
		if res.seen {
			var ls []string
			for _, l := range lens {
				ls = append(ls, strconv.Itoa(l))
			}
			pred := "-"
			if len(ls) > 0 {
				pred = strings.Join(ls, ",")
			}
			if pred == res.geo {
				count("geometry:as-size-classes-predict")
			} else {
				count("geometry:differs-from-size-classes")
			}
		}
		res.geo = "?"
		opsS := "-"
		if len(trace) > 0 {
			opsS = strings.Join(trace, ",")
		}
		impl := "obs=" + strings.Join(res.obs, ";") + " geo=" + res.geo
		s.Case(fmt.Sprintf("c02databuf %d %d %s %s", exp, salt, g, opsS), impl, res.ok, "", multi, human)
	}
	s.Finish()
	if stalls == 0 {
		for _, k := range []string{">=2-chunks-buffered", "read-stops-at-r==w-of-last-chunk"} {
			if reached[k] == 0 {
				t.Errorf("lane h2databuf never reached %q", k)
			}
		}
	}
}
