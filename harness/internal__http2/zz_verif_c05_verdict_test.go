//go:build verif

package http2

import (
	"bytes"
	"fmt"
	"testing"

	"github.com/imroc/req/v3/internal/verifh"
	xh2 "golang.org/x/net/http2"
)

// TestVerif_C05_h2verdict: the declarative RFC 9113 section 6 verdict (Lean Rfc.verdict: accept, or the
// prescribed error — theorem parse_verdict proves the model's typed parsers return exactly it) against
// what the fork's and the reference's ReadFrame say about ONE frame: every type 0..12, flags grid,
// stream ids incl. 0 and reserved bit, typed boundary payloads (pad length vs payload length, priority
// octets, SETTINGS lengths mod 6 and INITIAL_WINDOW_SIZE around 2^31, WINDOW_UPDATE increments 0 /
// 0x80000000 / 1, PING/RST/PRIORITY/GOAWAY lengths around the fixed sizes).
func TestVerif_C05_h2verdict(t *testing.T) {
	s := verifh.New(t, "C05", "h2verdict",
		"one frame per case: type 0..12 (10..12 unknown) x flags (typed sets and random) x stream id (0, small, 2^31-1, reserved bit set) x payload from the typed boundary generator of h2read (mostly well-formed with lengths/pad lengths/values at the boundaries each rule of RFC 9113 6.1-6.10 names) ; a CONTINUATION frame is preceded by an open HEADERS frame on its stream so that the verdict is the parser's, not the order automaton's; answer = accept or the error class (connection/stream + code, short read); fork, x/net and the Lean verdict must agree; non-trivial = rejected")
	r := s.Rand()
	hs := newC05hist(s)
	n := verifh.N(6000, 120000)
	for c := 0; c < n; c++ {
		ty := byte(r.Intn(13))
		flags := c05flags(r, ty)
		sid := c05sid(r, ty)
		payload := c05payload(r, ty, flags)
		if r.Intn(8) == 0 {
			// the rarely drawn corners, named by the rule they sit on
			type corner struct {
				ty, flags byte
				sid       uint32
				payload   []byte
			}
			k := verifh.Pick(r, []corner{
				{0, 0x8, 1, nil},                                                  // DATA PADDED, no Pad Length octet
				{0, 0x8, 1, []byte{0}},                                            // Pad Length 0 = payload length 1 - 1
				{0, 0x8, 1, []byte{1}},                                            // padding == remaining + 1
				{0, 0x8, 3, []byte{2, 9, 0, 0}},                                   // exact fit
				{1, 0x28, 1, []byte{0, 0, 0, 0, 0}},                               // HEADERS PADDED|PRIORITY one octet short
				{1, 0x28, 1, []byte{1, 0, 0, 0, 0, 7}},                            // fixed fields fit, padding 1 > 0 left
				{1, 0x28, 1, []byte{1, 0, 0, 0, 0, 7, 0}},                         // exact fit
				{5, 0x8, 1, []byte{0, 0, 0, 0}},                                   // PUSH_PROMISE PADDED one short
				{5, 0x8, 1, []byte{1, 0, 0, 0, 2}},                                // padding 1 > 0 left
				{8, 0, 0, []byte{0, 0, 0, 0}},                                     // WINDOW_UPDATE zero increment, connection
				{8, 0, 0, []byte{0x80, 0, 0, 0}},                                  // reserved bit set, increment still zero
				{8, 0, 5, []byte{0x80, 0, 0, 0}},                                  // ... on a stream
				{8, 0, 5, []byte{0x80, 0, 0, 1}},                                  // increment 1
				{4, 0, 0, []byte{0, 4, 0x7f, 0xff, 0xff, 0xff}},                   // INITIAL_WINDOW_SIZE 2^31-1
				{4, 0, 0, []byte{0, 4, 0x80, 0, 0, 0}},                            // 2^31
				{4, 0, 0, []byte{0, 4, 0, 0, 0, 1, 0, 4, 0xff, 0xff, 0xff, 0xff}}, // only the first occurrence counts
				{4, 1, 0, []byte{0, 1, 0, 0, 0, 0}},                               // ACK with payload
				{4, 1, 3, nil},                                                    // ACK on a stream
			})
			ty, flags, sid, payload = k.ty, k.flags, k.sid, k.payload
		}
		var in []byte
		skip := 0
		if ty == 9 {
			open := sid & 0x7fffffff
			if open == 0 {
				open = 1
			}
			in = append(in, c05frame(1, 0, open, nil)...)
			skip = 1
		}
		in = append(in, c05frame(ty, flags, sid, payload)...)
		verdictOf := func(items []string) string {
			if len(items) <= skip {
				return "none"
			}
			it := items[skip]
			switch {
			case len(it) >= 4 && it[:4] == "conn", len(it) >= 6 && it[:6] == "stream", it == "ueof", it == "eof", it == "toolarge", it == "other":
				return it
			}
			return "accept"
		}
		fk := NewFramer(nil, bytes.NewReader(in))
		rf := xh2.NewFramer(nil, bytes.NewReader(in))
		var fv, rv string
		if p, bad := verifh.Safely(func() { fv = verdictOf(c05readAllFork(fk, 2+skip)) }); bad {
			s.Crash(c05hex(in), c05hex(in), p, "")
			continue
		}
		rv = verdictOf(c05readAllRef(rf, 2+skip))
		human := fmt.Sprintf("type=%d flags=%#x sid=%#x payload=%s fork=%s ref=%s", ty, flags, sid, c05hex(payload), fv, rv)
		hs.Count(fmt.Sprintf("t%d-%s", ty, c05verdictKind(fv)))
		s.Case(fmt.Sprintf("c05h2verdict %d %d %d %s", ty, flags, sid&0x7fffffff, c05hex(payload)), fv, fv == rv, "", fv != "accept", human)
	}
	s.Finish()
	hs.Require(t, "t0-ok", "t0-conn:1", "t0-ueof", "t1-ok", "t1-conn:1", "t1-stream:1", "t1-ueof", "t2-ok", "t2-conn:1", "t2-conn:6",
		"t3-ok", "t3-conn:1", "t3-conn:6", "t4-ok", "t4-conn:1", "t4-conn:6", "t4-conn:3", "t5-ok", "t5-conn:1", "t5-ueof",
		"t6-ok", "t6-conn:1", "t6-conn:6", "t7-ok", "t7-conn:1", "t7-conn:6", "t8-ok", "t8-conn:1", "t8-conn:6", "t8-stream:1",
		"t9-ok", "t9-conn:1", "t10-ok", "t12-ok")
}

// c05verdictKind: "accept" -> "ok", "conn:1" -> "conn:1", "stream:5:1" -> "stream:1", else the item.
func c05verdictKind(it string) string {
	switch {
	case it == "accept":
		return "ok"
	case len(it) >= 6 && it[:6] == "stream":
		return "stream:" + c05codeOf(it)
	}
	return it
}
