//go:build verif

package http2

// C06 monitor lane: concurrent uploads and downloads on one real ClientConn against a peer that
// keeps changing what it advertises (INITIAL_WINDOW_SIZE up and down incl. 0, MAX_FRAME_SIZE,
// MAX_CONCURRENT_STREAMS), returns credit in arbitrary increments, resets streams and finally
// sends GOAWAY. The peer stays inside the protocol and inside the windows the client advertised.
// The frame history as the peer saw it goes to the Lean strict-peer monitor (runtime checking
// against the proved specification: the schedules are the Go scheduler's, not enumerated).

import (
	"bytes"
	"context"
	"fmt"
	"io"
	"log"
	"math/rand"
	"net"
	"net/http"
	"os"
	"runtime"
	"strings"
	"sync"
	"testing"
	"time"

	"github.com/imroc/req/v3/internal/transport"
	"github.com/imroc/req/v3/internal/verifh"
	xhttp2 "golang.org/x/net/http2"
	"golang.org/x/net/http2/hpack"
)

type c06ChaosStream struct {
	id        uint32
	owed      int64 // request DATA received and not yet returned as window
	cwin      int64 // the peer's send window towards the client
	reset     bool  // either side reset it
	reqEnded  bool
	respDone  bool
	responder bool
}

type c06Chaos struct {
	mu       sync.Mutex
	cond     *sync.Cond
	conn     net.Conn
	fr       *xhttp2.Framer
	henc     *hpack.Encoder
	hbuf     bytes.Buffer
	rnd      *rand.Rand // guarded by mu
	hist     []string
	streams  map[uint32]*c06ChaosStream
	owedConn int64
	cInitWin int64
	cConnWin int64
	initWin  int64 // what the peer advertised last (its own books for WINDOW_UPDATE policy only)
	closed   bool
	stop     bool
	pingAck  chan [8]byte
	wg       sync.WaitGroup
	hdrOpen  uint32
	pings     uint64 // PINGs sent so far (payload = the count)
	pingAcked uint64 // highest payload acknowledged so far
}

// ping sends a PING (recorded; the acknowledgement shows up in the history as Y<payload>).
func (p *c06Chaos) ping() {
	// callers hold p.mu
	p.pings++
	v := p.pings
	var d [8]byte
	for i := 0; i < 8; i++ {
		d[i] = byte(v >> (56 - 8*uint(i)))
	}
	p.send(fmt.Sprintf("<p:0:%d", v), func() { p.fr.WritePing(false, d) })
}

// send writes one peer frame and records it, atomically with respect to the history.
func (p *c06Chaos) send(ev string, write func()) {
	// callers hold p.mu
	if p.closed {
		return
	}
	write()
	p.hist = append(p.hist, ev)
}

func (p *c06Chaos) reader() {
	defer p.wg.Done()
	pre := make([]byte, len(xhttp2.ClientPreface))
	if _, err := io.ReadFull(p.conn, pre); err != nil {
		p.fail()
		return
	}
	for {
		f, err := p.fr.ReadFrame()
		if err != nil {
			p.fail()
			return
		}
		h := f.Header()
		p.mu.Lock()
		switch f := f.(type) {
		case *xhttp2.SettingsFrame:
			if f.IsAck() {
				p.hist = append(p.hist, "A")
			} else {
				var parts []string
				f.ForeachSetting(func(s xhttp2.Setting) error {
					parts = append(parts, fmt.Sprintf("%d=%d", uint16(s.ID), s.Val))
					if s.ID == xhttp2.SettingInitialWindowSize {
						p.cInitWin = int64(s.Val)
					}
					return nil
				})
				p.hist = append(p.hist, "S"+strings.Join(parts, "/"))
				p.send("<a", func() { p.fr.WriteSettingsAck() })
			}
		case *xhttp2.WindowUpdateFrame:
			p.hist = append(p.hist, fmt.Sprintf("W%d+%d", h.StreamID, f.Increment))
			if h.StreamID == 0 {
				p.cConnWin += int64(f.Increment)
			} else if st := p.streams[h.StreamID]; st != nil {
				st.cwin += int64(f.Increment)
			}
			p.cond.Broadcast()
		case *xhttp2.PriorityFrame:
			p.hist = append(p.hist, fmt.Sprintf("P%d", h.StreamID))
		case *xhttp2.HeadersFrame:
			p.hist = append(p.hist, fmt.Sprintf("H%d:%d:%s%s", h.StreamID, h.Length, c06Flag(f.StreamEnded(), "e"), c06Flag(f.HeadersEnded(), "h")))
			st := p.streams[h.StreamID]
			if st == nil {
				st = &c06ChaosStream{id: h.StreamID, cwin: p.cInitWin}
				p.streams[h.StreamID] = st
			}
			if f.StreamEnded() {
				st.reqEnded = true // (also the END_STREAM of a trailer block)
				p.cond.Broadcast()
			}
			if f.HeadersEnded() {
				p.startResponder(st)
			}
		case *xhttp2.ContinuationFrame:
			p.hist = append(p.hist, fmt.Sprintf("C%d:%d:%s", h.StreamID, h.Length, c06Flag(f.HeadersEnded(), "h")))
			if st := p.streams[h.StreamID]; st != nil && f.HeadersEnded() {
				p.startResponder(st)
			}
		case *xhttp2.DataFrame:
			p.hist = append(p.hist, fmt.Sprintf("D%d:%d:%s", h.StreamID, h.Length, c06Flag(f.StreamEnded(), "e")))
			p.owedConn += int64(h.Length)
			if st := p.streams[h.StreamID]; st != nil {
				st.owed += int64(h.Length)
				if f.StreamEnded() {
					st.reqEnded = true
				}
			}
			p.cond.Broadcast()
		case *xhttp2.RSTStreamFrame:
			p.hist = append(p.hist, fmt.Sprintf("R%d", h.StreamID))
			if st := p.streams[h.StreamID]; st != nil {
				st.reset = true
			}
			p.cond.Broadcast()
		case *xhttp2.PingFrame:
			if f.IsAck() {
				var v uint64
				for i := 0; i < 8; i++ {
					v = v<<8 | uint64(f.Data[i])
				}
				p.hist = append(p.hist, fmt.Sprintf("Y%d", v))
				if v > p.pingAcked {
					p.pingAcked = v
				}
				select {
				case p.pingAck <- f.Data:
				default:
				}
			} else {
				p.fr.WritePing(true, f.Data)
			}
		case *xhttp2.GoAwayFrame:
			p.hist = append(p.hist, "G")
		}
		p.mu.Unlock()
	}
}

func (p *c06Chaos) fail() {
	p.mu.Lock()
	p.closed = true
	p.cond.Broadcast()
	p.mu.Unlock()
}

func (p *c06Chaos) startResponder(st *c06ChaosStream) {
	if st.responder {
		return
	}
	st.responder = true
	size := verifh.Pick(p.rnd, []int{0, 1, 100, 4095, 4096, 4097, 16384, 65535, 65536, 100000, 300000})
	early := p.rnd.Intn(2) == 0 // answer before the request body is complete
	resetAt := -1
	if p.rnd.Intn(12) == 0 {
		resetAt = p.rnd.Intn(size + 1)
	}
	seed := p.rnd.Int63()
	p.wg.Add(1)
	go p.respond(st, size, early, resetAt, rand.New(rand.NewSource(seed)))
}

// respond sends one response, staying inside the windows the client advertised.
func (p *c06Chaos) respond(st *c06ChaosStream, size int, early bool, resetAt int, r *rand.Rand) {
	defer p.wg.Done()
	p.mu.Lock()
	defer p.mu.Unlock()
	for !early && !st.reqEnded && !st.reset && !p.closed && !p.stop {
		p.cond.Wait()
	}
	if st.reset || p.closed {
		return
	}
	for k := r.Intn(8); k == 0 || k == 1; k-- { // one or two informational responses first, now and then
		p.hbuf.Reset()
		p.henc.WriteField(hpack.HeaderField{Name: ":status", Value: "103"})
		blk := append([]byte{}, p.hbuf.Bytes()...)
		p.send(fmt.Sprintf("<h:%d:0:103:-", st.id), func() {
			p.fr.WriteHeaders(xhttp2.HeadersFrameParam{StreamID: st.id, BlockFragment: blk, EndHeaders: true})
		})
		if k == 0 {
			break
		}
	}
	p.hbuf.Reset()
	p.henc.WriteField(hpack.HeaderField{Name: ":status", Value: "200"})
	clTok := "-"
	if resetAt < 0 && r.Intn(4) == 0 { // a declared (and honoured) Content-Length
		p.henc.WriteField(hpack.HeaderField{Name: "content-length", Value: fmt.Sprint(size)})
		clTok = fmt.Sprint(size)
	}
	blk := append([]byte{}, p.hbuf.Bytes()...)
	end := size == 0 && resetAt < 0
	trailers := !end && resetAt < 0 && r.Intn(6) == 0 // the response ends with a trailer block
	p.send(fmt.Sprintf("<h:%d:%s:200:%s", st.id, c06B(end), clTok), func() {
		p.fr.WriteHeaders(xhttp2.HeadersFrameParam{StreamID: st.id, BlockFragment: blk, EndHeaders: true, EndStream: end})
	})
	if end {
		st.respDone = true
		return
	}
	sent := 0
	for {
		if st.reset || p.closed {
			return
		}
		if resetAt >= 0 && sent >= resetAt {
			code := verifh.Pick(r, []uint32{0, 7, 8})
			p.send(fmt.Sprintf("<r:%d:%d", st.id, code), func() { p.fr.WriteRSTStream(st.id, xhttp2.ErrCode(code)) })
			st.reset = true
			return
		}
		if sent >= size {
			if trailers {
				p.hbuf.Reset()
				p.henc.WriteField(hpack.HeaderField{Name: "x-trailer", Value: "1"})
				tb := append([]byte{}, p.hbuf.Bytes()...)
				p.send(fmt.Sprintf("<h:%d:1:0:-", st.id), func() {
					p.fr.WriteHeaders(xhttp2.HeadersFrameParam{StreamID: st.id, BlockFragment: tb, EndHeaders: true, EndStream: true})
				})
			} else {
				p.send(fmt.Sprintf("<d:%d:0:0:1", st.id), func() { p.fr.WriteData(st.id, true, nil) })
			}
			st.respDone = true
			return
		}
		pad := 0
		if r.Intn(6) == 0 {
			pad = 1 + r.Intn(64)
		}
		w := st.cwin
		if p.cConnWin < w {
			w = p.cConnWin
		}
		if w <= int64(pad) {
			p.cond.Wait() // the client owes us window
			continue
		}
		n := verifh.Pick(r, []int{1, 100, 4096, 8192, 16384 - 64})
		if n > size-sent {
			n = size - sent
		}
		if int64(n+pad) > w {
			n = int(w) - pad
		}
		if resetAt >= 0 && sent+n > resetAt && resetAt > sent {
			n = resetAt - sent
		}
		last := sent+n >= size && resetAt < 0 && !trailers
		p.send(fmt.Sprintf("<d:%d:%d:%d:%s", st.id, n, pad, c06B(last)), func() {
			if pad > 0 {
				p.fr.WriteDataPadded(st.id, last, c06Zeros[:n], c06Zeros[:pad-1])
			} else {
				p.fr.WriteData(st.id, last, c06Zeros[:n])
			}
		})
		st.cwin -= int64(n + pad)
		p.cConnWin -= int64(n + pad)
		sent += n
		if last {
			st.respDone = true
			return
		}
		if r.Intn(4) == 0 { // let other goroutines in
			p.mu.Unlock()
			time.Sleep(time.Duration(r.Intn(200)) * time.Microsecond)
			p.mu.Lock()
		}
	}
}

// granter returns flow-control credit in arbitrary increments and keeps changing the settings.
func (p *c06Chaos) granter(r *rand.Rand, rounds int) {
	defer p.wg.Done()
	for i := 0; ; i++ {
		time.Sleep(time.Duration(50+r.Intn(300)) * time.Microsecond)
		p.mu.Lock()
		if p.closed || p.stop {
			p.mu.Unlock()
			return
		}
		generous := i >= rounds // after a while: settle on generous values so that everything finishes
		if r.Intn(10) == 0 {
			p.ping()
		}
		if p.owedConn > 0 && (generous || r.Intn(2) == 0) {
			inc := p.owedConn
			if !generous && inc > 1 && r.Intn(3) != 0 {
				inc = 1 + r.Int63n(inc)
			}
			p.owedConn -= inc
			p.send(fmt.Sprintf("<w:0:%d", inc), func() { p.fr.WriteWindowUpdate(0, uint32(inc)) })
		}
		for _, st := range p.streams {
			if st.owed > 0 && !st.reset && (generous || r.Intn(3) == 0) {
				inc := st.owed
				if !generous && inc > 1 && r.Intn(3) != 0 {
					inc = 1 + r.Int63n(inc)
				}
				st.owed -= inc
				id := st.id
				p.send(fmt.Sprintf("<w:%d:%d", id, inc), func() { p.fr.WriteWindowUpdate(id, uint32(inc)) })
			}
		}
		if (!generous && r.Intn(8) == 0) || i == rounds {
			var vals []xhttp2.Setting
			var parts []string
			add := func(id xhttp2.SettingID, v uint32) {
				vals = append(vals, xhttp2.Setting{ID: id, Val: v})
				parts = append(parts, fmt.Sprintf("%d=%d", uint16(id), v))
			}
			if generous {
				add(xhttp2.SettingInitialWindowSize, 1<<20)
				add(xhttp2.SettingMaxConcurrentStreams, 100)
				add(xhttp2.SettingMaxFrameSize, 16384)
			} else {
				if r.Intn(2) == 0 {
					add(xhttp2.SettingInitialWindowSize, verifh.Pick(r, []uint32{0, 1, 100, 4096, 16384, 65535, 65536, 1 << 20}))
				}
				if r.Intn(3) == 0 {
					add(xhttp2.SettingMaxFrameSize, verifh.Pick(r, []uint32{16384, 16385, 20000, 65536, 1 << 20}))
				}
				if r.Intn(3) == 0 {
					add(xhttp2.SettingMaxConcurrentStreams, verifh.Pick(r, []uint32{1, 2, 3, 100}))
				}
			}
			tok := "-"
			if len(parts) > 0 {
				tok = strings.Join(parts, "/")
			}
			p.send("<s:"+tok, func() { p.fr.WriteSettings(vals...) })
		}
		p.mu.Unlock()
	}
}

// how long a run may take before it is declared stalled
var c06MonitorPatience = 12 * time.Second

type c06MonitorResult struct {
	history   []string
	requests  int
	completed int
	errors    map[string]int
	closed    bool
	bigHeader bool
	stalled   bool
	elapsed   time.Duration
}

// c06MonitorRun: one connection, `workers` concurrent callers with `perWorker` requests each.
func c06MonitorRun(cfg c06Cfg, seed int64, workers, perWorker int) (*c06MonitorResult, error) {
	ln, err := net.Listen("tcp", "127.0.0.1:0")
	if err != nil {
		return nil, err
	}
	defer ln.Close()
	ach := make(chan net.Conn, 1)
	go func() {
		c, _ := ln.Accept()
		ach <- c
	}()
	cli, err := net.Dial("tcp", ln.Addr().String())
	if err != nil {
		return nil, err
	}
	srv := <-ach
	if srv == nil {
		cli.Close()
		return nil, fmt.Errorf("accept failed")
	}
	r := rand.New(rand.NewSource(seed))
	p := &c06Chaos{conn: srv, streams: map[uint32]*c06ChaosStream{}, cInitWin: 65535, cConnWin: 65535, initWin: 65535,
		rnd: rand.New(rand.NewSource(r.Int63())), pingAck: make(chan [8]byte, 4)}
	p.cond = sync.NewCond(&p.mu)
	p.henc = hpack.NewEncoder(&p.hbuf)
	p.henc.SetMaxDynamicTableSize(0) // whatever SETTINGS_HEADER_TABLE_SIZE the client advertises
	p.fr = xhttp2.NewFramer(srv, srv)
	p.fr.AllowIllegalReads = true
	p.fr.SetMaxReadFrameSize(1<<24 - 1)
	// the peer's first frame: its initial SETTINGS
	p.mu.Lock()
	first := []xhttp2.Setting{{ID: xhttp2.SettingMaxConcurrentStreams, Val: verifh.Pick(r, []uint32{2, 3, 100})}}
	p.send(fmt.Sprintf("<s:3=%d", first[0].Val), func() { p.fr.WriteSettings(first...) })
	p.mu.Unlock()
	p.wg.Add(2)
	go p.reader()
	go p.granter(rand.New(rand.NewSource(r.Int63())), 40+r.Intn(80))

	tr := &Transport{Options: &transport.Options{DisableCompression: true}, Settings: cfg.settings, ConnectionFlow: cfg.connFlow,
		PriorityFrames: cfg.prio, HeaderPriority: cfg.hdrPrio, StrictMaxConcurrentStreams: cfg.strict}
	cc, err := tr.NewClientConn(cli)
	if err != nil {
		srv.Close()
		return nil, err
	}
	res := &c06MonitorResult{errors: map[string]int{}}
	bigHeaders := r.Intn(4) == 0 // header blocks above the frame size (CONTINUATION) in one run out of four
	var rmu sync.Mutex
	var wg sync.WaitGroup
	for w := 0; w < workers; w++ {
		wr := rand.New(rand.NewSource(r.Int63()))
		wg.Add(1)
		go func() {
			defer wg.Done()
			for i := 0; i < perWorker; i++ {
				size := verifh.Pick(wr, c06Sizes)
				known := wr.Intn(4) != 0
				pad := wr.Intn(100)
				if bigHeaders && wr.Intn(25) == 0 {
					pad = verifh.Pick(wr, []int{16400, 40000})
					rmu.Lock()
					res.bigHeader = true
					rmu.Unlock()
				}
				ctx, cancel := context.WithTimeout(context.Background(), 20*time.Second)
				var body io.Reader
				if size > 0 || !known {
					body = bytes.NewReader(c06Zeros[:size])
				}
				if !known && body != nil {
					body = struct{ io.Reader }{body} // hide the length: content-length unknown
				}
				req, _ := http.NewRequestWithContext(ctx, "POST", "https://verif.test/m", body)
				if pad > 0 {
					req.Header.Set("X-Pad", strings.Repeat("~", pad))
				}
				trailer := 0
				if body != nil && wr.Intn(6) == 0 { // request trailers (a second header block, with END_STREAM)
					trailer = verifh.Pick(wr, []int{1, 100, 16400, 40000})
					req.Trailer = http.Header{"X-Trl": {strings.Repeat("~", trailer)}}
				}
				rmu.Lock()
				res.requests++
				rmu.Unlock()
				if wr.Intn(15) == 0 { // cancel in mid-flight
					go func() {
						time.Sleep(time.Duration(wr.Intn(2000)) * time.Microsecond)
						cancel()
					}()
				}
				var resp *http.Response
				var err error
				for attempt := 0; attempt < 2000; attempt++ {
					resp, err = cc.RoundTrip(req)
					if err == errClientConnUnusable && !cfg.strict {
						time.Sleep(100 * time.Microsecond) // at the stream limit: a pool would dial another connection
						if size > 0 || !known {
							body = bytes.NewReader(c06Zeros[:size])
							if !known {
								body = struct{ io.Reader }{body}
							}
							req, _ = http.NewRequestWithContext(ctx, "POST", "https://verif.test/m", body)
							if pad > 0 {
								req.Header.Set("X-Pad", strings.Repeat("~", pad))
							}
							if trailer > 0 {
								req.Trailer = http.Header{"X-Trl": {strings.Repeat("~", trailer)}}
							}
						}
						continue
					}
					break
				}
				if err != nil {
					rmu.Lock()
					res.errors[c06ErrKind(err)]++
					rmu.Unlock()
					cancel()
					continue
				}
				// consume: read slowly, or close early
				buf := make([]byte, verifh.Pick(wr, []int{1, 100, 4095, 4096, 5000, 65536}))
				closeAfter := -1
				if wr.Intn(3) == 0 {
					closeAfter = wr.Intn(100000)
				}
				got, naps := 0, 0
				for {
					n, rerr := resp.Body.Read(buf)
					got += n
					if rerr != nil || (closeAfter >= 0 && got >= closeAfter) {
						break
					}
					if naps < 8 && wr.Intn(8) == 0 { // a slow reader, but not for ever
						naps++
						time.Sleep(time.Duration(wr.Intn(300)) * time.Microsecond)
					}
					if got > 20000 && len(buf) < 4096 {
						buf = make([]byte, 4096+wr.Intn(4096)) // tiny reads only at the start
					}
				}
				resp.Body.Close()
				cancel()
				rmu.Lock()
				res.completed++
				rmu.Unlock()
			}
		}()
	}
	done := make(chan struct{})
	go func() { wg.Wait(); close(done) }()
	select {
	case <-done:
	case <-time.After(c06MonitorPatience):
		res.stalled = true
		if f := os.Getenv("VERIF_C06_STACKS"); f != "" { // development aid
			buf := make([]byte, 1<<22)
			buf = buf[:runtime.Stack(buf, true)]
			p.mu.Lock()
			h := strings.Join(p.hist, ";")
			p.mu.Unlock()
			os.WriteFile(f, append(buf, []byte("\n\nHISTORY "+h)...), 0o644)
		}
	}
	// quiescence: everything the client wrote before answering this PING is in the history
	p.mu.Lock()
	p.stop = true
	p.cond.Broadcast()
	closed := p.closed
	var barrier uint64
	if !closed {
		p.ping()
		barrier = p.pings
	}
	p.mu.Unlock()
	if !closed {
		// the acknowledgement of THIS ping (the granter's earlier ones may still be coming in)
		deadline := time.Now().Add(5 * time.Second)
		for {
			p.mu.Lock()
			done := p.pingAcked >= barrier || p.closed
			p.mu.Unlock()
			if done {
				break
			}
			if time.Now().After(deadline) {
				res.stalled = true
				break
			}
			time.Sleep(200 * time.Microsecond)
		}
	}
	// a short grace period for a late RST_STREAM of a request that finished with an error
	time.Sleep(2 * time.Millisecond)
	p.mu.Lock()
	res.history = append([]string{}, p.hist...)
	res.closed = p.closed
	p.mu.Unlock()
	cc.Close()
	srv.Close()
	p.fail()
	p.wg.Wait()
	return res, nil
}

func c06ErrKind(err error) string {
	s := err.Error()
	switch {
	case strings.Contains(s, "context canceled"), strings.Contains(s, "deadline"):
		return "cancelled"
	case strings.Contains(s, "stream ID"), strings.Contains(s, "RST_STREAM"), strings.Contains(s, "stream error"):
		return "stream-reset"
	case err == errClientConnUnusable:
		return "unusable"
	}
	return "other:" + s
}

func TestVerif_C06_monitor(t *testing.T) {
	s := verifh.New(t, "C06", "monitor",
		"concurrent uploads/downloads (4-8 callers x 6-10 requests, body sizes around 16384/65535, slow readers, early Close, cancellation) on one real ClientConn against a peer that changes INITIAL_WINDOW_SIZE (0..1 MiB, up and down), MAX_FRAME_SIZE and MAX_CONCURRENT_STREAMS in mid-flight, returns credit in arbitrary increments, pads DATA, resets streams; presets default/Chrome/Firefox/Safari/random, strict and non-strict stream limit; the frame history as seen by the peer is judged by the Lean strict-peer monitor incl. the stall check after everything was consumed; non-trivial = at least 30 DATA frames from the client")
	log.SetOutput(io.Discard)
	r := s.Rand()
	rounds := verifh.N(10, 150)
	if v := os.Getenv("VERIF_C06_ROUNDS"); v != "" { // development aid
		fmt.Sscan(v, &rounds)
	}
	type pend struct {
		cfg c06Cfg
		res *c06MonitorResult
	}
	var runs []pend
	var lines []string
	for i := 0; i < rounds; i++ {
		var cfg c06Cfg
		if i < 4 {
			cfg = c06Presets()[i]
		} else {
			cfg = c06RandomCfg(r)
		}
		if i%3 == 2 {
			cfg.strict = true
		}
		t0 := time.Now()
		res, err := c06MonitorRun(cfg, r.Int63(), 4+r.Intn(5), 6+r.Intn(5))
		res.elapsed = time.Since(t0)
		if err != nil {
			t.Fatalf("infrastructure: %v", err)
		}
		runs = append(runs, pend{cfg, res})
		if os.Getenv("VERIF_C06_ROUNDS") != "" {
			t.Logf("run %d %v cfg=%s strict=%v requests=%d completed=%d errors=%v events=%d stalled=%v closed=%v", i, res.elapsed, cfg.name, cfg.strict, res.requests, res.completed, res.errors, len(res.history), res.stalled, res.closed)
		}
		consumed := "1"
		if res.stalled || res.closed {
			consumed = "0"
		}
		lines = append(lines, "c06monitor "+consumed+" "+strings.Join(res.history, ";"))
		s.Count("cfg:" + cfg.name)
	}
	ans, err := verifh.RunModel(lines)
	if err != nil {
		t.Fatalf("driver: %v", err)
	}
	// histories the strict monitor rejects: does the race-tolerant reading accept them?
	var tolLines []string
	tolIdx := map[int]int{}
	for i := range runs {
		if ans[i] != "ok" {
			tolIdx[i] = len(tolLines)
			tolLines = append(tolLines, strings.Replace(lines[i], "c06monitor ", "c06monitortol ", 1))
		}
	}
	var tol []string
	if len(tolLines) > 0 {
		if tol, err = verifh.RunModel(tolLines); err != nil {
			t.Fatalf("driver: %v", err)
		}
	}
	for i, p := range runs {
		verdict := ans[i]
		race := false
		badAt := -1
		if k, ok := tolIdx[i]; ok {
			s.Count("strict:" + verdict)
			if tol[k] == "ok" {
				race = true
			} else {
				verdict = tol[k]                                    // what remains once the race is discounted
				if at := strings.LastIndex(verdict, "@"); at >= 0 { // "@<index of the rejected event>"
					fmt.Sscan(verdict[at+1:], &badAt)
					verdict = verdict[:at]
				}
			}
		}
		data := 0
		for _, e := range p.res.history {
			if strings.HasPrefix(e, "D") {
				data++
			}
		}
		ok := verdict == "ok" && !p.res.stalled && !p.res.closed
		class := ""
		// the known defects of the unchanged tree that a fingerprint can bring into this lane
		callerMaxFrame := false
		for _, st := range p.cfg.settings {
			if uint16(st.ID) == 5 && st.Val != 16384 {
				callerMaxFrame = true
			}
		}
		evenPrio := false
		for _, pf := range p.cfg.prio {
			if pf.StreamID%2 == 0 {
				evenPrio = true
			}
		}
		// a trailer block: a HEADERS frame (or its CONTINUATION) on a stream that had its HEADERS before
		trailerFrame := false
		if badAt >= 0 && badAt < len(p.res.history) {
			ev := p.res.history[badAt]
			if strings.HasPrefix(ev, "H") || strings.HasPrefix(ev, "C") {
				id := c06StreamOf(ev)
				for _, e := range p.res.history[:badAt] {
					if strings.HasPrefix(e, "D") && c06StreamOf(e) == id {
						trailerFrame = true // DATA came before it: not the request's first header block
						break
					}
				}
			}
		}
		switch {
		case race:
			class = "c06-settings-ack-race"
		case verdict == "violation:frame-size" && trailerFrame:
			class = c06Classes[6] // request trailers split with a MAX_FRAME_SIZE that was lowered since (fixes/C06-7)
		case verdict == "violation:frame-size" && callerMaxFrame:
			class = c06Classes[0]
		case verdict == "violation:even-stream-id" && evenPrio:
			class = c06Classes[2]
		case verdict == "violation:frame-size" && !p.cfg.hdrPrio.IsZero() && p.res.bigHeader:
			class = c06Classes[3]
		case p.res.closed && evenPrio: // a real peer answers an even stream id with a connection error; ours just records it
			class = c06Classes[2]
		}
		s.Count("verdict:" + verdict)
		for k, v := range p.res.errors {
			if strings.HasPrefix(k, "other:") {
				k = "other"
			}
			for j := 0; j < v; j++ {
				s.Count("err:" + k)
			}
		}
		human := fmt.Sprintf("cfg=%s strict=%v requests=%d completed=%d errors=%v events=%d data=%d verdict=%s stalled=%v closed=%v",
			p.cfg.name, p.cfg.strict, p.res.requests, p.res.completed, p.res.errors, len(p.res.history), data, verdict, p.res.stalled, p.res.closed)
		detail := human
		if d := os.Getenv("VERIF_C06_DUMP"); d != "" && !ok { // development aid
			os.WriteFile(fmt.Sprintf("%s/hist-%d.txt", d, i), []byte(strings.Join(p.res.history, ";")), 0o644)
		}
		if !ok && badAt >= 0 {
			lo := badAt - 150
			if lo < 0 {
				lo = 0
			}
			detail += fmt.Sprintf(" rejected event #%d; events %d..%d: %s", badAt, lo, badAt, strings.Join(p.res.history[lo:badAt+1], ";"))
			var ctl []string // every SETTINGS / ack / new stream / reset up to there
			for _, e := range p.res.history[:badAt+1] {
				if strings.HasPrefix(e, "<s") || e == "A" || strings.HasPrefix(e, "H") || strings.HasPrefix(e, "R") || strings.HasPrefix(e, "<r") {
					ctl = append(ctl, e)
				}
			}
			if len(ctl) > 400 {
				ctl = ctl[len(ctl)-400:]
			}
			detail += " control: " + strings.Join(ctl, ";")
		} else if !ok {
			h := strings.Join(p.res.history, ";")
			if len(h) > 6000 {
				h = h[:3000] + " … " + h[len(h)-3000:]
			}
			detail += " history=" + h
		}
		s.Observe(fmt.Sprintf("monitor-%d-%s", i, p.cfg.name), ok, class, data >= 30, human, detail)
	}
	s.Finish()
}
