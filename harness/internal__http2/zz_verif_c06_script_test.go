//go:build verif

package http2

import (
	"fmt"
	"io"
	"log"
	"math"
	"math/rand"
	"os"
	"strings"
	"testing"
	"time"

	reqhttp2 "github.com/imroc/req/v3/http2"
	"github.com/imroc/req/v3/internal/verifh"
	xhttp2 "golang.org/x/net/http2"
)

// c06Op is one scripted operation; streams are named by the order in which they were opened.
type c06Op struct {
	kind   string // o f c r x ps pa pw pr pg ph pd pp pu
	s      int    // stream index (0-based), -1 = connection / literal id in a
	a, b   int
	flag   bool
	vals   []xhttp2.Setting
	rogue  bool   // the peer deliberately leaves the protocol here
	head   bool   // o: HEAD request
	trlp1  int    // o: 0 = no trailers, else 1 + the length of the trailer value
	status int    // ph: 0 = 200 for the first block / a trailer block afterwards, -1 = no :status, else literal
	clp1   int    // ph: 0 = no content-length, else 1 + its value
	cut    int    // oc: the request is cancelled after that many payload octets of its header block
	sub    string // h: the operation issued while the writer of stream s is parked in a DATA frame: x r c
	s2     int    // h: its stream index
	mid    bool   // h: park in the middle of what the writer can send (else after its first octet)
	pair   *c06Op // oo: the second request
	glue   bool   // ps: the frame leaves in one segment with the frame of the next peer operation
}

type c06Run struct {
	cfg        c06Cfg
	tokens     []string // the script as executed (with measured header block lengths)
	transcript []string // frames per operation
	history    []string // all events, for the monitor
	rogue      bool
	timeouts   int
	closedAt   int // index of the operation during which the client closed the connection, -1
	idleClose  bool
	creditOwed int64 // connection-level credit not returned at the end (0 when the connection was closed)
	human      string

	noForcedWake bool
	lostWakeups  []string // operations after which a RoundTrip that could go ahead was left asleep
	exactHits    int      // header / trailer blocks of exactly the targeted length (adaptive scripts)
	held         int      // operations issued while a writer was parked inside a DATA frame
	pairs        int      // pairs of requests opened with the delay hook
	lateHits     int      // ... that the client handled while the stream was still in cc.streams
	late         int      // DATA frames sent after Body.Close and before the stream's teardown
	glued        int      // SETTINGS frames sent in one segment with the next peer frame
	streamOwed   int64    // worst stream-level credit owed on a response that is still being read
	streamOwedAt uint32
}

// c06Exec runs a script on a fresh connection. gen, when non-nil, produces the next operation
// from what has been observed so far (nil = stop).
func c06Exec(t testing.TB, cfg c06Cfg, script []c06Op, gen func(e *c06Env, n int) *c06Op) (*c06Run, error) {
	return c06ExecMode(t, cfg, script, gen, false)
}

// c06ExecMode: noForcedWake = the wake-up lane (nobody broadcasts on cc.cond for the client).
func c06ExecMode(t testing.TB, cfg c06Cfg, script []c06Op, gen func(e *c06Env, n int) *c06Op, noForcedWake bool) (*c06Run, error) {
	e, err := c06NewEnv(t, cfg)
	if err != nil {
		return nil, err
	}
	defer e.shutdown()
	e.noForcedWake = noForcedWake
	run := &c06Run{cfg: cfg, closedAt: -1, noForcedWake: noForcedWake}
	// the connection preface (no PING yet: the client insists on SETTINGS first)
	want := 2
	for _, p := range cfg.prio {
		if p.StreamID != 0 && p.StreamID&(1<<31) == 0 {
			want++
		}
	}
	e.collect(func() bool { return len(e.cur) >= want }, c06Wait)
	run.transcript = append(run.transcript, e.take(false))
	id := func(op *c06Op) uint32 {
		if op.s < 0 {
			return uint32(op.a)
		}
		if op.s < len(e.order) {
			return e.order[op.s]
		}
		return 0
	}
	// a SETTINGS frame kept back (op.glue): its transcript entry is filled in once the segment has left
	glueIdx, glueIWS := -1, false
	unglue := func() {
		e.releaseGlue()
		run.transcript[glueIdx] = e.take(true)
		glueIdx = -1
	}
	for n := 0; ; n++ {
		var op *c06Op
		if n < len(script) {
			op = &script[n]
		} else if gen != nil {
			op = gen(e, n)
		}
		if glueIdx >= 0 {
			follows := false
			if op != nil {
				switch op.kind {
				case "pr", "pg", "pp", "ph", "pd", "pa":
					follows = !op.rogue
				case "pw": // (the peer's books for a stream window are only right once the ack was seen)
					follows = !op.rogue && (op.s < 0 || !glueIWS) && op.b > 0 && op.b < 1<<30
				}
			}
			if !follows {
				unglue()
				if n >= len(script) && gen != nil {
					op = gen(e, n) // chosen again, on the state with the SETTINGS frame acknowledged
				}
			}
		}
		if op == nil || e.closed {
			break
		}
		var tok string
		if op.rogue {
			run.rogue = true
		}
		e.curTok = fmt.Sprintf("#%d %s", len(run.tokens), op.kind)
		if op.kind == "ps" {
			// a SETTINGS frame that can raise the stream limit without touching INITIAL_WINDOW_SIZE:
			// MAX_CONCURRENT_STREAMS without INITIAL_WINDOW_SIZE, or the first SETTINGS frame without
			// MAX_CONCURRENT_STREAMS (the default of 1000 replaces the initial 100)
			mcs, iws := false, false
			for _, v := range op.vals {
				mcs = mcs || v.ID == xhttp2.SettingMaxConcurrentStreams
				iws = iws || v.ID == xhttp2.SettingInitialWindowSize
			}
			if !iws && (mcs || !e.settingsSent) {
				e.curTok += " limit-only"
			}
		}
		switch op.kind {
		case "o":
			tok = e.open(op.a, op.flag, op.b, c06Shape{head: op.head, trailer: op.trlp1 - 1})
			e.opened[len(e.opened)-1].tokIdx = len(run.tokens)
		case "oo":
			// two requests, the second started while the first sits between id allocation and its
			// HEADERS write: two plain opens for the model
			if e.pending != nil || op.pair == nil {
				break
			}
			toks, sts := e.openPair(*op, *op.pair)
			fs := e.take(true)
			var fa, fb []string
			for _, f := range strings.Split(fs, ",") {
				if sts[1].cs != nil && c06StreamOf(f) == int(sts[1].id) && f != "X" && f != "T" && f != "-" {
					fb = append(fb, f)
				} else if f != "-" {
					fa = append(fa, f)
				}
			}
			if len(fb) == 0 {
				fb = []string{"-"}
			}
			if len(fa) == 0 || fa[0] == "X" || fa[0] == "T" {
				fa = append([]string{"-"}, fa...)
			}
			sts[0].tokIdx, sts[1].tokIdx = len(run.tokens), len(run.tokens)+1
			run.tokens = append(run.tokens, toks[0], toks[1])
			run.transcript = append(run.transcript, strings.Join(fa, ","), strings.Join(fb, ","))
			run.pairs++
			continue
		case "tc":
			// the last feed of an upload with trailers, cancelled inside the trailer block (RoundTrip
			// still waiting for the response: the cancellation is noticed at once)
			if st := e.streams[id(op)]; st != nil && st.body != nil && !st.dead() && !st.aborted && st.released == st.recvd && st.phSent == 0 &&
				st.trailer > op.cut && op.cut >= 0 && e.pending == nil && e.lastFeed(st, op.a) {
				tok = e.feedCancel(st.id, op.a, op.cut)
			}
		case "oc":
			tok = e.openCancel(op.a, op.flag, op.b, c06Shape{head: op.head, trailer: op.trlp1 - 1}, op.cut)
			e.opened[len(e.opened)-1].tokIdx = len(run.tokens)
		case "h":
			st := e.streams[id(op)]
			var st2 *c06Stream
			if op.s2 >= 0 && op.s2 < len(e.order) {
				st2 = e.streams[e.order[op.s2]]
			}
			if st == nil || st2 == nil || st == st2 || e.pending != nil ||
				!(st.body != nil && !st.dead() && !st.aborted && st.released == st.recvd && st.body.remaining() > 0) {
				break
			}
			switch op.sub {
			case "r":
				if st2.res != nil && !st2.noBody && !st2.closedB && !st2.readErr && st2.buffered > 0 {
					tok = e.feedHeld(st.id, op.a, op.mid, "r", st2.id, op.b)
				}
			case "x":
				if st2.res != nil && !st2.closedB {
					tok = e.feedHeld(st.id, op.a, op.mid, "x", st2.id, op.b)
					if e.lateTok != "" {
						// two operations for the model: the close, then DATA on the forgotten stream; the
						// WINDOW_UPDATE that returns that frame's octets is the second one's
						fs := strings.Split(e.take(true), ",")
						second, wf := "-", fmt.Sprintf("W0+%d", e.lateW)
						for i, f := range fs {
							if f == wf {
								second = wf
								fs = append(fs[:i:i], fs[i+1:]...)
								break
							}
						}
						if len(fs) == 0 || fs[0] == "X" || fs[0] == "T" {
							fs = append([]string{"-"}, fs...)
						}
						run.tokens = append(run.tokens, tok, e.lateTok)
						run.transcript = append(run.transcript, strings.Join(fs, ","), second)
						run.late++
						continue
					}
				}
			case "c":
				tok = e.feedHeld(st.id, op.a, op.mid, "c", st2.id, 0)
			}
		case "f":
			if st := e.streams[id(op)]; st != nil && st.body != nil && !st.dead() && !st.aborted && st.released == st.recvd && st.body.remaining() > 0 {
				tok = e.feed(st.id, op.a)
			}
		case "c":
			if st := e.streams[id(op)]; st != nil {
				tok = e.cancelStream(st.id)
			}
		case "r":
			if st := e.streams[id(op)]; st != nil && st.res != nil && !st.noBody && !st.closedB && !st.readErr && st.buffered > 0 {
				tok = e.readBody(st.id, op.a)
			}
		case "x":
			if st := e.streams[id(op)]; st != nil && st.res != nil && !st.closedB {
				tok = e.closeBody(st.id)
			}
		case "ps":
			// (not glued when it raises INITIAL_WINDOW_SIZE: a writer it wakes up sends DATA that could
			// not be told from what the following frame sets off)
			raises := len(e.pendSettings) > 0
			for _, v := range op.vals {
				raises = raises || (v.ID == xhttp2.SettingInitialWindowSize && int64(v.Val) > e.initWin)
			}
			if op.glue && !raises && !op.rogue && c06SettingsValid(op.vals) && !e.holding && e.pending == nil && glueIdx < 0 {
				tok = e.peerSettingsHeld(op.vals)
				glueIdx, glueIWS = len(run.transcript), false
				for _, v := range op.vals {
					glueIWS = glueIWS || v.ID == xhttp2.SettingInitialWindowSize
				}
				run.tokens = append(run.tokens, tok)
				run.transcript = append(run.transcript, "?")
				run.glued++
				continue
			}
			tok = e.peerSettings(op.vals)
		case "pa":
			tok = e.peerAck()
		case "pw":
			tok = e.peerWindowUpdate(id(op), uint32(op.b))
		case "pr":
			tok = e.peerRst(id(op), uint32(op.b))
		case "pg":
			tok = e.peerGoAway(uint32(op.a))
		case "ph":
			status := op.status
			if status == 0 {
				status = 200
				if st := e.streams[id(op)]; st != nil && st.gotFinal {
					status = 0
				}
			} else if status < 0 {
				status = 0
			}
			tok = e.peerHeaders(id(op), op.flag, status, op.clp1-1)
		case "pp":
			tok = e.peerPing(op.flag)
		case "pu":
			tok = e.peerPushPromise(id(op), uint32(op.b))
		case "pd":
			tok = e.peerData(id(op), op.a, op.b, op.flag)
		}
		if tok == "" {
			if glueIdx >= 0 {
				unglue()
			}
			continue
		}
		wasClosed := run.closedAt >= 0
		run.tokens = append(run.tokens, tok)
		if glueIdx >= 0 {
			// one segment, two operations: the acknowledgement belongs to the SETTINGS frame, the rest
			// to the frame that followed it
			fs := strings.Split(e.take(true), ",")
			first := "-"
			for i, f := range fs {
				if f == "A" {
					first = "A"
					fs = append(fs[:i:i], fs[i+1:]...)
					break
				}
			}
			if len(fs) == 0 || fs[0] == "X" || fs[0] == "T" {
				fs = append([]string{"-"}, fs...)
			}
			run.transcript[glueIdx] = first
			glueIdx = -1
			run.transcript = append(run.transcript, strings.Join(fs, ","))
		} else {
			run.transcript = append(run.transcript, e.take(true))
		}
		if e.closed && !wasClosed {
			run.closedAt = len(run.tokens) - 1
			// closeOnIdle: the TCP close can be seen a moment before the last stream's donec closes
			if e.goAwaySent || e.noReuse {
				for i := 0; i < 200 && e.liveCount() > 0; i++ {
					time.Sleep(time.Millisecond)
				}
				run.idleClose = e.liveCount() == 0
				if !run.idleClose {
					for _, id := range e.order {
						if !e.streams[id].dead() {
							run.human += fmt.Sprintf(" [still live at close: %d]", id)
						}
					}
				}
			} else {
				run.human += fmt.Sprintf(" [closed without GOAWAY/doNotReuse: goAway=%v noReuse=%v]", e.goAwaySent, e.noReuse)
			}
		}
	}
	for _, st := range e.opened { // a RoundTrip that had to wait for a slot wrote its headers later
		run.tokens[st.tokIdx] = st.openToken()
	}
	run.history = append([]string{}, e.hist...)
	run.lostWakeups = append([]string{}, e.lostWakeups...)
	run.exactHits = e.exactHits
	run.held = e.heldCount
	run.lateHits = e.lateHits
	if !e.closed {
		run.streamOwed, run.streamOwedAt = e.streamCreditOwed()
	}
	run.timeouts = e.timeouts
	if !e.closed {
		run.creditOwed = e.creditOwed()
	}
	return run, nil
}

func (r *c06Run) line(fixes string) string {
	ops := "-"
	if len(r.tokens) > 0 {
		ops = strings.Join(r.tokens, ";")
	}
	return "c06script " + fixes + " " + r.cfg.line() + " " + ops
}

func (r *c06Run) monitorLine() string {
	h := "-"
	if len(r.history) > 0 {
		h = strings.Join(r.history, ";")
	}
	return "c06monitor 0 " + h
}

// the classes of the known defects, in the order of the fields of Fixes (the first four are
// repaired in /repo since round 2; 5-9 are the round-4 findings, fixes/C06-5..9)
var c06Classes = []string{"c06-caller-max-frame-size", "c06-stream-receive-window", "c06-even-stream-id", "c06-headers-priority-frame-size",
	"c06-overlong-response-credit", "c06-discarded-data-credit", "c06-trailers-frame-size", "c06-trailers-without-body", "c06-max-concurrent-wake"}

const c06AllFixes = "111111111"

// c06FixVariants: the repair vectors tried to classify a run that differs from the repaired
// model - every non-empty subset of the first four repairs switched off, and every non-empty
// subset of the last five.
func c06FixVariants() []string {
	var out []string
	for v := 14; v >= 0; v-- {
		out = append(out, fmt.Sprintf("%04b", v)+"11111")
	}
	for v := 30; v >= 0; v-- {
		out = append(out, "1111"+fmt.Sprintf("%05b", v))
	}
	return out
}

// c06Judge compares a batch of runs with the model and records them. A run that differs from
// the repaired model but equals the model with one or more repairs switched off is the known
// defect of that class; anything else is a plain disagreement.
func c06Judge(s *verifh.Session, runs []*c06Run) {
	var lines []string
	for _, r := range runs {
		lines = append(lines, r.line(c06AllFixes), r.monitorLine())
	}
	ans, err := verifh.RunModel(lines)
	if err != nil {
		s.Crash("driver", "", err.Error(), "")
		return
	}
	// second pass: legacy variants for the runs that differ
	type pend struct {
		run  int
		fix  string
		line int
	}
	var lines2 []string
	var pends []pend
	for i, r := range runs {
		if ans[2*i] != strings.Join(r.transcript, ";") {
			// a connection error (not an idle close) in the last operation: the read loop writes
			// GOAWAY unflushed, aborts every open stream and closes the socket; each aborted stream's
			// goroutine then races to write its RST_STREAM (whose flush carries the GOAWAY out) against
			// that close. Which of them reach the peer is the scheduler's choice and all of it is
			// legal: GOAWAY and RST_STREAMs the model does not have are dropped from that operation
			// (before anything is compared or classified).
			if canon, ok := c06DropTeardownFrames(r.transcript, strings.Split(ans[2*i], ";")); ok {
				s.Count("teardown-frames")
				r.transcript = strings.Split(canon, ";")
			}
		}
		if ans[2*i] == strings.Join(r.transcript, ";") {
			continue
		}
		for _, fix := range c06FixVariants() { // any match classifies; the one with the most repairs on wins
			pends = append(pends, pend{i, fix, len(lines2)})
			lines2 = append(lines2, r.line(fix))
		}
	}
	var ans2 []string
	if len(lines2) > 0 {
		ans2, err = verifh.RunModel(lines2)
		if err != nil {
			s.Crash("driver", "", err.Error(), "")
			return
		}
	}
	legacy := map[int]string{} // run -> matching fix vector with the most repairs on
	for _, p := range pends {
		if ans2[p.line] == strings.Join(runs[p.run].transcript, ";") {
			if cur, ok := legacy[p.run]; !ok || strings.Count(p.fix, "1") > strings.Count(cur, "1") {
				legacy[p.run] = p.fix
			}
		}
	}
	for i, r := range runs {
		impl := strings.Join(r.transcript, ";")
		if impl != ans[2*i] && c06TruncatedAtClose(strings.Split(impl, ";"), strings.Split(ans[2*i], ";")) {
			// safety net (expected count 0 since the lane waits for the frames of a normally
			// finished stream before its barrier PING): the client closed the connection (idle
			// close after GOAWAY / doNotReuse) in the last operation and the peer lost the tail of
			// what was in flight (a PING arriving at the closed socket resets the TCP connection):
			// what arrived is, per stream, a prefix of what the model emits, everything before is
			// equal. Nothing C06 determines differs.
			s.Count("close-truncated")
			r.human += " [close-truncated: " + impl + "]"
			if os.Getenv("VERIF_C06_DEBUG") != "" { // development aid
				fmt.Fprintf(os.Stderr, "close-truncated: %s\n impl  %s\n model %s\n", strings.Join(r.tokens, ";"), impl, ans[2*i])
			}
			impl = ans[2*i]
		}
		monitor := ans[2*i+1]
		unexpectedClose := r.closedAt >= 0 && !r.rogue && !r.idleClose
		// credit: at quiescence the client owes the peer less than inflowMinRefresh beyond what is
		// still unread (an independent reading of "credit is returned for every consumed byte")
		// (the same per response that is still being received and read, at stream level)
		creditOK := r.creditOwed >= 0 && r.creditOwed < 4096 && r.streamOwed < 4096
		if r.streamOwed >= 4096 {
			s.Count("stream-credit-owed")
			r.human += fmt.Sprintf(" [stream %d is owed %d octets of stream-level credit]", r.streamOwedAt, r.streamOwed)
		}
		for k := 0; k < r.held; k++ {
			s.Count("held-op")
		}
		for k := 0; k < r.pairs; k++ {
			s.Count("open-pair")
		}
		for k := 0; k < r.glued; k++ {
			s.Count("settings-glued-to-next-frame")
		}
		for k := 0; k < r.late; k++ {
			s.Count("data-after-close")
		}
		for k := 0; k < r.lateHits; k++ {
			s.Count("data-after-close-before-teardown")
		}
		for _, tok := range r.tokens {
			if strings.HasPrefix(tok, "ps:") {
				seen := map[string]bool{}
				for _, kv := range strings.Split(tok[3:], "/") {
					id := strings.SplitN(kv, "=", 2)[0]
					if seen[id] {
						s.Count("settings-repeated-id")
						break
					}
					seen[id] = true
				}
			}
		}
		if !creditOK {
			s.Count("credit-owed")
		}
		propOK := monitor == "ok" && !unexpectedClose && r.timeouts == 0 && creditOK && len(r.lostWakeups) == 0
		class := ""
		if fix, ok := legacy[i]; ok {
			for k := 0; k < len(c06Classes); k++ {
				if fix[k] == '0' {
					class = c06Classes[k]
					break
				}
			}
			s.Count("known-defect:" + class)
		} else if len(r.lostWakeups) > 0 && impl == ans[2*i] && c06AllLimitOnly(r.lostWakeups) {
			// the wake-up lane: frames as the repaired model has them (the lane woke the waiter
			// itself), but a RoundTrip that could go ahead had been left asleep - by a SETTINGS frame
			// that raised the stream limit and nothing else (any other lost wake-up is not this finding)
			class = c06Classes[8]
			s.Count("known-defect:" + class)
		}
		if class == "" && impl != ans[2*i] {
			// diagnostics for an unclassified disagreement: how close each repair vector came
			best, bestAt := "", -1
			for _, p := range pends {
				if p.run != i {
					continue
				}
				a, b := strings.Split(ans2[p.line], ";"), r.transcript
				at := 0
				for at < len(a) && at < len(b) && a[at] == b[at] {
					at++
				}
				if at > bestAt {
					best, bestAt = p.fix, at
				}
			}
			r.human += fmt.Sprintf(" [closest repair vector %s agrees on the first %d of %d operations]", best, bestAt, len(r.transcript))
		}
		if r.noForcedWake {
			s.Count("no-forced-wake")
		}
		if len(r.lostWakeups) > 0 {
			s.Count("lost-wakeup")
		}
		if monitor != "ok" {
			s.Count("monitor:" + monitor)
		}
		human := fmt.Sprintf("cfg=%s script=%s -> %s [monitor=%s close=%v timeouts=%d owed=%d lostWakeups=%v]%s", r.cfg.name, strings.Join(r.tokens, ";"), impl, monitor, r.closedAt, r.timeouts, r.creditOwed, r.lostWakeups, r.human)
		if len(human) > 1500 {
			human = human[:1500] + "…"
		}
		s.Case(r.line(c06AllFixes), impl, propOK, class, len(r.tokens) >= 4, human)
	}
}

func c06AllLimitOnly(toks []string) bool {
	for _, t := range toks {
		if !strings.HasSuffix(t, " limit-only") {
			return false
		}
	}
	return true
}

// c06DropTeardownFrames: both transcripts end with a connection close in their last operation;
// "G" and every "R<id>" that the model's last operation does not have are removed from the
// implementation's. Reports whether anything was removed.
func c06DropTeardownFrames(impl, model []string) (string, bool) {
	n := len(impl)
	if n == 0 || n != len(model) {
		return "", false
	}
	has := func(op, tok string) bool {
		for _, f := range strings.Split(op, ",") {
			if f == tok {
				return true
			}
		}
		return false
	}
	if !has(impl[n-1], "X") || !has(model[n-1], "X") {
		return "", false
	}
	var keep []string
	removed := false
	for _, f := range strings.Split(impl[n-1], ",") {
		if (f == "G" || (strings.HasPrefix(f, "R") && len(f) > 1)) && !has(model[n-1], f) {
			removed = true
			continue
		}
		keep = append(keep, f)
	}
	if !removed {
		return "", false
	}
	if len(keep) > 0 && keep[0] == "X" {
		keep = append([]string{"-"}, keep...) // the rendering of an operation without frames
	}
	out := append(append([]string{}, impl[:n-1]...), strings.Join(keep, ","))
	return strings.Join(out, ";"), true
}

// c06TruncatedAtClose: both transcripts are equal up to the last operation, both end in a
// connection close there, and per stream the implementation's frames of that operation are a
// prefix of the model's.
func c06TruncatedAtClose(impl, model []string) bool {
	n := len(impl)
	if n == 0 || n != len(model) {
		return false
	}
	for i := 0; i < n-1; i++ {
		if impl[i] != model[i] {
			return false
		}
	}
	split := func(op string) (map[int][]string, bool) {
		m := map[int][]string{}
		closed := false
		for _, f := range strings.Split(op, ",") {
			switch f {
			case "X":
				closed = true
			case "-", "T", "P":
			default:
				k := c06StreamOf(f)
				m[k] = append(m[k], f)
			}
		}
		return m, closed
	}
	a, ca := split(impl[n-1])
	b, cb := split(model[n-1])
	if !ca || !cb || strings.Contains(impl[n-1], ",T") {
		return false
	}
	for k, fa := range a {
		fb := b[k]
		if len(fa) > len(fb) {
			return false
		}
		for j := range fa {
			if fa[j] != fb[j] {
				return false
			}
		}
	}
	return true
}

// c06SettingsValid: no value a client must answer with a connection error.
func c06SettingsValid(vals []xhttp2.Setting) bool {
	for _, v := range vals {
		if (v.ID == xhttp2.SettingInitialWindowSize && v.Val > math.MaxInt32) ||
			(v.ID == xhttp2.SettingMaxFrameSize && (v.Val < 16384 || v.Val > 1<<24-1)) {
			return false
		}
	}
	return true
}

// c06Repeat: the class "a SETTINGS frame may name an identifier more than once; the values are
// applied in the order of the frame, the last one stands" (RFC 9113 section 6.5.3). Earlier
// occurrences of some of the frame's identifiers (legal values, the window ones no bigger than
// what the peer may grant) are put in front of / between the others.
func c06Repeat(r *rand.Rand, vals []xhttp2.Setting, maxIWS uint32) []xhttp2.Setting {
	if len(vals) == 0 || r.Intn(3) != 0 {
		return vals
	}
	out := append([]xhttp2.Setting{}, vals...)
	for k := 1 + r.Intn(2); k > 0; k-- {
		v := vals[r.Intn(len(vals))]
		switch v.ID {
		case xhttp2.SettingInitialWindowSize:
			w := verifh.Pick(r, []uint32{0, 1, 16, 100, 16384, 65535, 1 << 20, 1 << 24, math.MaxInt32})
			if w > maxIWS {
				w = maxIWS
			}
			v.Val = w
		case xhttp2.SettingMaxFrameSize:
			v.Val = verifh.Pick(r, []uint32{16384, 16385, 65536, 1 << 20, 1<<24 - 1})
		case xhttp2.SettingMaxConcurrentStreams:
			v.Val = verifh.Pick(r, []uint32{0, 1, 2, 100, 1000})
		}
		// somewhere before the last occurrence of that identifier
		last := 0
		for i, o := range out {
			if o.ID == v.ID {
				last = i
			}
		}
		at := r.Intn(last + 1)
		out = append(out[:at:at], append([]xhttp2.Setting{v}, out[at:]...)...)
	}
	return out
}

func c06Set(id xhttp2.SettingID, v uint32) xhttp2.Setting { return xhttp2.Setting{ID: id, Val: v} }

// c06Directed: fixed scripts around the boundaries the property names; they always run.
type c06Script struct {
	cfg    c06Cfg
	script []c06Op
	name   string
	nowake bool                          // run in the wake-up lane (no forced broadcast)
	gen    func(e *c06Env, n int) *c06Op // adaptive continuation of the script
}

func c06Directed() []c06Script {
	pre := c06Presets()
	def, chrome, firefox, safari := pre[0], pre[1], pre[2], pre[3]
	S := func(vals ...xhttp2.Setting) c06Op { return c06Op{kind: "ps", vals: vals} }
	open := func(body int, known bool, pad int) c06Op { return c06Op{kind: "o", a: body, flag: known, b: pad} }
	feed := func(s int) c06Op { return c06Op{kind: "f", s: s} }
	feedN := func(s, n int) c06Op { return c06Op{kind: "f", s: s, a: n} }
	wu := func(s int, inc int) c06Op {
		if s < 0 {
			return c06Op{kind: "pw", s: -1, a: 0, b: inc}
		}
		return c06Op{kind: "pw", s: s, b: inc}
	}
	ph := func(s int, end bool) c06Op { return c06Op{kind: "ph", s: s, flag: end} }
	pd := func(s, n, pad int, end bool) c06Op { return c06Op{kind: "pd", s: s, a: n, b: pad, flag: end} }
	rd := func(s, n int) c06Op { return c06Op{kind: "r", s: s, a: n} }
	var out []c06Script
	add := func(name string, cfg c06Cfg, ops ...c06Op) {
		out = append(out, c06Script{cfg: cfg, script: ops, name: name})
	}
	addNoWake := func(name string, cfg c06Cfg, ops ...c06Op) {
		out = append(out, c06Script{cfg: cfg, script: ops, name: name, nowake: true})
	}
	// request shapes and response kinds of round 4
	openHead := func() c06Op { return c06Op{kind: "o", flag: true, head: true} }
	openTrl := func(body int, known bool, trl int) c06Op {
		return c06Op{kind: "o", a: body, flag: known, trlp1: trl + 1}
	}
	resp := func(s int, end bool, status, cl int) c06Op {
		return c06Op{kind: "ph", s: s, flag: end, status: status, clp1: cl + 1}
	}
	ping := c06Op{kind: "pp"}
	closeB := func(s int) c06Op { return c06Op{kind: "x", s: s} }
	cancel := func(s int) c06Op { return c06Op{kind: "c", s: s} }
	rep := func(n int, ops ...c06Op) []c06Op {
		var l []c06Op
		for i := 0; i < n; i++ {
			l = append(l, ops...)
		}
		return l
	}
	cat := func(ls ...[]c06Op) []c06Op {
		var l []c06Op
		for _, x := range ls {
			l = append(l, x...)
		}
		return l
	}
	// 1. a peer that advertises nothing: 100000-byte upload in 16384-byte frames, window 65535
	add("defaults-upload", def, cat([]c06Op{S(), {kind: "pa"}, open(100000, true, 0)}, rep(5, feed(0)),
		[]c06Op{wu(-1, 100000), wu(0, 1), wu(0, 16384), wu(0, 100000), feed(0), feed(0), feed(0), ph(0, true)})...)
	// 2. the same with a caller fingerprint that advertises SETTINGS_MAX_FRAME_SIZE = 1 MiB
	big := c06Cfg{name: "caller-max-frame-1M", settings: []reqhttp2.Setting{{ID: reqhttp2.SettingMaxFrameSize, Val: 1 << 20}, {ID: reqhttp2.SettingInitialWindowSize, Val: 4 << 20}}}
	add("caller-max-frame", big, S(), open(100000, true, 0), feed(0), wu(-1, 100000), wu(0, 100000), feed(0), feed(0), feed(0), feed(0), feed(0), feed(0))
	// round 7: a SETTINGS frame that names an identifier more than once (applied in order, the last
	// one stands), before the first request and with an upload parked on its window
	iws := func(v uint32) xhttp2.Setting { return c06Set(xhttp2.SettingInitialWindowSize, v) }
	mcs := func(v uint32) xhttp2.Setting { return c06Set(xhttp2.SettingMaxConcurrentStreams, v) }
	mfs := func(v uint32) xhttp2.Setting { return c06Set(xhttp2.SettingMaxFrameSize, v) }
	add("settings-repeat-first", def, S(iws(1<<20), mcs(100), iws(16), mfs(65536), mfs(16384), mcs(1)), open(40000, true, 0), feed(0), open(0, true, 0),
		wu(0, 20000), feed(0), wu(0, 30000), feed(0), ph(0, true))
	add("settings-repeat-open", def, cat([]c06Op{S(), open(100000, true, 0)}, rep(5, feed(0)),
		[]c06Op{wu(-1, 100000), S(iws(1<<20), iws(65535+10)), S(iws(0), mfs(1<<20), iws(65535+20000), mfs(20000)), feed(0), S(iws(1<<20), iws(0)), feed(0), S(iws(0), iws(1<<20)), feed(0), feed(0)})...)
	// round 7: a SETTINGS frame in one segment with a frame whose handling writes nothing - the
	// acknowledgement must not wait for the client's next reason to write
	SG := func(vals ...xhttp2.Setting) c06Op { return c06Op{kind: "ps", vals: vals, glue: true} }
	add("settings-glued", def, SG(mcs(100)), wu(-1, 1000), open(0, true, 0), SG(iws(100)), ph(0, true), open(50000, true, 0), feed(1), SG(mfs(32768)), wu(1, 5),
		SG(), c06Op{kind: "pa"}, SG(iws(10)), c06Op{kind: "pr", s: 1, b: 8}, open(0, true, 0), SG(), ping, SG(), c06Op{kind: "pg", a: 5})
	// 3. Chrome preset: the peer sends 5 MiB on one stream, inside the advertised 6 MiB window,
	//    before the caller reads anything
	add("chrome-receive-window", chrome, cat([]c06Op{S(), open(0, true, 0), ph(0, false)}, rep(321, pd(0, 16384, 0, false)),
		[]c06Op{rd(0, 1<<20), rd(0, 8<<20), pd(0, 100, 0, true), rd(0, 1000)})...)
	// 4. a PRIORITY fingerprint naming an even stream
	even := c06Cfg{name: "prio-even", prio: []reqhttp2.PriorityFrame{{StreamID: 2, PriorityParam: reqhttp2.PriorityParam{Weight: 10}}}}
	add("prio-even", even, S(), open(0, true, 0), open(10, true, 0), feed(1), ph(0, true))
	zero := c06Cfg{name: "prio-descending", prio: []reqhttp2.PriorityFrame{{StreamID: 9, PriorityParam: reqhttp2.PriorityParam{Weight: 10}}, {StreamID: 4, PriorityParam: reqhttp2.PriorityParam{Weight: 1}}}}
	add("prio-descending-even", zero, S(), open(0, true, 0), open(0, true, 0))
	// 5. a header block larger than the frame size with a HEADERS priority attached (all three browsers)
	for _, c := range []c06Cfg{chrome, firefox, safari, def} {
		add("big-headers-"+c.name, c, S(), open(0, true, 20000), open(0, true, 16384-60), open(0, true, 40000),
			S(c06Set(xhttp2.SettingMaxFrameSize, 32768)), open(0, true, 40000), open(10, true, 32768+5))
	}
	// 6. INITIAL_WINDOW_SIZE down to zero and below, then up; window +-1
	add("negative-window", def, S(c06Set(xhttp2.SettingInitialWindowSize, 20000)), open(60000, true, 0), feed(0), feed(0),
		S(c06Set(xhttp2.SettingInitialWindowSize, 10000)), wu(0, 9999), wu(0, 1), wu(0, 1), wu(0, 2),
		S(c06Set(xhttp2.SettingInitialWindowSize, 0)), wu(0, 5), S(c06Set(xhttp2.SettingInitialWindowSize, 30001)), feed(0), feed(0), feed(0))
	for _, w := range []int{16383, 16384, 16385, 65534, 65536} {
		add(fmt.Sprintf("window-%d", w), def, S(c06Set(xhttp2.SettingInitialWindowSize, uint32(w))), open(w+1, true, 0), feed(0), feed(0), feed(0), feed(0), feed(0), wu(0, 1), open(w, false, 0), feedN(1, 0), feedN(1, 0), feedN(1, 0), feedN(1, 0), feedN(1, 0))
	}
	// 7. MAX_FRAME_SIZE raised and lowered in mid-upload
	add("frame-size-changes", def, S(c06Set(xhttp2.SettingInitialWindowSize, 1<<20), c06Set(xhttp2.SettingMaxFrameSize, 1<<20)), wu(-1, 1<<24),
		open(1500000, true, 0), feed(0), S(c06Set(xhttp2.SettingMaxFrameSize, 16384)), feed(0), feedN(0, 20000), S(c06Set(xhttp2.SettingMaxFrameSize, 16385)), feed(0),
		open(300000, false, 0), feed(1), S(c06Set(xhttp2.SettingMaxFrameSize, 1<<24-1)), feed(1), open(200000, true, 0), feed(2))
	// 8. MAX_CONCURRENT_STREAMS
	add("max-concurrent", def, S(c06Set(xhttp2.SettingMaxConcurrentStreams, 2)), open(0, true, 0), open(0, true, 0), open(0, true, 0), ph(0, true), open(0, true, 0),
		S(c06Set(xhttp2.SettingMaxConcurrentStreams, 1)), open(0, true, 0), ph(1, true), open(0, true, 0), ph(2, true), open(0, true, 0), S(c06Set(xhttp2.SettingMaxConcurrentStreams, 0)), ph(3, true), open(0, true, 0))
	strict := def
	strict.name, strict.strict = "default-strict", true
	add("max-concurrent-strict", strict, S(c06Set(xhttp2.SettingMaxConcurrentStreams, 1)), open(0, true, 0), open(0, true, 0), ph(0, true), open(5, true, 0), ph(1, true), feed(2))
	// 9. credit: reads around the refresh threshold, padding, close with unread data, data after cancel
	add("credit", def, S(), open(0, true, 0), ph(0, false), pd(0, 4095, 0, false), rd(0, 4095), pd(0, 1, 0, false), rd(0, 1), pd(0, 8192, 10, false), rd(0, 100), rd(0, 100000),
		pd(0, 16384, 256, false), pd(0, 16384, 1, false), c06Op{kind: "x", s: 0}, pd(0, 1000, 0, false), pd(0, 5000, 0, true),
		open(0, true, 0), ph(1, false), pd(1, 3000, 0, false), c06Op{kind: "c", s: 1}, rd(1, 100), pd(1, 2000, 0, false), rd(1, 5000))
	// 9b. several bodies read in small pieces, interleaved: the connection-level and the stream-level
	//     refresh thresholds are crossed at different Reads
	add("credit-interleaved", def, cat([]c06Op{S(), open(0, true, 0), open(0, true, 0), open(0, true, 0), ph(0, false), ph(1, false), ph(2, false),
		pd(0, 16384, 0, false), pd(0, 16384, 0, false), pd(1, 16384, 0, false), pd(1, 16384, 0, false), pd(2, 16384, 0, false)},
		rep(8, rd(0, 2048), rd(1, 2048)), rep(4, rd(0, 1000), rd(1, 3000), rd(2, 100), rd(0, 3000)), rep(3, rd(2, 4095), rd(1, 1), rd(0, 4095)))...)
	// 10. RST_STREAM and GOAWAY in mid-upload
	add("rst-goaway", def, S(), open(100000, true, 0), open(100000, true, 0), open(100000, false, 0), feed(0), c06Op{kind: "pr", s: 0, b: 8}, feed(1), c06Op{kind: "pg", s: -1, a: 3},
		wu(-1, 1<<20), wu(1, 1<<20), feed(1), feed(1), feed(1), feed(1), feed(1), feed(1), ph(1, true))
	// 11. WINDOW_UPDATE overflow: stream level resets the stream, connection level closes
	rogueWU := wu(-1, math.MaxInt32)
	rogueWU.rogue = true
	add("window-update-overflow", def, S(), open(10, true, 0), wu(0, math.MaxInt32-65535), open(10, true, 0), wu(1, math.MaxInt32-65534), feed(0), wu(-1, math.MaxInt32-65535), rogueWU)

	// 11b. the peer's own violations in a SETTINGS frame: MAX_FRAME_SIZE outside [2^14, 2^24),
	//      INITIAL_WINDOW_SIZE above 2^31-1 - a connection error, nothing applied is used any more
	for i, bad := range []xhttp2.Setting{c06Set(xhttp2.SettingMaxFrameSize, 16383), c06Set(xhttp2.SettingMaxFrameSize, 1<<24),
		c06Set(xhttp2.SettingMaxFrameSize, 0), c06Set(xhttp2.SettingInitialWindowSize, 1<<31)} {
		rogueS := c06Op{kind: "ps", vals: []xhttp2.Setting{c06Set(xhttp2.SettingMaxConcurrentStreams, 7), bad}, rogue: true}
		add(fmt.Sprintf("bad-settings-%d", i), def, S(), open(50000, true, 0), feed(0), rogueS)
	}
	add("bad-settings-first", def, c06Op{kind: "ps", vals: []xhttp2.Setting{c06Set(xhttp2.SettingMaxFrameSize, 100)}, rogue: true})

	// ---- round 4
	// 12. PING: acknowledged with the same octets, also between the frames of an upload; an
	//     acknowledgement nobody asked for is ignored
	add("ping", def, S(), ping, open(40000, true, 0), ping, feed(0), ping, c06Op{kind: "pp", flag: true}, feed(0), ping, ph(0, true), ping)
	add("ping-chrome", chrome, S(), ping, open(0, true, 0), ping)
	// 13. PUSH_PROMISE: refused with a connection error
	push := c06Op{kind: "pu", s: 0, b: 2, rogue: true}
	add("push-promise", def, S(), c06Op{kind: "pa"}, open(100, true, 0), push)
	add("push-promise-firefox", firefox, S(), c06Op{kind: "pa"}, open(0, true, 0), c06Op{kind: "pu", s: 0, b: 4, rogue: true})
	// 14. informational responses: skipped (also 100-continue in mid-upload); the sixth one and one
	//     with END_STREAM are stream errors; a block without :status is a stream error
	add("informational", def, S(), open(40000, true, 0), resp(0, false, 100, -1), feed(0), resp(0, false, 103, -1), feed(0), feed(0), resp(0, false, 200, -1), pd(0, 100, 0, true), rd(0, 1000),
		open(0, true, 0), resp(1, false, 103, -1), resp(1, false, 103, -1), resp(1, false, 103, -1), resp(1, false, 103, -1), resp(1, false, 103, -1), resp(1, false, 103, -1),
		open(0, true, 0), resp(2, true, 100, -1), open(0, true, 0), resp(3, false, -1, -1), open(0, true, 0), resp(4, false, 102, -1), pd(4, 5000, 0, false), ping)
	// 15. HEAD: the response never has a body; DATA with octets on it is a stream error whose frame
	//     still counts against the connection window
	add("head", def, S(), openHead(), resp(0, false, 200, 1234), pd(0, 0, 0, true), openHead(), resp(1, true, 200, -1), openHead(), resp(2, false, 200, -1), pd(2, 5000, 0, false),
		openHead(), resp(3, false, 200, -1), pd(3, 0, 7, false), pd(3, 5000, 0, true), openHead(), resp(4, false, 200, -1), pd(4, 4999, 1, false), ping)
	// 16. Content-Length: a response longer than declared - the Read that notices it aborts the
	//     stream; the octets it took out of the pipe are still owed to the peer (three times over)
	add("content-length-overlong", def, S(), open(0, true, 0), resp(0, false, 200, 10), pd(0, 5000, 0, false), rd(0, 8192), rd(0, 100), closeB(0),
		open(0, true, 0), resp(1, false, 200, 10), pd(1, 5000, 0, false), pd(1, 3000, 0, false), rd(1, 5), rd(1, 6000), closeB(1),
		open(0, true, 0), resp(2, false, 200, 4096), pd(2, 8000, 0, true), rd(2, 4096), rd(2, 1), closeB(2),
		open(0, true, 0), resp(3, false, 200, 5000), pd(3, 5000, 0, true), rd(3, 100000), ping)
	small := c06Cfg{name: "conn-flow-64k", connFlow: 65536}
	add("content-length-overlong-small-window", small, cat([]c06Op{S()}, rep(8, open(0, true, 0), resp(0, false, 200, 1), pd(0, 16000, 0, false), rd(0, 16000)))...)
	// 16b. a status that never has a body (204, 304) with a Content-Length and the stream left open:
	//      the declared length is not accounted (/repo 5224b93) - DATA that follows is read and
	//      credited like any other, no "more than declared" abort; END_STREAM on an empty DATA frame
	add("no-body-status-content-length", def, S(), open(0, true, 0), resp(0, false, 204, 10), pd(0, 5000, 0, false), rd(0, 8192), pd(0, 100, 0, true), rd(0, 1000),
		open(0, true, 0), resp(1, false, 304, 1234), pd(1, 0, 0, true), open(0, true, 0), resp(2, false, 304, 10), pd(2, 8192, 7, false), rd(2, 3000), rd(2, 100000), closeB(2),
		open(0, true, 0), resp(3, false, 204, 0), pd(3, 4096, 0, false), rd(3, 4096), pd(3, 0, 0, true), ping)
	// 17. DATA that is dropped with a stream error: after END_STREAM (upload still going), before the
	//     response HEADERS, after a 1xx only
	add("discarded-data", def, S(), open(100000, true, 0), feed(0), ph(0, true), pd(0, 5000, 0, false), open(0, true, 0), pd(1, 5000, 0, false),
		open(0, true, 0), resp(2, false, 100, -1), pd(2, 3000, 100, true), open(200000, true, 0), ph(3, true), pd(3, 100, 0, false), ping)
	add("discarded-data-small-window", small, cat([]c06Op{S()}, rep(9, open(0, true, 0), pd(0, 16000, 0, false)))...)
	// 18. request trailers: after the last DATA frame (which then has no END_STREAM), split by the
	//     frame size in force when they are written; a declared trailer without a value ends the
	//     stream with an empty DATA frame; known and unknown body length
	add("trailers", def, S(c06Set(xhttp2.SettingInitialWindowSize, 1<<20), c06Set(xhttp2.SettingMaxFrameSize, 1<<20)), openTrl(1000, false, 20000), feed(0),
		openTrl(70000, true, 10), feed(1), wu(-1, 1<<20), feed(1), openTrl(100, true, 0), feed(2), openTrl(0, false, 40000), ph(0, true), ping)
	add("trailers-frame-size-lowered", def, S(c06Set(xhttp2.SettingInitialWindowSize, 1<<20), c06Set(xhttp2.SettingMaxFrameSize, 1<<20)), wu(-1, 1<<20),
		openTrl(100000, true, 20000), feedN(0, 1000), S(c06Set(xhttp2.SettingMaxFrameSize, 16384)), feed(0), feed(0), feed(0), feed(0), feed(0), feed(0), feed(0),
		openTrl(5, false, 70000), S(c06Set(xhttp2.SettingMaxFrameSize, 32768)), feed(1), ping)
	add("trailers-chrome", chrome, S(c06Set(xhttp2.SettingMaxFrameSize, 65536)), openTrl(10, true, 30000), S(c06Set(xhttp2.SettingMaxFrameSize, 16384)), feed(0), openTrl(10, false, 16370), feed(1), ping)
	// 19. declared trailers on a request without a body: the stream has to end with its HEADERS
	add("trailers-without-body", def, S(c06Set(xhttp2.SettingMaxConcurrentStreams, 1)), openTrl(0, true, 5), ph(0, true), open(0, true, 0), ph(1, true), ping)
	// 20. the wake-up lane: nobody broadcasts for the client - every operation that frees a slot
	//     (or raises the limit) must wake the waiting RoundTrip itself
	addNoWake("wake-mcs-raised", strict, S(c06Set(xhttp2.SettingMaxConcurrentStreams, 0)), open(0, true, 0), S(c06Set(xhttp2.SettingMaxConcurrentStreams, 5)), ph(0, true),
		S(c06Set(xhttp2.SettingMaxConcurrentStreams, 1)), open(0, true, 0), open(10, true, 0), S(c06Set(xhttp2.SettingMaxConcurrentStreams, 2)), feed(2), ping)
	addNoWake("wake-mcs-raised-with-window", strict, S(c06Set(xhttp2.SettingMaxConcurrentStreams, 1)), open(0, true, 0), open(0, true, 0),
		S(c06Set(xhttp2.SettingMaxConcurrentStreams, 3), c06Set(xhttp2.SettingInitialWindowSize, 70000)), ping)
	addNoWake("wake-slot-freed", strict, S(c06Set(xhttp2.SettingMaxConcurrentStreams, 1)), open(0, true, 0), open(0, true, 0), ph(0, true), open(0, true, 0), c06Op{kind: "pr", s: 1, b: 8},
		open(100, true, 0), cancel(2), ph(3, false), pd(3, 10, 0, false), open(0, true, 0), feed(3), pd(3, 10, 0, true), open(0, true, 0), wu(4, 0), ping)
	// (before the peer's first SETTINGS frame the limit is 100; a first frame without
	// MAX_CONCURRENT_STREAMS raises it to the default of 1000: that must wake the 101st request)
	addNoWake("wake-first-settings-default", strict, cat(rep(100, open(0, true, 0)), []c06Op{open(0, true, 0), S(), ph(0, true), ping})...)
	addNoWake("wake-goaway", strict, S(c06Set(xhttp2.SettingMaxConcurrentStreams, 1)), open(0, true, 0), open(0, true, 0), c06Op{kind: "pg", s: -1, a: 1}, ph(0, true))
	// ---- round 5
	// 22. a request cancelled at every kind of point of a multi-frame header block: inside the
	//     first frame, at a frame boundary +-1, inside a CONTINUATION frame, one octet before the
	//     end; with and without a body / a HEADERS priority; two frame sizes. The block is written
	//     to its END_HEADERS whatever happens, RST_STREAM follows it
	oc := func(body int, known bool, pad, cut int) c06Op {
		return c06Op{kind: "oc", a: body, flag: known, b: pad, cut: cut}
	}
	for _, c := range []c06Cfg{def, chrome} {
		var ops []c06Op
		ops = append(ops, S())
		for _, cut := range []int{1, 16378, 16379, 16380, 16383, 16384, 16385, 20000, 32768, 32769, 49151, 49152, 49999} {
			ops = append(ops, oc(0, true, 50000, cut))
		}
		ops = append(ops, oc(100, true, 40000, 16384), oc(70000, false, 33000, 20000), c06Op{kind: "oc", a: 10, flag: true, b: 40000, trlp1: 6, cut: 32768},
			S(c06Set(xhttp2.SettingMaxFrameSize, 20000)), oc(0, true, 50000, 19995), oc(0, true, 50000, 20000), oc(0, false, 50000, 40001), oc(0, true, 20100, 20000), ping)
		add("cancel-in-header-block-"+c.name, c, ops...)
	}
	// 22b. the same inside the request's trailer block (the last body octets are written first)
	tc := func(s, cut int) c06Op { return c06Op{kind: "tc", s: s, cut: cut} }
	for _, c := range []c06Cfg{def, firefox} {
		var ops []c06Op
		ops = append(ops, S(c06Set(xhttp2.SettingInitialWindowSize, 1<<20)), wu(-1, 1<<20))
		for i, cut := range []int{0, 1, 16378, 16379, 16383, 16384, 16385, 32768, 39999} {
			ops = append(ops, openTrl(100+i, i%2 == 0, 40000), tc(i, cut))
		}
		ops = append(ops, openTrl(30000, true, 50000), feed(9), tc(9, 20000), ping)
		add("cancel-in-trailer-block-"+c.name, c, ops...)
	}
	// 23. Body.Close / Body.Read / cancel on one stream while another stream's body writer is parked
	//     in the middle of a DATA frame (cc.wmu held): Close at every state of the response - data
	//     unread, partly read, fully received (END_STREAM seen) and unread, nothing unread -; the
	//     credit is committed under cc.mu and the WINDOW_UPDATE has to wait for cc.wmu, not be dropped
	held := func(s int, sub string, s2, m int, mid bool) c06Op {
		return c06Op{kind: "h", s: s, sub: sub, s2: s2, b: m, mid: mid}
	}
	for _, c := range []c06Cfg{def, small} {
		add("held-close-"+c.name, c, S(c06Set(xhttp2.SettingInitialWindowSize, 1<<20)), wu(-1, 1<<20), open(400000, true, 0),
			open(0, true, 0), ph(1, false), pd(1, 16384, 0, false), pd(1, 5000, 0, false), held(0, "x", 1, 1, false),
			open(0, true, 0), ph(2, false), pd(2, 8192, 0, false), pd(2, 8192, 7, true), held(0, "x", 2, 0, true),
			open(0, true, 0), ph(3, false), pd(3, 16384, 0, false), held(0, "r", 3, 5000, false), held(0, "r", 3, 1000, true), held(0, "r", 3, 3000, false), held(0, "x", 3, 0, false),
			open(0, true, 0), ph(4, false), pd(4, 4095, 0, false), held(0, "x", 4, 0, true),
			open(0, true, 0), ph(5, false), pd(5, 6000, 0, false), rd(5, 6000), held(0, "x", 5, 1, false),
			open(0, true, 0), ph(6, false), held(0, "x", 6, 1, true), open(0, true, 0), ph(7, false), pd(7, 100, 0, false), held(0, "x", 7, 1, true),
			open(100, true, 0), held(0, "c", 8, 0, false),
			open(0, true, 0), ph(9, false), pd(9, 9000, 0, true), held(0, "r", 9, 100000, true),
			// several later requests still get through a peer that enforces its windows
			open(0, true, 0), ph(10, false), pd(10, 16384, 0, false), pd(10, 16384, 0, true), rd(10, 100000), ping)
	}
	// 24. a request queued for a MAX_CONCURRENT_STREAMS slot while the peer changes its SETTINGS:
	//     what the stream is opened with (send window, frame size, scratch buffer) is what is in
	//     force when it gets its slot, not when it was queued (forced and unforced wake-ups)
	for _, nw := range []bool{false, true} {
		f := add
		name := "queued-settings"
		if nw {
			f, name = addNoWake, "queued-settings-nowake"
		}
		f(name, strict, S(c06Set(xhttp2.SettingMaxConcurrentStreams, 1), c06Set(xhttp2.SettingInitialWindowSize, 65535)), wu(-1, 1<<20),
			open(0, true, 0), open(100000, true, 0), S(c06Set(xhttp2.SettingInitialWindowSize, 1000)), ph(0, true), feed(1), feed(1), wu(1, 100000), feed(1), c06Op{kind: "pr", s: 1, b: 8},
			open(0, true, 0), open(100000, false, 0), S(c06Set(xhttp2.SettingInitialWindowSize, 200000), c06Set(xhttp2.SettingMaxFrameSize, 65536)), S(c06Set(xhttp2.SettingMaxFrameSize, 32768)), ph(2, true), feed(3), feed(3), c06Op{kind: "pr", s: 3, b: 8},
			open(0, true, 0), open(50000, true, 40000), S(c06Set(xhttp2.SettingInitialWindowSize, 0), c06Set(xhttp2.SettingMaxFrameSize, 16384)), S(c06Set(xhttp2.SettingInitialWindowSize, 5)), ph(4, true), feed(5), feed(5), ping)
	}
	// 25. two requests, the second started while the first sits between stream id allocation and
	//     its HEADERS write: ids reach the wire in order, each block in one piece
	pair := func(a, b c06Op) c06Op { a.kind = "oo"; a.pair = &b; return a }
	for _, c := range []c06Cfg{def, firefox} {
		add("open-pair-"+c.name, c, S(), pair(open(0, true, 0), open(0, true, 0)), pair(open(100, true, 40000), open(0, true, 20000)), pair(open(0, true, 0), openHead()),
			pair(openTrl(10, true, 5), open(0, false, 0)), ph(0, true), ph(1, true), pair(open(0, true, 33000), open(0, true, 0)), ping)
	}
	// 21. header blocks and trailer blocks of exactly k frames (END_HEADERS on a full frame)
	for _, c := range []c06Cfg{def, chrome} {
		out = append(out, c06Script{cfg: c, name: "exact-header-blocks-" + c.name, gen: c06ExactBlocks(c)})
	}
	return out
}

// c06ExactBlocks: an adaptive script. It opens requests whose HPACK-encoded header block (and,
// in the second half, trailer block) is exactly limit-1, limit, limit+1, 2*limit ... octets long,
// where limit is what fits into the first frame under the peer's MAX_FRAME_SIZE (5 octets less
// when a HEADERS priority is attached): the padding is corrected from the length measured on
// the wire until the target is hit (the dynamic table settles after the first request).
func c06ExactBlocks(cfg c06Cfg) func(e *c06Env, n int) *c06Op {
	type goal struct {
		mf      uint32 // MAX_FRAME_SIZE to advertise first (0 = leave)
		target  int
		trailer bool
	}
	prio := 0
	if !cfg.hdrPrio.IsZero() {
		prio = 5
	}
	var goals []goal
	for _, mf := range []uint32{16384, 20000} {
		first := int(mf) - prio
		set := mf
		for _, t := range []int{first - 1, first, first + 1, first + int(mf), first + int(mf) + 1, first + 2*int(mf)} {
			goals = append(goals, goal{mf: set, target: t})
			set = 0
		}
		for _, t := range []int{first, first + int(mf)} {
			goals = append(goals, goal{target: t, trailer: true})
		}
	}
	gi, tries, guess := 0, 0, 0
	state := 0 // 0: settings, 1: open, 2: feed (trailers), 3: respond
	var last *c06Stream
	return func(e *c06Env, n int) *c06Op {
		if n == 0 {
			return &c06Op{kind: "ps"}
		}
		for gi < len(goals) {
			g := goals[gi]
			switch state {
			case 0:
				state = 1
				tries, guess = 0, g.target-80
				if g.mf != 0 {
					return &c06Op{kind: "ps", vals: []xhttp2.Setting{c06Set(xhttp2.SettingMaxFrameSize, g.mf), c06Set(xhttp2.SettingInitialWindowSize, 1<<20)}}
				}
			case 1:
				if last != nil { // correct the guess by what was measured
					got := last.hdrLen
					if g.trailer {
						got = last.trlLen
					}
					if got == g.target {
						e.exactHits++
						gi, state, last = gi+1, 0, nil
						continue
					}
					guess += g.target - got
					if tries >= 5 || guess < 1 {
						gi, state, last = gi+1, 0, nil // give up on this one (never seen)
						continue
					}
				}
				tries++
				if g.trailer {
					state = 2
					return &c06Op{kind: "o", a: 10, flag: true, trlp1: guess + 1}
				}
				state = 3
				return &c06Op{kind: "o", flag: true, b: guess}
			case 2:
				last = e.opened[len(e.opened)-1]
				state = 3
				return &c06Op{kind: "f", s: len(e.order) - 1}
			case 3:
				last = e.opened[len(e.opened)-1]
				state = 1
				return &c06Op{kind: "ph", s: len(e.order) - 1, flag: true}
			}
		}
		return nil
	}
}

// c06RandomCfg draws a caller fingerprint.
func c06RandomCfg(r *rand.Rand) c06Cfg {
	pre := c06Presets()
	switch r.Intn(10) {
	case 0, 1, 2:
		return pre[0]
	case 3:
		return pre[1]
	case 4:
		return pre[2]
	case 5:
		return pre[3]
	}
	c := c06Cfg{name: "random"}
	if r.Intn(4) != 0 {
		ids := []reqhttp2.SettingID{reqhttp2.SettingHeaderTableSize, reqhttp2.SettingEnablePush, reqhttp2.SettingMaxConcurrentStreams,
			reqhttp2.SettingInitialWindowSize, reqhttp2.SettingMaxFrameSize, reqhttp2.SettingMaxHeaderListSize, reqhttp2.SettingInitialWindowSize}
		r.Shuffle(len(ids), func(i, j int) { ids[i], ids[j] = ids[j], ids[i] })
		for _, id := range ids[:1+r.Intn(len(ids))] {
			var v uint32
			switch id {
			case reqhttp2.SettingHeaderTableSize:
				v = verifh.Pick(r, []uint32{0, 4096, 65536})
			case reqhttp2.SettingEnablePush:
				v = 0
			case reqhttp2.SettingMaxConcurrentStreams:
				v = verifh.Pick(r, []uint32{0, 100, 1000})
			case reqhttp2.SettingInitialWindowSize:
				v = verifh.Pick(r, []uint32{65535, 131072, 1 << 20, 4 << 20, 6291456, 16 << 20})
			case reqhttp2.SettingMaxFrameSize:
				v = verifh.Pick(r, []uint32{16384, 16384, 16385, 32768, 1 << 20, 1<<24 - 1})
			case reqhttp2.SettingMaxHeaderListSize:
				v = verifh.Pick(r, []uint32{16384, 262144})
			}
			c.settings = append(c.settings, reqhttp2.Setting{ID: id, Val: v})
		}
	}
	c.connFlow = verifh.Pick(r, []uint32{0, 0, 1, 65536, 1 << 20, 15663105, 1 << 30, math.MaxInt32 - 65535})
	switch r.Intn(6) {
	case 0:
		for _, id := range verifh.Pick(r, [][]uint32{{3}, {3, 5, 7}, {7, 3}, {2}, {5, 4}, {4, 9}, {1}, {101, 201}}) {
			c.prio = append(c.prio, reqhttp2.PriorityFrame{StreamID: id, PriorityParam: reqhttp2.PriorityParam{Weight: uint8(r.Intn(256))}})
		}
	}
	if r.Intn(3) == 0 {
		c.hdrPrio = reqhttp2.PriorityParam{StreamDep: uint32(r.Intn(3)) * 2, Exclusive: r.Intn(2) == 0, Weight: uint8(1 + r.Intn(255))}
	}
	c.strict = r.Intn(5) == 0
	return c
}

var c06Sizes = []int{0, 1, 100, 4096, 16383, 16384, 16385, 32768, 65534, 65535, 65536, 65537, 100000, 200000}

// c06Gen is the random script generator: every choice depends only on the PRNG and on what the
// peer and the caller have observed so far.
func c06Gen(r *rand.Rand, maxOps int) func(e *c06Env, n int) *c06Op {
	return func(e *c06Env, n int) *c06Op {
		if n == 0 { // the peer's SETTINGS must come first
			var vals []xhttp2.Setting
			if r.Intn(2) == 0 {
				vals = append(vals, c06Set(xhttp2.SettingInitialWindowSize, verifh.Pick(r, []uint32{0, 1, 100, 16384, 65535, 65536, 1 << 20, math.MaxInt32})))
			}
			if r.Intn(2) == 0 {
				vals = append(vals, c06Set(xhttp2.SettingMaxFrameSize, verifh.Pick(r, []uint32{16384, 16385, 32768, 65536, 1 << 20, 1<<24 - 1})))
			}
			if r.Intn(2) == 0 {
				vals = append(vals, c06Set(xhttp2.SettingMaxConcurrentStreams, verifh.Pick(r, []uint32{0, 1, 2, 3, 100})))
			}
			return &c06Op{kind: "ps", vals: c06Repeat(r, vals, math.MaxInt32), glue: r.Intn(3) == 0}
		}
		if n >= maxOps {
			return nil
		}
		// which streams can do what
		var feedable, respondable, dataable, readable, closable, live, cancellable, resettable, discardable, endable []int
		busy := false
		for i, id := range e.order {
			st := e.streams[id]
			alive := !st.dead() && !st.aborted
			if alive {
				live = append(live, i)
				if !st.gotFinal || st.endSeen {
					cancellable = append(cancellable, i)
				}
				if !(st.peerEnd && !st.endSeen) {
					resettable = append(resettable, i)
				}
				// DATA the client has to drop with a stream error: after the peer's END_STREAM while
				// the upload is still going, before the final response HEADERS, on a HEAD response
				if (st.peerEnd && !st.endSeen) || !st.gotFinal || (st.head && !st.peerEnd) {
					discardable = append(discardable, i)
				}
				if st.gotFinal && !st.peerEnd {
					endable = append(endable, i) // a trailer block / an empty DATA frame can end it
				}
			}
			if alive && st.body != nil && st.released > st.recvd {
				busy = true
			}
			if alive && st.body != nil && st.released == st.recvd && st.body.remaining() > 0 && !st.rstSeen {
				feedable = append(feedable, i)
			}
			if alive && !st.gotFinal {
				respondable = append(respondable, i)
			}
			if st.gotFinal && !st.peerEnd && !st.noBody && st.cs != nil {
				dataable = append(dataable, i) // also after the caller cancelled or closed: data in flight
			}
			if st.res != nil && !st.noBody && !st.closedB && !st.readErr && st.buffered > 0 {
				readable = append(readable, i)
			}
			if st.res != nil && !st.closedB {
				closable = append(closable, i)
			}
		}
		for try := 0; try < 20; try++ {
			switch k := r.Intn(100); {
			case k < 10:
				if len(e.order) >= 6 || len(e.opened) >= 9 || e.pending != nil {
					continue
				}
				pad := r.Intn(200)
				if r.Intn(6) == 0 {
					pad = verifh.Pick(r, []int{16300, 16384, 16500, 33000, 70000})
				}
				op := &c06Op{kind: "o", a: verifh.Pick(r, c06Sizes), flag: r.Intn(4) != 0, b: pad}
				switch r.Intn(10) {
				case 0:
					op.a, op.flag, op.head = 0, true, true // HEAD
				case 1, 2:
					op.trlp1 = 1 + verifh.Pick(r, []int{0, 5, 100, 16300, 16384, 20000, 40000}) // declared trailers (also without a body)
				}
				if r.Intn(8) == 0 && len(e.order) < 5 && !(e.cfg.strict && int64(e.liveCount())+1 >= e.slotLimit()) {
					second := c06Op{kind: "o", a: verifh.Pick(r, c06Sizes), flag: r.Intn(4) != 0, b: r.Intn(200)}
					op.kind, op.pair = "oo", &second
					return op
				}
				if pad >= 16300 && r.Intn(2) == 0 && !(e.cfg.strict && int64(e.liveCount()) >= e.slotLimit()) {
					// cancelled while the header block is being written: after 1 octet, around the frame
					// boundaries of the acknowledged MAX_FRAME_SIZE (with and without the 5 priority
					// octets), anywhere, one octet before the end of the padding field
					mf := int(e.maxFrame)
					cut := verifh.Pick(r, []int{1, mf - 6, mf - 5, mf - 1, mf, mf + 1, 2 * mf, 2*mf + 1, pad - 1, 1 + r.Intn(pad-1)})
					if cut >= 1 && cut < pad {
						op.kind, op.cut = "oc", cut
					}
				}
				return op
			case k < 38: // feed
				if len(feedable) == 0 || busy {
					continue
				}
				nn := 0
				if r.Intn(4) == 0 {
					nn = verifh.Pick(r, []int{1, 100, 8192, 16383, 16384})
				}
				fs := verifh.Pick(r, feedable)
				if st := e.streams[e.order[fs]]; st.trailer >= 16300 && st.phSent == 0 && e.pending == nil && e.lastFeed(st, nn) && r.Intn(2) == 0 {
					mf := int(e.maxFrame)
					cut := verifh.Pick(r, []int{0, 1, mf - 6, mf - 5, mf - 1, mf, mf + 1, 2 * mf, st.trailer - 1, r.Intn(st.trailer)})
					if cut >= 0 && cut < st.trailer {
						return &c06Op{kind: "tc", s: fs, a: nn, cut: cut}
					}
				}
				if r.Intn(3) == 0 && e.pending == nil {
					// an operation on another stream while this stream's writer is parked inside a DATA
					// frame (cc.wmu held): Body.Close at whatever state the response is in, Body.Read, cancel
					var cands []c06Op
					for _, i := range closable {
						if i != fs {
							cands = append(cands, c06Op{kind: "h", s: fs, a: nn, sub: "x", s2: i}, c06Op{kind: "h", s: fs, a: nn, sub: "x", s2: i, b: 1})
						}
					}
					for _, i := range readable {
						if i != fs {
							for rep := 0; rep < 3; rep++ {
								cands = append(cands, c06Op{kind: "h", s: fs, a: nn, sub: "r", s2: i, b: verifh.Pick(r, []int{1, 1000, 3000, 4096, 5000, 65536})})
							}
						}
					}
					for _, i := range cancellable {
						if i != fs {
							cands = append(cands, c06Op{kind: "h", s: fs, a: nn, sub: "c", s2: i})
						}
					}
					if len(cands) > 0 {
						op := verifh.Pick(r, cands)
						op.mid = r.Intn(2) == 0
						return &op
					}
				}
				return &c06Op{kind: "f", s: fs, a: nn}
			case k < 46:
				inc := verifh.Pick(r, []int{1, 2, 100, 16383, 16384, 16385, 65535, 100000, 1 << 20, 1 << 24})
				if r.Intn(3) == 0 || len(live) == 0 {
					if e.connWin+int64(inc) > math.MaxInt32 {
						continue
					}
					return &c06Op{kind: "pw", s: -1, a: 0, b: inc}
				}
				s := verifh.Pick(r, live)
				if r.Intn(30) == 0 {
					inc = math.MaxInt32 // stream-level overflow: the client must reset the stream
				}
				return &c06Op{kind: "pw", s: s, b: inc}
			case k < 53:
				var vals []xhttp2.Setting
				if r.Intn(3) != 0 {
					w := verifh.Pick(r, []uint32{0, 1, 100, 16383, 16384, 65535, 65536, 1 << 20, 1 << 24, math.MaxInt32})
					ok := true
					for _, st := range e.streams { // a conforming peer never pushes a window over 2^31-1
						if st.win+int64(w)-e.initWin > math.MaxInt32 {
							ok = false
						}
					}
					if ok && len(e.pendSettings) == 0 {
						vals = append(vals, c06Set(xhttp2.SettingInitialWindowSize, w))
					}
				}
				if r.Intn(3) == 0 {
					vals = append(vals, c06Set(xhttp2.SettingMaxFrameSize, verifh.Pick(r, []uint32{16384, 16385, 20000, 32768, 65536, 1 << 20, 1<<24 - 1})))
				}
				if r.Intn(3) == 0 {
					vals = append(vals, c06Set(xhttp2.SettingMaxConcurrentStreams, verifh.Pick(r, []uint32{0, 1, 2, 3, 100})))
				}
				if r.Intn(8) == 0 {
					vals = append(vals, c06Set(xhttp2.SettingHeaderTableSize, 4096), c06Set(xhttp2.SettingID(0x99), 7))
				}
				maxIWS := int64(math.MaxInt32) // an earlier occurrence must not push a window over 2^31-1 either
				for _, st := range e.streams {
					if m := math.MaxInt32 - st.win + e.initWin; m < maxIWS {
						maxIWS = m
					}
				}
				if maxIWS < 0 || len(e.pendSettings) > 0 {
					maxIWS = 0
				}
				return &c06Op{kind: "ps", vals: c06Repeat(r, vals, uint32(maxIWS)), glue: r.Intn(3) == 0}
			case k < 55:
				if e.acksSent > 0 {
					continue
				}
				return &c06Op{kind: "pa"}
			case k < 62:
				if len(respondable) == 0 {
					continue
				}
				op := &c06Op{kind: "ph", s: verifh.Pick(r, respondable), flag: r.Intn(3) == 0, status: 200}
				switch r.Intn(12) {
				case 0, 1:
					op.status, op.flag = verifh.Pick(r, []int{100, 103, 199}), r.Intn(10) == 0 // informational (rarely with END_STREAM: a stream error)
				case 2:
					op.status = verifh.Pick(r, []int{204, 304, 404, 99}) // still a final response: nothing in C06 depends on the code
					if op.status >= 300 {
						op.status = 200 // (a status above 299 stops the upload: C17's subject, not modelled here)
					}
				case 3:
					if r.Intn(4) == 0 {
						op.status = -1 // no :status: a stream error
					}
				}
				if op.status >= 200 && r.Intn(3) == 0 {
					op.clp1 = 1 + verifh.Pick(r, []int{0, 1, 10, 4096, 16384, 100000}) // declared Content-Length (often too small for what follows)
				}
				return op
			case k < 74:
				if len(dataable) == 0 {
					continue
				}
				s := verifh.Pick(r, dataable)
				st := e.streams[e.order[s]]
				nn := verifh.Pick(r, []int{1, 100, 4095, 4096, 4097, 8192, 16384})
				pad := 0
				if r.Intn(4) == 0 {
					pad = verifh.Pick(r, []int{1, 2, 100, 256})
				}
				if int64(nn+pad) > st.cwin || int64(nn+pad) > e.cConnWin {
					continue // a conforming peer stays inside the windows the client advertised
				}
				return &c06Op{kind: "pd", s: s, a: nn, b: pad, flag: r.Intn(5) == 0}
			case k < 76:
				// DATA the client must drop with a stream error - inside the windows it advertised
				if len(discardable) == 0 {
					continue
				}
				s := verifh.Pick(r, discardable)
				st := e.streams[e.order[s]]
				nn := verifh.Pick(r, []int{1, 100, 4095, 4096, 8192, 16384})
				pad := 0
				if r.Intn(4) == 0 {
					pad = verifh.Pick(r, []int{1, 100})
				}
				if int64(nn+pad) > st.cwin || int64(nn+pad) > e.cConnWin {
					continue
				}
				return &c06Op{kind: "pd", s: s, a: nn, b: pad, flag: r.Intn(4) == 0}
			case k < 78:
				return &c06Op{kind: "pp", flag: r.Intn(8) == 0}
			case k < 79:
				// the peer ends a response with a trailer block (rarely an illegal one: with a
				// pseudo-header or without END_STREAM - a connection error)
				if len(endable) == 0 {
					continue
				}
				op := &c06Op{kind: "ph", s: verifh.Pick(r, endable), flag: true, status: -1}
				if n >= maxOps/2 && r.Intn(8) == 0 {
					op.rogue = true
					if r.Intn(2) == 0 {
						op.status = 200
					} else {
						op.flag = false
					}
				}
				return op
			case k < 92:
				if len(readable) == 0 {
					continue
				}
				// (several bodies read in pieces below the 4096 refresh threshold: the connection's and
				// the streams' inflows then cross it at different Reads)
				return &c06Op{kind: "r", s: verifh.Pick(r, readable), a: verifh.Pick(r, []int{1, 100, 1000, 2048, 3000, 4095, 4096, 5000, 65536, 1 << 20})}
			case k < 94:
				if len(closable) == 0 {
					continue
				}
				return &c06Op{kind: "x", s: verifh.Pick(r, closable)}
			case k < 96:
				// a cancelled context is noticed at once while RoundTrip is still waiting for the
				// response or the request is fully written; a body writer blocked after RoundTrip
				// returned only notices it at its next wake-up (not modelled as a separate delay)
				if len(cancellable) == 0 {
					continue
				}
				return &c06Op{kind: "c", s: verifh.Pick(r, cancellable)}
			case k < 98:
				// after the peer's own END_STREAM the client may or may not answer a RST_STREAM with
				// RST_STREAM(NO_ERROR) (select between two ready channels): not scripted
				if len(resettable) == 0 {
					continue
				}
				return &c06Op{kind: "pr", s: verifh.Pick(r, resettable), b: verifh.Pick(r, []int{0, 7, 8, 1})}
			default:
				if e.goAwaySent || len(e.order) == 0 || n < maxOps/2 || r.Intn(2) == 0 {
					continue // GOAWAY ends most of what can still happen: late and rare
				}
				if r.Intn(6) == 0 && len(live) > 0 {
					return &c06Op{kind: "pu", s: verifh.Pick(r, live), b: 2 + 2*r.Intn(5), rogue: true} // PUSH_PROMISE: a connection error
				}
				return &c06Op{kind: "pg", s: -1, a: int(e.order[r.Intn(len(e.order))])}
			}
		}
		return nil
	}
}

// TestVerif_C06_script: one operation at a time to quiescence; the frames the real ClientConn
// emits per operation against the frames of the Lean connection model, and the recorded history
// against the Lean strict-peer monitor.
func TestVerif_C06_script(t *testing.T) {
	s := verifh.New(t, "C06", "script",
		"real ClientConn (Transport.NewClientConn, loopback TCP) against a frame-script peer (x/net/http2 Framer + hpack), one caller/peer operation at a time to quiescence; 62 directed scripts (body sizes around 16384/65535/window+-1, INITIAL_WINDOW_SIZE up/down/negative, MAX_FRAME_SIZE, MAX_CONCURRENT_STREAMS, WINDOW_UPDATE increments and overflow, RST_STREAM, GOAWAY, padding, reads around the 4096 refresh threshold, close with unread data, browser presets, caller fingerprints; round 5, through a gate between the ClientConn and the socket that parks the writer inside a frame write: a request cancelled after a chosen octet of its header / trailer block (oc, tc), Body.Close / Body.Read / cancel on one stream while another stream's writer holds cc.wmu inside a DATA frame (hx, hr, hc), two requests with the first held between id allocation and HEADERS (open pairs), requests queued for a stream slot across SETTINGS changes; round 7: SETTINGS frames that repeat identifiers (last one stands), SETTINGS sent in one segment with the next peer frame (acknowledged before any barrier PING), DATA sent after Body.Close while the stream's teardown waits for cc.wmu) + random scripts of up to 60 operations on default/Chrome/Firefox/Safari/random fingerprints; compared: per-operation frame list (type, stream, length, flags, settings, increments) with the Lean model; property oracle: Lean monitor verdict on the recorded history, no unexpected connection close, no stall, connection- and stream-level credit owed < 4096, no lost wake-up; non-trivial = at least 4 operations")
	log.SetOutput(io.Discard)
	s.OracleIndependent = true // DATA/WINDOW_UPDATE sizes are the implementation's choice, the monitor is the property
	var runs []*c06Run
	only := os.Getenv("VERIF_C06_ONLY") // development aid: run one directed script and print it
	for _, d := range c06Directed() {
		if only != "" && d.name != only {
			continue
		}
		run, err := c06ExecMode(t, d.cfg, d.script, d.gen, d.nowake)
		if err == nil && d.gen != nil {
			for i := 0; i < run.exactHits; i++ {
				s.Count("exact-block-hit")
			}
			if run.exactHits == 0 { // the lane must not pass vacuously
				s.Observe("coverage:"+d.name, false, "", false, "no header block of exactly k frames was produced", strings.Join(run.tokens, ";"))
			}
		}
		if only != "" {
			t.Logf("%s\n%s\n%s", run.line(c06AllFixes), strings.Join(run.transcript, ";"), strings.Join(run.history, ";"))
		}
		if err != nil {
			t.Fatalf("infrastructure: %v", err)
		}
		run.cfg.name = d.name + "/" + run.cfg.name
		runs = append(runs, run)
		s.Count("directed")
	}
	r := s.Rand()
	n := verifh.N(600, 8000)
	stalls := 0
	if only != "" {
		n = 0
	}
	for c := 0; c < n && stalls < 6; c++ {
		cfg := c06RandomCfg(r)
		nowake := cfg.strict && r.Intn(2) == 0 // the wake-up lane, for half of the strict fingerprints
		run, err := c06ExecMode(t, cfg, nil, c06Gen(r, 8+r.Intn(52)), nowake)
		if err != nil {
			t.Fatalf("infrastructure: %v", err)
		}
		runs = append(runs, run)
		s.Count("cfg:" + cfg.name)
		for _, tok := range run.tokens {
			s.Count("op:" + strings.SplitN(tok, ":", 2)[0])
		}
		if run.closedAt >= 0 {
			s.Count("closed")
		}
		if run.timeouts > 0 {
			stalls++
		}
	}
	c06Judge(s, runs)
	s.Finish()
}
