//go:build verif

package http2

import (
	"bytes"
	"context"
	"fmt"
	"io"
	"math/rand"
	"net/http"
	"net/url"
	"strings"
	"testing"

	"github.com/imroc/req/v3/internal/dump"
	"github.com/imroc/req/v3/internal/transport"
	"github.com/imroc/req/v3/internal/verifh"
	"golang.org/x/net/http2/hpack"
)

// ================================================================= lane h2sites
//
// The HTTP/2 dump call sites, each fed directly with a recording dumper, judged by the Lean
// model Req/Client/DumpSites.lean:
//   * ClientConn.encodeHeaders: header dump vs the field list the reference HPACK decoder
//     reads from the produced block (c13ghead);
//   * Framer.ReadFrame -> readMetaFrame over HEADERS + CONTINUATION frames: response-head dump
//     vs metaDump over the decoder events (c13gmeta).

type c13DumpOpts struct {
	out, qh, qb, rh, rb bytes.Buffer
	flags               [4]bool
}

func (o *c13DumpOpts) Output() io.Writer               { return &o.out }
func (o *c13DumpOpts) RequestHeaderOutput() io.Writer  { return &o.qh }
func (o *c13DumpOpts) RequestBodyOutput() io.Writer    { return &o.qb }
func (o *c13DumpOpts) ResponseHeaderOutput() io.Writer { return &o.rh }
func (o *c13DumpOpts) ResponseBodyOutput() io.Writer   { return &o.rb }
func (o *c13DumpOpts) RequestHeader() bool             { return o.flags[0] }
func (o *c13DumpOpts) RequestBody() bool               { return o.flags[1] }
func (o *c13DumpOpts) ResponseHeader() bool            { return o.flags[2] }
func (o *c13DumpOpts) ResponseBody() bool              { return o.flags[3] }
func (o *c13DumpOpts) Async() bool                     { return false }
func (o *c13DumpOpts) Clone() dump.Options             { return o }

func (o *c13DumpOpts) others(part int) int {
	n := o.out.Len()
	for i, b := range []*bytes.Buffer{&o.qh, &o.qb, &o.rh, &o.rb} {
		if i != part {
			n += b.Len()
		}
	}
	return n
}

func c13GenDumpOpts(r *rand.Rand) []*c13DumpOpts {
	var out []*c13DumpOpts
	for i := 0; i < 2; i++ {
		if r.Intn(3) == 0 {
			out = append(out, nil)
			continue
		}
		o := &c13DumpOpts{}
		for j := range o.flags {
			o.flags[j] = r.Intn(2) == 0
		}
		out = append(out, o)
	}
	return out
}

// c13PartDump checks that every dumper with the part on holds the same bytes in that part's
// writer, the others nothing, and that nothing went anywhere else; returns the common content.
func c13PartDump(ds []*c13DumpOpts, part int) (content string, on bool, why string) {
	first := true
	for _, o := range ds {
		if o == nil {
			continue
		}
		got := []*bytes.Buffer{&o.qh, &o.qb, &o.rh, &o.rb}[part].String()
		if o.others(part) != 0 {
			why += " [bytes written to a writer of another part]"
		}
		if !o.flags[part] {
			if got != "" {
				why += " [a dumper with the part off was handed bytes]"
			}
			continue
		}
		on = true
		if first {
			content, first = got, false
		} else if got != content {
			why += " [two dumpers hold different bytes]"
		}
	}
	return
}

func c13FieldsArg(fs [][2]string) string {
	if len(fs) == 0 {
		return "-"
	}
	parts := make([]string, len(fs))
	for i, f := range fs {
		parts[i] = verifh.Hex(f[0]) + ":" + verifh.Hex(f[1])
	}
	return strings.Join(parts, ",")
}

func c13Frame(t, flags byte, sid uint32, payload []byte) []byte {
	n := len(payload)
	b := []byte{byte(n >> 16), byte(n >> 8), byte(n), t, flags, byte(sid >> 24), byte(sid >> 16), byte(sid >> 8), byte(sid)}
	return append(b, payload...)
}

func c13HpackStr(b []byte, s string) []byte {
	n := len(s)
	if n < 127 {
		b = append(b, byte(n))
	} else {
		b = append(b, 127)
		n -= 127
		for n >= 128 {
			b = append(b, byte(n&0x7f)|0x80)
			n >>= 7
		}
		b = append(b, byte(n))
	}
	return append(b, s...)
}

func TestVerif_C13_h2sites(t *testing.T) {
	s := verifh.New(t, "C13", "h2sites",
		"HTTP/2 dump call sites with 0..2 recording dumpers (transport level + request level through the context), random part flags, a writer per part: (a) real ClientConn.encodeHeaders on requests with 0..12 headers (mixed-case and non-ASCII names, repeated and empty values, 300-byte values, cookies, trailers announcement, gzip, peer header-list limits that refuse the request): the request-header writers must hold exactly the Lean model's rendering (c13ghead) of the field list the reference HPACK decoder reads from the produced block, nothing when refused; (b) real Framer.ReadFrame/readMetaFrame over response header blocks (valid; bad names / values, pseudo after regular, over the header-list limit; literal HPACK encoding) cut at random offsets into HEADERS + 0..3 CONTINUATION frames, MaxHeaderListSize around the block size: the response-header writers must hold the model's metaDump (c13gmeta) over the decoder events per fragment, and the frame returned must be the same with and without dumpers; non-trivial = a block with at least 3 fields")
	r := s.Rand()
	need := map[string]int{}
	cnt := func(k string) { s.Count(k); need[k]++ }
	n := verifh.N(1500, 40000)
	for c := 0; c < n; c++ {
		// ---------------------------------------------------------------- (a) encodeHeaders
		ds := c13GenDumpOpts(r)
		cc := &ClientConn{peerMaxHeaderListSize: ^uint64(0)}
		if r.Intn(5) == 0 {
			cc.peerMaxHeaderListSize = uint64(verifh.Pick(r, []int{100, 200, 400, 1000}))
		}
		cc.henc = hpack.NewEncoder(&cc.hbuf)
		dec := hpack.NewDecoder(4096, nil)
		method := verifh.Pick(r, []string{"GET", "POST", "PUT", "HEAD", "CONNECT", "", "DELETE"})
		u, _ := url.Parse("https://" + verifh.Pick(r, []string{"example.com", "example.com:8443", "[::1]:8443"}) + verifh.Pick(r, []string{"/", "/a/b?q=1", "/%C3%A9", ""}))
		req := &http.Request{Method: method, URL: u, Header: http.Header{}}
		names := []string{"Accept", "accept-language", "X-Custom", "x-UPPER-lower", "Authorization", "X-Empty", "Content-Type", "Cookie", "User-Agent"}
		if r.Intn(25) == 0 {
			names = append(names, "X-é") // refused by header validation: nothing may be dumped
		}
		for i, k := 0, r.Intn(13); i < k; i++ {
			name := verifh.Pick(r, names)
			v := verifh.Pick(r, []string{"v", "", "a b;c=d", "a=1; b=2", strings.Repeat("x", 300), verifh.RandBytes(r, 1+r.Intn(20), "abcdefghijklmnopqrstuvwxyz0123456789-_ ")})
			req.Header[name] = append(req.Header[name], v)
		}
		ctx := context.Background()
		var dumps []*dump.Dumper
		for _, o := range ds {
			if o != nil {
				dumps = append(dumps, dump.NewDumper(o))
			}
		}
		var block []byte
		var eerr error
		gz := r.Intn(3) == 0
		trailers := verifh.Pick(r, []string{"", "", "X-T1,X-T2"})
		cl := int64(verifh.Pick(r, []int{0, 0, 1, 1234, -1}))
		if p, bad := verifh.Safely(func() { block, eerr = cc.encodeHeaders(req.WithContext(ctx), gz, trailers, cl, dumps) }); bad {
			s.Crash(fmt.Sprintf("h2sites enc #%d", c), fmt.Sprint(req.Header), p, "")
			continue
		}
		got, on, why := c13PartDump(ds, 0)
		var fields [][2]string
		if eerr == nil {
			hf, derr := dec.DecodeFull(append([]byte(nil), block...))
			if derr != nil {
				s.Crash(fmt.Sprintf("h2sites enc #%d", c), fmt.Sprint(req.Header), "reference decoder rejects the block: "+derr.Error(), "")
				continue
			}
			for _, f := range hf {
				fields = append(fields, [2]string{f.Name, f.Value})
			}
			cnt("encode-ok")
		} else {
			cnt("encode-refused")
		}
		ans := "wire=" + c13FieldsArg(fields) + " d=" + verifh.Hex(got)
		if on {
			cnt("request-header-dumped")
		}
		human := fmt.Sprintf("encodeHeaders %s %s hdr=%q gzip=%v trailers=%q cl=%d limit=%d err=%v dumpers=%s%s", method, u, req.Header, gz, trailers, cl, cc.peerMaxHeaderListSize, eerr, c13ShowDs(ds), why)
		// a refused request: the model gets no fields and no dump call happens
		line := fmt.Sprintf("c13ghead 1 %d %s", c13b(on && eerr == nil), c13FieldsArg(fields))
		s.Case(line, ans, why == "", "", len(fields) >= 7, human)

		// ---------------------------------------------------------------- (b) readMetaFrame
		ds = c13GenDumpOpts(r)
		type fld struct{ n, v string }
		var fs []fld
		fs = append(fs, fld{":status", verifh.Pick(r, []string{"200", "204", "404"})})
		regular := []string{"content-type", "server", "x-a", "x-b", "set-cookie", "content-length", "date", "x-long-name-0123456789"}
		for i, k := 0, r.Intn(8); i < k; i++ {
			v := verifh.RandBytes(r, r.Intn(14), "abcdefghijklmnopqrstuvwxyz0123456789 ;=/")
			if r.Intn(8) == 0 {
				v = strings.Repeat("v", verifh.Pick(r, []int{100, 127, 128, 300}))
			}
			fs = append(fs, fld{verifh.Pick(r, regular), v})
		}
		kind := "valid"
		switch r.Intn(10) {
		case 0:
			fs = append(fs, fld{":status", "200"}, fld{"x-after", "1"})
			kind = "pseudo-after-regular"
		case 1:
			fs = append(fs, fld{verifh.Pick(r, []string{"X-Upper", "x a", "x\x00"}), "1"}, fld{"x-after", "1"})
			kind = "bad-name"
		case 2:
			fs = append(fs, fld{"x-a", verifh.Pick(r, []string{"a\x00b", "a\nb", "\x7f"})}, fld{"x-after", "1"})
			kind = "bad-value"
		}
		total := 0
		var blk []byte
		for _, f := range fs {
			total += len(f.n) + len(f.v) + 32
			blk = append(blk, 0x00)
			blk = c13HpackStr(blk, f.n)
			blk = c13HpackStr(blk, f.v)
		}
		if r.Intn(14) == 0 && len(blk) > 2 {
			blk = blk[:len(blk)-1-r.Intn(2)]
			kind += "+cutblock"
		}
		maxList := uint32(verifh.Pick(r, []int{0, 0, 0, total, total + 1, total - 1, total / 2, 1, 40, 1 + r.Intn(400)}))
		if int32(maxList) < 0 {
			maxList = 1
		}
		var frags [][]byte
		rest := blk
		for i, k := 0, r.Intn(4); i < k; i++ {
			cut := 0
			if len(rest) > 0 {
				cut = r.Intn(len(rest) + 1)
			}
			frags = append(frags, rest[:cut])
			rest = rest[cut:]
		}
		frags = append(frags, rest)
		sid := uint32(1)
		var in []byte
		for i, fg := range frags {
			fl := byte(0)
			if i == len(frags)-1 {
				fl |= 4
			}
			if i == 0 {
				if r.Intn(2) == 0 {
					fl |= 1
				}
				in = append(in, c13Frame(1, fl, sid, fg)...)
			} else {
				in = append(in, c13Frame(9, fl, sid, fg)...)
			}
		}
		render := func(f Frame, err error) string {
			if err != nil {
				switch e := err.(type) {
				case ConnectionError:
					return fmt.Sprintf("conn:%d", uint32(e))
				case StreamError:
					return fmt.Sprintf("stream:%d", uint32(e.Code))
				}
				return "err:" + err.Error()
			}
			mh, ok := f.(*MetaHeadersFrame)
			if !ok {
				return fmt.Sprintf("frame:%T", f)
			}
			a := fmt.Sprintf("ok:%d", len(mh.Fields))
			if mh.Truncated {
				a += ":trunc"
			}
			return a
		}
		mk := func() *Framer {
			fk := NewFramer(nil, bytes.NewReader(in))
			fk.ReadMetaHeaders = hpack.NewDecoder(4096, nil)
			fk.MaxHeaderListSize = maxList
			return fk
		}
		var plain, dumped string
		if p, bad := verifh.Safely(func() { plain = render(mk().ReadFrame()) }); bad {
			s.Crash(fmt.Sprintf("h2sites meta #%d", c), kind, p, "")
			continue
		}
		fk := mk()
		mcc := &ClientConn{t: &Transport{Options: &transport.Options{}}, streams: map[uint32]*clientStream{}}
		rctx := context.Background()
		if ds[0] != nil {
			mcc.t.Options.Dump = dump.NewDumper(ds[0])
		}
		if ds[1] != nil {
			rctx = context.WithValue(rctx, dump.DumperKey, dump.NewDumper(ds[1]))
		}
		hreq, _ := http.NewRequestWithContext(rctx, "GET", "https://example.com/", nil)
		mcc.streams[sid] = &clientStream{currentRequest: hreq}
		fk.cc = mcc
		if p, bad := verifh.Safely(func() { dumped = render(fk.ReadFrame()) }); bad {
			s.Crash(fmt.Sprintf("h2sites meta #%d", c), kind, p, "")
			continue
		}
		got, on, why = c13PartDump(ds, 2)
		if plain != dumped {
			why += fmt.Sprintf(" [dumpers change what ReadFrame returns: %s vs %s]", plain, dumped)
		}
		// decoder events per fragment, from an independent decoder that always emits
		rdec := hpack.NewDecoder(4096, nil)
		ml := maxList
		if ml == 0 {
			ml = 16 << 20
		}
		rdec.SetMaxStringLength(int(ml))
		var evParts []string
		failed, closeErr := false, false
		for _, fg := range frags {
			var evs []string
			rdec.SetEmitFunc(func(hf hpack.HeaderField) { evs = append(evs, verifh.Hex(hf.Name)+":"+verifh.Hex(hf.Value)) })
			if !failed {
				if _, err := rdec.Write(fg); err != nil {
					evs = append(evs, "!")
					failed = true
				}
			}
			evParts = append(evParts, fmt.Sprintf("%d|%s", len(fg), strings.Join(evs, ",")))
		}
		if !failed {
			closeErr = rdec.Close() != nil
		}
		wantDump := got
		if !on {
			// no response-header dumper: the model still says what one would have been handed
			wantDump = ""
		}
		line = fmt.Sprintf("c13gmeta %d %d %s", maxList, c13b(closeErr), strings.Join(evParts, ";"))
		cnt("meta-" + strings.SplitN(dumped, ":", 2)[0])
		cnt("meta-kind-" + strings.SplitN(kind, "+", 2)[0])
		if strings.HasSuffix(dumped, ":trunc") {
			cnt("meta-truncated")
		}
		if on {
			cnt("response-header-dumped")
			s.Case(line, dumped+" d="+verifh.Hex(wantDump), why == "", "", len(fs) >= 3,
				fmt.Sprintf("readMetaFrame [%s] %d fields in %d fragments, MaxHeaderListSize=%d -> %s; dumpers=%s%s", kind, len(fs), len(frags), maxList, dumped, c13ShowDs(ds), why))
		} else if why != "" {
			s.Observe(fmt.Sprintf("h2sites meta #%d", c), false, "", false, kind+why, why)
		}
	}
	for _, b := range []string{"encode-ok", "encode-refused", "request-header-dumped", "response-header-dumped", "meta-ok", "meta-conn", "meta-stream", "meta-truncated", "meta-kind-bad-name", "meta-kind-bad-value", "meta-kind-pseudo-after-regular"} {
		if need[b] == 0 {
			t.Errorf("lane did not reach bucket %q", b)
		}
	}
	s.Finish()
}

func c13b(b bool) int {
	if b {
		return 1
	}
	return 0
}

func c13ShowDs(ds []*c13DumpOpts) string {
	var out []string
	for _, o := range ds {
		if o == nil {
			out = append(out, "-")
			continue
		}
		f := ""
		for i, n := range []string{"qh", "qb", "rh", "rb"} {
			if o.flags[i] {
				f += n + "+"
			}
		}
		out = append(out, "{"+strings.TrimSuffix(f, "+")+"}")
	}
	return strings.Join(out, ",")
}
