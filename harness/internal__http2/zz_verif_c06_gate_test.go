//go:build verif

package http2

// C06, round 5: operations that happen INSIDE somebody's frame write.
//
// The script lane drives one caller/peer operation at a time to quiescence, so every operation
// finds cc.wmu free and every header block goes out in one piece before anything else happens.
// Two families of schedules are invisible that way:
//
//   - a request cancelled while its (multi-frame) header block is being written: the writer holds
//     cc.wmu across HEADERS + CONTINUATION..., the cancellation arrives after `cut` octets of the
//     block have been handed to the connection (any frame boundary, any octet inside a frame);
//   - a caller operation on ANOTHER stream (Body.Close, Body.Read, cancel) issued while a body
//     writer is parked in the middle of a DATA frame write, i.e. while cc.wmu is held: the
//     operation does its bookkeeping under cc.mu and then has to wait for cc.wmu.
//
// c06Gate is a net.Conn wrapper between the ClientConn and the socket that follows the frame
// boundaries of what the client writes and can park the writer after a chosen number of payload
// octets of a chosen frame family. The property does not depend on where the writer is parked:
// the model executes the two operations one after the other (Req.H2.Cut: `XOp.openCancel`,
// `XOp.held`), the frames must be the same.

import (
	"fmt"
	"net"
	"sync"
	"time"
)

const (
	c06KindData  = 0 // DATA payload octets
	c06KindBlock = 1 // HEADERS / CONTINUATION payload octets
)

type c06Gate struct {
	net.Conn
	mu      sync.Mutex
	skip    int // octets of the client preface still to pass
	hdr     [9]byte
	hdrN    int
	payLeft int
	typ     byte
	armed   bool
	kind    int
	budget  int
	parked  bool
	parkedC chan struct{} // closed when a writer parks
	relC    chan struct{} // closed by disarm
}

func c06NewGate(c net.Conn) *c06Gate {
	return &c06Gate{Conn: c, skip: len(ClientPreface), parkedC: make(chan struct{}), relC: make(chan struct{})}
}

// arm: after `cut` more payload octets of frames of the given family the writer is parked
// before the next payload octet of such a frame (i.e. inside that frame's Write, cc.wmu held).
func (g *c06Gate) arm(kind, cut int) {
	g.mu.Lock()
	defer g.mu.Unlock()
	g.armed, g.kind, g.budget, g.parked = true, kind, cut, false
	g.parkedC, g.relC = make(chan struct{}), make(chan struct{})
}

// disarm releases a parked writer and lets everything through from now on.
func (g *c06Gate) disarm() {
	g.mu.Lock()
	defer g.mu.Unlock()
	if g.armed {
		g.armed = false
		close(g.relC)
	}
}

func (g *c06Gate) waitParked(d time.Duration) bool {
	g.mu.Lock()
	ch := g.parkedC
	g.mu.Unlock()
	select {
	case <-ch:
		return true
	case <-time.After(d):
		return false
	}
}

func (g *c06Gate) matches() bool {
	if g.kind == c06KindData {
		return g.typ == byte(FrameData)
	}
	return g.typ == byte(FrameHeaders) || g.typ == byte(FrameContinuation)
}

// admit: how many leading octets of p may pass now; a non-nil channel = park before the next one.
func (g *c06Gate) admit(p []byte) (int, chan struct{}) {
	g.mu.Lock()
	defer g.mu.Unlock()
	i := 0
	for i < len(p) {
		if g.skip > 0 {
			k := len(p) - i
			if g.skip < k {
				k = g.skip
			}
			g.skip -= k
			i += k
			continue
		}
		if g.payLeft == 0 {
			g.hdr[g.hdrN] = p[i]
			g.hdrN++
			i++
			if g.hdrN == 9 {
				g.payLeft = int(g.hdr[0])<<16 | int(g.hdr[1])<<8 | int(g.hdr[2])
				g.typ = g.hdr[3]
				g.hdrN = 0
			}
			continue
		}
		k := len(p) - i
		if g.payLeft < k {
			k = g.payLeft
		}
		if g.armed && g.matches() {
			if g.budget == 0 { // park inside this frame, before its next payload octet
				if !g.parked {
					g.parked = true
					close(g.parkedC)
				}
				return i, g.relC
			}
			if g.budget < k {
				k = g.budget
			}
			g.budget -= k
		}
		g.payLeft -= k
		i += k
	}
	return i, nil
}

func (g *c06Gate) Write(p []byte) (int, error) {
	total := 0
	for len(p) > 0 {
		n, wait := g.admit(p)
		if n > 0 {
			k, err := g.Conn.Write(p[:n])
			total += k
			if err != nil {
				return total, err
			}
			p = p[n:]
		}
		if wait != nil {
			<-wait
		}
	}
	return total, nil
}

// openCancel: RoundTrip of a request whose header block is longer than `cut` octets, cancelled
// when exactly `cut` payload octets of the block have reached the connection (the writer is
// parked there, holding cc.wmu); then the writer is let go. Token: the open token in its `oc`
// form (patched with the measured block length at the end of the run).
func (e *c06Env) openCancel(bodyLen int, known bool, padLen int, sh c06Shape, cut int) string {
	e.gate.arm(c06KindBlock, cut)
	defer e.gate.disarm()
	st := e.startRoundTrip(bodyLen, known, padLen, sh)
	st.cut = cut
	st.extended = true
	e.opened = append(e.opened, st)
	select {
	case cs := <-st.stCh:
		e.register(st, cs)
	case r := <-st.respCh:
		st.gotRes, st.res = true, r.res // refused: errClientConnUnusable
	case <-time.After(c06Wait):
		e.timeouts++
		e.cur = append(e.cur, "T")
	}
	if st.cs == nil {
		e.gate.disarm()
		st.cancel()
		e.afterOp(false)
		return st.openToken()
	}
	if !e.gate.waitParked(c06Wait) {
		e.timeouts++ // the block is longer than the cut by construction: the writer must get there
		e.cur = append(e.cur, "T")
	}
	st.aborted = true
	st.cancel()
	if !st.gotRes {
		select {
		case r := <-st.respCh: // RoundTrip returns the context's error
			st.gotRes, st.res = true, r.res
		case <-time.After(c06Wait):
			e.timeouts++
			e.cur = append(e.cur, "T")
		}
	}
	time.Sleep(time.Millisecond)
	e.gate.disarm()
	e.waitDone(st)
	e.afterOp(true)
	return st.openToken()
}

// holdBegin / holdMid: the sub-operation of a held feed. holdBegin remembers the connection's
// receive-window books; holdMid (called by the sub-operation right after it has started its
// goroutine) waits until the sub-operation has done its bookkeeping under cc.mu - it then needs
// cc.wmu, which the parked writer holds - and lets the writer go.
func (e *c06Env) holdBegin() {
	e.cc.mu.Lock()
	e.holdSnap = e.cc.inflow
	e.cc.mu.Unlock()
}

func (e *c06Env) holdMid(st *c06Stream) {
	if !e.holding {
		return
	}
	e.holding = false
	if st != nil && st.noBody && st.closedB == false && st.res != nil && st.res.Body == noBody {
		e.gate.disarm() // Close of http.NoBody: nothing happens in the connection
		return
	}
	deadline := time.Now().Add(100 * time.Millisecond)
	var abortedAt time.Time
	for time.Now().Before(deadline) {
		e.cc.mu.Lock()
		changed := e.cc.inflow != e.holdSnap
		e.cc.mu.Unlock()
		if changed {
			break
		}
		if st != nil && st.cs != nil {
			select {
			case <-st.cs.abort:
				if abortedAt.IsZero() {
					abortedAt = time.Now()
				}
			default:
			}
		}
		if !abortedAt.IsZero() && time.Since(abortedAt) > 5*time.Millisecond {
			break
		}
		time.Sleep(200 * time.Microsecond)
	}
	time.Sleep(2 * time.Millisecond)
	e.lateData(st)
	e.gate.disarm()
}

// lateData (round 7): the class "DATA that reaches the client after Response.Body.Close but before
// the stream has been torn down". The caller has closed the body of st, the stream's
// cleanupWriteRequest is waiting for cc.wmu behind the parked writer (its RST_STREAM is not out,
// the stream is still in cc.streams), and the peer - which cannot know - sends more DATA, inside
// the windows it was granted. The frame is sized so that the credit for it crosses the refresh
// threshold of flow.go: the connection-level WINDOW_UPDATE that returns it is this frame's and
// nobody else's. For the model: a DATA frame on a stream the client has forgotten (discarded,
// credited at connection level), reported as a pd operation of its own.
func (e *c06Env) lateData(st *c06Stream) {
	e.lateTok, e.lateW = "", 0
	if !e.lateWant || st == nil || st.cs == nil || st.noBody || !st.gotFinal || st.peerEnd || st.head || e.closed {
		return
	}
	e.cc.mu.Lock()
	_, in := e.cc.streams[st.id]
	snap := e.cc.inflow
	e.cc.mu.Unlock()
	n := int64(inflowMinRefresh) - int64(snap.unsent)
	if n < 1 {
		n = 1
	}
	room := st.cwin
	if e.cConnWin < room {
		room = e.cConnWin
	}
	if !in || n > room || n > 16384 {
		return
	}
	e.record(fmt.Sprintf("<d:%d:%d:0:0", st.id, n))
	e.fr.WriteData(st.id, false, c06Zeros[:n])
	e.cConnWin -= n
	e.cSent += n
	st.cwin -= n
	for deadline := time.Now().Add(200 * time.Millisecond); time.Now().Before(deadline); time.Sleep(200 * time.Microsecond) {
		e.cc.mu.Lock()
		changed := e.cc.inflow != snap
		e.cc.mu.Unlock()
		if changed {
			break
		}
	}
	e.cc.mu.Lock()
	_, in = e.cc.streams[st.id]
	e.cc.mu.Unlock()
	if in {
		e.lateHits++ // the frame was handled while the stream was still registered
	}
	e.lateTok, e.lateW = fmt.Sprintf("pd:%d:%d:0:0", st.id, n), int64(snap.unsent)+n
}

// feedHeld: the request body of stream `id` hands its writer the next chunk; the writer is
// parked inside its first DATA frame (after 1 octet, or in the middle of what it can send);
// the sub-operation (x = Body.Close, r = Body.Read of m octets, c = cancel) on stream `sid` is
// issued while the writer is parked; then the writer is let go.
func (e *c06Env) feedHeld(id uint32, n int, mid bool, sub string, sid uint32, m int) string {
	st := e.streams[id]
	defer e.gate.disarm()
	// by the peer's books: how much the writer is handed and how much of it it can send now
	k := int64(n)
	st.body.mu.Lock()
	lim, rem := int64(st.body.limit), int64(st.body.remain)
	st.body.mu.Unlock()
	if k == 0 || (lim > 0 && k > lim) {
		k = lim
	}
	if k > rem {
		k = rem
	}
	w := st.win
	if e.connWin < w {
		w = e.connWin
	}
	if k < w {
		w = k
	}
	armed := false
	if w > 0 {
		cut := int64(0) // before the first payload octet (the frame header is out)
		if mid {
			cut = w / 2
		}
		e.gate.arm(c06KindData, int(cut))
		armed = true
	}
	st.body.gate <- n
	select {
	case got := <-st.body.readDone:
		st.released += int64(got)
	case <-time.After(c06Wait):
		e.timeouts++
		e.cur = append(e.cur, "T")
	}
	e.holding = false
	if armed {
		e.holding = e.gate.waitParked(c06Wait)
		if e.holding {
			e.heldCount++
		} else {
			e.timeouts++ // window and octets to send by the peer's books: the writer must get there
			e.cur = append(e.cur, "T")
		}
	}
	e.holdBegin()
	var tok string
	switch sub {
	case "x":
		e.lateWant = m != 0
		e.lateTok, e.lateW = "", 0
		e.closeBody(sid)
		e.lateWant = false
		tok = fmt.Sprintf("hx:%d:%d:%d", id, n, sid)
	case "r":
		e.readBody(sid, m)
		tok = fmt.Sprintf("hr:%d:%d:%d:%d", id, n, sid, m)
	default:
		e.cancelStream(sid)
		tok = fmt.Sprintf("hc:%d:%d:%d", id, n, sid)
	}
	e.holding = false
	return tok
}

// streamCreditOwed: stream-level credit the client owes the peer at quiescence on responses that
// are still being received and read (by the peer's own books: octets sent on the stream minus
// stream-level WINDOW_UPDATEs minus what sits unread in the body). flow.go's refresh rule keeps
// it below inflowMinRefresh; credit committed to cs.inflow but never written shows up here.
func (e *c06Env) streamCreditOwed() (int64, uint32) {
	var worst int64
	var at uint32
	for _, id := range e.order {
		st := e.streams[id]
		if st.cs == nil || st.dead() || st.aborted || !st.gotFinal || st.peerEnd || st.noBody || st.closedB || st.readErr {
			continue
		}
		owed := e.cInitWin - st.cwin - st.buffered
		if owed > worst {
			worst, at = owed, id
		}
	}
	return worst, at
}

// openPair: two RoundTrips started one after the other; the first is held in the hook between
// its stream id allocation and its HEADERS write (writeRequest's streamf callback) while the
// second is started. reqHeaderMu covers id allocation AND header write, so the second one cannot
// get an id before the first one's HEADERS are out: ids reach the wire in order. Reported as two
// plain open operations (tokens / frames split by stream).
func (e *c06Env) openPair(a, b c06Op) (toks [2]string, sts [2]*c06Stream) {
	sa := e.startRoundTrip(a.a, a.flag, a.b, c06Shape{head: a.head, trailer: a.trlp1 - 1, delay: true})
	e.opened = append(e.opened, sa)
	sts[0] = sa
	released := false
	release := func() {
		if !released {
			released = true
			close(sa.hookGate)
		}
	}
	defer release()
	select {
	case cs := <-sa.stCh:
		e.register(sa, cs)
	case r := <-sa.respCh:
		sa.gotRes, sa.res = true, r.res
	case <-time.After(c06Wait):
		e.timeouts++
		e.cur = append(e.cur, "T")
	}
	sb := e.startRoundTrip(b.a, b.flag, b.b, c06Shape{head: b.head, trailer: b.trlp1 - 1})
	e.opened = append(e.opened, sb)
	sts[1] = sb
	// while the first request sits between id allocation and header write the second one must
	// not get anywhere; give it a moment to try
	if sa.cs != nil {
		select {
		case cs := <-sb.stCh:
			e.register(sb, cs)
			e.collect(func() bool { return sb.hdrDone }, 200*time.Millisecond)
		case <-time.After(15 * time.Millisecond):
		}
	}
	release()
	// (the second stream has to be known before any of its frames is booked)
	if sb.cs == nil {
		select {
		case cs := <-sb.stCh:
			e.register(sb, cs)
		case r := <-sb.respCh:
			sb.gotRes, sb.res = true, r.res
		case <-time.After(c06Wait):
			e.timeouts++
			e.cur = append(e.cur, "T")
		}
	}
	if sa.cs != nil {
		e.collect(func() bool { return sa.hdrDone }, c06Wait)
	}
	if sb.cs != nil {
		e.collect(func() bool { return sb.hdrDone }, c06Wait)
	}
	e.afterOp(false)
	toks[0], toks[1] = sa.openToken(), sb.openToken()
	return
}

// feedCancel: the request body of stream `id` (a request with trailers) hands its writer its last
// octets; the writer sends them (the windows allow it by the peer's books) and starts on the
// trailer block, where it is parked after `cut` payload octets; the request is cancelled; the
// writer is let go. The whole block must still go out, then RST_STREAM.
func (e *c06Env) feedCancel(id uint32, n, cut int) string {
	st := e.streams[id]
	e.gate.arm(c06KindBlock, cut)
	defer e.gate.disarm()
	st.body.gate <- n
	select {
	case got := <-st.body.readDone:
		st.released += int64(got)
	case <-time.After(c06Wait):
		e.timeouts++
		e.cur = append(e.cur, "T")
	}
	if !e.gate.waitParked(c06Wait) {
		e.timeouts++ // the trailer block is longer than the cut by construction
		e.cur = append(e.cur, "T")
	}
	live := !st.dead()
	st.aborted = true
	st.cancel()
	if !st.gotRes {
		select {
		case r := <-st.respCh:
			st.gotRes, st.res = true, r.res
		case <-time.After(c06Wait):
			e.timeouts++
			e.cur = append(e.cur, "T")
		}
	}
	time.Sleep(time.Millisecond)
	e.gate.disarm()
	e.waitDone(st)
	e.afterOp(live)
	return fmt.Sprintf("tc:%d:%d:%d", id, n, cut)
}

// lastFeed: by the peer's books, would a feed of n octets hand the writer the rest of the body
// and could the writer send all of it now?
func (e *c06Env) lastFeed(st *c06Stream, n int) bool {
	k := int64(n)
	st.body.mu.Lock()
	lim, rem := int64(st.body.limit), int64(st.body.remain)
	st.body.mu.Unlock()
	if k == 0 || (lim > 0 && k > lim) {
		k = lim
	}
	if k < rem || rem == 0 {
		return false
	}
	w := st.win
	if e.connWin < w {
		w = e.connWin
	}
	return w >= rem
}
