//go:build verif

package http2

// C01 lane h2body: the real ClientConn (Transport.NewClientConn over loopback TCP) uploads a
// request body read from a scripted reader to a frame-script peer (golang.org/x/net/http2 Framer)
// that fixes SETTINGS_INITIAL_WINDOW_SIZE / SETTINGS_MAX_FRAME_SIZE and hands out flow-control
// window in generated increments, always exactly when the window it granted so far is used up —
// so the window the client sees at every `awaitFlowControl` is determined by the peer's books.
// The (length, END_STREAM) sequence, the reassembled payload, the outcome and the scratch-buffer
// length are compared with the Lean model `Req.H2.BodyWrite.writeBody`.

import (
	"bytes"
	"context"
	"errors"
	"fmt"
	"io"
	"math/rand"
	"net"
	"net/http"
	"strings"
	"testing"
	"time"

	"github.com/imroc/req/v3/internal/transport"
	"github.com/imroc/req/v3/internal/verifh"
	xhttp2 "golang.org/x/net/http2"
	"golang.org/x/net/http2/hpack"
)

type c01H2BodyCase struct {
	n, ga, gb int // body = gen.<n>.<ga>.<gb>
	sizes     []int
	ending    string
	cl        int64 // declared content length, -1 = none
	trailers  int   // 0 none, 1 a trailer block, 2 req.Trailer non-nil but empty
	w0        uint32
	connExtra uint32
	mf        uint32 // 0 = leave the default
	grants    []int
	finite    bool // the grants are NOT repeated: the writer ends up blocked
}

func (tc *c01H2BodyCase) human() string {
	return fmt.Sprintf("body=%d sizes=%v ending=%s cl=%d trailers=%d w0=%d connExtra=%d maxFrame=%d grants=%v finite=%v",
		tc.n, tc.sizes, tc.ending, tc.cl, tc.trailers, tc.w0, tc.connExtra, tc.mf, tc.grants, tc.finite)
}

func c01GenH2Body(r *rand.Rand, i int) *c01H2BodyCase {
	// the body reader and the declared length come from the ONE generator shared by the three body
	// lanes (verifh.C01GenReaderScript / C01GenDeclared)
	sc := verifh.C01GenReaderScript(r, []int{0, 1, 2, 100, 4095, 4096, 4097, 16383, 16384, 16385, 32768, 65535, 65536, 65537, 100 << 10}, 70000,
		[]int{512, 4096, 16384, 40000, 1 << 20})
	if verifh.Thorough() && i%50 == 0 {
		sc.N = 1<<20 + r.Intn(3) - 1
	}
	tc := &c01H2BodyCase{n: sc.N, ga: sc.Ga, gb: sc.Gb, sizes: sc.Sizes, ending: sc.Ending}
	tc.cl, _ = verifh.C01GenDeclared(r, tc.n)
	tc.trailers = verifh.Pick(r, []int{0, 0, 0, 0, 0, 0, 1, 1, 2})
	tc.w0 = verifh.Pick(r, []uint32{0, 1, 100, 1000, 16383, 16384, 16385, 65535, 65535, 65536, 1 << 20, 1 << 30})
	tc.connExtra = verifh.Pick(r, []uint32{0, 0, 1 << 20, 1 << 30})
	tc.mf = verifh.Pick(r, []uint32{0, 0, 16384, 16385, 20000, 32768, 65536, 1 << 20, 1<<24 - 1})
	minGrant := tc.n / 400
	for k, m := 0, 1+r.Intn(4); k < m; k++ {
		g := verifh.Pick(r, []int{1, 7, 100, 1000, 16383, 16384, 16385, 65535, 1 << 20})
		if g < minGrant {
			g = minGrant + 1
		}
		tc.grants = append(tc.grants, g)
	}
	if tc.w0 < uint32(minGrant) {
		tc.w0 = uint32(minGrant) + 1
	}
	// a blocked writer: honest reader, fewer bytes of window than the body has
	if i%12 == 5 && tc.n > 10 && (tc.ending == "eof" || tc.ending == "eofl") && (tc.cl == -1 || tc.cl == int64(tc.n)) {
		total := int(tc.w0)
		if c := 65535 + int(tc.connExtra); c < total {
			total = c
		}
		var gs []int
		for _, g := range tc.grants {
			if total+g < tc.n {
				gs = append(gs, g)
				total += g
			}
		}
		if total < tc.n {
			tc.grants, tc.finite = gs, true
		}
	}
	return tc
}

type c01H2BodyObs struct {
	frames  []string // "len:e" | "T"
	lens    []int
	avails  []int
	payload []byte
	outcome string
	bufLen  int
	rtErr   error
	extra   string
	harness string // the harness's own time limit was hit (why): infrastructure, the case is skipped and counted
}

func c01RunH2Body(tc *c01H2BodyCase) (*c01H2BodyObs, error) {
	ln, err := net.Listen("tcp", "127.0.0.1:0")
	if err != nil {
		return nil, err
	}
	defer ln.Close()
	type acc struct {
		c   net.Conn
		err error
	}
	ach := make(chan acc, 1)
	go func() {
		c, err := ln.Accept()
		ach <- acc{c, err}
	}()
	cli, err := net.Dial("tcp", ln.Addr().String())
	if err != nil {
		return nil, err
	}
	a := <-ach
	if a.err != nil {
		cli.Close()
		return nil, a.err
	}
	srv := a.c
	defer srv.Close()
	tr := &Transport{Options: &transport.Options{DisableCompression: true}}
	cc, err := tr.NewClientConn(cli)
	if err != nil {
		return nil, err
	}
	defer cc.Close()
	srv.SetDeadline(time.Now().Add(90 * time.Second))
	pre := make([]byte, len(xhttp2.ClientPreface))
	if _, err := io.ReadFull(srv, pre); err != nil || string(pre) != xhttp2.ClientPreface {
		return nil, fmt.Errorf("preface: %v", err)
	}
	fr := xhttp2.NewFramer(srv, srv)
	fr.ReadMetaHeaders = hpack.NewDecoder(65536, nil)
	fr.SetMaxReadFrameSize(1<<24 - 1)
	// the first SETTINGS frame is empty; the connection-level increment comes before the second
	// one, so that the acknowledgement of the second tells that everything was applied
	fr.WriteSettings()
	if tc.connExtra > 0 {
		fr.WriteWindowUpdate(0, tc.connExtra)
	}
	st := []xhttp2.Setting{{ID: xhttp2.SettingInitialWindowSize, Val: tc.w0}}
	mf := uint32(16384)
	if tc.mf != 0 {
		st = append(st, xhttp2.Setting{ID: xhttp2.SettingMaxFrameSize, Val: tc.mf})
		mf = tc.mf
	}
	fr.WriteSettings(st...)
	for acks := 0; acks < 2; {
		f, err := fr.ReadFrame()
		if err != nil {
			return nil, fmt.Errorf("handshake: %v", err)
		}
		if sf, ok := f.(*xhttp2.SettingsFrame); ok {
			if sf.IsAck() {
				acks++
			} else {
				fr.WriteSettingsAck()
			}
		}
	}

	body := &verifh.C01BodyReader{Data: verifh.C01GenBody(tc.n, tc.ga, tc.gb), Sizes: tc.sizes, Ending: tc.ending}
	want := append([]byte(nil), body.Data...)
	ctx, cancel := context.WithCancel(context.Background())
	defer cancel()
	req, err := http.NewRequestWithContext(ctx, "POST", "https://verif.test/upload", body)
	if err != nil {
		return nil, err
	}
	if tc.cl >= 0 {
		req.ContentLength = tc.cl
	}
	switch tc.trailers {
	case 1:
		req.Trailer = http.Header{"X-T": {"v"}}
	case 2:
		req.Trailer = http.Header{}
	}
	rtDone := make(chan error, 1)
	go func() {
		res, err := cc.RoundTrip(req)
		if res != nil && res.Body != nil {
			res.Body.Close()
		}
		rtDone <- err
	}()

	obs := &c01H2BodyObs{}
	sw, cw := int64(tc.w0), int64(65535)+int64(tc.connExtra)
	gi := 0
	var streamID uint32
	gotHeaders := false
	grant := func() bool { // hand out window while none is left; false = no grant left
		for sw <= 0 || cw <= 0 {
			if len(tc.grants) == 0 || (tc.finite && gi >= len(tc.grants)) {
				return false
			}
			g := int64(tc.grants[gi%len(tc.grants)])
			gi++
			if cw <= 0 {
				fr.WriteWindowUpdate(0, uint32(g))
				cw += g
			}
			if sw <= 0 {
				fr.WriteWindowUpdate(streamID, uint32(g))
				sw += g
			}
		}
		return true
	}
	respond := func() {
		var hb bytes.Buffer
		enc := hpack.NewEncoder(&hb)
		enc.WriteField(hpack.HeaderField{Name: ":status", Value: "200"})
		fr.WriteHeaders(xhttp2.HeadersFrameParam{StreamID: streamID, BlockFragment: hb.Bytes(), EndHeaders: true, EndStream: true})
	}
loop:
	for {
		f, err := fr.ReadFrame()
		if err != nil {
			obs.outcome = "stall:" + err.Error()
			if c01IsTimeout(err) {
				obs.harness = "the frame-script peer's read deadline passed: " + err.Error()
			}
			break
		}
		switch f := f.(type) {
		case *xhttp2.SettingsFrame:
			if !f.IsAck() {
				fr.WriteSettingsAck()
			}
		case *xhttp2.PingFrame:
			if !f.IsAck() {
				fr.WritePing(true, f.Data)
			}
		case *xhttp2.MetaHeadersFrame:
			if !gotHeaders {
				gotHeaders = true
				streamID = f.StreamID
				if f.StreamEnded() {
					obs.outcome = "done"
					obs.extra = "END_STREAM on the request HEADERS"
					respond()
					break loop
				}
			} else {
				obs.frames = append(obs.frames, "T")
				if f.StreamEnded() {
					obs.outcome = "done"
					respond()
					break loop
				}
				obs.extra = "trailers without END_STREAM"
			}
		case *xhttp2.DataFrame:
			n := len(f.Data())
			e := 0
			if f.StreamEnded() {
				e = 1
			}
			obs.frames = append(obs.frames, fmt.Sprintf("%d:%d", n, e))
			obs.payload = append(obs.payload, f.Data()...)
			if n > 0 {
				av := sw
				if cw < av {
					av = cw
				}
				obs.avails = append(obs.avails, int(av))
				obs.lens = append(obs.lens, n)
				sw -= int64(n)
				cw -= int64(n)
			}
			if f.StreamEnded() {
				obs.outcome = "done"
				respond()
				break loop
			}
		case *xhttp2.RSTStreamFrame:
			obs.outcome = "reset"
			break loop
		}
		if gotHeaders && !grant() && len(obs.payload) < len(want) {
			// no window left and none to come: an honest reader still has bytes, so the writer
			// sits in awaitFlowControl (short grace period to catch a frame that must not come)
			srv.SetReadDeadline(time.Now().Add(30 * time.Millisecond))
			if f, err := fr.ReadFrame(); err == nil {
				obs.extra = fmt.Sprintf("frame %v after the window was used up", f.Header())
			}
			srv.SetDeadline(time.Now().Add(90 * time.Second))
			obs.outcome = "blocked"
			cancel()
			break loop
		}
	}
	select {
	case obs.rtErr = <-rtDone:
	case <-time.After(60 * time.Second):
		obs.extra += " RoundTrip did not return"
		obs.harness = "RoundTrip did not return within the harness's 60 s"
	}
	if obs.outcome == "reset" {
		switch {
		case obs.rtErr == errReqBodyTooLong:
			obs.outcome = "toolong"
		case errors.Is(obs.rtErr, verifh.ErrC01Boom):
			obs.outcome = "readerr"
		default:
			obs.outcome = fmt.Sprintf("reset(%v)", obs.rtErr)
		}
	}
	obs.bufLen = body.FirstBufLen()
	_ = mf
	return obs, nil
}

// c01H2BodyOracle: the property itself, judged without the model.
func c01H2BodyOracle(tc *c01H2BodyCase, obs *c01H2BodyObs, want []byte, mf int) (bool, string) {
	if !bytes.HasPrefix(want, obs.payload) {
		return false, "the DATA payloads are not a prefix of the body"
	}
	ends := 0
	for i, f := range obs.frames {
		if f == "T" || strings.HasSuffix(f, ":1") {
			ends++
			if i != len(obs.frames)-1 {
				return false, "END_STREAM before the last frame"
			}
		}
	}
	for i, n := range obs.lens {
		if n > obs.avails[i] {
			return false, fmt.Sprintf("DATA frame of %d bytes under a window of %d", n, obs.avails[i])
		}
		if n > mf {
			return false, fmt.Sprintf("DATA frame of %d bytes above MAX_FRAME_SIZE %d", n, mf)
		}
	}
	if obs.outcome == "done" {
		if ends != 1 {
			return false, fmt.Sprintf("%d END_STREAM flags", ends)
		}
		if tc.ending == "err" || tc.ending == "errl" {
			return false, "request completed although the body reader failed"
		}
		if !bytes.Equal(obs.payload, want) {
			return false, "request completed with a body that differs from the reader's bytes"
		}
		if tc.cl >= 0 && int64(len(want)) > tc.cl {
			return false, "request completed with more bytes than the declared content-length"
		}
	} else if ends != 0 {
		return false, "END_STREAM sent although the write failed"
	}
	if obs.extra != "" {
		return false, obs.extra
	}
	return true, ""
}

func TestVerif_C01_h2body(t *testing.T) {
	s := verifh.New(t, "C01", "h2body",
		"real ClientConn.RoundTrip (loopback TCP) uploading a scripted body (0..100 KiB around 4 KiB / 16 KiB / 64 KiB, 1 MiB in the thorough tier; 0..6 scripted read sizes incl. zero-length reads; end signalled as (0,EOF), (n,EOF), (0,err) or (n,err); content-length absent / exact / larger / smaller than what the reader yields; trailers none / block / empty) to a frame-script peer with generated SETTINGS_INITIAL_WINDOW_SIZE (0..2^30), SETTINGS_MAX_FRAME_SIZE (16384..2^24-1), connection window, and window increments (1..2^20, stream and/or connection level) handed out exactly when the window is used up; every 12th case an honest reader with too little window (writer blocked); compared with the Lean model: outcome, (length, END_STREAM) of every frame, reassembled payload, frameScratchBufferLen; independent oracle: payload prefix of body, END_STREAM once and last, no frame above window / MAX_FRAME_SIZE, done => exact body; non-trivial = at least two DATA frames")
	hist := map[string]int{}
	count := func(k string) { hist[k]++; s.Count(k) }
	r := s.Rand()
	n := verifh.N(400, 4000)
	for i := 0; i < n; i++ {
		tc := c01GenH2Body(r, i)
		id := fmt.Sprintf("h2body-%d", i)
		s.Begin(id, tc.human())
		obs, err := c01RunH2Body(tc)
		if err != nil {
			count("infra-error")
			t.Logf("case %d: %v", i, err)
			continue
		}
		if obs.harness != "" {
			// a time limit of the HARNESS, not behaviour of the library: skipped and counted, never
			// judged (a real hang is deterministic: the lane fails below when more than a few per
			// cent of the cases end this way)
			count("skipped:harness-timeout")
			t.Logf("case %d (%s): %s — skipped, not judged", i, tc.human(), obs.harness)
			continue
		}
		mf := 16384
		if tc.mf != 0 {
			mf = int(tc.mf)
		}
		cs := &clientStream{reqBodyContentLength: tc.cl}
		scratch := cs.frameScratchBufferLen(mf)
		frames := "-"
		if len(obs.frames) > 0 {
			frames = strings.Join(obs.frames, ",")
		}
		impl := fmt.Sprintf("%s frames=%s scratch=%d %s", obs.outcome, frames, scratch, verifh.C01Blob(obs.payload))
		line := fmt.Sprintf("c01h2body %d %d %d %d gen.%d.%d.%d %s %s %s", tc.cl, tc.trailers, mf, obs.bufLen, tc.n, tc.ga, tc.gb,
			verifh.IntList(tc.sizes), tc.ending, verifh.IntList(obs.avails))
		ok, why := c01H2BodyOracle(tc, obs, verifh.C01GenBody(tc.n, tc.ga, tc.gb), mf)
		if obs.bufLen < scratch {
			ok, why = false, fmt.Sprintf("scratch buffer of %d bytes, frameScratchBufferLen says %d", obs.bufLen, scratch)
		}
		count("outcome:" + strings.SplitN(obs.outcome, "(", 2)[0])
		if len(obs.lens) >= 2 {
			count("multi-frame")
		}
		if tc.cl >= 0 && int64(tc.n) < tc.cl {
			count("reader-short")
		}
		if tc.cl >= 0 && int64(tc.n) > tc.cl {
			count("reader-long")
		}
		if tc.trailers == 1 {
			count("trailers")
		}
		for i, l := range obs.lens {
			if l == obs.avails[i] {
				count("frame=window")
			}
			if l == mf {
				count("frame=max-frame-size")
			}
		}
		if obs.bufLen > scratch {
			count("pooled-buffer-larger")
		}
		s.Case(line, impl, ok, "", len(obs.lens) >= 2, tc.human()+" -> "+obs.outcome+" "+why)
	}
	for _, b := range []string{"outcome:done", "outcome:toolong", "outcome:readerr", "outcome:blocked", "multi-frame", "reader-short", "reader-long", "trailers", "frame=window", "frame=max-frame-size"} {
		if hist[b] == 0 {
			t.Errorf("lane did not reach bucket %q (vacuous pass refused)", b)
		}
	}
	if k := hist["skipped:harness-timeout"]; k > 3 && k*100 > 3*n {
		t.Errorf("%d of %d cases ended in the harness's own time-out: more than a stalled machine explains", k, n)
	}
	s.Finish()
}
