package verifh

import (
	"math/rand"
	"net/http"
	"strings"
)

// The two in-band bookkeeping keys (internal/header HeaderOderKey / PseudoHeaderOderKey).
var c16BookKeys = []string{"__header_order__", "__pseudo_header_order__"}

// C16NeighbourFixed: caller header names that look like the bookkeeping keys without being one of
// them — they share the "__" prefix, the "__" suffix, a proper prefix / suffix / infix of a key, or
// extend a key on either side. All are valid field-name tokens ('_' is a token byte), so every
// protocol version has to transmit them like any other caller header.
var C16NeighbourFixed = []string{
	"__RequestVerificationToken", "__tenant", "__", "___", "____", "_", "_x", "x_", "x__", "__x", "__x__", "__X-Trace__",
	"__header_order", "_header_order__", "header_order__", "__header_order__x", "__header_order___", "x__header_order__",
	"__header_order__pseudo", "__header_order_", "__header__", "__order__",
	"__pseudo_header_order", "_pseudo_header_order__", "__pseudo_header_order__2", "__pseudo__", "__pseudo_header_order_",
	"header_order", "Header-Order", "pseudo_header_order", "__Host-Id", "__Secure-Token", "__proto__", "__HEADER_ORDERS__",
}

// C16IsBookKey: the name is one of the two bookkeeping keys in any letter case (HTTP/2 and HTTP/3
// look keys up lower-cased).
func C16IsBookKey(k string) bool {
	lk := strings.ToLower(k)
	return lk == c16BookKeys[0] || lk == c16BookKeys[1]
}

// C16NeighbourName draws one name of the class: a fixed one, or one derived from a bookkeeping
// key by cutting (proper prefix / suffix / infix), extending (head, tail), changing one byte, or
// re-casing such a derived name. Never a bookkeeping key itself (in any case).
func C16NeighbourName(r *rand.Rand) string {
	for {
		var n string
		key := Pick(r, c16BookKeys)
		switch r.Intn(8) {
		case 0, 1, 2:
			n = Pick(r, C16NeighbourFixed)
		case 3: // proper prefix
			n = key[:1+r.Intn(len(key)-1)]
		case 4: // proper suffix
			n = key[1+r.Intn(len(key)-1):]
		case 5: // extension
			tail := Pick(r, []string{"_", "x", "-id", "2", "__", "_x_"})
			if r.Intn(2) == 0 {
				n = key + tail
			} else {
				n = tail + key
			}
		case 6: // one byte changed
			b := []byte(key)
			b[r.Intn(len(b))] = "abxz_-09"[r.Intn(8)]
			n = string(b)
		default: // infix
			i := r.Intn(len(key) - 1)
			j := i + 1 + r.Intn(len(key)-i-1)
			n = key[i:j]
		}
		switch r.Intn(6) {
		case 0:
			n = strings.ToUpper(n)
		case 1:
			n = strings.ToUpper(n[:1]) + n[1:]
		}
		if n == "" || C16IsBookKey(n) {
			continue
		}
		return n
	}
}

// C16AddNeighbours puts 1..3 names of the class into h (1..2 values each) and returns them.
func C16AddNeighbours(r *rand.Rand, h http.Header) []string {
	var added []string
	for i, n := 0, 1+r.Intn(3); i < n; i++ {
		k := C16NeighbourName(r)
		vs := []string{Pick(r, []string{"CfDJ8-token", "t1", "v", "a, b", "0"})}
		if r.Intn(4) == 0 {
			vs = append(vs, "second")
		}
		h[k] = vs
		added = append(added, k)
	}
	return added
}

// C16Neighbourise adds names of the class to a third of the field cases; when the case carries a
// header-order list, half of the added names are listed too (at a random place, a quarter of them
// in another letter case). Returns the names added.
func C16Neighbourise(r *rand.Rand, tc *C01FieldCase) []string {
	if r.Intn(3) != 0 {
		return nil
	}
	if tc.Header == nil {
		tc.Header = http.Header{}
	}
	added := C16AddNeighbours(r, tc.Header)
	if order := tc.Header[C01HeaderOrderKey]; len(order) > 0 {
		order = append([]string(nil), order...)
		for _, k := range added {
			if r.Intn(2) == 0 {
				if r.Intn(4) == 0 {
					k = strings.ToUpper(k)
				}
				at := r.Intn(len(order) + 1)
				order = append(order[:at], append([]string{k}, order[at:]...)...)
			}
		}
		tc.Header[C01HeaderOrderKey] = order
	}
	return added
}

// C16SameHeader: two header maps hold the same keys with the same value lists (nil and empty map
// are the same description).
func C16SameHeader(a, b http.Header) bool {
	if len(a) != len(b) {
		return false
	}
	for k, va := range a {
		vb, ok := b[k]
		if !ok || len(va) != len(vb) {
			return false
		}
		for i := range va {
			if va[i] != vb[i] {
				return false
			}
		}
	}
	return true
}

// C16SameDescription: header map `after` describes the same request as `before`: same keys, the
// two in-band order lists identical entry by entry, every other key with as many values, each
// value equal up to what every writer does to it anyway (CR / LF to space, surrounding blanks
// trimmed — idempotent, so a later write renders the same line). The HTTP/1.1 writer sanitises
// the values it writes in place (header.go headerWriteSubset: kv.Values[i] = vv).
func C16SameDescription(after, before http.Header) bool {
	if len(after) != len(before) {
		return false
	}
	san := func(v string) string {
		return strings.Trim(strings.NewReplacer("\n", " ", "\r", " ").Replace(v), " \t")
	}
	for k, vb := range before {
		va, ok := after[k]
		if !ok || len(va) != len(vb) {
			return false
		}
		for i := range vb {
			if va[i] == vb[i] {
				continue
			}
			if k == C01HeaderOrderKey || k == C01PseudoHeaderOrderKey || san(va[i]) != san(vb[i]) {
				return false
			}
		}
	}
	return true
}

var c16H1Own = map[string]bool{"Host": true, "User-Agent": true, "Content-Length": true, "Transfer-Encoding": true, "Trailer": true,
	C01HeaderOrderKey: true, C01PseudoHeaderOrderKey: true}

// C16DescriptionOf renders a header map by MEANING for the HTTP/1.1 writer: the values of the keys
// that writer writes from the map (valid field names outside its exclusion table) in the form it
// writes them (CR / LF to space, surrounding blanks trimmed), everything else as it is. Whether an
// implementation sanitises those values in place (as headerWriteSubset does today) or on a copy,
// the rendering of the map it leaves behind is the same.
func C16DescriptionOf(h http.Header) http.Header {
	out := http.Header{}
	for k, vs := range h {
		cp := append([]string{}, vs...)
		if !c16H1Own[k] && c01Token(k) {
			for i, v := range cp {
				cp[i] = strings.Trim(strings.NewReplacer("\n", " ", "\r", " ").Replace(v), " \t")
			}
		}
		out[k] = cp
	}
	return out
}
