package verifh

import (
	"net/http"
	"sort"
	"strings"
)

// C16ValuesLine renders a field case for the `c16values` driver lane (same arguments as
// `c16fields`).
func C16ValuesLine(flavor string, tc *C01FieldCase) string {
	return "c16values " + strings.TrimPrefix(C01FieldLine(flavor, tc), "c16fields ")
}

// C16ShowValues is the canonical answer of the `c16values` lane for a decoded field list in
// ARRIVAL order: for every key of the caller's header map whose lower-cased name has no other
// spelling in the map (for those the relative order of the spellings follows Go's map iteration),
// sorted by name, the values of the fields with that name in the order they arrived. This is what
// fixes value ORDER and multiplicity within a name (the `c16fields` answer compares sorted
// multisets).
func C16ShowValues(hdr http.Header, fields [][2]string) string {
	spellings := map[string]int{}
	for k := range hdr {
		spellings[strings.ToLower(k)]++
	}
	var names []string
	for n, c := range spellings {
		if c == 1 {
			names = append(names, n)
		}
	}
	sort.Strings(names)
	if len(names) == 0 {
		return "vals -"
	}
	out := make([]string, len(names))
	for i, n := range names {
		var vs []string
		for _, f := range fields {
			if f[0] == n {
				vs = append(vs, Hex(f[1]))
			}
		}
		out[i] = Hex(n) + "=" + strings.Join(vs, ":")
	}
	return "vals " + strings.Join(out, ",")
}
