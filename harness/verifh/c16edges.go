package verifh

import (
	"math/rand"
	"net/http"
	"sort"
	"strconv"
)

// Round 7: the VALUE-EDGE class. A field value is what the caller gave minus optional white space
// in the sense of RFC 9110 5.5 — SP and HTAB, nothing else. Everything else that some notion of
// "white space" covers (unicode.IsSpace, strings.TrimSpace / Fields, bytes.TrimSpace, the Latin-1
// forms of NEL / NBSP, zero-width and byte-order marks that look like nothing) is part of the value
// and must arrive. The class puts such characters at the EDGES of values (where a trimming routine
// works), alone and mixed with SP / HTAB on either side of them, and — as a control — inside.
var c16EdgeRunes = []string{
	"\u0085", "\u00a0", "\u1680", "\u2000", "\u2001", "\u2002", "\u2003", "\u2004", "\u2005", "\u2006", "\u2007", "\u2008",
	"\u2009", "\u200a", "\u2028", "\u2029", "\u202f", "\u205f", "\u3000", // unicode.IsSpace beyond ASCII
	"\u200b", "\u2060", "\ufeff", "\u180e", // look like nothing, are not White_Space
	"\x85", "\xa0", // Latin-1 NEL / NBSP as single bytes (not valid UTF-8)
}

// C16EdgePad returns 1..2 characters of the class, sometimes with SP / HTAB before or after them.
func C16EdgePad(r *rand.Rand) string {
	s := Pick(r, c16EdgeRunes)
	if r.Intn(4) == 0 {
		s += Pick(r, c16EdgeRunes)
	}
	switch r.Intn(6) {
	case 0:
		s = " " + s
	case 1:
		s = s + "\t"
	case 2:
		s = " " + s + " "
	}
	return s
}

// C16EdgeValue decorates a core value: padding of the class in front, behind, on both sides, or
// (control) in the middle.
func C16EdgeValue(r *rand.Rand, core string) string {
	switch r.Intn(7) {
	case 0, 1:
		return C16EdgePad(r) + core
	case 2, 3:
		return core + C16EdgePad(r)
	case 4:
		return C16EdgePad(r) + core + C16EdgePad(r)
	case 5:
		return C16EdgePad(r) // a value that is nothing but such characters
	default:
		return core + C16EdgePad(r) + core
	}
}

// C16AddEdgeValues puts 1..3 headers with values of the class into h: new names (X-Edge-<n>, a
// quarter of them lower-case) with 1..2 values, and with probability 1/2 one more value of the class
// appended to a key h holds already (never to a bookkeeping key). Returns the names touched.
func C16AddEdgeValues(r *rand.Rand, h http.Header) []string {
	var touched []string
	cores := []string{"\u5c71\u7530", "v", "name", "a, b", "x y", "\u00e9", ""}
	for i, n := 0, 1+r.Intn(3); i < n; i++ {
		k := "X-Edge-" + strconv.Itoa(r.Intn(40))
		if r.Intn(4) == 0 {
			k = "x-edge-" + strconv.Itoa(r.Intn(40))
		}
		vs := []string{C16EdgeValue(r, Pick(r, cores))}
		if r.Intn(4) == 0 {
			vs = append(vs, C16EdgeValue(r, Pick(r, cores)))
		}
		h[k] = vs
		touched = append(touched, k)
	}
	if r.Intn(2) == 0 {
		keys := make([]string, 0, len(h))
		for k := range h {
			keys = append(keys, k)
		}
		sort.Strings(keys)
		for _, k := range keys {
			vs := h[k]
			if C16IsBookKey(k) || len(k) < 2 || k[:2] != "X-" || len(vs) == 0 {
				continue
			}
			h[k] = append(append([]string(nil), vs...), C16EdgeValue(r, "more"))
			touched = append(touched, k)
			break
		}
	}
	return touched
}
