package verifh

// Shared pieces of the C01 / C16 wire lanes (root package, internal/http2, internal/http3):
// case-line encoders, header generators, the HTTP/2-HTTP/3 field-list case and its canonical
// answer (mirror of lean/Req/Driver/L/C16.lean `laneFields`).

import (
	"fmt"
	"hash/fnv"
	"math/rand"
	"net/http"
	"net/textproto"
	"net/url"
	"sort"
	"strconv"
	"strings"
)

// C01QMap renders a multimap as `k:v1:v2,k2` (hex) in sorted key order ("-" = empty).
func C01QMap(m map[string][]string) string {
	if len(m) == 0 {
		return "-"
	}
	keys := make([]string, 0, len(m))
	for k := range m {
		keys = append(keys, k)
	}
	sort.Strings(keys)
	out := make([]string, len(keys))
	for i, k := range keys {
		parts := []string{Hex(k)}
		for _, v := range m[k] {
			parts = append(parts, Hex(v))
		}
		out[i] = strings.Join(parts, ":")
	}
	return strings.Join(out, ",")
}

func C01B(b bool) string {
	if b {
		return "1"
	}
	return "0"
}

// C01Blob: length, FNV-1a 64, first 2048 bytes.
func C01Blob(b []byte) string {
	h := fnv.New64a()
	h.Write(b)
	head := b
	if len(head) > 2048 {
		head = head[:2048]
	}
	return fmt.Sprintf("%d %d %s", len(b), h.Sum64(), Hex(string(head)))
}

// C01GenBody: byte i = (i*a+b) % 251 (the Lean driver's `gen.<len>.<a>.<b>`).
func C01GenBody(n, a, b int) []byte {
	out := make([]byte, n)
	for i := range out {
		out[i] = byte((i*a + b) % 251)
	}
	return out
}

// C01OrderIndex: position of key in an order list (last occurrence, canonical MIME form), -1 if
// unlisted. Written independently of internal/header/sort.go.
func C01OrderIndex(order []string, key string) int {
	ck := textproto.CanonicalMIMEHeaderKey(key)
	idx := -1
	for i, o := range order {
		if textproto.CanonicalMIMEHeaderKey(o) == ck {
			idx = i
		}
	}
	return idx
}

var C01Methods = []string{"GET", "GET", "POST", "POST", "PUT", "PATCH", "DELETE", "HEAD", "OPTIONS", "", "PROPFIND", "SEARCH", "TRACE", "M-SEARCH", "get", "X!#$%&'*+-.^_`|~1", "CONNECT"}

var C01HdrNames = []string{"Accept", "accept", "ACCEPT", "X-A", "x-a", "X-a", "X-B", "X-C", "X-Long-Header-Name", "Content-Type", "content-type", "Cookie", "cookie", "Authorization",
	"Referer", "Origin", "Accept-Language", "Cache-Control", "Pragma", "Range", "If-None-Match", "X-Forwarded-For", "Te", "Upgrade-Insecure-Requests", "x_y", "X.Y", "a", "Z",
	"Sec-Ch-Ua", "sec-ch-ua-mobile", "X-1", "X-2", "X-3", "X-4", "X-5", "X-6", "X-7", "X-8", "X-9", "Idempotency-Key"}

var C01SpecialNames = []string{"Host", "host", "User-Agent", "user-agent", "USER-AGENT", "Content-Length", "content-length", "Transfer-Encoding", "transfer-encoding", "Trailer", "Connection", "connection",
	"Keep-Alive", "keep-alive", "Proxy-Connection", "Upgrade", "Accept-Encoding", "accept-encoding", "a b", "ü", "", "X:Y", "Expect", "COOKIE"}

var C01HdrValues = []string{"", "v", "value", "a, b", "  lead", "trail  ", "\tt\t", "x y z", "ü", "日本", "\xff", "text/html; q=0.9", "gzip", "close", "keep-alive", "keep-alive, Close", "chunked", "5", "0",
	"a=1; b=2", "a=1;b=2", "a=1;  b=2;", ";a=1", "a=1;;b=2", "a=1; ", "\"q\"", "semi;colon", "a\tb", "bytes=0-1", strings.Repeat("v", 300), "100-continue"}

var C01BadValues = []string{"a\r\nX-Injected: 1", "a\nb", "a\rb", "\r\n\r\nGET /smuggled HTTP/1.1\r\nHost: x\r\n\r\n", "a\x00b", "\x7f", "a\x01"}

// C01RandHeader draws a header map: 0..maxKeys keys from the pools (special = names the writers
// treat themselves and invalid names; bad = values with CR/LF/NUL/CTL), multi- and zero-valued.
func C01RandHeader(r *rand.Rand, maxKeys int, special, bad bool) http.Header {
	if maxKeys == 0 || r.Intn(12) == 0 {
		if r.Intn(2) == 0 {
			return nil
		}
		return http.Header{}
	}
	h := http.Header{}
	n := r.Intn(maxKeys + 1)
	for i := 0; i < n; i++ {
		var k string
		switch {
		case special && r.Intn(6) == 0:
			k = Pick(r, C01SpecialNames)
		case r.Intn(10) == 0 || maxKeys > 30 && r.Intn(2) == 0:
			k = "X-Gen-" + strconv.Itoa(r.Intn(60))
		default:
			k = Pick(r, C01HdrNames)
		}
		nv := 1
		switch r.Intn(8) {
		case 0:
			nv = 0
		case 1:
			nv = 2 + r.Intn(2)
		}
		vs := []string{}
		for j := 0; j < nv; j++ {
			if bad && r.Intn(8) == 0 {
				vs = append(vs, Pick(r, C01BadValues))
			} else {
				vs = append(vs, Pick(r, C01HdrValues))
			}
		}
		h[k] = vs
	}
	return h
}

// C01RandOrder builds a header-order list over the keys that will be on the wire: subset,
// superset (absent names), other case, duplicated, full; shuffled.
func C01RandOrder(r *rand.Rand, h http.Header) []string {
	var present []string
	for k := range h {
		if !strings.HasPrefix(k, "__") {
			present = append(present, k)
		}
	}
	sort.Strings(present)
	present = append(present, "host", "user-agent", "content-length", "accept-encoding", "cookie", "transfer-encoding", "connection")
	var order []string
	switch r.Intn(5) {
	case 0:
		for _, k := range present {
			if r.Intn(3) == 0 {
				order = append(order, k)
			}
		}
	case 1:
		for _, k := range present {
			if r.Intn(2) == 0 {
				order = append(order, k)
			}
		}
		order = append(order, "absent-1", "Absent-2")
	case 2:
		for _, k := range present {
			if r.Intn(2) == 0 {
				order = append(order, strings.ToUpper(k))
			}
		}
	case 3:
		for i := 0; i < 1+r.Intn(8); i++ {
			order = append(order, Pick(r, present))
		}
		order = append(order, order...)
	default:
		order = append(order, present...)
	}
	r.Shuffle(len(order), func(i, j int) { order[i], order[j] = order[j], order[i] })
	if len(order) == 0 {
		order = []string{"host"}
	}
	return order
}

var c01Pseudo = []string{":authority", ":method", ":path", ":scheme"}

// C01RandPseudoOrder: a permutation / subset / superset / duplicated / other-case list of the
// four request pseudo headers.
func C01RandPseudoOrder(r *rand.Rand) []string {
	p := append([]string(nil), c01Pseudo...)
	r.Shuffle(len(p), func(i, j int) { p[i], p[j] = p[j], p[i] })
	switch r.Intn(6) {
	case 0:
		p = p[:1+r.Intn(3)]
	case 1:
		p = append(p, ":protocol", "x-a")
		r.Shuffle(len(p), func(i, j int) { p[i], p[j] = p[j], p[i] })
	case 2:
		p = append(p, p[r.Intn(len(p))])
	case 3:
		p[r.Intn(len(p))] = strings.ToUpper(p[0])
	}
	return p
}

// C01PseudoOrderOtherCase: the pseudo-header order list names a pseudo header in a spelling
// that is not lower case (input class of known finding C16-2).
func C01PseudoOrderOtherCase(po []string) bool {
	for _, o := range po {
		if strings.HasPrefix(o, ":") && o != strings.ToLower(o) {
			return true
		}
	}
	return false
}

// C01FieldCase is one HTTP/2 / HTTP/3 header-block case.
type C01FieldCase struct {
	Method, RawURL, Host string
	Header               http.Header
	CL                   int64
	HasBody, NoBody      bool
	Gzip                 bool
	// Limit is the peer's SETTINGS_MAX_HEADER_LIST_SIZE for this connection (0 = none). Set by
	// the lane (it is a property of the connection a sequence of cases runs on).
	Limit uint64
}

const (
	C01HeaderOrderKey       = "__header_order__"
	C01PseudoHeaderOrderKey = "__pseudo_header_order__"
)

// C01GenFieldCase draws a case. profile "order": up to 60 keys, order lists nearly always.
func C01GenFieldCase(r *rand.Rand, profile string) *C01FieldCase {
	tc := &C01FieldCase{}
	tc.Method = Pick(r, C01Methods)
	if r.Intn(60) == 0 {
		tc.Method = Pick(r, []string{"GE T", "G\r\nX: y", "ü", "G\x00T"})
	}
	hosts := []string{"example.com", "example.com:8080", "127.0.0.1:9", "[::1]:80", "EXAMPLE.com", "h"}
	paths := []string{"", "/", "/a", "/a/b?x=1", "/a%2Fb", "/ü?q=ü", "/a b", "/a?b c", "/?", "/p?a=1&b=2", "/%41", "/a;b,c", "/{x}", "//a//"}
	tc.RawURL = Pick(r, []string{"http://", "https://"}) + Pick(r, hosts) + Pick(r, paths)
	switch r.Intn(40) {
	case 0:
		tc.RawURL = "*"
	case 1:
		tc.RawURL = "http:opaque/x?y"
	case 2:
		tc.RawURL = "https://example.com"
		if r.Intn(2) == 0 {
			tc.Method = "CONNECT"
		}
	case 3:
		tc.RawURL = "https:///nohost"
	case 4:
		tc.RawURL = "https:https://example.com/opaque-with-prefix"
	}
	if _, e := url.Parse(tc.RawURL); e != nil {
		tc.RawURL = "https://example.com/"
	}
	switch r.Intn(12) {
	case 0:
		tc.Host = Pick(r, []string{"other.example", "other.example:81", "[::2]:1", "UPPER.example"})
	case 1:
		tc.Host = Pick(r, []string{"a b", "a/b", "evil.example\r\nX-Injected: 1", "h\x00", "ü.example", "a@b", "a#b", "a?b", "%41"})
	}
	nmax := 8
	if profile == "order" {
		nmax = 60
	}
	switch r.Intn(4) {
	case 0:
		nmax = 3
	case 1:
		if profile == "order" {
			nmax = 14
		}
	}
	bad := profile != "order" || r.Intn(10) == 0
	tc.Header = C01RandHeader(r, nmax, bad, bad)
	if profile == "order" || r.Intn(4) == 0 {
		if tc.Header == nil {
			tc.Header = http.Header{}
		}
		if r.Intn(6) != 0 {
			tc.Header[C01HeaderOrderKey] = C01RandOrder(r, tc.Header)
		}
		if r.Intn(3) != 0 {
			tc.Header[C01PseudoHeaderOrderKey] = C01RandPseudoOrder(r)
		}
	}
	switch r.Intn(6) {
	case 0:
		tc.HasBody, tc.CL = true, 0
	case 1:
		tc.HasBody, tc.CL = true, int64(Pick(r, []int{1, 1, 2, 3, 255, 4096, 1 + r.Intn(100000), 1 + r.Intn(100000)}))
	case 2:
		tc.HasBody, tc.CL = true, -1
	case 3:
		tc.HasBody, tc.NoBody, tc.CL = true, true, int64(r.Intn(2)*7)
	}
	tc.Gzip = r.Intn(2) == 0
	return tc
}

// C01FieldLine renders the case for the Lean driver: `c16fields <flavor> …`.
func C01FieldLine(flavor string, tc *C01FieldCase) string {
	return "c16fields " + flavor + " " + Hex(tc.Method) + " " + Hex(tc.RawURL) + " " + Hex(tc.Host) + " " + C01QMap(tc.Header) + " " +
		strconv.FormatInt(tc.CL, 10) + " " + C01B(tc.HasBody) + " " + C01B(tc.NoBody) + " " + C01B(tc.Gzip) + " " + func() string {
		if tc.Limit == 0 {
			return "-"
		}
		return strconv.FormatUint(tc.Limit, 10)
	}()
}

// C01MutateFieldCase derives the next request of a SEQUENCE on one connection from the previous
// one: most header name/value pairs are kept (so that a stateful header compressor refers back
// to what it sent — or believes it sent — before), a few are dropped, changed or added, and now
// and then the header list is blown up (several 300-byte values) so that it exceeds a small peer
// limit and the request is refused locally.
func C01MutateFieldCase(r *rand.Rand, prev *C01FieldCase) *C01FieldCase {
	tc := *prev
	tc.Header = prev.Header.Clone()
	if tc.Header == nil {
		tc.Header = http.Header{}
	}
	for k := range tc.Header {
		if strings.HasPrefix(k, "X-Big-") || r.Intn(6) == 0 {
			delete(tc.Header, k)
		}
	}
	for i, n := 0, r.Intn(4); i < n; i++ {
		tc.Header[Pick(r, C01HdrNames)] = []string{Pick(r, C01HdrValues)}
	}
	if r.Intn(3) == 0 {
		for i, n := 0, 1+r.Intn(12); i < n; i++ {
			tc.Header["X-Big-"+strconv.Itoa(i)] = []string{strings.Repeat(string(rune('a'+i%26)), 100+r.Intn(300))}
		}
	}
	if r.Intn(4) == 0 {
		tc.Method = Pick(r, []string{"GET", "POST", "PUT", "DELETE"})
	}
	if r.Intn(5) == 0 {
		tc.RawURL = "https://example.com/" + Pick(r, []string{"a", "b?x=1", "c/d", ""})
	}
	return &tc
}

func c01FieldList(f [][2]string) string {
	if len(f) == 0 {
		return "-"
	}
	out := make([]string, len(f))
	for i, p := range f {
		out[i] = Hex(p[0]) + ":" + Hex(p[1])
	}
	return strings.Join(out, ",")
}

// C01ShowFields is the canonical answer for a decoded field list in arrival order: the pseudo
// fields in order, the regular fields as a sorted multiset (their order follows Go's map
// iteration), and — in header-order mode — the canonical names of the listed fields in order.
func C01ShowFields(fields [][2]string, order []string) string {
	var pseudo, regular [][2]string
	for _, f := range fields {
		if strings.HasPrefix(f[0], ":") {
			pseudo = append(pseudo, f)
		} else {
			regular = append(regular, f)
		}
	}
	var listed []string
	if len(order) > 0 {
		for _, f := range regular {
			if C01OrderIndex(order, f[0]) >= 0 {
				listed = append(listed, textproto.CanonicalMIMEHeaderKey(f[0]))
			}
		}
	}
	sorted := append([][2]string(nil), regular...)
	sort.Slice(sorted, func(i, j int) bool {
		if sorted[i][0] != sorted[j][0] {
			return sorted[i][0] < sorted[j][0]
		}
		return sorted[i][1] < sorted[j][1]
	})
	return "ok " + c01FieldList(pseudo) + " " + c01FieldList(sorted) + " " + HexList(listed)
}

// C01IsASCII reports whether s is 7-bit.
func C01IsASCII(s string) bool {
	for i := 0; i < len(s); i++ {
		if s[i] >= 0x80 {
			return false
		}
	}
	return true
}

func c01Token(s string) bool {
	if s == "" {
		return false
	}
	for i := 0; i < len(s); i++ {
		c := s[i]
		if !(c >= 'a' && c <= 'z' || c >= 'A' && c <= 'Z' || c >= '0' && c <= '9' || strings.IndexByte("!#$%&'*+-.^_`|~", c) >= 0) {
			return false
		}
	}
	return true
}

var c01ConnSpecific = map[string]bool{"host": true, "content-length": true, "connection": true, "proxy-connection": true, "transfer-encoding": true,
	"upgrade": true, "keep-alive": true, C01HeaderOrderKey: true, C01PseudoHeaderOrderKey: true}

// C01FieldOracle is the property oracle for a field list a frame-level peer decoded (arrival
// order), written independently of the encoders:
//   - pseudo fields first, each at most once, names from the request set, values as described;
//     with a pseudo order, the listed ones in list order
//   - no bookkeeping key, no connection-specific field, all names lower case
//   - every caller value (per lower-cased name) exactly once — user-agent: first value of each
//     key; cookie on HTTP/2: the values split at "; " rejoin to the caller's values
//   - nothing else except content-length / accept-encoding: gzip / the default user-agent
//   - with a header order, the listed regular fields in list order
//
// It returns ok=false with a reason when the property fails on this list.
func C01FieldOracle(flavor string, tc *C01FieldCase, fields [][2]string) (bool, string) {
	u, err := url.Parse(tc.RawURL)
	if err != nil {
		return true, ""
	}
	seenRegular := false
	pseudoSeen := map[string]int{}
	var pseudoNames []string
	got := map[string][]string{}
	var regularNames []string
	for _, f := range fields {
		n, v := f[0], f[1]
		if strings.HasPrefix(n, ":") {
			if seenRegular {
				return false, "pseudo field after a regular field"
			}
			pseudoSeen[n]++
			pseudoNames = append(pseudoNames, n)
			switch n {
			case ":method":
				want := tc.Method
				if want == "" && flavor == "h2" {
					want = "GET"
				}
				if v != want {
					return false, ":method " + v
				}
			case ":path":
				if v != u.RequestURI() && u.Opaque == "" {
					return false, ":path " + v
				}
			case ":scheme":
				if v != u.Scheme {
					return false, ":scheme " + v
				}
			case ":authority":
				want := tc.Host
				if want == "" {
					want = u.Host
				}
				if v != want {
					return false, ":authority " + v
				}
			default:
				return false, "unexpected pseudo field " + n
			}
			continue
		}
		seenRegular = true
		if n != strings.ToLower(n) {
			return false, "field name not lower case: " + n
		}
		if c01ConnSpecific[n] && n != "content-length" {
			return false, "forbidden field on the wire: " + n
		}
		got[n] = append(got[n], v)
		regularNames = append(regularNames, n)
	}
	for n, c := range pseudoSeen {
		if c != 1 {
			return false, "pseudo field repeated: " + n
		}
	}
	wantPseudo := 4
	if tc.Method == "CONNECT" {
		wantPseudo = 2
	}
	if len(pseudoSeen) != wantPseudo {
		return false, fmt.Sprintf("%d pseudo fields", len(pseudoSeen))
	}
	if po := tc.Header[C01PseudoHeaderOrderKey]; len(po) > 0 {
		last := -1
		for _, n := range pseudoNames {
			ix := -1
			for i, o := range po {
				if strings.EqualFold(o, n) { // both order lists are documented as case-insensitive
					ix = i
				}
			}
			if ix < 0 {
				continue
			}
			if ix < last {
				return false, "listed pseudo field out of order: " + n
			}
			last = ix
		}
	}
	// expected regular multiset
	want := map[string][]string{}
	didUA := false
	for k, vs := range tc.Header {
		lk := strings.ToLower(k)
		if c01ConnSpecific[lk] || !c01Token(k) {
			continue
		}
		switch {
		case lk == "user-agent":
			didUA = true
			if len(vs) > 0 && vs[0] != "" {
				want[lk] = append(want[lk], vs[0])
			}
		case lk == "cookie" && flavor == "h2":
			// compared after re-joining below
			for _, v := range vs {
				want[lk] = append(want[lk], v)
			}
		default:
			want[lk] = append(want[lk], vs...)
		}
	}
	if !didUA {
		want["user-agent"] = append(want["user-agent"], "req/v3 (https://github.com/imroc/req)")
	}
	if tc.Gzip {
		want["accept-encoding"] = append(want["accept-encoding"], "gzip")
	}
	if cl, ok := got["content-length"]; ok {
		acl := int64(0)
		switch {
		case !tc.HasBody || (flavor == "h2" && tc.NoBody):
			acl = 0
		case tc.CL != 0:
			acl = tc.CL
		default:
			acl = -1
		}
		if len(cl) != 1 || cl[0] != strconv.FormatInt(acl, 10) || acl < 0 {
			return false, fmt.Sprintf("content-length %q", cl)
		}
		delete(got, "content-length")
	}
	if flavor == "h2" {
		// crumbled cookies: the concatenation (ignoring "; " separators and empty crumbs) must
		// carry the same cookie pairs as the caller's values
		norm := func(vs []string) string {
			var pairs []string
			for _, v := range vs {
				for _, p := range strings.Split(v, ";") {
					p = strings.TrimLeft(p, " ")
					if p != "" {
						pairs = append(pairs, p)
					}
				}
			}
			sort.Strings(pairs)
			return strings.Join(pairs, "\x00")
		}
		if norm(got["cookie"]) != norm(want["cookie"]) {
			return false, fmt.Sprintf("cookie crumbs %q want %q", got["cookie"], want["cookie"])
		}
		delete(got, "cookie")
		delete(want, "cookie")
	}
	for n, vs := range want {
		g := append([]string(nil), got[n]...)
		w := append([]string(nil), vs...)
		sort.Strings(g)
		sort.Strings(w)
		if len(g) != len(w) || strings.Join(g, "\x00") != strings.Join(w, "\x00") {
			return false, fmt.Sprintf("field %s: got %q want %q", n, g, w)
		}
	}
	for n := range got {
		if _, ok := want[n]; !ok {
			return false, "unexpected field " + n
		}
	}
	if order := tc.Header[C01HeaderOrderKey]; len(order) > 0 {
		last := -1
		for _, n := range regularNames {
			ix := C01OrderIndex(order, n)
			if ix < 0 {
				continue
			}
			if ix < last {
				return false, "listed field out of order: " + n
			}
			last = ix
		}
	}
	return true, ""
}

// ---------------------------------------------------------------- multi-line header fields (round 6)

// C01CookieCrumbPool: cookie-pairs a caller writes into Cookie field lines.
var C01CookieCrumbPool = []string{"sid=s1", "theme=dark", "lang=en", "csrf=t0k", "a=1", "b=2", "c=3", "k=v=w", "flag", "q=\"x y\"", "n=", "ü=1", "long=" + strings.Repeat("c", 60)}

// C01GenCookieLine draws ONE Cookie field line of 1..3 cookie-pairs, separated the ways callers
// write them ("; ", ";", ";  ", sometimes with a trailing separator).
func C01GenCookieLine(r *rand.Rand) string {
	var b strings.Builder
	for i, n := 0, 1+r.Intn(3); i < n; i++ {
		if i > 0 {
			b.WriteString(Pick(r, []string{"; ", "; ", ";", ";  "}))
		}
		b.WriteString(Pick(r, C01CookieCrumbPool))
	}
	if r.Intn(8) == 0 {
		b.WriteString(Pick(r, []string{";", "; "}))
	}
	return b.String()
}

// C01GenLines draws the values of ONE header key given as SEVERAL field lines (2..4): Cookie lines
// for a cookie name, values from the pool otherwise (repeated values allowed: a multiset).
func C01GenLines(r *rand.Rand, name string, pool []string) []string {
	n := 2 + r.Intn(3)
	vs := make([]string, 0, n)
	for i := 0; i < n; i++ {
		if strings.EqualFold(name, "cookie") {
			vs = append(vs, C01GenCookieLine(r))
		} else {
			vs = append(vs, Pick(r, pool))
		}
	}
	return vs
}

// C01Crumbs splits Cookie field lines into their cookie-pairs (RFC 6265 §4.2.1 / RFC 9113
// §8.2.3: the lines of a request are one cookie-string, pairs separated by ";" and optional
// spaces); empty pairs are dropped. Written independently of the encoders.
func C01Crumbs(lines []string) []string {
	var out []string
	for _, l := range lines {
		for _, p := range strings.Split(l, ";") {
			p = strings.Trim(p, " \t")
			if p != "" {
				out = append(out, p)
			}
		}
	}
	return out
}

var c01LinesSkip = map[string]bool{"host": true, "content-length": true, "connection": true, "proxy-connection": true, "transfer-encoding": true,
	"upgrade": true, "keep-alive": true, "user-agent": true, "accept-encoding": true, "te": true, "trailer": true}

// C01LinesOracle: "every field line arrives". For every caller header key that the writers do not
// treat themselves, the MULTISET of its values (all keys that lower-case to the same name together;
// surrounding white space removed, as HTTP defines a field value) must equal the multiset of the
// values the peer decoded under that name — judged per value; for Cookie the multisets of
// cookie-pairs over ALL lines are compared (HTTP/2 may crumble, HTTP/1.1 and HTTP/3 need not).
func C01LinesOracle(hdr http.Header, fields [][2]string) (bool, string) {
	want, got := map[string][]string{}, map[string][]string{}
	for k, vs := range hdr {
		lk := strings.ToLower(k)
		if strings.HasPrefix(k, "__") || c01LinesSkip[lk] {
			continue
		}
		for _, v := range vs {
			want[lk] = append(want[lk], strings.Trim(v, " \t"))
		}
	}
	for _, f := range fields {
		lk := strings.ToLower(f[0])
		if strings.HasPrefix(lk, ":") || c01LinesSkip[lk] {
			continue
		}
		got[lk] = append(got[lk], strings.Trim(f[1], " \t"))
	}
	for _, m := range []map[string][]string{want, got} {
		if c, ok := m["cookie"]; ok {
			m["cookie"] = C01Crumbs(c)
			if len(m["cookie"]) == 0 {
				delete(m, "cookie")
			}
		}
	}
	names := map[string]bool{}
	for n := range want {
		names[n] = true
	}
	for n := range got {
		names[n] = true
	}
	var bad []string
	for n := range names {
		w, g := append([]string(nil), want[n]...), append([]string(nil), got[n]...)
		sort.Strings(w)
		sort.Strings(g)
		if strings.Join(w, "\x00") != strings.Join(g, "\x00") {
			bad = append(bad, fmt.Sprintf("%s: described %q, arrived %q", n, w, g))
		}
	}
	if len(bad) > 0 {
		sort.Strings(bad)
		return false, strings.Join(bad, "; ")
	}
	return true, ""
}
