// Package verifh is the shared part of the correspondence harness. It is not part of
// imroc/req: bin/check injects it (and the zz_verif_*_test.go files next to it) into the
// real packages with `go test -overlay`, so the harness can call unexported code without
// any edit of /repo.
package verifh

import (
	"bufio"
	"bytes"
	"crypto/sha256"
	"encoding/hex"
	"encoding/json"
	"fmt"
	"hash/fnv"
	"math/rand"
	"os"
	"os/exec"
	"path/filepath"
	"runtime/debug"
	"sort"
	"strconv"
	"strings"
	"testing"
	"time"
)

// Seed returns VERIF_SEED (default 1).
func Seed() int64 {
	if v := os.Getenv("VERIF_SEED"); v != "" {
		if n, err := strconv.ParseInt(v, 10, 64); err == nil {
			return n
		}
	}
	return 1
}

// Thorough reports whether VERIF_TIER=thorough.
func Thorough() bool { return os.Getenv("VERIF_TIER") == "thorough" }

// N picks the per-tier budget.
func N(quick, thorough int) int {
	if Thorough() {
		return thorough
	}
	return quick
}

// Hex encodes a byte string for the line protocol ("_" = empty).
func Hex(s string) string {
	if s == "" {
		return "_"
	}
	return hex.EncodeToString([]byte(s))
}

// UnHex is the inverse of Hex.
func UnHex(s string) string {
	if s == "_" {
		return ""
	}
	b, err := hex.DecodeString(s)
	if err != nil {
		return "!bad-hex!"
	}
	return string(b)
}

// HexList encodes a list of byte strings ("-" = empty list).
func HexList(l []string) string {
	if len(l) == 0 {
		return "-"
	}
	out := make([]string, len(l))
	for i, s := range l {
		out[i] = Hex(s)
	}
	return strings.Join(out, ",")
}

// UnHexList is the inverse of HexList.
func UnHexList(s string) []string {
	if s == "-" {
		return nil
	}
	parts := strings.Split(s, ",")
	for i := range parts {
		parts[i] = UnHex(parts[i])
	}
	return parts
}

// IntList encodes a list of ints ("-" = empty).
func IntList(l []int) string {
	if len(l) == 0 {
		return "-"
	}
	out := make([]string, len(l))
	for i, n := range l {
		out[i] = strconv.Itoa(n)
	}
	return strings.Join(out, ",")
}

type caseRec struct {
	line    string // what the model driver receives
	impl    string // canonical answer of the implementation
	propOK  bool   // verdict of the property oracle on the implementation's behaviour
	class   string // finding class (for known-findings matching); "" = none
	nontriv bool
	human   string // human readable rendering for samples / replays
}

// Mismatch is one reported problem.
type Mismatch struct {
	Case   string `json:"case"`
	Human  string `json:"human,omitempty"`
	Model  string `json:"model"`
	Impl   string `json:"impl"`
	PropOK bool   `json:"prop_ok"`
	Class  string `json:"class,omitempty"`
	Kind   string `json:"kind"` // "disagree" | "property" | "crash"
}

// Result is what a lane writes to $VERIF_OUT/<prop>.<lane>.json.
type Result struct {
	Prop        string         `json:"prop"`
	Lane        string         `json:"lane"`
	Seed        int64          `json:"seed"`
	Tier        string         `json:"tier"`
	Evaluations int            `json:"evaluations"`
	Distinct    int            `json:"distinct_nontrivial"`
	Rule        string         `json:"rule"`
	Hist        map[string]int `json:"hist"`
	Samples     []string       `json:"samples"`
	Mismatches  []Mismatch     `json:"mismatches"`
	NMismatch   int            `json:"n_mismatch"`
	WallS       float64        `json:"wall_s"`
	ModelCases  int            `json:"model_cases"`
	Error       string         `json:"error,omitempty"`
	// ModelIsOracle: the lane compares only outputs the property determines, so a
	// model/implementation disagreement is itself a failing input. When false, a
	// disagreement on a case the independent oracle accepts is only a broken correspondence.
	ModelIsOracle bool `json:"model_is_oracle"`
}

// Session collects the cases of one lane.
type Session struct {
	t     testing.TB
	prop  string
	lane  string
	rule  string
	rnd   *rand.Rand
	cases []caseRec
	hist  map[string]int
	start time.Time
	extra []Mismatch
	nEval int
	// OracleIndependent: set when the lane has its own property oracle (propOK) and the
	// compared output contains details the property does not determine.
	OracleIndependent bool
}

// New starts a lane. rule documents how cases are generated and what counts as non-trivial.
func New(t testing.TB, prop, lane, rule string) *Session {
	h := fnv.New64a()
	h.Write([]byte(prop + "/" + lane))
	return &Session{
		t: t, prop: prop, lane: lane, rule: rule,
		rnd:   rand.New(rand.NewSource(Seed() ^ int64(h.Sum64()&0x7fffffffffff))),
		hist:  map[string]int{},
		start: time.Now(),
	}
}

// Rand is the lane's PRNG, derived from VERIF_SEED and the lane name only.
func (s *Session) Rand() *rand.Rand { return s.rnd }

// Count bumps a histogram bucket (branch / error kind / size class reached).
func (s *Session) Count(kind string) { s.hist[kind]++ }

// Case records one case that the model will be asked about.
func (s *Session) Case(line, impl string, propOK bool, class string, nontrivial bool, human string) {
	s.cases = append(s.cases, caseRec{line, impl, propOK, class, nontrivial, human})
}

// Observe records a case judged by the property oracle only (no model line), e.g. an e2e run.
func (s *Session) Observe(id string, propOK bool, class string, nontrivial bool, human string, detail string) {
	s.nEval++
	if nontrivial {
		s.cases = append(s.cases, caseRec{line: "", impl: id, propOK: true, nontriv: true, human: human})
	}
	if !propOK {
		s.extra = append(s.extra, Mismatch{Case: id, Human: human, Impl: detail, PropOK: false, Class: class, Kind: "property"})
	}
}

// Begin notes the case about to run in $VERIF_OUT/<prop>.<lane>.current, so that when the whole
// test process dies (panic in a background goroutine, fatal error, deadlock timeout) bin/check
// can name the input that was being processed.
func (s *Session) Begin(id, human string) {
	dir := os.Getenv("VERIF_OUT")
	if dir == "" {
		return
	}
	if len(human) > 4000 {
		human = human[:4000]
	}
	b, _ := json.Marshal(map[string]string{"lane": s.lane, "case": id, "human": human})
	os.WriteFile(filepath.Join(dir, s.prop+"."+s.lane+".current"), b, 0o644)
}

// Crash records a panic caught while running the implementation.
func (s *Session) Crash(id, human, detail string, class string) {
	s.extra = append(s.extra, Mismatch{Case: id, Human: human, Impl: detail, PropOK: false, Class: class, Kind: "crash"})
}

// RunModel sends lines to the Lean driver and returns one answer per line.
func RunModel(lines []string) ([]string, error) {
	drv := os.Getenv("VERIF_DRIVER")
	if drv == "" {
		drv = "/verif/lean/.lake/build/bin/reqdriver"
	}
	cmd := exec.Command(drv)
	var in bytes.Buffer
	for _, l := range lines {
		in.WriteString(l)
		in.WriteByte('\n')
	}
	cmd.Stdin = &in
	var out bytes.Buffer
	cmd.Stdout = &out
	cmd.Stderr = os.Stderr
	if err := cmd.Run(); err != nil {
		return nil, fmt.Errorf("driver: %v", err)
	}
	sc := bufio.NewScanner(&out)
	sc.Buffer(make([]byte, 1<<20), 1<<28)
	var res []string
	for sc.Scan() {
		res = append(res, sc.Text())
	}
	if len(res) != len(lines) {
		return nil, fmt.Errorf("driver returned %d answers for %d lines", len(res), len(lines))
	}
	return res, nil
}

// Finish runs the model on every recorded case, compares, and writes the lane result.
func (s *Session) Finish() {
	res := Result{
		Prop: s.prop, Lane: s.lane, Seed: Seed(), Tier: map[bool]string{false: "quick", true: "thorough"}[Thorough()],
		Rule: s.rule, Hist: s.hist, ModelIsOracle: !s.OracleIndependent,
	}
	var lines []string
	var idx []int
	for i, c := range s.cases {
		if c.line != "" {
			lines = append(lines, c.line)
			idx = append(idx, i)
		}
	}
	var answers []string
	if len(lines) > 0 {
		var err error
		answers, err = RunModel(lines)
		if err != nil {
			res.Error = err.Error()
		}
	}
	res.ModelCases = len(answers)
	seen := map[[32]byte]bool{}
	for _, c := range s.cases {
		key := c.line
		if key == "" {
			key = c.impl
		}
		if c.nontriv {
			seen[sha256.Sum256([]byte(key))] = true
		}
	}
	res.Distinct = len(seen)
	res.Evaluations = len(lines) + s.nEval
	const maxReport = 25
	perClass := map[string]int{} // cap per finding class, so that known-class cases cannot crowd out a new one
	for k, i := range idx {
		if answers == nil {
			break
		}
		c := s.cases[i]
		m := answers[k]
		if m != c.impl || !c.propOK {
			res.NMismatch++
			kind := "disagree"
			if m == c.impl {
				kind = "property"
			}
			lim := maxReport
			if c.class != "" {
				lim = 3
			}
			if !c.propOK && c.class == "" {
				lim = 4 * maxReport
			}
			if perClass[c.class] < lim {
				perClass[c.class]++
				res.Mismatches = append(res.Mismatches, Mismatch{Case: c.line, Human: c.human, Model: m, Impl: c.impl, PropOK: c.propOK, Class: c.class, Kind: kind})
			}
		}
	}
	sort.SliceStable(res.Mismatches, func(i, j int) bool { return !res.Mismatches[i].PropOK && res.Mismatches[j].PropOK })
	for _, m := range s.extra {
		res.NMismatch++
		lim := 2 * maxReport
		if m.Class != "" {
			lim = 3
		}
		if perClass["x:"+m.Class] < lim {
			perClass["x:"+m.Class]++
			res.Mismatches = append(res.Mismatches, m)
		}
	}
	// samples: first, middle, last non-trivial
	var nt []string
	for _, c := range s.cases {
		if c.nontriv {
			h := c.human
			if h == "" {
				h = c.line
			}
			if len(h) > 400 {
				h = h[:400] + "…"
			}
			nt = append(nt, h)
		}
	}
	if len(nt) > 0 {
		res.Samples = append(res.Samples, nt[0])
		if len(nt) > 2 {
			res.Samples = append(res.Samples, nt[len(nt)/2])
		}
		if len(nt) > 1 {
			res.Samples = append(res.Samples, nt[len(nt)-1])
		}
	}
	res.WallS = time.Since(s.start).Seconds()
	dir := os.Getenv("VERIF_OUT")
	if dir == "" {
		dir = os.TempDir()
	}
	b, _ := json.MarshalIndent(res, "", " ")
	if err := os.WriteFile(filepath.Join(dir, s.prop+"."+s.lane+".json"), b, 0o644); err != nil {
		s.t.Fatalf("write result: %v", err)
	}
	os.Remove(filepath.Join(dir, s.prop+"."+s.lane+".current"))
	keys := make([]string, 0, len(s.hist))
	for k := range s.hist {
		keys = append(keys, k)
	}
	sort.Strings(keys)
	s.t.Logf("%s/%s: %d cases, %d distinct non-trivial, %d mismatches, hist=%v", s.prop, s.lane, res.Evaluations, res.Distinct, res.NMismatch, s.hist)
}

// Replay returns the replay file path when the run is a replay (VERIF_REPLAY), else "".
func Replay() string { return os.Getenv("VERIF_REPLAY") }

// Pick returns a random element.
func Pick[T any](r *rand.Rand, l []T) T { return l[r.Intn(len(l))] }

// RandBytes returns n random bytes drawn from alphabet (all 256 values if alphabet is empty).
func RandBytes(r *rand.Rand, n int, alphabet string) string {
	b := make([]byte, n)
	for i := range b {
		if alphabet == "" {
			b[i] = byte(r.Intn(256))
		} else {
			b[i] = alphabet[r.Intn(len(alphabet))]
		}
	}
	return string(b)
}

// Safely runs f and reports a recovered panic as (text, true).
func Safely(f func()) (panicText string, panicked bool) {
	defer func() {
		if r := recover(); r != nil {
			panicText = fmt.Sprint(r) + "\n" + string(debug.Stack())
			if len(panicText) > 6000 {
				panicText = panicText[:6000]
			}
			panicked = true
		}
	}()
	f()
	return "", false
}
