package verifh

import (
	"math/rand"
	"net/http"
	"net/textproto"
	"net/url"
	"sort"
	"strconv"
	"strings"
)

// Shared by the C05 lanes h2emit (internal/http2) and h3emit (internal/http3): requests over the full
// option matrix {no order, header order, pseudo-header order, both} x {plain, cookies, many headers,
// trailers announced, body, no body, HEAD, CONNECT, Extended CONNECT}, the case line of the Lean lane
// `c05emit`, the canonical rendering of a DECODED field list and an independent section oracle.

var C05Cells = []string{"none", "hdr", "pseudo", "both"}
var C05Features = []string{"plain", "cookies", "many", "trailers", "body", "nobody", "head", "connect", "extconnect"}

type C05EmitCase struct {
	C01FieldCase
	Proto    string // req.Proto
	Trailers string // the `trailers` argument of encodeHeaders ("" = none announced)
	Cell     string
	Feature  string
}

var c05PseudoAll = []string{":authority", ":method", ":path", ":scheme", ":protocol"}

func c05RandPseudoOrder(r *rand.Rand) []string {
	p := append([]string(nil), c05PseudoAll...)
	r.Shuffle(len(p), func(i, j int) { p[i], p[j] = p[j], p[i] })
	switch r.Intn(6) {
	case 0:
		p = p[:1+r.Intn(4)]
	case 1:
		p = append(p, "x-a", ":status")
		r.Shuffle(len(p), func(i, j int) { p[i], p[j] = p[j], p[i] })
	case 2:
		p = append(p, p[r.Intn(len(p))])
	case 3:
		p = p[:4]
	}
	return p
}

func c05TokenMethod(m string) bool {
	if m == "" {
		return true
	}
	for i := 0; i < len(m); i++ {
		c := m[i]
		if c <= ' ' || c >= 0x7f || strings.IndexByte("()<>@,;:\\\"/[]?={}", c) >= 0 {
			return false
		}
	}
	return true
}

// C05GenEmitCase draws case number c: the order cell is c%4, the feature (c/4)%9; everything else
// (method, URL, Host override, header map with all spellings, values, order lists, body kind, gzip)
// comes from the C01/C16 field-case generator.
func C05GenEmitCase(r *rand.Rand, c int) *C05EmitCase {
	profile := "order"
	if r.Intn(4) == 0 {
		profile = "plain"
	}
	base := C01GenFieldCase(r, profile)
	tc := &C05EmitCase{C01FieldCase: *base, Proto: "HTTP/1.1"}
	tc.Cell = C05Cells[c%len(C05Cells)]
	tc.Feature = C05Features[(c/len(C05Cells))%len(C05Features)]
	if !c05TokenMethod(tc.Method) {
		// the transports validate the method before the header writer runs
		tc.Method = "GET"
	}
	if tc.Header == nil {
		tc.Header = http.Header{}
	}
	if r.Intn(8) != 0 {
		// most cases: drop the invalid names/values the base generator adds, so that the request
		// reaches the encoder
		for k, vv := range tc.Header {
			bad := !c05TokenMethod(k) || k == ""
			for _, v := range vv {
				if strings.ContainsAny(v, "\r\n\x00\x01\x7f") {
					bad = true
				}
			}
			if bad && !strings.HasPrefix(k, "__") {
				delete(tc.Header, k)
			}
		}
		if tc.Host != "" && (!C01IsASCII(tc.Host) || strings.ContainsAny(tc.Host, " /\r\n\x00@#?%")) {
			tc.Host = "other.example:81"
		}
	}
	switch tc.Feature {
	case "cookies":
		k := Pick(r, []string{"Cookie", "cookie", "COOKIE"})
		tc.Header[k] = []string{Pick(r, []string{"a=1", "a=1; b=2", "a=1;b=2;  c=3", "a=1; ", ";", "", "k=v; k=v", "z=26;y=25;x=24"})}
		if r.Intn(2) == 0 {
			tc.Header[k] = append(tc.Header[k], Pick(r, []string{"s=t; u=v", "q=1", ""}))
		}
		if r.Intn(6) == 0 {
			tc.Header["cookie"] = []string{"low=1; er=2"}
		}
	case "many":
		for i, n := 0, 20+r.Intn(45); i < n; i++ {
			tc.Header["X-Gen-"+strconv.Itoa(r.Intn(80))] = []string{Pick(r, C01HdrValues[:6]), "second"}[:1+r.Intn(2)]
		}
	case "trailers":
		tc.Trailers = Pick(r, []string{"X-T1", "X-T1,X-T2", "Digest,X-Checksum,Zz"})
		tc.HasBody, tc.NoBody = true, false
		tc.CL = int64(Pick(r, []int{-1, 0, 5}))
		if r.Intn(3) == 0 {
			tc.Header[Pick(r, []string{"Trailer", "trailer"})] = []string{"User-Supplied"}
		}
	case "body":
		tc.HasBody, tc.NoBody = true, r.Intn(5) == 0
		tc.CL = int64(Pick(r, []int{0, 1, 1234, -1, 1 << 40}))
		if r.Intn(2) == 0 {
			tc.Method = Pick(r, []string{"POST", "PUT", "PATCH"})
		}
	case "nobody":
		tc.HasBody, tc.NoBody, tc.CL = false, false, 0
		if r.Intn(2) == 0 {
			tc.Method = Pick(r, []string{"POST", "PUT", "PATCH", "GET", "DELETE"})
		}
	case "head":
		tc.Method = "HEAD"
	case "connect":
		tc.Method = "CONNECT"
		tc.Proto = Pick(r, []string{"HTTP/1.1", "", "HTTP/1.1"})
	case "extconnect":
		tc.Method = "CONNECT"
		tc.Proto = Pick(r, []string{"websocket", "connect-udp", "HTTP/2.0", "webtransport"})
	}
	if tc.Feature != "connect" && tc.Feature != "extconnect" && r.Intn(12) == 0 {
		// the Proto of a request that is not CONNECT is never looked at
		tc.Proto = Pick(r, []string{"", "websocket", "HTTP/2.0"})
	}
	hasH := len(tc.Header[C01HeaderOrderKey]) > 0
	hasP := len(tc.Header[C01PseudoHeaderOrderKey]) > 0
	wantH := tc.Cell == "hdr" || tc.Cell == "both"
	wantP := tc.Cell == "pseudo" || tc.Cell == "both"
	delete(tc.Header, C01HeaderOrderKey)
	delete(tc.Header, C01PseudoHeaderOrderKey)
	if wantH {
		_ = hasH
		tc.Header[C01HeaderOrderKey] = C01RandOrder(r, tc.Header)
		if tc.Trailers != "" && r.Intn(2) == 0 {
			tc.Header[C01HeaderOrderKey] = append(tc.Header[C01HeaderOrderKey], "trailer")
		}
	}
	if wantP {
		_ = hasP
		if r.Intn(2) == 0 {
			tc.Header[C01PseudoHeaderOrderKey] = c05RandPseudoOrder(r)
		} else {
			tc.Header[C01PseudoHeaderOrderKey] = C01RandPseudoOrder(r)
		}
	}
	if r.Intn(25) == 0 {
		// an order key that is present but empty counts as "not set"
		k := Pick(r, []string{C01HeaderOrderKey, C01PseudoHeaderOrderKey})
		if _, ok := tc.Header[k]; !ok {
			tc.Header[k] = []string{}
		}
	}
	return tc
}

// Request builds the *http.Request of the case (header map cloned).
func (tc *C05EmitCase) Request() (*http.Request, error) {
	u, err := url.Parse(tc.RawURL)
	if err != nil {
		return nil, err
	}
	req := &http.Request{Method: tc.Method, URL: u, Host: tc.Host, Header: tc.Header.Clone(), Proto: tc.Proto, ContentLength: tc.CL}
	if req.Header == nil {
		req.Header = http.Header{}
	}
	if tc.HasBody {
		if tc.NoBody {
			req.Body = http.NoBody
		} else {
			req.Body = c05Body{}
		}
	}
	if tc.Trailers != "" {
		req.Trailer = http.Header{}
		for _, k := range strings.Split(tc.Trailers, ",") {
			req.Trailer[k] = nil
		}
	}
	return req, nil
}

type c05Body struct{}

func (c05Body) Read([]byte) (int, error) { return 0, nil }
func (c05Body) Close() error             { return nil }

// C05EmitLine renders the case for the Lean lane `c05emit`.
func C05EmitLine(flavor string, tc *C05EmitCase) string {
	lim := "-"
	if tc.Limit != 0 {
		lim = strconv.FormatUint(tc.Limit, 10)
	}
	return "c05emit " + flavor + " " + Hex(tc.Method) + " " + Hex(tc.RawURL) + " " + Hex(tc.Host) + " " + C01QMap(tc.Header) + " " +
		strconv.FormatInt(tc.CL, 10) + " " + C01B(tc.HasBody) + " " + C01B(tc.NoBody) + " " + C01B(tc.Gzip) + " " + lim + " " +
		Hex(tc.Proto) + " " + Hex(tc.Trailers)
}

// C05SectionOK is the request-section rule written from RFC 9113 8.2/8.3.1 and RFC 9114 4.2/4.3.1
// (independently of the Lean `requestSectionOK`): all pseudo-header fields precede all regular
// fields; each is one of the five request pseudo-header fields and occurs exactly once; :method and
// :authority are there; :path and :scheme come together; :protocol only with them; regular names
// are non-empty lower-case tokens and not connection-specific.
func C05SectionOK(fields [][2]string) (bool, string) {
	seen := map[string]int{}
	regular := false
	for _, f := range fields {
		n := f[0]
		if strings.HasPrefix(n, ":") {
			if regular {
				return false, "pseudo-header field " + n + " after a regular field"
			}
			switch n {
			case ":authority", ":method", ":path", ":scheme", ":protocol":
			default:
				return false, "unknown pseudo-header field " + n
			}
			seen[n]++
			if seen[n] > 1 {
				return false, "pseudo-header field " + n + " repeated"
			}
			continue
		}
		regular = true
		if n == "" || !c01Token(n) || n != strings.ToLower(n) {
			return false, "regular field name " + strconv.Quote(n) + " is not a lower-case token"
		}
		switch n {
		case "connection", "proxy-connection", "transfer-encoding", "upgrade", "keep-alive":
			return false, "connection-specific field " + n
		}
	}
	if seen[":method"] != 1 || seen[":authority"] != 1 {
		return false, ":method / :authority missing"
	}
	if seen[":path"] != seen[":scheme"] {
		return false, ":path and :scheme not together"
	}
	if seen[":protocol"] == 1 && seen[":path"] != 1 {
		return false, ":protocol without :path/:scheme"
	}
	return true, ""
}

// C05ShowEmitted is the canonical answer for a decoded field list in arrival order, the Go twin of
// the Lean `showEmitted`.
func C05ShowEmitted(h http.Header, fields [][2]string) string {
	var pseudo, regular [][2]string
	shape := make([]byte, 0, len(fields))
	for _, f := range fields {
		if strings.HasPrefix(f[0], ":") {
			pseudo = append(pseudo, f)
			shape = append(shape, 'p')
		} else {
			regular = append(regular, f)
			shape = append(shape, 'r')
		}
	}
	lower := map[string]bool{}
	collide := false
	for k := range h {
		lk := c05Lower(k)
		if lower[lk] {
			collide = true
		}
		lower[lk] = true
	}
	order := h[C01HeaderOrderKey]
	var listed []string
	if len(order) > 0 {
		for _, f := range regular {
			if C01OrderIndex(order, f[0]) >= 0 {
				listed = append(listed, textproto.CanonicalMIMEHeaderKey(f[0]))
			}
		}
	}
	sorted := append([][2]string(nil), regular...)
	if collide {
		sort.SliceStable(sorted, func(i, j int) bool {
			if sorted[i][0] != sorted[j][0] {
				return sorted[i][0] < sorted[j][0]
			}
			return sorted[i][1] < sorted[j][1]
		})
	} else {
		sort.SliceStable(sorted, func(i, j int) bool { return sorted[i][0] < sorted[j][0] })
	}
	ok, _ := C05SectionOK(fields)
	sh := string(shape)
	if sh == "" {
		sh = "-"
	}
	return "ok " + c01FieldList(pseudo) + " " + c01FieldList(sorted) + " " + HexList(listed) + " " + sh + " " + C01B(ok)
}

// ASCII lower-casing (the model's `lower`).
func c05Lower(s string) string {
	b := []byte(s)
	for i, c := range b {
		if 'A' <= c && c <= 'Z' {
			b[i] = c + 32
		}
	}
	return string(b)
}

// C05ReqSecLine renders a decoded list for the Lean lane `c05reqsec`.
func C05ReqSecLine(fields [][2]string) string {
	ns := make([]string, len(fields))
	vs := make([]string, len(fields))
	for i, f := range fields {
		ns[i], vs[i] = f[0], f[1]
	}
	return "c05reqsec " + HexList(ns) + " " + HexList(vs)
}

// C05TEForwarded: the request carries a TE header with a value other than "trailers"; the writers
// forward it (as the upstream writers do), and the receive side rejects such a section.
func C05TEForwarded(h http.Header) bool {
	for k, vv := range h {
		if c05Lower(k) == "te" {
			for _, v := range vv {
				if v != "trailers" {
					return true
				}
			}
		}
	}
	return false
}
