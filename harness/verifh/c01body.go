package verifh

import (
	"errors"
	"fmt"
	"io"
	"math/rand"
	"sync"
)

// ErrC01Boom is the non-EOF error of a scripted body reader.
var ErrC01Boom = errors.New("c01: scripted body reader failure")

// C01BodyReader is the Go twin of the Lean `Reader` (Req/H2/BodyWrite.lean): it yields Data in
// reads of the scripted Sizes (each capped by len(p) and by what is left; 0 = a (0, nil) read;
// once the script is used up a read fills p) and ends as Ending says: "eof" (0, io.EOF) after the
// last bytes, "eofl" io.EOF together with the last bytes, "err" (0, ErrC01Boom) after the last
// bytes, "errl" ErrC01Boom together with the last bytes. It records len(p) of every Read.
type C01BodyReader struct {
	Mu      sync.Mutex
	Data    []byte
	Sizes   []int
	Ending  string
	BufLens []int
	Out     int
	i       int
}

func (b *C01BodyReader) Read(p []byte) (int, error) {
	b.Mu.Lock()
	defer b.Mu.Unlock()
	b.BufLens = append(b.BufLens, len(p))
	if len(b.Data) == 0 {
		if b.Ending == "err" || b.Ending == "errl" {
			return 0, ErrC01Boom
		}
		return 0, io.EOF
	}
	n := len(p)
	if b.i < len(b.Sizes) {
		if b.Sizes[b.i] < n {
			n = b.Sizes[b.i]
		}
		b.i++
	}
	if n > len(b.Data) {
		n = len(b.Data)
	}
	copy(p, b.Data[:n])
	b.Data = b.Data[n:]
	b.Out += n
	if len(b.Data) == 0 {
		switch b.Ending {
		case "eofl":
			return n, io.EOF
		case "errl":
			return n, ErrC01Boom
		}
	}
	return n, nil
}

func (b *C01BodyReader) Close() error { return nil }

// FirstBufLen is len(p) of the first Read that was not the one-byte probe (0 = never read).
func (b *C01BodyReader) FirstBufLen() int {
	b.Mu.Lock()
	defer b.Mu.Unlock()
	for _, l := range b.BufLens {
		if l != 1 {
			return l
		}
	}
	if len(b.BufLens) > 0 {
		return b.BufLens[0]
	}
	return 0
}

// ---------------------------------------------------------------- the ONE generator of reader behaviours
//
// Every C01 body lane (h1body, h2body, h3body) draws its body reader from C01GenReaderScript and its
// declared length from C01GenDeclared, so that a reader behaviour added here reaches all three
// protocol writers. The alphabet is exactly the Lean `Reader` script type
// (Req/H2/BodyWrite.lean): the bytes (gen.<n>.<a>.<b>), the sizes of the successive reads
// (0 = a (0, nil) read, 1, small, the lane's buffer boundaries ±1, larger than any buffer), and the
// ending: "eof" (0, io.EOF) after the last bytes, "eofl" the last bytes TOGETHER with io.EOF, "err"
// (0, err) after the last bytes, "errl" the last bytes together with a non-EOF error.
// Over-long / under-long readers are this script combined with a declared length that differs from
// n (C01GenDeclared: absent / exact / the reader yields fewer / the reader yields more).

type C01ReaderScript struct {
	N, Ga, Gb int
	Sizes     []int
	Ending    string
}

// C01Endings is the ending alphabet (weights: honest endings are more frequent).
var C01Endings = []string{"eof", "eof", "eof", "eofl", "eofl", "err", "errl"}

// C01GenReaderScript: bodySizes = the lane's boundary sizes, maxRandom = bound of the random
// sizes (a third of the cases), readSizes = the lane's read-size boundaries (0, 1 and 7 are always
// in the alphabet).
func C01GenReaderScript(r *rand.Rand, bodySizes []int, maxRandom int, readSizes []int) C01ReaderScript {
	sc := C01ReaderScript{Ga: 1 + r.Intn(250), Gb: r.Intn(251)}
	sc.N = Pick(r, bodySizes)
	if r.Intn(3) == 0 {
		sc.N = r.Intn(maxRandom)
	}
	alphabet := append([]int{0, 1, 7}, readSizes...)
	for k, m := 0, r.Intn(7); k < m; k++ {
		sc.Sizes = append(sc.Sizes, Pick(r, alphabet))
	}
	sc.Ending = Pick(r, C01Endings)
	return sc
}

func (sc C01ReaderScript) Body() []byte { return C01GenBody(sc.N, sc.Ga, sc.Gb) }

func (sc C01ReaderScript) Reader() *C01BodyReader {
	return &C01BodyReader{Data: sc.Body(), Sizes: sc.Sizes, Ending: sc.Ending}
}

// Spec is the body as the Lean driver decodes it.
func (sc C01ReaderScript) Spec() string { return fmt.Sprintf("gen.%d.%d.%d", sc.N, sc.Ga, sc.Gb) }

func (sc C01ReaderScript) Honest() bool { return sc.Ending == "eof" || sc.Ending == "eofl" }

func (sc C01ReaderScript) String() string {
	return fmt.Sprintf("body=%d sizes=%v ending=%s", sc.N, sc.Sizes, sc.Ending)
}

// C01GenDeclared draws the declared content length for a reader that yields n bytes: -1 = none,
// n = truthful, above n = the reader is under-long, below n (but ≥ 1) = the reader is over-long.
// class is "none" / "exact" / "reader-short" / "reader-long".
func C01GenDeclared(r *rand.Rand, n int) (int64, string) {
	switch r.Intn(20) {
	case 0, 1, 2, 3, 4, 5, 6:
		if n > 0 {
			return int64(n), "exact"
		}
	case 7, 8, 9:
		return int64(n + Pick(r, []int{1, 2, 10, 1000, 20000})), "reader-short"
	case 10, 11, 12:
		if n >= 2 {
			cl := n - Pick(r, []int{1, 1, 2, n / 2, n - 1})
			if cl < 1 {
				cl = 1
			}
			return int64(cl), "reader-long"
		}
	}
	return -1, "none"
}
