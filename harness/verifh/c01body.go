package verifh

import (
	"errors"
	"io"
	"sync"
)

// ErrC01Boom is the non-EOF error of a scripted body reader.
var ErrC01Boom = errors.New("c01: scripted body reader failure")

// C01BodyReader is the Go twin of the Lean `Reader` (Req/H2/BodyWrite.lean): it yields Data in
// reads of the scripted Sizes (each capped by len(p) and by what is left; 0 = a (0, nil) read;
// once the script is used up a read fills p) and ends as Ending says: "eof" (0, io.EOF) after the
// last bytes, "eofl" io.EOF together with the last bytes, "err" (0, ErrC01Boom) after the last
// bytes, "errl" ErrC01Boom together with the last bytes. It records len(p) of every Read.
type C01BodyReader struct {
	Mu      sync.Mutex
	Data    []byte
	Sizes   []int
	Ending  string
	BufLens []int
	Out     int
	i       int
}

func (b *C01BodyReader) Read(p []byte) (int, error) {
	b.Mu.Lock()
	defer b.Mu.Unlock()
	b.BufLens = append(b.BufLens, len(p))
	if len(b.Data) == 0 {
		if b.Ending == "err" || b.Ending == "errl" {
			return 0, ErrC01Boom
		}
		return 0, io.EOF
	}
	n := len(p)
	if b.i < len(b.Sizes) {
		if b.Sizes[b.i] < n {
			n = b.Sizes[b.i]
		}
		b.i++
	}
	if n > len(b.Data) {
		n = len(b.Data)
	}
	copy(p, b.Data[:n])
	b.Data = b.Data[n:]
	b.Out += n
	if len(b.Data) == 0 {
		switch b.Ending {
		case "eofl":
			return n, io.EOF
		case "errl":
			return n, ErrC01Boom
		}
	}
	return n, nil
}

func (b *C01BodyReader) Close() error { return nil }

// FirstBufLen is len(p) of the first Read that was not the one-byte probe (0 = never read).
func (b *C01BodyReader) FirstBufLen() int {
	b.Mu.Lock()
	defer b.Mu.Unlock()
	for _, l := range b.BufLens {
		if l != 1 {
			return l
		}
	}
	if len(b.BufLens) > 0 {
		return b.BufLens[0]
	}
	return 0
}
