//go:build verif

package internal

// C04 — the chunked reader alone, three-way: Lean model (`decodeChunked`) vs the fork's
// NewChunkedReader vs Go's reference reader (net/http/httputil.NewChunkedReader, which is
// net/http/internal's), on generated chunked streams, for read-buffer sizes {16,64,4096} and
// several caller read sizes; the error KIND (eof | chunk | toolong) is part of the answer.  Unlike the whole-response lane this one sees the reader's own
// error/EOF verdict (no trailer reader behind it).

import (
	"bufio"
	"bytes"
	"fmt"
	"io"
	"math/rand"
	"net/http/httputil"
	"strconv"
	"strings"
	"testing"

	"github.com/imroc/req/v3/internal/verifh"
)

type c04SegReader struct {
	data []byte
	max  int
}

func (r *c04SegReader) Read(p []byte) (int, error) {
	if len(r.data) == 0 {
		return 0, io.EOF
	}
	n := len(r.data)
	if n > len(p) {
		n = len(p)
	}
	if r.max > 0 && n > r.max {
		n = r.max
	}
	copy(p, r.data[:n])
	r.data = r.data[n:]
	return n, nil
}

func c04ChunkRun(mk func(io.Reader) io.Reader, stream []byte, B, seg, readSize int) string {
	var out string
	txt, p := verifh.Safely(func() {
		br := bufio.NewReaderSize(&c04SegReader{data: stream, max: seg}, B)
		cr := mk(br)
		var body []byte
		buf := make([]byte, readSize)
		var err error
		for i := 0; ; i++ {
			var n int
			n, err = cr.Read(buf)
			body = append(body, buf[:n]...)
			if err != nil {
				break
			}
			if i > 4*len(stream)+1000 {
				out = "hang body=" + verifh.Hex(string(body))
				return
			}
		}
		if err == io.EOF {
			rest, _ := io.ReadAll(br)
			out = "eof body=" + verifh.Hex(string(body)) + " rest=" + verifh.Hex(string(rest))
		} else {
			out = "err:" + c04ChunkErrClass(err) + " body=" + verifh.Hex(string(body))
		}
	})
	if p {
		return "panic " + txt
	}
	return out
}

// c04ChunkErrClass maps a reader error to the canonical class (texts are those of
// net/http/internal of go1.23.5, which the fork copies).
func c04ChunkErrClass(err error) string {
	msg := err.Error()
	switch {
	case err == io.ErrUnexpectedEOF:
		return "eof"
	case msg == "header line too long":
		return "toolong"
	case msg == "malformed chunked encoding", msg == "empty hex number for chunk length", msg == "invalid byte in chunk length",
		msg == "http chunk length too large", msg == "chunked encoding contains too much non-data":
		return "chunk"
	}
	return "other(" + msg + ")"
}

func c04ChunkClassOf(body []byte, B int) string {
	var excess int64
	for {
		i := bytes.IndexByte(body, '\n')
		if i < 0 || i+1 > B || i+1 >= 4096 {
			return ""
		}
		line := body[:i+1]
		body = body[i+1:]
		excess += int64(len(line)) + 2
		line = bytes.TrimRight(line, " \t\r\n")
		if j := bytes.IndexByte(line, ';'); j >= 0 {
			line = line[:j]
		}
		if len(line) == 0 {
			return "chunk-empty-size"
		}
		if len(line) > 16 {
			return ""
		}
		n, err := strconv.ParseUint(string(line), 16, 64)
		if err != nil {
			return ""
		}
		excess -= 16 + 2*int64(n)
		if excess < 0 {
			excess = 0
		}
		if n == 0 {
			return ""
		}
		if excess > 16*1024 {
			return "chunk-excess"
		}
		if n > uint64(len(body)) || uint64(len(body)) < n+2 || body[n] != '\r' || body[n+1] != '\n' {
			return ""
		}
		body = body[n+2:]
	}
}

func c04GenChunked(r *rand.Rand) (string, []string) {
	var sb strings.Builder
	var tags []string
	tag := func(s string) { tags = append(tags, s) }
	pick := func(l []string) string { return l[r.Intn(len(l))] }
	switch r.Intn(30) {
	case 0:
		tag("excess-long-ext")
		for i, k := 0, 4+r.Intn(5); i < k; i++ {
			sb.WriteString("1;" + strings.Repeat("x", 2900+r.Intn(1100)) + "\r\nD\r\n")
		}
		sb.WriteString("0\r\n\r\n")
		return sb.String(), tags
	case 1:
		tag("excess-many")
		ext := strings.Repeat("y", 30+r.Intn(29))
		for i, k := 0, 300+r.Intn(200); i < k; i++ {
			sb.WriteString("1;" + ext + "\r\nD\r\n")
		}
		sb.WriteString("0\r\n\r\n")
		return sb.String(), tags
	}
	n := r.Intn(6)
	for i := 0; i < n; i++ {
		sz := 1 + r.Intn(40)
		switch r.Intn(8) {
		case 0:
			sz = []int{15, 16, 17, 63, 64, 65, 255, 256}[r.Intn(8)]
		case 1:
			sz = 1
		}
		data := verifh.RandBytes(r, sz, "abcdef\r\n0123;")
		hex := strconv.FormatInt(int64(sz), 16)
		switch r.Intn(10) {
		case 0:
			hex = strings.ToUpper(hex)
		case 1:
			hex = strings.Repeat("0", 1+r.Intn(3)) + hex
		case 2:
			hex = strings.Repeat("0", 16-len(hex)) + hex
			tag("hex16")
		case 3:
			if r.Intn(3) == 0 {
				hex = strings.Repeat("0", 17-len(hex)) + hex
				tag("hex17")
			}
		}
		ext := ""
		switch r.Intn(12) {
		case 0:
			ext = ";a=b"
			tag("ext")
		case 1:
			ext = " ;x"
			tag("ext")
		case 2:
			ext = ";" + strings.Repeat("e", []int{8, 12, 13, 14, 56, 60, 61, 62, 4080, 4090, 4091, 4092, 4093, 4094}[r.Intn(14)])
			tag("ext-long")
		case 3:
			ext = pick([]string{" ", "\t", " \t ", "\r"})
		}
		line := hex + ext
		switch r.Intn(50) {
		case 0:
			line = pick([]string{"", ";ext", " ", "\t;x"})
			tag("size-empty")
		case 1:
			line = pick([]string{"g", "0x5", "-5", "5 5", "+5"})
			tag("size-bad")
		case 2:
			line = pick([]string{"ffffffffffffffff", "10000000000000000", "7fffffffffffffff"})
			tag("size-huge")
		case 3:
			line = strconv.FormatInt(int64(sz+1+r.Intn(3)), 16)
			tag("size-lies")
		}
		eol := "\r\n"
		if r.Intn(20) == 0 {
			eol = pick([]string{"\n", "\r\r\n"})
		}
		after := "\r\n"
		if r.Intn(25) == 0 {
			after = pick([]string{"\n", "", "\r\r\n", "\rX", "XX"})
			tag("bad-crlf")
		}
		sb.WriteString(line + eol + data + after)
	}
	last := "0"
	switch r.Intn(20) {
	case 0:
		last = "00"
	case 1:
		last = "0;ext"
	case 2:
		last = ""
		tag("size-empty")
	case 3:
		last = "0 "
	}
	sb.WriteString(last + "\r\n")
	sb.WriteString(pick([]string{"\r\n", "\r\n", "\r\nREST", "X-T: v\r\n\r\n", ""}))
	return sb.String(), tags
}

func TestVerif_C04_chunk(t *testing.T) {
	s := verifh.New(t, "C04", "chunk",
		"chunked streams from the chunk grammar (sizes upper/lower/zero-padded to 16 and 17 digits, empty/invalid/huge/lying size fields, extensions incl. lengths around the 16/64/4096-byte line limits, "+
			"whitespace before CRLF, bare LF, bad CRLF after data, overhead attacks), 1/6 cut at a random offset, 1/5 byte-mutated; x read buffer {16,64,4096}; "+
			"fork and reference (httputil.NewChunkedReader, go1.23.5) each run under two segmentations and read sizes; non-trivial = at least one data byte delivered")
	s.OracleIndependent = true
	r := s.Rand()
	n := verifh.N(4000, 80000)
	reached := map[string]int{}
	interesting := []byte("\r\n ;0159afAF\x00gx")
	// Probes for the two known defects (missing upstream checks). A defect that is present is
	// reported once, through its probe case and class; inputs of that class are then skipped
	// so that thousands of instances of a known finding cannot crowd out an unknown one.
	probes := map[string]string{
		"chunk-empty-size": "5\r\nhello\r\n\r\n\r\n",
		"chunk-excess":     strings.Repeat("1;"+strings.Repeat("x", 3000)+"\r\nD\r\n", 7) + "0\r\n\r\n",
	}
	present := map[string]bool{}
	for _, cls := range []string{"chunk-empty-size", "chunk-excess"} {
		pf := c04ChunkRun(NewChunkedReader, []byte(probes[cls]), 4096, 0, 4096)
		pr := c04ChunkRun(httputil.NewChunkedReader, []byte(probes[cls]), 4096, 0, 4096)
		present[cls] = pf != pr
		h := "probe " + cls + ": fork -> " + pf + " ; reference -> " + pr
		if len(h) > 400 {
			h = h[:400] + "…"
		}
		s.Case("c04chunkE 4096 "+verifh.Hex(probes[cls]), pf, pf == pr, cls, true, h)
		if present[cls] {
			s.Count("defect-present:" + cls)
		}
	}
	runStream := func(stream string) {
		sb := []byte(stream)
		for _, B := range []int{16, 64, 4096} {
			base := c04ChunkRun(NewChunkedReader, sb, B, 0, 4096)
			agree := true
			note := ""
			for i := 0; i < 2; i++ {
				seg := []int{0, 1, 3, 17}[r.Intn(4)]
				rs := []int{1, 2, 7, 64, 4096}[r.Intn(5)]
				if f := c04ChunkRun(NewChunkedReader, sb, B, seg, rs); f != base {
					agree = false
					note = "fork seg=" + strconv.Itoa(seg) + " read=" + strconv.Itoa(rs) + " -> " + f
				}
				if ref := c04ChunkRun(httputil.NewChunkedReader, sb, B, seg, rs); ref != base {
					agree = false
					note = "reference -> " + ref
				}
			}
			class := c04ChunkClassOf(sb, B)
			if class != "" {
				s.Count("class:" + class)
				if present[class] {
					s.Count("skipped-known-class")
					continue
				}
				class = ""
			}
			kind := strings.SplitN(base, " ", 2)[0]
			s.Count(kind)
			reached[kind]++
			if strings.HasPrefix(kind, "err:") {
				reached["err"]++
			}
			human := "B=" + strconv.Itoa(B) + " " + strconv.QuoteToASCII(stream)
			if len(human) > 300 {
				human = human[:300] + "…"
			}
			human += " -> " + base
			if len(human) > 500 {
				human = human[:500] + "…"
			}
			if note != "" {
				if len(note) > 200 {
					note = note[:200] + "…"
				}
				human += " BUT " + note
			}
			s.Case("c04chunkE "+strconv.Itoa(B)+" "+verifh.Hex(stream), base, agree, class, !strings.Contains(base, "body=_"), human)
		}
		}
	// the byte-position matrix: all 256 byte values at every position of the chunk framing
	for _, bp := range c04ChunkBytePositions() {
		for b := 0; b < 256; b++ {
			s.Count("byte-position")
			reached["byte-position"]++
			runStream(bp.tmpl[:bp.pos] + string([]byte{byte(b)}) + bp.tmpl[bp.pos+1:])
		}
	}
	// the single-fault matrix first (deterministic): every chunk-size line, last-chunk line,
	// byte sequence after chunk data and extension length of the tables on an otherwise clean body
	for _, st := range c04ChunkSingleFault() {
		s.Count("single-fault")
		reached["single-fault"]++
		runStream(st)
	}
	for _, st := range c04ExcessBoundary() {
		s.Count("excess-boundary")
		reached["excess-boundary"]++
		if strings.HasPrefix(c04ChunkRun(NewChunkedReader, []byte(st), 4096, 0, 4096), "eof") {
			reached["excess-boundary-accepted"]++
		} else {
			reached["excess-boundary-refused"]++
		}
		runStream(st)
	}
	for c := 0; c < n; c++ {
		stream, tags := c04GenChunked(r)
		if r.Intn(6) == 0 && len(stream) > 0 {
			stream = stream[:r.Intn(len(stream)+1)]
			tags = append(tags, "cut")
		}
		if r.Intn(5) == 0 && len(stream) > 0 {
			b := []byte(stream)
			pos := r.Intn(len(b))
			switch r.Intn(3) {
			case 0:
				b[pos] = interesting[r.Intn(len(interesting))]
			case 1:
				b = append(b[:pos], b[pos+1:]...)
			case 2:
				b = append(b[:pos], append([]byte{interesting[r.Intn(len(interesting))]}, b[pos:]...)...)
			}
			stream = string(b)
			tags = append(tags, "mutated")
		}
		for _, tg := range tags {
			s.Count("gen:" + tg)
			reached["gen:"+tg]++
		}
		runStream(stream)
	}
	s.Finish()
	for _, need := range []string{"single-fault", "byte-position", "eof", "err", "err:eof", "err:chunk", "err:toolong", "gen:ext", "gen:ext-long", "gen:size-empty", "gen:size-bad", "gen:hex16", "gen:bad-crlf", "gen:cut", "gen:mutated", "gen:excess-long-ext", "gen:excess-many", "excess-boundary", "excess-boundary-accepted", "excess-boundary-refused"} {
		if reached[need] == 0 {
			t.Errorf("C04/chunk never reached %q", need)
		}
	}
}

// c04ChunkSingleFault: one fault per stream, everything else clean.
func c04ChunkSingleFault() []string {
	var out []string
	sizes := []string{"5", "05", "0005", "5;x", "5;x=y", "5 ;x", "5\t;x", "5; x", "5 ", "5\t", "5 \t ", " 5", "\t5", "5;", "5;;", "+5", "-5", "0x5", "5x", "5 5", "", " ", ";x", " ;x", "\t;x", "g",
		"0000000000000005", "00000000000000005", "000000000000000000005", "ffffffffffffffff", "7fffffffffffffff", "8000000000000000", "10000000000000000", "7ffff9ffffffffff",
		"5\r", "5\r\r", "5;x\r", "５", "5;\"a;b\"", "A", "a", "0A", "5\x00", "5;\x00"}
	for _, sz := range sizes {
		for _, eol := range []string{"\r\n", "\n"} {
			out = append(out, sz+eol+"hello\r\n0\r\n\r\nREST", "3\r\nabc\r\n"+sz+eol+"hello\r\n0\r\n\r\nREST")
		}
	}
	for _, n := range []int{8, 12, 13, 14, 15, 56, 60, 61, 62, 63, 4080, 4088, 4089, 4090, 4091, 4092, 4093, 4094, 4095, 5000} {
		out = append(out, "5;"+strings.Repeat("e", n)+"\r\nhello\r\n0\r\n\r\nREST", "5;"+strings.Repeat("e", n)+"\nhello\r\n0\r\n\r\nREST")
	}
	for _, last := range []string{"0", "00", "0000000000000000", "00000000000000000", "0;x", "0 ;x", "0 ", "0\t", "", " ", ";x", "0\r", "-0", "+0", "0x0", "O"} {
		for _, eol := range []string{"\r\n", "\n", ""} {
			out = append(out, "5\r\nhello\r\n"+last+eol+"\r\nREST", last+eol)
		}
	}
	for _, after := range []string{"\r\n", "\n", "", "\r", "\rX", "XX", "\r\r\n", "\n\r", " \r\n", "\r\n\r\n", "X\r\n"} {
		out = append(out, "5\r\nhello"+after+"0\r\n\r\nREST", "5\r\nhello"+after)
	}
	for _, lie := range []string{"4", "6", "7", "0", "ffffffff"} {
		out = append(out, lie+"\r\nhello\r\n0\r\n\r\nREST")
	}
	// round 6, unicode-fold family: every hex digit of a size line (single, first, last, the last
	// chunk's 0) replaced by a non-ASCII look-alike — fullwidth digits and letters, Arabic-Indic /
	// extended Arabic-Indic / Devanagari / mathematical digits: valid for unicode.IsDigit-style
	// parsers, not for the chunk-size grammar
	for _, sz := range []string{"5", "05", "50", "a", "A", "1f", "F1", "0"} {
		for i := 0; i < len(sz); i++ {
			for _, l := range c04ChunkLookalikes(sz[i]) {
				v := sz[:i] + l + sz[i+1:]
				n, _ := strconv.ParseUint(sz, 16, 64)
				if n == 0 {
					out = append(out, "5\r\nhello\r\n"+v+"\r\n\r\nREST")
					continue
				}
				out = append(out, v+"\r\n"+strings.Repeat("d", int(n))+"\r\n0\r\n\r\nREST", v+";x\n"+strings.Repeat("d", int(n))+"\r\n0\r\n\r\nREST")
			}
		}
	}
	clean := "5;e\r\nhello\r\n00a\r\n0123456789\r\n0\r\n\r\n"
	for k := 0; k <= len(clean); k++ {
		out = append(out, clean[:k])
	}
	return out
}

// c04ChunkLookalikes: non-ASCII UTF-8 strings that Unicode-aware digit / case handling maps onto
// the ASCII hex digit c.
func c04ChunkLookalikes(c byte) []string {
	var out []string
	switch {
	case c >= '0' && c <= '9':
		d := int(c - '0')
		out = append(out, string(rune(0xff10+d)), string(rune(0x0660+d)), string(rune(0x06f0+d)), string(rune(0x0966+d)), string(rune(0x1d7ce+d)))
	case (c|0x20) >= 'a' && (c|0x20) <= 'f':
		out = append(out, string(rune(0xff41+int((c|0x20)-'a'))), string(rune(0xff21+int((c|0x20)-'a'))))
	}
	return out
}

type c04ChunkBytePos struct {
	tmpl string
	pos  int
}

// c04ChunkBytePositions: every byte of the chunk framing of a clean two-chunk body: the size
// digits (first, middle, last, single), ';', extension bytes, every CR and LF, the last-chunk "0".
func c04ChunkBytePositions() []c04ChunkBytePos {
	var out []c04ChunkBytePos
	at := func(pre, field, post string) {
		for i := range field {
			out = append(out, c04ChunkBytePos{tmpl: pre + field + post, pos: len(pre) + i})
		}
	}
	data26 := "abcdefghijklmnopqrstuvwxyz"
	at("", "01a;x=y\r\n", data26+"\r\n0\r\n\r\nREST")
	at("", "5\r\n", "hello\r\n0\r\n\r\nREST")
	at("3\r\nabc\r\n", "1A\r\n", data26+"\r\n0\r\n\r\nREST")
	at("5\r\nhello", "\r\n", "0\r\n\r\nREST")
	at("5\r\nhello\r\n", "0\r\n", "\r\nREST")
	at("5\r\nhello\r\n", "000;e\r\n", "\r\nREST")
	return out
}

// c04ExcessBoundary (round 5): chunked bodies whose overhead balance (`chunkedReader.excess`:
// + len(size line incl. LF) + 2, - 16 - 2*n per chunk, clamped at 0, error above 16 KiB after a
// data chunk) lands at the limit -1 / +0 / +1 / +2, reached through every kind of non-data byte:
// extensions, blanks before the CRLF, zero padding, many small chunks (lines that fit a 64-byte
// buffer), bare-LF line ends, with refunds by data-rich chunks before (clamp at 0) and in between,
// and the last-chunk line, which is never refused for overhead.
func c04ExcessBoundary() []string {
	const limit = 16 * 1024
	var out []string
	// a size line of exactly L bytes, EOL included
	ext := func(sz string, L int, eol string) string {
		return sz + ";" + strings.Repeat("x", L-len(sz)-1-len(eol)) + eol
	}
	blanks := func(sz string, L int, eol string) string {
		return sz + strings.Repeat(" ", (L-len(sz)-len(eol))/2) + strings.Repeat("\t", L-len(sz)-len(eol)-(L-len(sz)-len(eol))/2) + eol
	}
	chunk := func(line string, n int) string { return line + strings.Repeat("D", n) + "\r\n" }
	type step struct {
		L, n int
		mk   func(sz string, L int, eol string) string
		eol  string
	}
	build := func(pre []step, fin step, delta int, lastLine string) (string, bool) {
		ex := 0
		var sb strings.Builder
		for _, s := range pre {
			sb.WriteString(chunk(s.mk(fmt.Sprintf("%x", s.n), s.L, s.eol), s.n))
			ex += s.L + 2 - 16 - 2*s.n // the line as ReadSlice returns it (CR and LF included) + 2
			if ex < 0 {
				ex = 0
			}
		}
		// length of the final line that puts the balance at limit + delta
		L := limit + delta - ex - 2 + 16 + 2*fin.n
		sz := fmt.Sprintf("%x", fin.n)
		if fin.L < 0 { // zero padded to 16 digits
			sz = fmt.Sprintf("%016x", fin.n)
		}
		if L >= 4096 || L < len(sz)+1+len(fin.eol) {
			return "", false
		}
		sb.WriteString(chunk(fin.mk(sz, L, fin.eol), fin.n))
		sb.WriteString(lastLine + "\r\nREST")
		return sb.String(), true
	}
	rep := func(s step, k int) []step {
		var o []step
		for i := 0; i < k; i++ {
			o = append(o, s)
		}
		return o
	}
	big := step{L: 4000, n: 1, mk: ext, eol: "\r\n"} // +3984 each
	fams := []struct {
		pre  []step
		fin  step
		last string
	}{
		{rep(big, 4), step{n: 1, mk: ext, eol: "\r\n"}, "0\r\n"},
		{rep(step{L: 4000, n: 1, mk: blanks, eol: "\r\n"}, 4), step{n: 1, mk: blanks, eol: "\r\n"}, "0\r\n"},
		{rep(big, 4), step{L: -1, n: 1, mk: ext, eol: "\r\n"}, "0\r\n"},
		{rep(big, 4), step{n: 1, mk: ext, eol: "\n"}, "0\r\n"},
		{rep(step{L: 4000, n: 1, mk: ext, eol: "\n"}, 4), step{n: 1, mk: blanks, eol: "\n"}, "0\r\n"},
		{rep(step{L: 56, n: 1, mk: ext, eol: "\r\n"}, 409), step{n: 1, mk: ext, eol: "\r\n"}, "0\r\n"},
		{rep(step{L: 36, n: 1, mk: ext, eol: "\r\n"}, 815), step{n: 1, mk: ext, eol: "\r\n"}, "0\r\n"},
		{append([]step{{L: 5, n: 1000, mk: blanks, eol: "\r\n"}}, rep(big, 4)...), step{n: 1, mk: ext, eol: "\r\n"}, "0\r\n"},
		{append(rep(big, 4), step{L: 4, n: 100, mk: blanks, eol: "\r\n"}), step{n: 1, mk: ext, eol: "\r\n"}, "0\r\n"},
		{append(rep(big, 2), append([]step{{L: 5, n: 2000, mk: blanks, eol: "\r\n"}}, rep(big, 4)...)...), step{n: 1, mk: ext, eol: "\r\n"}, "0\r\n"},
		{rep(big, 4), step{n: 7, mk: ext, eol: "\r\n"}, "0\r\n"},
		{rep(big, 4), step{n: 1, mk: ext, eol: "\r\n"}, "0;" + strings.Repeat("y", 4000) + "\r\n"},
		{rep(big, 4), step{n: 1, mk: ext, eol: "\r\n"}, "1;z\r\nD\r\n0\r\n"},
	}
	for _, f := range fams {
		for _, d := range []int{-1, 0, 1, 2} {
			if st, ok := build(f.pre, f.fin, d, f.last); ok {
				out = append(out, st)
			}
		}
	}
	return out
}
