//go:build verif

package internal

import (
	"bufio"
	"bytes"
	"fmt"
	"io"
	"net/http/httputil"
	"testing"

	"github.com/imroc/req/v3/internal/verifh"
)

// TestVerif_C01_chunkwriter: the real chunkedWriter (NewChunkedWriter / Write / Close, with and
// without FlushAfterChunkWriter) on write sequences that include zero-length writes vs the Lean
// model `chunkedBody`, plus the reference decoder net/http/httputil.NewChunkedReader as oracle:
// it must read back exactly the concatenation of the writes.
func TestVerif_C01_chunkwriter(t *testing.T) {
	s := verifh.New(t, "C01", "chunkwriter",
		"bodies of 0..70000 bytes (sizes around 0,1,15,16,255,256,4095..4097,65535..65537) written in 0..12 writes of scripted sizes including zero-length writes, through a plain writer or a bufio FlushAfterChunkWriter; compared: every byte up to and including the final 0 CRLF CRLF; oracle: httputil.NewChunkedReader returns the body; non-trivial = at least two non-empty chunks")
	r := s.Rand()
	n := verifh.N(1500, 60000)
	reached := map[string]int{}
	for i := 0; i < n; i++ {
		size := verifh.Pick(r, []int{0, 1, 15, 16, 17, 255, 256, 257, 4095, 4096, 4097, 65535, 65536, 65537})
		if r.Intn(2) == 0 {
			size = r.Intn(600)
		}
		a, b := 1+r.Intn(250), r.Intn(251)
		body := verifh.C01GenBody(size, a, b)
		var sizes []int
		left := size
		for k := r.Intn(13); k > 0 && left >= 0; k-- {
			sz := 0
			switch r.Intn(4) {
			case 0:
				sz = 0
			case 1:
				sz = 1 + r.Intn(20)
			default:
				sz = 1 + r.Intn(left+1)
			}
			if sz > left {
				sz = left
			}
			sizes = append(sizes, sz)
			left -= sz
		}
		var buf bytes.Buffer
		var w io.Writer = &buf
		var bw *bufio.Writer
		if r.Intn(2) == 0 {
			bw = bufio.NewWriterSize(&buf, 64)
			w = &FlushAfterChunkWriter{Writer: bw}
		}
		cw := NewChunkedWriter(w)
		rest := body
		nonEmpty := 0
		var werr error
		for _, sz := range sizes {
			if _, err := cw.Write(rest[:sz]); err != nil {
				werr = err
			}
			if sz > 0 {
				nonEmpty++
			} else {
				reached["zero-write"]++
			}
			rest = rest[sz:]
		}
		if len(rest) > 0 {
			if _, err := cw.Write(rest); err != nil {
				werr = err
			}
			nonEmpty++
		}
		if err := cw.Close(); err != nil {
			werr = err
		}
		io.WriteString(w, "\r\n") // transferWriter.writeBody ends the (trailer-less) message
		if bw != nil {
			bw.Flush()
		}
		wire := buf.Bytes()
		ok := werr == nil
		dec, derr := io.ReadAll(httputil.NewChunkedReader(bytes.NewReader(wire)))
		if derr != nil || !bytes.Equal(dec, body) {
			ok = false
		}
		if nonEmpty >= 2 {
			reached["multi"]++
		}
		s.Count(fmt.Sprintf("chunks:%d", min(nonEmpty, 3)))
		s.Case(fmt.Sprintf("c01chunks gen.%d.%d.%d %s", size, a, b, verifh.IntList(sizes)), "ok "+verifh.C01Blob(wire), ok, "", nonEmpty >= 2,
			fmt.Sprintf("body=%d sizes=%v", size, sizes))
	}
	if reached["zero-write"] == 0 || reached["multi"] == 0 {
		t.Errorf("buckets not reached: %v", reached)
	}
	s.Finish()
}
