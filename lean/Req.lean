import Req.Driver.Proto
import Req.Base.Ascii
import Req.Client.HeaderSort
import Req.Props.C16
