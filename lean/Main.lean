import Req.Driver.Lanes

partial def loop (hin hout : IO.FS.Stream) : IO Unit := do
  let line ← hin.getLine
  if line.isEmpty then return ()
  hout.putStrLn (Req.Driver.dispatch line)
  loop hin hout

def main : IO Unit := do
  let hin ← IO.getStdin
  let hout ← IO.getStdout
  loop hin hout
  hout.flush
