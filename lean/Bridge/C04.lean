import Generated.C04Facts
import Bridge.PureAscii
import Req.Props.C04Fold
/-!
C04 bridge (round 6): WHO compares tokens in the HTTP/1 response-reading code.

`Generated.C04Facts.caseRefs` is regenerated from the source on every run: every reference to a
case-mapping / case-insensitive-comparison / Unicode-normalising function (strings.EqualFold,
strings.ToLower …, bytes.*, unicode.*, golang.org/x/text/*, internal/ascii.*) in
textproto_reader.go, http.go, transfer.go (reader side), internal/chunked.go and the
`readResponse` / `readLoop` functions of transport.go, by import path (aliases resolved), wherever
it stands in the function.

* `case_refs_ascii_only` — all of them are functions of `internal/ascii`: the response reader
  uses no Unicode-aware case function (which would read U+212A KELVIN SIGN as `k`, U+017F LONG S
  as `s`: seed C04-r6-1).
* `te_compare_bridge` — `ascii.EqualFold(v, "chunked")` AS TRANSLATED FROM THE SOURCE
  (`Generated.PureAscii.equalFold`) never panics and is the test the model's
  `parseTransferEncoding` makes, for every byte string; `token_compare_bridge` — the same for the
  element test of `valuesContainToken` (`hasToken` / `HeaderValuesContainsToken`).
So the theorems of `Req.Props.C04Fold` (`te_chunked_only_ascii`, `reject_te_non_ascii`,
`token_match_only_ascii`) are about the comparison function the source really calls.
-/
namespace Bridge.C04
open Req.GoSem Req.Ascii Req.H1

def asciiPkg : String := "github.com/imroc/req/v3/internal/ascii"

theorem case_refs_ascii_only :
    Generated.C04Facts.caseRefs.all (fun r => r.2.2.1 == asciiPkg) = true := by decide

theorem te_compare_bridge (v : Bytes) :
    Generated.PureAscii.equalFold v vChunked = Res.ok (lower v == vChunked) := by
  rw [Bridge.PureAscii.equalFold_bridge, Req.Props.C04Fold.te_compare_is_equalFold]

/-- for a lower-case token (`close`, `keep-alive`, `upgrade`, …) -/
theorem token_compare_bridge (p tok : Bytes) (ht : lower tok = tok) :
    Generated.PureAscii.equalFold p tok = Res.ok (lower p == tok) := by
  rw [Bridge.PureAscii.equalFold_bridge]; unfold equalFold; rw [ht]

example : Generated.PureAscii.equalFold Req.Props.C04Fold.vChunKed vChunked = Res.ok false := by
  rw [te_compare_bridge]; decide

end Bridge.C04
