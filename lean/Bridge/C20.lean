import Generated.DigestFacts
import Req.Client.Digest
/-!
Bridge for C20: the regenerated `hashFuncs` table of digest.go against the model's table
`Req.Digest.hashTable` (which is also the table of RFC 7616, `Req.Props.C20.alg_table_spec`).

The model follows the REPAIRED table (fixes/C20-1-sha512-256.patch). Until that patch is in
/repo the source maps `SHA-512-256(-sess)` to `crypto/sha512.New`; this module therefore proves
agreement MODULO exactly that deviation (so that any other change of the table — another
entry, a new name, a dropped name, an unknown constructor — breaks it), and
`Bridge/C20Strict.lean` proves plain equality (to be added to props/C20.json once the patch is
applied; it does not build before). The pre-patch deviation itself is detected behaviourally
by the known-answer lane (`class=c20-sha512-256-table`).
-/
namespace Bridge.C20
open Req.Proto Req.Digest

/-- constructor identifier (as printed by gofacts) ↦ abstract algorithm -/
def ctorTable : List (Bytes × Alg) := [
  (b!"crypto/md5.New", .md5),
  (b!"crypto/sha256.New", .sha256),
  (b!"crypto/sha512.New512_256", .sha512_256),
  (b!"crypto/sha512.New", .sha512)
]

/-- The regenerated table with constructors mapped to algorithms (`none` = a constructor the
model does not know). -/
def genTable : List (Bytes × Option Alg) :=
  Generated.DigestFacts.hashFuncs.map fun e => (e.1, lookup e.2 ctorTable)

/-- `hashFuncs[name]` of the source, as an abstract algorithm. -/
def genAlgOf (name : Bytes) : Option Alg :=
  match lookup name genTable with
  | some (some a) => some a
  | _ => none

def entryOk (g : Bytes × Option Alg) (m : Bytes × Alg) : Bool :=
  g.1 == m.1 && (g.2 == some m.2 || (g.2 == some Alg.sha512 && m.2 == Alg.sha512_256))

def tablesOk : List (Bytes × Option Alg) → List (Bytes × Alg) → Bool
  | [], [] => true
  | g :: gs, m :: ms => entryOk g m && tablesOk gs ms
  | _, _ => false

/-- Entry by entry: same names in the same (sorted) order, same algorithm — or the row-13
deviation `sha512` where `sha512_256` is required. -/
theorem hash_table_agrees_modulo_row13 : tablesOk genTable hashTable = true := by decide

theorem lookup_tablesOk (name : Bytes) :
    ∀ gs ms, tablesOk gs ms = true →
      (match lookup name gs with | some (some a) => some a | _ => none) = lookup name ms ∨
      ((match lookup name gs with | some (some a) => some a | _ => none) = some Alg.sha512 ∧
        lookup name ms = some Alg.sha512_256)
  | [], [], _ => by simp [lookup]
  | [], _ :: _, h => by simp [tablesOk] at h
  | _ :: _, [], h => by simp [tablesOk] at h
  | (gk, gv) :: gs, (mk, mv) :: ms, h => by
    simp only [tablesOk, entryOk, Bool.and_eq_true, Bool.or_eq_true, beq_iff_eq] at h
    obtain ⟨⟨hk, hv⟩, hrest⟩ := h
    subst hk
    simp only [lookup]
    by_cases hn : (name == gk) = true
    · simp only [hn, if_true]
      rcases hv with hv | ⟨hv, hm⟩
      · subst hv; left; rfl
      · subst hv; subst hm; right; exact ⟨rfl, rfl⟩
    · simp only [hn]
      exact lookup_tablesOk name gs ms hrest

/-- **alg_table_agrees (modulo row 13)**: for EVERY algorithm name the source's table gives the
model's algorithm, except that it may give `sha512` where `sha512_256` is required. -/
theorem alg_table_agrees_modulo_row13 (name : Bytes) :
    genAlgOf name = algOf name ∨
    (genAlgOf name = some Alg.sha512 ∧ algOf name = some Alg.sha512_256) :=
  lookup_tablesOk name genTable hashTable hash_table_agrees_modulo_row13

end Bridge.C20
