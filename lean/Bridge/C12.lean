import Generated.C12Facts
import Req.Props.C12
import Req.Props.C12Paths
/-!
# C12 — bridging theorems over the regenerated selector / wiring tables

`Generated.C12Facts.sites` lists every selector `X.TLSClientConfig`, `X.DialTLSContext`,
`X.TLSHandshakeContext` of client.go, transport.go (+ the rest of the root package),
internal/http2 and internal/http3 with the struct that declares the selected field
(go/types); `Generated.C12Facts.wiring` the `Options: &X.Options` construction sites.

Every theorem here is checked by `decide` against the CURRENT source on every run. The
HTTP/3 dial site is allowed exactly two shapes: it reads the shared options (tree with
`fixes/C12-1-http3-tls-config-shadow.patch` applied) — then `tls_uniform`'s premise is
discharged outright — or it is the known shadowing by `http3.RoundTripper.TLSClientConfig`
(`knownShadow`, finding class `h3-tls-shadow`, reported by the lanes). Anything else breaks
the build of this module.
-/
namespace Bridge.C12
open Req.Pool.TLS Req.Props.C12 Generated.C12Facts

/-- Every setter (`SetTLSClientConfig`, `GetTLSClientConfig`, `SetDialTLS`, `SetTLSHandshake`,
`EnableH2C`, `T()`) writes the shared options struct. -/
theorem setters_write_shared : settersShared sites = true := by decide

/-- The HTTP/1.1 and HTTP/2 dial sites (`addTLS`, `newTLSConfig`) read the client's options. -/
theorem tcp_stacks_read_client_options :
    source sites .h1 = .clientOptions ∧ source sites .h2 = .clientOptions := by decide

/-- `DialTLSContext` / `TLSHandshakeContext` are read from the shared struct by both TCP stacks
and by nothing in internal/http3. -/
theorem custom_hooks_uniform : customHooksUniform sites = true := by decide

/-- The un-patched HTTP/3 dial site, exactly: every `TLSClientConfig` read in internal/http3
(there are some) resolves to a field of the stack's own struct. -/
def knownShadow (s : List Site) : Bool :=
  !(readSites s .h3).isEmpty && (readSites s .h3).all (fun x => x.decl = .stackLocal)

/-- The regenerated table is the repaired one: every stack's dial site reads the client's
shared options (the shadowing field was removed by /repo commit c693bda; re-introducing a
stack-local `TLSClientConfig` breaks this obligation). -/
theorem h3_source_repaired : uniformSource sites = true := by
  decide

theorem h3_source_repaired_or_known : uniformSource sites = true ∨ knownShadow sites = true :=
  Or.inl h3_source_repaired

/-- `tls_uniform` with its premise discharged over the regenerated table (left disjunct on a
tree where the HTTP/3 dial site reads the shared options). -/
theorem tls_uniform_generated :
    (∀ (accepts : VerifyCfg → ServerCert → Bool) (client : Option TlsCfg) (own : Stack → Option TlsCfg)
        (host : Nat) (o1 o2 o3 : Bool) (cert : ServerCert),
      accepts (verifyPart (effective .h1 o1 host (cfgRead sites client own .h1))) cert
        = accepts (verifyPart (effective .h2 o2 host (cfgRead sites client own .h2))) cert
      ∧ accepts (verifyPart (effective .h2 o2 host (cfgRead sites client own .h2))) cert
        = accepts (verifyPart (effective .h3 o3 host (cfgRead sites client own .h3))) cert)
    ∨ knownShadow sites = true := by
  rcases h3_source_repaired_or_known with h | h
  · left
    intro accepts client own host o1 o2 o3 cert
    exact tls_uniform sites ((uniformSource_iff sites).1 h) accepts client own host o1 o2 o3 cert
  · right; exact h

/-- The two TCP stacks are uniform unconditionally (today's tree included). -/
theorem tls_uniform_tcp (accepts : VerifyCfg → ServerCert → Bool) (client : Option TlsCfg)
    (own : Stack → Option TlsCfg) (host : Nat) (o1 o2 : Bool) (cert : ServerCert) :
    accepts (verifyPart (effective .h1 o1 host (cfgRead sites client own .h1))) cert
      = accepts (verifyPart (effective .h2 o2 host (cfgRead sites client own .h2))) cert := by
  simp only [cfgRead, tcp_stacks_read_client_options.1, tcp_stacks_read_client_options.2]
  rw [effective_verify .h1, effective_verify .h2]

/-- Every protocol stack is constructed over the options of the transport it is stored into:
`T()`, `Transport.Clone` (t2 literal, `EnableHTTP3` called on the clone), `EnableHTTP3`. -/
theorem stacks_wired_to_owner :
    wireOK wiring .newT .h2 = true ∧ wireOK wiring .clone .h2 = true
    ∧ (wireOK wiring .clone .h3 && wireOK wiring .enableHTTP3 .h3) = true := by decide

/-- `clone_keeps_source` with its premises discharged. -/
theorem clone_keeps_source_generated (w : Wiring) (fresh : Nat) :
    (cloneWiring wiring w fresh).wired
    ∧ ∀ s o, (cloneWiring wiring w fresh).optsOf s = some o → o = fresh :=
  clone_keeps_source wiring stacks_wired_to_owner.2.1 stacks_wired_to_owner.2.2 w fresh

/-! ## the uTLS fingerprint handshake (`Client.SetTLSFingerprint`) -/

/-- The un-repaired closure, exactly: trust roots and `InsecureSkipVerify` are the client's,
`ServerName` and `Certificates` are not (finding class `fingerprint-ignores-servername-certs`,
repaired by `fixes/C12-5-fingerprint-servername-certs.patch`). -/
def knownFpGap (l : List FpField) : Bool :=
  l.contains .rootCAs && l.contains .insecureSkipVerify && !l.contains .serverName && !l.contains .certificates

/-- The regenerated data-flow fact has one of exactly two shapes: every field verification and
client authentication look at comes from the client's `tls.Config` (then the premise of
`tls_uniform_paths` is discharged), or it is the known gap. Anything else — e.g. a closure
that stops copying `RootCAs` or `InsecureSkipVerify` — breaks the build of this module.
`fixes/C12-5` (/repo f3ce120) repaired the gap: only the covering shape is accepted now. -/
theorem fp_covers : fpCovers fpCopied = true := by decide

/-- `tls_uniform_paths` with its premise discharged over the regenerated fact. -/
theorem tls_uniform_paths_generated :
    (∀ (h : Hooks) (accepts : VerifyCfg → ServerCert → Bool) (p q : DialPath) (o o' : Bool) (host : Nat)
        (read : Option TlsCfg) (c c' : TlsCfg) (cert : ServerCert),
      pathCfg fpCopied h p o host read = some c → pathCfg fpCopied h q o' host read = some c' →
      accepts (verifyPart c) cert = accepts (verifyPart c') cert ∧ c.certs = c'.certs) := by
  intro hk accepts p q o o' host read c c' cert hp hq
  exact tls_uniform_paths fpCopied fp_covers hk accepts p q o o' host read c c' cert hp hq

/-- Whatever the fingerprint closure copies: without `SetTLSFingerprint*` (and without the two
user functions) every dial path — direct, proxy tunnel, HTTP/2's own dial, QUIC — is uniform
on today's tree. -/
theorem tls_uniform_paths_builtin (dial : Bool) (accepts : VerifyCfg → ServerCert → Bool) (p q : DialPath)
    (o o' : Bool) (host : Nat) (read : Option TlsCfg) (c c' : TlsCfg) (cert : ServerCert)
    (hp : pathCfg fpCopied ⟨dial, none⟩ p o host read = some c)
    (hq : pathCfg fpCopied ⟨dial, none⟩ q o' host read = some c') :
    accepts (verifyPart c) cert = accepts (verifyPart c') cert ∧ c.certs = c'.certs := by
  have key : ∀ (p : DialPath) (o : Bool) (c : TlsCfg), pathCfg fpCopied ⟨dial, none⟩ p o host read = some c →
      c.toVerifyCfg = (effective .h1 false host read).toVerifyCfg := by
    intro p o c hc
    unfold pathCfg at hc
    cases p <;> cases dial <;> simp [governs, hsGoverns] at hc <;> subst hc <;>
      exact effective_verify _ _ _ _
  have e1 := key p o c hp
  have e2 := key q o' c' hq
  refine ⟨by simp only [verifyPart]; rw [e1, e2], ?_⟩
  exact congrArg VerifyCfg.certs (e1.trans e2.symm)

end Bridge.C12
