import Generated.C15Facts
import Req.Client.Decode
/-!
Bridge for C15: the tables regenerated from /repo by `tools/gofacts/c15.go` are the tables the
model uses.  A source edit that changes the BOM table (internal/charsets/charsets.go `boms`),
the default text content types (decode.go `textContentTypes`) or the "already UTF-8" markers
(transport.go `autoDecodeResponseBody`) breaks one of these.
-/
namespace Bridge.C15

theorem boms_eq : Generated.C15Facts.boms = Req.Decode.boms := by decide

theorem textContentTypes_eq : Generated.C15Facts.textContentTypes = Req.Decode.textContentTypes := by decide

theorem utf8Markers_eq : Generated.C15Facts.utf8Markers = Req.Decode.utf8Markers := by decide

end Bridge.C15
