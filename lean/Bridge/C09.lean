import Generated.Locks
import Req.Pool.Lockset
import Req.Props.C09
/-!
Bridge for C09: the lock-set table regenerated from /repo by `tools/gofacts/c09.go`
(`Generated.Locks.fields`) satisfies the lock-set discipline.

`knownOpen` lists the (field id, function) sites of the confirmed lock-set defects
(DESIGN.md section 5 row 17: fixes/C09-1-*.patch, fixes/C09-2-*.patch; http3 lazy transport:
fixes/C09-4-*.patch).  With the patches
applied those sites hold the lock and the exemption is simply unused; the facts lane
(`TestVerif_C09_locksetfacts`) checks the table WITHOUT the exemption and reports the two sites
as classed known findings while they exist.  Once the patches are merged, `knownOpen` should
be emptied (then `anchored_fields_guarded` is the unconditional statement).
-/
namespace Bridge.C09
open Req.Pool.Lockset

/-- (0 = Transport.pendingAltSvcs, "Transport.checkAltSvc"), (1 = AltSvcJar.entries,
"AltSvcJar.GetAltSvc"), (13 = http3 RoundTripper.transport, "RoundTripper.dial"). -/
def knownOpen : List (Nat × List Nat) := []  -- emptied: C09-1, C09-2, C09-4 are in /repo (088e6cf, 3380923, 7e6e7ad)

/-- **anchored_fields_guarded**: every anchored shared field (and every `…Locked` calling
convention) has a lock common to all its access sites. -/
theorem anchored_fields_guarded :
    allGuardedExcept knownOpen Generated.Locks.fields = true := by decide

/-- The fourteen anchored fields and the calling-convention pseudo-fields are all present. -/
theorem anchored_fields_present :
    ([0, 1, 2, 3, 4, 5, 6, 7, 8, 9, 10, 11, 12, 13].all
      (fun i => (Generated.Locks.fields.lookup i).isSome)) = true := by decide

/-- Field ids checked without any exemption. -/
def strictIds : List Nat :=
  (Generated.Locks.fields.map (·.1)).filter (fun i => !((knownOpen.map (·.1)).contains i))

theorem strict_fields_guarded :
    strictIds.all (fun x =>
      match Generated.Locks.fields.lookup x with
      | some as => guarded (as.map ofTuple) && !(live (as.map ofTuple)).isEmpty
      | none => false) = true := by decide

/-- **anchored_no_race**: for every field checked without exemption, no well-formed execution
that conforms to the extracted access sites contains a data race on it. -/
theorem anchored_no_race (x : Nat) (hx : x ∈ strictIds) (tr : List Ev) (hwf : WF tr)
    (hc : Conforms (factsOf Generated.Locks.fields) tr) : ¬ Race tr x := by
  have h := List.all_eq_true.mp strict_fields_guarded x hx
  cases hl : Generated.Locks.fields.lookup x with
  | none => rw [hl] at h; simp at h
  | some as =>
    rw [hl] at h
    simp only [Bool.and_eq_true, Bool.not_eq_true', List.isEmpty_eq_false_iff] at h
    obtain ⟨l, hcom⟩ := Req.Props.C09.guarded_gives_common (as.map ofTuple) h.1 h.2
    apply Req.Props.C09.static_lockset_sound (factsOf Generated.Locks.fields) tr hwf hc x l
    intro s hs
    simp only [factsOf, hl, List.mem_map] at hs
    obtain ⟨a, ha, rfl⟩ := hs
    exact hcom a ha

end Bridge.C09
