import Generated.Locks
import Req.Pool.Lockset
import Req.Props.C09
/-!
Bridge for C09: the lock-set table regenerated from /repo by `tools/gofacts/c09.go`
(`Generated.Locks.fields`) satisfies the lock-set discipline.

`knownOpen` lists the (field id, function) sites of the confirmed lock-set defects
(DESIGN.md section 5 row 17: fixes/C09-1-*.patch, fixes/C09-2-*.patch; http3 lazy transport:
fixes/C09-4-*.patch).  With the patches
applied those sites hold the lock and the exemption is simply unused; the facts lane
(`TestVerif_C09_locksetfacts`) checks the table WITHOUT the exemption and reports the two sites
as classed known findings while they exist.  Once the patches are merged, `knownOpen` should
be emptied (then `anchored_fields_guarded` is the unconditional statement).
-/
namespace Bridge.C09
open Req.Pool.Lockset

/-- (0 = Transport.pendingAltSvcs, "Transport.checkAltSvc"), (1 = AltSvcJar.entries,
"AltSvcJar.GetAltSvc"), (13 = http3 RoundTripper.transport, "RoundTripper.dial"). -/
def knownOpen : List (Nat × List Nat) := []  -- emptied: C09-1, C09-2, C09-4 are in /repo (088e6cf, 3380923, 7e6e7ad)

/-- Peer settings of an HTTP/2 `ClientConn` (`maxConcurrentStreams`, `initialWindowSize`,
`maxFrameSize`: "also guarded by wmu"): written under `mu` AND `wmu`, read under either. They
have no lock common to all sites and follow the pairwise discipline. -/
def twoMutexIds : List Nat := [20, 21, 22]

/-- **anchored_fields_guarded**: every anchored shared field (and every `…Locked` calling
convention / inferred caller-holds helper) other than the two-mutex ones has a lock common to
all its access sites. -/
theorem anchored_fields_guarded :
    allGuardedExcept knownOpen (Generated.Locks.fields.filter (fun f => !twoMutexIds.contains f.1)) = true := by
  decide

/-- **anchored_fields_pairwise**: EVERY field of the table — the two-mutex ones included —
satisfies the pairwise discipline (each two sites of which one can write share a lock). -/
theorem anchored_fields_pairwise : allPairGuarded Generated.Locks.fields = true := by decide

/-- The anchored fields are all present: 14 of round 1–3, the HTTP/2 demultiplexer state of a
`ClientConn` under `cc.mu` (14 streams, 15 nextStreamID, 16 pendingRequests, 17 streamsReserved,
18 goAway, 19 closed), the peer settings (20–22), the HTTP/3 datagram stream table (23) and the
write side of an HTTP/2 connection under `cc.wmu` (24 bw, 25 hbuf, 26 the Framer's `Write*`). -/
theorem anchored_fields_present :
    ((List.range 27).all (fun i => (Generated.Locks.fields.lookup i).isSome)) = true := by decide

/-- Field ids checked for a common lock, without any exemption. -/
def strictIds : List Nat :=
  (Generated.Locks.fields.map (·.1)).filter
    (fun i => !((knownOpen.map (·.1)).contains i) && !twoMutexIds.contains i)

theorem strict_fields_guarded :
    strictIds.all (fun x =>
      match Generated.Locks.fields.lookup x with
      | some as => guarded (as.map ofTuple) && !(live (as.map ofTuple)).isEmpty
      | none => false) = true := by decide

/-- **anchored_no_race**: for every field checked without exemption, no well-formed execution
that conforms to the extracted access sites contains a data race on it. -/
theorem anchored_no_race (x : Nat) (hx : x ∈ strictIds) (tr : List Ev) (hwf : WF tr)
    (hc : Conforms (factsOf Generated.Locks.fields) tr) : ¬ Race tr x := by
  have h := List.all_eq_true.mp strict_fields_guarded x hx
  cases hl : Generated.Locks.fields.lookup x with
  | none => rw [hl] at h; simp at h
  | some as =>
    rw [hl] at h
    simp only [Bool.and_eq_true, Bool.not_eq_true', List.isEmpty_eq_false_iff] at h
    obtain ⟨l, hcom⟩ := Req.Props.C09.guarded_gives_common (as.map ofTuple) h.1 h.2
    apply Req.Props.C09.static_lockset_sound (factsOf Generated.Locks.fields) tr hwf hc x l
    intro s hs
    simp only [factsOf, hl, List.mem_map] at hs
    obtain ⟨a, ha, rfl⟩ := hs
    exact hcom a ha

/-- **anchored_no_race_pairwise**: for EVERY field of the table (two-mutex fields included), no
well-formed execution that conforms to the extracted access sites (with their write flags)
contains a data race on it. -/
theorem anchored_no_race_pairwise (x : Nat) (tr : List Ev) (hwf : WF tr)
    (hc : ConformsW (factsOfW Generated.Locks.fields) tr) : ¬ Race tr x := by
  apply Req.Props.C09.lockset_sound_pairwise (factsOfW Generated.Locks.fields) tr hwf hc x
  intro a ha b hb hw
  cases hl : Generated.Locks.fields.lookup x with
  | none => simp [factsOfW, hl] at ha
  | some as =>
    simp only [factsOfW, hl, List.mem_map] at ha hb
    obtain ⟨a', ha', rfl⟩ := ha
    obtain ⟨b', hb', rfl⟩ := hb
    have hmem : (x, as) ∈ Generated.Locks.fields := by
      obtain ⟨l1, l2, e, _⟩ := List.lookup_eq_some_iff.mp hl
      rw [e]; simp
    have hg : pairGuarded (as.map ofTuple) = true :=
      List.all_eq_true.mp anchored_fields_pairwise (x, as) hmem
    exact Req.Props.C09.pairGuarded_gives_shared _ hg a' b' ha' hb' hw

end Bridge.C09
