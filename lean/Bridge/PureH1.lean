import Generated.PureH1
import Req.Base.Ascii
import Req.C07.Token
import Req.H1.Transfer
/-!
Bridge: `isTokenTable`, `validHeaderFieldByte` (textproto_reader.go) and `bodyAllowedForStatus`
(transfer.go), translated from the Go source by `tools/gofacts` on every run, against the model
functions of C04/C07 (`Req.Ascii.isTokenByte`, `Req.C07.Token.validHeaderFieldByte`,
`Req.H1.bodyAllowedForStatus`).
-/
namespace Bridge.PureH1
open Req.GoSem

/-- The 127-entry table in the source is the RFC 7230 `tchar` predicate of the model, entry by entry
(and has no entry for 127 and above). -/
theorem isTokenTable_bridge : ∀ n, n < 256 →
    Generated.PureH1.isTokenTable[n]? = (if n < 127 then some (Req.Ascii.isTokenByte (UInt8.ofNat n)) else none) := by
  decide +kernel

theorem isTokenTable_length : Generated.PureH1.isTokenTable.length = 127 := by decide +kernel

/-- `validHeaderFieldByte` never indexes outside the table (the guard comes first) and is the
model's `isTokenByte`, for all 256 bytes. -/
theorem validHeaderFieldByte_bridge (b : UInt8) :
    Generated.PureH1.validHeaderFieldByte b = Res.ok (Req.Ascii.isTokenByte b) := by
  have h : ∀ n, n < 256 → Generated.PureH1.validHeaderFieldByte (UInt8.ofNat n) =
      Res.ok (Req.Ascii.isTokenByte (UInt8.ofNat n)) := by decide +kernel
  simpa using h b.toNat (UInt8.toNat_lt b)

/-- The generated function against C07's partial model (`none` = run-time panic) of the same Go
function: they agree on every byte. -/
theorem validHeaderFieldByte_models_agree (b : UInt8) :
    Generated.PureH1.validHeaderFieldByte b =
      (match Req.C07.Token.validHeaderFieldByte b with | some r => Res.ok r | none => Res.panic) := by
  have h : ∀ n, n < 256 → Generated.PureH1.validHeaderFieldByte (UInt8.ofNat n) =
      (match Req.C07.Token.validHeaderFieldByte (UInt8.ofNat n) with | some r => Res.ok r | none => Res.panic) := by
    decide +kernel
  simpa using h b.toNat (UInt8.toNat_lt b)

/-- `bodyAllowedForStatus` is the model's status-class test. -/
theorem bodyAllowedForStatus_bridge (n : Nat) :
    Generated.PureH1.bodyAllowedForStatus (n : Int) = Req.H1.bodyAllowedForStatus n := by
  unfold Generated.PureH1.bodyAllowedForStatus Req.H1.bodyAllowedForStatus
  by_cases h1 : 100 ≤ n ∧ n ≤ 199
  · have : ((n : Int) ≥ 100) ∧ ((n : Int) ≤ 199) := by omega
    simp [h1, this]
  · have h1' : ¬ (((n : Int) ≥ 100) ∧ ((n : Int) ≤ 199)) := by omega
    by_cases h2 : n = 204
    · subst h2; simp
    · by_cases h3 : n = 304
      · subst h3; simp
      · have e2 : ((n : Int) == 204) = false := by simp; omega
        have e3 : ((n : Int) == 304) = false := by simp; omega
        simp only [ge_iff_le, Bool.and_eq_true, decide_eq_true_eq, h1', if_false, e2, e3,
          Bool.false_eq_true]
        simp [h2, h3]
        omega

end Bridge.PureH1
