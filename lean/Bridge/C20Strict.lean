import Bridge.C20
/-!
Strict form of the C20 bridge: the regenerated `hashFuncs` table EQUALS the model's table.
False on the tree without fixes/C20-1-sha512-256.patch (does not build there); to be listed in
props/C20.json `bridge` once the patch is applied.
-/
namespace Bridge.C20
open Req.Proto Req.Digest

theorem hash_table_agrees : genTable = hashTable.map (fun e => (e.1, some e.2)) := by decide

theorem lookup_map_some (name : Bytes) : ∀ ms : List (Bytes × Alg),
    (match lookup name (ms.map (fun e => (e.1, some e.2))) with
      | some (some a) => some a | _ => none) = lookup name ms
  | [] => by simp [lookup]
  | (k, v) :: ms => by
    simp only [List.map, lookup]
    by_cases hn : (name == k) = true
    · simp [hn]
    · simp only [hn]; exact lookup_map_some name ms

/-- **alg_table_agrees**: for every algorithm name, `hashFuncs[name]` is the model's (= RFC
7616's) algorithm. -/
theorem alg_table_agrees (name : Bytes) : genAlgOf name = algOf name := by
  unfold genAlgOf algOf
  rw [hash_table_agrees]
  exact lookup_map_some name hashTable

end Bridge.C20
