import Generated.C18Entry
import Req.Client.Pipeline
/-!
C18 bridge, part 2: the send entry points of package req, as regenerated from /repo by
tools/gofacts (c18entry.go), obey the rules the call-level theorems assume — stated BY RULE over
whatever functions the source defines, not by a table of names:

* every exported function / method that reaches the core `(*Request).do` and returns
  `(*Response, error)` ("verb style": `Send`, `Get`, `Post`, … and the package-level wrappers)
  passes the error hook exactly once on its way and never panics;
* every exported one that returns only `*Response` is either "Do style" — the hook is not on its
  path, nothing panics — or "Must style" — the hook is on its path exactly once and the function
  (or the Must function it delegates to) panics with the error result of the sender it calls;
* whoever calls the core directly is Do style; a function that invokes the hook itself reaches
  the core only through Do-style functions (so the hook cannot run twice).

An added or changed entry point that bypasses the hook, runs it twice, or panics with something
else breaks these `decide`d statements; one that follows the rules does not, nor do renamed
locals, reordered statements or extracted helpers (paths are followed through helpers).
-/
namespace Bridge.C18Entry
open Generated.C18Entry

def fuel : Nat := fns.length + 1

/-- how many invocations of the error hook lie on the paths from function `i` -/
def hookCount : Nat → Nat → Nat
  | 0, _ => 0
  | k + 1, i =>
    match fns[i]? with
    | none => 0
    | some f => (if f.hook then 1 else 0) + (f.calls.map (hookCount k)).sum

def reachesCore : Nat → Nat → Bool
  | 0, _ => false
  | k + 1, i =>
    i == core ||
    match fns[i]? with
    | none => false
    | some f => f.calls.any (reachesCore k)

/-- no function on any path from `i` panics -/
def panicFree : Nat → Nat → Bool
  | 0, _ => true
  | k + 1, i =>
    match fns[i]? with
    | none => true
    | some f => !f.panics && f.calls.all (panicFree k)

/-- `i` panics with the error result of the sender it calls, or delegates to functions that do -/
def mustStyle : Nat → Nat → Bool
  | 0, _ => false
  | k + 1, i =>
    match fns[i]? with
    | none => false
    | some f => (f.panics && f.panicArgIsCalleeErr) || (!f.panics && !f.calls.isEmpty && f.calls.all (mustStyle k))

def isEntry (f : Fn) (i : Nat) : Bool := f.exported && reachesCore fuel i

/-- the model's entry kind of an exported sender -/
def kindOf (f : Fn) (i : Nat) : Req.Pipeline.Entry :=
  if mustStyle fuel i then .must
  else if f.results == .respErr then (if f.hook then .send else .verb)
  else .do_

def forallFns (p : Fn → Nat → Bool) : Bool :=
  (List.range fns.length).all fun i => match fns[i]? with | some f => p f i | none => true

/-- verb style: hook exactly once on the path, no panic -/
theorem verb_style_runs_hook_once :
    forallFns (fun f i => !(isEntry f i && f.results == .respErr) || (hookCount fuel i == 1 && panicFree fuel i)) = true := by
  decide

/-- `*Response`-only entry points: Do style (no hook, no panic) or Must style (hook once, panics
with the error the non-Must form returns) -/
theorem do_or_must_style :
    forallFns (fun f i => !(isEntry f i && f.results == .resp) ||
      ((hookCount fuel i == 0 && panicFree fuel i) || (hookCount fuel i == 1 && mustStyle fuel i))) = true := by
  decide

/-- whoever calls the core directly is Do style, and the hook caller reaches the core only
through Do-style functions -/
theorem core_only_through_do_style :
    forallFns (fun f _ => !(f.calls.contains core) || (f.results == .resp && !f.hook && !f.panics)) = true ∧
    forallFns (fun f _ => !f.hook || f.calls.all (fun j => hookCount fuel j == 0)) = true := by
  decide

/-- the hook count of every entry point is the one `Req.Props.C18.onError_once` states for its
kind: 0 for `Do`, 1 (when the call ends in error and a hook is installed) otherwise -/
theorem hook_count_matches_model :
    forallFns (fun f i => !isEntry f i || f.results == .err || f.results == .other ||
      (hookCount fuel i == if kindOf f i == .do_ then 0 else 1)) = true := by
  decide

/-- non-vacuity: the graph was resolved — at least 8 verb-style, 8 Must-style entry points, a
Do-style one, and exactly one function that invokes the hook itself -/
theorem entry_points_present :
    ((List.range fns.length).filter fun i => match fns[i]? with
      | some f => isEntry f i && f.results == .respErr | none => false).length ≥ 8 ∧
    ((List.range fns.length).filter fun i => match fns[i]? with
      | some f => isEntry f i && mustStyle fuel i | none => false).length ≥ 8 ∧
    ((List.range fns.length).filter fun i => match fns[i]? with
      | some f => isEntry f i && f.results == .resp && hookCount fuel i == 0 | none => false).length ≥ 1 ∧
    (fns.filter (·.hook)).length = 1 := by
  decide

end Bridge.C18Entry
