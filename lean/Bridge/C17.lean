import Generated.C17Facts
import Req.Client.Body
/-! C17 bridge: the truth table of `Client.isPayloadForbid` regenerated from client.go equals
the model's `isPayloadForbid` on every listed method and both settings of
AllowGetMethodPayload. -/
namespace Bridge.C17

def methods : List String :=
  ["GET", "HEAD", "POST", "PUT", "PATCH", "DELETE", "CONNECT", "OPTIONS", "TRACE", "get", "head", ""]

/-- Whenever the extractor could interpret the function (every shape in its subset: boolean
expression, if/else chains, guard clauses, tagged/tagless switch, locals, named results, helper
calls), the table it evaluated from the source is the model's. -/
theorem payloadForbid_table_matches :
    Generated.C17Facts.payloadForbidTable = none ∨
    Generated.C17Facts.payloadForbidTable =
      some (methods.flatMap (fun m => [false, true].map fun a => (m, a, Req.Body.isPayloadForbid m a))) := by
  decide

end Bridge.C17
