import Generated.C14Facts
import Req.Client.CompressShape
/-!
Bridge for C14: what `tools/gofacts` extracted from the current source equals the model's
tables. Every fact is an `Option`: `none` = the construct could not be LOCATED in the shape
family the extractor reads (if/else-if chain or tagless switch; conditions in either operand
order, through parentheses, `&&` and nested ifs; values hoisted into single-assignment locals;
statements in any order; calls to unexported same-package helpers inlined one level deep) —
no claim is made then and nothing alarms: every part of these shapes is pinned behaviourally
by the C14 lanes. A construct that IS located but differs (dropped flag or guard, other test,
other token, missing/extra/unclassifiable statement → marker `other:…`) breaks the obligation.

* `arms_eq`, `libs_eq`: the switch arms of `compress.NewCompressReader` are `Req.Compress.arms`;
  each lazy reader constructs the library the trusted base names (deflate = compress/flate).
* `site_h1/h2/h3`: the located decoding chain of each call site is `Req.Compress.shape s` (the
  code with fixes/C14-1..3; the legacy shape is not accepted) and tests the named flag field;
  the located ask-for-gzip condition has the model's conjuncts.
  `Req.Props.C14.interp_shape_*` give the shapes their meaning (`decideCore`, `decideH3`).
* `sites_same_shape`: the located chains are the same decision.
-/
namespace Bridge.C14
open Req.Compress

def ctorAlg (s : String) : Option Alg :=
  if s == "NewGzipReader" then some .gzip
  else if s == "NewDeflateReader" then some .deflate
  else if s == "NewBrotliReader" then some .br
  else if s == "NewZstdReader" then some .zstd
  else none

/-- **arms_eq** — if the switch was located, it is the model's table. -/
theorem arms_eq :
    Generated.C14Facts.arms.all (fun g =>
      decide (g.map (fun p => (p.1, ctorAlg p.2)) = arms.map (fun p => (p.1, some p.2)))) = true := by
  decide

/-- **libs_eq** — each lazy reader whose constructor call was located constructs the library the
trusted base names (deflate = compress/flate: a RAW deflate stream). -/
theorem libs_eq :
    Generated.C14Facts.libs.all (fun p => p.2 == "" ||
      [("GzipReader", "compress/gzip"), ("DeflateReader", "compress/flate"),
       ("BrotliReader", "github.com/andybalholm/brotli"),
       ("ZstdReader", "github.com/klauspost/compress/zstd")].contains p) = true := by
  decide

def convAsk (s : String) : Ask :=
  if s == "notDisabled" then .notDisabled
  else if s == "noHeader:Accept-Encoding" then .noAcceptEncoding
  else if s == "noHeader:Range" then .noRange
  else if s == "notHead" then .notHead
  else .other

def convTest (s : String) : GzipTest :=
  if s == "==" then .eq else if s == "ascii.EqualFold" then .equalFold else .other

def convAuto (s : String) : AutoCond :=
  if s == "auto" then .auto else if s == "notHead" then .notHead else .other

def convGuard (s : String) : Guard :=
  if s == "reader-exists" then .readerExists
  else if s == "encoding-nonempty" then .encodingNonempty else .other

def convEffect (s : String) : Effect :=
  if s == "" then .none
  else if s == "del:Content-Encoding" then .delContentEncoding
  else if s == "del:Content-Length" then .delContentLength
  else if s == "ContentLength=-1" then .contentLengthMinus1
  else if s == "Uncompressed=true" then .uncompressedTrue
  else if s == "set:Body:raw" then .set .body .raw
  else if s == "set:Body:gzip" then .set .body .gzipReader
  else if s == "set:Body:reader" then .set .body .reader
  else if s == "set:Body:field:responseBody" then .set .body .responseBody
  else if s == "set:responseBody:raw" then .set .responseBody .raw
  else if s == "set:responseBody:gzip" then .set .responseBody .gzipReader
  else if s == "set:responseBody:reader" then .set .responseBody .reader
  else .other

/-- Strings → the model's enums; conjuncts and the (mutually independent) statements of a block
are put in canonical order, so reordering them in the source is not a shape change. The
request-side conjuncts are a separate fact (`askOk`). -/
def conv (g : Generated.C14Facts.Site) : SiteShape where
  ask := []
  gzipTest := convTest g.gzipTest
  gzipToken := g.gzipToken
  gzipEffects := canonEffects (g.gzipEffects.map convEffect)
  autoConds := canonAuto (g.autoConds.map convAuto)
  autoGuard := convGuard g.autoGuard
  autoEffects := canonEffects (g.autoEffects.map convEffect)
  elseEffects := canonEffects (g.elseEffects.map convEffect)
  before := convEffect g.before
  after := convEffect g.after

/-- a located decoding chain is the model's shape, and its flag field is the named one -/
def siteOk (s : Site) (flag : String) (g : Option Generated.C14Facts.Site) : Bool :=
  g.all (fun g => decide (conv g = { shape s with ask := [] }) && g.gzipFlag == flag)

/-- a located ask-for-gzip condition has the model's conjuncts -/
def askOk (s : Site) (a : Option (List String)) : Bool :=
  a.all (fun a => decide (canonAsk (a.map convAsk) = (shape s).ask))

/-- **site_h1** -/
theorem site_h1 : siteOk .h1 "addedGzip" Generated.C14Facts.h1 = true ∧ askOk .h1 Generated.C14Facts.h1Ask = true := by
  decide

/-- **site_h2** -/
theorem site_h2 : siteOk .h2 "requestedGzip" Generated.C14Facts.h2 = true ∧ askOk .h2 Generated.C14Facts.h2Ask = true := by
  decide

/-- **site_h3** -/
theorem site_h3 : siteOk .h3 "requestedGzip" Generated.C14Facts.h3 = true ∧ askOk .h3 Generated.C14Facts.h3Ask = true := by
  decide

/-- What must coincide for the three sites to be one decision: the gzip test and token, the
guard, and the set of header-rewrite statements of both branches. -/
def essence (s : SiteShape) : GzipTest × Req.Proto.Bytes × Guard × Option Bool × Option Bool :=
  (s.gzipTest, s.gzipToken, s.autoGuard, strips s.gzipEffects, strips s.autoEffects)

def sameEssence (a b : Option Generated.C14Facts.Site) : Bool :=
  match a, b with
  | some a, some b => decide (essence (conv a) = essence (conv b))
  | _, _ => true

/-- **sites_same_shape** — the located chains are one decision -/
theorem sites_same_shape :
    sameEssence Generated.C14Facts.h1 Generated.C14Facts.h2 = true ∧
    sameEssence Generated.C14Facts.h2 Generated.C14Facts.h3 = true ∧
    sameEssence Generated.C14Facts.h1 Generated.C14Facts.h3 = true := by
  decide

end Bridge.C14
