import Generated.C14Facts
import Req.Client.CompressShape
/-!
Bridge for C14: what `tools/gofacts` extracted from the current source equals the model's
tables.

* `arms_eq`: the switch arms of `compress.NewCompressReader` (token → constructor, `return nil`
  otherwise) are `Req.Compress.arms`; `libs_eq`: each lazy reader constructs the library the
  model's trusted base names (deflate = compress/flate, a RAW deflate stream).
* `site_h1/h2/h3`: the extracted shape of the request-side condition and of the response-side
  decoding chain at each call site is `Req.Compress.shape s` — the code with fixes/C14-1..3 —
  (since the repairs 08913c8/06ab59f/39e092f landed in /repo the legacy shape is no longer
  accepted: a regression to it breaks this obligation).
  `Req.Props.C14.interp_shape_*` give those shapes their meaning (`decideCore`, `decideH3`).
* `sites_same_shape`: the three extracted shapes are all repaired or all legacy, and
  once repaired they are the same decision (same gzip test, guard and rewrite; they differ only
  in the variable the body goes through and in where HEAD is excluded).
-/
namespace Bridge.C14
open Req.Compress

def ctorAlg (s : String) : Option Alg :=
  if s == "NewGzipReader" then some .gzip
  else if s == "NewDeflateReader" then some .deflate
  else if s == "NewBrotliReader" then some .br
  else if s == "NewZstdReader" then some .zstd
  else none

/-- **arms_eq** -/
theorem arms_eq :
    Generated.C14Facts.arms.map (fun p => (p.1, ctorAlg p.2)) = arms.map (fun p => (p.1, some p.2)) := by
  decide

/-- **libs_eq** -/
theorem libs_eq :
    Generated.C14Facts.libs =
      [("GzipReader", "compress/gzip"), ("DeflateReader", "compress/flate"),
       ("BrotliReader", "github.com/andybalholm/brotli"),
       ("ZstdReader", "github.com/klauspost/compress/zstd")] := by
  decide

def convAsk (s : String) : Ask :=
  if s == "notDisabled" then .notDisabled
  else if s == "noHeader:Accept-Encoding" then .noAcceptEncoding
  else if s == "noHeader:Range" then .noRange
  else if s == "notHead" then .notHead
  else .other

def convTest (s : String) : GzipTest :=
  if s == "==" then .eq else if s == "ascii.EqualFold" then .equalFold else .other

def convAuto (s : String) : AutoCond :=
  if s == "auto" then .auto else if s == "notHead" then .notHead else .other

def convGuard (s : String) : Guard :=
  if s == "reader-exists" then .readerExists
  else if s == "encoding-nonempty" then .encodingNonempty else .other

def convEffect (s : String) : Effect :=
  if s == "" then .none
  else if s == "del:Content-Encoding" then .delContentEncoding
  else if s == "del:Content-Length" then .delContentLength
  else if s == "ContentLength=-1" then .contentLengthMinus1
  else if s == "Uncompressed=true" then .uncompressedTrue
  else if s == "set:Body:local" || s == "set:Body:lit:transportResponseBody" then .set .body .raw
  else if s == "set:Body:new:gzipReader" || s == "set:Body:call:compress.NewGzipReader" then .set .body .gzipReader
  else if s == "set:Body:reader" then .set .body .reader
  else if s == "set:Body:field:responseBody" then .set .body .responseBody
  else if s == "set:responseBody:local" then .set .responseBody .raw
  else if s == "set:responseBody:call:compress.NewGzipReader" then .set .responseBody .gzipReader
  else if s == "set:responseBody:reader" then .set .responseBody .reader
  else .other

/-- Strings → the model's enums; conjuncts and the (mutually independent) statements of a block
are put in canonical order, so reordering them in the source is not a shape change. -/
def conv (g : Generated.C14Facts.Site) : SiteShape where
  ask := canonAsk (g.ask.map convAsk)
  gzipTest := convTest g.gzipTest
  gzipToken := g.gzipToken
  gzipEffects := canonEffects (g.gzipEffects.map convEffect)
  autoConds := canonAuto (g.autoConds.map convAuto)
  autoGuard := convGuard g.autoGuard
  autoEffects := canonEffects (g.autoEffects.map convEffect)
  elseEffects := canonEffects (g.elseEffects.map convEffect)
  before := convEffect g.before
  after := convEffect g.after

/-- the field that carries "the transport asked for gzip" at each site -/
theorem gzip_flags :
    Generated.C14Facts.h1.gzipFlag = "addedGzip" ∧ Generated.C14Facts.h2.gzipFlag = "requestedGzip" ∧
    Generated.C14Facts.h3.gzipFlag = "requestedGzip" := by decide

/-- **site_h1** -/
theorem site_h1 : conv Generated.C14Facts.h1 = shape .h1 := by
  decide

/-- **site_h2** -/
theorem site_h2 : conv Generated.C14Facts.h2 = shape .h2 := by
  decide

/-- **site_h3** -/
theorem site_h3 : conv Generated.C14Facts.h3 = shape .h3 := by
  decide

/-- What must coincide for the three sites to be one decision: the gzip test and token, the
guard, and the set of header-rewrite statements of both branches. -/
def essence (s : SiteShape) : GzipTest × Req.Proto.Bytes × Guard × Option Bool × Option Bool :=
  (s.gzipTest, s.gzipToken, s.autoGuard, strips s.gzipEffects, strips s.autoEffects)

/-- **sites_same_shape** -/
theorem sites_same_shape :
    essence (conv Generated.C14Facts.h1) = essence (conv Generated.C14Facts.h2) ∧
    essence (conv Generated.C14Facts.h2) = essence (conv Generated.C14Facts.h3) := by
  decide

end Bridge.C14
