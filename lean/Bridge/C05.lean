import Generated.C05Facts
import Req.H2.Frame
import Req.H3.Varint
import Req.H3.Frame
import Req.H3.Fields
/-!
Bridging theorems of C05: the constant tables regenerated from /repo by `tools/gofacts`
(`Generated.C05Facts`) are the ones the Lean models use. A source edit that changes one of these
constants (a varint threshold, a frame type or flag value, the reserved HTTP/3 frame types, the
SETTINGS size cap, a forbidden connection field …) breaks one of these proofs.
-/
namespace Bridge.C05
open Generated.C05Facts

theorem maxVarInts_eq :
    maxVarInts = [Req.H3.Varint.maxVarInt1, Req.H3.Varint.maxVarInt2, Req.H3.Varint.maxVarInt4,
                  Req.H3.Varint.maxVarInt8] := by decide

/-- the threshold ladder of `quicvarint.Len` is the model's `len` -/
theorem len_eq_ladder (n : Nat) :
    Req.H3.Varint.len n = (lenLadder.find? (fun p => decide (n ≤ p.1))).map (·.2) := by
  simp only [Req.H3.Varint.len, lenLadder, Req.H3.Varint.maxVarInt1, Req.H3.Varint.maxVarInt2,
    Req.H3.Varint.maxVarInt4, Req.H3.Varint.maxVarInt8, List.find?]
  by_cases h1 : n ≤ 63
  · simp [h1]
  by_cases h2 : n ≤ 16383
  · simp [h1, h2]
  by_cases h3 : n ≤ 1073741823
  · simp [h1, h2, h3]
  by_cases h4 : n ≤ 4611686018427387903
  · simp [h1, h2, h3, h4]
  · simp [h1, h2, h3, h4]

open Req.H2.Frame in
theorem frameTypes_eq :
    frameTypes = [tData, tHeaders, tPriority, tRSTStream, tSettings, tPushPromise, tPing, tGoAway,
                  tWindowUpdate, tContinuation] := by decide

open Req.H2.Frame in
theorem flags_eq :
    flags = [flagEndStream, flagPadded, flagEndStream, flagEndHeaders, flagPadded, flagPriority,
             flagAck, flagAck, flagEndHeaders, flagEndHeaders, flagPadded] := by decide

open Req.H2.Frame in
theorem sizes_eq : sizes = [9, 16384, setMaxReadFrameSize 4294967295] := by decide

open Req.H2.Frame in
theorem errCodes_eq : errCodes = [errProtocol, errFlowControl, errFrameSize, errCompression] := by decide

open Req.H3.Frame in
theorem settingIds_eq : settingIds = [settingExtendedConnect, settingDatagram] := by decide

open Req.H3.Frame in
theorem reservedTypes_eq (t : Nat) : isReservedType t = reservedTypes.contains t := by
  simp only [isReservedType, reservedTypes, List.contains, List.elem, Bool.or_assoc]
  cases h2 : t == 2 <;> cases h6 : t == 6 <;> cases h8 : t == 8 <;> cases h9 : t == 9 <;> rfl

/-- the frame types `ParseNext` returns are the ones the model returns (0, 1, 4), and the SETTINGS
size cap is the model's -/
theorem returnedTypes_eq : returnedTypes = [0, 1, 4] ∧ settingsCap = 8192 := by decide

open Req.H3.Frame in
theorem settingsCap_model (input : Req.Proto.Bytes) :
    (parseSettingsFrame (settingsCap + 1) input).1 = .error .settingsTooLarge := by
  simp [parseSettingsFrame, settingsCap]

theorem invalidHeaderFields_eq : invalidHeaderFields = Req.H3.Fields.invalidHeaderFields := by decide

end Bridge.C05
