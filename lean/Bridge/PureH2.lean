import Generated.PureH2
import Req.H2.Frame
/-!
Bridge: `validStreamID` / `validStreamIDOrZero` of internal/http2/frame.go (a bit test on a
`uint32`), translated from the Go source on every run, against the arithmetic form the C05/C06
frame model uses (`sid < 2^31`).
-/
namespace Bridge.PureH2

theorem and_top_bit (x : UInt32) :
    ((x &&& (2147483648 : UInt32)) == (0 : UInt32)) = decide (x.toNat < 2147483648) := by
  have hx : x.toNat < 2 ^ (31 + 1) := x.toNat_lt
  have h : (x &&& (2147483648 : UInt32)).toNat = x.toNat &&& 2 ^ 31 := by
    rw [UInt32.toNat_and]; rfl
  by_cases hlt : x.toNat < 2147483648
  · have hz : x.toNat &&& 2 ^ 31 = 0 := by
      apply Nat.eq_of_testBit_eq
      intro i
      rw [Nat.testBit_and, Nat.testBit_two_pow, Nat.zero_testBit]
      by_cases hi : 31 = i
      · subst hi; rw [Nat.testBit_lt_two_pow (by omega)]; rfl
      · simp [hi]
    have : (x &&& (2147483648 : UInt32)) = 0 := UInt32.toNat_inj.mp (by rw [h, hz]; rfl)
    simp [this, hlt]
  · have ht : x.toNat.testBit 31 = true :=
      Nat.testBit_of_two_pow_le_and_two_pow_add_one_gt (by omega) hx
    have hne : (x &&& (2147483648 : UInt32)) ≠ 0 := by
      intro h0
      rw [h0] at h
      have : (x.toNat &&& 2 ^ 31).testBit 31 = true := by
        rw [Nat.testBit_and, Nat.testBit_two_pow, ht]; simp
      rw [← h] at this
      simp at this
    simp [hne, hlt]

/-- `validStreamIDOrZero`: the top bit is clear, i.e. the id is below 2^31. -/
theorem validStreamIDOrZero_bridge (sid : UInt32) :
    Generated.PureH2.validStreamIDOrZero sid = Req.H2.Frame.validStreamIDOrZero sid.toNat := by
  unfold Generated.PureH2.validStreamIDOrZero Req.H2.Frame.validStreamIDOrZero Req.H2.Frame.two31
  rw [and_top_bit]

/-- `validStreamID`: non-zero and below 2^31. -/
theorem validStreamID_bridge (sid : UInt32) :
    Generated.PureH2.validStreamID sid = Req.H2.Frame.validStreamID sid.toNat := by
  unfold Generated.PureH2.validStreamID Req.H2.Frame.validStreamID Req.H2.Frame.two31
  rw [and_top_bit]
  have : (sid != 0) = decide (sid.toNat ≠ 0) := by
    by_cases h : sid = 0
    · subst h; simp
    · have : sid.toNat ≠ 0 := fun h0 => h (UInt32.toNat_inj.mp (by simpa using h0))
      simp [h, this]
  rw [this]

end Bridge.PureH2
