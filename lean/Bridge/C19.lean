import Generated.CloneTable
import Req.Client.CloneFacts
/-!
# C19 — bridging theorems over the regenerated clone/setter facts

`Generated/CloneTable.lean` is printed by `tools/gofacts` (extractor `c19.go`) from the current
source on every run. The theorems below are re-checked by `lake build Bridge.C19`; a new
reference-typed field that `Clone` shares although a setter mutates it in place, a removed
`clone*` call, or a setter-written field that `Clone` drops, makes `clone_rows_safe` false.

Open findings (known-findings.txt, read by gofacts into the `open_*` flags) excuse exactly
the rows / facts of their class; once the patch is applied and the `open:` line removed the
obligation is the unconditional one.
-/
namespace Bridge.C19
open Generated.CloneTable Req.CloneFacts

/-- Row ids excused by the open findings. -/
def excused : List Nat :=
  (if open_wrapper_slice_alias then [Client_roundTripWrappers.id, Transport_httpRoundTripWrappers.id] else [])
  ++ (if open_h2c_allowhttp_dropped then [H2Transport_AllowHTTP.id] else [])
  ++ (if open_tls_config_shared then [TLSConfig_Certificates.id, TLSConfig_RootCAs.id] else [])

/-- Every field a setter mutates in place is deep-copied or rebuilt by `Clone`, and no field a
setter writes is dropped by `Clone` (modulo the open findings). -/
theorem clone_rows_safe : allSafeExcept excused rows = true := by decide

/-- `Client.R` clones the retry option for the request. -/
theorem request_retry_fresh : requestRetryFresh = true := by decide

/-- `Client.Clone` calls `initCookieJar` after rebuilding the `http.Client`: a jar that comes
from a factory is not shared with the copy. -/
theorem jar_rebuilt : jarRebuilt = true := by decide

/-- The copy's dumper is re-linked to the copy's `dumpOptions`. -/
theorem dump_relinked : (dumpRelinked || open_dump_options_unlinked) = true := by decide

/-- The TLS-fingerprint handshake closure does not keep reading the original client. -/
theorem fingerprint_rebound :
    (!fingerprintCapturesClient || fingerprintReboundInClone || open_fingerprint_captures_original) = true := by decide

/-- The scan saw the settings API (guards against an extractor that silently sees nothing). -/
theorem scan_not_vacuous : 150 ≤ settingsMethodsScanned ∧ 100 ≤ rows.length := by decide

end Bridge.C19
