import Generated.CloneTable
import Req.Client.CloneFacts
import Req.Props.C19
/-!
# C19 — bridging theorems over the regenerated clone/setter facts

`Generated/CloneTable.lean` is printed by `tools/gofacts` (extractor `c19.go`) from the current
source on every run. The theorems below are re-checked by `lake build Bridge.C19`; a new
reference-typed field that `Clone` shares although a setter mutates it in place, a removed
`clone*` call, or a setter-written field that `Clone` drops, makes `clone_rows_safe` false.

Open findings (known-findings.txt, read by gofacts into the `open_*` flags) excuse exactly
the rows / facts of their class; once the patch is applied and the `open:` line removed the
obligation is the unconditional one.
-/
namespace Bridge.C19
open Generated.CloneTable Req.CloneFacts

/-- Row ids excused by the open findings. -/
def excused : List Nat :=
  (if open_wrapper_slice_alias then [Client_roundTripWrappers.id, Transport_httpRoundTripWrappers.id] else [])
  ++ (if open_h2c_allowhttp_dropped then [H2Transport_AllowHTTP.id] else [])
  ++ (if open_tls_config_shared then [TLSConfig_Certificates.id, TLSConfig_RootCAs.id] else [])

/-- Every field a setter mutates in place is deep-copied or rebuilt by `Clone`, and no field a
setter writes is dropped by `Clone` (modulo the open findings). -/
theorem clone_rows_safe : allSafeExcept excused rows = true := by decide

/-- `Client.R` clones the retry option for the request. -/
theorem request_retry_fresh : requestRetryFresh = true := by decide

/-- `Client.Clone` calls `initCookieJar` after rebuilding the `http.Client`: a jar that comes
from a factory is not shared with the copy. -/
theorem jar_rebuilt : jarRebuilt = true := by decide

/-- The copy's dumper is re-linked to the copy's `dumpOptions`. -/
theorem dump_relinked : (dumpRelinked || open_dump_options_unlinked) = true := by decide

/-- The TLS-fingerprint handshake closure does not keep reading the original client. -/
theorem fingerprint_rebound :
    (!fingerprintCapturesClient || fingerprintReboundInClone || open_fingerprint_captures_original) = true := by decide

/-! ## From the regenerated rows to the treatment tables of the reference-aware model -/

open Req.Scope Req.Heap in
/-- model treatment of a Go field: dropped, made anew, or shared. A reference that no setter
mutates in place is an immutable value as far as the model is concerned (the model's primitives
on such a field only ever replace it). Rows excused by an open finding count as repaired. -/
def treatRow (r : Row) : Treatment :=
  if excused.contains r.id then .fresh else
  match r.how with
  | .absent => .absent
  | .cloned => .fresh
  | .rebuilt => .fresh
  | .assigned => if r.kind.isRef && r.inPlace then .assigned else .fresh

open Req.Scope Req.Heap in
/-- a field that lives behind pointer / struct field `p` -/
def via (p : Row) (t : Treatment) : Treatment :=
  match treatRow p with
  | .assigned => .assigned
  | .absent => .absent
  | .fresh => t

open Req.Scope Req.Heap in
/-- the `Clone` table of the code under test, field by field of the model (`Scope.F`) -/
def cloneTbl : Table := fun f =>
  let T := via Client_Transport
  let O := fun t => T (via Transport_Options t)
  let TLS := fun t => O (via Options_TLSClientConfig t)
  let H2 := fun t => T (via Transport_t2 t)
  let RO := via Client_retryOption
  let DO := via Client_dumpOptions
  let HC := via Client_httpClient
  match f.val with
  | 0 => T (treatRow Transport_Headers)
  | 1 => treatRow Client_PathParams
  | 2 => treatRow Client_QueryParams
  | 3 => treatRow Client_FormData
  | 4 => T (treatRow Transport_Cookies)
  | 5 => treatRow Client_udBeforeRequest
  | 6 => treatRow Client_afterResponse
  | 7 => treatRow Client_roundTripWrappers
  | 8 => T (treatRow Transport_httpRoundTripWrappers)
  | 9 => treatRow Client_wrappedRoundTrip
  | 10 => T (treatRow Transport_wrappedRoundTrip)
  | 11 => RO (treatRow retryOption_RetryConditions)
  | 12 => RO (treatRow retryOption_RetryHooks)
  | 13 => RO (treatRow retryOption_MaxRetries)
  | 14 => RO (treatRow retryOption_GetRetryInterval)
  | 15 => if jarRebuilt then .absent else .assigned
  | 16 => treatRow Client_cookiejarFactory
  | 17 => TLS (treatRow TLSConfig_Certificates)
  | 18 => TLS (treatRow TLSConfig_RootCAs)
  | 19 => TLS (treatRow TLSConfig_InsecureSkipVerify)
  | 20 => O (treatRow Options_Dump)
  | 21 => DO (treatRow DumpOptions_Output)
  | 22 => DO (treatRow DumpOptions_RequestHeader)
  | 23 => DO (treatRow DumpOptions_RequestBody)
  | 24 => DO (treatRow DumpOptions_ResponseHeader)
  | 25 => DO (treatRow DumpOptions_ResponseBody)
  | 26 => treatRow Client_BaseURL
  | 27 => treatRow Client_AllowGetMethodPayload
  | 28 => treatRow Client_DebugLog
  | 29 => treatRow Client_trace
  | 30 => treatRow Client_disableAutoReadResponse
  | 31 => treatRow Client_outputDirectory
  | 32 => treatRow Client_scheme
  | 33 => O (treatRow Options_Proxy)
  | 34 => O (treatRow Options_DisableKeepAlives)
  | 35 => O (treatRow Options_DisableCompression)
  | 36 => O (treatRow Options_AutoDecompression)
  | 37 => O (treatRow Options_TLSHandshakeTimeout)
  | 38 => O (treatRow Options_MaxIdleConns)
  | 39 => O (treatRow Options_MaxConnsPerHost)
  | 40 => O (treatRow Options_IdleConnTimeout)
  | 41 => O (treatRow Options_ResponseHeaderTimeout)
  | 42 => O (treatRow Options_ExpectContinueTimeout)
  | 43 => O (treatRow Options_MaxResponseHeaderBytes)
  | 44 => O (treatRow Options_WriteBufferSize)
  | 45 => O (treatRow Options_ReadBufferSize)
  | 46 => O (treatRow Options_EnableH2C)
  | 47 => O (treatRow Options_DialTLSContext)
  | 48 => T (treatRow Transport_forceHttpVersion)
  | 49 => T (treatRow Transport_disableAutoDecode)
  | 50 => T (treatRow Transport_t3)
  | 51 => H2 (treatRow H2Transport_AllowHTTP)
  | 52 => H2 (treatRow H2Transport_MaxHeaderListSize)
  | 53 => H2 (treatRow H2Transport_StrictMaxConcurrentStreams)
  | 54 => H2 (treatRow H2Transport_ReadIdleTimeout)
  | 55 => H2 (treatRow H2Transport_PingTimeout)
  | 56 => H2 (treatRow H2Transport_WriteByteTimeout)
  | 57 => H2 (treatRow H2Transport_ConnectionFlow)
  | 58 => H2 (treatRow H2Transport_HeaderPriority)
  | 59 => H2 (treatRow H2Transport_Settings)
  | 60 => H2 (treatRow H2Transport_PriorityFrames)
  | 61 => HC (treatRow HTTPClient_Timeout)
  | 62 => HC (treatRow HTTPClient_CheckRedirect)
  | _ => .fresh

open Req.Scope Req.Heap in
/-- the `R()` table: the request gets the client's retry option as `Client.R` produces it -/
def reqTbl : Table := fun f =>
  let RO := fun (t : Treatment) => if requestRetryFresh then t else Treatment.assigned
  match f.val with
  | 11 => RO (treatRow retryOption_RetryConditions)
  | 12 => RO (treatRow retryOption_RetryHooks)
  | 13 => RO (treatRow retryOption_MaxRetries)
  | 14 => RO (treatRow retryOption_GetRetryInterval)
  | _ => .absent

/-- `CloneTable.Safe` for the tables regenerated from the source (modulo the open findings). -/
theorem clone_table_safe : Req.Heap.Safe cloneTbl reqTbl :=
  Req.Props.C19.safe_of_checks _ _ (by decide) (by decide) (by decide) (by decide)

/-- Hence the reference-aware model with the code's own `Clone` / `R()` treatment denotes the
value model, for every program and every slice growth policy. -/
theorem repo_heap_refines_scope (grow : Nat → Nat → Nat) (ops : List Req.Scope.Op) :
    Req.Heap.abs (Req.Heap.runHeap grow cloneTbl reqTbl ops).1 = (Req.Scope.runScope ops).1 ∧
    (Req.Heap.runHeap grow cloneTbl reqTbl ops).2 = (Req.Scope.runScope ops).2 :=
  Req.Props.C19.heap_refines_scope cloneTbl reqTbl clone_table_safe grow ops

/-- The scan saw the settings API (guards against an extractor that silently sees nothing). -/
theorem scan_not_vacuous : 150 ≤ settingsMethodsScanned ∧ 100 ≤ rows.length := by decide

end Bridge.C19
