import Generated.CloneTable
import Req.Client.CloneFacts
import Req.Props.C19
import Req.Props.C19Graph
import Req.Client.ShareJudge
import Req.Client.ReqSetters
/-!
# C19 — bridging theorems over the regenerated clone/setter facts

`Generated/CloneTable.lean` is printed by `tools/gofacts` (extractor `c19.go`) from the current
source on every run. The theorems below are re-checked by `lake build Bridge.C19`; a new
reference-typed field that `Clone` shares although a setter mutates it in place, a removed
`clone*` call, or a setter-written field that `Clone` drops, makes `clone_rows_safe` false.

Open findings (known-findings.txt, read by gofacts into the `open_*` flags) excuse exactly
the rows / facts of their class; once the patch is applied and the `open:` line removed the
obligation is the unconditional one.
-/
namespace Bridge.C19
open Generated.CloneTable Req.CloneFacts

-- the `decide`s below walk the whole regenerated table: their depth grows with the number of fields in the source
set_option maxRecDepth 65536

/-- Row ids excused by the open findings. -/
def excused : List Nat :=
  (if open_wrapper_slice_alias then [Client_roundTripWrappers.id, Transport_httpRoundTripWrappers.id] else [])
  ++ (if open_h2c_allowhttp_dropped then [H2Transport_AllowHTTP.id] else [])
  ++ (if open_tls_config_shared then [TLSConfig_Certificates.id, TLSConfig_RootCAs.id] else [])

/-- Every field a setter mutates in place is deep-copied or rebuilt by `Clone`, and no field a
setter writes is dropped by `Clone` (modulo the open findings). -/
theorem clone_rows_safe : allSafeExcept excused rows = true := by decide

/-- `Client.R` clones the retry option for the request. -/
theorem request_retry_fresh : requestRetryFresh = true := by decide

/-- `Client.Clone` calls `initCookieJar` after rebuilding the `http.Client`: a jar that comes
from a factory is not shared with the copy. -/
theorem jar_rebuilt : jarRebuilt = true := by decide

/-- The copy's dumper is re-linked to the copy's `dumpOptions`. -/
theorem dump_relinked : (dumpRelinked || open_dump_options_unlinked) = true := by decide

/-- The TLS-fingerprint handshake closure does not keep reading the original client. -/
theorem fingerprint_rebound :
    (!fingerprintCapturesClient || fingerprintReboundInClone || open_fingerprint_captures_original) = true := by decide

/-! ## From the regenerated rows to the treatment tables of the reference-aware model -/

open Req.Scope Req.Heap in
/-- model treatment of a Go field: dropped, made anew, or shared. A reference that no setter
mutates in place is an immutable value as far as the model is concerned (the model's primitives
on such a field only ever replace it). Rows excused by an open finding count as repaired. -/
def treatRow (r : Row) : Treatment :=
  if excused.contains r.id then .fresh else
  match r.how with
  | .absent => .absent
  | .cloned => .fresh
  | .rebuilt => .fresh
  | .assigned => if r.kind.isRef && r.inPlace then .assigned else .fresh

open Req.Scope Req.Heap in
/-- a field that lives behind pointer / struct field `p` -/
def via (p : Row) (t : Treatment) : Treatment :=
  match treatRow p with
  | .assigned => .assigned
  | .absent => .absent
  | .fresh => t

open Req.Scope Req.Heap in
/-- the `Clone` table of the code under test, field by field of the model (`Scope.F`) -/
def cloneTbl : Table := fun f =>
  let T := via Client_Transport
  let O := fun t => T (via Transport_Options t)
  let TLS := fun t => O (via Options_TLSClientConfig t)
  let H2 := fun t => T (via Transport_t2 t)
  let RO := via Client_retryOption
  let DO := via Client_dumpOptions
  let HC := via Client_httpClient
  match f.val with
  | 0 => T (treatRow Transport_Headers)
  | 1 => treatRow Client_PathParams
  | 2 => treatRow Client_QueryParams
  | 3 => treatRow Client_FormData
  | 4 => T (treatRow Transport_Cookies)
  | 5 => treatRow Client_udBeforeRequest
  | 6 => treatRow Client_afterResponse
  | 7 => treatRow Client_roundTripWrappers
  | 8 => T (treatRow Transport_httpRoundTripWrappers)
  | 9 => treatRow Client_wrappedRoundTrip
  | 10 => T (treatRow Transport_wrappedRoundTrip)
  | 11 => RO (treatRow retryOption_RetryConditions)
  | 12 => RO (treatRow retryOption_RetryHooks)
  | 13 => RO (treatRow retryOption_MaxRetries)
  | 14 => RO (treatRow retryOption_GetRetryInterval)
  | 15 => if jarRebuilt then .absent else .assigned
  | 16 => treatRow Client_cookiejarFactory
  | 17 => TLS (treatRow TLSConfig_Certificates)
  | 18 => TLS (treatRow TLSConfig_RootCAs)
  | 19 => TLS (treatRow TLSConfig_InsecureSkipVerify)
  | 20 => O (treatRow Options_Dump)
  | 21 => DO (treatRow DumpOptions_Output)
  | 22 => DO (treatRow DumpOptions_RequestHeader)
  | 23 => DO (treatRow DumpOptions_RequestBody)
  | 24 => DO (treatRow DumpOptions_ResponseHeader)
  | 25 => DO (treatRow DumpOptions_ResponseBody)
  | 26 => treatRow Client_BaseURL
  | 27 => treatRow Client_AllowGetMethodPayload
  | 28 => treatRow Client_DebugLog
  | 29 => treatRow Client_trace
  | 30 => treatRow Client_disableAutoReadResponse
  | 31 => treatRow Client_outputDirectory
  | 32 => treatRow Client_scheme
  | 33 => O (treatRow Options_Proxy)
  | 34 => O (treatRow Options_DisableKeepAlives)
  | 35 => O (treatRow Options_DisableCompression)
  | 36 => O (treatRow Options_AutoDecompression)
  | 37 => O (treatRow Options_TLSHandshakeTimeout)
  | 38 => O (treatRow Options_MaxIdleConns)
  | 39 => O (treatRow Options_MaxConnsPerHost)
  | 40 => O (treatRow Options_IdleConnTimeout)
  | 41 => O (treatRow Options_ResponseHeaderTimeout)
  | 42 => O (treatRow Options_ExpectContinueTimeout)
  | 43 => O (treatRow Options_MaxResponseHeaderBytes)
  | 44 => O (treatRow Options_WriteBufferSize)
  | 45 => O (treatRow Options_ReadBufferSize)
  | 46 => O (treatRow Options_EnableH2C)
  | 47 => O (treatRow Options_DialTLSContext)
  | 48 => T (treatRow Transport_forceHttpVersion)
  | 49 => T (treatRow Transport_disableAutoDecode)
  | 50 => T (treatRow Transport_t3)
  | 51 => H2 (treatRow H2Transport_AllowHTTP)
  | 52 => H2 (treatRow H2Transport_MaxHeaderListSize)
  | 53 => H2 (treatRow H2Transport_StrictMaxConcurrentStreams)
  | 54 => H2 (treatRow H2Transport_ReadIdleTimeout)
  | 55 => H2 (treatRow H2Transport_PingTimeout)
  | 56 => H2 (treatRow H2Transport_WriteByteTimeout)
  | 57 => H2 (treatRow H2Transport_ConnectionFlow)
  | 58 => H2 (treatRow H2Transport_HeaderPriority)
  | 59 => H2 (treatRow H2Transport_Settings)
  | 60 => H2 (treatRow H2Transport_PriorityFrames)
  | 61 => HC (treatRow HTTPClient_Timeout)
  | 62 => HC (treatRow HTTPClient_CheckRedirect)
  | _ => .fresh

open Req.Scope Req.Heap in
/-- the `R()` table: the request gets the client's retry option as `Client.R` produces it -/
def reqTbl : Table := fun f =>
  let RO := fun (t : Treatment) => if requestRetryFresh then t else Treatment.assigned
  match f.val with
  | 11 => RO (treatRow retryOption_RetryConditions)
  | 12 => RO (treatRow retryOption_RetryHooks)
  | 13 => RO (treatRow retryOption_MaxRetries)
  | 14 => RO (treatRow retryOption_GetRetryInterval)
  | _ => .absent

/-- `CloneTable.Safe` for the tables regenerated from the source (modulo the open findings). -/
theorem clone_table_safe : Req.Heap.Safe cloneTbl reqTbl :=
  Req.Props.C19.safe_of_checks _ _ (by decide) (by decide) (by decide) (by decide)

/-- Hence the reference-aware model with the code's own `Clone` / `R()` treatment denotes the
value model, for every program and every slice growth policy. -/
theorem repo_heap_refines_scope (grow : Nat → Nat → Nat) (ops : List Req.Scope.Op) :
    Req.Heap.abs (Req.Heap.runHeap grow cloneTbl reqTbl ops).1 = (Req.Scope.runScope ops).1 ∧
    (Req.Heap.runHeap grow cloneTbl reqTbl ops).2 = (Req.Scope.runScope ops).2 :=
  Req.Props.C19.heap_refines_scope cloneTbl reqTbl clone_table_safe grow ops

/-- The scan saw the settings API (guards against an extractor that silently sees nothing). -/
theorem scan_not_vacuous : 150 ≤ settingsMethodsScanned ∧ 100 ≤ rows.length := by decide


/-! ## The object graph of the code under test (round 4)

`Req/Client/Graph.lean` + `Req/Props/C19Graph.lean`: `Clone` as a copy of an object graph directed by
a per-field specification, and the separation theorem under the decidable premise `rowsSafe`.
Here the specification is computed from the regenerated rows — one graph type per struct
(`Client`, `Transport`, the embedded `Options`, the HTTP/2 transport, `retryOption`,
`DumpOptions`, `tls.Config`, `http.Client`, the dumper, and the two kinds of closures the
library builds around one client / one transport) — and the premise is decided. -/

namespace GraphOfRepo
open Req.Graph Req.Props.C19Graph Req.ShareJudge

/-- graph types: 0 plain value, 1 function value (both immutable leaves), 2 any other object
(map, array, pointed-to struct that is not modelled further), 10… the modelled structs, 19 a
closure over a client, 20 a closure over a transport -/
def ownerTy (o : String) : Ty :=
  if o == "Client" then 10 else if o == "Transport" then 11 else if o == "Options" then 12
  else if o == "H2Transport" then 13 else if o == "retryOption" then 14 else if o == "DumpOptions" then 15
  else if o == "TLSConfig" then 16 else if o == "HTTPClient" then 17 else if o == "Dumper" then 18 else 2

/-- where a field leads: to another modelled struct, to a per-client closure, or to a leaf by kind -/
def targetTy (r : Row) : Ty :=
  if r.id == Client_Transport.id then 11
  else if r.id == Transport_Options.id then 12
  else if r.id == Transport_t2.id then 13
  else if r.id == Options_TLSClientConfig.id then 16
  else if r.id == Options_Dump.id then 18
  else if r.id == Client_retryOption.id then 14
  else if r.id == Client_dumpOptions.id then 15
  else if r.id == Client_httpClient.id then 17
  else if r.id == H2Transport_Options.id then 12
  else if r.id == HTTPClient_Transport.id then 11
  else if r.id == Client_wrappedRoundTrip.id || r.id == Options_Debugf.id || r.id == Options_TLSHandshakeContext.id then 19
  else if r.id == Transport_wrappedRoundTrip.id then 20
  else match r.kind with
    | .value => 0
    | .func => 1
    | _ => 2

/-- what the copy's field is, from the row's `how` and the ordering facts of `Client.Clone` -/
def treatOf (r : Row) : Treat :=
  -- fields that `Clone` first copies by assignment and then makes again for the copy
  if r.id == HTTPClient_Jar.id then (if jarRebuilt then .fresh else .share)
  else if r.id == HTTPClient_Transport.id then (if httpClientTransportRebound then .toNew 11 else .share)
  else if r.id == Options_Debugf.id then (if debugfRebound then .copy else .share)
  else if r.id == Options_TLSHandshakeContext.id then
    (if !fingerprintCapturesClient || fingerprintReboundInClone || open_fingerprint_captures_original then .copy else .share)
  else if excused.contains r.id then .copy
  else match r.how with
    | .assigned => .share
    | .cloned => .copy
    | .rebuilt => if r.id == H2Transport_Options.id then .toNew 12 else if targetTy r == 19 || targetTy r == 20 then .copy else .fresh
    | .absent => .zero

/-- the strictest context: a TLS fingerprint is set and the client has a jar factory -/
def strict : Ctx := ⟨true, true, false⟩

def fieldRow (r : Row) : FieldRow :=
  ⟨ownerTy r.owner, r.id, treatOf r, targetTy r, sharedByDesign r.owner r.field r.kind strict⟩

/-- the regenerated rows as graph field rows, plus what the two per-client closures capture -/
def repoRows : List FieldRow :=
  rows.map fieldRow ++ [⟨19, 1000, .toNew 10, 10, false⟩, ⟨20, 1001, .toNew 11, 11, false⟩]

def immTys : List Ty := [0, 1]

/-- **Every field `Clone` shares is in the SharedByDesign list or refers to an immutable value** —
decided for the regenerated table. A new reference-typed field copied by `cc := *c`, a `Clone`
that hands the original's queue / pool / closure to the copy, breaks this. -/
theorem repo_rows_safe : rowsSafe repoRows immTys = true := by decide

/-- Hence, for EVERY heap that is an instance of the structs of the code under test: after `Clone`
no object is reachable from both clients except immutable values and what lies below a
SharedByDesign reference. -/
theorem repo_clone_separates (fuel : Nat) (g : G) (r : Nat) (hwf : WFBelow g.next g) (hr : r < g.next)
    (hc : Conforms repoRows immTys g) :
    ∀ n, Reach (clone (specOf repoRows) fuel g r).1 r n →
      Reach (clone (specOf repoRows) fuel g r).1 (clone (specOf repoRows) fuel g r).2 n →
      Common (immOf immTys) (designOf repoRows) (clone (specOf repoRows) fuel g r).1 g.next n :=
  rows_clone_separates repoRows immTys repo_rows_safe fuel g r hwf hr hc

/-- the copy's dumper has a queue of its own. (That it also has a writer goroutine of its own —
fact `dumperStarted`, printed for information — is tied behaviourally by lane `life`: where the
goroutine is started is a matter of shape, e.g. lazily on first use, and not an obligation here.) -/
theorem dumper_own_queue : (Dumper_ch.how != .assigned) = true := by decide

/-- the rows that are shared, for the notes (all by design) -/
def sharedRows : List (String × String) :=
  (rows.filter fun r => treatOf r == .share && targetTy r != 0 && targetTy r != 1).map fun r => (r.owner, r.field)

end GraphOfRepo

/-! ## The request-level settings API is covered row by row (round 4) -/

/-- every exported method of `*Request` returning `*Request` found in request.go has a row in
`Req.ReqSetters.table` -/
theorem request_setters_have_rows : requestSetters.all Req.ReqSetters.hasRow = true := by decide

/-- and no row is about a method that no longer exists -/
theorem request_setter_rows_current : Req.ReqSetters.table.all (fun e => requestSetters.contains e.1) = true := by decide

/-- every family a row names is one the value model has -/
theorem request_setter_families_known :
    Req.ReqSetters.table.all (fun e => match e.2 with
      | some c => Req.ReqSetters.families.contains c
      | none => true) = true := by decide

end Bridge.C19
