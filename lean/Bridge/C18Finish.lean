import Generated.C18Finish
import Req.Client.Finish
/-!
C18 bridge (round 5): the two FINISHING SITES of the Go code have the shape of the model's
`Site.combine` / `Site.saves`.

`Generated.C18Finish` (tools/gofacts c18finish.go) is the meaning of each site as an interpreter
of its statements finds it: per world (output set, binding fails, saving fails) the error the
site ends with and whether the save step is attempted. The theorems below say the table of
each site is the model's, world by world, and that all six worlds are present. An edit that lets
a successful save cover a binding failure (seed C18-r5-3), that stops recording one of the two
failures in the client loop, that saves after a failed binding in the digest tail, or that
changes the built-in head of the client's middleware list changes the table and breaks a proof;
renamed locals, if/else ↔ guard clauses ↔ switch, named ↔ unnamed results, a helper around the
tail do not.
-/
namespace Bridge.C18Finish
open Req.Result Req.Pipeline

/-- The numbering of the generated table. -/
def code : Option Err → Nat
  | none => 0
  | some .unmarshal => 1
  | some .output => 2
  | some _ => 3

/-- The binding / saving failure of a world, as model errors. -/
def pOf (w : Bool × Bool × Bool) : Option Err := if w.2.1 then some .unmarshal else none
def sOf (w : Bool × Bool × Bool) : Option Err := if w.1 && w.2.2 then some .output else none

/-- What the model says about `site` in world `w`: the error it ends with — the save step's
failure counting only when the site attempts it — and whether it attempts it (9 = no output). -/
def modelRow (site : Site) (w : Bool × Bool × Bool) : List Nat × Nat :=
  let attempts : Bool := match site with
    | .clientLoop => true
    | .digestTail => (pOf w).isNone
  ([code (site.combine (pOf w) (if attempts then sOf w else none))],
   if w.1 then (if attempts then 1 else 0) else 9)

def worlds : List (Bool × Bool × Bool) :=
  [(false, false, false), (false, true, false), (true, false, false), (true, false, true), (true, true, false), (true, true, true)]

/-- the client's built-in response middleware are binding, then saving -/
theorem client_builtins_shape : Generated.C18Finish.clientBuiltins = ["parseResponseBody", "handleDownload"] := by
  decide

/-- `Client.roundTrip`'s loop over the built-in head = the model's client-loop site, in every world -/
theorem client_loop_site_shape :
    Generated.C18Finish.clientLoop = worlds.map fun w => (w, modelRow .clientLoop w) := by
  decide

/-- the tail of the digest middleware = the model's digest-tail site, in every world -/
theorem digest_tail_site_shape :
    Generated.C18Finish.digestTail = worlds.map fun w => (w, modelRow .digestTail w) := by
  decide

/-- `modelRow` is the model: `Site.saves` of the digest tail (repaired code) is "binding did not
fail", of the client loop "always" (up to the digest-challenge exception, which is
`challenge_is_not_saved`'s subject). -/
theorem modelRow_attempts (s : Stack) (a : Nat) (r : Resp) (p : Option Err) (h : s.fixDigestSave = true) :
    Site.saves .digestTail s a r p = p.isNone := by
  simp [Site.saves, h]

/-- both sites, every world: no error at the end only when neither stage failed -/
theorem sites_lose_no_failure (site : Site) :
    ∀ w ∈ worlds, (modelRow site w).1 = [0] → w.2.1 = false ∧ (w.1 && w.2.2) = false := by
  cases site <;> decide

end Bridge.C18Finish
