import Generated.PureChunked
import Req.H1.Chunked
/-!
Bridge: the Lean definitions that `tools/gofacts` (pure.go) TRANSLATES from
`internal/chunked.go` on every run are equal to the hand-written model functions of
`Req.H1.Chunked` that C04's / C03's / C02's theorems are about.  The statements also say that the
Go functions neither panic (index / slice out of range) nor loop for ever: the generated
function returns `Res.ok …` for EVERY input.
-/
namespace Bridge.PureChunked
open Req.GoSem Req.H1
open Generated.PureChunked (parseHexUint_loop1 trimTrailingWhitespace_loop1)

/-- `isASCIISpace` of internal/chunked.go is the model's `isASCIISpace`. -/
theorem isASCIISpace_bridge (b : UInt8) :
    Generated.PureChunked.isASCIISpace b = Req.H1.isASCIISpace b := by
  -- by evaluation on all 256 bytes: independent of how the Go function is written
  have h : ∀ n, n < 256 → Generated.PureChunked.isASCIISpace (UInt8.ofNat n) =
      Req.H1.isASCIISpace (UInt8.ofNat n) := by decide +kernel
  simpa using h b.toNat (UInt8.toNat_lt b)

/-! ### trimTrailingWhitespace -/

theorem trimWS_nil : trimTrailingWS ([] : Bytes) = [] := by
  simp [trimTrailingWS]

theorem trimWS_concat (l : Bytes) (c : UInt8) :
    trimTrailingWS (l ++ [c]) = if Req.H1.isASCIISpace c then trimTrailingWS l else l ++ [c] := by
  unfold trimTrailingWS
  simp only [List.reverse_append, List.reverse_cons, List.reverse_nil, List.nil_append,
    List.singleton_append, List.dropWhile_cons]
  split <;> simp

theorem idx_last (l : Bytes) (c : UInt8) :
    idx? (l ++ [c]) (len (l ++ [c]) - (1 : Int)) = some c := by
  have h : len (l ++ [c]) - (1 : Int) = ((l.length : Nat) : Int) := by
    simp [len]
  rw [h, idx?_eq_getElem?]
  simp

theorem slice_init (l : Bytes) (c : UInt8) :
    slice? (l ++ [c]) (0 : Int) (len (l ++ [c]) - (1 : Int)) = some l := by
  have h : len (l ++ [c]) - (1 : Int) = ((l.length : Nat) : Int) := by
    simp [len]
  rw [h, slice?_to _ _ (by simp)]
  simp

theorem trim_loop (fuel : Nat) : ∀ b : Bytes, b.length < fuel →
    trimTrailingWhitespace_loop1 fuel b = Res.ok (trimTrailingWS b) := by
  induction fuel with
  | zero => intro b h; omega
  | succ f ih =>
    intro b h
    rcases List.eq_nil_or_concat b with rfl | ⟨l, c, rfl⟩
    · simp [trimTrailingWhitespace_loop1, len, trimWS_nil]
    · simp only [List.concat_eq_append] at h ⊢
      have hpos : decide (len (l ++ [c]) > (0 : Int)) = true := by unfold len; simp <;> omega
      rw [trimTrailingWhitespace_loop1]
      simp only [if_pos hpos, idx_last, slice_init, isASCIISpace_bridge, trimWS_concat]
      by_cases hc : Req.H1.isASCIISpace c = true
      · simp only [hc, if_true]
        exact ih l (by simp at h; omega)
      · simp only [hc, Bool.false_eq_true, if_false]

/-- `trimTrailingWhitespace` never panics, terminates, and is the model's `trimTrailingWS`. -/
theorem trimTrailingWhitespace_bridge (b : Bytes) :
    Generated.PureChunked.trimTrailingWhitespace b = Res.ok (trimTrailingWS b) := by
  unfold Generated.PureChunked.trimTrailingWhitespace
  exact trim_loop _ b (by omega)

/-! ### parseHexUint -/

theorem shift_or (n : UInt64) (d : UInt8) (hn : n.toNat < 2^60) (hd : d.toNat < 16) :
    ((n <<< (4 : UInt64)) ||| d.toUInt64).toNat = n.toNat * 16 + d.toNat := by
  rw [UInt64.toNat_or, UInt64.toNat_shiftLeft]
  simp
  have h1 : n.toNat <<< 4 = n.toNat * 16 := by rw [Nat.shiftLeft_eq]
  rw [h1]
  have h2 : n.toNat * 16 % 18446744073709551616 = n.toNat * 16 := by omega
  rw [h2]
  have := Nat.shiftLeft_add_eq_or_of_lt (a := n.toNat) (i := 4) (b := d.toNat) (by omega)
  rw [h1] at this
  omega

/-- One iteration of the Go loop body, as a function: the digit value of a byte. -/
def digit (b : UInt8) : Option UInt8 :=
  if 48 ≤ b ∧ b ≤ 57 then some (b - 48)
  else if 97 ≤ b ∧ b ≤ 102 then some (b - 97 + 10)
  else if 65 ≤ b ∧ b ≤ 70 then some (b - 65 + 10)
  else none

theorem digit_hexVal (b : UInt8) : (digit b).map UInt8.toNat = hexVal? b := by
  unfold digit hexVal?
  by_cases h1 : 48 ≤ b ∧ b ≤ 57
  · simp only [h1, and_self, if_true, Option.map_some]
    obtain ⟨h1a, h1b⟩ := h1
    have := UInt8.le_iff_toNat_le.mp h1a
    have := UInt8.le_iff_toNat_le.mp h1b
    simp [UInt8.toNat_sub_of_le _ _ h1a]
  · simp only [h1, if_false]
    by_cases h2 : 97 ≤ b ∧ b ≤ 102
    · simp only [h2, and_self, if_true, Option.map_some]
      obtain ⟨h2a, h2b⟩ := h2
      have ha := UInt8.le_iff_toNat_le.mp h2a
      have hb := UInt8.le_iff_toNat_le.mp h2b
      simp at ha hb
      have : (b - 97 + 10).toNat = b.toNat - 87 := by
        rw [UInt8.toNat_add, UInt8.toNat_sub_of_le _ _ h2a]; simp; omega
      simp [this]
    · simp only [h2, if_false]
      by_cases h3 : 65 ≤ b ∧ b ≤ 70
      · simp only [h3, and_self, if_true, Option.map_some]
        obtain ⟨h3a, h3b⟩ := h3
        have ha := UInt8.le_iff_toNat_le.mp h3a
        have hb := UInt8.le_iff_toNat_le.mp h3b
        simp at ha hb
        have : (b - 65 + 10).toNat = b.toNat - 55 := by
          rw [UInt8.toNat_add, UInt8.toNat_sub_of_le _ _ h3a]; simp; omega
        simp [this]
      · simp [h3]

theorem digit_lt (b d : UInt8) (h : digit b = some d) : d.toNat < 16 := by
  have := digit_hexVal b
  rw [h] at this
  simp at this
  unfold hexVal? at this
  split at this
  · rename_i h1; have := UInt8.le_iff_toNat_le.mp h1.2; simp at *; omega
  · split at this
    · rename_i h2; have := UInt8.le_iff_toNat_le.mp h2.2; simp at *; omega
    · split at this
      · rename_i h3; have := UInt8.le_iff_toNat_le.mp h3.2; simp at *; omega
      · simp at this

/-- The generated loop body in terms of `digit`. -/
theorem loop_cons (v : Bytes) (b : UInt8) (rest : Bytes) (i : Int) (n : UInt64) :
    parseHexUint_loop1 v (b :: rest) i n =
      match digit b with
      | none => none
      | some d => if i == 16 then none
                  else parseHexUint_loop1 v rest (i + 1) ((n <<< (4 : UInt64)) ||| d.toUInt64) := by
  rw [parseHexUint_loop1]
  unfold digit
  by_cases h1 : 48 ≤ b ∧ b ≤ 57
  · simp [h1]
  · by_cases h2 : 97 ≤ b ∧ b ≤ 102
    · simp [h1, h2]
    · by_cases h3 : 65 ≤ b ∧ b ≤ 70
      · simp [h1, h2, h3]
      · simp [h1, h2, h3]

/-- Within 16 digits the loop is the model's accumulator (no overflow of the `uint64`). -/
theorem loop_short (v : Bytes) : ∀ (rest : Bytes) (k : Nat) (n : UInt64),
    k + rest.length ≤ 16 → n.toNat < 16 ^ k →
    (parseHexUint_loop1 v rest (k : Int) n).map UInt64.toNat = parseHexAcc n.toNat rest := by
  intro rest
  induction rest with
  | nil => intro k n _ _; simp [parseHexUint_loop1, parseHexAcc]
  | cons b rest ih =>
    intro k n hk hn
    rw [loop_cons]
    have hd := digit_hexVal b
    cases hdb : digit b with
    | none => rw [hdb] at hd; simp at hd; simp [parseHexAcc, ← hd]
    | some d =>
      rw [hdb] at hd; simp at hd
      have hk16 : ¬ ((k : Int) == 16) = true := by
        simp at hk ⊢; omega
      simp only [hk16, Bool.false_eq_true, if_false]
      have hd16 := digit_lt b d hdb
      have hn60 : n.toNat < 2 ^ 60 := by
        have : 16 ^ k ≤ 16 ^ 15 := Nat.pow_le_pow_right (by omega) (by simp at hk; omega)
        have : (16 : Nat) ^ 15 = 2 ^ 60 := by decide
        omega
      have hs := shift_or n d hn60 hd16
      have := ih (k + 1) ((n <<< (4 : UInt64)) ||| d.toUInt64) (by simp at hk ⊢; omega)
        (by rw [hs, Nat.pow_succ]; omega)
      rw [show ((k : Int) + 1) = ((k + 1 : Nat) : Int) by simp]
      rw [this, hs]
      simp [parseHexAcc, ← hd]

/-- More than 16 bytes: the loop fails (at an invalid byte or at index 16). -/
theorem loop_long (v : Bytes) : ∀ (rest : Bytes) (k : Nat) (n : UInt64),
    k ≤ 16 → 16 < k + rest.length → parseHexUint_loop1 v rest (k : Int) n = none := by
  intro rest
  induction rest with
  | nil => intro k n h1 h2; simp at h2; omega
  | cons b rest ih =>
    intro k n h1 h2
    rw [loop_cons]
    cases digit b with
    | none => rfl
    | some d =>
      by_cases hk : k = 16
      · subst hk; simp
      · have hk16 : ¬ ((k : Int) == 16) = true := by simp; omega
        simp only [hk16, Bool.false_eq_true, if_false]
        rw [show ((k : Int) + 1) = ((k + 1 : Nat) : Int) by simp]
        exact ih (k + 1) _ (by omega) (by simp at h2 ⊢; omega)

/-- `parseHexUint` of internal/chunked.go computes the model's `parseHexUint` (value as a natural
number; `none` = an error is returned) for every byte string. -/
theorem parseHexUint_bridge (v : Bytes) :
    (Generated.PureChunked.parseHexUint v).map UInt64.toNat = Req.H1.parseHexUint v := by
  unfold Generated.PureChunked.parseHexUint Req.H1.parseHexUint
  by_cases h0 : v = []
  · subst h0; simp [len]
  · have hlen : ¬ (len v == (0 : Int)) = true := by
      simp [len]; exact h0
    have hne : v.isEmpty = false := by simpa using h0
    simp only [hlen, Bool.false_eq_true, if_false, hne]
    by_cases hl : v.length > 16
    · simp only [hl, if_true]
      have := loop_long v v 0 0 (by omega) (by omega)
      simp at this
      simp [this]
    · simp only [hl, if_false]
      have := loop_short v v 0 0 (by omega) (by simp)
      simpa using this

end Bridge.PureChunked
