import Generated.C16Facts
import Req.H1.RequestWrite
import Req.H2.Fields
/-!
Bridge C16 / C01: the exclusion tables, bookkeeping keys and default user agent the models use are
the ones regenerated from the source of imroc/req by `tools/gofacts` (c16.go). A source edit that
adds, removes or re-spells a table entry or a key breaks one of these obligations.
-/
namespace Bridge.C16
open Generated.C16Facts

/-- equality of two key lists as sets. -/
def sameSet (a b : List (List UInt8)) : Bool := a.all (b.contains ·) && b.all (a.contains ·)

/-- root `reqWriteExcludeHeader` (exact-key lookup, HTTP/1.1 writer) -/
theorem root_exclude_table : sameSet rootExclude Req.H1.reqWriteExcludeHeader = true := by decide

theorem root_exclude_nodup : rootExclude.length = Req.H1.reqWriteExcludeHeader.length := by decide

/-- internal/header `reqWriteExcludeHeader` (lower-cased lookup, HTTP/2 and HTTP/3 writers) -/
theorem lower_exclude_table : sameSet lowerExclude Req.H2.excludeLower = true := by decide

theorem lower_exclude_nodup : lowerExclude.length = Req.H2.excludeLower.length := by decide

theorem header_order_key : headerOrderKey = Req.H1.headerOrderKey := by decide
theorem pseudo_header_order_key : pseudoHeaderOrderKey = Req.H1.pseudoHeaderOrderKey := by decide
/-- the setters (request.go) and the writers (internal/header) agree on the keys -/
theorem api_keys_agree :
    apiHeaderOrderKey = headerOrderKey ∧ apiPseudoHeaderOrderKey = pseudoHeaderOrderKey := by decide
theorem default_user_agent : defaultUserAgent = Req.H1.defaultUserAgent := by decide

/-- the bookkeeping keys are in both tables (so they can never be written as header fields) -/
theorem bookkeeping_excluded :
    rootExclude.contains headerOrderKey = true ∧ rootExclude.contains pseudoHeaderOrderKey = true ∧
    lowerExclude.contains headerOrderKey = true ∧ lowerExclude.contains pseudoHeaderOrderKey = true := by
  decide

/-- ALL internal keys: every `__name__` string literal anywhere in the module's sources is one of
the two bookkeeping keys the models know (`isBookkeeping`) — there is no third in-band key — … -/
theorem internal_keys_are_the_two :
    sameSet internalKeys [Req.H1.headerOrderKey, Req.H1.pseudoHeaderOrderKey] = true := by decide

/-- … and each of them is in the HTTP/1.1 table (exact key) and in the HTTP/2 / HTTP/3 table
(lower-cased lookup): a key added to the sources without being excluded breaks this. -/
theorem internal_keys_all_excluded :
    internalKeys.all (fun k => rootExclude.contains k && lowerExclude.contains (Req.Ascii.lower k)) = true := by
  decide

end Bridge.C16
