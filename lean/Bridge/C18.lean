import Generated.C18Facts
import Req.Client.Result
/-!
C18 bridge: the facts regenerated from /repo by tools/gofacts (c18.go) equal the model's.
A source edit that moves a threshold, reorders the ResultState constants, changes or drops an
auto-read guard or the 204 special-casing changes `Generated/C18Facts.lean` and breaks one of
these proofs. The proofs do not depend on the SHAPE of the generated decision tree (if-chain,
guard clauses, switch, hoisted locals, inlined helper all give trees that `split` + `omega`
handle alike).
-/
namespace Bridge.C18
open Req.Result Generated.C18Facts

/-- The model's states in the numbering of the source's `iota` block. -/
def code : ResultState → Nat
  | .success => successState
  | .error => errorState
  | .unknown => unknownState

/-- the three constants are distinct (the model's three-valued state is faithful) -/
theorem states_distinct : successState ≠ errorState ∧ errorState ≠ unknownState ∧ successState ≠ unknownState := by
  decide

/-- the model's default checker, numbered like the source -/
theorem code_default (c : Int) : code (Req.Result.defaultChecker c) =
    if c > 199 ∧ c < 300 then successState else if c > 399 then errorState else unknownState := by
  unfold Req.Result.defaultChecker
  by_cases h1 : c > 199 ∧ c < 300
  · simp [h1, code]
  · by_cases h2 : c > 399 <;> simp [h1, h2, code]

macro "bridge_cases" : tactic => `(tactic| (
  repeat' split
  all_goals first
    | rfl
    | (exfalso
       simp only [Bool.and_eq_true, Bool.or_eq_true, decide_eq_true_eq, Bool.not_eq_true', Bool.not_eq_true,
         decide_eq_false_iff_not, not_and, not_or, Bool.and_eq_false_iff, Bool.or_eq_false_iff, gt_iff_lt, ge_iff_le] at *
       omega)))

/-- `defaultResultStateChecker` as evaluated from the source = the model, for EVERY integer. -/
theorem default_checker_agrees (c : Int) : Generated.C18Facts.defaultChecker c = code (Req.Result.defaultChecker c) := by
  rw [code_default]; unfold Generated.C18Facts.defaultChecker
  simp only [successState, errorState, unknownState]
  bridge_cases

/-- every auto-read block (Client.roundTrip; the digest middleware) tests exactly the model's
boundary `autoReadStatus c ↔ c ≥ 200`, and Client.roundTrip has one -/
theorem auto_read_sites_shape :
    (∃ site ∈ autoReadSites, site.1 = "roundTrip") ∧ ∀ site ∈ autoReadSites, site.2 = [200] := by
  decide

theorem auto_read_boundary (c : Int) : autoReadStatus c = decide (c ≥ 200) := by
  simp only [autoReadStatus]
  by_cases h : c > 199
  · have : c ≥ 200 := by omega
    simp [h, this]
  · have : ¬ c ≥ 200 := by omega
    simp [h, this]

/-- `parseResponseBody` special-cases exactly the model's `noContent` status. -/
theorem parse_points_shape : parseStatusPoints = [noContent] := by
  decide

end Bridge.C18
