import Generated.C18Facts
import Req.Client.Result
/-!
C18 bridge: the facts regenerated from /repo by tools/gofacts (c18.go) equal the model's.
A source edit that moves a threshold, reorders the ResultState constants, changes an auto-read
guard or a 204 guard changes `Generated/C18Facts.lean` and breaks one of these proofs.
-/
namespace Bridge.C18
open Req.Result Generated.C18Facts

/-- The model's states in the numbering of the source's `iota` block. -/
def code : ResultState → Nat
  | .success => successState
  | .error => errorState
  | .unknown => unknownState

/-- the three constants are distinct (the model's three-valued state is faithful) -/
theorem states_distinct : successState ≠ errorState ∧ errorState ≠ unknownState ∧ successState ≠ unknownState := by
  decide

/-- `defaultResultStateChecker` as translated from the source = the model, for EVERY integer. -/
theorem default_checker_agrees (c : Int) : Generated.C18Facts.defaultChecker c = code (Req.Result.defaultChecker c) := by
  unfold Generated.C18Facts.defaultChecker Req.Result.defaultChecker
  by_cases h1 : c > 199 <;> by_cases h2 : c < 300 <;> by_cases h3 : c > 399 <;>
    simp [h1, h2, h3, code, successState, errorState, unknownState]

def evalOp : Op → Int → Int → Bool
  | .gt, a, b => decide (a > b)
  | .lt, a, b => decide (a < b)
  | .ge, a, b => decide (a ≥ b)
  | .le, a, b => decide (a ≤ b)
  | .eq, a, b => decide (a = b)
  | .ne, a, b => decide (a ≠ b)

def evalConj (l : List (Op × Int)) (c : Int) : Bool := l.all fun (op, v) => evalOp op c v

/-- every auto-read block (Client.roundTrip; the digest middleware once repaired) is guarded by
exactly the model's `autoReadStatus` -/
theorem auto_read_sites_shape :
    autoReadSites ≠ [] ∧ ∀ site ∈ autoReadSites, site.2 = [(.gt, 199)] := by
  decide

theorem auto_read_guard_agrees (site : String × List (Op × Int)) (h : site ∈ autoReadSites) (c : Int) :
    evalConj site.2 c = autoReadStatus c := by
  rw [auto_read_sites_shape.2 site h]
  simp [evalConj, evalOp, autoReadStatus]

/-- `parseResponseBody`: the success arm binds only when the status is not `noContent`, the error
arm returns early exactly on `noContent`. -/
theorem parse_arms_shape :
    parseSuccessArm = ("bind", [(.ne, noContent)]) ∧ parseErrorArm = ("return", [(.eq, noContent)]) := by
  decide

end Bridge.C18
