import Bridge.Search.Common
import Generated.PureAscii
import Req.Base.Ascii
open Bridge.Search Req.GoSem
def main : IO Unit := do
  let _ ← report "lower" allBytes (fun b => toString b.toNat) Generated.PureAscii.lower Req.Ascii.toLower
  let _ ← report "EqualFold" pairs (fun p => hex p.1 ++ "," ++ hex p.2) (fun p => Generated.PureAscii.equalFold p.1 p.2) (fun p => Res.ok (Req.Ascii.equalFold p.1 p.2))
  let _ ← report "IsPrint" strings hex Generated.PureAscii.isPrint (fun s => Res.ok (s.all fun c => !(decide (c < 32)) && !(decide (c > 126))))
  let _ ← report "Is" strings hex Generated.PureAscii.isASCII (fun s => Res.ok (s.all fun c => !(decide (c > 127))))
