import Bridge.Search.Common
import Generated.PureH2
import Req.H2.Frame
open Bridge.Search Req.GoSem
def ids : List UInt32 := [0, 1, 2, 3, 2147483646, 2147483647, 2147483648, 2147483649, 4294967294, 4294967295, 65535, 65536, 16777216]
def main : IO Unit := do
  let _ ← report "validStreamID" ids (fun b => toString b.toNat) Generated.PureH2.validStreamID (fun s => Req.H2.Frame.validStreamID s.toNat)
  let _ ← report "validStreamIDOrZero" ids (fun b => toString b.toNat) Generated.PureH2.validStreamIDOrZero (fun s => Req.H2.Frame.validStreamIDOrZero s.toNat)
