import Bridge.Search.Common
import Generated.PureChunked
import Req.H1.Chunked
open Bridge.Search Req.GoSem
def main : IO Unit := do
  let _ ← report "isASCIISpace" allBytes (fun b => toString b.toNat) Generated.PureChunked.isASCIISpace Req.H1.isASCIISpace
  let _ ← report "trimTrailingWhitespace" strings hex Generated.PureChunked.trimTrailingWhitespace (fun s => Res.ok (Req.H1.trimTrailingWS s))
  let _ ← report "parseHexUint" strings hex (fun s => (Generated.PureChunked.parseHexUint s).map UInt64.toNat) Req.H1.parseHexUint
