import Bridge.Search.Common
import Generated.PureHttp
import Req.Client.Validate
import Req.H1.LineSplit
open Bridge.Search Req.GoSem
def main : IO Unit := do
  let _ ← report "isTokenBoundary" allBytes (fun b => toString b.toNat) Generated.PureHttp.isTokenBoundary Req.Validate.isTokenBoundary
  let _ ← report "isASCIILetter" allBytes (fun b => toString b.toNat) Generated.PureHttp.isASCIILetter Req.Ascii.isAlpha
  let _ ← report "stringContainsCTLByte" strings hex Generated.PureHttp.stringContainsCTLByte (fun s => Res.ok (s.any Req.Validate.isCTL))
  let _ ← report "trim" strings hex Generated.PureHttp.trim (fun s => Res.ok (Req.H1.trimOWS s))
