import Bridge.Search.Common
import Generated.PureHttp
import Req.Client.Validate
import Req.H1.LineSplit
open Bridge.Search Req.GoSem
def main : IO Unit := do
  let _ ← report "isTokenBoundary" allBytes (fun b => toString b.toNat) Generated.PureHttp.isTokenBoundary Req.Validate.isTokenBoundary
  let _ ← report "isASCIILetter" allBytes (fun b => toString b.toNat) Generated.PureHttp.isASCIILetter Req.Ascii.isAlpha
  let _ ← report "stringContainsCTLByte" strings hex Generated.PureHttp.stringContainsCTLByte (fun s => Res.ok (s.any Req.Validate.isCTL))
  let lowerTokens : List Bytes := [[99, 108, 111, 115, 101], [107, 101, 101, 112, 45, 97, 108, 105, 118, 101], [97], [97, 32], [104, 111, 115, 116]]
  let tokPairs : List (Bytes × Bytes) := (strings.take 700 ++ mixed).flatMap fun v => lowerTokens.map fun t => (v, t)
  let _ ← report "hasToken" tokPairs (fun p => hex p.1 ++ "," ++ hex p.2) (fun p => Generated.PureHttp.hasToken p.1 p.2) (fun p => Res.ok (Req.Validate.hasToken p.1 p.2))
  let _ ← report "trim" strings hex Generated.PureHttp.trim (fun s => Res.ok (Req.H1.trimOWS s))
