import Req.Base.GoSem
/-!
Search support for the translated functions: when a `Bridge.Pure*` theorem no longer checks,
`bin/check` runs `lake env lean --run Bridge/Search/<Module>.lean`, which evaluates the function as
TRANSLATED FROM THE CURRENT SOURCE and the hand-written model on a fixed family of inputs (all 256
bytes; every byte string of length ≤ 2 over a boundary alphabet; runs of digits / blanks around the
lengths 15–18; mixed strings) and prints the inputs on which they differ.  That is a search for a
concrete failing input, not a proof; its output goes into the replay file.
-/
namespace Bridge.Search
open Req.GoSem

def alphabet : List UInt8 :=
  [0, 9, 10, 13, 31, 32, 33, 34, 40, 44, 47, 48, 57, 58, 59, 64, 65, 70, 71, 90, 91, 92, 96, 97, 102, 103,
   122, 123, 126, 127, 128, 255]

def allBytes : List UInt8 := (List.range 256).map UInt8.ofNat

def shortStrings : List Bytes :=
  [[]] ++ alphabet.map (fun a => [a]) ++ (alphabet.flatMap fun a => alphabet.map fun b => [a, b])

def runs : List Bytes :=
  ([48, 49, 57, 65, 70, 97, 102, 32, 9].flatMap fun c =>
    ([1, 3, 8, 14, 15, 16, 17, 18, 19, 33].map fun k => List.replicate k (c : UInt8)))

def mixed : List Bytes :=
  let words : List Bytes := [[72, 111, 115, 116], [104, 111, 115, 116], [99, 108, 111, 115, 101], [67, 76, 79, 83, 69],
    [32, 97, 32], [9, 97, 9], [32, 32], [97, 32, 98], [48, 70, 102], [49, 48, 48, 48], [65, 91, 97, 123], [126, 127, 128]]
  words ++ (words.flatMap fun a => words.map fun b => a ++ b)

def strings : List Bytes := shortStrings ++ runs ++ mixed

def pairs : List (Bytes × Bytes) :=
  let ws := shortStrings.take 200 ++ mixed.take 40
  (ws.flatMap fun a => (mixed.take 12 ++ shortStrings.take 40).map fun b => (a, b)) ++ mixed.map (fun a => (a, a))

def hex (s : Bytes) : String :=
  String.join (s.map fun b => let d := Nat.toDigits 16 b.toNat; String.ofList (if d.length < 2 then '0' :: d else d))

/-- report the first few disagreements of one function -/
def report {α β : Type} [BEq β] [Repr β] (fn : String) (inputs : List α) (render : α → String)
    (gen model : α → β) : IO Nat := do
  let bad := inputs.filter fun x => !(gen x == model x)
  for x in bad.take 5 do
    IO.println s!"DIFF {fn} input={render x} translated-from-source={repr (gen x)} model={repr (model x)}"
  if bad.isEmpty then IO.println s!"SAME {fn} on {inputs.length} inputs"
  return bad.length

end Bridge.Search
