import Bridge.Search.Common
import Generated.PureH1
import Req.Base.Ascii
import Req.H1.Transfer
open Bridge.Search Req.GoSem
def main : IO Unit := do
  let _ ← report "validHeaderFieldByte" allBytes (fun b => toString b.toNat) Generated.PureH1.validHeaderFieldByte (fun b => Res.ok (Req.Ascii.isTokenByte b))
  let _ ← report "bodyAllowedForStatus" (List.range 1000) toString (fun n => Generated.PureH1.bodyAllowedForStatus (n : Int)) Req.H1.bodyAllowedForStatus
