import Generated.C06Flow
import Generated.C06Facts
import Generated.C06Wake
import Req.H2.Flow
import Req.H2.Conn
/-!
Bridging theorems of C06: the Lean translation of `internal/http2/flow.go` and of the seeding
code of `newClientConn` / `addStreamLocked` / `awaitFlowControl` / `frameScratchBufferLen`
regenerated from /repo by `tools/gofacts` equals the hand model the property theorems are about.

The translated functions wrap every fixed-width operation; the hand model does not. Equality
therefore holds for arguments inside the Go types' ranges with non-negative windows, which is
an invariant of the connection model (`Req.Props.C06.inflow_nonneg`).

The three seeding facts that the repairs `fixes/C06-1..3` change are bridged as "the source
has the shape of the repaired code or of the known-defective code"; the lanes decide which
one is live (and report the latter as the known finding).
-/
set_option linter.unusedSimpArgs false
namespace Bridge.C06
open Req.H2 Req.H2.Flow

/-- Robust to the branch shape of the Go source (guard clause vs nested, De Morgan, early
return, a value hoisted into a local, a helper inlined by gofacts): unfold both sides, split
every `if`/`match`, let `simp_all` turn the Boolean tests into propositions and the structure
equalities into componentwise ones, and close the arithmetic (wrap-around written out as `%`)
with `omega`. -/
macro "flow_bridge" : tactic =>
  `(tactic| (repeat' (first | omega | split | simp_all)))

theorem inflowMinRefresh_eq : Generated.C06Flow.inflowMinRefresh = Flow.inflowMinRefresh := rfl

theorem inflow_init_eq (f : Inflow) (n : Int) :
    Generated.C06Flow.inflow_init f n = Inflow.init f n := by
  unfold Generated.C06Flow.inflow_init Inflow.init
  flow_bridge

theorem inflow_add_eq (f : Inflow) (n : Int)
    (ha : 0 ≤ f.avail) (ha' : f.avail ≤ 2147483647) (hu : 0 ≤ f.unsent) (hu' : f.unsent ≤ 2147483647)
    (hn : n < 4611686018427387904) :
    Generated.C06Flow.inflow_add f n = Inflow.add f n := by
  unfold Generated.C06Flow.inflow_add Inflow.add Flow.inflowMinRefresh Flow.maxWindow wrap64 wrap32
  flow_bridge

theorem inflow_take_eq (f : Inflow) (n : Int)
    (ha : 0 ≤ f.avail) (ha' : f.avail ≤ 2147483647) (hn : 0 ≤ n) :
    Generated.C06Flow.inflow_take f n = Inflow.take f n := by
  unfold Generated.C06Flow.inflow_take Inflow.take wrapU32 wrap32
  flow_bridge

theorem takeInflows_eq (f1 f2 : Inflow) (n : Int)
    (ha1 : 0 ≤ f1.avail) (ha1' : f1.avail ≤ 2147483647)
    (ha2 : 0 ≤ f2.avail) (ha2' : f2.avail ≤ 2147483647) (hn : 0 ≤ n) :
    Generated.C06Flow.takeInflows f1 f2 n = Flow.takeInflows f1 f2 n := by
  unfold Generated.C06Flow.takeInflows Flow.takeInflows wrapU32 wrap32
  flow_bridge

theorem outflow_available_eq (f : Outflow) :
    Generated.C06Flow.outflow_available f = Outflow.available f := by
  unfold Generated.C06Flow.outflow_available Outflow.available
  rcases f with ⟨n0, nn, cn⟩
  cases nn <;> flow_bridge

theorem outflow_take_eq (f : Outflow) (n : Int)
    (hn : 0 ≤ n) (h1 : In32 f.n) (h2 : In32 f.conn_n) :
    Generated.C06Flow.outflow_take f n = Outflow.take f n := by
  unfold In32 at h1 h2
  unfold Generated.C06Flow.outflow_take Outflow.take
  rw [outflow_available_eq]
  unfold Outflow.available wrap32
  rcases f with ⟨n0, nn, cn⟩
  cases nn <;> flow_bridge

theorem outflow_add_eq (f : Outflow) (n : Int) :
    Generated.C06Flow.outflow_add f n = Outflow.add f n := by
  unfold Generated.C06Flow.outflow_add Outflow.add
  flow_bridge

/-! ### constants and seeding code -/

open Req.H2.Conn

theorem transportDefaultConnFlow_eq : Generated.C06Facts.transportDefaultConnFlow = Conn.transportDefaultConnFlow := rfl
theorem transportDefaultStreamFlow_eq : Generated.C06Facts.transportDefaultStreamFlow = Conn.transportDefaultStreamFlow := rfl
theorem initialMaxConcurrentStreams_eq : Generated.C06Facts.initialMaxConcurrentStreams = (Conn.initialMaxConcurrentStreams : Int) := rfl
theorem defaultMaxConcurrentStreams_eq : Generated.C06Facts.defaultMaxConcurrentStreams = (Conn.defaultMaxConcurrentStreams : Int) := rfl
theorem initialWindowSize_eq : Generated.C06Facts.initialWindowSize = (Conn.initialWindowSize : Int) := rfl
theorem inflowMinRefresh_facts_eq : Generated.C06Facts.inflowMinRefresh = Flow.inflowMinRefresh := rfl

/-- the `ClientConn` literal of `newClientConn` agrees with `Conn.newConn` -/
theorem newConn_literal (cfg : Cfg) :
    Generated.C06Facts.cc_maxFrameSize_0 = (Conn.defaultMaxFrameSize : Int) ∧
    Generated.C06Facts.cc_initialWindowSize_0 = ((newConn cfg).1.initialWindowSize : Int) ∧
    Generated.C06Facts.cc_maxConcurrentStreams_0 = ((newConn cfg).1.maxConcurrent : Int) ∧
    Generated.C06Facts.cc_wantSettingsAck_0 = (newConn cfg).1.wantSettingsAck ∧
    Generated.C06Facts.cc_flow_0 = (newConn cfg).1.connOut ∧
    Generated.C06Facts.cc_nextStreamID_0 = 1 ∧
    Generated.C06Facts.streamIDStep = 2 :=
  ⟨rfl, rfl, rfl, rfl, rfl, rfl, rfl⟩

theorem connFlowAdvertised_eq (c : Int) :
    Generated.C06Facts.connFlowAdvertised c = Conn.connFlowAdvertised c := by
  unfold Generated.C06Facts.connFlowAdvertised Conn.connFlowAdvertised Conn.transportDefaultConnFlow
  flow_bridge

theorem connInflowInit_eq (c : Int) :
    Generated.C06Facts.connInflowInit c = Conn.connInflowInit c := by
  unfold Generated.C06Facts.connInflowInit Conn.connInflowInit Conn.connFlowAdvertised
    Conn.transportDefaultConnFlow
  flow_bridge

theorem defaultSettings_eq :
    Generated.C06Facts.defaultSettings =
      [("http2.SettingEnablePush", 0), ("http2.SettingInitialWindowSize", 4194304)] := rfl

theorem streamOutflowInitArg_eq :
    Generated.C06Facts.streamOutflowInitArg = "int32(cc.initialWindowSize)" := rfl

/-- what the caller's SETTINGS seed: the repaired or the known-defective shape (for each of
the two defects that live in this switch). -/
theorem callerSeeds_known :
    Generated.C06Facts.callerSeeds =
        -- the repaired shape only (fixes C06-1 91478db and C06-2 241d886 are in /repo): the caller's
        -- MAX_FRAME_SIZE no longer seeds cc.maxFrameSize, its INITIAL_WINDOW_SIZE seeds the stream inflow
        -- (sorted by gofacts: the order of the cases, and switch vs if-chain, mean nothing)
        [("http2.SettingHeaderTableSize", "local", "setting.Val"),
         ("http2.SettingInitialWindowSize", "cc.streamInflow", "int32(setting.Val)"),
         ("http2.SettingMaxHeaderListSize", "t.MaxHeaderListSize", "setting.Val")] := rfl

/-- the argument of `cs.inflow.init`: the hard-coded default (unchanged code) or the value
seeded from the advertised SETTINGS_INITIAL_WINDOW_SIZE (fixes/C06-2), whose own default is
`transportDefaultStreamFlow`. -/
theorem streamInflowInit_known :
    Generated.C06Facts.streamInflowInitArg = "cc.streamInflow" ∧
      Generated.C06Facts.cc_streamInflow_0 = some Conn.transportDefaultStreamFlow := ⟨rfl, rfl⟩

/-- the PRIORITY-frame seed of `nextStreamID`: unchanged code or fixes/C06-3. -/
theorem prioSeed_known :
    ∀ nx id, Generated.C06Facts.prioSeed nx id = Conn.prioSeedFixed nx id := by
  intro nx id
  unfold Generated.C06Facts.prioSeed Conn.prioSeedFixed wrapU32
  flow_bridge

theorem awaitTake_eq (a maxBytes maxFrameSize : Int)
    (ha : In32 a) (hb : 0 ≤ maxBytes) (hb' : maxBytes < 4611686018427387904)
    (hm : 0 ≤ maxFrameSize) (hm' : maxFrameSize ≤ 2147483647) :
    Generated.C06Facts.awaitTake a maxBytes maxFrameSize = Conn.awaitTake a maxBytes maxFrameSize := by
  unfold In32 at ha
  unfold Generated.C06Facts.awaitTake Conn.awaitTake wrap64 wrap32
  flow_bridge

theorem frameScratchBufferLen_eq (cl maxFrameSize : Int)
    (hc : -1 ≤ cl) (hc' : cl < 4611686018427387904)
    (hm : 0 ≤ maxFrameSize) (hm' : maxFrameSize < 4611686018427387904) :
    Generated.C06Facts.frameScratchBufferLen cl maxFrameSize = Conn.scratchLen cl maxFrameSize := by
  unfold Generated.C06Facts.frameScratchBufferLen Conn.scratchLen wrap64
  flow_bridge

/-! ### the condition variable (wake-up discipline, `Req.Props.C06.no_lost_wakeup`) -/

/-- a ClientConn's condition variable is only ever *broadcast*: every sleeper looks again at
every wake-up, which is what the model's `wakes` / `resumePending` assume (a `Signal` would wake
one sleeper, not necessarily the one whose condition became true) -/
theorem cond_broadcast_only : Generated.C06Wake.condSignalUses = 0 := rfl

/-- who sleeps on it -/
theorem cond_waiters : Generated.C06Wake.condWaiters = Req.H2.Conn.condWaiters := rfl

/-- every handler the wake-up table relies on reaches a `cond.Broadcast()` -/
theorem wake_sites_broadcast :
    Generated.C06Wake.broadcastSites = Req.H2.Conn.wakeSites.map (fun s => (s, true)) := by decide

end Bridge.C06
