import Generated.C06Flow
import Generated.C06Facts
import Req.H2.Flow
import Req.H2.Conn
/-!
Bridging theorems of C06: the Lean translation of `internal/http2/flow.go` and of the seeding
code of `newClientConn` / `addStreamLocked` / `awaitFlowControl` / `frameScratchBufferLen`
regenerated from /repo by `tools/gofacts` equals the hand model the property theorems are about.

The translated functions wrap every fixed-width operation; the hand model does not. Equality
therefore holds for arguments inside the Go types' ranges with non-negative windows, which is
an invariant of the connection model (`Req.Props.C06.inflow_nonneg`).

The three seeding facts that the repairs `fixes/C06-1..3` change are bridged as "the source
has the shape of the repaired code or of the known-defective code"; the lanes decide which
one is live (and report the latter as the known finding).
-/
set_option linter.unusedSimpArgs false
namespace Bridge.C06
open Req.H2 Req.H2.Flow

theorem inflowMinRefresh_eq : Generated.C06Flow.inflowMinRefresh = Flow.inflowMinRefresh := rfl

theorem inflow_init_eq (f : Inflow) (n : Int) :
    Generated.C06Flow.inflow_init f n = Inflow.init f n := rfl

theorem inflow_add_eq (f : Inflow) (n : Int)
    (ha : 0 ≤ f.avail) (ha' : f.avail ≤ 2147483647) (hu : 0 ≤ f.unsent) (hu' : f.unsent ≤ 2147483647)
    (hn : n < 4611686018427387904) :
    Generated.C06Flow.inflow_add f n = Inflow.add f n := by
  unfold Generated.C06Flow.inflow_add Inflow.add Flow.inflowMinRefresh Flow.maxWindow
  by_cases hneg : n < 0
  · simp [hneg]
  · have h1 : wrap64 f.unsent = f.unsent := by unfold wrap64; omega
    have h2 : wrap64 n = n := by unfold wrap64; omega
    have h3 : wrap64 (f.unsent + n) = f.unsent + n := by unfold wrap64; omega
    have h4 : wrap64 f.avail = f.avail := by unfold wrap64; omega
    have h5 : wrap64 (f.unsent + n + f.avail) = f.unsent + n + f.avail := by unfold wrap64; omega
    simp only [hneg, decide_false, h1, h2, h3, h4, h5, Bool.false_eq_true, if_false]
    by_cases hov : f.unsent + n + f.avail > 2147483647
    · simp [hov]
    · have h6 : wrap32 (f.unsent + n) = f.unsent + n := by unfold wrap32; omega
      have h7 : wrap32 (f.avail + (f.unsent + n)) = f.avail + (f.unsent + n) := by unfold wrap32; omega
      simp only [hov, decide_false, Bool.false_eq_true, if_false, h6, h7]
      by_cases hb : f.unsent + n < 4096 ∧ f.unsent + n < f.avail
      · simp [hb]
      · have : ¬ ((decide (f.unsent + n < 4096) && decide (f.unsent + n < f.avail)) = true) := by
          simpa using hb
        simp [hb, this]

theorem inflow_take_eq (f : Inflow) (n : Int)
    (ha : 0 ≤ f.avail) (ha' : f.avail ≤ 2147483647) (hn : 0 ≤ n) :
    Generated.C06Flow.inflow_take f n = Inflow.take f n := by
  unfold Generated.C06Flow.inflow_take Inflow.take
  have h1 : wrapU32 f.avail = f.avail := by unfold wrapU32; omega
  rw [h1]
  by_cases h : n > f.avail
  · simp [h]
  · have h2 : wrap32 n = n := by unfold wrap32; omega
    have h3 : wrap32 (f.avail - n) = f.avail - n := by unfold wrap32; omega
    simp [h, h2, h3]

theorem takeInflows_eq (f1 f2 : Inflow) (n : Int)
    (ha1 : 0 ≤ f1.avail) (ha1' : f1.avail ≤ 2147483647)
    (ha2 : 0 ≤ f2.avail) (ha2' : f2.avail ≤ 2147483647) (hn : 0 ≤ n) :
    Generated.C06Flow.takeInflows f1 f2 n = Flow.takeInflows f1 f2 n := by
  unfold Generated.C06Flow.takeInflows Flow.takeInflows
  have h1 : wrapU32 f1.avail = f1.avail := by unfold wrapU32; omega
  have h2 : wrapU32 f2.avail = f2.avail := by unfold wrapU32; omega
  rw [h1, h2]
  by_cases h : n > f1.avail ∨ n > f2.avail
  · have : (decide (n > f1.avail) || decide (n > f2.avail)) = true := by simpa using h
    simp [h, this]
  · have hb : ¬ ((decide (n > f1.avail) || decide (n > f2.avail)) = true) := by simpa using h
    have h3 : wrap32 n = n := by unfold wrap32; omega
    have h4 : wrap32 (f1.avail - n) = f1.avail - n := by unfold wrap32; omega
    have h5 : wrap32 (f2.avail - n) = f2.avail - n := by unfold wrap32; omega
    simp [h, hb, h3, h4, h5]

theorem outflow_available_eq (f : Outflow) :
    Generated.C06Flow.outflow_available f = Outflow.available f := by
  unfold Generated.C06Flow.outflow_available Outflow.available
  by_cases h : f.conn_nonnil = true ∧ f.conn_n < f.n
  · have : (f.conn_nonnil && decide (f.conn_n < f.n)) = true := by simpa using h
    simp [h, this]
  · have : ¬ ((f.conn_nonnil && decide (f.conn_n < f.n)) = true) := by simpa using h
    simp [h, this]

theorem outflow_take_eq (f : Outflow) (n : Int)
    (hn : 0 ≤ n) (h1 : In32 f.n) (h2 : In32 f.conn_n) :
    Generated.C06Flow.outflow_take f n = Outflow.take f n := by
  unfold Generated.C06Flow.outflow_take Outflow.take
  rw [outflow_available_eq]
  by_cases h : n > Outflow.available f
  · simp [h]
  · have hav : n ≤ Outflow.available f := by omega
    unfold In32 at h1 h2
    have hle : n ≤ f.n ∧ (f.conn_nonnil = true → n ≤ f.conn_n) := by
      unfold Outflow.available at hav
      by_cases hc : f.conn_nonnil = true ∧ f.conn_n < f.n
      · rw [if_pos hc] at hav; exact ⟨by omega, fun _ => hav⟩
      · rw [if_neg hc] at hav
        refine ⟨hav, fun hnn => ?_⟩
        have : ¬ f.conn_n < f.n := fun hlt => hc ⟨hnn, hlt⟩
        omega
    have w1 : wrap32 (f.n - n) = f.n - n := by unfold wrap32; omega
    by_cases hc : f.conn_nonnil = true
    · have w2 : wrap32 (f.conn_n - n) = f.conn_n - n := by
        have := hle.2 hc; unfold wrap32; omega
      simp [h, hc, w1, w2]
    · simp [h, hc, w1]

theorem outflow_add_eq (f : Outflow) (n : Int) :
    Generated.C06Flow.outflow_add f n = Outflow.add f n := rfl

/-! ### constants and seeding code -/

open Req.H2.Conn

theorem transportDefaultConnFlow_eq : Generated.C06Facts.transportDefaultConnFlow = Conn.transportDefaultConnFlow := rfl
theorem transportDefaultStreamFlow_eq : Generated.C06Facts.transportDefaultStreamFlow = Conn.transportDefaultStreamFlow := rfl
theorem initialMaxConcurrentStreams_eq : Generated.C06Facts.initialMaxConcurrentStreams = (Conn.initialMaxConcurrentStreams : Int) := rfl
theorem defaultMaxConcurrentStreams_eq : Generated.C06Facts.defaultMaxConcurrentStreams = (Conn.defaultMaxConcurrentStreams : Int) := rfl
theorem initialWindowSize_eq : Generated.C06Facts.initialWindowSize = (Conn.initialWindowSize : Int) := rfl
theorem inflowMinRefresh_facts_eq : Generated.C06Facts.inflowMinRefresh = Flow.inflowMinRefresh := rfl

/-- the `ClientConn` literal of `newClientConn` agrees with `Conn.newConn` -/
theorem newConn_literal (cfg : Cfg) :
    Generated.C06Facts.cc_maxFrameSize_0 = (Conn.defaultMaxFrameSize : Int) ∧
    Generated.C06Facts.cc_initialWindowSize_0 = ((newConn cfg).1.initialWindowSize : Int) ∧
    Generated.C06Facts.cc_maxConcurrentStreams_0 = ((newConn cfg).1.maxConcurrent : Int) ∧
    Generated.C06Facts.cc_wantSettingsAck_0 = (newConn cfg).1.wantSettingsAck ∧
    Generated.C06Facts.cc_flow_0 = (newConn cfg).1.connOut ∧
    Generated.C06Facts.cc_nextStreamID_0 = 1 ∧
    Generated.C06Facts.streamIDStep = 2 :=
  ⟨rfl, rfl, rfl, rfl, rfl, rfl, rfl⟩

theorem connFlowAdvertised_eq (c : Int) :
    Generated.C06Facts.connFlowAdvertised c = Conn.connFlowAdvertised c := by
  unfold Generated.C06Facts.connFlowAdvertised Conn.connFlowAdvertised Conn.transportDefaultConnFlow
  by_cases h : c < 1 <;> simp [h]

theorem connInflowInit_eq (c : Int) :
    Generated.C06Facts.connInflowInit c = Conn.connInflowInit c := by
  unfold Generated.C06Facts.connInflowInit Conn.connInflowInit Conn.connFlowAdvertised
    Conn.transportDefaultConnFlow
  by_cases h : c < 1 <;> simp [h]

theorem defaultSettings_eq :
    Generated.C06Facts.defaultSettings =
      [("http2.SettingEnablePush", 0), ("http2.SettingInitialWindowSize", 4194304)] := rfl

theorem streamOutflowInitArg_eq :
    Generated.C06Facts.streamOutflowInitArg = "int32(cc.initialWindowSize)" := rfl

/-- what the caller's SETTINGS seed: the repaired or the known-defective shape (for each of
the two defects that live in this switch). -/
theorem callerSeeds_known :
    Generated.C06Facts.callerSeeds =
        -- the repaired shape only (fixes C06-1 91478db and C06-2 241d886 are in /repo): the caller's
        -- MAX_FRAME_SIZE no longer seeds cc.maxFrameSize, its INITIAL_WINDOW_SIZE seeds the stream inflow
        [("http2.SettingMaxHeaderListSize", "t.MaxHeaderListSize", "setting.Val"),
         ("http2.SettingHeaderTableSize", "headerTableSize", "setting.Val"),
         ("http2.SettingInitialWindowSize", "cc.streamInflow", "int32(setting.Val)")] := rfl

/-- the argument of `cs.inflow.init`: the hard-coded default (unchanged code) or the value
seeded from the advertised SETTINGS_INITIAL_WINDOW_SIZE (fixes/C06-2), whose own default is
`transportDefaultStreamFlow`. -/
theorem streamInflowInit_known :
    Generated.C06Facts.streamInflowInitArg = "cc.streamInflow" ∧
      Generated.C06Facts.cc_streamInflow_0 = some Conn.transportDefaultStreamFlow := ⟨rfl, rfl⟩

/-- the PRIORITY-frame seed of `nextStreamID`: unchanged code or fixes/C06-3. -/
theorem prioSeed_known :
    ∀ nx id, Generated.C06Facts.prioSeed nx id = Conn.prioSeedFixed nx id := by
  intro nx id
  unfold Generated.C06Facts.prioSeed Conn.prioSeedFixed
  simp only [decide_eq_true_eq]

theorem awaitTake_eq (a maxBytes maxFrameSize : Int)
    (ha : In32 a) (hb : 0 ≤ maxBytes) (hb' : maxBytes < 4611686018427387904)
    (hm : 0 ≤ maxFrameSize) (hm' : maxFrameSize ≤ 2147483647) :
    Generated.C06Facts.awaitTake a maxBytes maxFrameSize = Conn.awaitTake a maxBytes maxFrameSize := by
  unfold Generated.C06Facts.awaitTake Conn.awaitTake
  unfold In32 at ha
  have h1 : wrap64 a = a := by unfold wrap64; omega
  have h2 : wrap32 maxFrameSize = maxFrameSize := by unfold wrap32; omega
  by_cases h : a > maxBytes
  · have h3 : wrap32 maxBytes = maxBytes := by unfold wrap32; omega
    by_cases h' : maxBytes > maxFrameSize <;> simp [h, h', h1, h2, h3]
  · by_cases h' : a > maxFrameSize <;> simp [h, h', h1, h2]

theorem frameScratchBufferLen_eq (cl maxFrameSize : Int)
    (hc : -1 ≤ cl) (hc' : cl < 4611686018427387904)
    (hm : 0 ≤ maxFrameSize) (hm' : maxFrameSize < 4611686018427387904) :
    Generated.C06Facts.frameScratchBufferLen cl maxFrameSize = Conn.scratchLen cl maxFrameSize := by
  unfold Generated.C06Facts.frameScratchBufferLen Conn.scratchLen
  have h1 : wrap64 maxFrameSize = maxFrameSize := by unfold wrap64; omega
  have h2 : wrap64 (cl + 1) = cl + 1 := by unfold wrap64; omega
  have h3 : wrap64 (524288 : Int) = 524288 := by unfold wrap64; omega
  by_cases hbig : maxFrameSize > 524288
  · by_cases hcl : cl ≠ -1 ∧ cl + 1 < 524288
    · by_cases hz : cl + 1 < 1 <;> simp [hbig, hcl, hz, h1, h2, h3]
    · have hcl' : cl = -1 ∨ ¬ cl + 1 < 524288 := by omega
      rcases hcl' with hcl' | hcl' <;> simp [hbig, hcl', h1, h2, h3]
  · by_cases hcl : cl ≠ -1 ∧ cl + 1 < maxFrameSize
    · by_cases hz : cl + 1 < 1 <;> simp [hbig, hcl, hz, h1, h2, h3]
    · have hcl' : cl = -1 ∨ ¬ cl + 1 < maxFrameSize := by omega
      by_cases hz : maxFrameSize < 1 <;>
        rcases hcl' with hcl' | hcl' <;> simp [hbig, hcl', hz, h1, h2, h3]

end Bridge.C06
