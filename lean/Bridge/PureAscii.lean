import Generated.PureAscii
import Req.Base.Ascii
/-!
Bridge: `internal/ascii/print.go` (`lower`, `EqualFold`, `IsPrint`, `Is`), translated from the Go
source by `tools/gofacts` on every run, against the hand-written `Req.Ascii` model functions used
by the header / charset / digest / content-type comparisons of several properties.  Each statement
is for EVERY byte string and also says the Go function does not panic (`s[i]`, `t[i]` in range).
-/
namespace Bridge.PureAscii
open Req.GoSem Req.Ascii
open Generated.PureAscii (equalFold_loop1 isPrint_loop1 isASCII_loop1)

/-- `ascii.lower` is the model's `toLower`. -/
theorem lower_bridge (b : UInt8) : Generated.PureAscii.lower b = toLower b := by
  -- by evaluation on all 256 bytes: independent of how the Go function is written
  have h : ∀ n, n < 256 → Generated.PureAscii.lower (UInt8.ofNat n) = toLower (UInt8.ofNat n) := by
    decide +kernel
  simpa using h b.toNat (UInt8.toNat_lt b)

theorem idx_drop {α : Type} (s : List α) (i : Nat) (x : α) (xs : List α)
    (h : s.drop i = x :: xs) : idx? s (i : Int) = some x := by
  rw [idx?_eq_getElem?]
  have := List.getElem?_drop (xs := s) (i := i) (j := 0)
  rw [h] at this
  simpa using this.symm

theorem drop_succ_of {α : Type} (s : List α) (i : Nat) (x : α) (xs : List α)
    (h : s.drop i = x :: xs) : s.drop (i + 1) = xs := by
  have : s.drop (i + 1) = (s.drop i).drop 1 := by simp [List.drop_drop]
  rw [this, h]; rfl

theorem drop_cases {α : Type} (s : List α) (i fuel : Nat) (h : i + (fuel + 1) = s.length) :
    ∃ x xs, s.drop i = x :: xs := by
  cases hd : s.drop i with
  | nil => have := congrArg List.length hd; simp at this; omega
  | cons x xs => exact ⟨x, xs, rfl⟩

theorem equalFold_loop (s t : Bytes) : ∀ (fuel i : Nat), i + fuel = s.length → s.length = t.length →
    equalFold_loop1 s t fuel (i : Int) = Res.ok (lower (s.drop i) == lower (t.drop i)) := by
  intro fuel
  induction fuel with
  | zero =>
    intro i h1 h2
    have hs : s.drop i = [] := by simp; omega
    have ht : t.drop i = [] := by simp; omega
    simp [equalFold_loop1, hs, ht, lower]
  | succ f ih =>
    intro i h1 h2
    obtain ⟨x, xs, hx⟩ := drop_cases s i f h1
    obtain ⟨y, ys, hy⟩ := drop_cases t i f (by omega)
    rw [equalFold_loop1]
    simp only [idx_drop s i x xs hx, idx_drop t i y ys hy, lower_bridge]
    have := ih (i + 1) (by omega) h2
    rw [drop_succ_of s i x xs hx, drop_succ_of t i y ys hy] at this
    rw [hx, hy]
    by_cases hxy : toLower x = toLower y
    · simp only [hxy, bne_self_eq_false, Bool.false_eq_true, if_false]
      rw [show ((i : Int) + 1) = ((i + 1 : Nat) : Int) by simp, this]
      simp [lower, hxy]
    · have : (toLower x != toLower y) = true := by simp [hxy]
      simp only [this, if_true]
      simp [lower, hxy]

/-- `ascii.EqualFold` never panics and is the model's `equalFold` (equality after ASCII lower-casing). -/
theorem equalFold_bridge (s t : Bytes) :
    Generated.PureAscii.equalFold s t = Res.ok (equalFold s t) := by
  unfold Generated.PureAscii.equalFold equalFold
  by_cases hl : s.length = t.length
  · have h1 : (len s != len t) = false := by simp [len, hl]
    simp only [h1, Bool.false_eq_true, if_false]
    have := equalFold_loop s t s.length 0 (by omega) hl
    simpa [len] using this
  · have h1 : (len s != len t) = true := by simp [len]; omega
    simp only [h1, if_true]
    have : (lower s == lower t) = false := by
      apply Bool.eq_false_iff.mpr
      intro h
      have := congrArg List.length (eq_of_beq h)
      simp [lower] at this
      exact hl this
    rw [this]

/-- The printable-ASCII predicate of `ascii.IsPrint` (RFC 20 section 4.2: 0x20 … 0x7E). -/
def isPrintByte (c : UInt8) : Bool := !(decide (c < 32)) && !(decide (c > 126))

theorem isPrint_loop (s : Bytes) : ∀ (fuel i : Nat), i + fuel = s.length →
    isPrint_loop1 s fuel (i : Int) = Res.ok ((s.drop i).all isPrintByte) := by
  intro fuel
  induction fuel with
  | zero => intro i h; have hs : s.drop i = [] := by simp; omega
            simp [isPrint_loop1, hs]
  | succ f ih =>
    intro i h
    obtain ⟨x, xs, hx⟩ := drop_cases s i f h
    rw [isPrint_loop1]
    simp only [idx_drop s i x xs hx]
    have := ih (i + 1) (by omega)
    rw [drop_succ_of s i x xs hx] at this
    rw [hx, show ((i : Int) + 1) = ((i + 1 : Nat) : Int) by simp, this]
    by_cases h1 : x < 32
    · simp [h1, isPrintByte]
    · by_cases h2 : x > 126
      · simp [h1, h2, isPrintByte]
      · simp [h1, h2, isPrintByte]

/-- `ascii.IsPrint` never panics and holds exactly when every byte is in 0x20 … 0x7E. -/
theorem isPrint_bridge (s : Bytes) :
    Generated.PureAscii.isPrint s = Res.ok (s.all isPrintByte) := by
  unfold Generated.PureAscii.isPrint
  have := isPrint_loop s s.length 0 (by omega)
  simpa [len] using this

theorem isASCII_loop (s : Bytes) : ∀ (fuel i : Nat), i + fuel = s.length →
    isASCII_loop1 s fuel (i : Int) = Res.ok ((s.drop i).all (fun c => !(decide (c > 127)))) := by
  intro fuel
  induction fuel with
  | zero => intro i h; have hs : s.drop i = [] := by simp; omega
            simp [isASCII_loop1, hs]
  | succ f ih =>
    intro i h
    obtain ⟨x, xs, hx⟩ := drop_cases s i f h
    rw [isASCII_loop1]
    simp only [idx_drop s i x xs hx]
    have := ih (i + 1) (by omega)
    rw [drop_succ_of s i x xs hx] at this
    rw [hx, show ((i : Int) + 1) = ((i + 1 : Nat) : Int) by simp, this]
    by_cases h1 : x > 127
    · simp [h1]
    · simp [h1]

/-- `ascii.Is` never panics and holds exactly when no byte exceeds 0x7F. -/
theorem isASCII_bridge (s : Bytes) :
    Generated.PureAscii.isASCII s = Res.ok (s.all (fun c => !(decide (c > 127)))) := by
  unfold Generated.PureAscii.isASCII
  have := isASCII_loop s s.length 0 (by omega)
  simpa [len] using this

end Bridge.PureAscii
