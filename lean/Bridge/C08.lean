import Generated.C08Facts
import Req.Props.C08
/-!
Bridge for C08: the facts regenerated from request.go (`Request.do`) against the model.

* the wait between retry attempts has one of the two shapes the model knows, and it selects on
  the request context — unless exactly that defect is the recorded open finding
  (`open: property=C08 class=retry-sleep-ignores-ctx` in known-findings.txt, read by gofacts);
  once the fix is applied and the open line removed this is the strict statement
  `retrySleepSelectsCtx = true`;
* `Request.do` stops retrying on `context.Canceled` (`contextCanceled` guard);
* `cancel_prompt` instantiated at the regenerated fact.
-/
namespace Bridge.C08
open Req.Cancel Generated.C08Facts

theorem retry_wait_shape_known :
    retrySleepShape = "select-ctx-done" ∨ retrySleepShape = "time.Sleep" := by decide

theorem retry_wait_shape_consistent :
    retrySleepSelectsCtx = (retrySleepShape == "select-ctx-done") := by decide

/-- the sleep fact `cancel_prompt` needs holds of the tree (or its absence is the known finding) -/
theorem retry_wait_selects_ctx :
    retrySleepSelectsCtx = true ∨ openFindingRetrySleep = true := by decide

/-- `finish` of the model stops on `context.Canceled` because `Request.do` does -/
theorem stops_on_context_canceled : stopsOnContextCanceled = true := by decide

/-- the model configuration of the current tree -/
def treeCfg (c : Cfg) : Cfg := { c with sleepSelectsCtx := retrySleepSelectsCtx }

/-- `cancel_prompt` for the tree as it is: whenever the regenerated fact is `true` -/
theorem cancel_prompt_on_tree (hfact : retrySleepSelectsCtx = true) (c : Cfg)
    (s : St) (hreach : Reach (treeCfg c) s) (e : CtxErr)
    (hcan : evGuard (treeCfg c) s (.cancel e) = true)
    (as : List Act) (s' : St) (hrun : Run (treeCfg c) (evApply (treeCfg c) s (.cancel e)) as s') :
    as.length ≤ K ∧ s'.sleepsDone = s.sleepsDone ∧
    (stuck (treeCfg c) s' = true →
      s'.phase = .done ∧ s'.result.identifies e = true ∧ s'.res.released = true) := by
  obtain ⟨h1, h2, h3⟩ := Req.Props.C08.cancel_prompt (treeCfg c) hfact s hreach e hcan as s' hrun
  exact ⟨h1, h2, fun h => ⟨(h3 h).1, (h3 h).2.1, (h3 h).2.2.1⟩⟩

end Bridge.C08
